/-
  The forest invariant of the layer table (`WF`) and its preservation by the four pure
  table updates behind add / remove / rename / rebase.  Helpers for Props/C02.

  `Chain L b c`: following base links from the name `b` through the table `L` (each link
  resolved by `find?` on the name, as the Go code does) one passes the names `c` and
  arrives at a root.  `chainOk_iff` / `checkInheritance_iff` say that the fuelled,
  visited-set walk of `checkInheritance` accepts exactly the tables in which every layer
  has such a chain that does not come back to the layer (the fuel `#layers + 1` is never
  the reason for a refusal: pigeonhole).
-/
import Lc.Model.Layers
import Lc.Lemmas.Forest

namespace Lc.ForestInv
open Lc Lc.Layers Lc.Forest

/-! ### chains -/

inductive Chain (L : List Layer) : Bytes → List Bytes → Prop where
  | root : Chain L [] []
  | up (b : Bytes) (p : Layer) (c : List Bytes) : b ≠ [] → L.find? (·.name == b) = some p →
      Chain L p.base c → Chain L b (b :: c)

theorem find_name {L : List Layer} {b : Bytes} {p : Layer}
    (h : L.find? (·.name == b) = some p) : p.name = b := by
  have := List.find?_some h
  simpa using this

theorem length_eq_zero_iff (b : Bytes) : (b.length == 0) = true ↔ b = [] := by
  cases b <;> simp

theorem chainOk_iff (L : List Layer) :
    ∀ (fuel : Nat) (v : List Bytes) (b : Bytes),
      chainOk L fuel v b = true ↔
        ∃ c, Chain L b c ∧ c.length < fuel ∧ c.Nodup ∧ ∀ x ∈ c, x ∉ v := by
  intro fuel
  induction fuel with
  | zero =>
    intro v b
    simp [chainOk]
  | succ n ih =>
    intro v b
    unfold chainOk
    by_cases hb : b = []
    · subst hb
      simp only [List.length_nil, beq_self_eq_true, if_true, true_iff]
      exact ⟨[], Chain.root, by simp, List.nodup_nil, by simp⟩
    · have hb' : ¬ (b.length == 0) = true := fun h => hb ((length_eq_zero_iff b).mp h)
      simp only [hb', Bool.false_eq_true, if_false]
      cases hf : L.find? (·.name == b) with
      | none =>
        simp only [Bool.false_eq_true, false_iff]
        rintro ⟨c, hc, _⟩
        cases hc with
        | root => exact hb rfl
        | up _ p c' _ hp _ => rw [hf] at hp; cases hp
      | some p =>
        have hpn : p.name = b := find_name hf
        simp only
        by_cases hv : v.contains p.name = true
        · rw [if_pos hv]
          simp only [Bool.false_eq_true, false_iff]
          rintro ⟨c, hc, _, _, hd⟩
          cases hc with
          | root => exact hb rfl
          | up _ q c' _ hq _ =>
            have := hd b (by simp)
            apply this
            rw [← hpn]
            simpa using hv
        · rw [if_neg hv, ih]
          have hbv : b ∉ v := by
            intro h; apply hv; rw [hpn]; simpa using h
          constructor
          · rintro ⟨c, hc, hl, hn, hd⟩
            refine ⟨b :: c, Chain.up b p c hb hf hc, by simp; omega, ?_, ?_⟩
            · rw [List.nodup_cons]
              refine ⟨?_, hn⟩
              intro hm
              have := hd b hm
              apply this; rw [hpn]; simp
            · intro x hx
              rcases List.mem_cons.mp hx with rfl | hx
              · exact hbv
              · intro hxv
                exact hd x hx (List.mem_cons_of_mem _ hxv)
          · rintro ⟨c, hc, hl, hn, hd⟩
            cases hc with
            | root => exact absurd rfl hb
            | up _ q c' _ hq hc' =>
              rw [hf] at hq
              cases hq
              rw [List.nodup_cons] at hn
              refine ⟨c', hc', by simp at hl; omega, hn.2, ?_⟩
              intro x hx hxv
              rw [hpn] at hxv
              rcases List.mem_cons.mp hxv with rfl | hxv
              · exact hn.1 hx
              · exact hd x (List.mem_cons_of_mem _ hx) hxv

/-- every name on a chain is the name of a layer of the table -/
theorem chain_names {L : List Layer} {b : Bytes} {c : List Bytes} (h : Chain L b c) :
    ∀ x ∈ c, x ∈ L.map (·.name) := by
  induction h with
  | root => simp
  | up b p c _ hf _ ih =>
    intro x hx
    rcases List.mem_cons.mp hx with rfl | hx
    · exact List.mem_map.mpr ⟨p, List.mem_of_find?_eq_some hf, find_name hf⟩
    · exact ih x hx

/-- a chain that starts at a named base starts with that name -/
theorem chain_head {L : List Layer} {b : Bytes} {c : List Bytes} (h : Chain L b c) (hb : b ≠ []) :
    ∃ p c', L.find? (·.name == b) = some p ∧ c = b :: c' ∧ Chain L p.base c' := by
  cases h with
  | root => exact absurd rfl hb
  | up _ p c' _ hf hc => exact ⟨p, c', hf, rfl, hc⟩

/-- **the cycle check, without fuel and visited set**: `checkInheritance` accepts a table iff
    from every layer's base a chain of distinct names leads to a root without passing the
    layer's own name -/
theorem checkInheritance_iff (L : List Layer) :
    checkInheritance L = true ↔
      ∀ l ∈ L, ∃ c, Chain L l.base c ∧ c.Nodup ∧ l.name ∉ c := by
  unfold checkInheritance
  rw [List.all_eq_true]
  constructor
  · intro h l hl
    obtain ⟨c, hc, _, hn, hd⟩ := (chainOk_iff L _ _ _).mp (h l hl)
    refine ⟨c, hc, hn, ?_⟩
    intro hm
    exact hd _ hm (by simp)
  · intro h l hl
    obtain ⟨c, hc, hn, hd⟩ := h l hl
    rw [chainOk_iff]
    refine ⟨c, hc, ?_, hn, ?_⟩
    · have := List.Nodup.length_le_of_subset hn (fun x hx => chain_names hc x hx)
      simp at this
      omega
    · intro x hx hxv
      simp at hxv
      subst hxv
      exact hd hx

/-! ### lookups in the updated tables -/

theorem find?_filter_ne (L : List Layer) (n b : Bytes) (hb : b ≠ n) :
    (L.filter (·.name != n)).find? (·.name == b) = L.find? (·.name == b) := by
  induction L with
  | nil => rfl
  | cons x xs ih =>
    by_cases hx : x.name = n
    · have h1 : (x.name != n) = false := by simp [hx]
      have h2 : (x.name == b) = false := by
        rw [hx]; simp; exact fun h => hb h.symm
      simp only [List.filter_cons, h1, List.find?_cons, h2]
      exact ih
    · have h1 : (x.name != n) = true := by simp [hx]
      simp only [List.filter_cons, h1, if_true, List.find?_cons]
      rw [ih]

theorem find?_none_iff (L : List Layer) (n : Bytes) :
    L.find? (·.name == n) = none ↔ n ∉ L.map (·.name) := by
  rw [List.find?_eq_none]
  simp only [List.mem_map, not_exists, not_and, beq_iff_eq]

/-- a map that keeps names keeps lookups, up to the map -/
theorem find?_map_keep (L : List Layer) (f : Layer → Layer) (hf : ∀ x, (f x).name = x.name) (b : Bytes) :
    (L.map f).find? (·.name == b) = (L.find? (·.name == b)).map f := by
  induction L with
  | nil => rfl
  | cons x xs ih =>
    simp only [List.map_cons, List.find?_cons, hf]
    by_cases hx : (x.name == b) = true
    · simp [hx]
    · simp only [hx]; exact ih

/-! ### add -/

theorem chain_append {L : List Layer} (x : Layer) {b : Bytes} {c : List Bytes} (h : Chain L b c) :
    Chain (L ++ [x]) b c := by
  induction h with
  | root => exact Chain.root
  | up b p c hb hf _ ih =>
    refine Chain.up b p c hb ?_ ih
    rw [List.find?_append, hf]; rfl

theorem check_add (L : List Layer) (x : Layer) (hfree : x.name ∉ L.map (·.name))
    (hbase : x.base ≠ [] → ∃ p, L.find? (·.name == x.base) = some p)
    (h : checkInheritance L = true) : checkInheritance (L ++ [x]) = true := by
  rw [checkInheritance_iff] at h ⊢
  intro l hl
  rcases List.mem_append.mp hl with hl | hl
  · obtain ⟨c, hc, hn, hd⟩ := h l hl
    exact ⟨c, chain_append x hc, hn, hd⟩
  · simp at hl
    subst hl
    by_cases hb : l.base = []
    · rw [hb]
      exact ⟨[], Chain.root, List.nodup_nil, by simp⟩
    · obtain ⟨p, hp⟩ := hbase hb
      have hpm : p ∈ L := List.mem_of_find?_eq_some hp
      have hpn : p.name = l.base := find_name hp
      obtain ⟨c, hc, hn, hd⟩ := h p hpm
      have hch : Chain L l.base (l.base :: c) := Chain.up l.base p c hb hp hc
      refine ⟨l.base :: c, chain_append l hch, ?_, ?_⟩
      · rw [List.nodup_cons]; exact ⟨by rw [← hpn]; exact hd, hn⟩
      · intro hm
        exact hfree (chain_names hch _ hm)

/-! ### remove -/

theorem chain_filter {L : List Layer} (n : Bytes) {b : Bytes} {c : List Bytes} (h : Chain L b c)
    (hn : n ∉ c) : Chain (L.filter (·.name != n)) b c := by
  induction h with
  | root => exact Chain.root
  | up b p c hb hf _ ih =>
    have hbn : b ≠ n := fun e => hn (by simp [e])
    refine Chain.up b p c hb ?_ (ih (fun hm => hn (List.mem_cons_of_mem _ hm)))
    rw [find?_filter_ne L n b hbn]; exact hf

/-- nobody's base is `n`: no chain that starts elsewhere passes `n` -/
theorem chain_avoid {L : List Layer} (n : Bytes) (hno : ∀ l ∈ L, l.base ≠ n) {b : Bytes}
    {c : List Bytes} (h : Chain L b c) (hb : b ≠ n) : n ∉ c := by
  induction h with
  | root => simp
  | up b p c _ hf _ ih =>
    intro hm
    rcases List.mem_cons.mp hm with e | hm
    · exact hb e.symm
    · exact ih (hno p (List.mem_of_find?_eq_some hf)) hm

theorem check_remove (L : List Layer) (n : Bytes) (hno : ∀ l ∈ L, l.base ≠ n)
    (h : checkInheritance L = true) : checkInheritance (L.filter (·.name != n)) = true := by
  rw [checkInheritance_iff] at h ⊢
  intro l hl
  have hlL := (List.mem_filter.mp hl).1
  obtain ⟨c, hc, hnd, hd⟩ := h l hlL
  exact ⟨c, chain_filter n hc (chain_avoid n hno hc (hno l hlL)), hnd, hd⟩

/-! ### rename -/

/-- the renaming of names: `old ↦ new`, everything else fixed -/
def rn (old new x : Bytes) : Bytes := if x = old then new else x

/-- what rename does to a child record -/
def rebaseKid (old new : Bytes) (x : Layer) : Layer :=
  if x.base == old then { x with base := new } else x

theorem rebaseKid_name (old new : Bytes) (x : Layer) : (rebaseKid old new x).name = x.name := by
  unfold rebaseKid; split <;> rfl

theorem rebaseKid_base (old new : Bytes) (x : Layer) : (rebaseKid old new x).base = rn old new x.base := by
  unfold rebaseKid rn
  by_cases h : x.base = old <;> simp [h]

/-- the table after `rename old new`: children re-based, the old record dropped, the new
    record `l'` appended -/
def renamed (L : List Layer) (old new : Bytes) (l' : Layer) : List Layer :=
  (L.map (rebaseKid old new)).filter (·.name != old) ++ [l']

theorem rn_inj (L : List Layer) (old new : Bytes) (hnew : new ∉ L.map (·.name)) (a b : Bytes)
    (ha : a ∈ L.map (·.name)) (hb : b ∈ L.map (·.name)) (h : rn old new a = rn old new b) : a = b := by
  unfold rn at h
  by_cases h1 : a = old <;> by_cases h2 : b = old <;> simp only [h1, h2, if_true, if_false] at h
  · rw [h1, h2]
  · rw [h] at hnew; exact absurd hb hnew
  · rw [← h] at hnew; exact absurd ha hnew
  · exact h

theorem names_renamed_front (L : List Layer) (old new : Bytes) :
    ((L.map (rebaseKid old new)).filter (·.name != old)).map (·.name)
      = (L.map (·.name)).filter (· != old) := by
  induction L with
  | nil => rfl
  | cons x xs ih =>
    simp only [List.map_cons, List.filter_cons, rebaseKid_name]
    by_cases h : (x.name != old) = true
    · simp only [h, if_true, List.map_cons, rebaseKid_name, ih]
    · simp only [h, Bool.false_eq_true, if_false, ih]

theorem chain_rename (L : List Layer) (old new : Bytes) (l l' : Layer)
    (hnew : new ∉ L.map (·.name)) (hne : new ≠ []) (hoe : old ≠ [])
    (hl : L.find? (·.name == old) = some l) (hlb : l.base ≠ old)
    (hn' : l'.name = new) (hb' : l'.base = l.base)
    {b : Bytes} {c : List Bytes} (h : Chain L b c) :
    Chain (renamed L old new l') (rn old new b) (c.map (rn old new)) := by
  induction h with
  | root =>
    have : rn old new [] = [] := by unfold rn; rw [if_neg (fun e => hoe e.symm)]
    rw [this]; exact Chain.root
  | up b p c hb hf _ ih =>
    simp only [List.map_cons]
    by_cases hbo : b = old
    · -- the walk passes the renamed layer itself
      subst hbo
      rw [hl] at hf
      cases hf
      have hr : rn b new b = new := by unfold rn; simp
      rw [hr]
      have hfront : ((L.map (rebaseKid b new)).filter (·.name != b)).find? (·.name == new) = none := by
        rw [find?_none_iff, names_renamed_front]
        intro hm
        exact hnew (List.mem_filter.mp hm).1
      have hfind : (renamed L b new l').find? (·.name == new) = some l' := by
        unfold renamed
        rw [List.find?_append, hfront]
        simp [hn']
      refine Chain.up new l' _ hne hfind ?_
      have : l'.base = rn b new l.base := by
        rw [hb']; unfold rn; rw [if_neg hlb]
      rw [this]; exact ih
    · have hr : rn old new b = b := by unfold rn; rw [if_neg hbo]
      rw [hr]
      have hfind : (renamed L old new l').find? (·.name == b) = some (rebaseKid old new p) := by
        unfold renamed
        rw [List.find?_append, find?_filter_ne _ old b hbo,
          find?_map_keep L _ (rebaseKid_name old new) b, hf]
        rfl
      refine Chain.up b _ _ hb hfind ?_
      rw [rebaseKid_base]; exact ih

theorem nodup_map_rn (L : List Layer) (old new : Bytes) (hnew : new ∉ L.map (·.name))
    (c : List Bytes) (hc : ∀ x ∈ c, x ∈ L.map (·.name)) (hn : c.Nodup) :
    (c.map (rn old new)).Nodup := by
  unfold List.Nodup
  rw [List.pairwise_map]
  exact List.Pairwise.imp_of_mem
    (fun ha hb hab e => hab (rn_inj L old new hnew _ _ (hc _ ha) (hc _ hb) e)) hn

theorem check_rename (L : List Layer) (old new : Bytes) (l l' : Layer)
    (hnew : new ∉ L.map (·.name)) (hne : new ≠ []) (hoe : old ≠ [])
    (hl : L.find? (·.name == old) = some l)
    (hn' : l'.name = new) (hb' : l'.base = l.base)
    (h : checkInheritance L = true) : checkInheritance (renamed L old new l') = true := by
  have hlm : l ∈ L := List.mem_of_find?_eq_some hl
  have hln : l.name = old := find_name hl
  rw [checkInheritance_iff] at h
  -- the renamed layer is not its own parent
  have hlb : l.base ≠ old := by
    intro e
    obtain ⟨c, hc, _, hd⟩ := h l hlm
    obtain ⟨_, c', _, hcc, _⟩ := chain_head hc (by rw [e]; exact hoe)
    apply hd; rw [hcc, e, hln]; simp
  -- every old layer, seen through the renaming, has its chain in the new table
  have key : ∀ x ∈ L, ∃ c, Chain (renamed L old new l') (rn old new x.base) c ∧ c.Nodup
      ∧ rn old new x.name ∉ c := by
    intro x hx
    obtain ⟨c, hc, hn, hd⟩ := h x hx
    refine ⟨c.map (rn old new), chain_rename L old new l l' hnew hne hoe hl hlb hn' hb' hc,
      nodup_map_rn L old new hnew c (chain_names hc) hn, ?_⟩
    intro hm
    obtain ⟨z, hz, e⟩ := List.mem_map.mp hm
    have := rn_inj L old new hnew z x.name (chain_names hc z hz) (List.mem_map.mpr ⟨x, hx, rfl⟩) e
    rw [this] at hz
    exact hd hz
  rw [checkInheritance_iff]
  intro y hy
  unfold renamed at hy
  rcases List.mem_append.mp hy with hy | hy
  · obtain ⟨hy1, hy2⟩ := List.mem_filter.mp hy
    obtain ⟨x, hx, rfl⟩ := List.mem_map.mp hy1
    rw [rebaseKid_name] at hy2
    have hxo : x.name ≠ old := by simpa using hy2
    have := key x hx
    rw [rebaseKid_name, rebaseKid_base]
    have hr : rn old new x.name = x.name := by unfold rn; rw [if_neg hxo]
    rw [hr] at this
    exact this
  · simp at hy
    subst hy
    have := key l hlm
    have hr1 : rn old new l.name = y.name := by rw [hln, hn']; unfold rn; simp
    have hr2 : rn old new l.base = y.base := by rw [hb']; unfold rn; rw [if_neg hlb]
    rw [hr1, hr2] at this
    exact this

/-! ### the invariant -/

/-- **well-formed layer table**: names pairwise distinct; every name non-empty and legal;
    every named base is the name of a layer; the cycle check of package manage accepts the
    table (`checkInheritance_iff`, `Props.C02.no_self_ancestor`: from every layer the base
    links lead to a root and never back); and `order` is what `normalizeOrder` computes for
    the table (hence a permutation of the names with every ancestor before its descendants:
    `order_perm`, `ancestor_precedes`) -/
structure WF (d : Defs) : Prop where
  nodup : (d.layers.map (·.name)).Nodup
  legal : ∀ l ∈ d.layers, l.name ≠ [] ∧ isLegalLayerName l.name = true
  parent : ∀ l ∈ d.layers, l.base ≠ [] → ∃ p ∈ d.layers, p.name = l.base
  acyclic : checkInheritance d.layers = true
  order : normalizeOrder d.layers = .ok d.order

/-- an accepted table has no dangling base -/
theorem parent_of_check (L : List Layer) (h : checkInheritance L = true) :
    ∀ l ∈ L, l.base ≠ [] → ∃ p ∈ L, p.name = l.base := by
  rw [checkInheritance_iff] at h
  intro l hl hb
  obtain ⟨c, hc, _, _⟩ := h l hl
  obtain ⟨p, _, hf, _, _⟩ := chain_head hc hb
  exact ⟨p, List.mem_of_find?_eq_some hf, find_name hf⟩

theorem findLayer_mem {d : Defs} {n : Bytes} {l : Layer} (h : findLayer d n = some l) :
    l ∈ d.layers ∧ l.name = n :=
  ⟨List.mem_of_find?_eq_some h, find_name h⟩

theorem findLayer_none_iff (d : Defs) (n : Bytes) :
    findLayer d n = none ↔ n ∉ d.layers.map (·.name) := find?_none_iff d.layers n

theorem wf_empty : WF {} :=
  ⟨List.nodup_nil, fun _ hl => absurd hl List.not_mem_nil, fun _ hl => absurd hl List.not_mem_nil, rfl, rfl⟩

/-- **add**: a record with a fresh legal name and an empty or existing base is appended -/
theorem wf_add (d : Defs) (x : Layer) (o : List Bytes) (h : WF d)
    (hne : x.name ≠ []) (hlegal : isLegalLayerName x.name = true) (hfree : findLayer d x.name = none)
    (hbase : x.base ≠ [] → (findLayer d x.base).isSome = true)
    (ho : normalizeOrder (d.layers ++ [x]) = .ok o) :
    WF { d with layers := d.layers ++ [x], order := o } := by
  have hfree' := (findLayer_none_iff d x.name).mp hfree
  have hbase' : x.base ≠ [] → ∃ p, d.layers.find? (·.name == x.base) = some p := by
    intro hb
    exact Option.isSome_iff_exists.mp (hbase hb)
  have hc := check_add d.layers x hfree' hbase' h.acyclic
  refine ⟨?_, ?_, parent_of_check _ hc, hc, ho⟩
  · show ((d.layers ++ [x]).map (·.name)).Nodup
    rw [List.map_append, List.nodup_append]
    refine ⟨h.nodup, by simp, ?_⟩
    intro a ha b hb e
    simp at hb
    rw [e, hb] at ha
    exact hfree' ha
  · intro l hl
    rcases List.mem_append.mp hl with hl | hl
    · exact h.legal l hl
    · simp at hl; subst hl; exact ⟨hne, hlegal⟩

/-- **remove**: the record of a layer without children is dropped -/
theorem wf_remove (d : Defs) (n : Bytes) (o : List Bytes) (h : WF d)
    (hno : hasChild d n = false)
    (ho : normalizeOrder (d.layers.filter (·.name != n)) = .ok o) :
    WF { d with layers := d.layers.filter (·.name != n), order := o } := by
  have hno' : ∀ l ∈ d.layers, l.base ≠ n := by
    intro l hl e
    unfold hasChild at hno
    rw [List.any_eq_false] at hno
    exact hno l hl (by simp [e])
  have hc := check_remove d.layers n hno' h.acyclic
  refine ⟨?_, ?_, parent_of_check _ hc, hc, ho⟩
  · exact List.Nodup.sublist (List.Sublist.map _ List.filter_sublist) h.nodup
  · intro l hl
    exact h.legal l (List.mem_filter.mp hl).1

theorem names_setLayer (d : Defs) (l' : Layer) :
    (setLayer d l').layers.map (·.name) = d.layers.map (·.name) := by
  unfold setLayer
  simp only [List.map_map]
  apply List.map_congr_left
  intro x _
  simp only [Function.comp]
  split
  · rename_i hx; simp at hx; rw [hx]
  · rfl

/-- **rebase** (and every other in-place update of a record): a record is replaced by one
    of the same name and the cycle check accepts the result -/
theorem wf_setLayer (d : Defs) (l' : Layer) (o : List Bytes) (h : WF d)
    (hc : checkInheritance (setLayer d l').layers = true)
    (ho : normalizeOrder (setLayer d l').layers = .ok o) :
    WF { setLayer d l' with order := o } := by
  have hnames := names_setLayer d l'
  refine ⟨?_, ?_, parent_of_check _ hc, hc, ho⟩
  · show ((setLayer d l').layers.map (·.name)).Nodup
    rw [hnames]; exact h.nodup
  · intro x hx
    have hxn : x.name ∈ (setLayer d l').layers.map (·.name) :=
      List.mem_map.mpr ⟨x, hx, rfl⟩
    rw [hnames] at hxn
    obtain ⟨y, hy, e⟩ := List.mem_map.mp hxn
    rw [← e]; exact h.legal y hy

/-- **rename**: children re-based, the old record replaced by one with the new name -/
theorem wf_rename (d : Defs) (old new : Bytes) (l l' : Layer) (o : List Bytes) (h : WF d)
    (hl : findLayer d old = some l) (hne : new ≠ []) (hlegal : isLegalLayerName new = true)
    (hfree : findLayer d new = none) (hn' : l'.name = new) (hb' : l'.base = l.base)
    (ho : normalizeOrder (renamed d.layers old new l') = .ok o) :
    WF { d with layers := renamed d.layers old new l', order := o } := by
  have hnew := (findLayer_none_iff d new).mp hfree
  have hoe : old ≠ [] := by
    have := h.legal l (findLayer_mem hl).1
    rw [(findLayer_mem hl).2] at this
    exact this.1
  have hc := check_rename d.layers old new l l' hnew hne hoe hl hn' hb' h.acyclic
  refine ⟨?_, ?_, parent_of_check _ hc, hc, ho⟩
  · show ((renamed d.layers old new l').map (·.name)).Nodup
    unfold renamed
    rw [List.map_append, names_renamed_front, List.nodup_append]
    refine ⟨List.Nodup.sublist List.filter_sublist h.nodup, by simp, ?_⟩
    intro a ha b hb e
    simp at hb
    rw [e, hb, hn'] at ha
    exact hnew (List.mem_filter.mp ha).1
  · intro x hx
    unfold renamed at hx
    rcases List.mem_append.mp hx with hx | hx
    · obtain ⟨hx1, _⟩ := List.mem_filter.mp hx
      obtain ⟨y, hy, rfl⟩ := List.mem_map.mp hx1
      rw [rebaseKid_name]; exact h.legal y hy
    · simp at hx; subst hx; rw [hn']; exact ⟨hne, hlegal⟩

/-! ### the (name, base) view: all the invariant depends on -/

def nb (l : Layer) : Bytes × Bytes := (l.name, l.base)

theorem find?_view {L L' : List Layer} (h : L.map nb = L'.map nb) (b : Bytes) :
    (L.find? (·.name == b)).map nb = (L'.find? (·.name == b)).map nb := by
  induction L generalizing L' with
  | nil =>
    cases L' with
    | nil => rfl
    | cons y ys => simp at h
  | cons x xs ih =>
    cases L' with
    | nil => simp at h
    | cons y ys =>
      simp only [List.map_cons, List.cons.injEq] at h
      obtain ⟨hxy, ht⟩ := h
      have hn : x.name = y.name := congrArg Prod.fst hxy
      simp only [List.find?_cons, hn]
      by_cases hy : (y.name == b) = true
      · simp [hy, hxy]
      · simp only [hy]; exact ih ht

theorem chainOk_view {L L' : List Layer} (h : L.map nb = L'.map nb) :
    ∀ (fuel : Nat) (v : List Bytes) (b : Bytes), chainOk L fuel v b = chainOk L' fuel v b := by
  intro fuel
  induction fuel with
  | zero => intro v b; rfl
  | succ n ih =>
    intro v b
    unfold chainOk
    have hf := find?_view h b
    cases h1 : L.find? (·.name == b) <;> cases h2 : L'.find? (·.name == b) <;>
      rw [h1, h2] at hf <;> simp at hf
    all_goals first
      | rfl
      | (rename_i a a'
         have e1 : a.name = a'.name := congrArg Prod.fst hf
         have e2 : a.base = a'.base := congrArg Prod.snd hf
         simp only [e1, e2, ih])

theorem sortKey_view {L L' : List Layer} (h : L.map nb = L'.map nb) :
    ∀ (fuel : Nat) (b acc : Bytes), sortKey L fuel b acc = sortKey L' fuel b acc := by
  intro fuel
  induction fuel with
  | zero => intro b acc; rfl
  | succ n ih =>
    intro b acc
    unfold sortKey
    have hf := find?_view h b
    cases h1 : L.find? (·.name == b) <;> cases h2 : L'.find? (·.name == b) <;>
      rw [h1, h2] at hf <;> simp at hf
    all_goals first
      | rfl
      | (rename_i a a'
         have e2 : a.base = a'.base := congrArg Prod.snd hf
         simp only [e2, ih])

theorem length_view {L L' : List Layer} (h : L.map nb = L'.map nb) : L.length = L'.length := by
  have := congrArg List.length h
  simpa using this

theorem checkInheritance_view {L L' : List Layer} (h : L.map nb = L'.map nb) :
    checkInheritance L = checkInheritance L' := by
  have e : ∀ M : List Layer, checkInheritance M
      = (M.map nb).all (fun p => chainOk M (M.length + 1) [p.1] p.2) := by
    intro M; unfold checkInheritance; rw [List.all_map]; rfl
  rw [e L, e L', h, length_view h]
  congr 1
  funext p
  exact chainOk_view h _ _ _

theorem normalizeOrder_view {L L' : List Layer} (h : L.map nb = L'.map nb) :
    normalizeOrder L = normalizeOrder L' := by
  have e : ∀ M : List Layer,
      (M.map fun l => (l.name, sortKey M (M.length + 1) l.base l.name))
        = (M.map nb).map (fun p => (p.1, sortKey M (M.length + 1) p.2 p.1)) := by
    intro M; rw [List.map_map]; rfl
  have hk : (L.map fun l => (l.name, sortKey L (L.length + 1) l.base l.name))
      = (L'.map fun l => (l.name, sortKey L' (L'.length + 1) l.base l.name)) := by
    rw [e L, e L', h, length_view h]
    congr 1
    funext p
    rw [sortKey_view h]
  unfold normalizeOrder
  simp only [hk]

theorem names_of_view (L : List Layer) : L.map (·.name) = (L.map nb).map Prod.fst := by
  rw [List.map_map]; rfl

/-- a table with the same (name, base) view and the same order is as well-formed -/
theorem wf_of_view {d d' : Defs} (h : WF d) (hv : d'.layers.map nb = d.layers.map nb)
    (ho : d'.order = d.order) : WF d' := by
  have hc : checkInheritance d'.layers = true := by rw [checkInheritance_view hv]; exact h.acyclic
  refine ⟨?_, ?_, parent_of_check _ hc, hc, ?_⟩
  · rw [names_of_view, hv, ← names_of_view]; exact h.nodup
  · intro l hl
    have : nb l ∈ d.layers.map nb := by rw [← hv]; exact List.mem_map.mpr ⟨l, hl, rfl⟩
    obtain ⟨y, hy, e⟩ := List.mem_map.mp this
    have e1 : y.name = l.name := congrArg Prod.fst e
    rw [← e1]; exact h.legal y hy
  · rw [normalizeOrder_view hv, ho]; exact h.order

/-- replacing a record by one of the same name and base does not change the view -/
theorem view_setLayer (d : Defs) (l' : Layer)
    (h : ∀ x ∈ d.layers, x.name = l'.name → x.base = l'.base) :
    (setLayer d l').layers.map nb = d.layers.map nb := by
  unfold setLayer
  simp only [List.map_map]
  apply List.map_congr_left
  intro x hx
  simp only [Function.comp]
  split
  · rename_i hxn
    have hxn' : x.name = l'.name := by simpa using hxn
    unfold nb; rw [hxn', h x hx hxn']
  · rfl

theorem nodup_name_inj {L : List Layer} (hnd : (L.map (·.name)).Nodup) {x y : Layer}
    (hx : x ∈ L) (hy : y ∈ L) (e : x.name = y.name) : x = y := by
  induction L with
  | nil => cases hx
  | cons a t ih =>
    rw [List.map_cons, List.nodup_cons] at hnd
    rcases List.mem_cons.mp hx with hxa | hxt <;> rcases List.mem_cons.mp hy with hya | hyt
    · rw [hxa, hya]
    · exact (hnd.1 (List.mem_map.mpr ⟨y, hyt, by rw [← e, hxa]⟩)).elim
    · exact (hnd.1 (List.mem_map.mpr ⟨x, hxt, by rw [e, hya]⟩)).elim
    · exact ih hnd.2 hxt hyt

/-- … in particular the record found under that name, when names are unique -/
theorem wf_setLayer_same {d : Defs} (h : WF d) (l l' : Layer) (hl : findLayer d l'.name = some l)
    (hb : l'.base = l.base) : WF (setLayer d l') := by
  refine wf_of_view h (view_setLayer d l' ?_) rfl
  intro x hx hxn
  have := nodup_name_inj h.nodup hx (findLayer_mem hl).1 (hxn.trans (findLayer_mem hl).2.symm)
  rw [this, hb]

/-! ### what rename does to the view -/

/-- in an accepted table no layer is its own base -/
theorem self_base_ne (L : List Layer) (h : checkInheritance L = true) (l : Layer) (hl : l ∈ L)
    (hne : l.name ≠ []) : l.base ≠ l.name := by
  rw [checkInheritance_iff] at h
  intro e
  obtain ⟨c, hc, _, hd⟩ := h l hl
  obtain ⟨_, c', _, hcc, _⟩ := chain_head hc (by rw [e]; exact hne)
  apply hd; rw [hcc, e]; simp

theorem mem_view_renamed (L : List Layer) (old new : Bytes) (l l' : Layer)
    (hnd : (L.map (·.name)).Nodup) (hl : L.find? (·.name == old) = some l) (hlb : l.base ≠ old)
    (hn' : l'.name = new) (hb' : l'.base = l.base) (a b : Bytes) :
    (a, b) ∈ (renamed L old new l').map nb ↔
      ∃ x ∈ L, a = rn old new x.name ∧ b = rn old new x.base := by
  have hlm : l ∈ L := List.mem_of_find?_eq_some hl
  have hln : l.name = old := find_name hl
  constructor
  · intro hm
    obtain ⟨y, hy, e⟩ := List.mem_map.mp hm
    unfold renamed at hy
    rcases List.mem_append.mp hy with hy | hy
    · obtain ⟨hy1, hy2⟩ := List.mem_filter.mp hy
      obtain ⟨x, hx, rfl⟩ := List.mem_map.mp hy1
      rw [rebaseKid_name] at hy2
      have hxo : x.name ≠ old := by simpa using hy2
      refine ⟨x, hx, ?_, ?_⟩
      · have : a = (rebaseKid old new x).name := (congrArg Prod.fst e).symm
        rw [this, rebaseKid_name]; unfold rn; rw [if_neg hxo]
      · have : b = (rebaseKid old new x).base := (congrArg Prod.snd e).symm
        rw [this, rebaseKid_base]
    · simp at hy
      subst hy
      refine ⟨l, hlm, ?_, ?_⟩
      · have : a = y.name := (congrArg Prod.fst e).symm
        rw [this, hn', hln]; unfold rn; simp
      · have : b = y.base := (congrArg Prod.snd e).symm
        rw [this, hb']; unfold rn; rw [if_neg hlb]
  · rintro ⟨x, hx, rfl, rfl⟩
    unfold renamed
    rw [List.map_append, List.mem_append]
    by_cases hxo : x.name = old
    · right
      have : x = l := nodup_name_inj hnd hx hlm (hxo.trans hln.symm)
      subst this
      simp only [List.map_cons, List.map_nil, List.mem_singleton]
      unfold nb rn
      rw [if_pos hxo, if_neg hlb, hn', hb']
    · left
      refine List.mem_map.mpr ⟨rebaseKid old new x, List.mem_filter.mpr
        ⟨List.mem_map.mpr ⟨x, hx, rfl⟩, by rw [rebaseKid_name]; simpa using hxo⟩, ?_⟩
      unfold nb
      rw [rebaseKid_name, rebaseKid_base]
      unfold rn
      rw [if_neg hxo]

theorem length_filter_ne (L : List Layer) (old : Bytes) (hnd : (L.map (·.name)).Nodup)
    (hm : old ∈ L.map (·.name)) : (L.filter (·.name != old)).length + 1 = L.length := by
  induction L with
  | nil => simp at hm
  | cons x xs ih =>
    rw [List.map_cons, List.nodup_cons] at hnd
    by_cases hx : x.name = old
    · have h1 : (x.name != old) = false := by simp [hx]
      have hall : xs.filter (·.name != old) = xs := by
        rw [List.filter_eq_self]
        intro y hy
        have : y.name ≠ old := by
          intro e; apply hnd.1; rw [hx, ← e]; exact List.mem_map.mpr ⟨y, hy, rfl⟩
        simpa using this
      simp only [List.filter_cons, h1, Bool.false_eq_true, if_false, hall, List.length_cons]
    · have h1 : (x.name != old) = true := by simpa using hx
      have hm' : old ∈ xs.map (·.name) := by
        rw [List.map_cons, List.mem_cons] at hm
        rcases hm with e | hm
        · exact absurd e.symm hx
        · exact hm
      simp only [List.filter_cons, h1, if_true, List.length_cons]
      rw [ih hnd.2 hm']

theorem length_renamed (L : List Layer) (old new : Bytes) (l l' : Layer)
    (hnd : (L.map (·.name)).Nodup) (hl : L.find? (·.name == old) = some l) :
    (renamed L old new l').length = L.length := by
  have hm : old ∈ L.map (·.name) :=
    List.mem_map.mpr ⟨l, List.mem_of_find?_eq_some hl, find_name hl⟩
  have e : ((L.map (rebaseKid old new)).filter (·.name != old)).length
      = (L.filter (·.name != old)).length := by
    have := congrArg List.length (names_renamed_front L old new)
    simp only [List.length_map] at this
    rw [this]
    have h2 : (L.filter (·.name != old)).map (·.name) = (L.map (·.name)).filter (· != old) := by
      rw [List.filter_map]; rfl
    have := congrArg List.length h2
    simp only [List.length_map] at this
    rw [this]
  unfold renamed
  rw [List.length_append, e]
  simp only [List.length_cons, List.length_nil]
  exact length_filter_ne L old hnd hm

end Lc.ForestInv
