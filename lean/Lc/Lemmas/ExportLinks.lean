/-
  Hoare-style specifications (Std.Do / mvcgen) of the export-link functions of the
  command model: `removeLayerExportLinks`, `makeSymlinkInDirectory`, `makeExportSymlinks`,
  and the frame facts needed to carry "no entry at the old export paths" through
  `removeLayer` / `renameLayer`.  Helper lemmas for Props/C16.
-/
import Lc.Lemmas.Hoare
import Lc.Lemmas.ExportFs
namespace Lc.ExportLinks
open Std.Do Lc Lc.Layers Lc.Hoare Lc.ExportFs
set_option mvcgen.warning false

/-- what a run ended in: `Q` on a normal return, `E` on an error -/
def Outcome {α} (r : Except Fault α × World) (Q : α → World → Prop) (E : Fault → World → Prop) : Prop :=
  match r with
  | (.ok a, w') => Q a w'
  | (.error e, w') => E e w'

/-- from a triple to the run function -/
theorem extract2 {α} (P : World → Prop) (Q : α → World → Prop) (E : Fault → World → Prop) (m : M α)
    (h : ⦃fun w => ⌜P w⌝⦄ m ⦃post⟨fun a w => ⌜Q a w⌝, fun e w => ⌜E e w⌝⟩⦄) (w : World) (hw : P w) :
    Outcome (m.run.run w) Q E := by
  have h2 := h w hw
  simp [wp] at h2
  unfold Outcome
  generalize (StateT.run (ExceptT.run m) w) = r at h2 ⊢
  obtain ⟨a, s⟩ := r
  cases a <;> exact h2

theorem onAll {α} {m : M α} {w0 : World} {Q : α → World → Prop} {E : Fault → World → Prop}
    {R : World → Prop} (h : Outcome (m.run.run w0) Q E)
    (hq : ∀ a w', Q a w' → R w') (he : ∀ e w', E e w' → R w') : R (m.run.run w0).2 := by
  unfold Outcome at h
  generalize m.run.run w0 = r at h ⊢
  obtain ⟨x, w'⟩ := r
  cases x with
  | ok a => exact hq a w' h
  | error e => exact he e w' h

theorem onOk {α} {m : M α} {w0 : World} {Q : α → World → Prop} {E : Fault → World → Prop}
    (h : Outcome (m.run.run w0) Q E) (a : α) (hr : (m.run.run w0).1 = .ok a) :
    Q a (m.run.run w0).2 := by
  unfold Outcome at h
  generalize m.run.run w0 = r at h hr ⊢
  obtain ⟨x, w'⟩ := r
  cases x with
  | ok b => simp at hr; subst hr; exact h
  | error e => simp at hr

theorem neverOk {α} {m : M α} {w0 : World} {E : Fault → World → Prop}
    (h : Outcome (m.run.run w0) (fun _ _ => False) E) :
    ∃ e, (m.run.run w0).1 = .error e ∧ E e (m.run.run w0).2 := by
  unfold Outcome at h
  generalize m.run.run w0 = r at h ⊢
  obtain ⟨x, w'⟩ := r
  cases x with
  | ok b => exact h.elim
  | error e => exact ⟨e, rfl, h⟩

def isOk {α} (r : Except Fault α) : Bool :=
  match r with
  | .ok _ => true
  | .error _ => false

theorem isOk_unit (r : Except Fault Unit) (h : isOk r = true) : r = .ok () := by
  cases r with
  | ok u => rfl
  | error e => cases h

theorem isOk_ex {α} (r : Except Fault α) (h : isOk r = true) : ∃ a, r = .ok a := by
  cases r with
  | ok u => exact ⟨u, rfl⟩
  | error e => cases h

/-- generic step: a gated file-system operation either is skipped (pretend), fails
    (fault, crash, os error: tree unchanged) or applies `f` -/
theorem fsStep_gen (op : Op) (f : Fs.Tree → Except String Fs.Tree) (pr : Bool) (P Q : Fs.Tree → Prop)
    (h1 : ∀ fs fs', P fs → f fs = .ok fs' → Q fs') (h2 : pr = true → ∀ fs, P fs → Q fs) :
    ⦃fun w => ⌜w.pretend = pr ∧ P w.fs⌝⦄ fsStep op f
    ⦃post⟨fun _ w => ⌜w.pretend = pr ∧ Q w.fs⌝, fun _ w => ⌜w.pretend = pr ∧ P w.fs⌝⟩⦄ := by
  mvcgen [fsStep, gate, getW, setW, fail, record]
  all_goals grind

def autoMounts (cfg : Config) (l : Layer) : List Bytes := (autoExportPaths cfg l).map (·.1)

/-- no OTHER automatic export path of the layer lies at/above `m` -/
def Apart (S : List Bytes) (m : Bytes) : Prop := ∀ m' ∈ S, m' ≠ m → Fs.under m' m = false

theorem fsRemove_spec (S : List Bytes) (fs0 : Fs.Tree) (pr : Bool) (done : List Bytes) (m : Bytes) :
    ⦃fun w => ⌜w.pretend = pr ∧ (RemovedOnly S fs0 w.fs ∧ m ∈ S ∧ Fs.isSymlink w.fs m = true ∧
        (pr = false → ∀ x ∈ done, Fs.get w.fs x = none))⌝⦄
    fsRemove m
    ⦃post⟨fun _ w => ⌜w.pretend = pr ∧ (RemovedOnly S fs0 w.fs ∧
        (pr = false → ∀ x ∈ done ++ [m], Fs.get w.fs x = none))⌝,
      fun _ w => ⌜w.pretend = pr ∧ RemovedOnly S fs0 w.fs⌝⟩⦄ := by
  have h := fsStep_gen (.remove m) (fun fs => .ok (Fs.removeAll fs m)) pr
    (fun fs => RemovedOnly S fs0 fs ∧ m ∈ S ∧ Fs.isSymlink fs m = true ∧
        (pr = false → ∀ x ∈ done, Fs.get fs x = none))
    (fun fs => RemovedOnly S fs0 fs ∧ (pr = false → ∀ x ∈ done ++ [m], Fs.get fs x = none))
    (by
      rintro fs fs' ⟨h1, h2, h3, h4⟩ he
      cases he
      refine ⟨h1.step m h2 h3, fun hp x hx => ?_⟩
      rcases List.mem_append.mp hx with hx | hx
      · exact get_removeAll_none _ _ _ (h4 hp x hx)
      · have : x = m := by simpa using hx
        subst this
        exact get_removeAll_self _ _)
    (by
      rintro hp fs ⟨h1, _, _, _⟩
      exact ⟨h1, fun hp' => by simp [hp] at hp'⟩)
  unfold fsRemove
  mvcgen [h]
  all_goals grind

theorem sep_absent {S : List Bytes} {fs0 fs : Fs.Tree} (h : RemovedOnly S fs0 fs) (m : Bytes)
    (hn : Fs.lexists fs m = false) (hs : Apart S m) (he : Fs.lexists fs0 m = true) :
    Fs.isSymlink fs0 m = true := by
  rcases h m with h | ⟨_, m', hm', hu, hsym⟩
  · rw [Fs.lexists, ← h] at he
    rw [Fs.lexists] at hn
    simp [hn] at he
  · by_cases hmm : m' = m
    · subst hmm; exact hsym
    · rw [hs m' hm' hmm] at hu
      cases hu

theorem mem_autoMounts (cfg : Config) (l : Layer) (m : Bytes) :
    m ∈ autoMounts cfg l ↔ ∃ x, (m, x) ∈ autoExportPaths cfg l := by
  simp [autoMounts]

theorem removeLayerExportLinks_spec (cfg : Config) (l : Layer) (fs0 : Fs.Tree) (pr : Bool) :
    ⦃fun w => ⌜w.pretend = pr ∧ RemovedOnly (autoMounts cfg l) fs0 w.fs⌝⦄
    removeLayerExportLinks cfg l
    ⦃post⟨fun _ w => ⌜w.pretend = pr ∧ RemovedOnly (autoMounts cfg l) fs0 w.fs ∧
        (pr = false → ∀ m ∈ autoMounts cfg l, Fs.get w.fs m = none) ∧
        (∀ m ∈ autoMounts cfg l, Apart (autoMounts cfg l) m → Fs.lexists fs0 m = true → Fs.isSymlink fs0 m = true)⌝,
      fun _ w => ⌜w.pretend = pr ∧ RemovedOnly (autoMounts cfg l) fs0 w.fs⌝⟩⦄ := by
  have hrm := fsRemove_spec (autoMounts cfg l) fs0 pr
  mvcgen [removeLayerExportLinks, fExists, fIsSymlink, getW, fail, hrm]
  case inv1 =>
    exact post⟨fun (xs, _) w => ⌜w.pretend = pr ∧ RemovedOnly (autoMounts cfg l) fs0 w.fs ∧
        (pr = false → ∀ m ∈ xs.prefix.map (·.1), Fs.get w.fs m = none) ∧
        (∀ m ∈ xs.prefix.map (·.1), Apart (autoMounts cfg l) m → Fs.lexists fs0 m = true → Fs.isSymlink fs0 m = true)⌝,
      fun _ w => ⌜w.pretend = pr ∧ RemovedOnly (autoMounts cfg l) fs0 w.fs⌝⟩
  case vc3.done => rename_i pref _ _ _ _ _ _ _ _ _; exact pref.map (·.1)
  all_goals (simp at *)
  all_goals (simp only [mem_autoMounts] at *)
  all_goals grind [sep_absent, RemovedOnly.isSymlink_ref, lexists_false_iff]


/-! ### creating links -/

theorem fsMkdir_added (L : List (Bytes × Bytes)) (fs0 : Fs.Tree) (pr : Bool) (D : List Bytes) (p : Bytes) :
    ⦃fun w => ⌜w.pretend = pr ∧ (Added L fs0 w.fs ∧ ∀ x ∈ D, Fs.isSymlink w.fs x = true)⌝⦄
    fsMkdir p
    ⦃post⟨fun _ w => ⌜w.pretend = pr ∧ (Added L fs0 w.fs ∧ ∀ x ∈ D, Fs.isSymlink w.fs x = true)⌝,
      fun _ w => ⌜w.pretend = pr ∧ (Added L fs0 w.fs ∧ ∀ x ∈ D, Fs.isSymlink w.fs x = true)⌝⟩⦄ := by
  have h := fsStep_gen (.mkdir p) (fun fs => Fs.mkdirAll fs p) pr
    (fun fs => Added L fs0 fs ∧ ∀ x ∈ D, Fs.isSymlink fs x = true)
    (fun fs => Added L fs0 fs ∧ ∀ x ∈ D, Fs.isSymlink fs x = true)
    (by
      rintro fs fs' ⟨h1, h2⟩ he
      have ha := added_mkdirAll L fs fs' p he
      exact ⟨h1.trans ha, fun x hx => ha.isSymlink x (h2 x hx)⟩)
    (by intro _ fs h; exact h)
  unfold fsMkdir
  exact h

theorem fsSymlink_added (L : List (Bytes × Bytes)) (fs0 : Fs.Tree) (pr : Bool) (D : List Bytes)
    (link target : Bytes) :
    ⦃fun w => ⌜w.pretend = pr ∧ (Added L fs0 w.fs ∧ (link, target) ∈ L ∧ ∀ x ∈ D, Fs.isSymlink w.fs x = true)⌝⦄
    fsSymlink link target
    ⦃post⟨fun _ w => ⌜w.pretend = pr ∧ (Added L fs0 w.fs ∧ (∀ x ∈ D, Fs.isSymlink w.fs x = true) ∧
        (pr = false → Fs.isSymlink w.fs link = true))⌝,
      fun _ w => ⌜w.pretend = pr ∧ (Added L fs0 w.fs ∧ ∀ x ∈ D, Fs.isSymlink w.fs x = true)⌝⟩⦄ := by
  have h := fsStep_gen (.symlink link target) (fun fs => Fs.symlink fs target link) pr
    (fun fs => Added L fs0 fs ∧ (link, target) ∈ L ∧ ∀ x ∈ D, Fs.isSymlink fs x = true)
    (fun fs => Added L fs0 fs ∧ (∀ x ∈ D, Fs.isSymlink fs x = true) ∧
        (pr = false → Fs.isSymlink fs link = true))
    (by
      rintro fs fs' ⟨h1, h2, h3⟩ he
      have ha := added_symlink L fs fs' target link h2 he
      refine ⟨h1.trans ha, fun x hx => ha.isSymlink x (h3 x hx), fun _ => ?_⟩
      exact (isSymlink_iff _ _).mpr ⟨target, symlink_isSymlink fs fs' target link he⟩)
    (by
      rintro hp fs ⟨h1, _, h3⟩
      exact ⟨h1, h3, fun hp' => by simp [hp] at hp'⟩)
  unfold fsSymlink
  mvcgen [h]
  all_goals grind

/-- `makeSymlinkInDirectory src mnt`: only new directories and the link `mnt → src` can
    appear; links in `D` stay links; on a normal non-pretend return `mnt` is a link -/
theorem makeSymlinkInDirectory_spec (L : List (Bytes × Bytes)) (fs0 : Fs.Tree) (pr : Bool) (D : List Bytes)
    (src mnt : Bytes) :
    ⦃fun w => ⌜w.pretend = pr ∧ (Added L fs0 w.fs ∧ (mnt, src) ∈ L ∧ ∀ x ∈ D, Fs.isSymlink w.fs x = true)⌝⦄
    makeSymlinkInDirectory src mnt
    ⦃post⟨fun _ w => ⌜w.pretend = pr ∧ (Added L fs0 w.fs ∧ (∀ x ∈ D, Fs.isSymlink w.fs x = true) ∧
        (pr = false → Fs.isSymlink w.fs mnt = true))⌝,
      fun _ w => ⌜w.pretend = pr ∧ (Added L fs0 w.fs ∧ ∀ x ∈ D, Fs.isSymlink w.fs x = true)⌝⟩⦄ := by
  have hmk := fsMkdir_added L fs0 pr D
  have hsl := fsSymlink_added L fs0 pr D
  mvcgen [makeSymlinkInDirectory, fIsSymlink, fIsDir, getW, hmk, hsl]
  all_goals (simp at *)
  all_goals grind

/-- the (link, target) pairs `makeExportSymlinks` may create: explicit directives, then
    the two automatic ones -/
def explicitPairs (cfg : Config) (l : Layer) : List (Bytes × Bytes) :=
  match expandConfigExports cfg l with
  | .ok es => es.map fun e => (e.mount, e.source)
  | .error _ => []

def exportPairs (cfg : Config) (l : Layer) : List (Bytes × Bytes) :=
  explicitPairs cfg l ++ autoExportPaths cfg l

theorem mem_exportPairs_explicit (cfg : Config) (l : Layer) (es : List Expanded)
    (hE : expandConfigExports cfg l = .ok es) (e : Expanded) (he : e ∈ es) :
    (e.mount, e.source) ∈ exportPairs cfg l := by
  unfold exportPairs explicitPairs
  rw [hE]
  exact List.mem_append_left _ (List.mem_map.mpr ⟨e, he, rfl⟩)

theorem mem_exportPairs_auto (cfg : Config) (l : Layer) (e : Bytes × Bytes)
    (he : e ∈ autoExportPaths cfg l) : e ∈ exportPairs cfg l :=
  List.mem_append_right _ he

theorem added_not_lexists {L : List (Bytes × Bytes)} {a b : Fs.Tree} (h : Added L a b) (q : Bytes)
    (hq : Fs.lexists b q = false) : Fs.lexists a q = false := by
  cases hh : Fs.lexists a q with
  | false => rfl
  | true => rw [h.lexists q hh] at hq; cases hq

theorem makeExportSymlinks_spec (cfg : Config) (l : Layer) (fs0 : Fs.Tree) (pr : Bool) :
    ⦃fun w => ⌜w.pretend = pr ∧ Added (exportPairs cfg l) fs0 w.fs⌝⦄
    makeExportSymlinks cfg l
    ⦃post⟨fun _ w => ⌜w.pretend = pr ∧ Added (exportPairs cfg l) fs0 w.fs ∧
        (pr = false → ∀ e ∈ autoExportPaths cfg l, Fs.lexists fs0 e.2 = true → Fs.isSymlink w.fs e.1 = true)⌝,
      fun _ w => ⌜w.pretend = pr ∧ Added (exportPairs cfg l) fs0 w.fs⌝⟩⦄ := by
  have hms := makeSymlinkInDirectory_spec (exportPairs cfg l) fs0 pr
  cases hE : expandConfigExports cfg l with
  | error e =>
    simp only [makeExportSymlinks, hE, liftRes]
    mvcgen
    all_goals grind
  | ok es =>
    simp only [makeExportSymlinks, hE, liftRes]
    mvcgen [fExists, getW, hms]
    case inv1 =>
      exact post⟨fun _ w => ⌜w.pretend = pr ∧ Added (exportPairs cfg l) fs0 w.fs⌝,
        fun _ w => ⌜w.pretend = pr ∧ Added (exportPairs cfg l) fs0 w.fs⌝⟩
    case inv2 =>
      exact post⟨fun (xs, _) w => ⌜w.pretend = pr ∧ Added (exportPairs cfg l) fs0 w.fs ∧
          (pr = false → ∀ e ∈ xs.prefix, Fs.lexists fs0 e.2 = true → Fs.isSymlink w.fs e.1 = true)⌝,
        fun _ w => ⌜w.pretend = pr ∧ Added (exportPairs cfg l) fs0 w.fs⌝⟩
    case vc1.D => exact []
    case vc6.D =>
      rename_i pref _ _ _ _ _ _ _
      exact if pr then [] else (pref.filter (fun e => Fs.lexists fs0 e.2)).map (·.1)
    all_goals (cases pr <;> simp at *)
    all_goals (try grind [mem_exportPairs_explicit, mem_exportPairs_auto, added_not_lexists])

/-! ### nothing reappears at the old export paths -/

def NoneAt (S : List Bytes) (fs : Fs.Tree) : Prop := ∀ m ∈ S, Fs.get fs m = none

theorem fsRemove_none (S : List Bytes) (p : Bytes) :
    ⦃fun w => ⌜w.pretend = false ∧ NoneAt S w.fs⌝⦄ fsRemove p
    ⦃post⟨fun _ w => ⌜w.pretend = false ∧ NoneAt S w.fs⌝, fun _ w => ⌜w.pretend = false ∧ NoneAt S w.fs⌝⟩⦄ := by
  unfold fsRemove
  exact fsStep_gen (.remove p) (fun fs => .ok (Fs.removeAll fs p)) false (NoneAt S) (NoneAt S)
    (by
      intro fs fs' h he
      cases he
      exact fun m hm => get_removeAll_none _ _ _ (h m hm))
    (by intro h; cases h)

theorem fsRename_none (S : List Bytes) (a b : Bytes) (ha : a ≠ [47])
    (hb : ∀ m ∈ S, Fs.under b m = false) :
    ⦃fun w => ⌜w.pretend = false ∧ NoneAt S w.fs⌝⦄ fsRename a b
    ⦃post⟨fun _ w => ⌜w.pretend = false ∧ NoneAt S w.fs⌝, fun _ w => ⌜w.pretend = false ∧ NoneAt S w.fs⌝⟩⦄ := by
  unfold fsRename
  exact fsStep_gen (.rename a b) (fun fs => Fs.rename fs a b) false (NoneAt S) (NoneAt S)
    (by
      intro fs fs' h he
      exact fun m hm => rename_none fs fs' a b m he ha (hb m hm) (h m hm))
    (by intro h; cases h)

/-- `removeLayer`: on a normal non-pretend return nothing exists at the automatic
    export paths of the removed layer -/
theorem removeLayer_spec (cfg : Config) (d : Defs) (name : Bytes) (files : Bool) (l : Layer)
    (hl : findLayer d name = some l) (hlp : l.layerPath ≠ [47])
    (hsep : ∀ m ∈ autoMounts cfg l, Fs.under (l.layerPath ++ removedSuffix) m = false) (fs0 : Fs.Tree) :
    ⦃fun w => ⌜w.pretend = false ∧ w.fs = fs0⌝⦄ removeLayer cfg d name files
    ⦃post⟨fun _ w => ⌜w.pretend = false ∧ NoneAt (autoMounts cfg l) w.fs⌝, fun _ _ => ⌜True⌝⟩⦄ := by
  have hrl := removeLayerExportLinks_spec cfg l fs0 false
  have hrm := fsRemove_none (autoMounts cfg l)
  have hren := fsRename_none (autoMounts cfg l) l.layerPath (l.layerPath ++ removedSuffix) hlp hsep
  unfold removeLayer getL
  simp only [hl]
  mvcgen [testName, errorIfError, errorIfBusy, fail, fExists, getW, reorder, holdsOnlyOwnFiles, hrl, hrm, hren]
  all_goals (simp at *)
  all_goals grind [NoneAt, RemovedOnly.refl]

/-- the paths `writeLayerFile l` writes to or renames onto are not at/above `m` -/
def ClearOfConfig (S : List Bytes) (l : Layer) : Prop :=
  ∀ m ∈ S, m ≠ layerconfigPath l ++ tmpSuffix ∧ Fs.under (layerconfigPath l) m = false

theorem cursorOpen_none (S : List Bytes) (p : Bytes) :
    ⦃fun w => ⌜w.pretend = false ∧ (NoneAt S w.fs ∧ ∀ m ∈ S, m ≠ p)⌝⦄ cursorOpen p
    ⦃post⟨fun _ w => ⌜w.pretend = false ∧ NoneAt S w.fs⌝, fun _ w => ⌜w.pretend = false ∧ NoneAt S w.fs⌝⟩⦄ := by
  mvcgen [cursorOpen, getW, setW, fail, record]
  all_goals grind [NoneAt, openWrite_none]

theorem cursorWrite_none (S : List Bytes) (p chunk : Bytes) (failed : Bool) :
    ⦃fun w => ⌜w.pretend = false ∧ (NoneAt S w.fs ∧ ∀ m ∈ S, m ≠ p)⌝⦄ cursorWrite p chunk failed
    ⦃post⟨fun _ w => ⌜w.pretend = false ∧ NoneAt S w.fs⌝, fun _ w => ⌜w.pretend = false ∧ NoneAt S w.fs⌝⟩⦄ := by
  mvcgen [cursorWrite, getW, setW, fail, record]
  all_goals grind [NoneAt, appendFile_none]

theorem tmp_ne_root (p : Bytes) : p ++ tmpSuffix ≠ [47] := by
  intro h
  have := congrArg List.length h
  simp [tmpSuffix] at this

theorem writeLayerFile_none (S : List Bytes) (l : Layer) :
    ⦃fun w => ⌜w.pretend = false ∧ (NoneAt S w.fs ∧ ClearOfConfig S l)⌝⦄ writeLayerFile l
    ⦃post⟨fun _ w => ⌜w.pretend = false ∧ NoneAt S w.fs⌝, fun _ w => ⌜w.pretend = false ∧ NoneAt S w.fs⌝⟩⦄ := by
  by_cases hc : ClearOfConfig S l
  · have hco := cursorOpen_none S (layerconfigPath l ++ tmpSuffix)
    have hcw := cursorWrite_none S (layerconfigPath l ++ tmpSuffix)
    have hre := fsRename_none S (layerconfigPath l ++ tmpSuffix) (layerconfigPath l) (tmp_ne_root _)
      (fun m hm => (hc m hm).2)
    mvcgen [writeLayerFile, getW, fail, hco, hcw, hre]
    case inv1 =>
      exact post⟨fun _ w => ⌜w.pretend = false ∧ NoneAt S w.fs⌝, fun _ w => ⌜w.pretend = false ∧ NoneAt S w.fs⌝⟩
    all_goals (simp at *)
    all_goals grind [ClearOfConfig]
  · mvcgen
    all_goals grind

theorem kids_mem (d : Defs) (oldname : Bytes) (co : List Bytes) (k : Layer)
    (hk : k ∈ (co.filterMap fun n => (d.layers.filter (·.base == oldname)).find? (·.name == n))
      ++ (d.layers.filter (·.base == oldname)).filter (fun k => !co.contains k.name)) : k ∈ d.layers := by
  rcases List.mem_append.mp hk with h | h
  · obtain ⟨n, _, hn⟩ := List.mem_filterMap.mp h
    exact (List.mem_filter.mp (List.mem_of_find?_eq_some hn)).1
  · exact (List.mem_filter.mp (List.mem_filter.mp h).1).1

/-- `renameLayer`: on a normal non-pretend return nothing exists at the automatic
    export paths of the OLD name -/
theorem renameLayer_spec (cfg : Config) (d : Defs) (oldname newname : Bytes) (co : List Bytes) (l : Layer)
    (hl : findLayer d oldname = some l) (hlp : l.layerPath ≠ [47])
    (hsep : ∀ m ∈ autoMounts cfg l, Fs.under (layerPath cfg newname) m = false)
    (hkids : ∀ k ∈ d.layers, ClearOfConfig (autoMounts cfg l) k)
    (hnew : ClearOfConfig (autoMounts cfg l) { l with name := newname, layerPath := layerPath cfg newname })
    (fs0 : Fs.Tree) :
    ⦃fun w => ⌜w.pretend = false ∧ w.fs = fs0⌝⦄ renameLayer cfg d oldname newname co
    ⦃post⟨fun _ w => ⌜w.pretend = false ∧ NoneAt (autoMounts cfg l) w.fs⌝, fun _ _ => ⌜True⌝⟩⦄ := by
  have hrl := removeLayerExportLinks_spec cfg l fs0 false
  have hren := fsRename_none (autoMounts cfg l) l.layerPath (layerPath cfg newname) hlp hsep
  have hwl := writeLayerFile_none (autoMounts cfg l)
  unfold renameLayer getL
  simp only [hl]
  mvcgen [testName, errorIfError, errorIfBusy, fail, reorder, hrl, hren, hwl]
  case inv1 =>
    exact post⟨fun _ w => ⌜w.pretend = false ∧ NoneAt (autoMounts cfg l) w.fs⌝, fun _ _ => ⌜True⌝⟩
  case vc3.step.pre =>
    rename_i pref cur suff hlist b s h
    have hmem : cur ∈ d.layers := kids_mem d oldname co cur (by rw [hlist]; simp)
    simp at h
    exact ⟨h.1, h.2, hkids cur hmem⟩
  all_goals (simp at *)
  all_goals grind [NoneAt, RemovedOnly.refl]

/-! ### exact behaviour in the refusing cases -/

theorem makeSymlink_existing_link (source target : Bytes) (w0 : World)
    (h : Fs.isSymlink w0.fs target = true) :
    ⦃fun w => ⌜w = w0⌝⦄ makeSymlinkInDirectory source target
    ⦃post⟨fun _ w => ⌜w = w0⌝, fun _ _ => ⌜False⌝⟩⦄ := by
  mvcgen [makeSymlinkInDirectory, fIsSymlink, getW]
  all_goals grind

/-- exact behaviour of a gated operation when nothing is injected -/
theorem fsStep_exact (op : Op) (f : Fs.Tree → Except String Fs.Tree) (P Q : Fs.Tree → Prop) (E : String → Prop)
    (h1 : ∀ fs fs', P fs → f fs = .ok fs' → Q fs') (h3 : ∀ fs s, P fs → f fs = .error s → E s) :
    ⦃fun w => ⌜(w.pretend = false ∧ w.crashAt = none ∧ w.faultAt = none) ∧ P w.fs⌝⦄ fsStep op f
    ⦃post⟨fun _ w => ⌜(w.pretend = false ∧ w.crashAt = none ∧ w.faultAt = none) ∧ Q w.fs⌝,
      fun e w => ⌜(w.pretend = false ∧ w.crashAt = none ∧ w.faultAt = none) ∧ P w.fs ∧
        ∃ s, e = .err ("os:" ++ s) ∧ E s⌝⟩⦄ := by
  mvcgen [fsStep, gate, getW, setW, fail, record]
  all_goals grind

theorem makeSymlink_refuses_exact (source target : Bytes) (fs0 : Fs.Tree)
    (he : Fs.lexists fs0 target = true) (hs : Fs.isSymlink fs0 target = false) :
    ⦃fun w => ⌜(w.pretend = false ∧ w.crashAt = none ∧ w.faultAt = none) ∧ w.fs = fs0⌝⦄
    makeSymlinkInDirectory source target
    ⦃post⟨fun _ _ => ⌜False⌝,
      fun e w => ⌜Added [] fs0 w.fs ∧ (e = .err "os:EEXIST" ∨
        (Fs.isDir fs0 (pathDir target) = false ∧
          ∃ s, Fs.mkdirAll fs0 (pathDir target) = .error s ∧ e = .err ("os:" ++ s)))⌝⟩⦄ := by
  have hmk := fsStep_exact (.mkdir (pathDir target)) (fun fs => Fs.mkdirAll fs (pathDir target))
    (fun fs => fs = fs0 ∧ Fs.isDir fs0 (pathDir target) = false)
    (fun fs => Added [] fs0 fs ∧ Fs.isDir fs0 (pathDir target) = false)
    (fun s => Fs.mkdirAll fs0 (pathDir target) = .error s ∧ Fs.isDir fs0 (pathDir target) = false)
    (by
      rintro fs fs' ⟨rfl, h2⟩ hok
      exact ⟨added_mkdirAll [] _ _ _ hok, h2⟩)
    (by rintro fs s ⟨rfl, h2⟩ herr; exact ⟨herr, h2⟩)
  have hsl := fsStep_exact (.symlink target source) (fun fs => Fs.symlink fs source target)
    (fun fs => Added [] fs0 fs) (fun _ => False) (fun s => s = "EEXIST")
    (by
      intro fs fs' h hok
      rw [symlink_exists_err fs source target (h.lexists target he)] at hok
      cases hok)
    (by
      intro fs s h herr
      rw [symlink_exists_err fs source target (h.lexists target he)] at herr
      cases herr; rfl)
  mvcgen [makeSymlinkInDirectory, fIsSymlink, fIsDir, getW, fsMkdir, fsSymlink, hmk, hsl]
  all_goals (simp (config := { zetaDelta := true }) at *)
  all_goals (try grind [Added.refl])

theorem first_of_split (cfg : Config) (l : Layer) (pref suff : List (Bytes × Bytes)) (cur : Bytes × Bytes)
    (h : autoExportPaths cfg l = pref ++ cur :: suff) (hp : pref = []) :
    cur.1 = pathJoin [cfg.exportdirs, cfg.exportBinPkg, l.name] := by
  subst hp
  simp [autoExportPaths] at h
  rw [← h.1]

/-- the first automatic export entry exists and is not a link: refused at once, nothing touched -/
theorem removeLayerExportLinks_first_refused (cfg : Config) (l : Layer) (w0 : World)
    (he : Fs.lexists w0.fs (pathJoin [cfg.exportdirs, cfg.exportBinPkg, l.name]) = true)
    (hs : Fs.isSymlink w0.fs (pathJoin [cfg.exportdirs, cfg.exportBinPkg, l.name]) = false) :
    ⦃fun w => ⌜w = w0⌝⦄ removeLayerExportLinks cfg l
    ⦃post⟨fun _ _ => ⌜False⌝, fun e w => ⌜e = .err "notsymlink" ∧ w = w0⌝⟩⦄ := by
  mvcgen [removeLayerExportLinks, fExists, fIsSymlink, getW, fail]
  case inv1 =>
    exact post⟨fun (xs, _) w => ⌜xs.prefix = [] ∧ w = w0⌝, fun e w => ⌜e = .err "notsymlink" ∧ w = w0⌝⟩
  all_goals (simp at *)
  all_goals (try grind [first_of_split])
  case vc5.post.success =>
    rename_i h
    have := h.1
    simp [autoExportPaths] at this


end Lc.ExportLinks
