/-
  Helper lemmas for `AddMissingStageDirs`: the loop `dir = dir[:LastIndexByte(dir,'/')]`
  gets strictly shorter (so `dir.length + 1` iterations of fuel suffice), visits exactly the
  ancestors `Anc · dir`, and every ancestor is a proper prefix.
-/
import Lc.Lemmas.StageList
import Lc.Lemmas.StageEntry

namespace Lc.Stage

theorem indexByte_lt (c : Nat) : ∀ (s : Bytes) (i : Nat), indexByte c s = some i → i < s.length := by
  intro s
  induction s with
  | nil => intro i h; cases h
  | cons x xs ih =>
    intro i h
    unfold indexByte at h
    split at h
    · cases h; simp
    · cases hq : indexByte c xs with
      | none => rw [hq] at h; cases h
      | some j =>
        rw [hq] at h
        cases h
        have := ih j hq
        simp; omega

theorem lastSlash_lt {s : Bytes} {pos : Nat} (h : lastSlash s = some pos) : pos < s.length := by
  unfold lastSlash at h
  simp only at h
  split at h
  · cases h
  · rename_i i hi
    cases h
    have := indexByte_lt SLASH _ i hi
    simp at this
    omega

/-- one step of the loop: the next directory, if any -/
def parentOf (n : Bytes) : Option Bytes :=
  match lastSlash n with
  | none => none
  | some pos => if pos < 1 then none else some (n.take pos)

theorem parentOf_split {n p : Bytes} (h : parentOf n = some p) :
    ∃ s, s ≠ [] ∧ n = p ++ s ∧ p ≠ [] := by
  unfold parentOf at h
  split at h
  · cases h
  · rename_i pos hp
    split at h
    · cases h
    · cases h
      have hlt := lastSlash_lt hp
      refine ⟨n.drop pos, ?_, (List.take_append_drop pos n).symm, ?_⟩
      · intro hd
        have h1 : (n.drop pos).length = n.length - pos := List.length_drop
        rw [hd] at h1
        simp only [List.length_nil] at h1
        omega
      · intro hd
        have h1 : (n.take pos).length = min pos n.length := List.length_take
        rw [hd] at h1
        simp only [List.length_nil] at h1
        omega

theorem parentOf_length {n p : Bytes} (h : parentOf n = some p) : p.length < n.length := by
  obtain ⟨s, hs, hn, _⟩ := parentOf_split h
  rw [hn, List.length_append]
  have : s.length ≠ 0 := by
    intro h0; exact hs (List.eq_nil_of_length_eq_zero h0)
  omega

/-- `Anc d n`: `d` is reached from `n` by one or more loop steps (a proper ancestor directory
    other than the root) -/
inductive Anc : Bytes → Bytes → Prop where
  | step {n p : Bytes} : parentOf n = some p → Anc p n
  | trans {n p d : Bytes} : parentOf n = some p → Anc d p → Anc d n

theorem Anc.snoc {d n p : Bytes} (h : Anc n d) (hp : parentOf n = some p) : Anc p d := by
  induction h with
  | step h1 => exact Anc.trans h1 (Anc.step hp)
  | trans h1 _ ih => exact Anc.trans h1 (ih hp)

/-- an ancestor is a proper prefix -/
theorem Anc.prefix {d n : Bytes} (h : Anc d n) : ∃ s, s ≠ [] ∧ n = d ++ s := by
  induction h with
  | step h1 =>
    obtain ⟨s, hs, hn, _⟩ := parentOf_split h1
    exact ⟨s, hs, hn⟩
  | trans h1 _ ih =>
    obtain ⟨s1, hs1, hn1, _⟩ := parentOf_split h1
    obtain ⟨s2, _, hn2⟩ := ih
    refine ⟨s2 ++ s1, ?_, ?_⟩
    · intro h; exact hs1 (List.append_eq_nil_iff.mp h).2
    · rw [hn1, hn2, List.append_assoc]

/-! ### a directory entry is always stored -/

theorem addEntry_dir {env : Env} {m m' : EMap} {d : Bytes}
    (h : addEntry env m { ltype := ltDir, name := d } = .ok m') :
    (∀ n, n ∈ m'.names ↔ n = d ∨ n ∈ m.names) := by
  unfold addEntry at h
  split at h
  · cases h
  · rename_i hs
    exact absurd (addSingleFile_none hs) (by simp)
  · rename_i e' hs
    cases h
    have hn := (addSingleFile_ok hs).1
    intro n
    rw [mem_names_insert, hn]

/-! ### the loop -/

theorem addChain_spec {env : Env} : ∀ (fuel : Nat) {m m' : EMap} {dir : Bytes},
    addChain env fuel m dir = .ok m' → dir.length < fuel →
    (∀ n, n ∈ m.names → n ∈ m'.names) ∧ dir ∈ m'.names ∧ (∀ d, Anc d dir → d ∈ m'.names) ∧
    (∀ n, n ∈ m'.names → n ∈ m.names ∨ n = dir ∨ Anc n dir) := by
  intro fuel
  induction fuel with
  | zero => intro m m' dir _ hl; omega
  | succ f ih =>
    intro m m' dir h hl
    simp only [addChain] at h
    split at h
    · cases h
    · rename_i m1 h1
      -- after the first statement: `dir` is a member, nothing else changed
      have hm1 : ∀ n, n ∈ m1.names ↔ n = dir ∨ n ∈ m.names := by
        split at h1
        · rename_i hh
          cases h1
          intro n
          constructor
          · intro hn; exact Or.inr hn
          · rintro (hn | hn)
            · rw [hn]; exact (has_iff _ _).mp hh
            · exact hn
        · exact addEntry_dir h1
      split at h
      · rename_i hls
        cases h
        refine ⟨fun n hn => (hm1 n).mpr (Or.inr hn), (hm1 dir).mpr (Or.inl rfl), ?_, ?_⟩
        · intro d hd
          exfalso
          cases hd with
          | step hp => simp [parentOf, hls] at hp
          | trans hp _ => simp [parentOf, hls] at hp
        · intro n hn
          rcases (hm1 n).mp hn with h | h
          · exact Or.inr (Or.inl h)
          · exact Or.inl h
      · rename_i pos hls
        split at h
        · rename_i hpos
          cases h
          refine ⟨fun n hn => (hm1 n).mpr (Or.inr hn), (hm1 dir).mpr (Or.inl rfl), ?_, ?_⟩
          · intro d hd
            exfalso
            cases hd with
            | step hp => simp [parentOf, hls, hpos] at hp
            | trans hp _ => simp [parentOf, hls, hpos] at hp
          · intro n hn
            rcases (hm1 n).mp hn with h | h
            · exact Or.inr (Or.inl h)
            · exact Or.inl h
        · rename_i hpos
          have hpar : parentOf dir = some (dir.take pos) := by simp [parentOf, hls, hpos]
          have hlen := parentOf_length hpar
          obtain ⟨a1, a2, a3, a4⟩ := ih h (by omega)
          refine ⟨fun n hn => a1 n ((hm1 n).mpr (Or.inr hn)), a1 dir ((hm1 dir).mpr (Or.inl rfl)), ?_, ?_⟩
          · intro d hd
            cases hd with
            | step hp => rw [hpar] at hp; cases hp; exact a2
            | trans hp hd' => rw [hpar] at hp; cases hp; exact a3 d hd'
          · intro n hn
            rcases a4 n hn with h | h | h
            · rcases (hm1 n).mp h with h | h
              · exact Or.inr (Or.inl h)
              · exact Or.inl h
            · exact Or.inr (Or.inr (by rw [h]; exact Anc.step hpar))
            · exact Or.inr (Or.inr (Anc.trans hpar h))

theorem addChains_spec {env : Env} (ds : List Bytes) : ∀ {m m' : EMap},
    addChains env m ds = .ok m' →
    (∀ n, n ∈ m.names → n ∈ m'.names) ∧
    (∀ d ∈ ds, d ∈ m'.names ∧ ∀ a, Anc a d → a ∈ m'.names) ∧
    (∀ n, n ∈ m'.names → n ∈ m.names ∨ ∃ d ∈ ds, n = d ∨ Anc n d) := by
  induction ds with
  | nil =>
    intro m m' h
    cases h
    exact ⟨fun _ h => h, fun d hd => (by cases hd), fun n hn => Or.inl hn⟩
  | cons d ds ih =>
    intro m m' h
    simp only [addChains] at h
    split at h
    · cases h
    · rename_i m1 h1
      obtain ⟨a1, a2, a3, a4⟩ := addChain_spec _ h1 (by omega)
      obtain ⟨b1, b2, b3⟩ := ih h
      refine ⟨fun n hn => b1 n (a1 n hn), ?_, ?_⟩
      · intro x hx
        rcases List.mem_cons.mp hx with hx | hx
        · rw [hx]; exact ⟨b1 d a2, fun a ha => b1 a (a3 a ha)⟩
        · exact b2 x hx
      · intro n hn
        rcases b3 n hn with h | ⟨x, hx, h⟩
        · rcases a4 n h with h | h | h
          · exact Or.inl h
          · exact Or.inr ⟨d, List.mem_cons_self, Or.inl h⟩
          · exact Or.inr ⟨d, List.mem_cons_self, Or.inr h⟩
        · exact Or.inr ⟨x, List.mem_cons_of_mem _ hx, h⟩

end Lc.Stage
