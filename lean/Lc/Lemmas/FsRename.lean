/-
  Lemmas about the file-system model (Lc/Model/Fs.lean): `under`, `removeAll` and
  `rename` seen through the first-match lookup `get`.  Helper lemmas for Props/C09.
  Core Lean only.
-/
import Lc.Model.Fs

namespace Lc.FsRename
open Lc Lc.Fs

/-! ### prefixes -/

theorem hasPrefix_nil (q : Bytes) : hasPrefix q [] = true := by
  cases q <;> rfl

theorem hasPrefix_append (a x y : Bytes) : hasPrefix (a ++ x) (a ++ y) = hasPrefix x y := by
  induction a with
  | nil => rfl
  | cons c cs ih => simp [hasPrefix, ih]

theorem hasPrefix_self_append (p r : Bytes) : hasPrefix (p ++ r) p = true := by
  have := hasPrefix_append p r []
  rw [List.append_nil] at this
  rw [this, hasPrefix_nil]

theorem hasPrefix_iff (q p : Bytes) : hasPrefix q p = true ↔ ∃ r, q = p ++ r := by
  induction p generalizing q with
  | nil => simp [hasPrefix_nil]
  | cons c cs ih =>
    cases q with
    | nil => simp [hasPrefix]
    | cons x xs =>
      simp only [hasPrefix, Bool.and_eq_true, beq_iff_eq, ih, List.cons_append, List.cons.injEq]
      constructor
      · rintro ⟨e, r, hr⟩; exact ⟨r, e, hr⟩
      · rintro ⟨r, e, hr⟩; exact ⟨e, r, hr⟩

/-! ### `under` -/

/-- the remainder of a path at or below a directory: empty or starting with a slash -/
def Tail (rest : Bytes) : Prop := rest = [] ∨ ∃ r, rest = 47 :: r

theorem tail_nil : Tail [] := Or.inl rfl
theorem tail_slash (r : Bytes) : Tail (47 :: r) := Or.inr ⟨r, rfl⟩

theorem under_self (p : Bytes) : under p p = true := by
  simp [under]

/-- for a directory other than "/": `q` is at or below `p` iff `q = p` or `q = p/…` -/
theorem under_iff (p q : Bytes) (hp : p ≠ [47]) :
    under p q = true ↔ ∃ rest, Tail rest ∧ q = p ++ rest := by
  unfold under
  have hp' : (p == [47]) = false := by simpa using hp
  simp only [hp', Bool.false_eq_true, if_false, Bool.or_eq_true, beq_iff_eq, hasPrefix_iff]
  constructor
  · rintro (e | ⟨r, hr⟩)
    · exact ⟨[], tail_nil, by simp [e]⟩
    · exact ⟨47 :: r, tail_slash r, by simp [hr]⟩
  · rintro ⟨rest, (e | ⟨r, e⟩), hq⟩
    · left; simp [hq, e]
    · right; exact ⟨r, by simp [hq, e]⟩

/-- also for `p = "/"` -/
theorem under_append (p rest : Bytes) (h : Tail rest) : under p (p ++ rest) = true := by
  by_cases hp : p = [47]
  · subst hp
    rcases h with e | ⟨r, e⟩ <;> subst e <;> simp [under, hasPrefix]
  · exact (under_iff p _ hp).2 ⟨rest, h, rfl⟩

/-- a sibling whose name extends the directory's name by a non-slash byte (`<dir>~removed`)
    shares no path with the directory -/
theorem under_sibling_disjoint (p s q : Bytes) (c : Nat) (hc : c ≠ 47) (hp : p ≠ [47])
    (h : under (p ++ c :: s) q = true) : under p q = false := by
  have hne : p ++ c :: s ≠ [47] := by
    cases p with
    | nil => simp [hc]
    | cons x xs => simp
  obtain ⟨rest, _, hq⟩ := (under_iff _ _ hne).1 h
  cases hu : under p q with
  | false => rfl
  | true =>
    obtain ⟨rest', ht, hq'⟩ := (under_iff _ _ hp).1 hu
    rw [hq, List.append_assoc, List.append_right_inj] at hq'
    rcases ht with e | ⟨r, e⟩
    · subst e; simp at hq'
    · subst e
      simp only [List.cons_append, List.cons.injEq] at hq'
      exact absurd hq'.1 hc

/-! ### lookup through `map` / `filter` -/

theorem find?_congr' {α} (l : List α) (p q : α → Bool) (h : ∀ x ∈ l, p x = q x) :
    l.find? p = l.find? q := by
  induction l with
  | nil => rfl
  | cons x xs ih =>
    simp only [List.find?_cons, h x (by simp)]
    rw [ih (fun y hy => h y (by simp [hy]))]

/-- looking up `p'` after filtering by `keep` and moving the keys with `f` is looking up
    `p` before, when on the members `f` keeps the nodes and "kept and moved to `p'`" means
    "was at `p`" -/
theorem get_map_filter (fs : Tree) (keep : Bytes × Node → Bool) (f : Bytes × Node → Bytes × Node)
    (p p' : Bytes) (hf2 : ∀ e ∈ fs, (f e).2 = e.2)
    (hkey : ∀ e ∈ fs, (keep e && (f e).1 == p') = (e.1 == p)) :
    Fs.get ((fs.filter keep).map f) p' = Fs.get fs p := by
  unfold Fs.get
  rw [List.find?_map, List.find?_filter]
  have hc : fs.find? (fun a => decide (keep a = true ∧ ((fun x => x.1 == p') ∘ f) a = true))
      = fs.find? (fun e => e.1 == p) := by
    apply find?_congr'
    intro e he
    have := hkey e he
    rw [← this]
    cases keep e <;> cases hb : ((f e).1 == p') <;> simp [Function.comp, hb]
  rw [hc]
  cases hf : fs.find? (fun e => e.1 == p) with
  | none => rfl
  | some e =>
    have he := List.mem_of_find?_eq_some hf
    simp [hf2 e he]

theorem get_removeAll (fs : Tree) (m p : Bytes) (h : under m p = false) :
    Fs.get (removeAll fs m) p = Fs.get fs p := by
  have := get_map_filter fs (fun e => !under m e.1) id p p (by simp) (by
    intro e _
    by_cases he : e.1 = p
    · simp [he, h]
    · simp [he])
  simpa [removeAll] using this

theorem get_removeAll_under (fs : Tree) (m p : Bytes) (h : under m p = true) :
    Fs.get (removeAll fs m) p = none := by
  unfold Fs.get removeAll
  rw [List.find?_filter]
  have : fs.find? (fun a => decide ((!under m a.1) = true ∧ (a.1 == p) = true)) = none := by
    rw [List.find?_eq_none]
    intro e _
    by_cases he : e.1 = p
    · simp [he, h]
    · simp [he]
  rw [this]

theorem get_isSome_mem (fs : Tree) (p : Bytes) (h : (Fs.get fs p).isSome = true) :
    ∃ e ∈ fs, e.1 = p := by
  unfold Fs.get at h
  cases hf : fs.find? (fun e => e.1 == p) with
  | none => rw [hf] at h; simp at h
  | some e =>
    exact ⟨e, List.mem_of_find?_eq_some hf, by simpa using List.find?_some hf⟩

/-! ### `rename` -/

/-- the key movement of `rename` -/
def mv (old new : Bytes) (e : Bytes × Node) : Bytes × Node :=
  if e.1 == old then (new, e.2)
  else if under old e.1 then (new ++ e.1.drop old.length, e.2) else e

theorem mv_snd (old new : Bytes) (e : Bytes × Node) : (mv old new e).2 = e.2 := by
  unfold mv; split
  · rfl
  · split <;> rfl

theorem rename_aux (b : Bool) (x fs' : Tree)
    (h : (if (!b) = true then Except.error "EEXIST" else Except.ok x : Except String Tree) = .ok fs') :
    x = fs' := by
  cases b <;> simp at h
  exact h

/-- what a successful `rename` did -/
theorem rename_ok (fs fs' : Tree) (old new : Bytes) (h : rename fs old new = .ok fs') :
    (Fs.get fs old).isSome = true ∧
    fs' = ((if old == new then fs else removeAll fs new).map (mv old new)) ∧
    ¬ (under old new = true ∧ old ≠ new) := by
  unfold rename at h
  split at h
  · cases h
  · rename_i n hn
    split at h
    · cases h
    · split at h
      · cases h
      · rename_i hinv
        have h' := rename_aux _ _ _ h
        refine ⟨by simp [hn], ?_, ?_⟩
        · rw [← h']; rfl
        · simpa using hinv

/-- entries at or below `old` are found, node unchanged, at the same relative path below
    `new`; lookups below `new` see nothing else.  Hypothesis `hdisj`: no entry lies at or
    below both names (true e.g. when nothing exists at or below `new`, or when `new` is a
    sibling `old ++ "~…"`). -/
theorem rename_moves (fs fs' : Tree) (old new : Bytes) (h : rename fs old new = .ok fs')
    (hold : old ≠ [47]) (hdisj : ∀ e ∈ fs, under new e.1 = true → under old e.1 = false)
    (rest : Bytes) (hr : Tail rest) : Fs.get fs' (new ++ rest) = Fs.get fs (old ++ rest) := by
  obtain ⟨hex, hfs, _⟩ := rename_ok fs fs' old new h
  obtain ⟨e0, he0, he0k⟩ := get_isSome_mem fs old hex
  have hne : old ≠ new := by
    intro e
    have h1 := hdisj e0 he0
    rw [he0k, ← e, under_self] at h1
    exact absurd (h1 rfl) (by simp)
  have hne' : (old == new) = false := by simpa using hne
  rw [hfs, hne']
  simp only [Bool.false_eq_true, if_false, removeAll]
  apply get_map_filter
  · intro e _; exact mv_snd old new e
  · intro e he
    have hd := hdisj e he
    by_cases h1 : e.1 = old
    · have hu : under old e.1 = true := by rw [h1]; exact under_self old
      have hk : under new e.1 = false := by
        cases hn : under new e.1 with
        | false => rfl
        | true => rw [hd hn] at hu; cases hu
      simp only [mv, h1, beq_self_eq_true, if_true]
      rw [h1] at hk
      have hnil : ∀ a : Bytes, (a == a ++ rest) = (rest == []) := by
        intro a; rw [Bool.eq_iff_iff]; simp
      simp [hk, hnil]
    · by_cases h2 : under old e.1 = true
      · have hk : under new e.1 = false := by
          cases hn : under new e.1 with
          | false => rfl
          | true => rw [hd hn] at h2; cases h2
        obtain ⟨rest', _, hq⟩ := (under_iff old e.1 hold).1 h2
        have h1' : (e.1 == old) = false := by simpa using h1
        simp only [mv, h1', h2, Bool.false_eq_true, if_false, if_true, hk, Bool.not_false,
          Bool.true_and]
        rw [hq, List.drop_left]
        rw [Bool.eq_iff_iff]; simp
      · have h2' : under old e.1 = false := by simpa using h2
        have h1' : (e.1 == old) = false := by simpa using h1
        simp only [mv, h1', h2', Bool.false_eq_true, if_false]
        have hl : (e.1 == old ++ rest) = false := by
          cases hb : e.1 == old ++ rest with
          | false => rfl
          | true =>
            rw [beq_iff_eq] at hb
            rw [hb, under_append old rest hr] at h2'; cases h2'
        rw [hl]
        cases hb : e.1 == new ++ rest with
        | false => simp
        | true =>
          rw [beq_iff_eq] at hb
          simp [hb, under_append new rest hr]

/-- paths neither at/below `old` nor at/below `new` are untouched by a successful rename -/
theorem rename_keeps (fs fs' : Tree) (old new : Bytes) (h : rename fs old new = .ok fs')
    (hold : old ≠ [47]) (p : Bytes) (hpo : under old p = false) (hpn : under new p = false) :
    Fs.get fs' p = Fs.get fs p := by
  obtain ⟨_, hfs, _⟩ := rename_ok fs fs' old new h
  have hfilt : (if old == new then fs else removeAll fs new)
      = fs.filter (fun e => old == new || !under new e.1) := by
    by_cases e : old = new
    · simp [e, List.filter_eq_self.2 (fun _ _ => rfl)]
    · have e' : (old == new) = false := by simpa using e
      simp [e', removeAll]
  rw [hfs, hfilt]
  apply get_map_filter
  · intro e _; exact mv_snd old new e
  · intro e _
    have hpn' : (new == p) = false := by
      cases hb : new == p with
      | false => rfl
      | true => rw [beq_iff_eq] at hb; rw [← hb, under_self] at hpn; cases hpn
    by_cases h1 : e.1 = old
    · have : (old == p) = false := by
        cases hb : old == p with
        | false => rfl
        | true => rw [beq_iff_eq] at hb; rw [← hb, under_self] at hpo; cases hpo
      simp [mv, h1, hpn', this]
    · have h1' : (e.1 == old) = false := by simpa using h1
      by_cases h2 : under old e.1 = true
      · obtain ⟨rest', ht, hq⟩ := (under_iff old e.1 hold).1 h2
        simp only [mv, h1', h2, Bool.false_eq_true, if_false, if_true]
        rw [hq, List.drop_left]
        have ha : (new ++ rest' == p) = false := by
          cases hb : new ++ rest' == p with
          | false => rfl
          | true =>
            rw [beq_iff_eq] at hb; rw [← hb, under_append new rest' ht] at hpn; cases hpn
        have hb : (old ++ rest' == p) = false := by
          cases hb : old ++ rest' == p with
          | false => rfl
          | true =>
            rw [beq_iff_eq] at hb; rw [← hb, under_append old rest' ht] at hpo; cases hpo
        simp [ha, hb]
      · have h2' : under old e.1 = false := by simpa using h2
        simp only [mv, h1', h2', Bool.false_eq_true, if_false]
        by_cases h3 : e.1 = p
        · simp [h3, hpn]
        · simp [h3]

end Lc.FsRename
