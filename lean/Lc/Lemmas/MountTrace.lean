/-
  The trace grammar of `mountOne` / `mountCmd` (helper lemmas for Props/C01).

  `mountOne` is first rewritten (extensionally equal, `mountOne_eq`) into the sequence
  overlay block ; expansion ; one block per expanded import ; refresh, so that each block
  gets its own trace specification:
    OvSeg      the overlay block issues nothing or exactly the overlay mount,
    ItemSeg    an import issues (mkdir of a missing source inside the layer tree)? then
               nothing or the complete `fs.Mount` sequence, only when the cache has no
               mount on its mountpoint,
    MountOneTrace = OvSeg ++ ItemSeg … ItemSeg (imports in configuration order).
  A run that ends with an error has issued a prefix of such a trace.
-/
import Lc.Lemmas.Trace

namespace Lc.MountTrace
open Std.Do Lc Lc.Layers Lc.Hoare Lc.Mountinfo Lc.Trace

set_option mvcgen.warning false

/-! ### `mountOne` in blocks -/

/-- the option string of the overlay mount -/
def ovData (cfg : Config) (bl l : Layer) : Bytes :=
  b!"lowerdir=" ++ buildPath cfg bl ++ b!",upperdir=" ++ upperPath cfg l ++ b!",workdir=" ++ workPath cfg l

def mountOverlay (cfg : Config) (d : Defs) (l : Layer) : M Unit := do
  if l.base.length > 0 then
    if (getMount d.mounts (buildPath cfg l)).isNone then
      let bl ← getL d l.base
      fsMount b!"overlay" (buildPath cfg l) b!"overlay" (ovData cfg bl l)

def mountItem (cfg : Config) (d : Defs) (m : Expanded) : M Unit := do
  if (getMount d.mounts m.mount).isNone then
    if !(← fExists m.source) then
      if inAnyLayerDirectory cfg (m.source.length + 1) m.source then fsMkdir m.source
      else fail "nosource"
    fsMount m.source m.mount m.fstype []

def mountItems (cfg : Config) (d : Defs) (expanded : List Expanded) : M Unit := do
  for m in expanded do mountItem cfg d m

def mountOne' (cfg : Config) (d : Defs) (name : Bytes) : M Defs := do
  let l ← getL d name
  if l.state < S_mountable then fail "notmountable"
  mountOverlay cfg d l
  let expanded ← liftRes (expandConfigMounts cfg d l)
  mountItems cfg d expanded
  let d ← refreshMountInfo cfg d
  let l ← getL d name
  let l' ← liftRes (findLayerstate cfg (← getW).fs d l)
  pure (setLayer d l')

/-- the model's `mountOne` is this sequence of blocks -/
theorem mountOne_eq (cfg : Config) (d : Defs) (name : Bytes) : mountOne cfg d name = mountOne' cfg d name := by
  unfold mountOne mountOne' mountItems mountOverlay mountItem ovData
  simp only [bind_assoc, pure_bind]
  congr 1; funext l
  split
  · rfl
  · have hbody : ∀ (b1 b2 : Expanded → PUnit → M (ForInStep PUnit)) (k : PUnit → M Defs), b1 = b2 →
        (do let ex ← liftRes (expandConfigMounts cfg d l); let r ← forIn ex PUnit.unit b1; k r) =
        (do let ex ← liftRes (expandConfigMounts cfg d l); let r ← forIn ex PUnit.unit b2; k r) := by
      intro b1 b2 k h; rw [h]
    have hb : ∀ (m : Expanded) (s : PUnit),
       (if (getMount d.mounts m.mount).isNone = true then do
      let __do_lift ← fExists m.source
      if (!__do_lift) = true then
          if inAnyLayerDirectory cfg (List.length m.source + 1) m.source = true then do
            fsMkdir m.source
            fsMount m.source m.mount m.fstype []
            pure (ForInStep.yield PUnit.unit)
          else do
            fail "nosource"
            fsMount m.source m.mount m.fstype []
            pure (ForInStep.yield PUnit.unit)
        else do
          fsMount m.source m.mount m.fstype []
          pure (ForInStep.yield PUnit.unit)
    else pure (ForInStep.yield PUnit.unit) : M (ForInStep PUnit)) =
      ((if (getMount d.mounts m.mount).isNone = true then (fExists m.source >>= fun __do_lift =>
        if (!__do_lift) = true then
            if inAnyLayerDirectory cfg (List.length m.source + 1) m.source = true then
              fsMkdir m.source >>= fun _ =>
              fsMount m.source m.mount m.fstype []
            else
              (fail "nosource" : M Unit) >>= fun _ =>
              fsMount m.source m.mount m.fstype []
          else fsMount m.source m.mount m.fstype [])
      else pure ()) >>= fun _ => pure (ForInStep.yield PUnit.unit)) := by
      intro m s
      split
      · simp only [bind_assoc]
        congr 1; funext b
        split
        · split <;> simp only [bind_assoc]
        · rfl
      · simp only [pure_bind]
    split
    · split
      · simp only [bind_assoc, pure_bind]
        congr 1; funext bl; congr 1; funext _
        apply hbody
        funext m s
        exact hb m s
      · simp only [bind_assoc, pure_bind]
        apply hbody
        funext m s
        exact hb m s
    · simp only [bind_assoc, pure_bind]
      apply hbody
      funext m s
      exact hb m s

/-! ### the grammar -/

/-- the overlay mount call of layer `l` on parent `bl` -/
def overlayOp (cfg : Config) (bl l : Layer) : Op :=
  mountOp b!"overlay" (buildPath cfg l) b!"overlay" (ovData cfg bl l)

/-- what the overlay block issues -/
def OvSeg (cfg : Config) (d : Defs) (l : Layer) (s : List Op) : Prop :=
  s = [] ∨ (l.base.length > 0 ∧ getMount d.mounts (buildPath cfg l) = none ∧
    ∃ bl, findLayer d l.base = some bl ∧ s = [overlayOp cfg bl l])

/-- what one expanded import issues -/
def ItemSeg (d : Defs) (m : Expanded) (s : List Op) : Prop :=
  ∃ mk mt, s = mk ++ mt ∧ (mk = [] ∨ mk = [Op.mkdir m.source]) ∧
    (mt = [] ∨ (getMount d.mounts m.mount = none ∧ mt = fsMountOps m.source m.mount m.fstype []))

inductive ItemSegs (d : Defs) : List Expanded → List Op → Prop
  | nil : ItemSegs d [] []
  | snoc {ms a m b} : ItemSegs d ms a → ItemSeg d m b → ItemSegs d (ms ++ [m]) (a ++ b)

def MountOneTrace (cfg : Config) (d : Defs) (l : Layer) (s : List Op) : Prop :=
  ∃ ov it, s = ov ++ it ∧ OvSeg cfg d l ov ∧
    (it = [] ∨ ∃ ex, expandConfigMounts cfg d l = .ok ex ∧ ItemSegs d ex it)

/-- normal exit of `mountOne cfg d name` -/
def MountOneN (cfg : Config) (d : Defs) (name : Bytes) (s : List Op) : Prop :=
  ∃ l, findLayer d name = some l ∧ MountOneTrace cfg d l s

/-- any exit: a prefix of a normal-exit trace (nothing at all when the layer is unknown) -/
def MountOneE (cfg : Config) (d : Defs) (name : Bytes) (s : List Op) : Prop :=
  s = [] ∨ ∃ s', MountOneN cfg d name (s ++ s')

theorem MountOneN.toE {cfg d name s} (h : MountOneN cfg d name s) : MountOneE cfg d name s :=
  .inr ⟨[], by simpa using h⟩

theorem ItemSeg.nil (d : Defs) (m : Expanded) : ItemSeg d m [] :=
  ⟨[], [], rfl, .inl rfl, .inl rfl⟩

theorem ItemSegs.extend {d : Defs} {ms : List Expanded} {a : List Op} (h : ItemSegs d ms a)
    (rest : List Expanded) : ItemSegs d (ms ++ rest) a := by
  induction rest generalizing ms a with
  | nil => simpa using h
  | cons r rest ih =>
    have h1 : ItemSegs d (ms ++ [r]) (a ++ []) := ItemSegs.snoc h (ItemSeg.nil d r)
    rw [List.append_nil] at h1
    have := ih h1
    simpa [List.append_assoc] using this

/-! ### block specifications -/

theorem fsMountOps_overlay (cfg : Config) (bl l : Layer) :
    fsMountOps b!"overlay" (buildPath cfg l) b!"overlay" (ovData cfg bl l) = [overlayOp cfg bl l] := by
  simp [fsMountOps, needsSlave, overlayOp]

theorem mountOverlay_emits (cfg : Config) (d : Defs) (l : Layer) (t : List Op) :
    ⦃fun w => ⌜w.trace = t⌝⦄ mountOverlay cfg d l
    ⦃post⟨fun _ w => ⌜∃ s, w.trace = t ++ s ∧ OvSeg cfg d l s⌝,
          fun _ w => ⌜∃ s, w.trace = t ++ s ∧ ∃ s', OvSeg cfg d l (s ++ s')⌝⟩⦄ := by
  mvcgen [mountOverlay, getL_spec, fsMount_emits]
  all_goals (try intros)
  case vc1 =>
    obtain ⟨s, e, hs⟩ := ‹∃ s, _ ∧ (s = [] ∨ s = fsMountOps _ _ _ _)›
    have hl := ‹_ ∧ findLayer d l.base = some _›
    have hm : getMount d.mounts (buildPath cfg l) = none := by
      simpa using ‹(getMount d.mounts (buildPath cfg l)).isNone = true›
    refine ⟨s, by simp_all, ?_⟩
    rcases hs with hs | hs
    · exact .inl hs
    · refine .inr ⟨‹l.base.length > 0›, hm, _, hl.2, ?_⟩
      rw [hs, fsMountOps_overlay]
  case vc2 =>
    obtain ⟨s, e, s', hs⟩ := ‹∃ s, _ ∧ ∃ s', s ++ s' = fsMountOps _ _ _ _›
    have hl := ‹_ ∧ findLayer d l.base = some _›
    have hm : getMount d.mounts (buildPath cfg l) = none := by
      simpa using ‹(getMount d.mounts (buildPath cfg l)).isNone = true›
    refine ⟨s, by simp_all, s', .inr ⟨‹l.base.length > 0›, hm, _, hl.2, ?_⟩⟩
    rw [hs, fsMountOps_overlay]
  all_goals first | exact ⟨[], by simp_all, .inl rfl⟩ | exact ⟨[], by simp_all, [], .inl rfl⟩

theorem ItemSeg.mk' {d : Defs} {m : Expanded} {mk mt : List Op}
    (hm : (getMount d.mounts m.mount).isNone = true)
    (h1 : mk = [] ∨ mk = [Op.mkdir m.source])
    (h2 : mt = [] ∨ mt = fsMountOps m.source m.mount m.fstype []) : ItemSeg d m (mk ++ mt) := by
  refine ⟨mk, mt, rfl, h1, ?_⟩
  rcases h2 with h2 | h2
  · exact .inl h2
  · exact .inr ⟨by simpa using hm, h2⟩

theorem ItemSeg.mkE {d : Defs} {m : Expanded} {mk mt : List Op}
    (hm : (getMount d.mounts m.mount).isNone = true)
    (h1 : mk = [] ∨ mk = [Op.mkdir m.source])
    (h2 : ∃ s', mt ++ s' = fsMountOps m.source m.mount m.fstype []) :
    ∃ s', ItemSeg d m ((mk ++ mt) ++ s') := by
  obtain ⟨s', h2⟩ := h2
  refine ⟨s', ?_⟩
  rw [List.append_assoc]
  exact ItemSeg.mk' hm h1 (.inr h2)

theorem mountItem_emits (cfg : Config) (d : Defs) (m : Expanded) (t : List Op) :
    ⦃fun w => ⌜w.trace = t⌝⦄ mountItem cfg d m
    ⦃post⟨fun _ w => ⌜∃ s, w.trace = t ++ s ∧ ItemSeg d m s⌝,
          fun _ w => ⌜∃ s, w.trace = t ++ s ∧ ∃ s', ItemSeg d m (s ++ s')⌝⟩⦄ := by
  mvcgen [mountItem, fExists_silent, fsMkdir_emits, fsMount_emits, fail]
  all_goals (try intros)
  case vc1 =>
    obtain ⟨s2, e2, h2⟩ := ‹∃ s, _ ∧ (s = [] ∨ s = fsMountOps _ _ _ _)›
    obtain ⟨s1, e1, h1⟩ := ‹∃ s, _ ∧ (s = [] ∨ s = [Op.mkdir _])›
    exact ⟨s1 ++ s2, by simp_all, ItemSeg.mk' ‹_› h1 h2⟩
  case vc2 =>
    obtain ⟨s2, e2, h2⟩ := ‹∃ s, _ ∧ ∃ s', s ++ s' = fsMountOps _ _ _ _›
    obtain ⟨s1, e1, h1⟩ := ‹∃ s, _ ∧ (s = [] ∨ s = [Op.mkdir _])›
    exact ⟨s1 ++ s2, by simp_all, ItemSeg.mkE ‹_› h1 h2⟩
  case vc3 =>
    obtain ⟨s1, e1, h1⟩ := ‹∃ s, _ ∧ (s = [] ∨ s = [Op.mkdir _])›
    refine ⟨s1, by simp_all, [], ?_⟩
    have := ItemSeg.mk' (mt := []) ‹(getMount d.mounts m.mount).isNone = true› h1 (.inl rfl)
    simpa using this
  case vc5 =>
    obtain ⟨s2, e2, h2⟩ := ‹∃ s, _ ∧ (s = [] ∨ s = fsMountOps _ _ _ _)›
    refine ⟨s2, by simp_all, ?_⟩
    have := ItemSeg.mk' (mk := []) ‹(getMount d.mounts m.mount).isNone = true› (.inl rfl) h2
    simpa using this
  case vc6 =>
    obtain ⟨s2, e2, h2⟩ := ‹∃ s, _ ∧ ∃ s', s ++ s' = fsMountOps _ _ _ _›
    refine ⟨s2, by simp_all, ?_⟩
    have := ItemSeg.mkE (mk := []) ‹(getMount d.mounts m.mount).isNone = true› (.inl rfl) h2
    simpa using this
  all_goals exact ⟨[], by simp_all, by first | exact ItemSeg.nil d m | exact ⟨[], ItemSeg.nil d m⟩⟩

theorem mountItems_emits (cfg : Config) (d : Defs) (ex : List Expanded) (t : List Op) :
    ⦃fun w => ⌜w.trace = t⌝⦄ mountItems cfg d ex
    ⦃post⟨fun _ w => ⌜∃ s, w.trace = t ++ s ∧ ItemSegs d ex s⌝,
          fun _ w => ⌜∃ s, w.trace = t ++ s ∧ ∃ s', ItemSegs d ex (s ++ s')⌝⟩⦄ := by
  mvcgen [mountItems, mountItem_emits]
  case inv1 =>
    exact post⟨fun (xs, _) w => ⌜∃ s, w.trace = t ++ s ∧ ItemSegs d xs.prefix s⌝,
               fun _ w => ⌜∃ s, w.trace = t ++ s ∧ ∃ s', ItemSegs d ex (s ++ s')⌝⟩
  all_goals (try intros)
  case vc1 =>
    rename_i hinv _ _ hstep
    dsimp only at hinv ⊢
    obtain ⟨s1, e1, h1⟩ := hinv
    obtain ⟨s2, e2, h2⟩ := hstep
    exact ⟨s1 ++ s2, by rw [e2, e1, List.append_assoc], ItemSegs.snoc h1 h2⟩
  case vc2 =>
    rename_i hex _ _ hinv _ _ hstep
    dsimp only at hinv ⊢
    obtain ⟨s1, e1, h1⟩ := hinv
    obtain ⟨s2, e2, s', h2⟩ := hstep
    refine ⟨s1 ++ s2, by rw [e2, e1, List.append_assoc], s', ?_⟩
    have := (ItemSegs.snoc h1 h2).extend ‹List Expanded›
    rw [hex]
    simpa [List.append_assoc] using this
  case vc3 => exact ⟨[], by simp_all, ItemSegs.nil⟩
  case vc4 => rename_i h; exact h
  case vc5 => simp

theorem mountOne'_emits (cfg : Config) (d : Defs) (name : Bytes) (t : List Op) :
    ⦃fun w => ⌜w.trace = t⌝⦄ mountOne' cfg d name
    ⦃post⟨fun _ w => ⌜∃ s, w.trace = t ++ s ∧ MountOneN cfg d name s⌝,
          fun _ w => ⌜∃ s, w.trace = t ++ s ∧ MountOneE cfg d name s⌝⟩⦄ := by
  mvcgen [mountOne', getL_spec, fail, mountOverlay_emits, liftRes_spec, mountItems_emits,
          refreshMountInfo_silent, getW]
  all_goals (try intros)
  case vc1 => exact ⟨[], by simp_all, .inl rfl⟩
  case vc9 => exact ⟨[], by simp_all, .inl rfl⟩
  case vc8 =>
    obtain ⟨s1, e1, s', h1⟩ := ‹∃ s, _ ∧ ∃ s', OvSeg _ _ _ (s ++ s')›
    have hl := (‹_ ∧ findLayer d name = some _›).2
    exact ⟨s1, by simp_all, .inr ⟨s', _, hl, s1 ++ s', [], by simp, h1, .inl rfl⟩⟩
  case vc7 =>
    obtain ⟨s1, e1, h1⟩ := ‹∃ s, _ ∧ OvSeg _ _ _ s›
    have hl := (‹_ ∧ findLayer d name = some _›).2
    exact ⟨s1, by simp_all, MountOneN.toE ⟨_, hl, s1, [], by simp, h1, .inl rfl⟩⟩
  case vc6 =>
    obtain ⟨s1, e1, h1⟩ := ‹∃ s, _ ∧ OvSeg _ _ _ s›
    obtain ⟨s2, e2, s', h2⟩ := ‹∃ s, _ ∧ ∃ s', ItemSegs _ _ (s ++ s')›
    have hl := (‹_ ∧ findLayer d name = some _›).2
    have hx := (‹_ ∧ expandConfigMounts _ _ _ = _›).2
    exact ⟨s1 ++ s2, by simp_all, .inr ⟨s', _, hl, s1, s2 ++ s', by simp, h1, .inr ⟨_, hx, h2⟩⟩⟩
  all_goals
    obtain ⟨s1, e1, h1⟩ := ‹∃ s, _ ∧ OvSeg _ _ _ s›
    obtain ⟨s2, e2, h2⟩ := ‹∃ s, _ ∧ ItemSegs _ _ s›
    have hl := (‹_ ∧ findLayer d name = some _›).2
    have hx := (‹_ ∧ expandConfigMounts _ _ _ = _›).2
    refine ⟨s1 ++ s2, by simp_all, ?_⟩
    first
      | exact ⟨_, hl, s1, s2, rfl, h1, .inr ⟨_, hx, h2⟩⟩
      | exact MountOneN.toE ⟨_, hl, s1, s2, rfl, h1, .inr ⟨_, hx, h2⟩⟩

/-- **trace specification of the model's `mountOne`** -/
theorem mountOne_emits (cfg : Config) (d : Defs) (name : Bytes) (t : List Op) :
    ⦃fun w => ⌜w.trace = t⌝⦄ mountOne cfg d name
    ⦃post⟨fun _ w => ⌜∃ s, w.trace = t ++ s ∧ MountOneN cfg d name s⌝,
          fun _ w => ⌜∃ s, w.trace = t ++ s ∧ MountOneE cfg d name s⌝⟩⦄ := by
  rw [mountOne_eq]
  exact mountOne'_emits cfg d name t

/-- run-level form: what a run of `mountOne` from any world appends to the trace -/
theorem mountOne_run (cfg : Config) (d : Defs) (name : Bytes) (w : World) :
    ∃ s, Emitted (mountOne cfg d name) w s ∧ MountOneE cfg d name s ∧
      (∀ d', ((mountOne cfg d name).run.run w).1 = .ok d' → MountOneN cfg d name s) := by
  have h := run_of_triple _ _ _ _ (mountOne_emits cfg d name w.trace) w rfl
  unfold Emitted
  generalize (mountOne cfg d name).run.run w = r at h ⊢
  obtain ⟨x, w'⟩ := r
  cases x with
  | ok a => obtain ⟨s, e, hs⟩ := h; exact ⟨s, e, hs.toE, fun _ _ => hs⟩
  | error e => obtain ⟨s, e, hs⟩ := h; exact ⟨s, e, hs, fun _ h => by cases h⟩

/-! ### `mountCmd` in blocks -/

def mkChainDirs (cfg : Config) (chain : List Layer) (d : Defs) : M Defs :=
  chain.foldlM (fun d a => makedirs cfg d a.name) d

def mountChain (cfg : Config) (chain : List Layer) (d : Defs) : M Defs :=
  chain.foldlM (fun d a => mountOne cfg d a.name) d

def linkChain (cfg : Config) (d : Defs) (chain : List Layer) : M PUnit :=
  forIn chain PUnit.unit fun a _ => do
    let a' ← getL d a.name
    makeExportSymlinks cfg a'
    pure (ForInStep.yield PUnit.unit)

theorem mountCmd_eq (cfg : Config) (d : Defs) (name : Bytes) :
    mountCmd cfg d name = (do
      testName d [(name, NAME_NEED)]
      let l ← getL d name
      errorIfError l
      let chain ← ancestorsAndSelf d (d.layers.length + 1) name []
      let d ← mkChainDirs cfg chain d
      let d ← mountChain cfg chain d
      linkChain cfg d chain
      pure d) := rfl

/-! ### blocks that only touch the file system -/

/-- relative to the trace `t`: only file-system operations were appended -/
def NS (t : List Op) (w : World) : Prop := ∃ s, w.trace = t ++ s ∧ NoSys s

theorem NS.refl {t : List Op} {w : World} (h : w.trace = t) : NS t w := ⟨[], by simp [h], NoSys.nil⟩

theorem NS.step {t : List Op} {w w' : World} (h : NS t w) (h' : ∃ s, w'.trace = w.trace ++ s ∧ NoSys s) :
    NS t w' := nosys_trans h h'

theorem NS.same {t : List Op} {w w' : World} (h : NS t w) (h' : w'.trace = w.trace) : NS t w' := by
  obtain ⟨s, e, n⟩ := h
  exact ⟨s, by rw [h', e], n⟩

macro "ns_done" : tactic =>
  `(tactic| ((try intros); first
      | assumption
      | (apply NS.same (by assumption); simp_all; done)
      | (simp_all; done)
      | (apply NS.same (by assumption); assumption)))

theorem fsStep_ns (t : List Op) (op : Op) (hop : isSys op = false) (f) : Holds (NS t) (fsStep op f) := by
  have h := fsStep_fsonly op hop f
  unfold Holds
  intro w hw
  have h1 := run_of_triple _ _ _ _ (h w.trace) w rfl
  apply (triple_of_run (fsStep op f) (fun w' => w' = w) (fun _ w' => NS t w') (fun _ w' => NS t w') ?_) w rfl
  intro w2 hw2
  subst hw2
  generalize (fsStep op f).run.run w2 = r at h1 ⊢
  obtain ⟨x, w'⟩ := r
  cases x <;> exact NS.step hw h1

theorem fsMkdir_ns (t p) : Holds (NS t) (fsMkdir p) := fsStep_ns t _ rfl _
theorem fsSymlink_ns (t a b) : Holds (NS t) (fsSymlink a b) := fsStep_ns t _ rfl _

theorem fIsDir_ns (t p) : Holds (NS t) (fIsDir p) := by
  unfold Holds; mvcgen [fIsDir, getW]
theorem fExists_ns (t p) : Holds (NS t) (fExists p) := by
  unfold Holds; mvcgen [fExists, getW]
theorem fIsSymlink_ns (t p) : Holds (NS t) (fIsSymlink p) := by
  unfold Holds; mvcgen [fIsSymlink, getW]
theorem testName_ns (t d ts) : Holds (NS t) (testName d ts) := by
  unfold Holds testName
  split <;> mvcgen [fail]
theorem getL_ns (t d n) : Holds (NS t) (getL d n) := by
  unfold Holds getL
  split <;> mvcgen
theorem errorIfError_ns (t l) : Holds (NS t) (errorIfError l) := by
  unfold Holds errorIfError
  split <;> mvcgen [fail]
theorem liftRes_ns {α} (t) (r : Res α) : Holds (NS t) (liftRes r) := liftRes_holds _ r

theorem makeSymlinkInDirectory_ns (t a b) : Holds (NS t) (makeSymlinkInDirectory a b) := by
  unfold Holds
  mvcgen [makeSymlinkInDirectory, fIsSymlink_ns, fIsDir_ns, fsMkdir_ns, fsSymlink_ns]

theorem makeExportSymlinks_ns (t cfg l) : Holds (NS t) (makeExportSymlinks cfg l) := by
  unfold Holds
  mvcgen [makeExportSymlinks, liftRes_ns, makeSymlinkInDirectory_ns, fExists_ns]
  all_goals (first
      | (exact post⟨fun _ w => ⌜NS t w⌝, fun _ w => ⌜NS t w⌝⟩)
      | skip)
  all_goals (try intros) <;> simp_all

theorem linkChain_ns (t cfg d chain) : Holds (NS t) (linkChain cfg d chain) := by
  unfold Holds
  mvcgen [linkChain, getL_ns, makeExportSymlinks_ns]
  all_goals (first
      | (exact post⟨fun _ w => ⌜NS t w⌝, fun _ w => ⌜NS t w⌝⟩)
      | skip)
  all_goals (try intros) <;> simp_all

theorem setLayer_mounts (d : Defs) (l : Layer) : (setLayer d l).mounts = d.mounts := rfl

theorem makedirs_ns (t : List Op) (cfg : Config) (d : Defs) (n : Bytes) :
    ⦃fun w => ⌜NS t w⌝⦄ makedirs cfg d n
    ⦃post⟨fun d' w => ⌜NS t w ∧ d'.mounts = d.mounts⌝, fun _ w => ⌜NS t w⌝⟩⦄ := by
  have h1 := testName_ns t; have h2 := getL_ns t; have h3 := errorIfError_ns t
  have h4 := fsMkdir_ns t
  have h5 : ∀ {α} (r : Res α), Holds (NS t) (liftRes r) := fun r => liftRes_ns t r
  unfold Holds at h1 h2 h3 h4 h5
  mvcgen [makedirs, h1, h2, h3, h4, h5, getW]
  all_goals (first
      | (exact post⟨fun _ w => ⌜NS t w⌝, fun _ w => ⌜NS t w⌝⟩)
      | skip)
  all_goals (try intros) <;> simp_all [setLayer_mounts]

theorem mkChainDirs_ns (t : List Op) (cfg : Config) (chain : List Layer) (d : Defs) :
    ⦃fun w => ⌜NS t w⌝⦄ mkChainDirs cfg chain d
    ⦃post⟨fun d' w => ⌜NS t w ∧ d'.mounts = d.mounts⌝, fun _ w => ⌜NS t w⌝⟩⦄ := by
  have hm := makedirs_ns t cfg
  mvcgen [mkChainDirs, hm]
  case inv1 => exact post⟨fun (_, d') w => ⌜NS t w ∧ d'.mounts = d.mounts⌝, fun _ w => ⌜NS t w⌝⟩
  all_goals (try intros) <;> simp_all

/-! ### the chain -/

/-- `c` is the base chain of the layer named `n` in `d`, root base layer first, `n` last
    (empty when `n` is empty) -/
inductive BaseChain (d : Defs) : List Layer → Bytes → Prop
  | nil {n : Bytes} : n.length = 0 → BaseChain d [] n
  | snoc {c : List Layer} {l : Layer} {n : Bytes} : findLayer d n = some l → n.length ≠ 0 →
      BaseChain d c l.base → BaseChain d (c ++ [l]) n

theorem ancestorsAndSelf_spec (d : Defs) (fuel : Nat) (n : Bytes) (acc : List Layer) (t : List Op) :
    ⦃fun w => ⌜w.trace = t⌝⦄ ancestorsAndSelf d fuel n acc
    ⦃post⟨fun r w => ⌜w.trace = t ∧ ∃ c, r = c ++ acc ∧ BaseChain d c n⌝, fun _ w => ⌜w.trace = t⌝⟩⦄ := by
  induction fuel generalizing n acc t with
  | zero => unfold ancestorsAndSelf; mvcgen
  | succ k ih =>
    unfold ancestorsAndSelf
    mvcgen [getL_spec, ih]
    all_goals (try intros)
    case vc1 =>
      refine ⟨by simp_all, [], rfl, BaseChain.nil (by simpa using ‹(n.length == 0) = true›)⟩
    case vc2 =>
      obtain ⟨c, hc, hb⟩ := ‹∃ c, _ ∧ BaseChain d c _›
      have hl := (‹_ ∧ findLayer d n = some _›).2
      refine ⟨by simp_all, c ++ [_], by simp [hc], BaseChain.snoc hl (by simpa using ‹¬(n.length == 0) = true›) hb⟩
    all_goals simp_all

/-- the `Defs` a layer's `mountOne` can hand to the next layer -/
def MountStep (cfg : Config) (d : Defs) (a : Layer) (d' : Defs) : Prop :=
  ∃ w, ((mountOne cfg d a.name).run.run w).1 = .ok d'

/-- layer `a` mounted with `d`: a complete `mountOne` trace, and `d'` is what it returned -/
abbrev SegN (cfg : Config) : Defs → Layer → List Op → Defs → Prop :=
  fun d a s d' => MountOneN cfg d a.name s ∧ MountStep cfg d a d'
abbrev SegE (cfg : Config) : Defs → Layer → List Op → Prop := fun d a s => MountOneE cfg d a.name s

theorem mountChain_run (cfg : Config) (chain : List Layer) (d : Defs) (w : World) :
    ∃ s, ((mountChain cfg chain d).run.run w).2.trace = w.trace ++ s ∧
      (∀ d', ((mountChain cfg chain d).run.run w).1 = .ok d' →
        FoldOk (SegN cfg) d chain s d') ∧
      (∀ e, ((mountChain cfg chain d).run.run w).1 = .error e →
        FoldErr (SegN cfg) (SegE cfg) d chain s) := by
  unfold mountChain
  have hstep : ∀ (b : Defs) (x : Layer) (w : World), True →
      ∃ s, ((mountOne cfg b x.name).run.run w).2.trace = w.trace ++ s ∧ True ∧
        (∀ b', ((mountOne cfg b x.name).run.run w).1 = .ok b' → SegN cfg b x s b') ∧
        (∀ e, ((mountOne cfg b x.name).run.run w).1 = .error e → SegE cfg b x s) := by
    intro b x w _
    obtain ⟨s, he, hE, hN⟩ := mountOne_run cfg b x.name w
    exact ⟨s, he, trivial, fun b' hb => ⟨hN b' hb, w, hb⟩, fun _ _ => hE⟩
  obtain ⟨s, h1, _, h2, h3⟩ := foldlM_segments (fun _ => True) (SegN cfg) (SegE cfg)
    (fun d a => mountOne cfg d a.name) hstep chain d w trivial
  exact ⟨s, h1, h2, h3⟩

theorem mountChain_emits (cfg : Config) (chain : List Layer) (d : Defs) (t : List Op) :
    ⦃fun w => ⌜w.trace = t⌝⦄ mountChain cfg chain d
    ⦃post⟨fun d' w => ⌜∃ s, w.trace = t ++ s ∧ FoldOk (SegN cfg) d chain s d'⌝,
          fun _ w => ⌜∃ s, w.trace = t ++ s ∧ FoldErr (SegN cfg) (SegE cfg) d chain s⌝⟩⦄ := by
  apply triple_of_run
  intro w hw
  obtain ⟨s, he, hs, hse⟩ := mountChain_run cfg chain d w
  generalize (mountChain cfg chain d).run.run w = r at he hs hse ⊢
  obtain ⟨x, w'⟩ := r
  subst hw
  cases x with
  | ok a => exact ⟨s, he, hs a rfl⟩
  | error e => exact ⟨s, he, hse e rfl⟩

theorem fsonly_of_ns {α} (m : M α) (Q : α → Prop)
    (h : ∀ t, ⦃fun w => ⌜NS t w⌝⦄ m ⦃post⟨fun a w => ⌜NS t w ∧ Q a⌝, fun _ w => ⌜NS t w⌝⟩⦄) (t : List Op) :
    ⦃fun w => ⌜w.trace = t⌝⦄ m ⦃post⟨fun a w => ⌜NS t w ∧ Q a⌝, fun _ w => ⌜NS t w⌝⟩⦄ := by
  apply triple_of_run
  intro w hw
  exact run_of_triple _ _ _ _ (h t) w (NS.refl hw)

theorem mkChainDirs_fs (cfg : Config) (chain : List Layer) (d : Defs) (t : List Op) :
    ⦃fun w => ⌜w.trace = t⌝⦄ mkChainDirs cfg chain d
    ⦃post⟨fun d' w => ⌜NS t w ∧ d'.mounts = d.mounts⌝, fun _ w => ⌜NS t w⌝⟩⦄ :=
  fsonly_of_ns _ _ (fun t => mkChainDirs_ns t cfg chain d) t

theorem linkChain_fs (cfg : Config) (d : Defs) (chain : List Layer) (t : List Op) :
    ⦃fun w => ⌜w.trace = t⌝⦄ linkChain cfg d chain
    ⦃post⟨fun _ w => ⌜NS t w⌝, fun _ w => ⌜NS t w⌝⟩⦄ := by
  apply triple_of_run
  intro w hw
  exact run_of_triple _ _ _ _ (linkChain_ns t cfg d chain) w (NS.refl hw)

/-- the per-layer segments of a `mount` command: complete, or cut short by an error -/
def ChainSegs (cfg : Config) (d0 : Defs) (chain : List Layer) (segs : List Op) : Prop :=
  (∃ d1, FoldOk (SegN cfg) d0 chain segs d1) ∨
  FoldErr (SegN cfg) (SegE cfg) d0 chain segs

/-- normal exit of `mountCmd`: directory creation, one complete segment per chain layer
    (root base layer first), export links -/
def MountCmdN (cfg : Config) (d : Defs) (name : Bytes) (s : List Op) : Prop :=
  ∃ chain pre segs post d0 d1, s = pre ++ segs ++ post ∧ NoSys pre ∧ NoSys post ∧
    BaseChain d chain name ∧ d0.mounts = d.mounts ∧
    FoldOk (SegN cfg) d0 chain segs d1

/-- any exit of `mountCmd` -/
def MountCmdE (cfg : Config) (d : Defs) (name : Bytes) (s : List Op) : Prop :=
  NoSys s ∨ ∃ chain pre segs post d0, s = pre ++ segs ++ post ∧ NoSys pre ∧ NoSys post ∧
    BaseChain d chain name ∧ d0.mounts = d.mounts ∧ ChainSegs cfg d0 chain segs

theorem mountCmd_emits (cfg : Config) (d : Defs) (name : Bytes) (t : List Op) :
    ⦃fun w => ⌜w.trace = t⌝⦄ mountCmd cfg d name
    ⦃post⟨fun _ w => ⌜∃ s, w.trace = t ++ s ∧ MountCmdN cfg d name s⌝,
          fun _ w => ⌜∃ s, w.trace = t ++ s ∧ MountCmdE cfg d name s⌝⟩⦄ := by
  rw [mountCmd_eq]
  mvcgen [testName_silent, getL_spec, errorIfError_silent, ancestorsAndSelf_spec, mkChainDirs_fs,
          mountChain_emits, linkChain_fs]
  all_goals (try intros)
  case vc1 =>
    obtain ⟨⟨pre, epre, npre⟩, hm⟩ := ‹NS _ _ ∧ _ = d.mounts›
    obtain ⟨segs, eseg, hseg⟩ := ‹∃ s, _ ∧ FoldOk _ _ _ s _›
    obtain ⟨post, epost, npost⟩ := ‹NS _ _›
    obtain ⟨e3, c, hc, hb⟩ := ‹_ ∧ ∃ c, _ ∧ BaseChain d c name›
    rw [List.append_nil] at hc
    subst hc
    exact ⟨pre ++ segs ++ post, by simp_all [List.append_assoc], _, pre, segs, post, _, _, rfl, npre, npost,
      hb, hm, hseg⟩
  case vc2 =>
    obtain ⟨⟨pre, epre, npre⟩, hm⟩ := ‹NS _ _ ∧ _ = d.mounts›
    obtain ⟨segs, eseg, hseg⟩ := ‹∃ s, _ ∧ FoldOk _ _ _ s _›
    obtain ⟨post, epost, npost⟩ := ‹NS _ _›
    obtain ⟨e3, c, hc, hb⟩ := ‹_ ∧ ∃ c, _ ∧ BaseChain d c name›
    rw [List.append_nil] at hc
    subst hc
    exact ⟨pre ++ segs ++ post, by simp_all [List.append_assoc], .inr ⟨_, pre, segs, post, _, rfl, npre, npost,
      hb, hm, .inl ⟨_, hseg⟩⟩⟩
  case vc3 =>
    obtain ⟨⟨pre, epre, npre⟩, hm⟩ := ‹NS _ _ ∧ _ = d.mounts›
    obtain ⟨segs, eseg, hseg⟩ := ‹∃ s, _ ∧ FoldErr _ _ _ _ s›
    obtain ⟨e3, c, hc, hb⟩ := ‹_ ∧ ∃ c, _ ∧ BaseChain d c name›
    rw [List.append_nil] at hc
    subst hc
    exact ⟨pre ++ segs ++ [], by simp_all [List.append_assoc], .inr ⟨_, pre, segs, [], _, rfl, npre, NoSys.nil,
      hb, hm, .inr hseg⟩⟩
  case vc4 =>
    obtain ⟨pre, epre, npre⟩ := ‹NS _ _›
    exact ⟨pre, by simp_all, .inl npre⟩
  all_goals exact ⟨[], by simp_all, .inl NoSys.nil⟩

/-- run-level form for the whole command -/
theorem mountCmd_run (cfg : Config) (d : Defs) (name : Bytes) (w : World) :
    ∃ s, Emitted (mountCmd cfg d name) w s ∧ MountCmdE cfg d name s ∧
      (∀ d', ((mountCmd cfg d name).run.run w).1 = .ok d' → MountCmdN cfg d name s) := by
  have h := run_of_triple _ _ _ _ (mountCmd_emits cfg d name w.trace) w rfl
  unfold Emitted
  generalize (mountCmd cfg d name).run.run w = r at h ⊢
  obtain ⟨x, w'⟩ := r
  cases x with
  | ok a =>
    obtain ⟨s, e, hs⟩ := h
    refine ⟨s, e, ?_, fun _ _ => hs⟩
    obtain ⟨chain, pre, segs, post, d0, d1, h1, h2, h3, h4, h5, h6⟩ := hs
    exact .inr ⟨chain, pre, segs, post, d0, h1, h2, h3, h4, h5, .inl ⟨d1, h6⟩⟩
  | error e => obtain ⟨s, e, hs⟩ := h; exact ⟨s, e, hs, fun _ h => by cases h⟩

end Lc.MountTrace
