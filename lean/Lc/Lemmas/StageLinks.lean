/-
  Helper lemmas for Props/C06Links: the loop of `ultimateSymlinkTarget` (`chainLoop`) against
  the relation "following k links from here ends at t" (`Chain`), and the walk of
  `addMissingLinks` (`walkDir`/`walkEntries`) against the set of entries it visits (`Reach`).
  Core Lean only.
-/
import Lc.Lemmas.StageClosed
import Lc.Model.StageLinks
import Lc.Base.Utf8

namespace Lc.Stage
open Lc Lc.Lemmas.Path Lc.ExportPath Lc.InLayers
open Lc.TreeWF (CleanAbs cleanAbs_absPath absPath_snoc_eq pfx)

/-! ### the constants -/

/-- the two lists of the model are the split `RecoverMissingLinks` makes of
    `strings.Fields(defaults.DoNotTraverse)` by `name[0] == '/'` -/
theorem nogo_split :
    nogoPaths = (fields doNotTraverse).filter (fun n => n.head? == some SLASH) ∧
    nogoNames = (fields doNotTraverse).filter (fun n => n.head? != some SLASH) := by
  decide

/-- no field is empty: `name[0]` does not panic -/
theorem nogo_fields_nonempty : ∀ n ∈ fields doNotTraverse, n ≠ [] := by decide

/-! ### error classes -/

def stageErr : Fault := .err "stage"
def fuelErr : Fault := .err "fuel"

theorem readlinkAt_error {env : Env} {p : Bytes} {f : Fault} (h : readlinkAt env p = .error f) :
    f = stageErr := by
  unfold readlinkAt at h
  split at h
  · split at h
    · cases h
    · cases h; rfl
  · cases h; rfl

theorem finishKind_error {st : Option Lstat} {nis : Bool} {info : Entry} {f : Fault}
    (h : finishKind st nis info = .error f) : f = stageErr := by
  simp only [finishKind] at h
  repeat' split at h
  all_goals first | (cases h; done) | (cases h; rfl)

theorem resolveLtype_error {st : Option Lstat} {nis : Bool} {info : Entry} {f : Fault}
    (h : resolveLtype st nis info = .error f) : f = stageErr := by
  unfold resolveLtype at h
  repeat' split at h
  all_goals first | (cases h; done) | (cases h; rfl)

/-- `addFiles` on a single resolved entry fails with an error return only (class "stage") -/
theorem addEntry_error {env : Env} {m : EMap} {e : Entry} {f : Fault}
    (h : addEntry env m e = .error f) : f = stageErr := by
  unfold addEntry at h
  split at h
  · rename_i f' hs
    cases h
    unfold addSingleFile at hs
    simp only at hs
    split at hs
    · rename_i e' hr
      cases hs
      exact resolveLtype_error hr
    · cases hs
    · exact finishKind_error hs
  · cases h
  · cases h

/-- a symbolic-link entry without `absent=skip` is stored whenever `addFiles` succeeds -/
theorem addEntry_symlink_mem {env : Env} {m m' : EMap} {n : Bytes}
    (h : addEntry env m { ltype := ltSymlink, name := n } = .ok m') : n ∈ m'.names := by
  unfold addEntry at h
  split at h
  · cases h
  · rename_i hs
    have := addSingleFile_none hs
    cases this
  · rename_i e' hs
    cases h
    have := (addSingleFile_ok hs).1
    exact (mem_names_insert _ _ _).mpr (Or.inl this.symm)

/-! ### the chain of links -/

/-- the path `fs.IsSymlink`/`fs.Readlink` are asked about for the name `t` -/
abbrev inRoot (env : Env) (t : Bytes) : Bytes := pathJoin2 env.rootDir t

/-- `Chain env rel abs k t`: `abs` (the place of the name `rel`) is a symbolic link, and
    following `k` links from there — relative targets resolved against the directory of the
    link's name, as the code does — arrives at the name `t`, which is not a symbolic link
    (it may be absent).  Every link on the way has a non-empty target. -/
inductive Chain (env : Env) : Bytes → Bytes → Nat → Bytes → Prop where
  | last {rel abs : Bytes} {c : Nat} {rest : Bytes} :
      readlinkAt env abs = .ok (c :: rest) →
      isSymlinkAt env (inRoot env (resolveTarget rel c rest)) = false →
      Chain env rel abs 1 (resolveTarget rel c rest)
  | hop {rel abs : Bytes} {c : Nat} {rest : Bytes} {k : Nat} {t : Bytes} :
      readlinkAt env abs = .ok (c :: rest) →
      isSymlinkAt env (inRoot env (resolveTarget rel c rest)) = true →
      Chain env (resolveTarget rel c rest) (inRoot env (resolveTarget rel c rest)) k t →
      Chain env rel abs (k + 1) t

/-- `LinksAhead env rel abs k`: `k` hops can be made from `abs`, and every one of them
    arrives at a symbolic link again (the chain has more than `k` links) -/
inductive LinksAhead (env : Env) : Bytes → Bytes → Nat → Prop where
  | zero {rel abs : Bytes} : LinksAhead env rel abs 0
  | succ {rel abs : Bytes} {c : Nat} {rest : Bytes} {k : Nat} :
      readlinkAt env abs = .ok (c :: rest) →
      isSymlinkAt env (inRoot env (resolveTarget rel c rest)) = true →
      LinksAhead env (resolveTarget rel c rest) (inRoot env (resolveTarget rel c rest)) k →
      LinksAhead env rel abs (k + 1)

theorem Chain.pos {env : Env} {rel abs : Bytes} {k : Nat} {t : Bytes} (h : Chain env rel abs k t) :
    1 ≤ k := by
  cases h <;> omega

theorem chainLoop_succ (env : Env) (fuel lc : Nat) (rel abs : Bytes) :
    chainLoop env (fuel + 1) lc rel abs =
      match readlinkAt env abs with
      | .error f => .error f
      | .ok [] => Res.panic
      | .ok (c :: rest) =>
        if !isSymlinkAt env (inRoot env (resolveTarget rel c rest)) then .ok (resolveTarget rel c rest)
        else if lc + 1 > maxSymlinkChain then Res.err "stage"
        else chainLoop env fuel (lc + 1) (resolveTarget rel c rest) (inRoot env (resolveTarget rel c rest)) := by
  rfl

/-- a successful loop followed a chain of at most `MaxSymlinkChain + 1 - linkCount` links -/
theorem chainLoop_ok {env : Env} : ∀ (fuel lc : Nat) (rel abs t : Bytes),
    chainLoop env fuel lc rel abs = .ok t → lc ≤ maxSymlinkChain →
    ∃ k, lc + k ≤ maxSymlinkChain + 1 ∧ Chain env rel abs k t := by
  intro fuel
  induction fuel with
  | zero => intro lc rel abs t h; cases h
  | succ fuel ih =>
    intro lc rel abs t h hlc
    rw [chainLoop_succ] at h
    split at h
    · cases h
    · cases h
    · rename_i c rest hr
      split at h
      · rename_i hs
        cases h
        exact ⟨1, by omega, Chain.last hr (by simpa using hs)⟩
      · rename_i hs
        split at h
        · cases h
        · rename_i hgt
          obtain ⟨k, hk, hc⟩ := ih _ _ _ _ h (by omega)
          exact ⟨k + 1, by omega, Chain.hop hr (by simpa using hs) hc⟩

/-- a chain of at most `MaxSymlinkChain + 1 - linkCount` links is followed to its end -/
theorem chainLoop_complete {env : Env} {rel abs t : Bytes} {k : Nat} (hc : Chain env rel abs k t) :
    ∀ (fuel lc : Nat), lc + k ≤ maxSymlinkChain + 1 → maxSymlinkChain + 1 ≤ lc + fuel →
    chainLoop env fuel lc rel abs = .ok t := by
  induction hc with
  | last hr hs =>
    intro fuel lc h1 h2
    cases fuel with
    | zero => omega
    | succ fuel => rw [chainLoop_succ, hr]; simp [hs]
  | hop hr hs hrest ih =>
    rename_i k' _
    intro fuel lc h1 h2
    have := hrest.pos
    cases fuel with
    | zero => omega
    | succ fuel =>
      rw [chainLoop_succ, hr]
      have hgt : ¬ (lc + 1 > maxSymlinkChain) := by omega
      simp only [hs, Bool.not_true, Bool.false_eq_true, if_false, hgt]
      exact ih fuel (lc + 1) (by omega) (by omega)

/-- when at least `MaxSymlinkChain + 1 - linkCount` further hops arrive at a symbolic link
    the loop gives up with the error "symlink chain … too long" -/
theorem chainLoop_too_long {env : Env} : ∀ (fuel lc k : Nat) (rel abs : Bytes),
    LinksAhead env rel abs k → lc ≤ maxSymlinkChain → maxSymlinkChain + 1 ≤ lc + k →
    maxSymlinkChain + 1 ≤ lc + fuel → chainLoop env fuel lc rel abs = .error stageErr := by
  intro fuel
  induction fuel with
  | zero => intro lc k rel abs _ h1 _ h3; omega
  | succ fuel ih =>
    intro lc k rel abs hl h1 h2 h3
    cases hl with
    | zero => omega
    | succ hr hs hrest =>
      rename_i c rest k'
      rw [chainLoop_succ, hr]
      simp only [hs, Bool.not_true, Bool.false_eq_true, if_false]
      split
      · rfl
      · rename_i hgt
        exact ih (lc + 1) k' _ _ hrest (by omega) (by omega) (by omega)

/-- the loop does not run out of fuel -/
theorem chainLoop_no_fuel {env : Env} : ∀ (fuel lc : Nat) (rel abs : Bytes),
    maxSymlinkChain + 1 ≤ lc + fuel → lc ≤ maxSymlinkChain →
    chainLoop env fuel lc rel abs ≠ .error fuelErr := by
  intro fuel
  induction fuel with
  | zero => intro lc rel abs h1 h2; omega
  | succ fuel ih =>
    intro lc rel abs h1 h2 h
    rw [chainLoop_succ] at h
    split at h
    · rename_i f hr
      have := readlinkAt_error hr
      injection h with h
      rw [this] at h
      exact absurd h (by decide)
    · cases h
    · split at h
      · cases h
      · split at h
        · injection h with h
          exact absurd h (by decide)
        · exact ih _ _ _ (by omega) (by omega) h

/-- more fuel than `MaxSymlinkChain` changes nothing -/
theorem chainLoop_fuel {env : Env} : ∀ (f1 f2 lc : Nat) (rel abs : Bytes),
    maxSymlinkChain + 1 ≤ lc + f1 → maxSymlinkChain + 1 ≤ lc + f2 → lc ≤ maxSymlinkChain →
    chainLoop env f1 lc rel abs = chainLoop env f2 lc rel abs := by
  intro f1
  induction f1 with
  | zero => intro f2 lc rel abs h1 _ h3; omega
  | succ f1 ih =>
    intro f2 lc rel abs h1 h2 h3
    cases f2 with
    | zero => omega
    | succ f2 =>
      rw [chainLoop_succ, chainLoop_succ]
      split
      · rfl
      · rfl
      · split
        · rfl
        · split
          · rfl
          · exact ih f2 _ _ _ (by omega) (by omega) (by omega)

/-- the errors of `ultimateSymlinkTarget`: an error return, or the panic on an empty target -/
theorem chainLoop_error {env : Env} : ∀ (fuel lc : Nat) (rel abs : Bytes) (f : Fault),
    chainLoop env fuel lc rel abs = .error f → f = stageErr ∨ f = .panic ∨ f = fuelErr := by
  intro fuel
  induction fuel with
  | zero => intro lc rel abs f h; cases h; exact Or.inr (Or.inr rfl)
  | succ fuel ih =>
    intro lc rel abs f h
    rw [chainLoop_succ] at h
    split at h
    · rename_i f' hr
      cases h
      exact Or.inl (readlinkAt_error hr)
    · cases h; exact Or.inr (Or.inl rfl)
    · split at h
      · cases h
      · split at h
        · cases h; exact Or.inl rfl
        · exact ih _ _ _ _ h

/-- no symbolic link has an empty target (Linux: `symlink(2)` refuses one with ENOENT) -/
def NoEmptyLink (env : Env) : Prop :=
  ∀ p st, env.fs p = some st → st.mode &&& S_IFMT = S_IFLNK → st.link ≠ []

theorem readlinkAt_ne_nil {env : Env} (hne : NoEmptyLink env) {p : Bytes} :
    readlinkAt env p ≠ .ok [] := by
  intro h
  unfold readlinkAt at h
  split at h
  · rename_i st hst
    split at h
    · rename_i hl
      injection h with h
      exact hne p st hst hl h
    · cases h
  · cases h

theorem chainLoop_no_panic {env : Env} (hne : NoEmptyLink env) : ∀ (fuel lc : Nat) (rel abs : Bytes),
    chainLoop env fuel lc rel abs ≠ .error .panic := by
  intro fuel
  induction fuel with
  | zero => intro lc rel abs h; cases h
  | succ fuel ih =>
    intro lc rel abs h
    rw [chainLoop_succ] at h
    split at h
    · rename_i f' hr
      have := readlinkAt_error hr
      injection h with h
      rw [this] at h
      exact absurd h (by decide)
    · rename_i hr
      exact readlinkAt_ne_nil hne hr
    · split at h
      · cases h
      · split at h
        · injection h with h
          exact absurd h (by decide)
        · exact ih _ _ _ h

/-! #### the same for `ultimateSymlinkTarget` -/

theorem ultimateTarget_ok {env : Env} {src abs t : Bytes} (h : ultimateTarget env src abs = .ok t) :
    ∃ k, 1 ≤ k ∧ k ≤ maxSymlinkChain ∧ Chain env src abs k t := by
  obtain ⟨k, hk, hc⟩ := chainLoop_ok _ _ _ _ _ h (by decide)
  exact ⟨k, hc.pos, by omega, hc⟩

theorem ultimateTarget_complete {env : Env} {src abs t : Bytes} {k : Nat}
    (hc : Chain env src abs k t) (hk : k ≤ maxSymlinkChain) : ultimateTarget env src abs = .ok t :=
  chainLoop_complete hc _ _ (by omega) (by decide)

theorem ultimateTarget_too_long {env : Env} {src abs : Bytes}
    (hl : LinksAhead env src abs maxSymlinkChain) : ultimateTarget env src abs = .error stageErr :=
  chainLoop_too_long _ _ _ _ _ hl (by decide) (by decide) (by decide)

theorem ultimateTarget_no_fuel {env : Env} {src abs : Bytes} :
    ultimateTarget env src abs ≠ .error fuelErr :=
  chainLoop_no_fuel _ _ _ _ (by decide) (by decide)

theorem ultimateTarget_error {env : Env} (hne : NoEmptyLink env) {src abs : Bytes} {f : Fault}
    (h : ultimateTarget env src abs = .error f) : f = stageErr := by
  rcases chainLoop_error _ _ _ _ _ h with e | e | e
  · exact e
  · rw [e] at h; exact absurd h (chainLoop_no_panic hne _ _ _ _)
  · rw [e] at h; exact absurd h ultimateTarget_no_fuel

/-- `ultimateSymlinkTarget` succeeds only on a symbolic link -/
theorem ultimateTarget_ok_islink {env : Env} {src abs t : Bytes} (h : ultimateTarget env src abs = .ok t) :
    isSymlinkAt env abs = true := by
  unfold ultimateTarget at h
  have e : maxSymlinkChain = 4 + 1 := rfl
  rw [e, chainLoop_succ] at h
  split at h
  · cases h
  · cases h
  · rename_i hr
    unfold readlinkAt at hr
    unfold isSymlinkAt
    split at hr
    · split at hr
      · rename_i hl; simp [hl]
      · cases hr
    · cases hr

/-- … and ends at something that is not a symbolic link -/
theorem Chain.end_not_link {env : Env} {rel abs t : Bytes} {k : Nat} (h : Chain env rel abs k t) :
    isSymlinkAt env (inRoot env t) = false := by
  induction h with
  | last _ hs => exact hs
  | hop _ _ _ ih => exact ih

/-! ### sizes -/

theorem Node.size_dir (es : List (Bytes × Node)) : (Node.dir es).size = 1 + Node.sizeList es := by
  simp [Node.size]

theorem Node.sizeList_cons (c : Bytes) (n : Node) (rest : List (Bytes × Node)) :
    Node.sizeList ((c, n) :: rest) = n.size + Node.sizeList rest := by
  simp [Node.sizeList]

theorem Node.size_pos (n : Node) : 1 ≤ n.size := by
  cases n <;> simp [Node.size]

theorem mem_sizeList {c : Bytes} {ch : Node} : ∀ {es : List (Bytes × Node)}, (c, ch) ∈ es →
    ch.size ≤ Node.sizeList es := by
  intro es
  induction es with
  | nil => intro h; cases h
  | cons e rest ih =>
    intro h
    obtain ⟨c', n'⟩ := e
    rw [Node.sizeList_cons]
    rcases List.mem_cons.mp h with h | h
    · injection h with h1 h2; rw [h2]; omega
    · have := ih h; omega

/-! ### unfolding the walk -/

theorem walkDir_succ (env : Env) (fuel : Nat) (dir : Bytes) (node : Node) (m : EMap) :
    walkDir env (fuel + 1) dir node m =
      if nogoPaths.contains dir then .ok m
      else match node with
        | .dir entries => walkEntries env (walkDir env fuel) dir entries m
        | _ => Res.err "stage" := rfl

theorem walkEntries_cons (env : Env) (rec : Bytes → Node → EMap → Res EMap) (dir c : Bytes) (ch : Node)
    (rest : List (Bytes × Node)) (m : EMap) :
    walkEntries env rec dir ((c, ch) :: rest) m =
      match entryStep env rec dir c ch m with
      | .error f => .error f
      | .ok m' => walkEntries env rec dir rest m' := rfl

/-! ### what the walk visits -/

/-- `Reach dir es n c`: the walk, standing in the directory named `dir` whose entries are
    `es`, comes to an entry with the name `n` (as the code forms it, with `path.Join`) and the
    node `c` — in this directory, or in a directory below that it enters: one that is a real
    directory, whose entry name is not in `nogoNames` and whose name is not in `nogoPaths`. -/
inductive Reach : Bytes → List (Bytes × Node) → Bytes → Node → Prop where
  | here {dir : Bytes} {es : List (Bytes × Node)} {mt : Bytes} {c : Node} :
      (mt, c) ∈ es → Reach dir es (pathJoin2 dir mt) c
  | deeper {dir : Bytes} {es : List (Bytes × Node)} {mt : Bytes} {es' : List (Bytes × Node)}
      {n : Bytes} {c : Node} :
      (mt, Node.dir es') ∈ es → nogoNames.contains mt = false →
      nogoPaths.contains (pathJoin2 dir mt) = false → Reach (pathJoin2 dir mt) es' n c →
      Reach dir es n c

/-- the walk started at `dir` on `tree` comes to the entry `n`, node `c` -/
def Visits (dir : Bytes) (tree : Node) (n : Bytes) (c : Node) : Prop :=
  ∃ es, tree = .dir es ∧ nogoPaths.contains dir = false ∧ Reach dir es n c

theorem Reach.tail {dir : Bytes} {e : Bytes × Node} {rest : List (Bytes × Node)} {n : Bytes} {c : Node}
    (h : Reach dir rest n c) : Reach dir (e :: rest) n c := by
  cases h with
  | here hm => exact Reach.here (List.mem_cons_of_mem _ hm)
  | deeper hm h1 h2 hr => exact Reach.deeper (List.mem_cons_of_mem _ hm) h1 h2 hr

/-- what one entry contributes -/
def REntry (dir mt : Bytes) (ch : Node) (n : Bytes) (c : Node) : Prop :=
  (n = pathJoin2 dir mt ∧ c = ch) ∨
  (∃ es', ch = .dir es' ∧ nogoNames.contains mt = false ∧
    nogoPaths.contains (pathJoin2 dir mt) = false ∧ Reach (pathJoin2 dir mt) es' n c)

theorem REntry.reach {dir mt : Bytes} {ch : Node} {rest : List (Bytes × Node)} {n : Bytes} {c : Node}
    (h : REntry dir mt ch n c) : Reach dir ((mt, ch) :: rest) n c := by
  rcases h with ⟨h1, h2⟩ | ⟨es', h1, h2, h3, h4⟩
  · rw [h1, h2]; exact Reach.here List.mem_cons_self
  · rw [h1]; exact Reach.deeper List.mem_cons_self h2 h3 h4

theorem Reach.cons_inv {dir mt : Bytes} {ch : Node} {rest : List (Bytes × Node)} {n : Bytes} {c : Node}
    (h : Reach dir ((mt, ch) :: rest) n c) : REntry dir mt ch n c ∨ Reach dir rest n c := by
  cases h with
  | here hm =>
    rcases List.mem_cons.mp hm with e | hm
    · injection e with e1 e2
      left; left; rw [e1, e2]; exact ⟨rfl, rfl⟩
    · right; exact Reach.here hm
  | deeper hm h1 h2 hr =>
    rcases List.mem_cons.mp hm with e | hm
    · injection e with e1 e2
      left; right
      rw [← e1, ← e2]
      exact ⟨_, rfl, h1, h2, hr⟩
    · right; exact Reach.deeper hm h1 h2 hr

theorem Reach.nil_false {dir n : Bytes} {c : Node} (h : Reach dir [] n c) : False := by
  cases h with
  | here hm => cases hm
  | deeper hm => cases hm

/-! ### what the walk does to the member map -/

/-- the link `n` qualifies when the members are `mk`: not a member, and its chain ends at a member -/
def LinkOK (env : Env) (mk : EMap) (n : Bytes) : Prop :=
  n ∉ mk.names ∧ isSymlinkAt env (inRoot env n) = true ∧
    ∃ t, ultimateTarget env n (inRoot env n) = .ok t ∧ t ∈ mk.names

/-- the effect of (a part of) the walk that visits the entries `R` on the member map -/
structure WalkSpec (env : Env) (R : Bytes → Node → Prop) (m m' : EMap) : Prop where
  /-- nothing is removed -/
  mono : ∀ x ∈ m.names, x ∈ m'.names
  /-- what is added is a visited symbolic link that qualified at its moment `mk` -/
  added : ∀ x ∈ m'.names, x ∈ m.names ∨ ∃ (tgt : Bytes) (mk : EMap), R x (.symlink tgt) ∧
    (∀ y ∈ m.names, y ∈ mk.names) ∧ (∀ y ∈ mk.names, y ∈ m'.names) ∧ LinkOK env mk x
  /-- every visited symbolic link is a member afterwards, or its chain ended (without error)
      at a name that was no member at its moment -/
  seen : ∀ x tgt, R x (.symlink tgt) → x ∈ m'.names ∨ ∃ (t : Bytes) (mk : EMap), ultimateTarget env x (inRoot env x) = .ok t ∧
    (∀ y ∈ m.names, y ∈ mk.names) ∧ t ∉ mk.names

theorem WalkSpec.refl {env : Env} {R : Bytes → Node → Prop} (m : EMap)
    (hR : ∀ x tgt, ¬ R x (.symlink tgt)) : WalkSpec env R m m :=
  ⟨fun _ h => h, fun _ h => Or.inl h, fun x tgt h => absurd h (hR x tgt)⟩

theorem WalkSpec.congr {env : Env} {R1 R2 : Bytes → Node → Prop} {m m' : EMap}
    (h : WalkSpec env R1 m m') (h1 : ∀ x tgt, R1 x (.symlink tgt) → R2 x (.symlink tgt))
    (h2 : ∀ x tgt, R2 x (.symlink tgt) → R1 x (.symlink tgt)) : WalkSpec env R2 m m' := by
  refine ⟨h.mono, ?_, ?_⟩
  · intro x hx
    rcases h.added x hx with h0 | ⟨tgt, mk, hr, a, b, c⟩
    · exact Or.inl h0
    · exact Or.inr ⟨tgt, mk, h1 _ _ hr, a, b, c⟩
  · intro x tgt hr
    exact h.seen x tgt (h2 _ _ hr)

theorem WalkSpec.comp {env : Env} {R1 R2 R : Bytes → Node → Prop} {m m1 m' : EMap}
    (ha : WalkSpec env R1 m m1) (hb : WalkSpec env R2 m1 m')
    (h1 : ∀ x tgt, R1 x (.symlink tgt) → R x (.symlink tgt))
    (h2 : ∀ x tgt, R2 x (.symlink tgt) → R x (.symlink tgt))
    (h3 : ∀ x tgt, R x (.symlink tgt) → R1 x (.symlink tgt) ∨ R2 x (.symlink tgt)) :
    WalkSpec env R m m' := by
  refine ⟨fun x hx => hb.mono x (ha.mono x hx), ?_, ?_⟩
  · intro x hx
    rcases hb.added x hx with h0 | ⟨tgt, mk, hr, a, b, c⟩
    · rcases ha.added x h0 with h00 | ⟨tgt, mk, hr, a, b, c⟩
      · exact Or.inl h00
      · exact Or.inr ⟨tgt, mk, h1 _ _ hr, a, fun y hy => hb.mono y (b y hy), c⟩
    · exact Or.inr ⟨tgt, mk, h2 _ _ hr, fun y hy => a y (ha.mono y hy), b, c⟩
  · intro x tgt hr
    rcases h3 x tgt hr with hr | hr
    · rcases ha.seen x tgt hr with h0 | ⟨t, mk, a, b, c⟩
      · exact Or.inl (hb.mono x h0)
      · exact Or.inr ⟨t, mk, a, b, c⟩
    · rcases hb.seen x tgt hr with h0 | ⟨t, mk, a, b, c⟩
      · exact Or.inl h0
      · exact Or.inr ⟨t, mk, a, fun y hy => b y (ha.mono y hy), c⟩

theorem linkStep_spec {env : Env} {m m' : EMap} {n : Bytes} (t0 : Bytes) (h : linkStep env m n = .ok m') :
    WalkSpec env (fun x c => x = n ∧ c = .symlink t0) m m' := by
  unfold linkStep at h
  split at h
  · rename_i hn
    cases h
    have hn' := (has_iff _ _).mp hn
    exact ⟨fun _ h => h, fun _ h => Or.inl h, fun x tgt hx => Or.inl (by rw [hx.1]; exact hn')⟩
  · rename_i hn
    have hn' : n ∉ m.names := fun hm => hn ((has_iff _ _).mpr hm)
    split at h
    · cases h
    · rename_i target hu
      split at h
      · rename_i ht
        have ht' := (has_iff _ _).mp ht
        obtain ⟨a, b⟩ := addEntry_names h
        refine ⟨a, ?_, ?_⟩
        · intro x hx
          rcases b x hx with e | hm
          · right
            refine ⟨t0, m, ⟨e, rfl⟩, fun _ h => h, a, ?_⟩
            rw [e]
            exact ⟨hn', ultimateTarget_ok_islink hu, target, hu, ht'⟩
          · exact Or.inl hm
        · intro x tgt hx
          left; rw [hx.1]; exact addEntry_symlink_mem h
      · rename_i ht
        cases h
        have ht' : target ∉ m.names := fun hm => ht ((has_iff _ _).mpr hm)
        refine ⟨fun _ h => h, fun _ h => Or.inl h, ?_⟩
        intro x tgt hx
        right
        rw [hx.1]
        exact ⟨target, m, hu, fun _ h => h, ht'⟩

theorem entryStep_spec {env : Env} {rec : Bytes → Node → EMap → Res EMap}
    (hrec : ∀ dir node m m', rec dir node m = .ok m' → WalkSpec env (Visits dir node) m m')
    {dir mt : Bytes} {ch : Node} {m m' : EMap} (h : entryStep env rec dir mt ch m = .ok m') :
    WalkSpec env (REntry dir mt ch) m m' := by
  have hsub : ∀ (ch : Node), (nogoNames.contains mt = true ∨ ∀ es, ch ≠ .dir es) → (∀ t, ch ≠ .symlink t) →
      ∀ x tgt, ¬ REntry dir mt ch x (.symlink tgt) := by
    intro ch h1 h2 x tgt hr
    rcases hr with ⟨_, e⟩ | ⟨es', e, hn, _⟩
    · exact h2 tgt e.symm
    · rcases h1 with h1 | h1
      · rw [h1] at hn; cases hn
      · exact h1 es' e
  have hdirlike : ∀ (ch : Node), (∀ t, ch ≠ .symlink t) →
      (if nogoNames.contains mt then .ok m else rec (pathJoin2 dir mt) ch m) = .ok m' →
      WalkSpec env (REntry dir mt ch) m m' := by
    intro ch hns h
    split at h
    · rename_i hn
      cases h
      exact WalkSpec.refl m (hsub ch (Or.inl hn) hns)
    · rename_i hn
      have hn' : nogoNames.contains mt = false := by simpa using hn
      refine (hrec _ _ _ _ h).congr ?_ ?_
      · rintro x tgt ⟨es, e1, e2, e3⟩
        exact Or.inr ⟨es, e1, hn', e2, e3⟩
      · rintro x tgt (⟨_, e⟩ | ⟨es', e1, _, e2, e3⟩)
        · exact absurd e.symm (hns tgt)
        · exact ⟨es', e1, e2, e3⟩
  cases ch with
  | symlink t =>
    refine (linkStep_spec (n := pathJoin2 dir mt) t h).congr ?_ ?_
    · rintro x tgt ⟨e1, e2⟩
      exact Or.inl ⟨e1, e2⟩
    · rintro x tgt (⟨e1, e2⟩ | ⟨es', e, _⟩)
      · exact ⟨e1, e2⟩
      · cases e
  | dir es => exact hdirlike _ (by intro t e; cases e) h
  | unreadable => exact hdirlike _ (by intro t e; cases e) h
  | file =>
    cases h
    exact WalkSpec.refl m (hsub _ (Or.inr (by intro es e; cases e)) (by intro t e; cases e))
  | other =>
    cases h
    exact WalkSpec.refl m (hsub _ (Or.inr (by intro es e; cases e)) (by intro t e; cases e))

theorem walkEntries_spec {env : Env} {rec : Bytes → Node → EMap → Res EMap}
    (hrec : ∀ dir node m m', rec dir node m = .ok m' → WalkSpec env (Visits dir node) m m')
    (dir : Bytes) : ∀ (es : List (Bytes × Node)) (m m' : EMap),
    walkEntries env rec dir es m = .ok m' → WalkSpec env (Reach dir es) m m' := by
  intro es
  induction es with
  | nil =>
    intro m m' h
    cases h
    exact WalkSpec.refl m (fun x tgt hr => hr.nil_false)
  | cons e rest ih =>
    intro m m' h
    obtain ⟨mt, ch⟩ := e
    rw [walkEntries_cons] at h
    split at h
    · cases h
    · rename_i m1 h1
      exact (entryStep_spec hrec h1).comp (ih m1 m' h)
        (fun x tgt hr => hr.reach) (fun x tgt hr => hr.tail) (fun x tgt hr => hr.cons_inv)

/-- **the walk against what it visits** -/
theorem walkDir_spec {env : Env} : ∀ (fuel : Nat) (dir : Bytes) (node : Node) (m m' : EMap),
    walkDir env fuel dir node m = .ok m' → WalkSpec env (Visits dir node) m m' := by
  intro fuel
  induction fuel with
  | zero => intro dir node m m' h; cases h
  | succ fuel ih =>
    intro dir node m m' h
    rw [walkDir_succ] at h
    split at h
    · rename_i hn
      cases h
      refine WalkSpec.refl m ?_
      rintro x tgt ⟨es, _, e, _⟩
      rw [hn] at e; cases e
    · rename_i hn
      have hn' : nogoPaths.contains dir = false := by simpa using hn
      split at h
      · rename_i es
        refine (walkEntries_spec ih dir es m m' h).congr ?_ ?_
        · intro x tgt hr; exact ⟨es, rfl, hn', hr⟩
        · rintro x tgt ⟨es', e1, _, e3⟩
          cases e1; exact e3
      · cases h

/-! ### fuel -/

theorem entryStep_congr {env : Env} {rec1 rec2 : Bytes → Node → EMap → Res EMap} {dir mt : Bytes}
    {ch : Node} (h : ∀ d m, rec1 d ch m = rec2 d ch m) (m : EMap) :
    entryStep env rec1 dir mt ch m = entryStep env rec2 dir mt ch m := by
  cases ch <;> simp only [entryStep, h]

theorem walkEntries_congr {env : Env} {rec1 rec2 : Bytes → Node → EMap → Res EMap} (dir : Bytes) :
    ∀ (es : List (Bytes × Node)), (∀ c ch, (c, ch) ∈ es → ∀ d m, rec1 d ch m = rec2 d ch m) →
    ∀ m, walkEntries env rec1 dir es m = walkEntries env rec2 dir es m := by
  intro es
  induction es with
  | nil => intro _ m; rfl
  | cons e rest ih =>
    intro h m
    obtain ⟨c, ch⟩ := e
    rw [walkEntries_cons, walkEntries_cons, entryStep_congr (h c ch List.mem_cons_self)]
    split
    · rfl
    · exact ih (fun c' ch' hm => h c' ch' (List.mem_cons_of_mem _ hm)) _

/-- any two amounts of fuel from the number of nodes on give the same result -/
theorem walkDir_fuel {env : Env} : ∀ (f1 f2 : Nat) (node : Node), node.size ≤ f1 → node.size ≤ f2 →
    ∀ dir m, walkDir env f1 dir node m = walkDir env f2 dir node m := by
  intro f1
  induction f1 with
  | zero => intro f2 node h1; have := node.size_pos; omega
  | succ f1 ih =>
    intro f2 node h1 h2 dir m
    cases f2 with
    | zero => have := node.size_pos; omega
    | succ f2 =>
      rw [walkDir_succ, walkDir_succ]
      split
      · rfl
      · cases node with
        | dir es =>
          simp only
          rw [Node.size_dir] at h1 h2
          apply walkEntries_congr
          intro c ch hm d m'
          have := mem_sizeList hm
          exact ih f2 ch (by omega) (by omega) d m'
        | _ => rfl

theorem linkStep_no_fuel {env : Env} {m : EMap} {n : Bytes} : linkStep env m n ≠ .error fuelErr := by
  intro h
  unfold linkStep at h
  split at h
  · cases h
  · split at h
    · rename_i f hu
      injection h with h
      rw [h] at hu
      exact ultimateTarget_no_fuel hu
    · split at h
      · have := addEntry_error h
        exact absurd this (by decide)
      · cases h

theorem walkEntries_no_fuel {env : Env} {rec : Bytes → Node → EMap → Res EMap} (dir : Bytes) :
    ∀ (es : List (Bytes × Node)), (∀ c ch, (c, ch) ∈ es → ∀ d m, rec d ch m ≠ .error fuelErr) →
    ∀ m, walkEntries env rec dir es m ≠ .error fuelErr := by
  intro es
  induction es with
  | nil => intro _ m h; cases h
  | cons e rest ih =>
    intro hrec m h
    obtain ⟨c, ch⟩ := e
    rw [walkEntries_cons] at h
    split at h
    · rename_i f h1
      injection h with h
      rw [h] at h1
      have hr := hrec c ch List.mem_cons_self
      cases ch with
      | symlink t => exact linkStep_no_fuel h1
      | dir es' =>
        simp only [entryStep] at h1
        split at h1
        · cases h1
        · exact hr _ _ h1
      | unreadable =>
        simp only [entryStep] at h1
        split at h1
        · cases h1
        · exact hr _ _ h1
      | file => cases h1
      | other => cases h1
    · exact ih (fun c' ch' hm => hrec c' ch' (List.mem_cons_of_mem _ hm)) _ h

/-- with the number of nodes as fuel the walk does not run out of it -/
theorem walkDir_no_fuel {env : Env} : ∀ (fuel : Nat) (node : Node), node.size ≤ fuel →
    ∀ dir m, walkDir env fuel dir node m ≠ .error fuelErr := by
  intro fuel
  induction fuel with
  | zero => intro node h; have := node.size_pos; omega
  | succ fuel ih =>
    intro node h dir m hw
    rw [walkDir_succ] at hw
    split at hw
    · cases hw
    · cases node with
      | dir es =>
        simp only at hw
        rw [Node.size_dir] at h
        refine walkEntries_no_fuel dir es ?_ m hw
        intro c ch hm d m'
        have := mem_sizeList hm
        exact ih ch (by omega) d m'
      | _ =>
        injection hw with hw
        exact absurd hw (by decide)

/-! ### the walk and the candidate list -/

theorem recoverAll_append {env : Env} : ∀ (xs ys : List Cand) (m : EMap),
    recoverAll env m (xs ++ ys) =
      match recoverAll env m xs with
      | .error f => .error f
      | .ok m' => recoverAll env m' ys := by
  intro xs
  induction xs with
  | nil => intro ys m; rfl
  | cons x xs ih =>
    intro ys m
    simp only [List.cons_append, recoverAll]
    split
    · rfl
    · exact ih ys _

/-- the link branch of the loop body is `recoverOne` on the candidate of that link -/
theorem linkStep_eq_recoverOne {env : Env} (hne : NoEmptyLink env) (m : EMap) (n : Bytes) :
    linkStep env m n = recoverOne env m (candOf env n) := by
  unfold linkStep recoverOne candOf
  cases hu : ultimateTarget env n (pathJoin2 env.rootDir n) with
  | error f =>
    have := ultimateTarget_error hne hu
    rw [this]
    simp only
    split <;> rfl
  | ok t => simp

theorem candsDir_succ (env : Env) (fuel : Nat) (dir : Bytes) (node : Node) :
    candsDir env (fuel + 1) dir node =
      if nogoPaths.contains dir then []
      else match node with
        | .dir entries => candsEntries env (candsDir env fuel) dir entries
        | _ => [] := rfl

theorem Node.readable_dir (es : List (Bytes × Node)) : (Node.dir es).readable = Node.readableList es := by
  simp [Node.readable]

theorem mem_readableList {c : Bytes} {ch : Node} : ∀ {es : List (Bytes × Node)},
    Node.readableList es = true → (c, ch) ∈ es → ch.readable = true := by
  intro es
  induction es with
  | nil => intro _ h; cases h
  | cons e rest ih =>
    intro hr h
    obtain ⟨c', n'⟩ := e
    simp only [Node.readableList, Bool.and_eq_true] at hr
    rcases List.mem_cons.mp h with h | h
    · injection h with h1 h2; rw [h2]; exact hr.1
    · exact ih hr.2 h

theorem walkEntries_eq_recoverAll {env : Env} (hne : NoEmptyLink env)
    {rec : Bytes → Node → EMap → Res EMap} {recC : Bytes → Node → List Cand} (dir : Bytes) :
    ∀ (es : List (Bytes × Node)),
    (∀ c es', (c, Node.dir es') ∈ es → ∀ d m, rec d (.dir es') m = recoverAll env m (recC d (.dir es'))) →
    (∀ c, (c, Node.unreadable) ∉ es) →
    ∀ m, walkEntries env rec dir es m = recoverAll env m (candsEntries env recC dir es) := by
  intro es
  induction es with
  | nil => intro _ _ m; rfl
  | cons e rest ih =>
    intro hrec hun m
    obtain ⟨c, ch⟩ := e
    rw [walkEntries_cons]
    simp only [candsEntries]
    rw [recoverAll_append]
    have hstep : entryStep env rec dir c ch m = recoverAll env m (candsEntry env recC dir c ch) := by
      cases ch with
      | symlink t =>
        simp only [entryStep, candsEntry, recoverAll]
        rw [linkStep_eq_recoverOne hne]
        split <;> assumption
      | dir es' =>
        simp only [entryStep, candsEntry]
        split
        · rfl
        · exact hrec c es' List.mem_cons_self _ _
      | unreadable => exact absurd List.mem_cons_self (hun c)
      | file => rfl
      | other => rfl
    rw [hstep]
    split
    · rfl
    · exact ih (fun c' es' hm => hrec c' es' (List.mem_cons_of_mem _ hm))
        (fun c' hm => hun c' (List.mem_cons_of_mem _ hm)) _

/-- **the walk is `recoverAll` on its candidate list** (directories all readable, no empty
    link target) -/
theorem walkDir_eq_recoverAll {env : Env} (hne : NoEmptyLink env) : ∀ (fuel : Nat) (es : List (Bytes × Node)),
    (Node.dir es).size ≤ fuel → Node.readableList es = true →
    ∀ dir m, walkDir env fuel dir (.dir es) m = recoverAll env m (candsDir env fuel dir (.dir es)) := by
  intro fuel
  induction fuel with
  | zero => intro es h; have := (Node.dir es).size_pos; omega
  | succ fuel ih =>
    intro es h hr dir m
    rw [walkDir_succ, candsDir_succ]
    split
    · rfl
    · simp only
      rw [Node.size_dir] at h
      apply walkEntries_eq_recoverAll hne
      · intro c es' hm d m'
        have h1 := mem_sizeList hm
        have h2 := mem_readableList hr hm
        rw [Node.readable_dir] at h2
        exact ih es' (by omega) h2 d m'
      · intro c hm
        have := mem_readableList hr hm
        simp [Node.readable] at this

/-- every candidate is a symbolic link the walk visits -/
theorem candsEntries_visits {env : Env} {recC : Bytes → Node → List Cand}
    (hrec : ∀ d node c, c ∈ recC d node → ∃ tgt, Visits d node c.name (.symlink tgt)) (dir : Bytes) :
    ∀ (es : List (Bytes × Node)) (c : Cand), c ∈ candsEntries env recC dir es →
    ∃ tgt, Reach dir es c.name (.symlink tgt) := by
  intro es
  induction es with
  | nil => intro c h; cases h
  | cons e rest ih =>
    intro c h
    obtain ⟨mt, ch⟩ := e
    simp only [candsEntries, List.mem_append] at h
    rcases h with h | h
    · cases ch with
      | symlink t =>
        simp only [candsEntry, List.mem_singleton] at h
        refine ⟨t, ?_⟩
        have : c.name = pathJoin2 dir mt := by
          rw [h]; unfold candOf; split <;> rfl
        rw [this]
        exact Reach.here List.mem_cons_self
      | dir es' =>
        simp only [candsEntry] at h
        split at h
        · cases h
        · rename_i hn
          obtain ⟨tgt, es2, e1, e2, e3⟩ := hrec _ _ _ h
          cases e1
          exact ⟨tgt, Reach.deeper List.mem_cons_self (by simpa using hn) e2 e3⟩
      | unreadable =>
        simp only [candsEntry] at h
        split at h
        · cases h
        · obtain ⟨tgt, es2, e1, _⟩ := hrec _ _ _ h
          cases e1
      | file => cases h
      | other => cases h
    · obtain ⟨tgt, hr⟩ := ih c h
      exact ⟨tgt, hr.tail⟩

theorem candsDir_visits {env : Env} : ∀ (fuel : Nat) (dir : Bytes) (node : Node) (c : Cand),
    c ∈ candsDir env fuel dir node → ∃ tgt, Visits dir node c.name (.symlink tgt) := by
  intro fuel
  induction fuel with
  | zero => intro dir node c h; cases h
  | succ fuel ih =>
    intro dir node c h
    rw [candsDir_succ] at h
    split at h
    · cases h
    · rename_i hn
      split at h
      · rename_i es
        obtain ⟨tgt, hr⟩ := candsEntries_visits ih dir es c h
        exact ⟨tgt, es, rfl, by simpa using hn, hr⟩
      · cases h

/-! ### a tree as its own oracle -/

/-- in `Env.ofTree` no symbolic link has an empty target when none of the tree has -/
theorem noEmptyLink_ofTree (rootDir : Bytes) (tree : Node)
    (h : ∀ cs t, tree.find cs = some (.symlink t) → t ≠ []) : NoEmptyLink (Env.ofTree rootDir tree) := by
  intro p st h1 h2
  unfold Env.ofTree at h1
  simp only at h1
  split at h1
  · cases h1
  · rename_i rel _
    cases hf : tree.find (pathComps rel) with
    | none => rw [hf] at h1; cases h1
    | some nd =>
      rw [hf] at h1
      injection h1 with h1
      subst h1
      cases nd with
      | symlink t => exact h _ t hf
      | dir es => exact absurd h2 (by simp only [Node.lstat]; decide)
      | unreadable => exact absurd h2 (by decide)
      | file => exact absurd h2 (by decide)
      | other => exact absurd h2 (by decide)

mutual
/-- no symbolic link of the tree has an empty target -/
def Node.linksNonEmpty : Node → Bool
  | .dir es => Node.linksNonEmptyList es
  | .symlink t => !t.isEmpty
  | _ => true
def Node.linksNonEmptyList : List (Bytes × Node) → Bool
  | [] => true
  | (_, n) :: rest => n.linksNonEmpty && Node.linksNonEmptyList rest
end

theorem mem_linksNonEmptyList {e : Bytes × Node} : ∀ {es : List (Bytes × Node)},
    Node.linksNonEmptyList es = true → e ∈ es → e.2.linksNonEmpty = true := by
  intro es
  induction es with
  | nil => intro _ h; cases h
  | cons x rest ih =>
    intro hr h
    obtain ⟨c', n'⟩ := x
    simp only [Node.linksNonEmptyList, Bool.and_eq_true] at hr
    rcases List.mem_cons.mp h with h | h
    · rw [h]; exact hr.1
    · exact ih hr.2 h

theorem find_linksNonEmpty : ∀ (cs : List Bytes) (node : Node) (t : Bytes),
    node.linksNonEmpty = true → node.find cs = some (.symlink t) → t ≠ [] := by
  intro cs
  induction cs with
  | nil =>
    intro node t h hf
    simp only [Node.find] at hf
    injection hf with hf
    subst hf
    intro e; subst e
    simp [Node.linksNonEmpty] at h
  | cons c cs ih =>
    intro node t h hf
    cases node with
    | dir es =>
      simp only [Node.find] at hf
      split at hf
      · rename_i e he
        have hm := List.mem_of_find?_eq_some he
        simp only [Node.linksNonEmpty] at h
        exact ih e.2 t (mem_linksNonEmptyList h hm) hf
      · cases hf
    | unreadable => simp [Node.find] at hf
    | file => simp [Node.find] at hf
    | symlink _ => simp [Node.find] at hf
    | other => simp [Node.find] at hf

/-- the decidable form -/
theorem noEmptyLink_of_tree (rootDir : Bytes) (tree : Node) (h : tree.linksNonEmpty = true) :
    NoEmptyLink (Env.ofTree rootDir tree) :=
  noEmptyLink_ofTree rootDir tree (fun cs t hf => find_linksNonEmpty cs tree t h hf)

/-! ### the names the walk forms -/

/-- `path.Join(dir, name)` of an absolute `dir` is a clean absolute path, whatever `name` is -/
theorem pathJoin2_cleanAbs (dir c : Bytes) (h : isAbs dir = true) : CleanAbs (pathJoin2 dir c) := by
  cases dir with
  | nil => cases h
  | cons x xs =>
    have e : pathJoin2 (x :: xs) c = pathClean ((x :: xs) ++ SLASH :: c) := by
      simp [pathJoin2, pathJoin, List.dropWhile, joinWith]
    rw [e]
    apply pathClean_cleanAbs
    rw [isAbs_cons] at h
    show isAbs (x :: (xs ++ SLASH :: c)) = true
    rw [isAbs_cons]
    exact h

/-- every name the walk forms is a clean absolute path when it starts at an absolute one -/
theorem Reach.cleanAbs {dir : Bytes} {es : List (Bytes × Node)} {n : Bytes} {c : Node}
    (h : Reach dir es n c) : isAbs dir = true → CleanAbs n := by
  induction h with
  | here _ => intro hd; exact pathJoin2_cleanAbs _ _ hd
  | deeper _ _ _ _ ih => intro hd; exact ih (pathJoin2_cleanAbs _ _ hd).2

/-- the name the walk gives to what it reaches from `dir` through the entry names `comps` -/
def joinAll (dir : Bytes) (comps : List Bytes) : Bytes := comps.foldl pathJoin2 dir

/-- `At es comps c`: following the entry names `comps` from the directory with the entries
    `es`, through directories, leads to the node `c` -/
inductive At : List (Bytes × Node) → List Bytes → Node → Prop where
  | here {es : List (Bytes × Node)} {mt : Bytes} {c : Node} : (mt, c) ∈ es → At es [mt] c
  | deeper {es : List (Bytes × Node)} {mt : Bytes} {es' : List (Bytes × Node)} {cs : List Bytes} {c : Node} :
      (mt, Node.dir es') ∈ es → At es' cs c → At es (mt :: cs) c

theorem At.ne_nil {es : List (Bytes × Node)} {cs : List Bytes} {c : Node} (h : At es cs c) : cs ≠ [] := by
  cases h <;> simp

/-- **where a visited entry lies**: its place in the tree is given by entry names `comps`;
    its name is `comps` joined onto `dir`; none of the directories on the way — the proper,
    non-empty prefixes of `comps` — has a name in `nogoPaths`, and none of their entry names
    (all of `comps` but the last) is in `nogoNames` -/
theorem Reach.comps {dir : Bytes} {es : List (Bytes × Node)} {n : Bytes} {c : Node}
    (h : Reach dir es n c) :
    ∃ comps, At es comps c ∧ n = joinAll dir comps ∧
      (∀ pre, pre <+: comps → pre ≠ [] → pre ≠ comps → nogoPaths.contains (joinAll dir pre) = false) ∧
      (∀ x ∈ comps.dropLast, nogoNames.contains x = false) := by
  induction h with
  | @here dir es mt c hm =>
    refine ⟨[mt], At.here hm, rfl, ?_, ?_⟩
    · intro pre hp hne hne2
      exfalso
      cases pre with
      | nil => exact hne rfl
      | cons a as =>
        obtain ⟨t, ht⟩ := hp
        cases as with
        | nil => simp at ht; exact hne2 (by rw [ht.1])
        | cons b bs => simp at ht
    · intro x hx; simp at hx
  | @deeper dir es mt es' n c hm h1 h2 _ ih =>
    obtain ⟨comps, hat, hn, hp, hd⟩ := ih
    have hne := hat.ne_nil
    refine ⟨mt :: comps, At.deeper hm hat, by rw [hn]; rfl, ?_, ?_⟩
    · intro pre hpre hne1 hne2
      cases pre with
      | nil => exact absurd rfl hne1
      | cons a as =>
        obtain ⟨t, ht⟩ := hpre
        simp only [List.cons_append, List.cons.injEq] at ht
        obtain ⟨e1, e2⟩ := ht
        subst e1
        show nogoPaths.contains (joinAll (pathJoin2 dir a) as) = false
        cases as with
        | nil => exact h2
        | cons b bs =>
          exact hp (b :: bs) ⟨t, e2⟩ (by simp) (by intro e; exact hne2 (by rw [e]))
    · intro x hx
      rw [List.dropLast_cons_of_ne_nil hne] at hx
      rcases List.mem_cons.mp hx with e | hx
      · rw [e]; exact h1
      · exact hd x hx

/-! #### on a tree whose entry names are clean path elements -/

theorem pathClean_congr {a b : Bytes} (h1 : isAbs a = isAbs b) (h2 : pathComps a = pathComps b) :
    pathClean a = pathClean b := by
  unfold pathClean
  rw [h1, h2]

theorem pathJoin2_absPath (cs : List Bytes) (c : Bytes) (hcs : ∀ x ∈ cs, CleanName x) (hc : CleanName c) :
    pathJoin2 (absPath cs) c = absPath (cs ++ [c]) := by
  have hall : ∀ x ∈ cs ++ [c], CleanName x := by
    intro x hx
    rcases List.mem_append.mp hx with hx | hx
    · exact hcs x hx
    · simp at hx; rw [hx]; exact hc
  have e : pathJoin2 (absPath cs) c = pathClean (absPath cs ++ SLASH :: c) := by
    simp [pathJoin2, pathJoin, List.dropWhile, joinWith, absPath]
  rw [e]
  have hclean := pathClean_absPath (cs ++ [c]) hall
  by_cases hnil : cs = []
  · subst hnil
    rw [← hclean]
    apply pathClean_congr
    · rfl
    · have h1 : absPath [] ++ SLASH :: c = [SLASH] ++ SLASH :: c := rfl
      have h2 : absPath ([] ++ [c]) = [] ++ SLASH :: c := rfl
      rw [h1, h2, pathComps_append_sep, pathComps_append_sep]
      rfl
  · rw [← hclean]
    congr 1
    rw [absPath_snoc_eq]
    unfold pfx
    rw [if_neg hnil]

theorem joinAll_absPath : ∀ (comps pre : List Bytes), (∀ x ∈ pre, CleanName x) → (∀ x ∈ comps, CleanName x) →
    joinAll (absPath pre) comps = absPath (pre ++ comps) := by
  intro comps
  induction comps with
  | nil => intro pre _ _; simp [joinAll]
  | cons c cs ih =>
    intro pre hp hc
    have h1 := pathJoin2_absPath pre c hp (hc c List.mem_cons_self)
    show joinAll (pathJoin2 (absPath pre) c) cs = _
    rw [h1, ih (pre ++ [c]) ?_ (fun x hx => hc x (List.mem_cons_of_mem _ hx))]
    · simp
    · intro x hx
      rcases List.mem_append.mp hx with hx | hx
      · exact hp x hx
      · simp at hx; rw [hx]; exact hc c List.mem_cons_self

/-- the `nogoPaths` as component lists -/
def nogoPathComps : List (List Bytes) :=
  [[b!"boot"], [b!"dev"], [b!"home"], [b!"media"], [b!"mnt"], [b!"proc"], [b!"run"],
   [b!"usr", b!"portage"], [b!"sys"], [b!"var", b!"db"]]

theorem nogoPaths_eq : nogoPaths = nogoPathComps.map absPath := by decide

instance (c : Bytes) : Decidable (CleanName c) := by unfold CleanName Good; infer_instance

theorem nogoPathComps_clean : ∀ pc ∈ nogoPathComps, pc ≠ [] ∧ ∀ x ∈ pc, CleanName x := by decide

/-- a name with clean elements that the walk forms from the root, below (in the sense of
    the byte string) a `DoNotTraverse` path: then that path is the name of one of the
    directories on the way -/
theorem below_nogo_prefix (comps : List Bytes) (hc : ∀ x ∈ comps, CleanName x) (p : Bytes)
    (hp : p ∈ nogoPaths) (hpre : hasPrefix (absPath comps) (p ++ [SLASH]) = true) :
    ∃ pre, pre <+: comps ∧ pre ≠ [] ∧ pre ≠ comps ∧ joinAll [SLASH] pre = p := by
  rw [nogoPaths_eq] at hp
  obtain ⟨pc, hpc, rfl⟩ := List.mem_map.mp hp
  obtain ⟨hne, hcl⟩ := nogoPathComps_clean pc hpc
  have hpx : pc <+: comps :=
    (atOrBelow_iff pc comps hcl hc hne).mp (by rw [hpre]; simp)
  refine ⟨pc, hpx, hne, ?_, ?_⟩
  · intro e
    rw [e] at hpre
    obtain ⟨t, ht⟩ := (hasPrefix_iff _ _).mp hpre
    have := congrArg List.length ht
    simp at this
  · have := joinAll_absPath pc [] (by simp) hcl
    rw [List.nil_append] at this
    exact this

end Lc.Stage
