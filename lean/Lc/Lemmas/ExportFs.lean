/-
  Pure lemmas about the file-system model `Lc.Fs` used by the export-link theorems
  (Props/C16): `Fs.get` after `Fs.set` / `removeAll` / `mkdirAll` / `symlink` / `rename`,
  and the two frame relations `Added` (only new directories / new links appear) and
  `RemovedOnly` (only entries at/under symlinked roots disappear).
-/
import Lc.Model.Fs

namespace Lc.ExportFs
open Lc Lc.Fs

/-! ### Fs.get -/

theorem get_nil (p : Bytes) : Fs.get [] p = none := rfl

theorem get_cons (x : Bytes × Node) (xs : Tree) (p : Bytes) :
    Fs.get (x :: xs) p = if x.1 = p then some x.2 else Fs.get xs p := by
  unfold Fs.get
  by_cases h : x.1 = p
  · simp [h]
  · simp [h]

theorem get_eq_none_iff (fs : Tree) (p : Bytes) : Fs.get fs p = none ↔ ∀ e ∈ fs, e.1 ≠ p := by
  induction fs with
  | nil => simp [get_nil]
  | cons x xs ih =>
    rw [get_cons]
    by_cases h : x.1 = p
    · simp [h]
    · simp [h, ih]

theorem get_append (a b : Tree) (p : Bytes) :
    Fs.get (a ++ b) p = match Fs.get a p with
      | some n => some n
      | none => Fs.get b p := by
  induction a with
  | nil => simp [get_nil]
  | cons x xs ih =>
    rw [List.cons_append, get_cons, get_cons]
    by_cases h : x.1 = p
    · simp [h]
    · simp [h, ih]

theorem get_map_replace (fs : Tree) (q : Bytes) (n : Node) (p : Bytes) :
    Fs.get (fs.map (fun e => if e.1 == q then (q, n) else e)) p =
      if p = q then (if fs.any (·.1 == q) then some n else none) else Fs.get fs p := by
  induction fs with
  | nil => simp [get_nil]
  | cons x xs ih =>
    rw [List.map_cons, get_cons, get_cons, ih]
    by_cases hx : x.1 = q
    · by_cases hp : p = q
      · simp [hx, hp]
      · have : ¬ q = p := fun e => hp e.symm
        simp [hx, hp, this]
    · by_cases hp : p = q
      · subst hp
        have hx' : (x.1 == p) = false := by simpa using hx
        simp only [List.any_cons, hx', Bool.false_or]
        simp [hx]
      · simp [hx, hp]

theorem any_key_false (fs : Tree) (q : Bytes) (h : fs.any (·.1 == q) = false) : Fs.get fs q = none := by
  rw [get_eq_none_iff]
  intro e he heq
  have := List.any_eq_false.mp h e he
  simp [heq] at this

theorem get_set (fs : Tree) (q : Bytes) (n : Node) (p : Bytes) :
    Fs.get (Fs.set fs q n) p = if p = q then some n else Fs.get fs p := by
  unfold Fs.set
  by_cases ha : fs.any (·.1 == q) = true
  · rw [if_pos ha, get_map_replace, ha]
    simp
  · have ha' : fs.any (·.1 == q) = false := Bool.eq_false_iff.mpr ha
    rw [if_neg ha, get_append]
    by_cases hp : p = q
    · subst hp
      rw [any_key_false fs p ha']
      simp [get_cons]
    · have : ¬ q = p := fun e => hp e.symm
      cases hg : Fs.get fs p <;> simp [hp, get_cons, get_nil, this]

theorem get_set_eq (fs : Tree) (q : Bytes) (n : Node) : Fs.get (Fs.set fs q n) q = some n := by
  simp [get_set]

theorem get_set_ne (fs : Tree) (q : Bytes) (n : Node) (p : Bytes) (h : p ≠ q) :
    Fs.get (Fs.set fs q n) p = Fs.get fs p := by
  simp [get_set, h]

theorem get_removeAll (fs : Tree) (m p : Bytes) :
    Fs.get (removeAll fs m) p = if under m p then none else Fs.get fs p := by
  unfold removeAll
  induction fs with
  | nil => simp [get_nil]
  | cons x xs ih =>
    rw [List.filter_cons]
    by_cases hx : under m x.1 = true
    · simp only [hx, Bool.not_true, Bool.false_eq_true, if_false, ih, get_cons]
      by_cases hp : x.1 = p
      · subst hp; simp [hx]
      · simp [hp]
    · have hx' : under m x.1 = false := by simpa using hx
      simp only [hx', Bool.not_false, if_true, get_cons, ih]
      by_cases hp : x.1 = p
      · subst hp; simp [hx']
      · simp [hp]

theorem under_self (m : Bytes) : under m m = true := by simp [under]

theorem get_removeAll_self (fs : Tree) (m : Bytes) : Fs.get (removeAll fs m) m = none := by
  simp [get_removeAll, under_self]

theorem get_removeAll_not_under (fs : Tree) (m p : Bytes) (h : under m p = false) :
    Fs.get (removeAll fs m) p = Fs.get fs p := by
  simp [get_removeAll, h]

theorem get_removeAll_none (fs : Tree) (m p : Bytes) (h : Fs.get fs p = none) :
    Fs.get (removeAll fs m) p = none := by
  rw [get_removeAll]; split <;> simp [h]

theorem lexists_eq (fs : Tree) (p : Bytes) : lexists fs p = (Fs.get fs p).isSome := rfl

theorem lexists_false_iff (fs : Tree) (p : Bytes) : lexists fs p = false ↔ Fs.get fs p = none := by
  simp [lexists]

theorem isSymlink_iff (fs : Tree) (p : Bytes) : isSymlink fs p = true ↔ ∃ t, Fs.get fs p = some (.symlink t) := by
  unfold isSymlink
  split <;> simp_all

theorem isSymlink_lexists (fs : Tree) (p : Bytes) (h : isSymlink fs p = true) : lexists fs p = true := by
  obtain ⟨t, ht⟩ := (isSymlink_iff fs p).mp h
  simp [lexists, ht]

/-! ### `Added`: the only changes are new directories and new links from the list `L` -/

def Added (L : List (Bytes × Bytes)) (fs0 fs : Tree) : Prop :=
  ∀ q, Fs.get fs q = Fs.get fs0 q ∨
    (Fs.get fs0 q = none ∧ (Fs.get fs q = some .dir ∨ ∃ e ∈ L, e.1 = q ∧ Fs.get fs q = some (.symlink e.2)))

theorem Added.refl (L : List (Bytes × Bytes)) (fs : Tree) : Added L fs fs := fun _ => Or.inl rfl

theorem Added.trans {L : List (Bytes × Bytes)} {a b c : Tree} (h1 : Added L a b) (h2 : Added L b c) :
    Added L a c := by
  intro q
  rcases h2 q with h | ⟨hn, h⟩
  · rw [h]; exact h1 q
  · rcases h1 q with h' | ⟨hn', h'⟩
    · right; exact ⟨by rw [← h']; exact hn, h⟩
    · rcases h' with h' | ⟨e, _, _, h'⟩ <;> simp [hn] at h'

theorem Added.mono {L L' : List (Bytes × Bytes)} {a b : Tree} (hs : ∀ e ∈ L, e ∈ L') (h : Added L a b) :
    Added L' a b := by
  intro q
  rcases h q with h | ⟨hn, h | ⟨e, he, h⟩⟩
  · exact Or.inl h
  · exact Or.inr ⟨hn, Or.inl h⟩
  · exact Or.inr ⟨hn, Or.inr ⟨e, hs e he, h⟩⟩

/-- existing entries are never changed or removed -/
theorem Added.keeps {L : List (Bytes × Bytes)} {a b : Tree} (h : Added L a b) (q : Bytes) (n : Node)
    (hq : Fs.get a q = some n) : Fs.get b q = some n := by
  rcases h q with h | ⟨hn, _⟩
  · rw [h, hq]
  · simp [hq] at hn

theorem Added.lexists {L : List (Bytes × Bytes)} {a b : Tree} (h : Added L a b) (q : Bytes)
    (hq : lexists a q = true) : lexists b q = true := by
  unfold Fs.lexists at *
  cases hg : Fs.get a q with
  | none => simp [hg] at hq
  | some n => simp [h.keeps q n hg]

theorem Added.isSymlink {L : List (Bytes × Bytes)} {a b : Tree} (h : Added L a b) (q : Bytes)
    (hq : isSymlink a q = true) : isSymlink b q = true := by
  obtain ⟨t, ht⟩ := (isSymlink_iff a q).mp hq
  exact (isSymlink_iff b q).mpr ⟨t, h.keeps q _ ht⟩

theorem added_set_dir (L : List (Bytes × Bytes)) (fs : Tree) (d : Bytes) (h : Fs.get fs d = none) :
    Added L fs (Fs.set fs d .dir) := by
  intro q
  rw [get_set]
  by_cases hq : q = d
  · subst hq; right; exact ⟨h, Or.inl (by simp)⟩
  · left; simp [hq]

theorem added_foldlM_mkdir (L : List (Bytes × Bytes)) (ds : List Bytes) :
    ∀ (fs fs' : Tree),
      ds.foldlM (m := Except String) (fun acc d =>
        match stat acc d with
        | none => if (Fs.get acc d).isSome then .error "ENOENT" else .ok (Fs.set acc d .dir)
        | some .dir => .ok acc
        | some _ => .error "ENOTDIR") fs = .ok fs' → Added L fs fs' := by
  induction ds with
  | nil =>
    intro fs fs' h
    simp only [List.foldlM_nil, pure, Except.pure] at h
    cases h
    exact Added.refl L fs
  | cons d ds ih =>
    intro fs fs' h
    rw [List.foldlM_cons] at h
    cases hs : stat fs d with
    | none =>
      rw [hs] at h
      cases hg : Fs.get fs d with
      | some n =>
        simp [hg, bind, Except.bind] at h
      | none =>
        simp only [hg, Option.isSome_none, Bool.false_eq_true, if_false, bind, Except.bind] at h
        exact (added_set_dir L fs d hg).trans (ih _ _ h)
    | some n =>
      rw [hs] at h
      cases n with
      | dir => exact ih _ _ h
      | file c => simp [bind, Except.bind] at h
      | symlink t => simp [bind, Except.bind] at h

/-- os.MkdirAll only adds directories -/
theorem added_mkdirAll (L : List (Bytes × Bytes)) (fs fs' : Tree) (p : Bytes)
    (h : mkdirAll fs p = .ok fs') : Added L fs fs' :=
  added_foldlM_mkdir L _ fs fs' h

/-- the lemma asked for: MkdirAll keeps every existing entry as it is -/
theorem mkdirAll_keeps (fs fs' : Tree) (p q : Bytes) (n : Node) (h : mkdirAll fs p = .ok fs')
    (hq : Fs.get fs q = some n) : Fs.get fs' q = some n :=
  (added_mkdirAll [] fs fs' p h).keeps q n hq

theorem symlink_ok (fs fs' : Tree) (t link : Bytes) (h : symlink fs t link = .ok fs') :
    Fs.get fs link = none ∧ fs' = Fs.set fs link (.symlink t) := by
  unfold symlink at h
  split at h
  · cases h
  · split at h
    · cases h
    · rename_i h1 _
      cases h
      exact ⟨by simpa [lexists] using h1, rfl⟩

theorem symlink_exists_err (fs : Tree) (t link : Bytes) (h : lexists fs link = true) :
    symlink fs t link = .error "EEXIST" := by
  simp [symlink, h]

theorem added_symlink (L : List (Bytes × Bytes)) (fs fs' : Tree) (t link : Bytes)
    (hm : (link, t) ∈ L) (h : symlink fs t link = .ok fs') : Added L fs fs' := by
  obtain ⟨hn, rfl⟩ := symlink_ok fs fs' t link h
  intro q
  rw [get_set]
  by_cases hq : q = link
  · subst hq
    right
    exact ⟨hn, Or.inr ⟨(q, t), hm, rfl, by simp⟩⟩
  · left; simp [hq]

theorem symlink_isSymlink (fs fs' : Tree) (t link : Bytes) (h : symlink fs t link = .ok fs') :
    Fs.get fs' link = some (.symlink t) := by
  obtain ⟨_, rfl⟩ := symlink_ok fs fs' t link h
  exact get_set_eq _ _ _

/-! ### `RemovedOnly`: entries only disappear, and only at/under roots from `S` that
    were symbolic links in the reference tree -/

def RemovedOnly (S : List Bytes) (fs0 fs : Tree) : Prop :=
  ∀ p, Fs.get fs p = Fs.get fs0 p ∨
    (Fs.get fs p = none ∧ ∃ m ∈ S, under m p = true ∧ isSymlink fs0 m = true)

theorem RemovedOnly.refl (S : List Bytes) (fs : Tree) : RemovedOnly S fs fs := fun _ => Or.inl rfl

theorem RemovedOnly.isSymlink_ref {S : List Bytes} {fs0 fs : Tree} (h : RemovedOnly S fs0 fs) (m : Bytes)
    (hm : isSymlink fs m = true) : isSymlink fs0 m = true := by
  obtain ⟨t, ht⟩ := (isSymlink_iff fs m).mp hm
  rcases h m with h | ⟨hn, _⟩
  · exact (isSymlink_iff fs0 m).mpr ⟨t, by rw [← h]; exact ht⟩
  · simp [ht] at hn

theorem RemovedOnly.step {S : List Bytes} {fs0 fs : Tree} (h : RemovedOnly S fs0 fs) (m : Bytes)
    (hmS : m ∈ S) (hm : isSymlink fs m = true) : RemovedOnly S fs0 (removeAll fs m) := by
  intro p
  rw [get_removeAll]
  by_cases hu : under m p = true
  · right
    exact ⟨by simp [hu], m, hmS, hu, h.isSymlink_ref m hm⟩
  · simp only [hu, Bool.false_eq_true, if_false]
    exact h p

/-- entries only disappear -/
theorem RemovedOnly.none {S : List Bytes} {fs0 fs : Tree} (h : RemovedOnly S fs0 fs) (p : Bytes)
    (hp : Fs.get fs0 p = none) : Fs.get fs p = none := by
  rcases h p with h | ⟨hn, _⟩
  · rw [h, hp]
  · exact hn

/-! ### rename -/

theorem hasPrefix_iff (q p : Bytes) : hasPrefix q p = true ↔ ∃ t, q = p ++ t := by
  induction p generalizing q with
  | nil => simp [hasPrefix]
  | cons x xs ih =>
    cases q with
    | nil => simp [hasPrefix]
    | cons y ys =>
      simp only [hasPrefix, Bool.and_eq_true, beq_iff_eq, ih, List.cons_append, List.cons.injEq]
      constructor
      · rintro ⟨rfl, t, rfl⟩; exact ⟨t, rfl, rfl⟩
      · rintro ⟨t, rfl, rfl⟩; exact ⟨rfl, t, rfl⟩

/-- the image of an entry strictly below `old` lies below `new` -/
theorem under_moved (old new e : Bytes) (ho : old ≠ [47]) (hu : under old e = true) (hne : e ≠ old) :
    under new (new ++ e.drop old.length) = true := by
  unfold under at hu
  simp only [ho, beq_iff_eq, Bool.or_eq_true, hne, false_or] at hu
  have hu' : hasPrefix e (old ++ [47]) = true := by simpa [ho] using hu
  obtain ⟨t, rfl⟩ := (hasPrefix_iff _ _).mp hu'
  have hd : (old ++ [47] ++ t).drop old.length = 47 :: t := by
    rw [List.append_assoc, List.drop_left]; rfl
  rw [hd]
  unfold under
  by_cases hn : new = [47]
  · subst hn
    simp [hasPrefix]
  · have : hasPrefix (new ++ 47 :: t) (new ++ [47]) = true :=
      (hasPrefix_iff _ _).mpr ⟨t, by simp⟩
    simp [hn, this]

theorem rename_map_none (fs fs1 : Tree) (old new p : Bytes) (hsub : ∀ e ∈ fs1, e ∈ fs)
    (ho : old ≠ [47]) (hu : under new p = false) (hp : Fs.get fs p = none) :
    Fs.get (fs1.map fun e =>
      if e.1 == old then (new, e.2)
      else if under old e.1 then (new ++ e.1.drop old.length, e.2) else e) p = none := by
  have hpn : p ≠ new := by
    intro e; subst e; simp [under_self] at hu
  rw [get_eq_none_iff] at hp ⊢
  intro e' he'
  obtain ⟨e, he, rfl⟩ := List.mem_map.mp he'
  have hefs : e ∈ fs := hsub e he
  by_cases h1 : e.1 = old
  · simp only [h1, beq_self_eq_true, if_true]
    exact fun e => hpn e.symm
  · have h1' : (e.1 == old) = false := by simpa using h1
    simp only [h1', Bool.false_eq_true, if_false]
    by_cases h2 : under old e.1 = true
    · simp only [h2, if_true]
      intro heq
      have := under_moved old new e.1 ho h2 h1
      rw [heq] at this
      simp [hu] at this
    · simp only [h2, Bool.false_eq_true, if_false]
      exact hp e hefs

/-- os.Rename creates entries only at/under the new path -/
theorem rename_none (fs fs' : Tree) (old new p : Bytes) (h : rename fs old new = .ok fs')
    (ho : old ≠ [47]) (hu : under new p = false) (hp : Fs.get fs p = none) : Fs.get fs' p = none := by
  have key := fun fs1 hsub => rename_map_none fs fs1 old new p hsub ho hu hp
  have hsub : ∀ e ∈ (if old == new then fs else removeAll fs new), e ∈ fs := by
    intro e he
    split at he
    · exact he
    · exact (List.mem_filter.mp he).1
  unfold rename at h
  split at h
  · cases h
  · split at h
    · cases h
    · split at h
      · cases h
      · dsimp only at h
        split at h
        all_goals (try (split at h))
        all_goals (first | (cases h; done) | (cases h; exact key _ hsub))

/-! ### writes to one file -/

theorem openWrite_none (fs fs' : Tree) (f p : Bytes) (t : Bool) (h : openWrite fs f t = .ok fs')
    (hne : p ≠ f) (hp : Fs.get fs p = none) : Fs.get fs' p = none := by
  unfold openWrite at h
  split at h
  · cases h
  · injection h with h; subst h
    split <;> simp [get_set, hne, hp]
  · cases h
  · split at h
    · cases h
    · split at h
      · cases h
      · injection h with h; subst h
        simp [get_set, hne, hp]

theorem appendFile_none (fs : Tree) (f p chunk : Bytes) (hne : p ≠ f) (hp : Fs.get fs p = none) :
    Fs.get (appendFile fs f chunk) p = none := by
  unfold appendFile
  split
  · simp [get_set, hne, hp]
  · exact hp

end Lc.ExportFs
