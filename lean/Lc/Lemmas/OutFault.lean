/- Helper lemmas for Props/C10Stage. -/
import Lc.Model.OutFault

namespace Lc.OutFaultLemmas
open Lc.OutFault

theorem foldl_add (l : List Nat) (a : Nat) : l.foldl (· + ·) a = a + l.foldl (· + ·) 0 := by
  induction l generalizing a with
  | nil => simp
  | cons x xs ih => simp only [List.foldl_cons]; rw [ih (a + x), ih (0 + x)]; omega

theorem total_cons (c : Nat) (rest : List Nat) : total (c :: rest) = c + total rest := by
  simp only [total, List.foldl_cons]
  rw [foldl_add rest (0 + c)]
  omega


end Lc.OutFaultLemmas
