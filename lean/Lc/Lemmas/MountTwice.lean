/-
  Two consecutive runs of `layercake mount <name>`: the run function taken apart
  (`getLayers`, then `mountCmd` = checks, directory creation, the pass over the chain, export
  links), what the first successful run leaves behind (`mountCmd_first`) and why the second
  run issues no mount operation (`mountCmd_second`, `mount_twice`).
  Helper lemmas for Props/C01 (`mount_idempotent`).
-/
import Lc.Lemmas.MountChain
import Lc.Lemmas.StateProbeAll
import Lc.Lemmas.PretendKeeps

namespace Lc.MountTwice
open Std.Do Lc Lc.Layers Lc.Hoare Lc.Mountinfo Lc.Kernel Lc.KernelProbe Lc.Trace Lc.MountTrace
open Lc.FsGrow Lc.MountKernel Lc.MountArgs Lc.LayerCore Lc.MountChain

set_option mvcgen.warning false

/-! ### `getLayers` -/

theorem probeLayer_core {cfg : Config} {inuse : List (Bytes × List User)} {fs : Fs.Tree} {d : Defs}
    {name : Bytes} {l0 l' : Layer} (h : StateProbe.probeLayer cfg inuse fs d name l0 = .ok l') :
    core l' = core l0 := by
  unfold StateProbe.probeLayer at h
  simp only [] at h
  have hc := StateProbe.classifyUsers_sameCore cfg
    { l0 with mounts := getMountAndSubmounts d.mounts (buildPath cfg l0) } (StateProbe.usersOf inuse name)
  generalize classifyUsers cfg { l0 with mounts := getMountAndSubmounts d.mounts (buildPath cfg l0) }
    (StateProbe.usersOf inuse name) = lc at h hc
  have hcc : core lc = core l0 := by
    rw [core_eq_iff]
    exact ⟨hc.1, hc.2.1, hc.2.2.1, hc.2.2.2.2.1⟩
  split at h
  · cases h; exact hcc
  · split at h
    · cases h; exact hcc
    · exact (findLayerstate_core h).trans hcc

theorem probeStep_res {cfg : Config} {inuse : List (Bytes × List User)} {fs : Fs.Tree} {d d' : Defs}
    {name : Bytes} {w w' : World}
    (h : (StateProbe.probeStep cfg inuse fs d name).run.run w = (.ok d', w')) :
    w' = w ∧ d'.mounts = d.mounts ∧ LEq d d' := by
  rw [StateProbe.probeStep_eq] at h
  split at h
  · rw [RunM.run_throw] at h; cases h
  · rename_i l hl
    split at h
    · rw [RunM.run_pure] at h; cases h
      -- (fix e3cb7aa) the record of a layer in the error state gets its mounts and users
      have hc := StateProbe.probeErr_key cfg inuse d name l
      have hcc : core (StateProbe.probeErr cfg inuse d name l) = core l := by
        rw [core_eq_iff]
        exact ⟨hc.1, hc.2.1, hc.2.2.1, hc.2.2.2.2.1⟩
      have hn : (StateProbe.probeErr cfg inuse d name l).name = name := by
        rw [core_eq_iff] at hcc
        rw [hcc.1]; exact StateProbe.findLayer_name d name l hl
      exact ⟨rfl, rfl, LEq.setLayer (l := l) (by rw [hn]; exact hl) hcc⟩
    · obtain ⟨l', w1, h1, h2⟩ := run_bind_ok h
      have hx := liftRes_run_ok h1
      rw [hx.1, RunM.run_pure] at h2
      cases h2
      have hc := probeLayer_core hx.2
      have hn : l'.name = name := by
        rw [core_eq_iff] at hc
        rw [hc.1]; exact StateProbe.findLayer_name d name l hl
      exact ⟨rfl, rfl, LEq.setLayer (l := l) (by rw [hn]; exact hl) hc⟩

theorem probeFold_res {cfg : Config} {inuse : List (Bytes × List User)} {fs : Fs.Tree} :
    ∀ (names : List Bytes) (d d' : Defs) (w w' : World),
    (names.foldlM (StateProbe.probeStep cfg inuse fs) d).run.run w = (.ok d', w') →
    w' = w ∧ d'.mounts = d.mounts ∧ LEq d d' := by
  intro names
  induction names with
  | nil =>
    intro d d' w w' h
    have : (([] : List Bytes).foldlM (StateProbe.probeStep cfg inuse fs) d).run.run w = (.ok d, w) := rfl
    rw [this] at h; cases h
    exact ⟨rfl, rfl, LEq.refl _⟩
  | cons n ns ih =>
    intro d d' w w' h
    rw [List.foldlM_cons] at h
    obtain ⟨d1, w1, h1, h2⟩ := run_bind_ok h
    obtain ⟨rfl, e1, l1⟩ := probeStep_res h1
    obtain ⟨rfl, e2, l2⟩ := ih d1 d' _ _ h2
    exact ⟨rfl, e2.trans e1, l1.trans l2⟩

/-- a successful `getLayers` only read; its cache is the probe of the kernel table; its layer
    records have the cores `FindLayers` read from the tree -/
theorem getLayers_run {cfg : Config} {inuse : List (Bytes × List User)} {w w' : World} {d : Defs}
    (h : (getLayers cfg inuse).run.run w = (.ok d, w')) :
    w' = w ∧ Kernel.probe w.kt = .ok d.mounts ∧
      ∃ d0, (findLayers cfg).run.run w = (.ok d0, w) ∧ LEq d0 d := by
  unfold getLayers at h
  obtain ⟨d0, w1, h1, h2⟩ := run_bind_ok h
  obtain ⟨rfl, _, _⟩ := findLayers_layers h1
  rw [StateProbe.probeAll_eq] at h2
  obtain ⟨d1, w2, h3, h4⟩ := run_bind_ok h2
  obtain ⟨rfl, hprobe, hlay⟩ := refresh_run_ok h3
  obtain ⟨wx, w3, h5, h6⟩ := run_bind_ok h4
  rw [RunM.run_getW] at h5
  cases h5
  obtain ⟨rfl, e, hle⟩ := probeFold_res _ _ _ _ _ h6
  refine ⟨rfl, by rw [e]; exact hprobe, d0, h1, ?_⟩
  have h01 : LEq d0 d1 := by
    intro n
    unfold findLayer
    rw [hlay, List.find?_map]
    have : ((fun x : Layer => x.name == n) ∘ fun (l : Layer) =>
        { l with overlain := (overlayLowerdirs d1.mounts).contains (buildPath cfg l) }) = fun x => x.name == n := by
      funext x; rfl
    rw [this]
    cases d0.layers.find? (fun x => x.name == n) <;> rfl
  exact h01.trans hle

theorem reorder_same (w0 d) : Holds (Same w0) (reorder d) := by
  unfold Holds reorder
  split <;> mvcgen

theorem findLayers_same (w0 cfg) : Holds (Same w0) (findLayers cfg) := by
  have h := reorder_same w0
  unfold Holds at *
  mvcgen [findLayers, getW, fail, h]

theorem probeAll_same (w0 cfg inuse d) : Holds (Same w0) (probeAll cfg inuse d) := by
  have h1 := refreshMountInfo_same w0 cfg
  have h2 := fun {α} (r : Res α) => liftRes_holds (Same w0) r
  unfold Holds at *
  mvcgen [probeAll, h1, getW, h2]
  case inv1 => exact post⟨fun _ w => ⌜Same w0 w⌝, fun _ w => ⌜Same w0 w⌝⟩
  all_goals (try intros) <;> simp_all [Same]

/-- `getLayers` only reads -/
theorem getLayers_same (w0 cfg inuse) : Holds (Same w0) (getLayers cfg inuse) := by
  have h1 := findLayers_same w0 cfg
  have h2 := probeAll_same w0 cfg inuse
  unfold Holds at *
  mvcgen [getLayers, h1, h2]

/-! ### `mountCmd` taken apart -/

/-- the checks of `mountCmd` and the computation of the chain -/
def mountPre (d : Defs) (name : Bytes) : M (List Layer) := do
  testName d [(name, NAME_NEED)]
  let l ← getL d name
  errorIfError l
  ancestorsAndSelf d (d.layers.length + 1) name []

theorem mountCmd_eq' (cfg : Config) (d : Defs) (name : Bytes) :
    mountCmd cfg d name = (mountPre d name >>= fun chain => mkChainDirs cfg chain d >>= fun dA =>
      mountChain cfg chain dA >>= fun dB => linkChain cfg dB chain >>= fun _ => pure dB) := by
  rw [mountCmd_eq]
  unfold mountPre
  simp only [bind_assoc]

theorem mountPre_same (w0 : World) (d : Defs) (name : Bytes) : Holds (Same w0) (mountPre d name) := by
  unfold mountPre
  apply bind_holds _ _ _ (testName_inv _ _ _)
  intro _
  apply bind_holds _ _ _ (getL_inv _ _ _)
  intro l
  apply bind_holds _ _ _ (errorIfError_inv _ _)
  intro _
  exact ancestorsAndSelf_inv _ _ _ _ _

/-- the chain `mountCmd` works on is the base chain of the named layer -/
theorem mountPre_chain {d : Defs} {name : Bytes} {w w' : World} {chain : List Layer}
    (h : (mountPre d name).run.run w = (.ok chain, w')) : w' = w ∧ BaseChain d chain name := by
  have hs := extract (Same w) _ (mountPre_same w d name) w rfl
  rw [h] at hs
  refine ⟨hs, ?_⟩
  unfold mountPre at h
  obtain ⟨_, w1, _, h2⟩ := run_bind_ok h
  obtain ⟨l, w2, _, h3⟩ := run_bind_ok h2
  obtain ⟨_, w3, _, h4⟩ := run_bind_ok h3
  have := run_of_triple _ _ _ _ (ancestorsAndSelf_spec d (d.layers.length + 1) name [] w3.trace) w3 rfl
  rw [h4] at this
  obtain ⟨_, c, hc, hb⟩ := this
  rw [List.append_nil] at hc
  rw [hc]; exact hb

/-! ### invariants of the file-system blocks, instantiated -/

theorem fsMkdir_ktsame (w0 p) : Holds (KtSame w0) (fsMkdir p) := fsStep_ktsame w0 _ _
theorem fsSymlink_ktsame (w0 a b) : Holds (KtSame w0) (fsSymlink a b) := fsStep_ktsame w0 _ _

/-- a block that keeps `KGrow` and `KtSame`: from the run function -/
theorem fsblock_run {α} {m : M α} (hk : ∀ w0, Holds (KGrow w0) m) (hs : ∀ w0, Holds (KtSame w0) m)
    (w : World) : KGrow w (m.run.run w).2 ∧ (m.run.run w).2.kt = w.kt :=
  ⟨extract (KGrow w) m (hk w) w (KGrow.refl w), extract (KtSame w) m (hs w) w rfl⟩

theorem mkChainDirs_run (cfg : Config) (chain : List Layer) (d : Defs) (w : World) :
    KGrow w ((mkChainDirs cfg chain d).run.run w).2 ∧ ((mkChainDirs cfg chain d).run.run w).2.kt = w.kt :=
  fsblock_run (fun w0 => mkChainDirs_inv _ (fsMkdir_kgrow w0) cfg chain d)
    (fun w0 => mkChainDirs_inv _ (fsMkdir_ktsame w0) cfg chain d) w

theorem linkChain_run (cfg : Config) (d : Defs) (chain : List Layer) (w : World) :
    KGrow w ((linkChain cfg d chain).run.run w).2 ∧ ((linkChain cfg d chain).run.run w).2.kt = w.kt :=
  fsblock_run (fun w0 => linkChain_inv _ (fsMkdir_kgrow w0) (fsSymlink_kgrow w0) cfg d chain)
    (fun w0 => linkChain_inv _ (fsMkdir_ktsame w0) (fsSymlink_ktsame w0) cfg d chain) w

theorem np_of_kgrow {w w' : World} (h : KGrow w w') (hp : NP w) : NP w' := by
  unfold NP at *; rw [h.1]; exact hp

/-! ### the first run -/

/-- **first run of `mountCmd`**: not pretending, on a well-formed kernel table, with
    well-formed layer records and a sound cache, a successful `mountCmd` leaves a well-formed
    table that only grew, a tree that only grew, and a mount on every mountpoint of every layer
    of the base chain -/
theorem mountCmd_first {cfg : Config} {d d' : Defs} {name : Bytes} {w w' : World}
    (hp : NP w) (hwf : KWF w.kt) (hd : DefsOK cfg d) (hcs : CacheSound d w)
    (h : (mountCmd cfg d name).run.run w = (.ok d', w')) :
    NP w' ∧ KWF w'.kt ∧ KGrow w w' ∧ ∃ chain, BaseChain d chain name ∧
      ∀ a ∈ chain, ∀ l, findLayer d a.name = some l → PointsMounted cfg l w'.kt := by
  rw [mountCmd_eq'] at h
  obtain ⟨chain, w0, h0, h1⟩ := run_bind_ok h
  obtain ⟨rfl, hchain⟩ := mountPre_chain h0
  obtain ⟨dA, wA, hA, h2⟩ := run_bind_ok h1
  obtain ⟨dB, wB, hB, h3⟩ := run_bind_ok h2
  obtain ⟨_, wC, hC, h4⟩ := run_bind_ok h3
  rw [RunM.run_pure] at h4
  cases h4
  -- directory creation
  have hkA := mkChainDirs_run cfg chain d w0
  rw [hA] at hkA
  obtain ⟨hmA, hleA⟩ := mkChainDirs_res cfg chain d w0 wA dA hA
  have hpA := np_of_kgrow hkA.1 hp
  have hwfA : KWF wA.kt := by rw [hkA.2]; exact hwf
  have hdA : DefsOK cfg dA := LayerCore.DefsOK.of_sub hd hleA.symm.sub
  have hcsA : CacheSound dA wA := by
    intro p hpne
    rw [hkA.2]
    rw [hmA] at hpne
    exact hcs p hpne
  -- the chain
  obtain ⟨hpB, hwfB, hkB, _, hpts⟩ := mountChain_mounts cfg chain dA d' wA wB hpA hwfA hdA hcsA hB
  -- export links
  have hkC := linkChain_run cfg d' chain wB
  rw [hC] at hkC
  refine ⟨np_of_kgrow hkC.1 hpB, by rw [hkC.2]; exact hwfB, (hkA.1.trans hkB).trans hkC.1, chain, hchain, ?_⟩
  intro a ha l hl
  obtain ⟨lA, hlA, hc⟩ := hleA.sub _ l hl
  rw [hkC.2]
  exact (hpts a ha lA hlA).core hc.symm

/-! ### the second run -/

/-- **second run of `mountCmd`**: not pretending, on a well-formed kernel table in which every
    mountpoint of every layer of the base chain carries a mount, with a complete cache, any run
    of `mountCmd` — whatever its result — appends only file-system operations to the trace -/
theorem mountCmd_second {cfg : Config} {d : Defs} {name : Bytes} {w : World}
    (hp : NP w) (hwf : KWF w.kt) (hcc : CacheComplete d w)
    (hpts : ∀ chain, BaseChain d chain name → ∀ a ∈ chain, ∀ l, findLayer d a.name = some l →
      PointsMounted cfg l w.kt) :
    ((mountCmd cfg d name).run.run w).2.kt = w.kt ∧
    ∃ s, ((mountCmd cfg d name).run.run w).2.trace = w.trace ++ s ∧ NoSys s := by
  rw [mountCmd_eq', RunM.run_bind]
  have hsame := extract (Same w) _ (mountPre_same w d name) w rfl
  generalize h0 : (mountPre d name).run.run w = r0 at hsame
  obtain ⟨res0, w0⟩ := r0
  have e0 : w0 = w := hsame
  subst e0
  cases res0 with
  | error e => exact ⟨rfl, [], by simp, NoSys.nil⟩
  | ok chain =>
    simp only []
    obtain ⟨_, hchain⟩ := mountPre_chain h0
    rw [RunM.run_bind]
    have hkA := mkChainDirs_run cfg chain d w0
    have htA := run_of_triple _ _ _ _ (mkChainDirs_fs cfg chain d w0.trace) w0 rfl
    generalize hA : (mkChainDirs cfg chain d).run.run w0 = rA at hkA htA
    obtain ⟨resA, wA⟩ := rA
    cases resA with
    | error e =>
      obtain ⟨s, hs, hn⟩ := htA
      exact ⟨hkA.2, s, hs, hn⟩
    | ok dA =>
      simp only [] at htA ⊢
      obtain ⟨⟨sA, hsA, hnA⟩, _⟩ := htA
      obtain ⟨hmA, hleA⟩ := mkChainDirs_res cfg chain d w0 wA dA hA
      have hpA := np_of_kgrow hkA.1 hp
      have hwfA : KWF wA.kt := by rw [hkA.2]; exact hwf
      have hccA : CacheComplete dA wA := by
        intro p hm
        rw [hmA]
        rw [hkA.2] at hm
        exact hcc p hm
      have hptsA : ∀ a ∈ chain, ∀ l, findLayer dA a.name = some l → PointsMounted cfg l wA.kt := by
        intro a ha lA hlA
        obtain ⟨l, hl, hc⟩ := hleA.symm.sub _ lA hlA
        rw [hkA.2]
        exact (hpts chain hchain a ha l hl).core hc.symm
      rw [RunM.run_bind]
      have hnoop := mountChain_noop cfg chain dA wA hpA hwfA hccA hptsA
      generalize hB : (mountChain cfg chain dA).run.run wA = rB at hnoop
      obtain ⟨resB, wB⟩ := rB
      have eB : wB = wA := hnoop
      subst eB
      cases resB with
      | error e => exact ⟨hkA.2, sA, hsA, hnA⟩
      | ok dB =>
        simp only []
        rw [RunM.run_bind]
        have htC := run_of_triple _ _ _ _ (linkChain_fs cfg dB chain wB.trace) wB rfl
        have hkC := linkChain_run cfg dB chain wB
        generalize hC : (linkChain cfg dB chain).run.run wB = rC at htC hkC
        obtain ⟨resC, wC⟩ := rC
        cases resC with
        | error e =>
          obtain ⟨sC, hsC, hnC⟩ := htC
          exact ⟨hkC.2.trans hkA.2, sA ++ sC, by simp only []; rw [hsC, hsA, List.append_assoc], hnA.append hnC⟩
        | ok u =>
          obtain ⟨sC, hsC, hnC⟩ := htC
          exact ⟨hkC.2.trans hkA.2, sA ++ sC, by simp only [RunM.run_pure]; rw [hsC, hsA, List.append_assoc],
            hnA.append hnC⟩

/-! ### two runs -/

theorem baseChain_cons_inv {d : Defs} {c : List Layer} {n : Bytes} (h : BaseChain d c n) (hn : n.length ≠ 0) :
    ∃ c' l, c = c' ++ [l] ∧ findLayer d n = some l ∧ BaseChain d c' l.base := by
  cases h with
  | nil h0 => exact absurd h0 hn
  | snoc hl _ hc => exact ⟨_, _, rfl, hl, hc⟩

/-- a property of the chain layers that only depends on cores carries over from the base chain
    in `d0` to the base chain of the same name in a `d2` that finds every `d0` layer again -/
theorem chain_transfer {d0 d2 : Defs} (hsub : Sub d0 d2) (P : Layer → Prop)
    (hP : ∀ l l', core l' = core l → P l → P l') :
    ∀ (c2 : List Layer) (n : Bytes), BaseChain d2 c2 n → ∀ c1, BaseChain d0 c1 n →
      (∀ a ∈ c1, ∀ l, findLayer d0 a.name = some l → P l) →
      ∀ a ∈ c2, ∀ l, findLayer d2 a.name = some l → P l := by
  intro c2 n h2
  induction h2 with
  | nil _ => intro c1 _ _ a ha; cases ha
  | snoc hl2 hn2 hc2 ih =>
    rename_i c l2 n'
    intro c1 h1 hpts a ha l hl
    obtain ⟨c', l1, rfl, hl1, hc1⟩ := baseChain_cons_inv h1 hn2
    obtain ⟨l', hl', hcore⟩ := hsub _ l1 hl1
    rw [hl2] at hl'
    cases hl'
    have hbase : l2.base = l1.base := by
      rw [core_eq_iff] at hcore; exact hcore.2.1
    rcases List.mem_append.mp ha with ha | ha
    · apply ih c' (by rw [hbase]; exact hc1) (fun x hx => hpts x (by simp [hx])) a ha l hl
    · simp only [List.mem_singleton] at ha
      subst ha
      have hn2' : a.name = n' := StateProbe.findLayer_name d2 n' a hl2
      rw [hn2', hl2] at hl
      cases hl
      have hn1 : l1.name = n' := StateProbe.findLayer_name d0 n' l1 hl1
      exact hP l1 _ hcore (hpts l1 (by simp) l1 (by rw [hn1]; exact hl1))

theorem runCmd_mount (cfg : Config) (inuse : List (Bytes × List User)) (name : Bytes) :
    runCmd cfg inuse (.mount name) = (getLayers cfg inuse >>= fun d => mountCmd cfg d name) := rfl

theorem nosys_no_mount {s : List Op} (h : NoSys s) : ∀ op ∈ s, isMountOp op = false := by
  intro op hop
  have := h op hop
  unfold isSys at this
  cases hm : isMountOp op with
  | false => rfl
  | true => rw [hm] at this; simp at this

/-- **`mount` twice.**  If `layercake mount name` succeeds from world `w` — whose kernel table
    is well-formed and whose layer records are byte strings — then running the same command
    again from the resulting world appends no mount operation to the trace, whatever the
    second run returns. -/
theorem mount_twice {cfg : Config} {inuse : List (Bytes × List User)} {name : Bytes} {w w1 : World}
    {d1 : Defs} (hrun : run cfg inuse (.mount name) w = (.ok d1, w1)) (hwf : KWF w.kt)
    (hd : ∀ d0, (getLayers cfg inuse).run.run w = (.ok d0, w) → DefsOK cfg d0) :
    (run cfg inuse (.mount name) w1).2.kt = w1.kt ∧
    ∃ s, (run cfg inuse (.mount name) w1).2.trace = w1.trace ++ s ∧ ∀ op ∈ s, isMountOp op = false := by
  cases hpre : w.pretend with
  | true =>
    -- pretending: neither run attempts anything
    have h1 := extract (Pretend.PInv w) _ (Pretend.runCmd_keeps w cfg inuse (.mount name)) w
      (by simp [Pretend.PInv, hpre])
    have hrun' : (runCmd cfg inuse (.mount name)).run.run w = (.ok d1, w1) := hrun
    rw [hrun'] at h1
    have hp1 : w1.pretend = true := h1.2.2.2.2
    have h2 := extract (Pretend.PInv w1) _ (Pretend.runCmd_keeps w1 cfg inuse (.mount name)) w1
      ⟨rfl, rfl, rfl, rfl, hp1⟩
    exact ⟨h2.2.1, [], by rw [List.append_nil]; exact h2.2.2.1, fun op hop => by cases hop⟩
  | false =>
    have hp : NP w := hpre
    unfold run at hrun ⊢
    rw [runCmd_mount] at hrun ⊢
    -- first run
    obtain ⟨d0, wa, hg, hm⟩ := run_bind_ok hrun
    obtain ⟨rfl, hprobe, d00, hfind, hle0⟩ := getLayers_run hg
    have hcs : CacheSound d0 wa := fun p hpne => (probe_getMount_iff hwf hprobe p).mp hpne
    obtain ⟨hp1, hwf1, hk1, chain1, hchain1, hpts1⟩ := mountCmd_first hp hwf (hd d0 hg) hcs hm
    -- second run
    rw [RunM.run_bind]
    have hsame := extract (Same w1) _ (getLayers_same w1 cfg inuse) w1 rfl
    generalize hg2 : (getLayers cfg inuse).run.run w1 = r2 at hsame
    obtain ⟨res2, w2⟩ := r2
    have e2 : w2 = w1 := hsame
    subst e2
    cases res2 with
    | error e => exact ⟨rfl, [], by simp, fun op hop => by cases hop⟩
    | ok d2 =>
      simp only []
      obtain ⟨_, hprobe2, d20, hfind2, hle2⟩ := getLayers_run hg2
      have hcc : CacheComplete d2 w2 := fun p hm => (probe_getMount_iff hwf1 hprobe2 p).mpr hm
      have hsub : Sub d0 d2 := by
        refine (hle0.symm.sub).trans (Sub.trans ?_ hle2.sub)
        intro n l hl
        exact ⟨l, findLayers_found_ext hk1.2.2 hfind hfind2 n l hl, rfl⟩
      have hpts2 : ∀ chain, BaseChain d2 chain name → ∀ a ∈ chain, ∀ l, findLayer d2 a.name = some l →
          PointsMounted cfg l w2.kt := by
        intro chain2 hchain2
        exact chain_transfer hsub (fun l => PointsMounted cfg l w2.kt)
          (fun l l' hc h => h.core hc) chain2 name hchain2 chain1 hchain1 hpts1
      obtain ⟨hkt, s, hs, hn⟩ := mountCmd_second hp1 hwf1 hcc hpts2
      exact ⟨hkt, s, hs, nosys_no_mount hn⟩

end Lc.MountTwice
