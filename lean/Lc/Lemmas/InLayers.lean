/-
  "Inside the layers directory": the code walks up with `path.Dir` while the path is at
  least as long as `Layerdirs` (manage/probe.go inAnyLayerDirectory); the manual says "the
  layers directory or below it" (`Spec.World.underLayers`, a prefix test).  For clean
  absolute paths the two agree (`inLayers_agree`).  Helper lemmas for Props/C08 section 8.
-/
import Lc.Lemmas.ExportPath
import Lc.Lemmas.ProbeRound

namespace Lc.InLayers
open Lc Lc.Lemmas.Path Lc.ExportPath Lc.Layers

/-- the clean absolute path with components `cs` -/
def absPath (cs : List Bytes) : Bytes := SLASH :: joinWith SLASH cs

/-! ### shape of clean absolute paths -/

theorem cleanAbs_shape (p : Bytes) (hc : pathClean p = p) (ha : isAbs p = true) :
    ∃ cs, (∀ c ∈ cs, CleanName c) ∧ p = absPath cs := by
  have hinv := foldl_inv (isAbs p) (pathComps p) [] (inv_nil _)
  have hg := foldl_good (isAbs p) (pathComps p) [] (by simp) (pathComps_good p)
  rw [pathClean_eq_assemble, ha] at hc
  rw [ha] at hinv hg
  generalize List.foldl (cleanStep true) [] (pathComps p) = stack at hc hinv hg
  simp only [Lc.Lemmas.Path.Inv, if_true] at hinv
  refine ⟨stack.reverse, ?_, ?_⟩
  · intro c hc'
    have hm : c ∈ stack := by simpa using hc'
    exact ⟨hg c hm, fun e => hinv (e ▸ hm)⟩
  · rw [← hc]
    unfold assemble absPath
    simp

theorem pathComps_absPath (cs : List Bytes) (h : ∀ c ∈ cs, CleanName c) : pathComps (absPath cs) = cs := by
  cases cs with
  | nil => decide
  | cons c rest => exact pathComps_rooted _ (by simp) (fun x hx => (h x hx).1)

theorem absPath_inj (cs ds : List Bytes) (hc : ∀ c ∈ cs, CleanName c) (hd : ∀ c ∈ ds, CleanName c)
    (h : absPath cs = absPath ds) : cs = ds := by
  rw [← pathComps_absPath cs hc, ← pathComps_absPath ds hd, h]

theorem absPath_append (ds t : List Bytes) (hd : ds ≠ []) (ht : t ≠ []) :
    absPath (ds ++ t) = absPath ds ++ SLASH :: joinWith SLASH t := by
  unfold absPath
  rw [joinWith_append SLASH ds t ht]
  simp [hd]

theorem pathClean_absPath (cs : List Bytes) (h : ∀ c ∈ cs, CleanName c) : pathClean (absPath cs) = absPath cs := by
  cases cs with
  | nil => decide
  | cons c rest =>
    rw [pathClean_eq_assemble]
    have ha : isAbs (absPath (c :: rest)) = true := rfl
    rw [ha, pathComps_absPath _ h, foldl_push true _ (clean_no_dotdot _ h)]
    unfold assemble absPath
    simp

/-! ### `path.Dir` of a clean absolute path -/

theorem takeWhile_stop {α : Type} (p : α → Bool) (a : List α) (x : α) (b : List α)
    (ha : ∀ y ∈ a, p y = true) (hx : p x = false) :
    (a ++ x :: b).takeWhile p = a ∧ (a ++ x :: b).dropWhile p = x :: b := by
  induction a with
  | nil => simp [hx]
  | cons y ys ih =>
    have hy : p y = true := ha y (by simp)
    obtain ⟨h1, h2⟩ := ih (fun z hz => ha z (by simp [hz]))
    simp [hy, h1, h2]

theorem lastSlashSplit_snoc (X c : Bytes) (hc : SLASH ∉ c) :
    lastSlashSplit (X ++ SLASH :: c) = (X ++ [SLASH], c) := by
  unfold lastSlashSplit
  have hr : (X ++ SLASH :: c).reverse = c.reverse ++ SLASH :: X.reverse := by simp
  simp only [hr]
  obtain ⟨h1, h2⟩ := takeWhile_stop (fun y => y != SLASH) c.reverse SLASH X.reverse
    (by
      intro y hy
      have : y ∈ c := by simpa using hy
      simp only [bne_iff_ne, ne_eq]
      intro e; exact hc (e ▸ this))
    (by simp)
  rw [h1, h2]
  simp

theorem pathDir_snoc (cs : List Bytes) (c : Bytes) (h : ∀ x ∈ cs ++ [c], CleanName x) :
    pathDir (absPath (cs ++ [c])) = absPath cs := by
  have hcs : ∀ x ∈ cs, CleanName x := fun x hx => h x (by simp [hx])
  have hc : SLASH ∉ c := (h c (by simp)).1.2.2
  unfold pathDir
  cases hcs' : cs with
  | nil =>
    have : absPath ([] ++ [c]) = [] ++ SLASH :: c := rfl
    rw [this, lastSlashSplit_snoc [] c hc]
    rfl
  | cons d ds =>
    have hne : d :: ds ≠ [] := by simp
    rw [absPath_append (d :: ds) [c] hne (by simp)]
    have hj : joinWith SLASH [c] = c := rfl
    rw [hj, lastSlashSplit_snoc _ c hc]
    simp only []
    rw [pathClean_eq_assemble]
    have ha : isAbs (absPath (d :: ds) ++ [SLASH]) = true := rfl
    have hpc : pathComps (absPath (d :: ds) ++ [SLASH]) = d :: ds := by
      rw [pathComps_append_sep, pathComps_absPath _ (hcs' ▸ hcs)]
      have : pathComps [] = [] := by decide
      rw [this]; simp
    rw [ha, hpc, foldl_push true _ (clean_no_dotdot _ (hcs' ▸ hcs))]
    unfold assemble absPath
    simp

/-! ### the two tests on component lists -/

theorem absPath_length_ge (cs : List Bytes) (h : ∀ c ∈ cs, CleanName c) : cs.length + 1 ≤ (absPath cs).length ∨ cs = [] := by
  induction cs with
  | nil => right; rfl
  | cons c rest ih =>
    left
    have hc : c ≠ [] := (h c (by simp)).1.1
    have hcl : 1 ≤ c.length := by
      cases c with
      | nil => exact absurd rfl hc
      | cons x xs => simp
    cases rest with
    | nil =>
      unfold absPath
      simp only [joinWith, List.length_cons, List.length_nil]
      omega
    | cons d ds =>
      rcases ih (fun x hx => h x (by simp [hx])) with ih | ih
      · unfold absPath at ih ⊢
        rw [joinWith_cons_cons]
        simp only [List.length_cons, List.length_append] at ih ⊢
        omega
      · cases ih

/-- the manual's prefix test, on components: `ds` is a prefix of `cs` -/
theorem atOrBelow_iff (ds cs : List Bytes) (hd : ∀ c ∈ ds, CleanName c) (hc : ∀ c ∈ cs, CleanName c)
    (hne : ds ≠ []) :
    (absPath cs == absPath ds || hasPrefix (absPath cs) (absPath ds ++ [SLASH])) = true ↔ ds <+: cs := by
  constructor
  · intro h
    simp only [Bool.or_eq_true, beq_iff_eq] at h
    rcases h with h | h
    · rw [absPath_inj cs ds hc hd h]
      exact List.prefix_refl _
    · obtain ⟨t, ht⟩ := (Lc.ExportPath.hasPrefix_iff _ _).mp h
      have hpc := congrArg pathComps ht
      rw [pathComps_absPath cs hc, List.append_assoc] at hpc
      have : absPath ds ++ ([SLASH] ++ t) = absPath ds ++ SLASH :: t := rfl
      rw [this, pathComps_append_sep, pathComps_absPath ds hd] at hpc
      exact ⟨pathComps t, hpc.symm⟩
  · rintro ⟨t, rfl⟩
    simp only [Bool.or_eq_true, beq_iff_eq]
    cases t with
    | nil => left; simp
    | cons e es =>
      right
      rw [absPath_append ds (e :: es) hne (by simp)]
      apply (Lc.ExportPath.hasPrefix_iff _ _).mpr
      exact ⟨joinWith SLASH (e :: es), by simp⟩

theorem absPath_prefix_length (ds cs : List Bytes) (hne : ds ≠ []) (h : ds <+: cs) :
    (absPath ds).length ≤ (absPath cs).length := by
  obtain ⟨t, rfl⟩ := h
  cases t with
  | nil => simp
  | cons e es =>
    rw [absPath_append ds (e :: es) hne (by simp)]
    simp

/-- the code's walk, on components -/
theorem inAny_iff (cfg : Config) (ds : List Bytes) (hd : ∀ c ∈ ds, CleanName c) (hne : ds ≠ [])
    (hld : cfg.layerdirs = absPath ds) :
    ∀ (n : Nat) (cs : List Bytes), cs.length = n → (∀ c ∈ cs, CleanName c) →
      ∀ fuel, cs.length + 1 ≤ fuel →
        (inAnyLayerDirectory cfg fuel (absPath cs) = true ↔ ds <+: cs) := by
  intro n
  induction n with
  | zero =>
    intro cs hlen hc fuel hf
    have : cs = [] := List.length_eq_zero_iff.mp hlen
    subst this
    cases fuel with
    | zero => omega
    | succ f =>
      unfold inAnyLayerDirectory
      rw [hld]
      have hlt : (absPath []).length < (absPath ds).length := by
        rcases absPath_length_ge ds hd with h | h
        · have : 1 ≤ ds.length := by
            cases ds with
            | nil => exact absurd rfl hne
            | cons a as => simp
          show 1 < _
          omega
        · exact absurd h hne
      simp only [hlt, ↓reduceIte, Bool.false_eq_true, false_iff]
      intro hp
      have := List.prefix_nil.mp hp
      exact hne this
  | succ n ih =>
    intro cs hlen hc fuel hf
    rcases List.eq_nil_or_concat cs with rfl | ⟨cs', c, rfl⟩
    · simp at hlen
    rw [List.concat_eq_append] at *
    cases fuel with
    | zero => omega
    | succ f =>
      unfold inAnyLayerDirectory
      rw [hld]
      by_cases hlt : (absPath (cs' ++ [c])).length < (absPath ds).length
      · simp only [hlt, ↓reduceIte, Bool.false_eq_true, false_iff]
        intro hp
        have := absPath_prefix_length ds _ hne hp
        omega
      · simp only [hlt, ↓reduceIte]
        by_cases heq : absPath (cs' ++ [c]) = absPath ds
        · simp only [heq, beq_self_eq_true, ↓reduceIte, true_iff]
          rw [absPath_inj _ _ hc hd heq]
          exact List.prefix_refl _
        · have hne' : (absPath (cs' ++ [c]) == absPath ds) = false := by simpa using heq
          simp only [hne', Bool.false_eq_true, ↓reduceIte]
          rw [pathDir_snoc cs' c hc]
          have hc' : ∀ x ∈ cs', CleanName x := fun x hx => hc x (by simp [hx])
          have hlen' : cs'.length = n := by simpa using hlen
          have hf' : cs'.length + 1 ≤ f := by
            simp only [List.length_append, List.length_cons, List.length_nil] at hf
            omega
          rw [ih cs' hlen' hc' f hf']
          constructor
          · intro h
            exact h.trans (List.prefix_append _ _)
          · intro h
            rcases List.prefix_concat_iff.mp h with h | h
            · exfalso; apply heq; rw [h]
            · exact h

/-- **The two "inside the layers directory" tests agree** on every clean absolute path, when
    `Layerdirs` is a clean absolute path other than "/". -/
theorem inLayers_agree (cfg : Config) (p : Bytes)
    (hlc : pathClean cfg.layerdirs = cfg.layerdirs) (hla : isAbs cfg.layerdirs = true)
    (hlr : cfg.layerdirs ≠ [SLASH])
    (hpc : pathClean p = p) (hpa : isAbs p = true) :
    inAnyLayerDirectory cfg (p.length + 1) p
      = (p == cfg.layerdirs || hasPrefix p (cfg.layerdirs ++ [47])) := by
  obtain ⟨ds, hd, hld⟩ := cleanAbs_shape _ hlc hla
  obtain ⟨cs, hc, hp⟩ := cleanAbs_shape _ hpc hpa
  have hne : ds ≠ [] := by
    intro e
    apply hlr
    rw [hld, e]
    rfl
  have hfuel : cs.length + 1 ≤ p.length + 1 := by
    rcases absPath_length_ge cs hc with h | h
    · rw [hp]; omega
    · rw [h]; simp
  have h1 := inAny_iff cfg ds hd hne hld cs.length cs rfl hc (p.length + 1) hfuel
  have h2 := atOrBelow_iff ds cs hd hc hne
  rw [← hp, ← hld] at h2
  rw [← hp] at h1
  have : (47 : Nat) = SLASH := rfl
  rw [this]
  exact Bool.eq_iff_iff.mpr (h1.trans h2.symm)

/-! ### a clean path below a clean directory is a proper relative path (fix eeedaf2) -/

open Lc.StateProbe in
/-- for clean absolute paths the repaired `IsDescendant`-or-equal test is the manual's "the
    directory or below it": `relProper` (the plain form of `ExportSrcAgree`) always holds -/
theorem relProper_clean (dir p : Bytes) (hdc : pathClean dir = dir) (hda : isAbs dir = true)
    (hdr : dir ≠ [SLASH]) (hpc : pathClean p = p) (hpa : isAbs p = true) : relProper dir p = true := by
  obtain ⟨ds, hd, hdir⟩ := cleanAbs_shape _ hdc hda
  obtain ⟨cs, hc, hp⟩ := cleanAbs_shape _ hpc hpa
  have hne : ds ≠ [] := by
    intro e; apply hdr; rw [hdir, e]; rfl
  unfold relProper
  cases hpre : hasPrefix p (dir ++ [47]) with
  | false => rfl
  | true =>
    simp only [Bool.not_true, Bool.false_or]
    obtain ⟨t, ht⟩ := (Lc.ExportPath.hasPrefix_iff _ _).mp hpre
    have hdrop : p.drop (dir.length + 1) = t := by
      rw [ht]
      have : (dir ++ [47] ++ t) = (dir ++ [47]) ++ t := rfl
      rw [this, List.drop_left' (by simp)]
    rw [hdrop]
    -- components
    have hpc' := congrArg pathComps ht
    rw [hp, pathComps_absPath cs hc, hdir, List.append_assoc] at hpc'
    have hsl : absPath ds ++ ([47] ++ t) = absPath ds ++ SLASH :: t := rfl
    rw [hsl, pathComps_append_sep, pathComps_absPath ds hd] at hpc'
    cases hts : pathComps t with
    | nil =>
      exfalso
      rw [hts, List.append_nil] at hpc'
      have hlen := congrArg List.length ht
      rw [hp, hpc', hdir] at hlen
      simp at hlen
    | cons e es =>
      rw [hts] at hpc'
      have hj : t = joinWith SLASH (e :: es) := by
        have h2 := absPath_append ds (e :: es) hne (by simp)
        rw [← hpc', ← hp, ht, hdir] at h2
        have h3 : absPath ds ++ [47] ++ t = absPath ds ++ (SLASH :: t) := by simp [SLASH]
        rw [h3] at h2
        have := List.append_cancel_left h2
        simpa using this
      have he : CleanName e := hc e (by rw [hpc']; simp)
      obtain ⟨⟨he1, he2, he3⟩, he4⟩ := he
      rw [hj]
      cases es with
      | nil =>
        have : joinWith SLASH [e] = e := rfl
        rw [this]
        have h47 : ¬ hasPrefix e [46, 46, 47] = true := by
          intro h
          obtain ⟨r, hr⟩ := (Lc.ExportPath.hasPrefix_iff _ _).mp h
          apply he3
          rw [hr]; simp [SLASH]
        cases e with
        | nil => exact absurd rfl he1
        | cons x xs =>
          have h1 : (x :: xs != [46]) = true := by simpa [DOT] using he2
          have h2 : (x :: xs != [46, 46]) = true := by simpa [dotdot] using he4
          simp [h1, h2, h47]
      | cons f fs =>
        rw [joinWith_cons_cons]
        have hmem : (47 : Nat) ∈ e ++ SLASH :: joinWith SLASH (f :: fs) := by simp [SLASH]
        have h1 : (e ++ SLASH :: joinWith SLASH (f :: fs) != [46]) = true := by
          simp only [bne_iff_ne, ne_eq]
          intro h; rw [h] at hmem; simp at hmem
        have h2 : (e ++ SLASH :: joinWith SLASH (f :: fs) != [46, 46]) = true := by
          simp only [bne_iff_ne, ne_eq]
          intro h; rw [h] at hmem; simp at hmem
        have h47 : ¬ hasPrefix (e ++ SLASH :: joinWith SLASH (f :: fs)) [46, 46, 47] = true := by
          intro h
          obtain ⟨r, hr⟩ := (Lc.ExportPath.hasPrefix_iff _ _).mp h
          cases e with
          | nil => exact he1 rfl
          | cons a e1 =>
            cases e1 with
            | nil =>
              simp only [List.cons_append, List.nil_append, List.cons.injEq, SLASH] at hr
              omega
            | cons b e2 =>
              cases e2 with
              | nil =>
                simp only [List.cons_append, List.nil_append, List.cons.injEq] at hr
                apply he4
                rw [hr.1, hr.2.1]; rfl
              | cons c e3 =>
                simp only [List.cons_append, List.cons.injEq] at hr
                apply he3
                rw [hr.2.2.1]; simp [SLASH]
        have hlen : 0 < e.length + ((joinWith SLASH (f :: fs)).length + 1) := by omega
        simp [h1, h2, h47, hlen]

theorem pathJoin_head_shape (a : Bytes) (rest : List Bytes) (ha : isAbs a = true) :
    pathClean (pathJoin (a :: rest)) = pathJoin (a :: rest) ∧ isAbs (pathJoin (a :: rest)) = true := by
  unfold pathJoin
  cases a with
  | nil => simp [isAbs] at ha
  | cons x xs =>
    simp only [List.dropWhile_cons, List.isEmpty_cons, Bool.false_eq_true, ↓reduceIte]
    refine ⟨pathClean_idem _, isAbs_pathClean_of_isAbs _ ?_⟩
    cases rest with
    | nil => exact ha
    | cons y ys => exact isAbs_append _ _ ha

open Lc.StateProbe Lc.Spec.World in
/-- **`ExportSrcAgree` needs no hypothesis any more** (fix eeedaf2): with an absolute
    `Layerdirs` and a build directory other than "/", the repaired `IsDescendant`-or-equal
    test and the manual's "the build directory or below it" agree on every export source. -/
theorem exportSrcAgree_clean (i : Inst) (n : Bytes) (e : Layerfile.NeededMount)
    (hla : isAbs i.cfg.layerdirs = true) (hbd : buildDir i n ≠ [47]) : ExportSrcAgree i n e := by
  have hld := pathJoin_head_shape i.cfg.layerdirs [n] hla
  have hbdc := pathJoin_head_shape (layerDir i n) [i.cfg.buildRoot] hld.2
  have hsrc := pathJoin_head_shape (layerDir i n) [i.cfg.buildRoot, e.source] hld.2
  rw [export_src_agree_iff i n e hbd]
  exact relProper_clean _ _ hbdc.1 hbdc.2 hbd hsrc.1 hsrc.2

/-! ### expanded import sources are clean absolute paths -/

open Lc.StateProbe Lc.Layerfile Lc.Spec.World in
theorem adjustPrefixedPath_clean (p np : Bytes) (r : Bytes → Option Bytes)
    (h : adjustPrefixedPath p r = .ok np) (hp : p ≠ []) (hpc : pathClean p = p)
    (hr : ∀ s pre, r s = some pre → pre ≠ []) : pathClean np = np := by
  unfold adjustPrefixedPath at h
  have hlen : ¬ p.length < 1 := by
    cases p with
    | nil => exact absurd rfl hp
    | cons a as => simp
  simp only [hlen, ↓reduceIte, Res.err] at h
  split at h
  · cases h
  · rename_i np' hnp
    have hcl : pathClean np' = np' := by
      split at hnp
      · cases hnp
      · split at hnp
        · split at hnp
          · rename_i pre hpre
            cases hnp
            have hpre' := hr _ _ hpre
            unfold pathJoin
            cases pre with
            | nil => exact absurd rfl hpre'
            | cons a as =>
              simp only [List.dropWhile_cons, List.isEmpty_cons, Bool.false_eq_true, ↓reduceIte]
              exact pathClean_idem _
          · cases hnp
        · split at hnp
          · cases hnp
          · cases hnp; exact hpc
    split at h
    · cases h
    · cases h; exact hcl

open Lc.StateProbe Lc.Layerfile Lc.Spec.World in
/-- every expanded import source is a clean path, when the configured sources are clean and
    not empty (what the layerconfig reader stores) and the layer paths are not empty -/
theorem expanded_source_clean (cfg : Config) (d : Defs) (l : Layer) (imports : List Expanded)
    (hexp : expandConfigMounts cfg d l = .ok imports)
    (hsrc : ∀ m ∈ l.cmounts, m.source ≠ [] ∧ pathClean m.source = m.source)
    (hself : l.layerPath ≠ [])
    (hroot : ∀ p, (findLayerBase d (d.layers.length + 1) l).map (·.layerPath) = some p → p ≠ []) :
    ∀ e ∈ imports, pathClean e.source = e.source := by
  rw [expandConfigMounts_mapM] at hexp
  have hz := mapM_ok_forall2 _ _ _ hexp
  intro e he
  obtain ⟨m, hm, hme⟩ := forall2_mem_right _ _ _ hz e he
  unfold importOf at hme
  split at hme
  · rename_i src hsrc'
    cases hme
    refine adjustPrefixedPath_clean _ _ _ hsrc' (hsrc m hm).1 (hsrc m hm).2 ?_
    intro s pre hs
    unfold modelResolve at hs
    split at hs
    · exact hroot pre hs
    · split at hs
      · cases hs; exact hself
      · cases hs
  · cases hme

/-! ### the layerconfig reader stores clean, non-empty import sources -/

open Lc.Layerfile in
theorem readStep_sources (l : LayerFile) (line : Bytes)
    (h : ∀ m ∈ l.mounts, m.source ≠ [] ∧ pathClean m.source = m.source) :
    ∀ m ∈ (readStep l line).mounts, m.source ≠ [] ∧ pathClean m.source = m.source := by
  unfold readStep
  simp only []
  repeat' split
  all_goals (first | exact h | skip)
  all_goals
    intro m hm
    simp only [List.mem_append, List.mem_cons, List.not_mem_nil, or_false] at hm
    rcases hm with hm | rfl
    · exact h m hm
    · exact ⟨pathClean_ne_nil _, pathClean_idem _⟩

open Lc.Layerfile in
theorem readLayerFile_sources (content : Bytes) :
    ∀ m ∈ (readLayerFile content).mounts, m.source ≠ [] ∧ pathClean m.source = m.source := by
  unfold readLayerFile readLines
  generalize Mountinfo.scanLines content = lines
  have : ∀ (l : LayerFile), (∀ m ∈ l.mounts, m.source ≠ [] ∧ pathClean m.source = m.source) →
      ∀ m ∈ (lines.foldl readStep l).mounts, m.source ≠ [] ∧ pathClean m.source = m.source := by
    induction lines with
    | nil => intro l h; exact h
    | cons x xs ih => intro l h; exact ih _ (readStep_sources l x h)
  exact this {} (by intro m hm; cases hm)

open Lc.Spec.World Lc.Layerfile in
/-- … so every layer the specification reads from the disk has them -/
theorem diskLayers_sources (i : Inst) :
    ∀ dl ∈ diskLayers i, ∀ m ∈ dl.file.mounts, m.source ≠ [] ∧ pathClean m.source = m.source := by
  intro dl hdl
  unfold diskLayers at hdl
  rw [List.mem_filterMap] at hdl
  obtain ⟨n, -, hn⟩ := hdl
  split at hn
  · cases hn
  · split at hn
    · cases hn
      exact readLayerFile_sources _
    · cases hn

end Lc.InLayers
