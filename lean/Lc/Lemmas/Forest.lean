/-
  The base-chain walks of package manage: `chainOk` (checkInheritance) and `sortKey`
  (normalizeOrder) have the same recursion shape, so an accepted hierarchy never exhausts
  the key builder; keys of a child extend the key of its parent by "/" ++ name; a layer
  rebased onto itself or onto a descendant fails checkInheritance.  Helpers for Props/C02.
-/
import Lc.Model.Layers
import Lc.Lemmas.Prefix
import Lc.Lemmas.Sort

namespace Lc.Forest
open Lc Lc.Layers

/-- **fuel**: wherever the cycle check walks to the root, the key builder does too -/
theorem chainOk_sortKey (layers : List Layer) :
    ∀ (fuel : Nat) (visited : List Bytes) (base acc : Bytes),
      chainOk layers fuel visited base = true → (sortKey layers fuel base acc).isSome = true := by
  intro fuel
  induction fuel with
  | zero => intro v b a h; simp [chainOk] at h
  | succ n ih =>
    intro visited base acc h
    unfold chainOk at h
    unfold sortKey
    by_cases hb : base.length == 0
    · have : base.length < 1 := by simpa using hb
      simp [this]
    · have hb' : ¬ base.length < 1 := by
        intro h'; apply hb; simp at h' ⊢; exact h'
      simp only [hb, hb', if_false, Bool.false_eq_true] at h ⊢
      cases hf : layers.find? (·.name == base) with
      | none => simp [hf] at h
      | some l =>
        simp only [hf] at h ⊢
        cases hv : visited.contains l.name with
        | true => rw [hv] at h; simp at h
        | false =>
          rw [hv] at h
          simp only [Bool.false_eq_true, if_false] at h
          exact ih _ _ _ h

/-- the accumulator is only ever prepended to -/
theorem sortKey_acc (layers : List Layer) :
    ∀ (fuel : Nat) (base acc : Bytes),
      sortKey layers fuel base acc = (sortKey layers fuel base []).map (· ++ acc) := by
  intro fuel
  induction fuel with
  | zero => intro b a; simp [sortKey]
  | succ n ih =>
    intro base acc
    unfold sortKey
    by_cases hb : base.length < 1
    · simp [hb]
    · simp only [hb, if_false]
      cases hf : layers.find? (·.name == base) with
      | none => simp
      | some l =>
        simp only
        rw [ih l.base (base ++ 47 :: acc), ih l.base (base ++ [47])]
        cases sortKey layers n l.base [] <;> simp

/-- more fuel does not change a key -/
theorem sortKey_mono (layers : List Layer) :
    ∀ (fuel : Nat) (base acc k : Bytes),
      sortKey layers fuel base acc = some k → sortKey layers (fuel + 1) base acc = some k := by
  intro fuel
  induction fuel with
  | zero => intro b a k h; simp [sortKey] at h
  | succ n ih =>
    intro base acc k h
    unfold sortKey at h ⊢
    by_cases hb : base.length < 1
    · simpa [hb] using h
    · simp only [hb, if_false] at h ⊢
      cases hf : layers.find? (·.name == base) with
      | none => simp [hf] at h
      | some l =>
        simp only [hf] at h ⊢
        exact ih _ _ _ h

/-- the key of a layer `c` whose base is found as `p`: key(p) ++ "/" ++ c.name -/
theorem key_child (layers : List Layer) (fuel : Nat) (c p : Layer) (kc : Bytes)
    (hb : c.base ≠ []) (hp : layers.find? (·.name == c.base) = some p)
    (hc : sortKey layers (fuel + 1) c.base c.name = some kc) :
    ∃ kp, sortKey layers (fuel + 1) p.base p.name = some kp ∧ kc = kp ++ 47 :: c.name := by
  have hpn : p.name = c.base := by
    have := List.find?_some hp
    simpa using this
  unfold sortKey at hc
  have hb' : ¬ c.base.length < 1 := by
    intro h; apply hb; cases hcb : c.base with
    | nil => rfl
    | cons x xs => rw [hcb] at h; simp at h
  simp only [hb', if_false, hp] at hc
  rw [sortKey_acc] at hc
  cases hr : sortKey layers fuel p.base [] with
  | none => rw [hr] at hc; simp at hc
  | some r =>
    rw [hr] at hc
    simp at hc
    refine ⟨r ++ p.name, ?_, ?_⟩
    · rw [sortKey_acc, sortKey_mono layers fuel p.base [] r hr]; rfl
    · rw [← hc, hpn]; simp

/-! ### cycles -/

/-- `k` is a proper descendant of the layer named `n`: following base links from `k` one
    arrives at `n` -/
inductive Desc (layers : List Layer) (n : Bytes) : Bytes → Prop where
  | child (k : Bytes) (lk : Layer) : k ≠ [] → layers.find? (·.name == k) = some lk → lk.base = n → Desc layers n k
  | step (k : Bytes) (lk : Layer) : k ≠ [] → layers.find? (·.name == k) = some lk → Desc layers n lk.base →
      Desc layers n k

theorem find?_setLayer_self (d : Defs) (l l' : Layer) (n : Bytes)
    (hl : findLayer d n = some l) (hn : l'.name = n) :
    (setLayer d l').layers.find? (·.name == n) = some l' := by
  unfold findLayer at hl
  unfold setLayer
  simp only
  generalize d.layers = ls at hl ⊢
  induction ls with
  | nil => simp at hl
  | cons x xs ih =>
    rw [List.find?_cons] at hl
    simp only [List.map_cons, List.find?_cons]
    by_cases hx : (x.name == n) = true
    · have : (x.name == l'.name) = true := by rw [hn]; exact hx
      have h2 : (l'.name == n) = true := by rw [hn]; simp
      simp only [this, if_true, h2]
    · have hx' : ¬ (x.name == l'.name) = true := by rw [hn]; exact hx
      simp only [hx] at hl
      simp only [hx', Bool.false_eq_true, if_false, hx]
      exact ih hl

theorem find?_setLayer_other (d : Defs) (l' : Layer) (k : Bytes) (hk : k ≠ l'.name) :
    (setLayer d l').layers.find? (·.name == k) = d.layers.find? (·.name == k) := by
  unfold setLayer
  simp only
  induction d.layers with
  | nil => rfl
  | cons x xs ih =>
    simp only [List.map_cons, List.find?_cons]
    by_cases hx : (x.name == l'.name) = true
    · have hxe : x.name = l'.name := by simpa using hx
      have : ¬ (l'.name == k) = true := by
        intro h; apply hk; simp at h; exact h.symm
      have h2 : ¬ (x.name == k) = true := by rw [hxe]; exact this
      simp only [hx, if_true, this, h2]
      exact ih
    · simp only [hx, Bool.false_eq_true, if_false]
      by_cases h2 : (x.name == k) = true
      · simp [h2]
      · simp only [h2]; exact ih

/-- once the walk has `n` among the visited names, starting from a descendant of `n` in
    the table where `n`'s layer has been replaced, it fails -/
theorem chainOk_cycle (d : Defs) (l l' : Layer) (n : Bytes) (hn : n ≠ [])
    (hl : findLayer d n = some l) (hn' : l'.name = n) (k : Bytes) (hd : Desc d.layers n k) :
    ∀ (fuel : Nat) (visited : List Bytes), n ∈ visited →
      chainOk (setLayer d l').layers fuel visited k = false := by
  have hself := find?_setLayer_self d l l' n hl hn'
  have hnlen : ¬ (n.length == 0) = true := by
    cases n with
    | nil => exact absurd rfl hn
    | cons x xs => simp
  -- a walk that starts at `n` itself fails at once
  have hat : ∀ (fuel : Nat) (visited : List Bytes), n ∈ visited →
      chainOk (setLayer d l').layers fuel visited n = false := by
    intro fuel visited hv
    cases fuel with
    | zero => rfl
    | succ f =>
      unfold chainOk
      simp only [hnlen, if_false, hself, Bool.false_eq_true]
      have : visited.contains l'.name = true := by rw [hn']; simpa using hv
      rw [if_pos this]
  induction hd with
  | child k lk hk hf hb =>
    intro fuel visited hv
    by_cases hkn : k = n
    · rw [hkn]; exact hat fuel visited hv
    cases fuel with
    | zero => rfl
    | succ f =>
      have hklen : ¬ (k.length == 0) = true := by
        cases k with
        | nil => exact absurd rfl hk
        | cons x xs => simp
      unfold chainOk
      rw [find?_setLayer_other d l' k (by rw [hn']; exact hkn)]
      simp only [hklen, if_false, hf, Bool.false_eq_true]
      by_cases hvis : visited.contains lk.name = true
      · rw [if_pos hvis]
      · rw [if_neg hvis, hb]
        exact hat f _ (List.mem_cons_of_mem _ hv)
  | step k lk hk hf _ ih =>
    intro fuel visited hv
    by_cases hkn : k = n
    · rw [hkn]; exact hat fuel visited hv
    cases fuel with
    | zero => rfl
    | succ f =>
      have hklen : ¬ (k.length == 0) = true := by
        cases k with
        | nil => exact absurd rfl hk
        | cons x xs => simp
      unfold chainOk
      rw [find?_setLayer_other d l' k (by rw [hn']; exact hkn)]
      simp only [hklen, if_false, hf, Bool.false_eq_true]
      by_cases hvis : visited.contains lk.name = true
      · rw [if_pos hvis]
      · rw [if_neg hvis]
        exact ih f _ (List.mem_cons_of_mem _ hv)

/-! ### the order computed by normalizeOrder -/

/-- the list normalizeOrder sorts -/
def keyed (layers : List Layer) : List (Bytes × Option Bytes) :=
  layers.map fun l => (l.name, sortKey layers (layers.length + 1) l.base l.name)

def keyLt (a b : Bytes × Option Bytes) : Bool := bytesLt (a.2.getD []) (b.2.getD [])

theorem normalizeOrder_ok (layers : List Layer) (order : List Bytes)
    (h : normalizeOrder layers = .ok order) :
    (∀ l ∈ layers, (sortKey layers (layers.length + 1) l.base l.name).isSome = true) ∧
    order = (sortBy keyLt (keyed layers)).map (·.1) := by
  unfold normalizeOrder at h
  by_cases hany : ((layers.map fun l => (l.name, sortKey layers (layers.length + 1) l.base l.name)).any
      (·.2.isNone)) = true
  · simp only [hany, if_true] at h
    cases h
  · simp only [hany, Bool.false_eq_true, if_false] at h
    constructor
    · intro l hl
      cases hk : sortKey layers (layers.length + 1) l.base l.name with
      | some k => rfl
      | none =>
        exfalso; apply hany
        rw [List.any_eq_true]
        exact ⟨(l.name, none), List.mem_map.mpr ⟨l, hl, by rw [hk]⟩, rfl⟩
    · injection h with h
      exact h.symm

/-- the order is a permutation of the layer names: nothing lost, nothing invented -/
theorem order_perm (layers : List Layer) (order : List Bytes)
    (h : normalizeOrder layers = .ok order) : order.Perm (layers.map (·.name)) := by
  rw [(normalizeOrder_ok layers order h).2]
  have := (sortBy_perm keyLt (keyed layers)).map (·.1)
  refine this.trans ?_
  unfold keyed
  rw [List.map_map]
  exact List.Perm.refl _

theorem mem_setLayer (d : Defs) (l l' : Layer) (n : Bytes)
    (hl : findLayer d n = some l) (hn : l'.name = n) : l' ∈ (setLayer d l').layers :=
  List.mem_of_find?_eq_some (find?_setLayer_self d l l' n hl hn)

end Lc.Forest
