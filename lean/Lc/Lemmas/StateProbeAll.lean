/-
  The per-layer round of `ProbeAllLayerstate` (manage/probe.go:131-190) as a named
  function, proved equal to the lambda inside the model's `probeAll`; field-preservation
  and state-range lemmas.  Helper lemmas for Props/C08.  The model is not changed.
-/
import Lc.Lemmas.StateProbe

namespace Lc.StateProbe
open Lc Lc.Layers Lc.Mountinfo Lc.Layerfile

def usersOf (inuse : List (Bytes × List User)) (name : Bytes) : List User :=
  match inuse.find? (·.1 == name) with
  | some (_, us) => us
  | none => []

/-- one round of the loop of `probeAll`, verbatim -/
def probeStep (cfg : Config) (inuse : List (Bytes × List User)) (fs : Fs.Tree) (d : Defs)
    (name : Bytes) : M Defs := do
  match findLayer d name with
  | none => throw Fault.panic
  | some l =>
    let buildroot := buildPath cfg l
    let l := { l with mounts := getMountAndSubmounts d.mounts buildroot }
    let l := classifyUsers cfg l (usersOf inuse name)
    if l.state == S_error then pure (setLayer d l) else
    if !Fs.isDir fs buildroot then pure (setLayer d { l with state := S_incomplete }) else
    let haveWork := Fs.isDir fs (workPath cfg l)
    let haveUpper := Fs.isDir fs (upperPath cfg l)
    if l.base.length ≥ 1 && (!haveWork || !haveUpper) then
      pure (setLayer d { l with state := S_incomplete })
    else
      let l ← liftRes (findLayerstate cfg fs d { l with state := S_complete })
      pure (setLayer d l)

theorem probeAll_eq (cfg : Config) (inuse : List (Bytes × List User)) (d : Defs) :
    probeAll cfg inuse d = (do
      let d ← refreshMountInfo cfg d
      let fs := (← getW).fs
      d.order.foldlM (probeStep cfg inuse fs) d) := by
  rfl

/-- the new record of a layer that is not in the error state: the pure content of one round -/
def probeLayer (cfg : Config) (inuse : List (Bytes × List User)) (fs : Fs.Tree) (d : Defs)
    (name : Bytes) (l0 : Layer) : Res Layer :=
  let buildroot := buildPath cfg l0
  let l := classifyUsers cfg { l0 with mounts := getMountAndSubmounts d.mounts buildroot }
    (usersOf inuse name)
  if !Fs.isDir fs buildroot then .ok { l with state := S_incomplete } else
  if l.base.length ≥ 1 && (!Fs.isDir fs (workPath cfg l) || !Fs.isDir fs (upperPath cfg l)) then
    .ok { l with state := S_incomplete }
  else findLayerstate cfg fs d { l with state := S_complete }

/-- the record of a layer that IS in the error state after its round (fix e3cb7aa): the
    state is kept, the mounts at or below the build root and the processes are recorded -/
def probeErr (cfg : Config) (inuse : List (Bytes × List User)) (d : Defs) (name : Bytes) (l0 : Layer) : Layer :=
  classifyUsers cfg { l0 with mounts := getMountAndSubmounts d.mounts (buildPath cfg l0) }
    (usersOf inuse name)

/-! ### fields that classification never touches -/

/-- `b` differs from `a` at most in the user flags -/
def SameCore (a b : Layer) : Prop :=
  b.name = a.name ∧ b.base = a.base ∧ b.cmounts = a.cmounts ∧ b.cexports = a.cexports ∧
  b.layerPath = a.layerPath ∧ b.state = a.state ∧ b.overlain = a.overlain ∧ b.mounts = a.mounts

theorem SameCore.refl (a : Layer) : SameCore a a := ⟨rfl, rfl, rfl, rfl, rfl, rfl, rfl, rfl⟩

theorem SameCore.trans {a b c : Layer} (h1 : SameCore a b) (h2 : SameCore b c) : SameCore a c := by
  obtain ⟨a1, a2, a3, a4, a5, a6, a7, a8⟩ := h1
  obtain ⟨b1, b2, b3, b4, b5, b6, b7, b8⟩ := h2
  exact ⟨b1.trans a1, b2.trans a2, b3.trans a3, b4.trans a4, b5.trans a5, b6.trans a6,
    b7.trans a7, b8.trans a8⟩

theorem foldl_sameCore {α} (f : Layer → α → Layer) (hf : ∀ l x, SameCore l (f l x)) (xs : List α)
    (l : Layer) : SameCore l (xs.foldl f l) := by
  induction xs generalizing l with
  | nil => exact SameCore.refl l
  | cons x xs ih => exact (hf l x).trans (ih (f l x))

theorem classifyUsers_sameCore (cfg : Config) (l : Layer) (us : List User) :
    SameCore l (classifyUsers cfg l us) := by
  unfold classifyUsers
  apply foldl_sameCore
  intro l u
  apply foldl_sameCore
  intro l mp
  simp only []
  repeat' split
  all_goals exact ⟨rfl, rfl, rfl, rfl, rfl, rfl, rfl, rfl⟩

/-- `findLayerstate` only sets `mounts` and `state`; started at `complete` or above it never
    answers `empty` or `incomplete` -/
theorem findLayerstate_shape (cfg : Config) (fs : Fs.Tree) (d : Defs) (l l' : Layer)
    (h : findLayerstate cfg fs d l = .ok l') :
    ∃ s, l' = { l with mounts := getMountAndSubmounts d.mounts (buildPath cfg l), state := s } ∧
      (l.state < S_complete → s = l.state) ∧
      (¬ l.state < S_complete → s ≠ S_incomplete ∧ s ≠ S_empty) := by
  rcases findLayerstate_cases cfg fs d l l' h with ⟨hs, rfl⟩ | ⟨hs, hc⟩
  · exact ⟨l.state, rfl, fun _ => rfl, fun h => absurd hs h⟩
  rcases hc with ⟨_, rfl⟩ | hp | ⟨l2, n, hn, hp, hcl⟩
  · exact ⟨S_complete, rfl, fun h => absurd h hs, fun _ => by decide⟩
  · rcases (preCheck_ret cfg fs d _ _ hp).2 with rfl | rfl
    · exact ⟨S_mountable, rfl, fun h => absurd h hs, fun _ => by decide⟩
    · exact ⟨S_error, rfl, fun h => absurd h hs, fun _ => by decide⟩
  obtain ⟨rfl, -, -⟩ := preCheck_go cfg fs d _ _ n hp hn
  rw [classify_eq] at hcl
  generalize hlc : ({ l with mounts := getMountAndSubmounts d.mounts (buildPath cfg l),
                             state := S_complete } : Layer) = lc at hcl
  split at hcl
  · cases hcl
    subst hlc
    exact ⟨S_inhabited, rfl, fun h => absurd h hs, fun _ => by decide⟩
  · cases hcl
  split at hcl
  · cases hcl
  have hl' := (Except.ok.inj hcl).symm
  generalize n + List.countP _ _ = nm at hl'
  generalize (List.any _ _ || List.any _ _) = a at hl'
  generalize (List.any _ _ || List.any _ _) = b at hl'
  generalize (exportsOf cfg lc).2 = c at hl'
  obtain ⟨s, hs'⟩ := finish_same ({ lc with state := S_inhabited } : Layer) (numExpected lc) nm a b c
  have hst := finish_state ({ lc with state := S_inhabited } : Layer) (numExpected lc) nm a b c
  rw [hs'] at hst
  refine ⟨s, ?_, fun h => absurd h hs, fun _ => ?_⟩
  · rw [hl', hs']
    subst hlc
    rfl
  have hst' : s = _ := hst
  rw [hst']
  repeat' split
  all_goals (first | decide | exact ⟨by decide, by decide⟩ | (constructor <;> (show S_inhabited ≠ _) <;> decide))

theorem findLayer_name (d : Defs) (name : Bytes) (l : Layer) (h : findLayer d name = some l) :
    l.name = name := by
  unfold findLayer at h
  have := List.find?_some h
  simpa using this

/-- after `setLayer d l'` the layer found under `l'.name` is `l'` (if there was one) -/
theorem findLayer_setLayer (d : Defs) (l l' : Layer) (h : findLayer d l'.name = some l) :
    findLayer (setLayer d l') l'.name = some l' := by
  unfold findLayer setLayer at *
  simp only []
  generalize d.layers = ls at h
  induction ls with
  | nil => simp at h
  | cons x xs ih =>
    simp only [List.map_cons, List.find?_cons] at h ⊢
    by_cases hx : (x.name == l'.name) = true
    · simp [hx]
    · simp only [Bool.not_eq_true] at hx
      simp only [hx, Bool.false_eq_true, ↓reduceIte] at h ⊢
      exact ih h

theorem probeStep_eq (cfg : Config) (inuse : List (Bytes × List User)) (fs : Fs.Tree) (d : Defs)
    (name : Bytes) :
    probeStep cfg inuse fs d name =
      match findLayer d name with
      | none => throw Fault.panic
      | some l =>
        if l.state == S_error then pure (setLayer d (probeErr cfg inuse d name l)) else
          (liftRes (probeLayer cfg inuse fs d name l) >>= fun l' => pure (setLayer d l')) := by
  unfold probeStep probeLayer probeErr
  split
  · rfl
  · rename_i l hl
    simp only []
    have hst : (classifyUsers cfg
        ({ l with mounts := getMountAndSubmounts d.mounts (buildPath cfg l) } : Layer)
        (usersOf inuse name)).state = l.state :=
      (classifyUsers_sameCore cfg _ _).2.2.2.2.2.1
    rw [hst]
    split
    · rfl
    · split
      · simp [liftRes]
      · split
        · simp [liftRes]
        · rfl

theorem probeErr_key (cfg : Config) (inuse : List (Bytes × List User)) (d : Defs) (name : Bytes) (l : Layer) :
    SameCore { l with mounts := getMountAndSubmounts d.mounts (buildPath cfg l) } (probeErr cfg inuse d name l) :=
  classifyUsers_sameCore cfg _ _

end Lc.StateProbe
