/-
  The kernel mount-table model (`Lc/Model/Kernel.lean`) seen through its own text rendering
  and the mountinfo parser: `Kernel.probe t = probeMounts (render t)`.

  * `natBytes_token`, `devOfMinor_token`: the decimal numbers the table model prints are
    non-empty digit strings (so they are token fields for the renderer),
  * `MntOK` / `KWF`: well-formedness of a kernel table — exactly what the renderer of
    `Lc/Spec/KernelRender.lean` needs (`toSpec_wf`); `kmount_wf`: `kmount` preserves it,
  * `probe_ok`, `probe_sees_table`: by C12's `probe_render` / `getMount_last` the probe of a
    well-formed table succeeds and `getMount` finds a mount at a path exactly when the table
    has one there, reporting the topmost (latest) one,
  * `kmount_has`, `kmount_ext`, `kmount_overlay_top`: a successful `kmount` leaves a mount on its
    target and never removes an entry; the entry an overlay mount appends.
  Helper lemmas for Props/C01 (`kmount_then_probe`, `mount_idempotent`).
-/
import Lc.Model.Kernel
import Lc.Lemmas.KernelResolve
import Lc.Props.C12

namespace Lc.KernelProbe
open Lc Lc.Kernel Lc.Spec Lc.Mountinfo

/-! ### the numbers the table model prints -/

theorem byteArray_toList_loop (bs : ByteArray) (i : Nat) (r : List UInt8) (hi : i ≤ bs.size) :
    ByteArray.toList.loop bs i r = r.reverse ++ bs.data.toList.drop i := by
  induction h : bs.size - i generalizing i r with
  | zero =>
    unfold ByteArray.toList.loop
    have : ¬ i < bs.size := by omega
    simp only [this, if_false]
    have : bs.data.toList.length ≤ i := by
      have : bs.size = bs.data.size := rfl
      simp; omega
    rw [List.drop_of_length_le this]; simp
  | succ n ih =>
    unfold ByteArray.toList.loop
    have hlt : i < bs.size := by omega
    simp only [hlt, if_true]
    rw [ih (i+1) _ (by omega) (by omega)]
    have hsz : bs.size = bs.data.size := rfl
    have : bs.data.toList.drop i = bs.data.toList[i]'(by simp; omega) :: bs.data.toList.drop (i+1) := by
      exact List.drop_eq_getElem_cons (by simp; omega)
    rw [this]
    simp [ByteArray.get!, getElem!_pos, hlt]

theorem byteArray_toList (bs : ByteArray) : bs.toList = bs.data.toList := by
  unfold ByteArray.toList
  rw [byteArray_toList_loop bs 0 [] (Nat.zero_le _)]
  simp

/-- decimal digits of `n` as bytes -/
def digitBytes (n : Nat) : Bytes := (Nat.toDigits 10 n).map (fun c => c.toNat)

theorem digit_val {c : Char} (hc : c.isDigit = true) : 48 ≤ c.val.toNat ∧ c.val.toNat ≤ 57 := by
  simp [Char.isDigit] at hc
  exact ⟨UInt32.le_iff_toNat_le.mp hc.1, UInt32.le_iff_toNat_le.mp hc.2⟩

/-- `natBytes n` (defined through `toString`) is the list of decimal digits of `n` -/
theorem natBytes_eq (n : Nat) : natBytes n = digitBytes n := by
  unfold natBytes digitBytes
  rw [Nat.toString_eq_ofList_toDigits, String.toUTF8, String.toByteArray_ofList, byteArray_toList]
  simp only [List.utf8Encode, List.toList_data_toByteArray]
  have : ∀ l : List Char, (∀ c ∈ l, c.isDigit = true) →
      (l.flatMap String.utf8EncodeChar).map (·.toNat) = l.map (fun c => c.toNat) := by
    intro l hl
    induction l with
    | nil => rfl
    | cons c l ih =>
      have hc := digit_val (hl c (by simp))
      have h1 : c.utf8Size = 1 := by
        simp [Char.utf8Size]
        intro h
        have h3 := UInt32.lt_iff_toNat_lt.mp h
        simp at h3
        have := hc.2
        simp at this
        omega
      simp only [List.flatMap_cons, List.map_append, List.map_cons]
      rw [String.utf8EncodeChar_eq_singleton h1, ih (fun x hx => hl x (by simp [hx]))]
      simp
      have h2 := hc.2
      unfold Char.toUInt8 Char.toNat
      simp only [UInt32.toNat_toUInt8]
      omega
  exact this _ (fun c hc => Nat.isDigit_of_mem_toDigits (by decide) (by decide) hc)

/-- different numbers are printed differently -/
theorem digitBytes_injective {a b : Nat} (h : digitBytes a = digitBytes b) : a = b := by
  unfold digitBytes at h
  have hinj : ∀ (l1 l2 : List Char), l1.map (fun c => c.toNat) = l2.map (fun c => c.toNat) → l1 = l2 := by
    intro l1
    induction l1 with
    | nil => intro l2 h; cases l2 with
      | nil => rfl
      | cons _ _ => simp at h
    | cons c cs ih =>
      intro l2 h
      cases l2 with
      | nil => simp at h
      | cons d ds =>
        simp only [List.map_cons, List.cons.injEq] at h
        have hcd : c = d := by
          apply Char.ext
          apply UInt32.toNat_inj.mp
          exact h.1
        rw [hcd, ih ds h.2]
  have := hinj _ _ h
  have ha := @Nat.ofDigitChars_ten_toDigits a
  have hb := @Nat.ofDigitChars_ten_toDigits b
  rw [this] at ha
  rw [← ha, hb]

theorem natBytes_injective {a b : Nat} (h : natBytes a = natBytes b) : a = b := by
  rw [natBytes_eq, natBytes_eq] at h
  exact digitBytes_injective h

theorem digitBytes_ne_nil (n : Nat) : digitBytes n ≠ [] := by
  unfold digitBytes
  simp [Nat.toDigits_ne_nil]

theorem digitBytes_range (n : Nat) : ∀ b ∈ digitBytes n, 48 ≤ b ∧ b ≤ 57 := by
  intro b hb
  unfold digitBytes at hb
  rw [List.mem_map] at hb
  obtain ⟨c, hc, rfl⟩ := hb
  exact digit_val (Nat.isDigit_of_mem_toDigits (by decide) (by decide) hc)

theorem tokenOK_of_range {s : Bytes} (hne : s ≠ []) (h : ∀ b ∈ s, 48 ≤ b ∧ b ≤ 58) : TokenOK s := by
  refine ⟨hne, ?_, ?_, ?_⟩ <;> intro hm <;> have := h _ hm <;> omega

/-- a mount id is printed as a token -/
theorem natBytes_token (n : Nat) : TokenOK (natBytes n) := by
  rw [natBytes_eq]
  exact tokenOK_of_range (digitBytes_ne_nil n) (fun b hb => by have := digitBytes_range n b hb; omega)

/-- `0:<minor>` is a token -/
theorem devOfMinor_token (n : Nat) : TokenOK (devOfMinor n) := by
  have h : devOfMinor n = [48, 58] ++ natBytes n := rfl
  rw [h, natBytes_eq]
  apply tokenOK_of_range (by simp)
  intro b hb
  rcases List.mem_append.mp hb with hb | hb
  · simp at hb; omega
  · have := digitBytes_range n b hb; omega

/-! ### well-formed kernel tables -/

/-- What the renderer needs of a table entry: device number and file-system type are tokens
    (non-empty, no blank / newline / carriage return); root, mountpoint, source and the
    overlay directories are byte strings (any bytes: the kernel escapes them); the workdir of
    an overlay — printed last on its line — does not end in a carriage return (the kernel
    does not escape CR and the line reader strips one at a line end: C12's finding
    `mountinfo-cr-at-line-end`). -/
structure MntOK (m : KMnt) : Prop where
  dev : TokenOK m.dev
  fstype : TokenOK m.fstype
  root : IsB m.root
  mp : IsB m.mp
  source : IsB m.source
  lower : IsB m.lower
  upper : IsB m.upper
  work : IsB m.work
  workLast : m.work.getLast? ≠ some 13

/-- every entry of the table is well-formed -/
def KWF (t : KTable) : Prop := ∀ m ∈ t.mnts, MntOK m

theorem toSpec_wf {m : KMnt} (h : MntOK m) : (toSpec m).WF := by
  constructor
  case id => exact natBytes_token _
  case parent => exact natBytes_token _
  case dev => exact h.dev
  case opts => simp [toSpec, TokenOK]
  case fstype => exact h.fstype
  case optional => intro o ho; simp [toSpec] at ho
  case root => exact h.root
  case mp => exact h.mp
  case source => exact h.source
  case superNe => simp only [toSpec]; split <;> simp
  case super =>
    intro o ho
    simp only [toSpec] at ho
    split at ho
    · simp only [List.mem_cons, List.not_mem_nil, or_false] at ho
      rcases ho with rfl | rfl | rfl | rfl
      · simp [KeyOK, TokenOK]
      · exact ⟨by simp [KeyOK, TokenOK], fun v hv => by cases hv; exact h.lower⟩
      · exact ⟨by simp [KeyOK, TokenOK], fun v hv => by cases hv; exact h.upper⟩
      · exact ⟨by simp [KeyOK, TokenOK], fun v hv => by cases hv; exact h.work⟩
    · simp only [List.mem_cons, List.not_mem_nil, or_false] at ho
      subst ho
      simp [KeyOK, TokenOK]
  case superLast =>
    intro o ho v hv
    simp only [toSpec] at ho
    split at ho
    · simp only [List.getLast?_cons_cons, List.getLast?_singleton, Option.some.injEq] at ho
      subst ho
      cases hv
      exact h.workLast
    · simp only [List.getLast?_singleton, Option.some.injEq] at ho
      subst ho
      cases hv

theorem toSpec_wf_all {t : KTable} (h : KWF t) : ∀ m ∈ t.mnts.map toSpec, m.WF := by
  intro m hm
  rw [List.mem_map] at hm
  obtain ⟨k, hk, rfl⟩ := hm
  exact toSpec_wf (h k hk)

/-! ### the probe of a well-formed table -/

/-- the probe of a well-formed table succeeds with exactly the entries and devices C12's
    `probe_render` describes, one entry per table entry in table order -/
theorem probe_ok {t : KTable} (h : KWF t) :
    Kernel.probe t = .ok { list := Props.C12.entries (t.mnts.map toSpec),
                           devices := Props.C12.devicesOf (t.mnts.map toSpec) } :=
  Props.C12.probe_render _ (toSpec_wf_all h)

theorem find?_reverse_split {α : Type} (p : α → Bool) (l : List α) (x : α)
    (h : l.reverse.find? p = some x) :
    ∃ pre post, l = pre ++ x :: post ∧ p x = true ∧ ∀ y ∈ post, p y = false := by
  obtain ⟨hp, as, bs, hl, hn⟩ := List.find?_eq_some_iff_append.mp h
  refine ⟨bs.reverse, as.reverse, ?_, by simpa using hp, ?_⟩
  · have := congrArg List.reverse hl
    simpa using this
  · intro y hy
    have := hn y (by simpa using hy)
    simpa using this

theorem find?_reverse_none {α : Type} (p : α → Bool) (l : List α) :
    l.reverse.find? p = none ↔ ∀ y ∈ l, p y = false := by
  simp [List.find?_eq_none]

theorem topmostAt_none {mnts : List KMnt} {mp : Bytes} :
    topmostAt mnts mp = none ↔ ∀ m ∈ mnts, m.mp ≠ mp := by
  unfold topmostAt
  rw [find?_reverse_none]
  simp

theorem topmostAt_some {mnts : List KMnt} {mp : Bytes} {km : KMnt} (h : topmostAt mnts mp = some km) :
    ∃ pre post, mnts = pre ++ km :: post ∧ km.mp = mp ∧ ∀ y ∈ post, y.mp ≠ mp := by
  obtain ⟨pre, post, hl, hp, hn⟩ := find?_reverse_split _ _ _ h
  refine ⟨pre, post, hl, by simpa using hp, ?_⟩
  intro y hy
  simpa using hn y hy

/-- the table has a mount with mountpoint `mp` -/
def HasMount (t : KTable) (mp : Bytes) : Prop := ∃ m ∈ t.mnts, m.mp = mp

theorem hasMount_iff_topmost {t : KTable} {mp : Bytes} :
    HasMount t mp ↔ topmostAt t.mnts mp ≠ none := by
  rw [Ne, topmostAt_none]
  unfold HasMount
  constructor
  · rintro ⟨m, hm, e⟩ h; exact h m hm e
  · intro h
    apply Classical.byContradiction
    intro hn
    apply h
    intro m hm e
    exact hn ⟨m, hm, e⟩

theorem lastVal_toSpec_overlay (m : KMnt) (h : m.fstype = b!"overlay") :
    lastVal b!"lowerdir" (toSpec m).super = m.lower ∧
    lastVal b!"upperdir" (toSpec m).super = m.upper ∧
    lastVal b!"workdir" (toSpec m).super = m.work := by
  simp [toSpec, h, lastVal]

/-- what the parser reports for the table entry `km` -/
structure Reports (e : MountType) (km : KMnt) : Prop where
  mountpoint : e.mountpoint = km.mp
  fstype : e.fstype = km.fstype
  options : e.options = b!"rw"
  stDev : e.stDev = km.dev
  root : e.root = km.root
  overlay : km.fstype = b!"overlay" →
    e.source = km.lower ∧ e.source2 = km.upper ∧ e.workdir = km.work
  other : km.fstype ≠ b!"overlay" → e.source = [] ∧ e.source2 = [] ∧ e.workdir = []

theorem reports_entryOf (pre : List KMount) (km : KMnt) : Reports (Props.C12.entryOf pre (toSpec km)) km := by
  have hf := Props.C12.entryOf_fields pre (toSpec km)
  refine ⟨hf.1, hf.2.1, hf.2.2.1, hf.2.2.2.1, hf.2.2.2.2.1, ?_, ?_⟩
  · intro hov
    have h1 := hf.2.2.2.2.2.2.1 hov
    have h2 := lastVal_toSpec_overlay km hov
    rw [h2.1, h2.2.1, h2.2.2] at h1
    exact h1
  · intro hov
    exact hf.2.2.2.2.2.2.2 hov

/-- **probe_sees_table.**  For every well-formed kernel table the probe (render as
    /proc/self/mountinfo text, parse with the model of `fs.ProbeMounts`) succeeds, and looking
    a path up in the result (`GetMount`) finds a mount exactly when the table has a mount with
    that mountpoint; the entry found describes the *topmost* (latest) mount there: its type,
    device, root and — for an overlay — lower, upper and work directory. -/
theorem probe_sees_table {t : KTable} (h : KWF t) :
    ∃ M, Kernel.probe t = .ok M ∧
      (∀ mp, getMount M mp = none ↔ topmostAt t.mnts mp = none) ∧
      (∀ mp km, topmostAt t.mnts mp = some km → ∃ e, getMount M mp = some e ∧ Reports e km) := by
  refine ⟨_, probe_ok h, ?_⟩
  have hsome : ∀ mp km, topmostAt t.mnts mp = some km →
      ∃ e, getMount { list := Props.C12.entries (t.mnts.map toSpec),
                      devices := Props.C12.devicesOf (t.mnts.map toSpec) } mp = some e ∧ Reports e km := by
    intro mp km hk
    obtain ⟨pre, post, hl, hmp, hpost⟩ := topmostAt_some hk
    have hwf := toSpec_wf_all h
    rw [hl, List.map_append, List.map_cons] at hwf
    have hlast : ∀ x ∈ post.map toSpec, x.mp ≠ (toSpec km).mp := by
      intro x hx
      rw [List.mem_map] at hx
      obtain ⟨y, hy, rfl⟩ := hx
      show y.mp ≠ km.mp
      rw [hmp]; exact hpost y hy
    obtain ⟨M, hM, hg⟩ := Props.C12.getMount_last (pre.map toSpec) (post.map toSpec) (toSpec km) hwf hlast
    rw [Props.C12.probe_render _ hwf] at hM
    cases hM
    refine ⟨_, ?_, reports_entryOf (pre.map toSpec) km⟩
    rw [hl, List.map_append, List.map_cons]
    have : (toSpec km).mp = mp := hmp
    rw [← this]
    exact hg
  refine ⟨?_, hsome⟩
  intro mp
  constructor
  · intro hg
    cases hk : topmostAt t.mnts mp with
    | none => rfl
    | some km =>
      obtain ⟨e, he, _⟩ := hsome mp km hk
      rw [he] at hg; cases hg
  · intro hk
    rw [topmostAt_none] at hk
    unfold getMount
    rw [find?_reverse_none]
    intro e he
    simp only [Props.C12.entries, List.mem_mapIdx] at he
    obtain ⟨i, hi, rfl⟩ := he
    rw [(Props.C12.entryOf_fields _ _).1]
    simp only [List.getElem_map, beq_eq_false_iff_ne, ne_eq]
    simp only [List.length_map] at hi
    exact hk _ (List.getElem_mem hi)

/-- `GetMount` on the probe finds something at `mp` iff the table has a mount there -/
theorem probe_getMount_iff {t : KTable} (h : KWF t) {M : Mounts} (hM : Kernel.probe t = .ok M) (mp : Bytes) :
    getMount M mp ≠ none ↔ HasMount t mp := by
  obtain ⟨M', hM', h1, _⟩ := probe_sees_table h
  rw [hM] at hM'
  cases hM'
  rw [hasMount_iff_topmost, Ne, Ne, h1 mp]


/-! ### byte strings stay byte strings -/

theorem isB_nil : IsB [] := by intro b hb; cases hb

theorem isB_cons {b : Nat} {s : Bytes} : IsB (b :: s) ↔ b < 256 ∧ IsB s := by
  unfold IsB; simp

theorem isB_append {a b : Bytes} : IsB (a ++ b) ↔ IsB a ∧ IsB b := by
  unfold IsB
  constructor
  · intro h; exact ⟨fun x hx => h x (by simp [hx]), fun x hx => h x (by simp [hx])⟩
  · rintro ⟨h1, h2⟩ x hx
    rcases List.mem_append.mp hx with hx | hx
    · exact h1 x hx
    · exact h2 x hx

theorem isB_drop {s : Bytes} (n : Nat) (h : IsB s) : IsB (s.drop n) :=
  fun b hb => h b (List.mem_of_mem_drop hb)

theorem isB_unescape : ∀ (s : Bytes), IsB s → IsB (unescape s) := by
  intro s
  induction s using unescape.induct with
  | case1 => intro _; exact isB_nil
  | case2 x a b c rest hc ih =>
    intro h
    rw [unescape, if_pos hc]
    simp only [Bool.and_eq_true, decide_eq_true_eq, isOct] at hc
    have h4 : IsB rest := fun y hy => h y (by simp [hy])
    rw [isB_cons]
    refine ⟨?_, ih h4⟩
    omega
  | case3 x a b c rest hc ih =>
    intro h
    rw [unescape, if_neg hc]
    rw [isB_cons] at h ⊢
    exact ⟨h.1, ih h.2⟩
  | case4 x rest hne ih =>
    intro h
    rw [unescape]
    · rw [isB_cons] at h ⊢
      exact ⟨h.1, ih h.2⟩
    · exact hne

theorem isB_splitOn (sep : Nat) : ∀ (s : Bytes), IsB s → ∀ p ∈ splitOn sep s, IsB p := by
  intro s
  induction s with
  | nil => intro _ p hp; simp [splitOn] at hp; subst hp; exact isB_nil
  | cons c cs ih =>
    intro h p hp
    rw [isB_cons] at h
    unfold splitOn at hp
    split at hp
    · rcases List.mem_cons.mp hp with rfl | hp
      · exact isB_nil
      · exact ih h.2 p hp
    · split at hp
      · simp at hp; subst hp; rw [isB_cons]; exact ⟨h.1, isB_nil⟩
      · rename_i hd tl heq
        rcases List.mem_cons.mp hp with rfl | hp
        · rw [isB_cons]; exact ⟨h.1, ih h.2 hd (by rw [heq]; simp)⟩
        · exact ih h.2 p (by rw [heq]; simp [hp])

theorem isB_splitN2 (sep : Nat) : ∀ (s : Bytes), IsB s → ∀ p ∈ splitN2 sep s, IsB p := by
  intro s
  induction s with
  | nil => intro _ p hp; simp [splitN2] at hp; subst hp; exact isB_nil
  | cons c cs ih =>
    intro h p hp
    rw [isB_cons] at h
    unfold splitN2 at hp
    split at hp
    · simp at hp
      rcases hp with rfl | rfl
      · exact isB_nil
      · exact h.2
    · split at hp
      · simp at hp; subst hp; rw [isB_cons]; exact ⟨h.1, isB_nil⟩
      · rename_i hd tl heq
        rcases List.mem_cons.mp hp with rfl | hp
        · rw [isB_cons]; exact ⟨h.1, ih h.2 hd (by rw [heq]; simp)⟩
        · exact ih h.2 p (by rw [heq]; simp [hp])

def OvlB (o : OvlOpts) : Prop := IsB o.lower ∧ IsB o.upper ∧ IsB o.work

theorem ovlStep_isB (o : OvlOpts) (part : Bytes) (ho : OvlB o) (hp : IsB part) : OvlB (ovlStep o part) := by
  unfold ovlStep
  split
  · rename_i k v heq
    have hv : IsB (unescape v) := isB_unescape v (isB_splitN2 61 part hp v (by rw [heq]; simp))
    split
    · exact ⟨hv, ho.2.1, ho.2.2⟩
    · split
      · exact ⟨ho.1, hv, ho.2.2⟩
      · split
        · exact ⟨ho.1, ho.2.1, hv⟩
        · exact ho
  · exact ho

theorem parseOverlayOpts_isB (data : Bytes) (h : IsB data) : OvlB (parseOverlayOpts data) := by
  unfold parseOverlayOpts
  have hp := isB_splitOn 44 data h
  generalize splitOn 44 data = parts at hp
  have : ∀ (o : OvlOpts), OvlB o → OvlB (parts.foldl ovlStep o) := by
    induction parts with
    | nil => intro o ho; exact ho
    | cons x xs ih =>
      intro o ho
      exact ih (fun p hp' => hp p (by simp [hp'])) _ (ovlStep_isB o x ho (hp x (by simp)))
  exact this _ ⟨isB_nil, isB_nil, isB_nil⟩


/-! ### `kmount` on well-formed tables -/

theorem findContaining_mem (mnts : List KMnt) (path : Bytes) (m : KMnt)
    (h : findContaining mnts path = some m) : m ∈ mnts := by
  unfold findContaining at h
  have : ∀ (l : List KMnt) (best : Option KMnt) (r : KMnt),
      l.foldl (fun best m =>
        if pathUnder m.mp path then
          match best with
          | none => some m
          | some b => if b.mp.length ≤ m.mp.length then some m else some b
        else best) best = some r → r ∈ l ∨ best = some r := by
    intro l
    induction l with
    | nil => intro best r h; exact .inr h
    | cons x xs ih =>
      intro best r h
      simp only [List.foldl_cons] at h
      rcases ih _ r h with h1 | h1
      · exact .inl (List.mem_cons_of_mem _ h1)
      · split at h1
        · split at h1
          · cases h1; exact .inl List.mem_cons_self
          · split at h1
            · cases h1; exact .inl List.mem_cons_self
            · exact .inr h1
        · exact .inr h1
  rcases this mnts none m h with h | h
  · exact h
  · cases h

theorem mntOK_ids {m : KMnt} (i p : Nat) (h : MntOK m) : MntOK { m with id := i, parent := p } :=
  ⟨h.dev, h.fstype, h.root, h.mp, h.source, h.lower, h.upper, h.work, h.workLast⟩

theorem addMount_mnts (t : KTable) (m : KMnt) :
    ∃ i p, (addMount t m).mnts = t.mnts ++ [{ m with id := i, parent := p }] := ⟨_, _, rfl⟩

theorem addMount_wf {t : KTable} {m : KMnt} (ht : KWF t) (hm : MntOK m) : KWF (addMount t m) := by
  obtain ⟨i, p, h⟩ := addMount_mnts t m
  intro x hx
  rw [h] at hx
  rcases List.mem_append.mp hx with hx | hx
  · exact ht x hx
  · simp only [List.mem_singleton] at hx
    subst hx
    exact mntOK_ids i p hm

theorem kwf_nextMinor {t : KTable} (n : Nat) (h : KWF t) : KWF { t with nextMinor := n } := h

theorem isB_relTail {base path : Bytes} (h : IsB path) : IsB (relTail base path) := by
  unfold relTail
  split
  · split
    · exact isB_nil
    · exact h
  · exact isB_drop _ h

theorem isB_joinRoot {root tail : Bytes} (hr : IsB root) (ht : IsB tail) : IsB (joinRoot root tail) := by
  unfold joinRoot
  split
  · exact hr
  · split
    · exact ht
    · exact isB_append.mpr ⟨hr, ht⟩

/-- what a `mount(2)` call must satisfy for the table to stay well-formed: source, target
    and data are byte strings; unless it is a bind mount the file-system type is a token; the
    workdir the overlay option parser finds in the data does not end in a carriage return -/
structure ArgsOK (src tgt fstype : Bytes) (flags : Nat) (data : Bytes) : Prop where
  srcB : IsB src
  tgtB : IsB tgt
  fstypeT : hasFlag flags MS_BIND = false → TokenOK fstype
  dataB : IsB data
  workLast : (parseOverlayOpts data).work.getLast? ≠ some 13

theorem foldl_addMount_wf (subs : List KMnt) (f : KMnt → KMnt) (hf : ∀ c ∈ subs, MntOK (f c)) :
    ∀ (acc : KTable), KWF acc → KWF (subs.foldl (fun acc c => addMount acc (f c)) acc) := by
  induction subs with
  | nil => intro acc h; exact h
  | cons c cs ih =>
    intro acc h
    exact ih (fun x hx => hf x (by simp [hx])) _ (addMount_wf h (hf c (by simp)))

/-- **`kmount` keeps the table well-formed** -/
theorem kmount_wf {t t' : KTable} {src tgt fstype : Bytes} {flags : Nat} {data : Bytes}
    (ht : KWF t) (ha : ArgsOK src tgt fstype flags data)
    (h : kmount t src tgt fstype flags data = .ok t') : KWF t' := by
  unfold kmount at h
  split at h
  · split at h
    · cases h
    · cases h; exact ht
  · split at h
    · split at h
      · cases h
      · rename_i m hm
        have hmm := ht m (KernelResolve.resolve_mem hm)
        have h1 : KWF (bindOne t m src tgt) := by
          unfold bindOne
          exact addMount_wf ht ⟨hmm.dev, hmm.fstype, isB_joinRoot hmm.root (isB_relTail ha.srcB), ha.tgtB,
            hmm.source, hmm.lower, hmm.upper, hmm.work, hmm.workLast⟩
        split at h
        · cases h
          apply foldl_addMount_wf _ (fun c => { c with mp := joinRoot tgt (relTail src c.mp) }) _ _ h1
          intro c hc
          have hcc := ht c (List.mem_filter.mp hc).1
          exact ⟨hcc.dev, hcc.fstype, hcc.root, isB_joinRoot ha.tgtB (isB_relTail hcc.mp), hcc.source,
            hcc.lower, hcc.upper, hcc.work, hcc.workLast⟩
        · cases h; exact h1
    · rename_i hnb
      have hft : TokenOK fstype := ha.fstypeT (by simpa using hnb)
      split at h
      · cases h
        have ho := parseOverlayOpts_isB data ha.dataB
        exact addMount_wf (kwf_nextMinor _ ht) ⟨devOfMinor_token _, hft, by simp [IsB], ha.tgtB, ha.srcB,
          ho.1, ho.2.1, ho.2.2, ha.workLast⟩
      · split at h
        · split at h
          · rename_i p hp
            cases h
            have hpp := ht p (List.mem_of_find?_eq_some hp)
            exact addMount_wf ht ⟨hpp.dev, hpp.fstype, by simp [IsB], ha.tgtB, ha.srcB, hpp.lower, hpp.upper,
              hpp.work, hpp.workLast⟩
          · cases h
            exact addMount_wf (kwf_nextMinor _ ht) ⟨devOfMinor_token _, hft, by simp [IsB], ha.tgtB, ha.srcB,
              isB_nil, isB_nil, isB_nil, by simp⟩
        · cases h
          exact addMount_wf (kwf_nextMinor _ ht) ⟨devOfMinor_token _, hft, by simp [IsB], ha.tgtB, ha.srcB,
            isB_nil, isB_nil, isB_nil, by simp⟩


/-! ### `kmount` only adds; a structural call leaves a mount on its target -/

/-- the entries of `t` are an initial segment of those of `t'` -/
def Ext (t t' : KTable) : Prop := ∃ extra, t'.mnts = t.mnts ++ extra

theorem Ext.refl (t : KTable) : Ext t t := ⟨[], by simp⟩

theorem Ext.trans {a b c : KTable} (h1 : Ext a b) (h2 : Ext b c) : Ext a c := by
  obtain ⟨x, hx⟩ := h1
  obtain ⟨y, hy⟩ := h2
  exact ⟨x ++ y, by rw [hy, hx, List.append_assoc]⟩

theorem Ext.hasMount {t t' : KTable} (h : Ext t t') {mp : Bytes} (hm : HasMount t mp) : HasMount t' mp := by
  obtain ⟨x, hx⟩ := h
  obtain ⟨m, hm, e⟩ := hm
  exact ⟨m, by rw [hx]; simp [hm], e⟩

theorem addMount_ext (t : KTable) (m : KMnt) : Ext t (addMount t m) := ⟨_, rfl⟩

theorem addMount_has (t : KTable) (m : KMnt) : HasMount (addMount t m) m.mp := by
  unfold HasMount addMount
  exact ⟨_, List.mem_append_right _ (List.mem_singleton.mpr rfl), rfl⟩

theorem foldl_addMount_ext (subs : List KMnt) (f : KMnt → KMnt) :
    ∀ (acc : KTable), Ext acc (subs.foldl (fun acc c => addMount acc (f c)) acc) := by
  induction subs with
  | nil => intro acc; exact Ext.refl _
  | cons c cs ih => intro acc; exact (addMount_ext acc (f c)).trans (ih _)

/-- a call that changes the mount tree (not a remount, not a propagation change) -/
def isStructural (flags : Nat) : Bool := !(hasFlag flags MS_REMOUNT || (flags / 131072) % 16 != 0)

/-- **`kmount` never removes an entry** -/
theorem kmount_ext {t t' : KTable} {src tgt fstype : Bytes} {flags : Nat} {data : Bytes}
    (h : kmount t src tgt fstype flags data = .ok t') : Ext t t' := by
  unfold kmount at h
  split at h
  · split at h
    · cases h
    · cases h; exact Ext.refl _
  · split at h
    · split at h
      · cases h
      · split at h
        · cases h
          exact (addMount_ext _ _).trans (foldl_addMount_ext _ (fun c => { c with mp := joinRoot tgt (relTail src c.mp) }) _)
        · cases h; exact addMount_ext _ _
    · split at h
      · cases h; exact ⟨_, rfl⟩
      · split at h
        · split at h
          · cases h; exact addMount_ext _ _
          · cases h; exact ⟨_, rfl⟩
        · cases h; exact ⟨_, rfl⟩

/-- **a successful structural `kmount` leaves a mount on its target** -/
theorem kmount_adds {t t' : KTable} {src tgt fstype : Bytes} {flags : Nat} {data : Bytes}
    (hs : isStructural flags = true) (h : kmount t src tgt fstype flags data = .ok t') : HasMount t' tgt := by
  unfold kmount at h
  split at h
  · rename_i hc
    simp [isStructural, hc] at hs
  · split at h
    · split at h
      · cases h
      · split at h
        · cases h
          exact (foldl_addMount_ext _ (fun c => { c with mp := joinRoot tgt (relTail src c.mp) }) _).hasMount
            (addMount_has _ _)
        · cases h; exact addMount_has _ _
    · split at h
      · cases h; exact addMount_has _ _
      · split at h
        · split at h
          · cases h; exact addMount_has _ _
          · cases h; exact addMount_has _ _
        · cases h; exact addMount_has _ _


theorem not_structural {flags : Nat} (hs : isStructural flags = false) :
    (hasFlag flags MS_REMOUNT || (flags / 131072) % 16 != 0) = true := by
  unfold isStructural at hs
  cases h : (hasFlag flags MS_REMOUNT || (flags / 131072) % 16 != 0) with
  | true => rfl
  | false => rw [h] at hs; cases hs

/-- a successful `kmount` of any kind (also a remount or propagation change, which the kernel
    refuses with EINVAL on a path that is no mountpoint) means the target carries a mount -/
theorem kmount_has {t t' : KTable} {src tgt fstype : Bytes} {flags : Nat} {data : Bytes}
    (h : kmount t src tgt fstype flags data = .ok t') : HasMount t' tgt := by
  by_cases hs : isStructural flags = true
  · exact kmount_adds hs h
  · unfold kmount at h
    have h1 := not_structural (by simpa using hs)
    rw [h1] at h
    simp only [if_true] at h
    split at h
    · cases h
    · rename_i m hm
      cases h
      obtain ⟨_, h1, h2⟩ := KernelResolve.mountedAt_spec hm
      exact ⟨m, h1, h2⟩

/-- a remount or propagation change leaves the table as it is -/
theorem kmount_nonstructural {t t' : KTable} {src tgt fstype : Bytes} {flags : Nat} {data : Bytes}
    (hs : isStructural flags = false) (h : kmount t src tgt fstype flags data = .ok t') : t' = t := by
  unfold kmount at h
  have h1 := not_structural hs
  rw [h1] at h
  simp only [if_true] at h
  split at h
  · cases h
  · cases h; rfl

theorem kmount_wf' {t t' : KTable} {src tgt fstype : Bytes} {flags : Nat} {data : Bytes}
    (ht : KWF t) (ha : isStructural flags = true → ArgsOK src tgt fstype flags data)
    (h : kmount t src tgt fstype flags data = .ok t') : KWF t' := by
  by_cases hs : isStructural flags = true
  · exact kmount_wf ht (ha hs) h
  · rw [kmount_nonstructural (by simpa using hs) h]; exact ht

theorem topmostAt_snoc (l : List KMnt) (m : KMnt) : topmostAt (l ++ [m]) m.mp = some m := by
  simp [topmostAt]

/-- the entry an overlay `kmount` appends: on top of its target, type "overlay", directories as
    the option parser reads them from the mount data -/
theorem kmount_overlay_top {t t' : KTable} {src tgt fstype : Bytes} {flags : Nat} {data : Bytes}
    (hs : isStructural flags = true) (hb : hasFlag flags MS_BIND = false) (hf : fstype = b!"overlay")
    (h : kmount t src tgt fstype flags data = .ok t') :
    ∃ km, topmostAt t'.mnts tgt = some km ∧ km.fstype = b!"overlay" ∧ km.source = src ∧
      km.lower = (parseOverlayOpts data).lower ∧ km.upper = (parseOverlayOpts data).upper ∧
      km.work = (parseOverlayOpts data).work := by
  unfold kmount at h
  have h1 : (hasFlag flags MS_REMOUNT || (flags / 131072) % 16 != 0) = false := by
    simpa [isStructural] using hs
  rw [h1] at h
  simp only [Bool.false_eq_true, if_false, hb, hf, BEq.rfl, if_true] at h
  cases h
  exact ⟨_, topmostAt_snoc _ _, rfl, rfl, rfl, rfl, rfl⟩

end Lc.KernelProbe
