/-
  Hoare-style specification of `writeLayerFile` (temp file + rename): the only operation
  that changes the node at the layerconfig path is the final rename; everything before
  only touches `<layerconfig>.new`.  Helper lemmas for Props/C11 (crash_atomic).
-/
import Lc.Lemmas.Hoare
import Lc.Lemmas.FsWrite
import Lc.Lemmas.Path

set_option mvcgen.warning false

namespace Lc.Lemmas.WriteLF
open Std.Do Lc Lc.Layers Lc.Layerfile Lc.Hoare Lc.Lemmas.FsWrite Lc.Lemmas.Path

/-! ### the layerconfig path is never "/" -/

theorem splitOn_append_sep_gen (sep : Nat) (a b : Bytes) :
    splitOn sep (a ++ sep :: b) = splitOn sep a ++ splitOn sep b := by
  induction a with
  | nil => simp [splitOn]
  | cons c cs ih =>
    simp only [List.cons_append, splitOn]
    split
    · rw [ih]; rfl
    · rw [ih]
      cases hs : splitOn sep cs with
      | nil => exact absurd hs (splitOn_ne_nil sep cs)
      | cons h t => simp

def lcName : Bytes := b!"layerconfig"

theorem pathComps_append_lc (a : Bytes) : pathComps (a ++ 47 :: lcName) = pathComps a ++ [lcName] := by
  unfold pathComps
  have : splitOn SLASH (a ++ 47 :: lcName) = splitOn SLASH a ++ splitOn SLASH lcName :=
    splitOn_append_sep_gen 47 a lcName
  rw [this, List.filter_append]
  congr 1

theorem joinWith_length_ge (sep : Nat) (xs : List Bytes) (y : Bytes) :
    y.length ≤ (joinWith sep (xs ++ [y])).length := by
  induction xs with
  | nil => simp [joinWith]
  | cons x rest ih =>
    cases hr : rest ++ [y] with
    | nil => simp at hr
    | cons z zs =>
      simp only [List.cons_append, hr, joinWith, List.length_append, List.length_cons]
      rw [hr] at ih
      omega

theorem pathClean_lc_ne_root (a : Bytes) : pathClean (a ++ 47 :: lcName) ≠ [47] := by
  rw [pathClean_eq_assemble, pathComps_append_lc, List.foldl_append]
  generalize isAbs (a ++ 47 :: lcName) = r
  generalize (pathComps a).foldl (cleanStep r) [] = st
  have hne : lcName ≠ dotdot := by decide
  simp only [List.foldl_cons, List.foldl_nil, cleanStep, hne, if_false]
  unfold assemble
  simp only [List.reverse_cons]
  have hlen := joinWith_length_ge SLASH st.reverse lcName
  have hl : lcName.length = 11 := rfl
  intro h
  cases r
  · simp only [Bool.false_eq_true, if_false] at h
    split at h
    · simp [DOT] at h
    · rw [h, hl] at hlen; simp at hlen
  · simp only [if_true, List.isEmpty_cons, Bool.false_eq_true, if_false, List.cons.injEq] at h
    rw [h.2, hl] at hlen; simp at hlen

theorem layerconfigPath_ne_root (l : Layer) : layerconfigPath l ≠ [47] := by
  unfold layerconfigPath pathJoin
  cases hp : l.layerPath with
  | nil => decide
  | cons c cs =>
    simp only [List.dropWhile_cons, List.isEmpty_cons, Bool.false_eq_true, if_false, joinWith]
    exact pathClean_lc_ne_root (c :: cs)


/-- nothing but the path `T` differs between the two worlds' file systems -/
def Frame (T : Bytes) (w0 w : World) : Prop :=
  (∀ p, p ≠ T → Fs.get w.fs p = Fs.get w0.fs p) ∧ w.pretend = w0.pretend

theorem frame_refl (T : Bytes) (w : World) : Frame T w w := ⟨fun _ _ => rfl, rfl⟩

theorem frame_trans (T : Bytes) (w0 w1 w2 : World) (h1 : Frame T w0 w1) (h2 : Frame T w1 w2) :
    Frame T w0 w2 :=
  ⟨fun p hp => (h2.1 p hp).trans (h1.1 p hp), h2.2.trans h1.2⟩

theorem cursorOpen_spec (T : Bytes) (w1 : World) :
    ⦃fun w => ⌜w = w1⌝⦄ cursorOpen T
    ⦃post⟨fun _ w => ⌜Frame T w1 w ∧ Fs.get w.fs T = some (.file [])⌝, fun _ w => ⌜Frame T w1 w⌝⟩⦄ := by
  mvcgen [cursorOpen, getW, setW, fail, record]
  all_goals subst_vars
  all_goals try (exact ⟨fun _ _ => rfl, rfl⟩)
  rename_i x
  obtain ⟨h1, h2⟩ := openWrite_trunc _ _ _ x
  exact ⟨⟨fun p hp => h2 p hp, rfl⟩, h1⟩

/-- one Printf: relative to the state before it -/
theorem cursorWrite_spec (T chunk : Bytes) (failed : Bool) (w1 : World) :
    ⦃fun w => ⌜w = w1⌝⦄ cursorWrite T chunk failed
    ⦃post⟨fun r w => ⌜Frame T w1 w ∧ (r = false → failed = false ∧
            ∀ c, Fs.get w1.fs T = some (.file c) → Fs.get w.fs T = some (.file (c ++ chunk)))⌝,
          fun _ w => ⌜Frame T w1 w⌝⟩⦄ := by
  mvcgen [cursorWrite, getW, setW, fail, record]
  all_goals subst_vars
  all_goals try (exact ⟨fun _ _ => rfl, rfl⟩)
  · exact ⟨⟨fun _ _ => rfl, rfl⟩, fun h => by cases h⟩
  · exact ⟨⟨fun _ _ => rfl, rfl⟩, fun h => by cases h⟩
  · exact ⟨⟨fun p hp => get_appendFile_ne _ _ _ _ hp, rfl⟩,
      ⟨by cases failed <;> simp_all, fun c hc => get_appendFile_eq _ _ _ _ hc⟩⟩

/-- a gated file-system step, relative to the state before it: pretending or failing
    leaves the tree alone, otherwise the tree is the operation's result -/
theorem fsStep_spec (op : Op) (f : Fs.Tree → Except String Fs.Tree) (w1 : World) :
    ⦃fun w => ⌜w = w1⌝⦄ fsStep op f
    ⦃post⟨fun _ w => ⌜w.pretend = w1.pretend ∧
            ((w1.pretend = true ∧ w.fs = w1.fs) ∨ (w1.pretend = false ∧ f w1.fs = .ok w.fs))⌝,
          fun _ w => ⌜w.fs = w1.fs ∧ w.pretend = w1.pretend⌝⟩⦄ := by
  mvcgen [fsStep, gate, getW, setW, fail, record]
  all_goals subst_vars
  all_goals try (exact ⟨rfl, rfl⟩)
  · exact ⟨rfl, Or.inl ⟨by assumption, rfl⟩⟩
  · rename_i x
    exact ⟨rfl, Or.inr ⟨by simp_all, x⟩⟩

/-! ### writeLayerFile -/

theorem tmp_ne_root (F : Bytes) : F ++ tmpSuffix ≠ [47] := by
  intro h
  have := congrArg List.length h
  simp [tmpSuffix] at this

theorem under_cfg_tmp (F : Bytes) (hF : F ≠ [47]) : Fs.under F (F ++ tmpSuffix) = false := by
  unfold Fs.under
  have hF' : (F == [47]) = false := by simpa using hF
  have h1 : (F ++ tmpSuffix == F) = false := by
    have : ¬ F ++ tmpSuffix = F := by
      intro h; have := congrArg List.length h; simp [tmpSuffix] at this
    simpa using this
  have h2 : hasPrefix (F ++ tmpSuffix) (F ++ [47]) = false := by
    cases hp : hasPrefix (F ++ tmpSuffix) (F ++ [47]) with
    | false => rfl
    | true =>
      obtain ⟨r, hr⟩ := (hasPrefix_iff _ _).mp hp
      rw [List.append_assoc] at hr
      have := List.append_cancel_left hr
      simp [tmpSuffix] at this
  simp [hF', h1, h2]

def cfgPath (l : Layer) : Bytes := layerconfigPath l
def tmpPath (l : Layer) : Bytes := layerconfigPath l ++ tmpSuffix
def newNode (l : Layer) : Fs.Node := .file (render (toLayerFile l))

/-- state after an uninterrupted write relative to the state before it: the complete new
    text is at the layerconfig path, nothing outside that path and the temporary path
    has changed -/
def Written (l : Layer) (w0 w : World) : Prop :=
  Fs.get w.fs (cfgPath l) = some (newNode l) ∧
  ∀ p, Fs.under (cfgPath l) p = false → Fs.under (tmpPath l) p = false → Fs.get w.fs p = Fs.get w0.fs p

theorem writeLayerFile_spec (l : Layer) (w0 : World) :
    ⦃fun w => ⌜w = w0⌝⦄ writeLayerFile l
    ⦃post⟨fun _ w => ⌜w.pretend = w0.pretend ∧
            ((w0.pretend = true ∧ w.fs = w0.fs) ∨ (w0.pretend = false ∧ Written l w0 w))⌝,
          fun _ w => ⌜Frame (tmpPath l) w0 w⌝⟩⦄ := by
  have hF := layerconfigPath_ne_root l
  mvcgen [writeLayerFile, fsRename, getW, fail, cursorOpen_spec, cursorWrite_spec, fsStep_spec]
  case inv1 =>
    exact post⟨fun (xs, failed) w => ⌜Frame (tmpPath l) w0 w ∧
      (failed = false → Fs.get w.fs (tmpPath l) = some (.file xs.prefix.flatten))⌝,
      fun _ w => ⌜Frame (tmpPath l) w0 w⌝⟩
  · -- pretending
    subst_vars
    exact ⟨rfl, Or.inl ⟨by assumption, rfl⟩⟩
  · -- one chunk written
    rename_i h _
    intro s hfr hstep
    refine ⟨frame_trans _ _ _ _ h.1 hfr, fun hr => ?_⟩
    obtain ⟨hb, hc⟩ := hstep hr
    have h3 := hc _ (h.2 hb)
    simp only [List.flatten_append, List.flatten_cons, List.flatten_nil, List.append_nil]
    exact h3
  · rename_i h _
    intro s hfr
    exact frame_trans _ _ _ _ h.1 hfr
  · rename_i h
    subst_vars
    exact ⟨h.1, fun _ => h.2⟩
  · rename_i h
    exact h.1
  · -- the rename went through
    rename_i s1 hinv _ s
    intro hp hdisj
    subst_vars
    have hpre1 : s1.pretend = false := by
      have := hinv.1.2
      simp_all
    have hcontent := hinv.2 (by simp_all)
    rcases hdisj with ⟨ht, _⟩ | ⟨_, hren⟩
    · rw [hpre1] at ht; cases ht
    · refine ⟨hp.trans hinv.1.2, Or.inr ⟨by rw [← hinv.1.2]; exact hpre1, ?_, ?_⟩⟩
      · exact rename_get_target _ _ _ _ _ hren (tmp_ne_root _) (under_cfg_tmp _ hF) hcontent
      · intro p h1 h2
        rw [rename_get_other _ _ _ _ p hren (tmp_ne_root _) h2 h1]
        exact hinv.1.1 p (by intro e; rw [e, under_self] at h2; cases h2)
  · -- the rename failed or was interrupted
    rename_i hinv _ s
    intro hfs hp
    exact ⟨fun p hp' => by rw [hfs]; exact hinv.1.1 p hp', hp.trans hinv.1.2⟩
  · simp
  · intro h
    subst_vars
    exact h

/-! ### rebase: the one rewriting command that touches nothing else -/

theorem rebaseLayer_spec (cfg : Config) (d : Defs) (name newbase : Bytes) (l : Layer) (w0 : World)
    (hl : findLayer d name = some l) :
    ⦃fun w => ⌜w = w0⌝⦄ rebaseLayer cfg d name newbase
    ⦃post⟨fun _ w => ⌜w.fs = w0.fs ∨ Written { l with base := newbase } w0 w⌝,
          fun _ w => ⌜Frame (tmpPath { l with base := newbase }) w0 w⌝⟩⦄ := by
  unfold rebaseLayer getL
  simp only [hl]
  mvcgen [testName, errorIfError, errorIfBusy, reorder, fail, writeLayerFile_spec]
  all_goals (try subst_vars)
  all_goals (try (exact frame_refl _ _))
  · rename_i h
    rcases h.2 with ⟨_, h2⟩ | ⟨_, h2⟩
    · exact Or.inl h2
    · exact Or.inr h2
  · intro h; exact h

/-- from a triple started in exactly `w0` to the run function -/
theorem extractBoth {α} (m : M α) (w0 : World) (Q : α → World → Prop) (E : World → Prop)
    (h : ⦃fun w => ⌜w = w0⌝⦄ m ⦃post⟨fun a w => ⌜Q a w⌝, fun _ w => ⌜E w⌝⟩⦄) :
    match (m.run.run w0).1 with
    | .ok a => Q a (m.run.run w0).2
    | .error _ => E (m.run.run w0).2 := by
  have h2 := h w0 rfl
  simp [wp] at h2
  generalize (StateT.run (ExceptT.run m) w0) = r at h2 ⊢
  obtain ⟨a, s⟩ := r
  cases a <;> exact h2

end Lc.Lemmas.WriteLF
