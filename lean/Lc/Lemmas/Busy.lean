/-
  Helper lemmas for Props/C04: the children list of rename, the user classification of
  ProbeAllLayerstate as a closed formula, trace-extension triples for unmount.
-/
import Lc.Lemmas.RunM
import Lc.Lemmas.Hoare
import Lc.Lemmas.Sort

namespace Lc.Busy
open Lc Lc.Mountinfo Lc.Layers Lc.RunM Lc.Hoare Std.Do

set_option mvcgen.warning false

theorem find?_and {α} (p q : α → Bool) (k : α) : ∀ (l : List α), l.find? q = some k → p k = true →
    l.find? (fun a => p a && q a) = some k := by
  intro l
  induction l with
  | nil => intro h; simp at h
  | cons x xs ih =>
    intro h hp
    rw [List.find?_cons] at h ⊢
    by_cases hq : q x = true
    · simp only [hq] at h
      cases h
      simp [hq, hp]
    · simp only [hq] at h
      simp [hq]
      exact ih h hp

theorem kids_any (d : Defs) (old : Bytes) (co : List Bytes) (k : Layer)
    (hk : findLayer d k.name = some k) (hkb : k.base = old) (hb : isBusy k true = true) :
    (((co.filterMap fun n => (d.layers.filter (·.base == old)).find? (·.name == n))
      ++ (d.layers.filter (·.base == old)).filter (fun k => !co.contains k.name)).any
        (fun k => isBusy k true)) = true := by
  rw [List.any_eq_true]
  refine ⟨k, ?_, hb⟩
  have hmem : k ∈ d.layers := List.mem_of_find?_eq_some hk
  rw [List.mem_append]
  by_cases hc : co.contains k.name = true
  · left
    rw [List.mem_filterMap]
    refine ⟨k.name, by simpa using hc, ?_⟩
    rw [List.find?_filter]
    unfold findLayer at hk
    have := find?_and (fun a => a.base == old) (fun a => a.name == k.name) k d.layers hk (by simp [hkb])
    refine Eq.trans (congrArg (fun f => List.find? f d.layers) (funext fun a => ?_)) this
    rw [Bool.eq_iff_iff]; simp
  · right
    simp only [List.mem_filter]
    exact ⟨⟨hmem, by simp [hkb]⟩, by simpa using hc⟩

/-! ### user classification -/

/-- one user against one of the three directories -/
def classifyStep (u : User) (l : Layer) (mp : Bytes) : Layer :=
  let l := if sameDirOrDesc u.file mp then { l with mountBusy := true }
           else { l with nonMountBusy := true }
  if u.usedAs == 0 then { l with chroot := true } else l

theorem classifyUsers_eq (cfg : Config) (l : Layer) (users : List User) :
    classifyUsers cfg l users =
      users.foldl (fun l u => [cfg.buildRoot, cfg.workdir, cfg.upperdir].foldl (classifyStep u) l) l := rfl

/-- what a classification step leaves alone -/
def SameRest (a b : Layer) : Prop :=
  a.name = b.name ∧ a.base = b.base ∧ a.cmounts = b.cmounts ∧ a.cexports = b.cexports ∧
  a.layerPath = b.layerPath ∧ a.state = b.state ∧ a.overlain = b.overlain ∧ a.mounts = b.mounts

theorem classifyStep_spec (u : User) (l : Layer) (mp : Bytes) :
    SameRest (classifyStep u l mp) l ∧
    (classifyStep u l mp).mountBusy = (l.mountBusy || sameDirOrDesc u.file mp) ∧
    (classifyStep u l mp).nonMountBusy = (l.nonMountBusy || !sameDirOrDesc u.file mp) := by
  unfold classifyStep SameRest
  by_cases h1 : sameDirOrDesc u.file mp = true <;> by_cases h2 : (u.usedAs == 0) = true <;> simp [h1, h2]

theorem classifyUser_spec (u : User) (dirs : List Bytes) (l : Layer) :
    SameRest (dirs.foldl (classifyStep u) l) l ∧
    (dirs.foldl (classifyStep u) l).mountBusy = (l.mountBusy || dirs.any (sameDirOrDesc u.file)) ∧
    (dirs.foldl (classifyStep u) l).nonMountBusy = (l.nonMountBusy || dirs.any (fun mp => !sameDirOrDesc u.file mp)) := by
  induction dirs generalizing l with
  | nil => simp [SameRest]
  | cons mp rest ih =>
    have h1 := classifyStep_spec u l mp
    have h2 := ih (classifyStep u l mp)
    simp only [List.foldl_cons, List.any_cons]
    refine ⟨?_, ?_, ?_⟩
    · unfold SameRest at *; simp_all
    · rw [h2.2.1, h1.2.1, Bool.or_assoc]
    · rw [h2.2.2, h1.2.2, Bool.or_assoc]

theorem classifyAll_spec (dirs : List Bytes) (users : List User) (l : Layer) :
    SameRest (users.foldl (fun l u => dirs.foldl (classifyStep u) l) l) l ∧
    (users.foldl (fun l u => dirs.foldl (classifyStep u) l) l).mountBusy =
      (l.mountBusy || users.any fun u => dirs.any (sameDirOrDesc u.file)) ∧
    (users.foldl (fun l u => dirs.foldl (classifyStep u) l) l).nonMountBusy =
      (l.nonMountBusy || users.any fun u => dirs.any (fun mp => !sameDirOrDesc u.file mp)) := by
  induction users generalizing l with
  | nil => simp [SameRest]
  | cons u rest ih =>
    have h1 := classifyUser_spec u dirs l
    have h2 := ih (dirs.foldl (classifyStep u) l)
    simp only [List.foldl_cons]
    refine ⟨?_, ?_, ?_⟩
    · unfold SameRest at *; simp_all
    · rw [h2.2.1, h1.2.1, List.any_cons, Bool.or_assoc]
    · rw [h2.2.2, h1.2.2, List.any_cons, Bool.or_assoc]

theorem classifyUsers_spec (cfg : Config) (users : List User) (l : Layer) :
    SameRest (classifyUsers cfg l users) l ∧
    (classifyUsers cfg l users).mountBusy =
      (l.mountBusy || users.any fun u => [cfg.buildRoot, cfg.workdir, cfg.upperdir].any (sameDirOrDesc u.file)) ∧
    (classifyUsers cfg l users).nonMountBusy =
      (l.nonMountBusy || users.any fun u => [cfg.buildRoot, cfg.workdir, cfg.upperdir].any (fun mp => !sameDirOrDesc u.file mp)) := by
  rw [classifyUsers_eq]
  exact classifyAll_spec _ users l

/-! ### unmount: the trace only grows, and starts with the deepest mount -/

/-- the trace only grows from `t0` -/
def TraceExt (t0 : List Op) (w : World) : Prop := t0 <+: w.trace

macro "ext_done" : tactic =>
  `(tactic| ((try intros) <;> simp_all +zetaDelta [TraceExt] <;>
      (try (first | done | exact List.IsPrefix.trans ‹_› (List.prefix_append _ _)))))

theorem fsUnmount_ext (t0 : List Op) (t : Bytes) : Holds (TraceExt t0) (fsUnmount t) := by
  unfold Holds
  mvcgen [fsUnmount, gate, getW, setW, fail, record]
  all_goals ext_done

theorem fsUnmount_first (w : World) (t : Bytes)
    (hp : w.pretend = false) (hc : w.crashAt ≠ some (w.nops + 1)) (hf : w.faultAt ≠ some (w.nops + 1)) :
    ⦃fun w' => ⌜w' = w⌝⦄ fsUnmount t
    ⦃post⟨fun _ w' => ⌜TraceExt (w.trace ++ [.umount t (if w.force then 1 else 0)]) w'⌝,
          fun _ w' => ⌜TraceExt (w.trace ++ [.umount t (if w.force then 1 else 0)]) w'⌝⟩⦄ := by
  mvcgen [fsUnmount, gate, getW, setW, fail, record]
  all_goals ext_done

theorem fsUnmount_step (w : World) (t m : Bytes)
    (hp : w.pretend = false) (hc : w.crashAt ≠ some (w.nops + 1)) (hf : w.faultAt ≠ some (w.nops + 1)) :
    ⦃fun w' => ⌜(w' = w ∧ t = m) ∨ TraceExt (w.trace ++ [.umount m (if w.force then 1 else 0)]) w'⌝⦄ fsUnmount t
    ⦃post⟨fun _ w' => ⌜TraceExt (w.trace ++ [.umount m (if w.force then 1 else 0)]) w'⌝,
          fun _ w' => ⌜TraceExt (w.trace ++ [.umount m (if w.force then 1 else 0)]) w'⌝⟩⦄ := by
  mvcgen [fsUnmount, gate, getW, setW, fail, record]
  all_goals (try intros)
  all_goals (rcases ‹(_ ∧ _) ∨ _› with ⟨rfl, rfl⟩ | h)
  all_goals ext_done

theorem unmount_first (cfg : Config) (d : Defs) (name : Bytes) (w : World) (l : Layer) (m : MountType)
    (hl : findLayer d name = some l) (hmb : l.mountBusy = false) (hov : l.overlain = false)
    (hm : l.mounts.getLast? = some m)
    (hp : w.pretend = false) (hc : w.crashAt ≠ some (w.nops + 1)) (hf : w.faultAt ≠ some (w.nops + 1)) :
    ⦃fun w' => ⌜w' = w⌝⦄ unmountLayer cfg d name
    ⦃post⟨fun _ w' => ⌜TraceExt (w.trace ++ [.umount m.mountpoint (if w.force then 1 else 0)]) w'⌝,
          fun _ w' => ⌜TraceExt (w.trace ++ [.umount m.mountpoint (if w.force then 1 else 0)]) w'⌝⟩⦄ := by
  have h1 := fun t => fsUnmount_step w t m.mountpoint hp hc hf
  mvcgen [unmountLayer, getL, refreshMountInfo, liftRes, getW, h1]
  case inv1 =>
    exact post⟨fun (c, _) w' => ⌜(c.prefix = [] ∧ w' = w) ∨ TraceExt (w.trace ++ [.umount m.mountpoint (if w.force then 1 else 0)]) w'⌝,
               fun _ w' => ⌜TraceExt (w.trace ++ [.umount m.mountpoint (if w.force then 1 else 0)]) w'⌝⟩
  all_goals (try intros)
  all_goals (simp_all +zetaDelta [isBusy])
  rename_i pref cur suff hrev _ _ _ _ _ h
  rcases h with ⟨rfl, rfl⟩ | h
  · left
    refine ⟨rfl, ?_⟩
    have : l.mounts = (cur :: suff).reverse := by
      subst hl; have := congrArg List.reverse hrev; simpa using this
    rw [this] at hm
    simp at hm
    rw [hm]
  · right; exact h
/-- a layer that is not busy for umount never yields the status "busy" -/
theorem unmount_status (cfg : Config) (d : Defs) (name : Bytes) (l : Layer)
    (hl : findLayer d name = some l) (hb : isBusy l false = false) :
    HoldsOk (fun _ => True) (fun r _ => r.1 ≠ UStatus.busy) (unmountLayer cfg d name) := by
  unfold HoldsOk
  mvcgen [unmountLayer, getL, fsUnmount, gate, getW, setW, fail, record, refreshMountInfo, liftRes]
  case inv1 => exact post⟨fun _ _ => ⌜True⌝, fun _ _ => ⌜True⌝⟩
  all_goals (try intros) <;> simp_all

/-- from a triple with a fixed start world to the run function -/
theorem extractFrom {α} (P : World → Prop) (m : M α) (w : World)
    (h : ⦃fun w' => ⌜w' = w⌝⦄ m ⦃post⟨fun _ w' => ⌜P w'⌝, fun _ w' => ⌜P w'⌝⟩⦄) :
    P (m.run.run w).2 := by
  have h2 := h w rfl
  simp [wp] at h2
  generalize (StateT.run (ExceptT.run m) w) = r at h2 ⊢
  obtain ⟨a, s⟩ := r
  cases a <;> exact h2

end Lc.Busy
