/-
  Trace reasoning for the command monad: what a function of the command model appends
  to `World.trace` (the operations it attempts on the environment).
  * bridge between `Std.Do` triples and the run function (`triple_of_run`, `run_of_triple`),
  * trace specifications of the primitives (`gate`, `record`, `sysMount`, `fsMount`,
    `fsUnmount`, `fsStep`, the queries),
  * `NoSys`: "no mount/umount operation" for the functions that only touch the file system,
  * `FoldOk`/`FoldErr`: the trace of a `foldlM` is the concatenation of the per-element
    segments, each produced from the accumulator the previous element returned.
  Helper lemmas for Props/C01 and Props/C03.
-/
import Lc.Lemmas.Hoare

namespace Lc.Trace
open Std.Do Lc Lc.Layers Lc.Hoare Lc.Mountinfo

set_option mvcgen.warning false

/-! ### triples and the run function -/

theorem triple_of_run {α} (m : M α) (P : World → Prop) (N : α → World → Prop) (E : Fault → World → Prop)
    (h : ∀ w, P w → match m.run.run w with
      | (.ok a, w') => N a w'
      | (.error e, w') => E e w') :
    ⦃fun w => ⌜P w⌝⦄ m ⦃post⟨fun a w => ⌜N a w⌝, fun e w => ⌜E e w⌝⟩⦄ := by
  intro w hw
  have := h w hw
  simp [wp]
  generalize (StateT.run (ExceptT.run m) w) = r at this ⊢
  obtain ⟨x, s⟩ := r
  cases x <;> exact this

theorem run_of_triple {α} (m : M α) (P : World → Prop) (N : α → World → Prop) (E : Fault → World → Prop)
    (h : ⦃fun w => ⌜P w⌝⦄ m ⦃post⟨fun a w => ⌜N a w⌝, fun e w => ⌜E e w⌝⟩⦄) (w : World) (hw : P w) :
    match m.run.run w with
      | (.ok a, w') => N a w'
      | (.error e, w') => E e w' := by
  have h2 := h w hw
  simp [wp] at h2
  generalize (StateT.run (ExceptT.run m) w) = r at h2 ⊢
  obtain ⟨x, s⟩ := r
  cases x <;> exact h2

theorem run_bind {α β} (m : M α) (f : α → M β) (w : World) :
    (m >>= f).run.run w = match m.run.run w with
      | (.ok a, w') => (f a).run.run w'
      | (.error e, w') => (.error e, w') := by
  simp [ExceptT.run_bind, StateT.run_bind]
  generalize (StateT.run (ExceptT.run m) w) = r
  obtain ⟨x, s⟩ := r
  cases x <;> rfl

theorem run_foldlM_cons {σ ι} (body : σ → ι → M σ) (b : σ) (x : ι) (xs : List ι) (w : World) :
    ((x :: xs).foldlM body b).run.run w = match (body b x).run.run w with
      | (.ok b', w') => (xs.foldlM body b').run.run w'
      | (.error e, w') => (.error e, w') := by
  rw [List.foldlM_cons, run_bind]

/-- the operations a run of `m` from `w` appended to the trace are `s` -/
def Emitted {α} (m : M α) (w : World) (s : List Op) : Prop := (m.run.run w).2.trace = w.trace ++ s

theorem Emitted.unique {α} {m : M α} {w : World} {s s' : List Op} (h : Emitted m w s) (h' : Emitted m w s') :
    s = s' := by
  unfold Emitted at h h'
  rw [h] at h'
  exact List.append_cancel_left h'

/-! ### kinds of operation -/

def isMountOp : Op → Bool
  | .mount .. => true
  | _ => false

def isUmountOp : Op → Bool
  | .umount .. => true
  | _ => false

/-- a mount(2) or umount(2) call -/
def isSys (op : Op) : Bool := isMountOp op || isUmountOp op

/-- no system call on the mount table among the operations -/
def NoSys (s : List Op) : Prop := ∀ op ∈ s, isSys op = false

theorem NoSys.nil : NoSys [] := by intro op h; cases h
theorem NoSys.append {a b : List Op} (ha : NoSys a) (hb : NoSys b) : NoSys (a ++ b) := by
  intro op h
  rcases List.mem_append.mp h with h | h
  · exact ha op h
  · exact hb op h

/-! ### primitives -/

theorem gate_silent (t : List Op) :
    ⦃fun w => ⌜w.trace = t⌝⦄ gate ⦃post⟨fun _ w => ⌜w.trace = t⌝, fun _ w => ⌜w.trace = t⌝⟩⦄ := by
  mvcgen [gate, getW, setW, fail]
  all_goals simp_all

theorem record_tr (op : Op) (t : List Op) :
    ⦃fun w => ⌜w.trace = t⌝⦄ record op
    ⦃post⟨fun _ w => ⌜w.trace = t ++ [op]⌝, fun _ w => ⌜w.trace = t ++ [op]⌝⟩⦄ := by
  unfold record
  mvcgen
  all_goals simp_all (config := { zetaDelta := true })

theorem sysMount_tr (a b c : Bytes) (fl : Nat) (e : Bytes) (t : List Op) :
    ⦃fun w => ⌜w.trace = t⌝⦄ sysMount a b c fl e
    ⦃post⟨fun _ w => ⌜w.trace = t ++ [.mount a b c fl e]⌝, fun _ w => ⌜w.trace = t ++ [.mount a b c fl e]⌝⟩⦄ := by
  mvcgen [sysMount, record_tr, getW, setW, fail]
  all_goals simp_all

/-- the flag word `fs.Mount` derives from the file-system type -/
def mountFlags (fstype : Bytes) : Nat :=
  if fstype == b!"bind" then Kernel.MS_BIND
  else if fstype == b!"rbind" then Kernel.MS_BIND + Kernel.MS_REC
  else if fstype == b!"remount" then Kernel.MS_REMOUNT
  else 0

/-- the structural mount call of `fs.Mount` -/
def mountOp (src tgt fstype opts : Bytes) : Op := .mount src tgt fstype (mountFlags fstype) opts
/-- the propagation call of `fs.Mount`: `mount("", tgt, "", MS_SLAVE|MS_REC, opts)` -/
def propOp (tgt opts : Bytes) : Op := .mount [] tgt [] (Kernel.MS_SLAVE + Kernel.MS_REC) opts
def needsSlave (src : Bytes) : Bool := src == b!"/dev" || src == b!"/sys" || src == b!"/run"

/-- everything a complete `fs.Mount` issues -/
def fsMountOps (src tgt fstype opts : Bytes) : List Op :=
  mountOp src tgt fstype opts :: (if needsSlave src then [propOp tgt opts] else [])

/-- a propagation call: empty source and flags `MS_SLAVE|MS_REC` -/
def isPropCall : Op → Bool
  | .mount src _ _ fl _ => src == [] && fl == Kernel.MS_SLAVE + Kernel.MS_REC
  | _ => false

theorem mountFlags_ne_slave (fstype : Bytes) : mountFlags fstype ≠ Kernel.MS_SLAVE + Kernel.MS_REC := by
  unfold mountFlags
  split
  · decide
  · split
    · decide
    · split <;> decide

theorem mountOp_not_prop (src tgt fstype opts : Bytes) : isPropCall (mountOp src tgt fstype opts) = false := by
  have := mountFlags_ne_slave fstype
  simp [isPropCall, mountOp, this]

theorem propOp_is_prop (tgt opts : Bytes) : isPropCall (propOp tgt opts) = true := by
  simp [isPropCall, propOp]

theorem fsMount_emits (src tgt fstype opts : Bytes) (t : List Op) :
    ⦃fun w => ⌜w.trace = t⌝⦄ fsMount src tgt fstype opts
    ⦃post⟨fun _ w => ⌜∃ s, w.trace = t ++ s ∧ (s = [] ∨ s = fsMountOps src tgt fstype opts)⌝,
          fun _ w => ⌜∃ s, w.trace = t ++ s ∧ ∃ s', s ++ s' = fsMountOps src tgt fstype opts⌝⟩⦄ := by
  mvcgen [fsMount, gate_silent, sysMount_tr]
  all_goals (try intros)
  all_goals simp_all (config := { zetaDelta := true }) [fsMountOps, needsSlave, mountOp, mountFlags, propOp]

theorem fsStep_emits (op : Op) (f) (t : List Op) :
    ⦃fun w => ⌜w.trace = t⌝⦄ fsStep op f
    ⦃post⟨fun _ w => ⌜∃ s, w.trace = t ++ s ∧ (s = [] ∨ s = [op])⌝,
          fun _ w => ⌜∃ s, w.trace = t ++ s ∧ (s = [] ∨ s = [op])⌝⟩⦄ := by
  mvcgen [fsStep, gate_silent, record_tr, getW, setW, fail]
  all_goals (try intros)
  all_goals simp_all (config := { zetaDelta := true })

theorem fsMkdir_emits (p : Bytes) (t : List Op) :
    ⦃fun w => ⌜w.trace = t⌝⦄ fsMkdir p
    ⦃post⟨fun _ w => ⌜∃ s, w.trace = t ++ s ∧ (s = [] ∨ s = [Op.mkdir p])⌝,
          fun _ w => ⌜∃ s, w.trace = t ++ s ∧ (s = [] ∨ s = [Op.mkdir p])⌝⟩⦄ :=
  fsStep_emits _ _ t

theorem fsUnmount_emits (tgt : Bytes) (t : List Op) :
    ⦃fun w => ⌜w.trace = t⌝⦄ fsUnmount tgt
    ⦃post⟨fun _ w => ⌜∃ s, w.trace = t ++ s ∧ (s = [] ∨ ∃ fl, s = [Op.umount tgt fl])⌝,
          fun _ w => ⌜∃ s, w.trace = t ++ s ∧ (s = [] ∨ ∃ fl, s = [Op.umount tgt fl])⌝⟩⦄ := by
  mvcgen [fsUnmount, gate_silent, record_tr, getW, setW, fail]
  all_goals (try intros)
  all_goals simp_all (config := { zetaDelta := true })

theorem fExists_silent (p : Bytes) (t : List Op) :
    ⦃fun w => ⌜w.trace = t⌝⦄ fExists p ⦃post⟨fun _ w => ⌜w.trace = t⌝, fun _ w => ⌜w.trace = t⌝⟩⦄ := by
  mvcgen [fExists, getW]
theorem fIsDir_silent (p : Bytes) (t : List Op) :
    ⦃fun w => ⌜w.trace = t⌝⦄ fIsDir p ⦃post⟨fun _ w => ⌜w.trace = t⌝, fun _ w => ⌜w.trace = t⌝⟩⦄ := by
  mvcgen [fIsDir, getW]
theorem fIsSymlink_silent (p : Bytes) (t : List Op) :
    ⦃fun w => ⌜w.trace = t⌝⦄ fIsSymlink p ⦃post⟨fun _ w => ⌜w.trace = t⌝, fun _ w => ⌜w.trace = t⌝⟩⦄ := by
  mvcgen [fIsSymlink, getW]

theorem getL_spec (d : Defs) (n : Bytes) (t : List Op) :
    ⦃fun w => ⌜w.trace = t⌝⦄ getL d n
    ⦃post⟨fun l w => ⌜w.trace = t ∧ findLayer d n = some l⌝,
          fun _ w => ⌜w.trace = t ∧ findLayer d n = none⌝⟩⦄ := by
  unfold getL
  split <;> mvcgen
  all_goals simp_all

theorem liftRes_spec {α} (r : Res α) (t : List Op) :
    ⦃fun w => ⌜w.trace = t⌝⦄ liftRes r
    ⦃post⟨fun a w => ⌜w.trace = t ∧ r = .ok a⌝, fun _ w => ⌜w.trace = t⌝⟩⦄ := by
  unfold liftRes
  split <;> mvcgen
  all_goals simp_all

theorem refreshMountInfo_silent (cfg : Config) (d : Defs) (t : List Op) :
    ⦃fun w => ⌜w.trace = t⌝⦄ refreshMountInfo cfg d
    ⦃post⟨fun _ w => ⌜w.trace = t⌝, fun _ w => ⌜w.trace = t⌝⟩⦄ := by
  mvcgen [refreshMountInfo, getW, liftRes_spec]
  all_goals simp_all

theorem testName_silent (d : Defs) (tests) (t : List Op) :
    ⦃fun w => ⌜w.trace = t⌝⦄ testName d tests
    ⦃post⟨fun _ w => ⌜w.trace = t⌝, fun _ w => ⌜w.trace = t⌝⟩⦄ := by
  unfold testName
  split <;> mvcgen [fail]

theorem errorIfError_silent (l : Layer) (t : List Op) :
    ⦃fun w => ⌜w.trace = t⌝⦄ errorIfError l
    ⦃post⟨fun _ w => ⌜w.trace = t⌝, fun _ w => ⌜w.trace = t⌝⟩⦄ := by
  unfold errorIfError
  split <;> mvcgen [fail]

/-! ### functions that only touch the file system -/

/-- `m` appends only file-system operations (both exits) -/
abbrev FsOnly {α} (m : M α) (t : List Op) : Prop :=
  ⦃fun w => ⌜w.trace = t⌝⦄ m
  ⦃post⟨fun _ w => ⌜∃ s, w.trace = t ++ s ∧ NoSys s⌝, fun _ w => ⌜∃ s, w.trace = t ++ s ∧ NoSys s⌝⟩⦄

theorem NoSys.single {op : Op} (h : isSys op = false) : NoSys [op] := by
  intro o ho
  simp at ho
  rw [ho]; exact h

/-- closing a `NoSys` goal from `∃ s, trace = … ++ s ∧ …` hypotheses -/
theorem nosys_step {t tr1 tr2 : List Op} {op : Op} (hop : isSys op = false)
    (h1 : ∃ s, tr1 = t ++ s ∧ NoSys s) (h2 : ∃ s, tr2 = tr1 ++ s ∧ (s = [] ∨ s = [op])) :
    ∃ s, tr2 = t ++ s ∧ NoSys s := by
  obtain ⟨s1, e1, n1⟩ := h1
  obtain ⟨s2, e2, n2⟩ := h2
  refine ⟨s1 ++ s2, by rw [e2, e1, List.append_assoc], NoSys.append n1 ?_⟩
  rcases n2 with n2 | n2
  · rw [n2]; exact NoSys.nil
  · rw [n2]; exact NoSys.single hop

theorem nosys_trans {t tr1 tr2 : List Op}
    (h1 : ∃ s, tr1 = t ++ s ∧ NoSys s) (h2 : ∃ s, tr2 = tr1 ++ s ∧ NoSys s) :
    ∃ s, tr2 = t ++ s ∧ NoSys s := by
  obtain ⟨s1, e1, n1⟩ := h1
  obtain ⟨s2, e2, n2⟩ := h2
  exact ⟨s1 ++ s2, by rw [e2, e1, List.append_assoc], NoSys.append n1 n2⟩

theorem nosys_refl (t : List Op) : ∃ s, t = t ++ s ∧ NoSys s := ⟨[], by simp, NoSys.nil⟩

theorem fsStep_fsonly (op : Op) (hop : isSys op = false) (f) (t : List Op) : FsOnly (fsStep op f) t := by
  have h := fsStep_emits op f
  unfold FsOnly
  mvcgen [h]
  all_goals (try intros)
  all_goals (rename_i hh; obtain ⟨s, e, hs⟩ := hh; refine ⟨s, by simp_all, ?_⟩;
             rcases hs with hs | hs <;> rw [hs]; exact NoSys.nil; exact NoSys.single hop)

theorem fsMkdir_fsonly (p : Bytes) (t : List Op) : FsOnly (fsMkdir p) t := fsStep_fsonly _ rfl _ t
theorem fsSymlink_fsonly (a b : Bytes) (t : List Op) : FsOnly (fsSymlink a b) t := fsStep_fsonly _ rfl _ t

/-! ### the trace of a fold -/

section fold
variable {σ ι : Type}

/-- all elements processed: concatenation of the segments, the accumulator threaded;
    `Seg b x seg b'`: element `x` run with accumulator `b` issued `seg` and returned `b'` -/
inductive FoldOk (Seg : σ → ι → List Op → σ → Prop) : σ → List ι → List Op → σ → Prop
  | nil (b : σ) : FoldOk Seg b [] [] b
  | cons {b b' b'' x xs seg s} : Seg b x seg b' → FoldOk Seg b' xs s b'' →
      FoldOk Seg b (x :: xs) (seg ++ s) b''

/-- the fold stopped with an error at some element: complete segments, then one cut short -/
inductive FoldErr (Seg : σ → ι → List Op → σ → Prop) (SegE : σ → ι → List Op → Prop) :
    σ → List ι → List Op → Prop
  | here {b x xs seg} : SegE b x seg → FoldErr Seg SegE b (x :: xs) seg
  | later {b b' x xs seg s} : Seg b x seg b' → FoldErr Seg SegE b' xs s →
      FoldErr Seg SegE b (x :: xs) (seg ++ s)

theorem foldlM_segments (Inv : World → Prop) (Seg : σ → ι → List Op → σ → Prop)
    (SegE : σ → ι → List Op → Prop) (body : σ → ι → M σ)
    (hstep : ∀ b x w, Inv w → ∃ s, ((body b x).run.run w).2.trace = w.trace ++ s ∧
      Inv ((body b x).run.run w).2 ∧
      (∀ b', ((body b x).run.run w).1 = .ok b' → Seg b x s b') ∧
      (∀ e, ((body b x).run.run w).1 = .error e → SegE b x s))
    (xs : List ι) : ∀ (b : σ) (w : World), Inv w →
      ∃ s, ((xs.foldlM body b).run.run w).2.trace = w.trace ++ s ∧
      Inv ((xs.foldlM body b).run.run w).2 ∧
      (∀ b', ((xs.foldlM body b).run.run w).1 = .ok b' → FoldOk Seg b xs s b') ∧
      (∀ e, ((xs.foldlM body b).run.run w).1 = .error e → FoldErr Seg SegE b xs s) := by
  induction xs with
  | nil =>
    intro b w hw
    have hnil : (([] : List ι).foldlM body b).run.run w = (.ok b, w) := rfl
    rw [hnil]
    refine ⟨[], by simp, hw, ?_, ?_⟩
    · intro b' h; cases h; exact FoldOk.nil b
    · intro e h; cases h
  | cons x xs ih =>
    intro b w hw
    obtain ⟨s1, ht1, hi1, h1, h1e⟩ := hstep b x w hw
    rw [run_foldlM_cons]
    generalize hr : (body b x).run.run w = r at ht1 hi1 h1 h1e
    obtain ⟨res, w1⟩ := r
    cases res with
    | error e =>
      refine ⟨s1, ht1, hi1, ?_, ?_⟩
      · intro b' h; cases h
      · intro e' _; exact FoldErr.here (h1e e rfl)
    | ok b1 =>
      obtain ⟨s2, ht2, hi2, h2, h2e⟩ := ih b1 w1 hi1
      have hb := h1 b1 rfl
      refine ⟨s1 ++ s2, ?_, hi2, ?_, ?_⟩
      · show ((xs.foldlM body b1).run.run w1).2.trace = _
        rw [ht2]
        simp only at ht1
        rw [ht1, List.append_assoc]
      · intro b' h
        exact FoldOk.cons hb (h2 b' h)
      · intro e h
        exact FoldErr.later hb (h2e e h)

end fold

end Lc.Trace
