/-
  From the specification's protection conditions (`Spec.World.protectedL`,
  `mountedAtOrBelow`, `overlain`, `mountBusy`, `unmountBlocked` on an installation) to the
  flags `ProbeAllLayerstate` leaves in the record of a layer: the installation a world shows
  (`instOf`), the record of a layer after the probe when layer names are distinct
  (`probeAll_record`: the round of the layer ran exactly once, on the record `FindLayers` +
  `refreshMountInfo` made), the flags of that record (`probeLayer_flags`), and their reading
  on the kernel table through a `MountsView`.  Helper lemmas for Props/C04 section 6.
-/
import Lc.Lemmas.ProbeAllSpec
import Lc.Lemmas.KernelWF
import Lc.Lemmas.Busy
import Lc.Lemmas.TreeOrder

namespace Lc.StateProbe
open Lc Lc.Layers Lc.Mountinfo Lc.Layerfile Lc.Spec.World Lc.RunM Lc.Forest

/-- the installation a world shows: configuration, tree, kernel mount table (what the
    oracle's `instOf` / `worldOf` pair) -/
def instOf (cfg : Config) (w : World) : Inst := ⟨cfg, w.fs, w.kt.mnts⟩

/-! ### `FindLayers` and the layers the specification lists -/

/-- a layer the specification lists is in the table of a successful `FindLayers`, as the
    record `layerOfFile` makes of its layerconfig -/
theorem findLayers_lists (cfg : Config) (w w' : World) (d0 : Defs)
    (h : (findLayers cfg).run.run w = (.ok d0, w')) (n : Bytes) (dl : DLayer)
    (hd : findD (diskLayers (instOf cfg w)) n = some dl) :
    w' = w ∧ findLayer d0 n = some (layerOfFile cfg dl.name dl.file) ∧ dl.name = n ∧ n ∈ d0.order := by
  obtain ⟨hw, hlay, hperm, -, -, -⟩ := findLayers_run cfg w w' d0 h
  have hc0 : (readLayerFiles cfg w.fs (Fs.children w.fs cfg.layerdirs)).find? (·.name == n)
      = some (layerOfFile cfg dl.name dl.file) :=
    read_find_conv (instOf cfg w) (Fs.children w.fs cfg.layerdirs) n dl hd
  have hf : findLayer d0 n = some (layerOfFile cfg dl.name dl.file) := by
    unfold findLayer; rw [hlay]; exact hc0
  have hnm : dl.name = n := findD_name _ n dl hd
  refine ⟨hw, hf, hnm, ?_⟩
  apply hperm.mem_iff.mpr
  exact List.mem_map.mpr ⟨_, List.mem_of_find?_eq_some hf, by show dl.name = n; exact hnm⟩

/-- distinct layer names on disk give a duplicate-free order list -/
theorem order_nodup_of_disk (cfg : Config) (w w' : World) (d0 : Defs)
    (h : (findLayers cfg).run.run w = (.ok d0, w'))
    (hnd : ((diskLayers (instOf cfg w)).map (·.name)).Nodup) : d0.order.Nodup := by
  obtain ⟨-, hlay, -, -, hno, -⟩ := findLayers_run cfg w w' d0 h
  refine Lc.Props.C02.order_nodup _ _ hno ?_
  rw [hlay]
  have := read_names (instOf cfg w) (Fs.children w.fs cfg.layerdirs)
  rw [show (instOf cfg w).cfg = cfg from rfl, show (instOf cfg w).fs = w.fs from rfl] at this
  rw [this]
  exact hnd

/-! ### the record of a layer after the probe -/

theorem foldlM_append_run (cfg : Config) (inuse : List (Bytes × List User)) (fs : Fs.Tree)
    (pre post : List Bytes) (d0 d : Defs) (w w' : World)
    (h : ((pre ++ post).foldlM (probeStep cfg inuse fs) d0).run.run w = (.ok d, w')) :
    ∃ d1 w1, (pre.foldlM (probeStep cfg inuse fs) d0).run.run w = (.ok d1, w1) ∧
      (post.foldlM (probeStep cfg inuse fs) d1).run.run w1 = (.ok d, w') := by
  rw [List.foldlM_append, run_bind] at h
  cases hp : (pre.foldlM (probeStep cfg inuse fs) d0).run.run w with
  | mk r w1 =>
    rw [hp] at h
    cases r with
    | error e => cases h
    | ok d1 => exact ⟨d1, w1, rfl, h⟩

/-- **The record of a layer after `ProbeAllLayerstate`**, when the order list has no
    duplicates: the layer's round ran exactly once, on the record the table had at the start
    (with `Overlain` as `refreshMountInfo` sets it); for a layer that entered in the error
    state the round recorded mounts and processes and kept the state (fix e3cb7aa). -/
theorem probeAll_record (cfg : Config) (inuse : List (Bytes × List User)) (d0 d : Defs) (w w' : World)
    (hrun : (probeAll cfg inuse d0).run.run w = (.ok d, w')) (hnd : d0.order.Nodup)
    (x : Bytes) (hx : x ∈ d0.order) (l0 : Layer) (hl0 : findLayer d0 x = some l0) :
    w' = w ∧ ∃ m, Kernel.probe w.kt = .ok m ∧ d.mounts = m ∧
      (l0.state = S_error → ∃ dk, dk.mounts = m ∧
        findLayer d x = some (probeErr cfg inuse dk x
          { l0 with overlain := (overlayLowerdirs m).contains (buildPath cfg l0) })) ∧
      (l0.state ≠ S_error → ∃ dk l, dk.mounts = m ∧
        probeLayer cfg inuse w.fs dk x
          { l0 with overlain := (overlayLowerdirs m).contains (buildPath cfg l0) } = .ok l ∧
        findLayer d x = some l) := by
  obtain ⟨m, hm, hloop⟩ := probeAll_run cfg inuse d0 d w w' hrun
  obtain ⟨pre, post, hsplit⟩ := List.append_of_mem hx
  have hxpre : x ∉ pre := by
    intro hmem
    rw [hsplit] at hnd
    exact (List.nodup_append.mp hnd).2.2 x hmem x (by simp) rfl
  have hxpost : x ∉ post := by
    rw [hsplit] at hnd
    exact (List.nodup_cons.mp (List.nodup_append.mp hnd).2.1).1
  generalize hd0' : ({ d0 with mounts := m, layers := d0.layers.map fun l =>
      { l with overlain := (overlayLowerdirs m).contains (buildPath cfg l) } } : Defs) = d0' at hloop
  have hm0 : d0'.mounts = m := by subst hd0'; rfl
  have hf0 : findLayer d0' x
      = some { l0 with overlain := (overlayLowerdirs m).contains (buildPath cfg l0) } := by
    subst hd0'
    exact Lc.Probe.find?_map_overlain d0.layers _ x l0 hl0
  rw [hsplit] at hloop
  obtain ⟨d1, w1, hpre, hrest⟩ := foldlM_append_run cfg inuse w.fs pre (x :: post) d0' d w w' hloop
  obtain ⟨hw1, -, hm1, hout1, -⟩ := probeLoop_inv cfg inuse w.fs (fun _ _ => True)
    (fun _ _ _ _ _ _ _ => trivial) (fun _ _ _ _ _ => trivial) (fun _ _ _ _ _ _ => trivial)
    pre d0' d1 w w1 hpre
  rw [hw1] at hrest
  have hf1 : findLayer d1 x
      = some { l0 with overlain := (overlayLowerdirs m).contains (buildPath cfg l0) } := by
    rw [hout1 x hxpre]; exact hf0
  -- the round of `x`
  simp only [List.foldlM_cons] at hrest
  rw [run_bind, probeStep_run_eq, hf1] at hrest
  simp only [] at hrest
  have post_inv : ∀ d2 w2, (post.foldlM (probeStep cfg inuse w.fs) d2).run.run w2 = (.ok d, w') →
      w' = w2 ∧ d.mounts = d2.mounts ∧ findLayer d x = findLayer d2 x := by
    intro d2 w2 h2
    obtain ⟨a, -, b, c, -⟩ := probeLoop_inv cfg inuse w.fs (fun _ _ => True)
      (fun _ _ _ _ _ _ _ => trivial) (fun _ _ _ _ _ => trivial) (fun _ _ _ _ _ _ => trivial)
      post d2 d w2 w' h2
    exact ⟨a, b, c x hxpost⟩
  by_cases hs : l0.state = S_error
  · have hs' : ((({ l0 with overlain := (overlayLowerdirs m).contains (buildPath cfg l0) } : Layer).state
        == S_error) = true) := by simp [hs]
    simp only [hs', ↓reduceIte] at hrest
    obtain ⟨a, b, c⟩ := post_inv _ w hrest
    have hn1 : (probeErr cfg inuse d1 x
        { l0 with overlain := (overlayLowerdirs m).contains (buildPath cfg l0) }).name = x := by
      have h1 : (probeErr cfg inuse d1 x
          { l0 with overlain := (overlayLowerdirs m).contains (buildPath cfg l0) }).name = l0.name :=
        (probeErr_key cfg inuse d1 x
          { l0 with overlain := (overlayLowerdirs m).contains (buildPath cfg l0) }).1
      have h2 : l0.name = x :=
        findLayer_name d1 x { l0 with overlain := (overlayLowerdirs m).contains (buildPath cfg l0) } hf1
      exact h1.trans h2
    have hfl : findLayer d1 (probeErr cfg inuse d1 x
        { l0 with overlain := (overlayLowerdirs m).contains (buildPath cfg l0) }).name
        = some { l0 with overlain := (overlayLowerdirs m).contains (buildPath cfg l0) } := by
      rw [hn1]; exact hf1
    have hset := findLayer_setLayer d1 _ _ hfl
    rw [hn1] at hset
    exact ⟨a, m, hm, b.trans (hm1.trans hm0), fun _ => ⟨d1, hm1.trans hm0, c.trans hset⟩,
      fun h => absurd hs h⟩
  · have hs' : ((({ l0 with overlain := (overlayLowerdirs m).contains (buildPath cfg l0) } : Layer).state
        == S_error) = false) := by simpa using hs
    simp only [hs', Bool.false_eq_true, ↓reduceIte] at hrest
    cases hp : probeLayer cfg inuse w.fs d1 x
        { l0 with overlain := (overlayLowerdirs m).contains (buildPath cfg l0) } with
    | error e => rw [hp] at hrest; cases hrest
    | ok l1 =>
      rw [hp] at hrest
      simp only [] at hrest
      obtain ⟨a, b, c⟩ := post_inv _ w hrest
      have hn1 : l1.name = x := by
        have := (probeLayer_key cfg inuse w.fs d1 x _ l1 hp).1
        exact this.trans (findLayer_name d1 x _ hf1)
      have hfl : findLayer d1 l1.name
          = some { l0 with overlain := (overlayLowerdirs m).contains (buildPath cfg l0) } := by
        rw [hn1]; exact hf1
      have hset := findLayer_setLayer d1 _ l1 hfl
      rw [hn1] at hset
      refine ⟨a, m, hm, b.trans (hm1.trans hm0), fun h => absurd h hs, fun _ => ⟨d1, l1, hm1.trans hm0, hp, c.trans hset⟩⟩

/-- the flags a round leaves in the record -/
theorem probeLayer_flags (cfg : Config) (inuse : List (Bytes × List User)) (fs : Fs.Tree) (d : Defs)
    (name : Bytes) (l0 l : Layer) (h : probeLayer cfg inuse fs d name l0 = .ok l) :
    l.mounts = getMountAndSubmounts d.mounts (buildPath cfg l0) ∧
    l.mountBusy = (l0.mountBusy || (usersOf inuse name).any fun u =>
      [cfg.buildRoot, cfg.workdir, cfg.upperdir].any (sameDirOrDesc u.file)) ∧
    l.nonMountBusy = (l0.nonMountBusy || (usersOf inuse name).any fun u =>
      [cfg.buildRoot, cfg.workdir, cfg.upperdir].any (fun mp => !sameDirOrDesc u.file mp)) ∧
    l.overlain = l0.overlain ∧ l.name = l0.name ∧ l.base = l0.base := by
  have hkey := probeLayer_key cfg inuse fs d name l0 l h
  unfold probeLayer at h
  simp only [] at h
  obtain ⟨hr, hmb, hnb⟩ := Lc.Busy.classifyUsers_spec cfg (usersOf inuse name)
    ({ l0 with mounts := getMountAndSubmounts d.mounts (buildPath cfg l0) } : Layer)
  generalize classifyUsers cfg _ _ = lu at h hr hmb hnb
  unfold Lc.Busy.SameRest at hr
  obtain ⟨-, -, -, -, r5, -, r7, r8⟩ := hr
  have r5' : lu.layerPath = l0.layerPath := r5
  have r7' : lu.overlain = l0.overlain := r7
  have r8' : lu.mounts = getMountAndSubmounts d.mounts (buildPath cfg l0) := r8
  have hmb' : lu.mountBusy = (l0.mountBusy || _) := hmb
  have hnb' : lu.nonMountBusy = (l0.nonMountBusy || _) := hnb
  split at h
  · cases h; exact ⟨r8', hmb', hnb', r7', hkey.1, hkey.2.1⟩
  · split at h
    · cases h; exact ⟨r8', hmb', hnb', r7', hkey.1, hkey.2.1⟩
    · obtain ⟨-, -, a3, a4, a5, a6⟩ := Lc.Probe.findLayerstate_fields cfg fs d _ l h
      simp only at a3 a4 a5 a6
      refine ⟨?_, a3.trans hmb', a4.trans hnb', a5.trans r7', hkey.1, hkey.2.1⟩
      rw [a6]
      unfold buildPath
      simp only [r5']

/-- the flags the round of a layer in the error state leaves (fix e3cb7aa): the same, the
    state kept -/
theorem probeErr_flags (cfg : Config) (inuse : List (Bytes × List User)) (d : Defs) (name : Bytes) (l0 : Layer) :
    (probeErr cfg inuse d name l0).mounts = getMountAndSubmounts d.mounts (buildPath cfg l0) ∧
    (probeErr cfg inuse d name l0).mountBusy = (l0.mountBusy || (usersOf inuse name).any fun u =>
      [cfg.buildRoot, cfg.workdir, cfg.upperdir].any (sameDirOrDesc u.file)) ∧
    (probeErr cfg inuse d name l0).nonMountBusy = (l0.nonMountBusy || (usersOf inuse name).any fun u =>
      [cfg.buildRoot, cfg.workdir, cfg.upperdir].any (fun mp => !sameDirOrDesc u.file mp)) ∧
    (probeErr cfg inuse d name l0).overlain = l0.overlain ∧ (probeErr cfg inuse d name l0).name = l0.name ∧
    (probeErr cfg inuse d name l0).base = l0.base ∧ (probeErr cfg inuse d name l0).state = l0.state := by
  obtain ⟨hr, hmb, hnb⟩ := Lc.Busy.classifyUsers_spec cfg (usersOf inuse name)
    ({ l0 with mounts := getMountAndSubmounts d.mounts (buildPath cfg l0) } : Layer)
  unfold Lc.Busy.SameRest at hr
  obtain ⟨r1, r2, -, -, -, r6, r7, r8⟩ := hr
  exact ⟨r8, hmb, hnb, r7, r1, r2, r6⟩

/-! ### reading the flags on the kernel table -/

/-- the manual's "the directory or below it" implies the code's SameDirectoryOrDescendant
    (for any directory name; the converse needs a name that does not end in '/') -/
theorem sameDirOrDesc_of_inDirOrBelow (path pre : Bytes) (h : inDirOrBelow path pre = true) :
    sameDirOrDesc path pre = true := by
  unfold sameDirOrDesc
  unfold inDirOrBelow at h
  rw [← prefix_boundary] at h
  simp only [Bool.and_eq_true, Bool.or_eq_true] at h ⊢
  refine ⟨h.1, ?_⟩
  rcases h.2 with h2 | h2
  · exact Or.inl (Or.inr h2)
  · exact Or.inr h2

/-- what the probe's process classification computes for `MountBusy` -/
def modelMountBusy (cfg : Config) (users : List (Bytes × List User)) (n : Bytes) : Bool :=
  (usersOf users n).any fun u => [cfg.buildRoot, cfg.workdir, cfg.upperdir].any (sameDirOrDesc u.file)

/-- a process working in the build, work or upper directory (the manual's reading) sets
    `MountBusy`, whatever the directory names look like -/
theorem modelMountBusy_of_spec (cfg : Config) (users : List (Bytes × List User)) (n : Bytes) (w : World)
    (h : mountBusy (instOf cfg w) users n = true) : modelMountBusy cfg users n = true := by
  unfold mountBusy at h
  unfold modelMountBusy
  rw [List.any_eq_true] at h ⊢
  obtain ⟨u, hu, hb⟩ := h
  refine ⟨u, hu, ?_⟩
  simp only [List.any_cons, List.any_nil, Bool.or_false, Bool.or_eq_true] at hb ⊢
  rcases hb with (hb | hb) | hb
  · exact Or.inl (sameDirOrDesc_of_inDirOrBelow _ _ hb)
  · exact Or.inr (Or.inl (sameDirOrDesc_of_inDirOrBelow _ _ hb))
  · exact Or.inr (Or.inr (sameDirOrDesc_of_inDirOrBelow _ _ hb))

/-- … and exactly those, when the three directory names do not end in '/' -/
theorem modelMountBusy_eq_spec (cfg : Config) (users : List (Bytes × List User)) (n : Bytes) (w : World)
    (hb : cfg.buildRoot.getLast? ≠ some 47) (hw : cfg.workdir.getLast? ≠ some 47)
    (hu : cfg.upperdir.getLast? ≠ some 47) :
    modelMountBusy cfg users n = mountBusy (instOf cfg w) users n := by
  unfold modelMountBusy mountBusy
  have : usersOf users n = Spec.World.usersOf users n := rfl
  rw [this]
  congr 1
  funext u
  simp only [List.any_cons, List.any_nil, Bool.or_false]
  rw [sameDirOrDesc_eq _ _ hb, sameDirOrDesc_eq _ _ hw, sameDirOrDesc_eq _ _ hu, Bool.or_assoc]
  rfl

/-- the build root of the record `FindLayers` makes is the installation's build directory -/
theorem buildPath_layerOfFile (cfg : Config) (w : World) (n : Bytes) (lf : LayerFile) :
    buildPath cfg (layerOfFile cfg n lf) = buildDir (instOf cfg w) n := rfl

/-- "a mount at or below `bd`": the probed mount list is not empty iff the kernel table has one -/
theorem mounts_nonempty_view {mnts : List Kernel.KMnt} {m : Mounts} (hv : MountsView mnts m) (bd : Bytes) :
    (getMountAndSubmounts m bd).length > 0 ↔ mnts.any (fun k => atOrBelow bd k.mp) = true := by
  have h := submounts_of_view hv bd
  constructor
  · intro hl
    rw [← h]
    simpa using hl
  · intro ha
    rw [ha] at h
    simpa using h

/-- the kernel table of a printable world parses, with a view -/
theorem world_view (w : World) (hk : ∀ k ∈ w.kt.mnts, Lc.KernelWF.KWF k) :
    ∃ m, Kernel.probe w.kt = .ok m ∧ MountsView w.kt.mnts m :=
  probe_view w.kt (fun k hk' => Lc.KernelWF.toSpec_wf k (hk k hk'))

/-- the specification lists only legal layer names -/
theorem diskLayers_legal (i : Inst) (dl : DLayer) (h : dl ∈ diskLayers i) : isLegalLayerName dl.name = true := by
  unfold diskLayers at h
  rw [List.mem_filterMap] at h
  obtain ⟨n, -, hn⟩ := h
  split at hn
  · cases hn
  · rename_i hl
    split at hn
    · cases hn
      simpa using hl
    · cases hn

/-- with distinct names every listed layer is the one found under its name -/
theorem findD_of_mem (ls : List DLayer) (hnd : (ls.map (·.name)).Nodup) (dl : DLayer) (h : dl ∈ ls) :
    findD ls dl.name = some dl := by
  unfold findD
  induction ls with
  | nil => cases h
  | cons x xs ih =>
    simp only [List.map_cons, List.nodup_cons] at hnd
    rw [List.find?_cons]
    rcases List.mem_cons.mp h with rfl | hm
    · simp
    · have hne : (x.name == dl.name) = false := by
        simp only [beq_eq_false_iff_ne, ne_eq]
        intro e
        exact hnd.1 (List.mem_map.mpr ⟨dl, hm, e.symm⟩)
      rw [hne]
      exact ih hnd.2 hm

/-- a direct child per `childrenOf` is a listed layer whose base is the parent -/
theorem childrenOf_mem (ls : List DLayer) (n kn : Bytes) (h : kn ∈ childrenOf ls n) :
    ∃ dk ∈ ls, dk.name = kn ∧ dk.file.base = n := by
  unfold childrenOf at h
  obtain ⟨dk, hdk, rfl⟩ := List.mem_map.mp h
  rw [List.mem_filter] at hdk
  exact ⟨dk, hdk.1, rfl, by simpa using hdk.2⟩

/-- **The record of a listed layer after `FindLayers` + `ProbeAllLayerstate`**, read on the
    installation (distinct layer names, printable kernel table): name and base are the
    layerconfig's, `Overlain` is the specification's; the record lists exactly the mounts at
    or below the layer's build root, has `MountBusy` as the process classification computes
    it, and a process flag whenever a process is attributed to the layer — for EVERY listed
    layer since fix e3cb7aa; a layer whose layerconfig had messages is in the error state. -/
theorem getLayers_record (cfg : Config) (users : List (Bytes × List User)) (w w' : World) (d0 d : Defs)
    (hk : ∀ k ∈ w.kt.mnts, Lc.KernelWF.KWF k)
    (hnd : ((diskLayers (instOf cfg w)).map (·.name)).Nodup)
    (hfl : (findLayers cfg).run.run w = (.ok d0, w))
    (hpa : (probeAll cfg users d0).run.run w = (.ok d, w'))
    (n : Bytes) (dl : DLayer) (hd : findD (diskLayers (instOf cfg w)) n = some dl) :
    w' = w ∧ ∃ l, findLayer d n = some l ∧ l.name = n ∧ l.base = dl.file.base ∧
      l.overlain = overlain (instOf cfg w) n ∧
      (dl.file.nmsgs > 0 → l.state = S_error) ∧
      (l.mounts.length > 0 ↔ mountedAtOrBelow (instOf cfg w) n = true) ∧
      l.mountBusy = modelMountBusy cfg users n ∧
      (usersOf users n ≠ [] → l.mountBusy = true ∨ l.nonMountBusy = true) ∧
      (∀ x ∈ l.mounts, atOrBelow (buildDir (instOf cfg w) n) x.mountpoint = true) := by
  obtain ⟨-, hl0, hnm, hord⟩ := findLayers_lists cfg w w d0 hfl n dl hd
  have hndo := order_nodup_of_disk cfg w w d0 hfl hnd
  obtain ⟨hw, m, hm, hdm, herr, hok⟩ := probeAll_record cfg users d0 d w w' hpa hndo n hord _ hl0
  obtain ⟨m', hm', hv⟩ := world_view w hk
  rw [hm] at hm'
  cases hm'
  rw [hnm] at herr hok hl0
  have hbp : buildPath cfg (layerOfFile cfg n dl.file) = buildDir (instOf cfg w) n := rfl
  have hovl : (overlayLowerdirs m).contains (buildPath cfg (layerOfFile cfg n dl.file))
      = overlain (instOf cfg w) n := by
    rw [overlain_of_view w.kt.mnts m hv, hbp]; rfl
  refine ⟨hw, ?_⟩
  -- both kinds of round leave the same flags
  have key : ∀ l : Layer,
      l.mounts = getMountAndSubmounts m (buildDir (instOf cfg w) n) →
      l.mountBusy = (false || (usersOf users n).any fun u =>
        [cfg.buildRoot, cfg.workdir, cfg.upperdir].any (sameDirOrDesc u.file)) →
      l.nonMountBusy = (false || (usersOf users n).any fun u =>
        [cfg.buildRoot, cfg.workdir, cfg.upperdir].any (fun mp => !sameDirOrDesc u.file mp)) →
      (l.mounts.length > 0 ↔ mountedAtOrBelow (instOf cfg w) n = true) ∧
      l.mountBusy = modelMountBusy cfg users n ∧
      (usersOf users n ≠ [] → l.mountBusy = true ∨ l.nonMountBusy = true) ∧
      (∀ x ∈ l.mounts, atOrBelow (buildDir (instOf cfg w) n) x.mountpoint = true) := by
    intro l f1 f2 f3
    refine ⟨?_, ?_, ?_, ?_⟩
    · rw [f1]
      exact mounts_nonempty_view hv _
    · rw [f2, Bool.false_or]
      rfl
    · intro hu
      rw [f2, f3]
      cases hus : usersOf users n with
      | nil => exact absurd hus hu
      | cons u rest =>
        by_cases hsd : sameDirOrDesc u.file cfg.buildRoot = true
        · left; simp [hsd]
        · right; simp [hsd]
    · intro x hx
      rw [f1] at hx
      have := (Lc.TreeOrder.mem_getMountAndSubmounts m _ x).mp hx
      unfold atOrBelow
      rcases this.2 with h | h
      · simp [h]
      · simp [h]
  by_cases hmsg : dl.file.nmsgs > 0
  · have hs : (layerOfFile cfg n dl.file).state = S_error := by simp [layerOfFile, hmsg]
    obtain ⟨dk, hdk, hfl'⟩ := herr hs
    obtain ⟨f1, f2, f3, f4, f5, f6, f7⟩ := probeErr_flags cfg users dk n
      { layerOfFile cfg n dl.file with
        overlain := (overlayLowerdirs m).contains (buildPath cfg (layerOfFile cfg n dl.file)) }
    rw [hdk] at f1
    refine ⟨_, hfl', f5, f6, f4.trans hovl, fun _ => f7.trans hs, key _ f1 f2 f3⟩
  · have hs : (layerOfFile cfg n dl.file).state ≠ S_error := by
      simp [layerOfFile, hmsg, S_empty, S_error]
    obtain ⟨dk, l, hdk, hp, hfl'⟩ := hok hs
    obtain ⟨f1, f2, f3, f4, f5, f6⟩ := probeLayer_flags cfg users w.fs dk n _ l hp
    rw [hdk] at f1
    exact ⟨l, hfl', f5, f6, f4.trans hovl, fun h => absurd h hmsg, key l f1 f2 f3⟩

end Lc.StateProbe
