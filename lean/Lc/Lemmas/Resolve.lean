/-
  Helper lemmas for C05: one generic invariant lemma over the resolver's mutual recursion.
  Core Lean only.
-/
import Lc.Model.Resolve
import Lc.Spec.Closure

namespace Lc.Resolve
open Lc.Spec.Closure

/-- the state right after `ia.Added = true; Resolution.Add(ia)` -/
def mark (st : St) (ia : Pkg) : St :=
  { st with added := ia.id :: st.added, res := st.res.add ia }

section Inv
variable (db : Db) (recur : Pkg → St → R St)
variable (I : St → Prop) (G : Pkg → Prop) (E : Err → Prop)

/-- what the generic lemma needs: `E` accepts the two genuine error classes, marking a
    package `Blocked` keeps `I`, and a call of `recur` (findDependencies) from a state
    satisfying `I`, on a freshly marked package satisfying `G`, ends in `I` / `E` -/
structure Hyps : Prop where
  eUnsat : E .unsat
  eBlocked : E .blocked
  block : ∀ st c, I st → st.added.contains c = false → I { st with blocked := c :: st.blocked }
  recur : ∀ st ia, I st → G ia → st.added.contains ia.id = false →
    st.blocked.contains ia.id = false →
    match recur ia (mark st ia) with
    | .ok st' => I st'
    | .error e => E e

def Post (r : R (St × List Pkg)) : Prop :=
  match r with
  | .ok (st', rs') => I st' ∧ ∀ x ∈ rs', G x
  | .error e => E e

def PostS (r : R St) : Prop :=
  match r with
  | .ok st' => I st'
  | .error e => E e

variable {db recur I G E}

theorem blockLoop_inv (h : Hyps recur I G E) (cands : List Pkg) (st : St) (hI : I st) :
    PostS I E (blockLoop cands st) := by
  induction cands generalizing st with
  | nil => simpa [blockLoop, PostS] using hI
  | cons c rest ih =>
    unfold blockLoop
    split
    · exact h.eBlocked
    · rename_i hc
      exact ih _ (h.block st c.id hI (by simpa using hc))

theorem resolveAtom_inv (h : Hyps recur I G E) (cond : Bool) (a : DAtom) (st : St)
    (rs : List Pkg) (hI : I st) (hrs : ∀ x ∈ rs, G x)
    (hc : a.blocker = false → ∀ x ∈ candidates db a, G x) :
    Post I G E (resolveAtom db cond a st rs) := by
  unfold resolveAtom
  by_cases hb : a.blocker = true
  · simp only [hb, if_true]
    have := blockLoop_inv h (candidates db a) st hI
    unfold PostS at this
    split
    · rename_i e he; rw [he] at this; exact this
    · rename_i st' he; rw [he] at this; exact ⟨this, hrs⟩
  · have hb' : a.blocker = false := by simpa using hb
    simp only [hb', Bool.false_eq_true, ↓reduceIte]
    by_cases he : (candidates db a).isEmpty = true
    · by_cases hcnd : cond = true
      · simp only [he, hcnd, ↓reduceIte, Bool.not_true, Bool.false_eq_true]
        exact ⟨hI, hrs⟩
      · have : cond = false := by simpa using hcnd
        simp only [he, this, ↓reduceIte, Bool.not_false]
        exact h.eUnsat
    · simp only [he, ↓reduceIte, Bool.false_eq_true]
      refine ⟨hI, ?_⟩
      intro x hx
      rcases List.mem_append.mp hx with hx | hx
      · exact hrs x hx
      · exact hc hb' x hx

theorem postLoop_inv (h : Hyps recur I G E) (cond : Bool) (rs : List Pkg) (st : St)
    (hI : I st) (hrs : ∀ x ∈ rs, G x) : PostS I E (postLoop recur cond rs st) := by
  induction rs generalizing st with
  | nil => simpa [postLoop, PostS] using hI
  | cons ia rest ih =>
    have hrest : ∀ x ∈ rest, G x := fun x hx => hrs x (List.mem_cons_of_mem _ hx)
    unfold postLoop
    split
    · exact h.eBlocked
    · rename_i hbl
      split
      · exact ih st hI hrest
      · rename_i hadd
        have hadd' : st.added.contains ia.id = false := by
          cases hc : st.added.contains ia.id <;> simp_all
        have hbl' : st.blocked.contains ia.id = false := by simpa using hbl
        have hr := h.recur st ia hI (hrs ia (List.mem_cons_self ..)) hadd' hbl'
        unfold mark at hr
        split
        · rename_i e he; rw [he] at hr; exact hr
        · rename_i st2 he; rw [he] at hr; exact ih st2 hr hrest

theorem post_error {e : Err} (he : E e) : Post I G E (.error e) := he

mutual
theorem resolveKids_inv (h : Hyps recur I G E) (use : List Flag) (cond : Bool) (ds : DepList)
    (st : St) (rs : List Pkg) (hI : I st) (hrs : ∀ x ∈ rs, G x)
    (hc : ∀ a ∈ activeAtomsL use ds, a.blocker = false → ∀ x ∈ candidates db a, G x) :
    Post I G E (resolveKids db recur use cond ds st rs) := by
  match ds with
  | .nil => unfold resolveKids; exact ⟨hI, hrs⟩
  | .cons d rest =>
    unfold resolveKids
    have hd := resolveDep_inv h use cond d st rs hI hrs (fun a ha => hc a (by
      unfold activeAtomsL; exact List.mem_append_left _ ha))
    cases hr : resolveDep db recur use cond d st rs with
    | error e => rw [hr] at hd; exact hd
    | ok v =>
      obtain ⟨st1, rs1⟩ := v
      rw [hr] at hd
      exact resolveKids_inv h use cond rest st1 rs1 hd.1 hd.2 (fun a ha => hc a (by
        unfold activeAtomsL; exact List.mem_append_right _ ha))
theorem resolveDep_inv (h : Hyps recur I G E) (use : List Flag) (cond : Bool) (d : Dep)
    (st : St) (rs : List Pkg) (hI : I st) (hrs : ∀ x ∈ rs, G x)
    (hc : ∀ a ∈ activeAtomsD use d, a.blocker = false → ∀ x ∈ candidates db a, G x) :
    Post I G E (resolveDep db recur use cond d st rs) := by
  match d with
  | .atom a =>
    unfold resolveDep
    exact resolveAtom_inv h cond a st rs hI hrs (fun hb => hc a (by unfold activeAtomsD; simp) hb)
  | .group k ds =>
    have hsub : ∀ (c : Bool) (st0 : St) (rs0 : List Pkg), isActive use k = true → I st0 →
        (∀ x ∈ rs0, G x) → Post I G E (resolveKids db recur use c ds st0 rs0) := by
      intro c st0 rs0 hact hI0 hrs0
      exact resolveKids_inv h use c ds st0 rs0 hI0 hrs0 (fun a ha => hc a (by
        unfold activeAtomsD; simp only [hact, if_true]; exact ha))
    have hchoice : isActive use k = true →
        Post I G E (match resolveKids db recur use true ds st [] with
          | .error e => .error e
          | .ok (st1, sub) =>
            let (minNeeded, maxNeeded) := needs k ds.length
            if sub.length < minNeeded then .error .unsat
            else .ok (st1, rs ++ sub.take maxNeeded)) := by
      intro hact
      have hk := hsub true st [] hact hI (by simp)
      cases hr : resolveKids db recur use true ds st [] with
      | error e => rw [hr] at hk; exact hk
      | ok v =>
        obtain ⟨st1, sub⟩ := v
        rw [hr] at hk
        simp only
        split
        · exact h.eUnsat
        · refine ⟨hk.1, ?_⟩
          intro x hx
          rcases List.mem_append.mp hx with hx | hx
          · exact hrs x hx
          · exact hk.2 x (List.mem_of_mem_take hx)
    cases k with
    | all =>
      unfold resolveDep
      have hk := hsub cond st rs rfl hI hrs
      cases hr : resolveKids db recur use cond ds st rs with
      | error e => rw [hr] at hk; exact hk
      | ok v =>
        obtain ⟨st1, rs1⟩ := v
        rw [hr] at hk
        have hp := postLoop_inv h cond rs1 st1 hk.1 hk.2
        simp only
        cases hq : postLoop recur cond rs1 st1 with
        | error e => rw [hq] at hp; exact hp
        | ok st2 => rw [hq] at hp; exact ⟨hp, hk.2⟩
    | useSet f =>
      unfold resolveDep
      by_cases hf : use.contains f = true
      · simp only [hf, if_true]
        exact hsub cond st rs (by simpa [isActive] using hf) hI hrs
      · simp only [hf]
        exact ⟨hI, hrs⟩
    | useUnset f =>
      unfold resolveDep
      by_cases hf : use.contains f = true
      · simp only [hf, Bool.not_true, Bool.false_eq_true, if_false]
        exact ⟨hI, hrs⟩
      · have hf' : use.contains f = false := by simpa using hf
        simp only [hf', Bool.not_false, if_true]
        exact hsub cond st rs (by show (!use.contains f) = true; rw [hf']; rfl) hI hrs
    | anyOf => unfold resolveDep; exact hchoice rfl
    | exactlyOne => unfold resolveDep; exact hchoice rfl
    | atMostOne => unfold resolveDep; exact hchoice rfl
end

theorem resolveTop_inv (h : Hyps recur I G E) (use : List Flag) (ds : DepList) (st : St)
    (hI : I st)
    (hc : ∀ a ∈ activeAtomsL use ds, a.blocker = false → ∀ x ∈ candidates db a, G x) :
    PostS I E (resolveTop db recur use ds st) := by
  unfold resolveTop
  have hk := resolveKids_inv h use false ds st [] hI (by simp) hc
  cases hr : resolveKids db recur use false ds st [] with
  | error e => rw [hr] at hk; exact hk
  | ok v =>
    obtain ⟨st1, rs1⟩ := v
    rw [hr] at hk
    exact postLoop_inv h false rs1 st1 hk.1 hk.2

end Inv

/-! ### a second `recur` that agrees with the first wherever the first does not run out of
    fuel gives the same result wherever the first run does not run out of fuel -/

section Ext
variable {db : Db} {r1 r2 : Pkg → St → R St}

def Extends (r1 r2 : Pkg → St → R St) : Prop :=
  ∀ p st, r1 p st ≠ .error .fuel → r2 p st = r1 p st

theorem postLoop_ext (h : Extends r1 r2) (cond : Bool) (rs : List Pkg) (st : St)
    (hn : postLoop r1 cond rs st ≠ .error .fuel) :
    postLoop r2 cond rs st = postLoop r1 cond rs st := by
  induction rs generalizing st with
  | nil => simp [postLoop]
  | cons ia rest ih =>
    unfold postLoop at hn ⊢
    split
    · rfl
    · split
      · rename_i h1 h2
        simp only [h1, h2, if_true, Bool.false_eq_true, if_false] at hn
        exact ih st hn
      · rename_i h1 h2
        simp only [h1, h2, Bool.false_eq_true, if_false] at hn
        cases hr : r1 ia { st with added := ia.id :: st.added, res := st.res.add ia } with
        | error e =>
          rw [hr] at hn
          have : e ≠ .fuel := fun he => hn (by rw [he])
          rw [h ia _ (by rw [hr]; intro hc; cases hc; exact this rfl), hr]
        | ok st2 =>
          rw [hr] at hn
          rw [h ia _ (by rw [hr]; intro hc; cases hc), hr]
          exact ih st2 hn

mutual
theorem resolveKids_ext (h : Extends r1 r2) (use : List Flag) (cond : Bool) (ds : DepList)
    (st : St) (rs : List Pkg) (hn : resolveKids db r1 use cond ds st rs ≠ .error .fuel) :
    resolveKids db r2 use cond ds st rs = resolveKids db r1 use cond ds st rs := by
  match ds with
  | .nil => unfold resolveKids; rfl
  | .cons d rest =>
    unfold resolveKids at hn ⊢
    cases hr : resolveDep db r1 use cond d st rs with
    | error e =>
      rw [hr] at hn
      rw [resolveDep_ext h use cond d st rs (by rw [hr]; exact hn), hr]
    | ok v =>
      obtain ⟨st1, rs1⟩ := v
      rw [hr] at hn
      rw [resolveDep_ext h use cond d st rs (by rw [hr]; intro hc; cases hc), hr]
      exact resolveKids_ext h use cond rest st1 rs1 hn
theorem resolveDep_ext (h : Extends r1 r2) (use : List Flag) (cond : Bool) (d : Dep)
    (st : St) (rs : List Pkg) (hn : resolveDep db r1 use cond d st rs ≠ .error .fuel) :
    resolveDep db r2 use cond d st rs = resolveDep db r1 use cond d st rs := by
  match d with
  | .atom a => unfold resolveDep; rfl
  | .group k ds =>
    have hchoice : ∀ (hn' : (match resolveKids db r1 use true ds st [] with
          | .error e => (.error e : R (St × List Pkg))
          | .ok (st1, sub) =>
            let (minNeeded, maxNeeded) := needs k ds.length
            if sub.length < minNeeded then .error .unsat
            else .ok (st1, rs ++ sub.take maxNeeded)) ≠ .error .fuel),
        (match resolveKids db r2 use true ds st [] with
          | .error e => (.error e : R (St × List Pkg))
          | .ok (st1, sub) =>
            let (minNeeded, maxNeeded) := needs k ds.length
            if sub.length < minNeeded then .error .unsat
            else .ok (st1, rs ++ sub.take maxNeeded)) =
        (match resolveKids db r1 use true ds st [] with
          | .error e => (.error e : R (St × List Pkg))
          | .ok (st1, sub) =>
            let (minNeeded, maxNeeded) := needs k ds.length
            if sub.length < minNeeded then .error .unsat
            else .ok (st1, rs ++ sub.take maxNeeded)) := by
      intro hn'
      cases hr : resolveKids db r1 use true ds st [] with
      | error e =>
        rw [hr] at hn'
        rw [resolveKids_ext h use true ds st [] (by rw [hr]; exact hn'), hr]
      | ok v =>
        rw [resolveKids_ext h use true ds st [] (by rw [hr]; intro hc; cases hc), hr]
    cases k with
    | all =>
      unfold resolveDep at hn ⊢
      cases hr : resolveKids db r1 use cond ds st rs with
      | error e =>
        rw [hr] at hn
        rw [resolveKids_ext h use cond ds st rs (by rw [hr]; exact hn), hr]
      | ok v =>
        obtain ⟨st1, rs1⟩ := v
        rw [hr] at hn
        rw [resolveKids_ext h use cond ds st rs (by rw [hr]; intro hc; cases hc), hr]
        simp only at hn ⊢
        cases hq : postLoop r1 cond rs1 st1 with
        | error e =>
          rw [hq] at hn
          simp only at hn
          rw [postLoop_ext h cond rs1 st1 (by rw [hq]; intro hc; cases hc; exact hn rfl), hq]
        | ok st2 =>
          rw [postLoop_ext h cond rs1 st1 (by rw [hq]; intro hc; cases hc), hq]
    | useSet f =>
      unfold resolveDep at hn ⊢
      by_cases hf : use.contains f = true
      · simp only [hf, if_true] at hn ⊢
        exact resolveKids_ext h use cond ds st rs hn
      · have hf' : use.contains f = false := by simpa using hf
        simp only [hf', Bool.false_eq_true, if_false]
    | useUnset f =>
      unfold resolveDep at hn ⊢
      by_cases hf : (!use.contains f) = true
      · simp only [hf, if_true] at hn ⊢
        exact resolveKids_ext h use cond ds st rs hn
      · have hf' : (!use.contains f) = false := by simpa using hf
        simp only [hf', Bool.false_eq_true, if_false]
    | anyOf => unfold resolveDep at hn ⊢; exact hchoice hn
    | exactlyOne => unfold resolveDep at hn ⊢; exact hchoice hn
    | atMostOne => unfold resolveDep at hn ⊢; exact hchoice hn
end

theorem resolveTop_ext (h : Extends r1 r2) (use : List Flag) (ds : DepList) (st : St)
    (hn : resolveTop db r1 use ds st ≠ .error .fuel) :
    resolveTop db r2 use ds st = resolveTop db r1 use ds st := by
  unfold resolveTop at hn ⊢
  cases hr : resolveKids db r1 use false ds st [] with
  | error e =>
    rw [hr] at hn
    simp only at hn
    rw [resolveKids_ext h use false ds st [] (by rw [hr]; intro hc; cases hc; exact hn rfl), hr]
  | ok v =>
    obtain ⟨st1, rs1⟩ := v
    rw [hr] at hn
    rw [resolveKids_ext h use false ds st [] (by rw [hr]; intro hc; cases hc), hr]
    exact postLoop_ext h false rs1 st1 hn

end Ext

end Lc.Resolve
