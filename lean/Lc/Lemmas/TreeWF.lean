/-
  A representation invariant of the file-system model: `TreeWF fs` — no path occurs twice
  and every path is clean and absolute (what the header of `Lc/Model/Fs.lean` promises).
  Every primitive of `Lc/Model/Fs.lean` the commands use keeps it when it is handed clean
  absolute paths; under it a directory listing (`Fs.children`) has no name twice.
  Helper lemmas for Props/C02.  Core Lean only.
-/
import Lc.Lemmas.InLayers
import Lc.Lemmas.FsMove
import Lc.Lemmas.FsMkdir

namespace Lc.TreeWF
open Lc Lc.Fs Lc.Lemmas.Path Lc.ExportPath Lc.InLayers Lc.FsRename

/-! ### clean absolute paths -/

/-- `p` is what `path.Clean` leaves alone and starts with '/' -/
def CleanAbs (p : Bytes) : Prop := pathClean p = p ∧ isAbs p = true

instance (p : Bytes) : Decidable (CleanAbs p) := inferInstanceAs (Decidable (_ ∧ _))

theorem cleanAbs_absPath (cs : List Bytes) (h : ∀ c ∈ cs, CleanName c) : CleanAbs (absPath cs) :=
  ⟨pathClean_absPath cs h, rfl⟩

theorem cleanAbs_comps (p : Bytes) (h : CleanAbs p) :
    ∃ cs, (∀ c ∈ cs, CleanName c) ∧ p = absPath cs := cleanAbs_shape p h.1 h.2

theorem absPath_nil : absPath [] = [47] := rfl

/-- a path with at least one component: everything before the last one, a slash, the last -/
theorem absPath_snoc (cs : List Bytes) (c : Bytes) :
    ∃ X, absPath (cs ++ [c]) = X ++ SLASH :: c ∧ (cs ≠ [] → X = absPath cs) ∧ (cs = [] → X = []) := by
  cases cs with
  | nil => exact ⟨[], rfl, fun h => absurd rfl h, fun _ => rfl⟩
  | cons d ds =>
    refine ⟨absPath (d :: ds), ?_, fun _ => rfl, fun h => by cases h⟩
    rw [absPath_append (d :: ds) [c] (by simp) (by simp)]
    rfl

/-- what precedes the last slash of a path with the components `pre ++ [c]` -/
def pfx (pre : List Bytes) : Bytes := if pre = [] then [] else absPath pre

theorem absPath_snoc_eq (pre : List Bytes) (c : Bytes) : absPath (pre ++ [c]) = pfx pre ++ SLASH :: c := by
  obtain ⟨X, hX, h1, h2⟩ := absPath_snoc pre c
  rw [hX]
  unfold pfx
  by_cases hp : pre = []
  · rw [if_pos hp, h2 hp]
  · rw [if_neg hp, h1 hp]

theorem absPath_ne_root (cs : List Bytes) (h : ∀ c ∈ cs, CleanName c) (hne : cs ≠ []) :
    absPath cs ≠ [47] := by
  intro e
  have : absPath cs = absPath [] := e
  exact hne (absPath_inj cs [] h (by simp) this)

theorem dropWhile_id {α} (p : α → Bool) (l : List α) (h : ∀ x, l.head? = some x → p x = false) :
    l.dropWhile p = l := by
  cases l with
  | nil => rfl
  | cons x xs => simp [List.dropWhile, h x rfl]

theorem pathBase_snoc (cs : List Bytes) (c : Bytes) (hc : CleanName c) :
    pathBase (absPath (cs ++ [c])) = c := by
  obtain ⟨X, hX, _, _⟩ := absPath_snoc cs c
  have hslash : SLASH ∉ c := hc.1.2.2
  have hne : c ≠ [] := hc.1.1
  rw [hX]
  unfold pathBase
  have h1 : (X ++ SLASH :: c).isEmpty = false := by simp
  simp only [h1, Bool.false_eq_true, if_false]
  -- no trailing slash to strip
  have hstrip : ((X ++ SLASH :: c).reverse.dropWhile (· == SLASH)).reverse = X ++ SLASH :: c := by
    rw [dropWhile_id]
    · simp
    · intro x hx
      have hr : (X ++ SLASH :: c).reverse = c.reverse ++ (SLASH :: X.reverse) := by simp
      rw [hr] at hx
      cases hcr : c.reverse with
      | nil => simp at hcr; exact absurd hcr hne
      | cons y ys =>
        rw [hcr] at hx
        simp at hx
        have hy : y ∈ c := by
          have : y ∈ c.reverse := by rw [hcr]; simp
          simpa using this
        have : x ≠ SLASH := by rw [← hx]; intro e; exact hslash (e ▸ hy)
        simpa using this
  rw [hstrip, lastSlashSplit_snoc X c hslash]
  cases c with
  | nil => exact absurd rfl hne
  | cons x xs => simp

theorem pathDir_snoc' (cs : List Bytes) (c : Bytes) (h : ∀ x ∈ cs, CleanName x) (hc : CleanName c) :
    pathDir (absPath (cs ++ [c])) = absPath cs :=
  pathDir_snoc cs c (by
    intro x hx
    rcases List.mem_append.mp hx with hx | hx
    · exact h x hx
    · simp at hx; rw [hx]; exact hc)

/-- `under` on clean absolute paths: the components of the first are a prefix of those of
    the second -/
theorem under_absPath (ds cs : List Bytes) (hd : ∀ c ∈ ds, CleanName c) (hc : ∀ c ∈ cs, CleanName c) :
    under (absPath ds) (absPath cs) = true ↔ ds <+: cs := by
  cases hds : ds with
  | nil =>
    constructor
    · intro _; exact List.nil_prefix
    · intro _
      unfold under
      simp only [absPath_nil, beq_self_eq_true, if_true]
      cases cs with
      | nil => simp [absPath_nil]
      | cons x xs => simp [absPath, hasPrefix, SLASH]
  | cons d ds' =>
    have hne : d :: ds' ≠ [] := by simp
    have hd' : ∀ c ∈ d :: ds', CleanName c := hds ▸ hd
    have hroot := absPath_ne_root (d :: ds') hd' hne
    have hb : (absPath (d :: ds') == [47]) = false := by simpa using hroot
    unfold under
    rw [hb]
    simp only [Bool.false_eq_true, if_false]
    exact atOrBelow_iff (d :: ds') cs hd' hc hne

/-! ### the invariant -/

/-- the paths of a tree -/
abbrev keys (fs : Tree) : List Bytes := fs.map (·.1)

/-- **well-formed tree**: no path twice; every path clean and absolute; with every path other
    than "/" its parent (`path.Dir`) is present -/
def TreeWF (fs : Tree) : Prop :=
  (keys fs).Nodup ∧ (∀ e ∈ fs, CleanAbs e.1) ∧ (∀ e ∈ fs, e.1 ≠ [47] → pathDir e.1 ∈ keys fs)

instance (fs : Tree) : Decidable (TreeWF fs) := inferInstanceAs (Decidable (_ ∧ _ ∧ _))

theorem treeWF_nil : TreeWF [] :=
  ⟨List.nodup_nil, fun _ h => absurd h List.not_mem_nil, fun _ h => absurd h List.not_mem_nil⟩

theorem get_some_key (fs : Tree) (p : Bytes) (n : Node) (h : Fs.get fs p = some n) : (p, n) ∈ fs := by
  unfold Fs.get at h
  split at h
  · rename_i e he
    have hm := List.mem_of_find?_eq_some he
    have hp := List.find?_some he
    simp only [beq_iff_eq] at hp
    cases h
    rw [← hp]; exact hm
  · cases h

theorem present_iff (fs : Tree) (p : Bytes) : (Fs.get fs p).isSome = true ↔ p ∈ keys fs := by
  constructor
  · intro h
    obtain ⟨e, he, e1⟩ := get_isSome_mem fs p h
    exact List.mem_map.mpr ⟨e, he, e1⟩
  · intro h
    cases hg : Fs.get fs p with
    | some n => rfl
    | none =>
      obtain ⟨e, he, e1⟩ := List.mem_map.mp h
      exact absurd e1 ((ExportFs.get_eq_none_iff fs p).mp hg e he)

/-- a path that is present is clean and absolute -/
theorem key_clean {fs : Tree} (h : TreeWF fs) (p : Bytes) (hp : p ∈ keys fs) : CleanAbs p := by
  obtain ⟨e, he, e1⟩ := List.mem_map.mp hp
  rw [← e1]; exact h.2.1 e he

theorem key_parent {fs : Tree} (h : TreeWF fs) (p : Bytes) (hp : p ∈ keys fs) (hne : p ≠ [47]) :
    pathDir p ∈ keys fs := by
  obtain ⟨e, he, e1⟩ := List.mem_map.mp hp
  rw [← e1]; exact h.2.2 e he (by rw [e1]; exact hne)

/-- what `stat` finds starts at a path that is present -/
theorem stat_some_key (fs : Tree) (p : Bytes) (x : Node) (h : stat fs p = some x) : p ∈ keys fs := by
  unfold stat statAux at h
  cases hg : Fs.get fs p with
  | none => rw [hg] at h; cases h
  | some n => exact (present_iff fs p).mp (by rw [hg]; rfl)

theorem isDir_key (fs : Tree) (p : Bytes) (h : isDir fs p = true) : p ∈ keys fs :=
  stat_some_key fs p .dir ((isDir_iff fs p).mp h)

theorem any_key_iff (fs : Tree) (p : Bytes) : fs.any (·.1 == p) = true ↔ p ∈ keys fs := by
  simp only [List.any_eq_true, beq_iff_eq, List.mem_map]

theorem keys_map_replace (fs : Tree) (p : Bytes) (n : Node) :
    keys (fs.map (fun e => if e.1 == p then (p, n) else e)) = keys fs := by
  unfold keys
  rw [List.map_map]
  apply List.map_congr_left
  intro e _
  simp only [Function.comp]
  split
  · rename_i h; simp at h; exact h.symm
  · rfl

/-- `set` on a path that is present keeps the list of paths -/
theorem keys_set_present (fs : Tree) (p : Bytes) (n : Node) (h : p ∈ keys fs) :
    keys (Fs.set fs p n) = keys fs := by
  unfold Fs.set
  rw [if_pos ((any_key_iff fs p).mpr h)]
  exact keys_map_replace fs p n

theorem keys_set_absent (fs : Tree) (p : Bytes) (n : Node) (h : p ∉ keys fs) :
    keys (Fs.set fs p n) = keys fs ++ [p] := by
  unfold Fs.set
  have : ¬ fs.any (·.1 == p) = true := fun hh => h ((any_key_iff fs p).mp hh)
  rw [if_neg this]
  simp [keys]

/-- well-formedness is a property of the list of paths -/
theorem treeWF_iff_keys (fs : Tree) :
    TreeWF fs ↔ (keys fs).Nodup ∧ (∀ k ∈ keys fs, CleanAbs k) ∧ (∀ k ∈ keys fs, k ≠ [47] → pathDir k ∈ keys fs) := by
  unfold TreeWF
  constructor
  · rintro ⟨h1, h2, h3⟩
    refine ⟨h1, ?_, ?_⟩
    · intro k hk; obtain ⟨e, he, e1⟩ := List.mem_map.mp hk; rw [← e1]; exact h2 e he
    · intro k hk hne; obtain ⟨e, he, e1⟩ := List.mem_map.mp hk; rw [← e1]; exact h3 e he (by rw [e1]; exact hne)
  · rintro ⟨h1, h2, h3⟩
    exact ⟨h1, fun e he => h2 e.1 (List.mem_map.mpr ⟨e, he, rfl⟩),
      fun e he hne => h3 e.1 (List.mem_map.mpr ⟨e, he, rfl⟩) hne⟩

/-- a tree with the same paths is as well-formed -/
theorem treeWF_of_keys {fs fs' : Tree} (h : TreeWF fs) (hk : keys fs' = keys fs) : TreeWF fs' := by
  rw [treeWF_iff_keys] at h ⊢
  rw [hk]; exact h

/-- **set**: a clean absolute path whose parent is present (or "/", or a path already present) -/
theorem set_wf {fs : Tree} (h : TreeWF fs) (p : Bytes) (n : Node) (hp : CleanAbs p)
    (hpar : p = [47] ∨ pathDir p ∈ keys fs) : TreeWF (Fs.set fs p n) := by
  by_cases hm : p ∈ keys fs
  · exact treeWF_of_keys h (keys_set_present fs p n hm)
  · rw [treeWF_iff_keys] at h ⊢
    obtain ⟨h1, h2, h3⟩ := h
    rw [keys_set_absent fs p n hm]
    refine ⟨?_, ?_, ?_⟩
    · rw [List.nodup_append]
      refine ⟨h1, by simp, ?_⟩
      intro a ha b hb e
      simp at hb
      rw [e, hb] at ha
      exact hm ha
    · intro k hk
      rcases List.mem_append.mp hk with hk | hk
      · exact h2 k hk
      · simp at hk; rw [hk]; exact hp
    · intro k hk hne
      rcases List.mem_append.mp hk with hk | hk
      · exact List.mem_append_left _ (h3 k hk hne)
      · simp at hk
        rw [hk] at hne ⊢
        rcases hpar with e | e
        · exact absurd e hne
        · exact List.mem_append_left _ e

/-- `set` on a path that is present needs no hypothesis on the path -/
theorem set_present_wf {fs : Tree} (h : TreeWF fs) (p : Bytes) (n : Node)
    (hp : p ∈ keys fs) : TreeWF (Fs.set fs p n) :=
  treeWF_of_keys h (keys_set_present fs p n hp)

theorem under_root_abs (k : Bytes) (hk : isAbs k = true) : under [47] k = true := by
  cases k with
  | nil => simp [isAbs] at hk
  | cons x xs =>
    rw [isAbs_cons] at hk
    have hx : x = 47 := by simpa using hk
    subst hx
    simp [under, hasPrefix]

/-- at or below `p` goes down from a parent to its children -/
theorem under_child (p : Bytes) (pre : List Bytes) (c : Bytes) (hpre : ∀ x ∈ pre, CleanName x) (_hc : CleanName c)
    (h : under p (absPath pre) = true) : under p (absPath (pre ++ [c])) = true := by
  by_cases hp : p = [47]
  · rw [hp]; exact under_root_abs _ rfl
  · obtain ⟨rest, hr, e⟩ := (under_iff p _ hp).1 h
    cases pre with
    | nil =>
      -- "/" = p ++ rest with p ≠ "/": p = [] and rest = "/"
      have e' : [47] = p ++ rest := e
      cases p with
      | nil =>
        unfold under
        simp [absPath, hasPrefix, SLASH]
      | cons x xs =>
        simp only [List.cons_append, List.cons.injEq] at e'
        obtain ⟨hx, e2⟩ := e'
        have : xs = [] := (List.append_eq_nil_iff.mp e2.symm).1
        rw [← hx, this] at hp
        exact absurd rfl hp
    | cons d ds =>
      rw [absPath_append (d :: ds) [c] (by simp) (by simp), e, List.append_assoc]
      apply under_append
      rcases hr with e1 | ⟨r, e1⟩
      · rw [e1]; exact tail_slash _
      · rw [e1]; exact tail_slash _

/-- the parent of a clean absolute path other than "/" -/
theorem parent_shape (k : Bytes) (hk : CleanAbs k) (hne : k ≠ [47]) :
    ∃ pre c, (∀ x ∈ pre, CleanName x) ∧ CleanName c ∧ k = absPath (pre ++ [c]) ∧ pathDir k = absPath pre := by
  obtain ⟨ks, hks, rfl⟩ := cleanAbs_comps k hk
  rcases List.eq_nil_or_concat ks with e | ⟨pre, c, e⟩
  · rw [e] at hne; exact absurd rfl hne
  · have e' : ks = pre ++ [c] := by simpa using e
    have hpre : ∀ y ∈ pre, CleanName y := fun y hy => hks y (by rw [e']; exact List.mem_append_left _ hy)
    have hc : CleanName c := hks c (by rw [e']; simp)
    exact ⟨pre, c, hpre, hc, by rw [e'], by rw [e', pathDir_snoc' pre c hpre hc]⟩

/-- **removeAll** -/
theorem removeAll_wf {fs : Tree} (h : TreeWF fs) (p : Bytes) : TreeWF (removeAll fs p) := by
  unfold removeAll
  refine ⟨List.Nodup.sublist (List.Sublist.map _ List.filter_sublist) h.1,
    fun e he => h.2.1 e (List.mem_filter.mp he).1, ?_⟩
  intro e he hne
  obtain ⟨hem, hnu⟩ := List.mem_filter.mp he
  have hpar := h.2.2 e hem hne
  obtain ⟨e', he', e1⟩ := List.mem_map.mp hpar
  refine List.mem_map.mpr ⟨e', List.mem_filter.mpr ⟨he', ?_⟩, e1⟩
  -- were the parent at or below `p`, the entry would be too
  cases hu : under p e'.1 with
  | false => rfl
  | true =>
    exfalso
    obtain ⟨pre, c, hpre, hc, hk, hd⟩ := parent_shape e.1 (h.2.1 e hem) hne
    rw [e1, hd] at hu
    have := under_child p pre c hpre hc hu
    rw [← hk] at this
    simp [this] at hnu

/-- **appendFile**, **overwriteFile**: the path is present or nothing happens -/
theorem appendFile_wf {fs : Tree} (h : TreeWF fs) (p chunk : Bytes) : TreeWF (appendFile fs p chunk) := by
  unfold appendFile
  split
  · rename_i c hc; exact set_present_wf h p _ ((present_iff fs p).mp (by rw [hc]; rfl))
  · exact h

theorem overwriteFile_wf {fs : Tree} (h : TreeWF fs) (p data : Bytes) : TreeWF (overwriteFile fs p data) := by
  unfold overwriteFile
  split
  · rename_i c hc; exact set_present_wf h p _ ((present_iff fs p).mp (by rw [hc]; rfl))
  · exact h

/-- **openWrite** -/
theorem openWrite_wf {fs fs' : Tree} (h : TreeWF fs) (p : Bytes) (t : Bool) (hp : CleanAbs p)
    (hr : openWrite fs p t = .ok fs') : TreeWF fs' := by
  unfold openWrite at hr
  split at hr
  · cases hr
  · rename_i c hs
    injection hr with hr; subst hr
    have hk := stat_some_key fs p _ hs
    split <;> exact set_present_wf h p _ hk
  · cases hr
  · split at hr
    · cases hr
    · split at hr
      · cases hr
      · rename_i hpar
        injection hr with hr; subst hr
        exact set_wf h p _ hp (Or.inr (isDir_key fs _ (by simpa [parentIsDir] using hpar)))

/-- **symlink** -/
theorem symlink_wf {fs fs' : Tree} (h : TreeWF fs) (target link : Bytes) (hp : CleanAbs link)
    (hr : symlink fs target link = .ok fs') : TreeWF fs' := by
  unfold symlink at hr
  split at hr
  · cases hr
  · split at hr
    · cases hr
    · rename_i hpar
      injection hr with hr; subst hr
      exact set_wf h link _ hp (Or.inr (isDir_key fs _ (by simpa [parentIsDir] using hpar)))

/-! ### mkdirAll -/

theorem mkStep_wf {acc acc' : Tree} (h : TreeWF acc) (d : Bytes) (hd : CleanAbs d)
    (hpar : d = [47] ∨ pathDir d ∈ keys acc) (hr : mkStep acc d = .ok acc') :
    TreeWF acc' ∧ d ∈ keys acc' ∧ ∀ k ∈ keys acc, k ∈ keys acc' := by
  unfold mkStep at hr
  split at hr
  · split at hr
    · cases hr
    · rename_i hg
      cases hr
      have hab : d ∉ keys acc := by
        intro hm
        exact hg ((present_iff acc d).mpr hm)
      refine ⟨set_wf h d _ hd hpar, ?_, ?_⟩
      · rw [keys_set_absent acc d _ hab]; simp
      · intro k hk; rw [keys_set_absent acc d _ hab]; exact List.mem_append_left _ hk
  · rename_i hs
    cases hr
    exact ⟨h, stat_some_key acc d _ hs, fun k hk => hk⟩
  · cases hr

/-- a list of directories each of which is "/" or the child of its predecessor -/
def okFrom (prev : Bytes) : List Bytes → Prop
  | [] => True
  | d :: ds => CleanAbs d ∧ (d = [47] ∨ pathDir d = prev) ∧ okFrom d ds

theorem foldlM_mkStep_wf : ∀ (ds : List Bytes) (prev : Bytes) (acc acc' : Tree), TreeWF acc →
    okFrom prev ds → (prev ∈ keys acc ∨ ds.head? = some [47]) →
    ds.foldlM mkStep acc = .ok acc' → TreeWF acc' := by
  intro ds
  induction ds with
  | nil =>
    intro prev acc acc' h _ _ hr
    simp only [List.foldlM_nil, pure, Except.pure, Except.ok.injEq] at hr
    subst hr; exact h
  | cons d ds ih =>
    intro prev acc acc' h hok hprev hr
    simp only [List.foldlM_cons, bind, Except.bind] at hr
    split at hr
    · cases hr
    · rename_i a ha
      obtain ⟨hd, hdp, hrest⟩ := hok
      have hpar : d = [47] ∨ pathDir d ∈ keys acc := by
        rcases hdp with e | e
        · exact Or.inl e
        · rcases hprev with hp | hp
          · exact Or.inr (e ▸ hp)
          · simp at hp; exact Or.inl hp
      obtain ⟨hwa, hda, _⟩ := mkStep_wf h d hd hpar ha
      exact ih d a acc' hwa hrest (Or.inl hda) hr

theorem comps_absPath (cs : List Bytes) (h : ∀ c ∈ cs, CleanName c) :
    (splitOn 47 (absPath cs)).filter (!·.isEmpty) = cs := by
  cases cs with
  | nil => decide
  | cons c rest =>
    have hsp : splitOn 47 (absPath (c :: rest)) = [] :: splitOn 47 (joinWith 47 (c :: rest)) := by
      simp [absPath, SLASH, splitOn]
    rw [hsp, splitOn_joinWith 47 (c :: rest) (by simp) (fun p hp => (h p hp).1.2.2)]
    rw [List.filter_cons]
    simp only [List.isEmpty_nil, Bool.not_true, Bool.false_eq_true, if_false]
    apply List.filter_eq_self.mpr
    intro x hx
    have := (h x hx).1.1
    cases x with
    | nil => exact absurd rfl this
    | cons y ys => rfl

theorem go_ok : ∀ (rest pre : List Bytes) (acc : Bytes), (∀ c ∈ pre, CleanName c) →
    (∀ c ∈ rest, CleanName c) → (pre ≠ [] → acc = absPath pre) → (pre = [] → acc = []) → rest ≠ [] →
    okFrom (absPath pre) (ancestors.go acc rest ++ [absPath (pre ++ rest)]) := by
  intro rest
  induction rest with
  | nil => intro pre acc _ _ _ _ hne; exact absurd rfl hne
  | cons c rest ih =>
    intro pre acc hpre hrest h1 h2 _
    have hc : CleanName c := hrest c (by simp)
    have hpre' : ∀ x ∈ pre ++ [c], CleanName x := by
      intro x hx
      rcases List.mem_append.mp hx with hx | hx
      · exact hpre x hx
      · simp at hx; rw [hx]; exact hc
    cases rest with
    | nil =>
      simp only [ancestors.go, List.nil_append]
      exact ⟨cleanAbs_absPath _ hpre', Or.inr (pathDir_snoc' pre c hpre hc), trivial⟩
    | cons c2 rest2 =>
      have hacc : acc ++ 47 :: c = absPath (pre ++ [c]) := by
        obtain ⟨X, hX, hx1, hx2⟩ := absPath_snoc pre c
        rw [hX]
        by_cases hp : pre = []
        · rw [h2 hp, hx2 hp]; rfl
        · rw [h1 hp, hx1 hp]; rfl
      simp only [ancestors.go, List.cons_append]
      refine ⟨by rw [hacc]; exact cleanAbs_absPath _ hpre',
        Or.inr (by rw [hacc]; exact pathDir_snoc' pre c hpre hc), ?_⟩
      have := ih (pre ++ [c]) (acc ++ 47 :: c) hpre'
        (fun x hx => hrest x (List.mem_cons_of_mem _ hx)) (fun _ => hacc) (fun e => by simp at e) (by simp)
      rw [hacc] at this ⊢
      simpa [List.append_assoc] using this

/-- **mkdirAll** -/
theorem mkdirAll_wf {fs fs' : Tree} (h : TreeWF fs) (p : Bytes) (hp : CleanAbs p)
    (hr : mkdirAll fs p = .ok fs') : TreeWF fs' := by
  rw [mkdirAll_eq] at hr
  obtain ⟨cs, hcs, rfl⟩ := cleanAbs_comps p hp
  have hroot : CleanAbs [47] := cleanAbs_absPath [] (by simp)
  refine foldlM_mkStep_wf _ [47] fs fs' h ?_ (Or.inr ?_) hr
  · unfold ancestors
    rw [comps_absPath cs hcs]
    cases cs with
    | nil =>
      simp only [ancestors.go, List.cons_append, List.nil_append]
      exact ⟨hroot, Or.inl rfl, hroot, Or.inl rfl, trivial⟩
    | cons c rest =>
      simp only [List.cons_append]
      refine ⟨hroot, Or.inl rfl, ?_⟩
      have := go_ok (c :: rest) [] [] (by simp) hcs (fun h => absurd rfl h) (fun _ => rfl) (by simp)
      rw [absPath_nil] at this
      simpa using this
  · unfold ancestors; rfl

/-! ### rename -/

theorem mv_key_moved (os ns t : List Bytes) (hos : ∀ c ∈ os, CleanName c) (ht : ∀ c ∈ t, CleanName c)
    (hone : os ≠ []) (hnne : ns ≠ []) (n : Node) :
    (mv (absPath os) (absPath ns) (absPath (os ++ t), n)).1 = absPath (ns ++ t) := by
  have hks : ∀ c ∈ os ++ t, CleanName c := by
    intro c hc
    rcases List.mem_append.mp hc with hc | hc
    · exact hos c hc
    · exact ht c hc
  cases t with
  | nil => simp [mv]
  | cons x xs =>
    have hne : absPath (os ++ x :: xs) ≠ absPath os := by
      intro e
      have := absPath_inj _ _ hks hos e
      simp at this
    have hu : under (absPath os) (absPath (os ++ x :: xs)) = true :=
      (under_absPath os _ hos hks).mpr (List.prefix_append _ _)
    have hne' : (absPath (os ++ x :: xs) == absPath os) = false := by simpa using hne
    simp only [mv, hne', hu, Bool.false_eq_true, if_false, if_true]
    rw [absPath_append os (x :: xs) hone (by simp), List.drop_left,
      absPath_append ns (x :: xs) hnne (by simp)]

theorem mv_key_kept (os ks : List Bytes) (new : Bytes) (hos : ∀ c ∈ os, CleanName c)
    (hks : ∀ c ∈ ks, CleanName c) (hnp : ¬ os <+: ks) (n : Node) :
    (mv (absPath os) new (absPath ks, n)).1 = absPath ks := by
  have hne : (absPath ks == absPath os) = false := by
    have : absPath ks ≠ absPath os := by
      intro e
      rw [absPath_inj _ _ hks hos e] at hnp
      exact hnp (List.prefix_refl _)
    simpa using this
  have hu : under (absPath os) (absPath ks) = false := by
    cases hh : under (absPath os) (absPath ks) with
    | false => rfl
    | true => exact absurd ((under_absPath os ks hos hks).mp hh) hnp
  simp [mv, hne, hu]

theorem rename_parent (fs fs' : Tree) (old new : Bytes) (hr : rename fs old new = .ok fs') :
    isDir fs (pathDir new) = true := by
  unfold rename at hr
  split at hr
  · cases hr
  · split at hr
    · cases hr
    · rename_i h; simpa [parentIsDir] using h

/-- **rename**: of something other than "/" to a clean absolute path other than "/" -/
theorem rename_wf {fs fs' : Tree} (h : TreeWF fs) (old new : Bytes) (ho : old ≠ [47]) (hn : new ≠ [47])
    (hnc : CleanAbs new) (hr : rename fs old new = .ok fs') : TreeWF fs' := by
  obtain ⟨hex, hfs, hinv⟩ := rename_ok fs fs' old new hr
  have hpn := isDir_key fs _ (rename_parent fs fs' old new hr)
  obtain ⟨os, hos, rfl⟩ := cleanAbs_comps old (key_clean h old ((present_iff fs old).mp hex))
  obtain ⟨ns, hns, rfl⟩ := cleanAbs_comps new hnc
  have hone : os ≠ [] := by intro e; rw [e] at ho; exact ho rfl
  have hnne : ns ≠ [] := by intro e; rw [e] at hn; exact hn rfl
  -- where an entry goes
  have hg_moved : ∀ e : Bytes × Node, ∀ t, (∀ c ∈ t, CleanName c) → e.1 = absPath (os ++ t) →
      (mv (absPath os) (absPath ns) e).1 = absPath (ns ++ t) := by
    intro e t ht he
    have he' : e = (absPath (os ++ t), e.2) := by rw [← he]
    rw [he']; exact mv_key_moved os ns t hos ht hone hnne e.2
  have hg_kept : ∀ e : Bytes × Node, ∀ qs, (∀ c ∈ qs, CleanName c) → e.1 = absPath qs → ¬ os <+: qs →
      (mv (absPath os) (absPath ns) e).1 = absPath qs := by
    intro e qs hqs he hnp
    have he' : e = (absPath qs, e.2) := by rw [← he]
    rw [he']; exact mv_key_kept os qs _ hos hqs hnp e.2
  have hcat : ∀ (a b : List Bytes), (∀ c ∈ a, CleanName c) → (∀ c ∈ b, CleanName c) → ∀ c ∈ a ++ b, CleanName c := by
    intro a b ha hb c hc
    rcases List.mem_append.mp hc with hc | hc
    · exact ha c hc
    · exact hb c hc
  by_cases heq : absPath os = absPath ns
  · -- renaming something onto itself: the paths stay
    have hon : os = ns := absPath_inj os ns hos hns heq
    have hb : (absPath os == absPath ns) = true := by simpa using heq
    rw [hb] at hfs
    simp only [if_true] at hfs
    apply treeWF_of_keys h
    rw [hfs]
    show (fs.map _).map _ = fs.map _
    rw [List.map_map]
    apply List.map_congr_left
    intro e he
    simp only [Function.comp]
    obtain ⟨ks, hks, hek⟩ := cleanAbs_comps e.1 (h.2.1 e he)
    by_cases hp : os <+: ks
    · obtain ⟨t, rfl⟩ := hp
      rw [hg_moved e t (fun c hc => hks c (List.mem_append_right _ hc)) hek, hek, hon]
    · rw [hg_kept e ks hks hek hp, hek]
  · have hb : (absPath os == absPath ns) = false := by simpa using heq
    rw [hb] at hfs
    simp only [Bool.false_eq_true, if_false] at hfs
    have hwf1 : TreeWF (removeAll fs (absPath ns)) := removeAll_wf h _
    generalize hfs1 : removeAll fs (absPath ns) = fs1 at hfs hwf1
    -- nothing is left at or below the target
    have hfree : ∀ e ∈ fs1, under (absPath ns) e.1 = false := by
      intro e he
      rw [← hfs1] at he
      have := (List.mem_filter.mp he).2
      simpa using this
    -- the target does not lie below the source
    have hnp : ¬ os <+: ns := by
      intro hp
      exact hinv ⟨(under_absPath os ns hos hns).mpr hp, heq⟩
    have hcomps : ∀ e ∈ fs1, ∃ ks, (∀ c ∈ ks, CleanName c) ∧ e.1 = absPath ks :=
      fun e he => cleanAbs_comps e.1 (hwf1.2.1 e he)
    rw [hfs, treeWF_iff_keys]
    have hkeys : keys (fs1.map (mv (absPath os) (absPath ns)))
        = fs1.map (fun e => (mv (absPath os) (absPath ns) e).1) := by
      unfold keys; rw [List.map_map]; rfl
    rw [hkeys]
    refine ⟨?_, ?_, ?_⟩
    · have hp1 : fs1.Pairwise (fun a b => a.1 ≠ b.1) := by
        have := hwf1.1
        unfold List.Nodup keys at this
        rwa [List.pairwise_map] at this
      unfold List.Nodup
      rw [List.pairwise_map]
      refine List.Pairwise.imp_of_mem ?_ hp1
      intro a b ha hb hab e
      obtain ⟨as, has, hae⟩ := hcomps a ha
      obtain ⟨bs, hbs, hbe⟩ := hcomps b hb
      by_cases hpa : os <+: as <;> by_cases hpb : os <+: bs
      · obtain ⟨ta, rfl⟩ := hpa
        obtain ⟨tb, rfl⟩ := hpb
        have hta : ∀ c ∈ ta, CleanName c := fun c hc => has c (List.mem_append_right _ hc)
        have htb : ∀ c ∈ tb, CleanName c := fun c hc => hbs c (List.mem_append_right _ hc)
        rw [hg_moved a ta hta hae, hg_moved b tb htb hbe] at e
        have := List.append_cancel_left (absPath_inj _ _ (hcat _ _ hns hta) (hcat _ _ hns htb) e)
        apply hab; rw [hae, hbe, this]
      · obtain ⟨ta, rfl⟩ := hpa
        have hta : ∀ c ∈ ta, CleanName c := fun c hc => has c (List.mem_append_right _ hc)
        rw [hg_moved a ta hta hae, hg_kept b bs hbs hbe hpb] at e
        have hu : under (absPath ns) b.1 = true := by
          rw [hbe, ← e]
          exact (under_absPath ns _ hns (hcat _ _ hns hta)).mpr (List.prefix_append _ _)
        rw [hfree b hb] at hu; cases hu
      · obtain ⟨tb, rfl⟩ := hpb
        have htb : ∀ c ∈ tb, CleanName c := fun c hc => hbs c (List.mem_append_right _ hc)
        rw [hg_kept a as has hae hpa, hg_moved b tb htb hbe] at e
        have hu : under (absPath ns) a.1 = true := by
          rw [hae, e]
          exact (under_absPath ns _ hns (hcat _ _ hns htb)).mpr (List.prefix_append _ _)
        rw [hfree a ha] at hu; cases hu
      · rw [hg_kept a as has hae hpa, hg_kept b bs hbs hbe hpb, ← hae, ← hbe] at e
        exact hab e
    · intro k hk
      obtain ⟨e, he, rfl⟩ := List.mem_map.mp hk
      obtain ⟨ks, hks, hek⟩ := hcomps e he
      by_cases hp : os <+: ks
      · obtain ⟨t, rfl⟩ := hp
        have ht : ∀ c ∈ t, CleanName c := fun c hc => hks c (List.mem_append_right _ hc)
        rw [hg_moved e t ht hek]
        exact cleanAbs_absPath _ (hcat _ _ hns ht)
      · rw [hg_kept e ks hks hek hp]; exact cleanAbs_absPath ks hks
    · intro k hk hne
      obtain ⟨e, he, rfl⟩ := List.mem_map.mp hk
      obtain ⟨ks, hks, hek⟩ := hcomps e he
      -- an entry of fs1 found by its path
      have hfind : ∀ q, q ∈ keys fs1 → ∃ e0 ∈ fs1, e0.1 = q := by
        intro q hq
        obtain ⟨e0, he0, e1⟩ := List.mem_map.mp hq
        exact ⟨e0, he0, e1⟩
      by_cases hp : os <+: ks
      · obtain ⟨t, rfl⟩ := hp
        have ht : ∀ c ∈ t, CleanName c := fun c hc => hks c (List.mem_append_right _ hc)
        rw [hg_moved e t ht hek] at hne ⊢
        rcases List.eq_nil_or_concat t with et | ⟨t', c, et⟩
        · -- the moved root: the parent of the target was there and stays
          subst et
          simp only [List.append_nil] at hne ⊢
          obtain ⟨e0, he0f, e0k⟩ : ∃ e0 ∈ fs, e0.1 = pathDir (absPath ns) := by
            obtain ⟨e0, he0, e1⟩ := List.mem_map.mp hpn
            exact ⟨e0, he0, e1⟩
          obtain ⟨pre, c, hpre, hc, hnk, hnd⟩ := parent_shape (absPath ns) hnc hn
          have hnse : ns = pre ++ [c] := absPath_inj _ _ hns (hcat _ _ hpre (by simpa using hc)) hnk
          have hlen : ¬ ns <+: pre := by
            intro hp
            have := hp.length_le
            rw [hnse] at this
            simp at this
            omega
          have he01 : e0 ∈ fs1 := by
            rw [← hfs1]
            refine List.mem_filter.mpr ⟨he0f, ?_⟩
            cases hu : under (absPath ns) e0.1 with
            | false => rfl
            | true =>
              rw [e0k, hnd] at hu
              exact absurd ((under_absPath ns pre hns hpre).mp hu) hlen
          have hkp : ¬ os <+: pre := by
            intro hp
            apply hnp
            rw [hnse]
            exact hp.trans (List.prefix_append _ _)
          refine List.mem_map.mpr ⟨e0, he01, ?_⟩
          rw [hg_kept e0 pre hpre (by rw [e0k, hnd]) hkp, hnd]
        · -- below the moved root: the parent moves along
          have et' : t = t' ++ [c] := by simpa using et
          subst et'
          have ht' : ∀ x ∈ t', CleanName x := fun x hx => ht x (List.mem_append_left _ hx)
          have hc : CleanName c := ht c (by simp)
          have hkne : e.1 ≠ [47] := by
            rw [hek, ← List.append_assoc]
            exact absPath_ne_root _ (by rw [List.append_assoc]; exact hks) (by simp)
          have hpar := hwf1.2.2 e he hkne
          rw [hek, ← List.append_assoc, pathDir_snoc' (os ++ t') c (hcat _ _ hos ht') hc] at hpar
          obtain ⟨e0, he0, e0k⟩ := hfind _ hpar
          refine List.mem_map.mpr ⟨e0, he0, ?_⟩
          rw [hg_moved e0 t' ht' e0k, ← List.append_assoc, pathDir_snoc' (ns ++ t') c (hcat _ _ hns ht') hc]
      · rw [hg_kept e ks hks hek hp] at hne ⊢
        have hkne : e.1 ≠ [47] := by rw [hek]; exact hne
        have hpar := hwf1.2.2 e he hkne
        obtain ⟨pre, c, hpre, hc, hkk, hkd⟩ := parent_shape e.1 (hwf1.2.1 e he) hkne
        have hkse : ks = pre ++ [c] := absPath_inj _ _ hks (hcat _ _ hpre (by simpa using hc)) (hek.symm.trans hkk)
        obtain ⟨e0, he0, e0k⟩ := hfind _ hpar
        have hkp : ¬ os <+: pre := by
          intro hpp
          apply hp
          rw [hkse]
          exact hpp.trans (List.prefix_append _ _)
        refine List.mem_map.mpr ⟨e0, he0, ?_⟩
        rw [hg_kept e0 pre hpre (by rw [e0k, hkd]) hkp, ← hek, hkd]

/-- **rename**, no side condition on "/": moving "/" is refused or the identity, moving onto
    "/" is refused or empties the tree -/
theorem rename_wf' {fs fs' : Tree} (h : TreeWF fs) (old new : Bytes) (hnc : CleanAbs new)
    (hr : rename fs old new = .ok fs') : TreeWF fs' := by
  by_cases ho : old = [47]
  · by_cases hn : new = [47]
    · subst ho hn
      obtain ⟨_, hfs, _⟩ := rename_ok fs fs' _ _ hr
      simp only [beq_self_eq_true, if_true] at hfs
      apply treeWF_of_keys h
      rw [hfs]
      show (fs.map _).map _ = fs.map _
      rw [List.map_map]
      apply List.map_congr_left
      intro e he
      simp only [Function.comp, mv]
      split
      · rename_i h1; simp at h1; exact h1.symm
      · split
        · have ha := (h.2.1 e he).2
          cases hk : e.1 with
          | nil => rw [hk] at ha; simp [isAbs] at ha
          | cons x xs =>
            rw [hk, isAbs_cons] at ha
            have hx : x = 47 := by simpa using ha
            subst hx
            simp
        · rfl
    · subst ho
      obtain ⟨_, _, hinv⟩ := rename_ok fs fs' _ _ hr
      exact absurd ⟨under_root_abs new hnc.2, fun e => hn e.symm⟩ hinv
  · by_cases hn : new = [47]
    · subst hn
      obtain ⟨_, hfs, _⟩ := rename_ok fs fs' _ _ hr
      have hb : (old == [47]) = false := by simpa using ho
      rw [hb] at hfs
      simp only [Bool.false_eq_true, if_false] at hfs
      have : removeAll fs [47] = [] := by
        unfold removeAll
        rw [List.filter_eq_nil_iff]
        intro e he
        simp [under_root_abs e.1 (h.2.1 e he).2]
      rw [this] at hfs
      rw [hfs]
      exact treeWF_nil
    · exact rename_wf h old new ho hn hnc hr

/-! ### a directory listing has no name twice -/

theorem pathDir_root : pathDir [47] = [47] := by decide

/-- **children_nodup** -/
theorem children_nodup {fs : Tree} (h : TreeWF fs) (d : Bytes) : (Fs.children fs d).Nodup := by
  unfold Fs.children
  have hp : fs.Pairwise (fun a b => a.1 ≠ b.1) := by
    have := h.1
    unfold List.Nodup keys at this
    rwa [List.pairwise_map] at this
  unfold List.Nodup
  rw [List.pairwise_map]
  refine List.Pairwise.imp_of_mem ?_ (List.Pairwise.filter _ hp)
  intro a b ha hb hab e
  obtain ⟨ham, hap⟩ := List.mem_filter.mp ha
  obtain ⟨hbm, hbp⟩ := List.mem_filter.mp hb
  simp only [Bool.and_eq_true, bne_iff_ne, ne_eq, beq_iff_eq] at hap hbp
  -- shape of one entry of the listing
  have shape : ∀ x : Bytes × Node, x ∈ fs → x.1 ≠ d → pathDir x.1 = d →
      ∃ pre c, (∀ y ∈ pre, CleanName y) ∧ CleanName c ∧ x.1 = absPath (pre ++ [c]) ∧ d = absPath pre := by
    intro x hx hne hdir
    obtain ⟨ks, hks, hk⟩ := cleanAbs_comps x.1 (h.2.1 x hx)
    rcases List.eq_nil_or_concat ks with e | ⟨pre, c, e⟩
    · exfalso
      rw [e] at hk
      rw [hk] at hne hdir
      rw [absPath_nil, pathDir_root] at hdir
      exact hne (by rw [absPath_nil]; exact hdir)
    · have e' : ks = pre ++ [c] := by simpa using e
      have hpre : ∀ y ∈ pre, CleanName y := fun y hy => hks y (by rw [e']; exact List.mem_append_left _ hy)
      have hc : CleanName c := hks c (by rw [e']; simp)
      refine ⟨pre, c, hpre, hc, by rw [hk, e'], ?_⟩
      rw [← hdir, hk, e', pathDir_snoc' pre c hpre hc]
  obtain ⟨pa, ca, hpa, hca, hae, hda⟩ := shape a ham hap.1.1 hap.2
  obtain ⟨pb, cb, hpb, hcb, hbe, hdb⟩ := shape b hbm hbp.1.1 hbp.2
  rw [hae, hbe, pathBase_snoc pa ca hca, pathBase_snoc pb cb hcb] at e
  have : pa = pb := absPath_inj pa pb hpa hpb (hda.symm.trans hdb)
  apply hab
  rw [hae, hbe, this, e]

end Lc.TreeWF
