/-
  Hoare-style invariant reasoning for the command monad `Lc.Layers.M`
  (ExceptT Fault (StateM World)) using core Lean's `Std.Do` (`mvcgen`).
  `Holds I m`: started in a world satisfying `I`, `m` ends — normally or with an
  error — in a world satisfying `I`.
-/
import Std.Do
import Lc.Model.Layers

namespace Lc.Hoare
open Std.Do Lc Lc.Layers

set_option mvcgen.warning false

/-- `m` preserves the world predicate `I` on every exit -/
abbrev Holds {α} (I : World → Prop) (m : M α) : Prop :=
  ⦃fun w => ⌜I w⌝⦄ m ⦃post⟨fun _ w => ⌜I w⌝, fun _ w => ⌜I w⌝⟩⦄

theorem pure_holds {α} (I : World → Prop) (a : α) : Holds I (pure a : M α) := by
  unfold Holds; mvcgen

theorem throw_holds {α} (I : World → Prop) (e : Fault) : Holds I (throw e : M α) := by
  unfold Holds; mvcgen

theorem fail_holds {α} (I : World → Prop) (c : String) : Holds I (fail c : M α) := by
  unfold Holds; mvcgen [fail]

theorem getW_holds (I : World → Prop) : Holds I getW := by
  unfold Holds; mvcgen [getW]

theorem liftRes_holds {α} (I : World → Prop) (r : Res α) : Holds I (liftRes r) := by
  unfold Holds liftRes; split <;> mvcgen

theorem forM_holds {α} (I : World → Prop) (xs : List α) (body : α → M Unit)
    (h : ∀ x, Holds I (body x)) : Holds I (xs.forM body) := by
  induction xs with
  | nil => unfold Holds; mvcgen
  | cons x xs ih =>
    unfold Holds at *
    have hx := h x
    show ⦃fun w => ⌜I w⌝⦄ (do body x; xs.forM body) ⦃_⦄
    mvcgen [hx, ih]

theorem foldlM_holds {α β} (I : World → Prop) (xs : List α) (body : β → α → M β) (init : β)
    (h : ∀ b x, Holds I (body b x)) : Holds I (xs.foldlM body init) := by
  induction xs generalizing init with
  | nil => unfold Holds; simp only [List.foldlM_nil]; mvcgen
  | cons x xs ih =>
    unfold Holds at *
    have hx := h init x
    simp only [List.foldlM_cons]
    mvcgen [hx]
    rename_i b
    exact ih b

/-- from the triple to the run function: the final world satisfies the invariant -/
theorem extract {α} (I : World → Prop) (m : M α) (h : Holds I m) (w : World) (hw : I w) :
    I (m.run.run w).2 := by
  unfold Holds at h
  have h2 := h w hw
  simp [wp] at h2
  generalize (StateT.run (ExceptT.run m) w) = r at h2 ⊢
  obtain ⟨a, s⟩ := r
  cases a <;> exact h2

/-- `m` started in `I` ends normally only in `Q`, and in `I` when it ends with an error -/
abbrev HoldsOk {α} (I : World → Prop) (Q : α → World → Prop) (m : M α) : Prop :=
  ⦃fun w => ⌜I w⌝⦄ m ⦃post⟨fun a w => ⌜Q a w⌝, fun _ _ => ⌜True⌝⟩⦄

theorem extractOk {α} (I : World → Prop) (Q : α → World → Prop) (m : M α) (h : HoldsOk I Q m)
    (w : World) (hw : I w) (a : α) (hr : (m.run.run w).1 = .ok a) : Q a (m.run.run w).2 := by
  unfold HoldsOk at h
  have h2 := h w hw
  simp [wp] at h2
  generalize hg : (StateT.run (ExceptT.run m) w) = r at h2 hr ⊢
  obtain ⟨x, s⟩ := r
  cases x with
  | error e => simp at hr
  | ok b =>
    simp at hr
    subst hr
    exact h2

/-- both exits at once: a triple with a normal and an exceptional postcondition gives the
    run function's result -/
theorem extractBoth {α} (I : World → Prop) (Q : α → World → Prop) (E : Fault → World → Prop) (m : M α)
    (h : ⦃fun w => ⌜I w⌝⦄ m ⦃post⟨fun a w => ⌜Q a w⌝, fun e w => ⌜E e w⌝⟩⦄) (w : World) (hw : I w) :
    match (m.run.run w).1 with
    | .ok a => Q a (m.run.run w).2
    | .error e => E e (m.run.run w).2 := by
  have h2 := h w hw
  simp [wp] at h2
  generalize (StateT.run (ExceptT.run m) w) = r at h2 ⊢
  obtain ⟨a, s⟩ := r
  cases a <;> exact h2

end Lc.Hoare
