/-
  Helper lemmas for Props/C06Contents: the reader of portage/vdb/contents.go
  (Model/Contents) against Portage's rendering of CONTENTS (Spec/ContentsRender).
-/
import Lc.Model.Contents
import Lc.Spec.ContentsRender

namespace Lc.Lemmas.Contents
open Lc Lc.Contents Lc.Spec.ContentsRender

/-- what the reader must return for an entry -/
def expected (e : Entry) : FileInfo :=
  { name := e.name, unixTime := e.time, md5 := e.md5, type := e.typeCode }

/-! ### trimming -/

theorem trimLeft_head_ne (c x : Nat) (xs : Bytes) (h : x ≠ c) : trimLeft c (x :: xs) = x :: xs := by
  simp [trimLeft, h]

theorem trimRight_snoc_same (c : Nat) (s : Bytes) : trimRight c (s ++ [c]) = trimRight c s := by
  simp [trimRight, trimLeft]

theorem trimRight_snoc_ne (c x : Nat) (s : Bytes) (h : x ≠ c) : trimRight c (s ++ [x]) = s ++ [x] := by
  simp [trimRight, trimLeft, h]

/-! ### cutting a field off the right end -/

theorem scanBlank_append (head field : Bytes) (hh : head ≠ []) (hf : 32 ∉ field) :
    ∀ k, k ≤ field.length → scanBlank (head ++ 32 :: field) (head.length + k) = some head.length := by
  intro k
  induction k with
  | zero =>
    intro _
    obtain ⟨n, hn⟩ : ∃ n, head.length = n + 1 := by
      cases head with
      | nil => exact absurd rfl hh
      | cons x xs => exact ⟨xs.length, by simp⟩
    have : (head ++ 32 :: field).getD (n + 1) 0 = 32 := by
      rw [← hn]; simp [List.getD]
    rw [Nat.add_zero, hn]
    show (if (head ++ 32 :: field).getD (n + 1) 0 = 32 then some (n + 1)
          else scanBlank (head ++ 32 :: field) n) = some (n + 1)
    rw [if_pos this]
  | succ k ih =>
    intro hk
    have hk' : k < field.length := by omega
    have hget : (head ++ 32 :: field).getD (head.length + (k + 1)) 0 = field[k] := by
      simp only [List.getD]
      rw [List.getElem?_append_right (by omega)]
      have : head.length + (k + 1) - head.length = k + 1 := by omega
      rw [this]
      simp [hk']
    have hne : field[k] ≠ 32 := by
      intro e; apply hf; rw [← e]; exact List.getElem_mem hk'
    show scanBlank (head ++ 32 :: field) ((head.length + k) + 1) = some head.length
    simp only [scanBlank]
    have : head.length + k + 1 = head.length + (k + 1) := by omega
    rw [this, hget]
    simp only [hne, if_false]
    exact ih (by omega)

/-- THE cutting lemma: cutting from the right undoes appending ` <field>` when the field has
    no blank -- whatever stands to the left (blanks, blanks at its end, look-alikes), as long
    as it is not empty. -/
theorem parseOff_append (head field : Bytes) (hh : head ≠ []) (hne : field ≠ []) (hf : 32 ∉ field) :
    parseOffNonBlankField (head ++ 32 :: field) = .ok (head, field) := by
  unfold parseOffNonBlankField
  have hlen : (head ++ 32 :: field).length - 1 = head.length + field.length := by simp
  have h1 : ¬ (head ++ 32 :: field).length < 1 := by simp
  rw [if_neg h1, hlen, scanBlank_append head field hh hf field.length (Nat.le_refl _)]
  have hflen : field.length ≠ 0 := by
    intro e; exact hne (List.eq_nil_of_length_eq_zero e)
  simp [hflen]

/-- an empty left part is NOT found: the loop never looks at position 0 -/
theorem parseOff_empty_head (field : Bytes) (hf : 32 ∉ field) :
    parseOffNonBlankField (32 :: field) = Res.err "parse" := by
  have hs : ∀ k, k ≤ field.length → scanBlank (32 :: field) k = none := by
    intro k
    induction k with
    | zero => intro _; rfl
    | succ k ih =>
      intro hk
      have hk' : k < field.length := by omega
      have hne : field[k] ≠ 32 := by
        intro e; apply hf; rw [← e]; exact List.getElem_mem hk'
      simp only [scanBlank]
      have : (32 :: field).getD (k + 1) 0 = field[k] := by simp [List.getD, hk']
      rw [this]
      simp only [hne, if_false]
      exact ih (by omega)
  unfold parseOffNonBlankField
  have h1 : ¬ (32 :: field).length < 1 := by simp
  rw [if_neg h1]
  have : (32 :: field).length - 1 = field.length := by simp
  rw [this, hs field.length (Nat.le_refl _)]

/-! ### decimal numbers -/

theorem digitsVal_snoc (a : Bytes) (d acc : Nat) :
    digitsVal (a ++ [d]) acc = digitsVal a acc * 10 + (d - 48) := by
  induction a generalizing acc with
  | nil => simp [digitsVal]
  | cons c cs ih => simp [digitsVal, ih]

theorem natDecF_spec (f : Nat) : ∀ n, n ≤ f →
    (∀ c ∈ natDecF f n, 48 ≤ c ∧ c ≤ 57) ∧ natDecF f n ≠ [] ∧ digitsVal (natDecF f n) 0 = n := by
  induction f with
  | zero =>
    intro n hn
    have : n = 0 := by omega
    subst this
    simp [natDecF, digitsVal]
  | succ f ih =>
    intro n hn
    unfold natDecF
    by_cases h10 : n < 10
    · simp only [h10, if_true]
      refine ⟨?_, by simp, ?_⟩
      · intro c hc
        simp at hc
        omega
      · simp [digitsVal]
    · simp only [h10, if_false]
      obtain ⟨hd, hne, hv⟩ := ih (n / 10) (by omega)
      refine ⟨?_, by simp, ?_⟩
      · intro c hc
        rw [List.mem_append] at hc
        rcases hc with hc | hc
        · exact hd c hc
        · simp at hc; omega
      · rw [digitsVal_snoc, hv]
        omega

theorem natDec_digits (n : Nat) : ∀ c ∈ natDec n, 48 ≤ c ∧ c ≤ 57 := (natDecF_spec n n (Nat.le_refl _)).1
theorem natDec_ne_nil (n : Nat) : natDec n ≠ [] := (natDecF_spec n n (Nat.le_refl _)).2.1
theorem natDec_val (n : Nat) : digitsVal (natDec n) 0 = n := (natDecF_spec n n (Nat.le_refl _)).2.2

theorem natDec_all_isDigit (n : Nat) : (natDec n).all isDigit = true := by
  rw [List.all_eq_true]
  intro c hc
  have := natDec_digits n c hc
  simp [isDigit, this.1, this.2]

theorem intDec_ne_nil (t : Int) : intDec t ≠ [] := by
  cases t with
  | ofNat n => exact natDec_ne_nil n
  | negSucc n => simp [intDec]

/-- a rendered number contains only digits and possibly a leading minus sign -/
theorem intDec_bytes (t : Int) : ∀ c ∈ intDec t, c = 45 ∨ (48 ≤ c ∧ c ≤ 57) := by
  cases t with
  | ofNat n => intro c hc; exact Or.inr (natDec_digits n c hc)
  | negSucc n =>
    intro c hc
    simp only [intDec, List.mem_cons] at hc
    rcases hc with rfl | hc
    · exact Or.inl rfl
    · exact Or.inr (natDec_digits _ c hc)

theorem intDec_no_blank (t : Int) : 32 ∉ intDec t := by
  intro h; have := intDec_bytes t 32 h; omega

theorem intDec_no_nl (t : Int) : 10 ∉ intDec t := by
  intro h; have := intDec_bytes t 10 h; omega

/-- ParseInt reads back what Python's `str` wrote, for every 64-bit value -/
theorem parseInt64_intDec (t : Int) (ht : TimeOK t) : parseInt64 (intDec t) = some t := by
  obtain ⟨hlo, hhi⟩ := ht
  cases t with
  | ofNat n =>
    have hn : n < 2 ^ 63 := by
      have : (n : Int) < 2 ^ 63 := hhi
      omega
    have hne := natDec_ne_nil n
    have hall := natDec_all_isDigit n
    have hv := natDec_val n
    simp only [intDec]
    generalize hs : natDec n = s at hne hall hv
    cases s with
    | nil => exact absurd rfl hne
    | cons c rest =>
      have hc : 48 ≤ c ∧ c ≤ 57 := by
        have := natDec_digits n c (by rw [hs]; simp)
        exact this
      have h43 : (c == 43) = false := by simp; omega
      have h45 : (c == 45) = false := by simp; omega
      simp only [parseInt64, h43, h45, Bool.or_self, Bool.false_eq_true, if_false, hall, if_true, hv,
        List.isEmpty_cons]
      simp [hn]
  | negSucc n =>
    have hn : n + 1 ≤ 2 ^ 63 := by
      have : -(2 ^ 63 : Int) ≤ Int.negSucc n := hlo
      omega
    have hne := natDec_ne_nil (n + 1)
    have hall := natDec_all_isDigit (n + 1)
    have hv := natDec_val (n + 1)
    simp only [intDec, parseInt64]
    have hemp : (natDec (n + 1)).isEmpty = false := by
      cases h : natDec (n + 1) with
      | nil => exact absurd h hne
      | cons _ _ => rfl
    simp only [beq_self_eq_true, Bool.or_true, if_true, hemp, Bool.false_eq_true, if_false, hall, hv, hn]
    rfl

/-! ### hex -/

theorem hexChar_range (n : Nat) : 48 ≤ hexChar n := by
  unfold hexChar; split <;> omega

theorem hexEncode_no_low (bs : Bytes) : ∀ c ∈ hexEncode bs, 48 ≤ c := by
  induction bs with
  | nil => intro c hc; simp [hexEncode] at hc
  | cons b bs ih =>
    intro c hc
    simp only [hexEncode, List.mem_cons] at hc
    rcases hc with rfl | rfl | hc
    · exact hexChar_range _
    · exact hexChar_range _
    · exact ih c hc

theorem hexEncode_no_blank (bs : Bytes) : 32 ∉ hexEncode bs := by
  intro h; have := hexEncode_no_low bs 32 h; omega

theorem hexEncode_no_nl (bs : Bytes) : 10 ∉ hexEncode bs := by
  intro h; have := hexEncode_no_low bs 10 h; omega

theorem hexEncode_ne_nil (bs : Bytes) (h : bs ≠ []) : hexEncode bs ≠ [] := by
  cases bs with
  | nil => exact absurd rfl h
  | cons b bs => simp [hexEncode]

theorem hexNib_hexChar : ∀ n, n < 16 → hexNib (hexChar n) = some n := by decide

theorem hexDecode_hexEncode (bs : Bytes) (h : ∀ b ∈ bs, b < 256) : hexDecode (hexEncode bs) = some bs := by
  induction bs with
  | nil => rfl
  | cons b bs ih =>
    have hb : b < 256 := h b (by simp)
    have h1 := hexNib_hexChar (b / 16) (by omega)
    have h2 := hexNib_hexChar (b % 16) (by omega)
    simp only [hexEncode, hexDecode, h1, h2, ih (fun x hx => h x (by simp [hx]))]
    simp
    omega

theorem copyMd5_of_len16 (bs : Bytes) (h : bs.length = 16) : copyMd5 bs = bs := by
  unfold copyMd5
  rw [h]
  simp
  rw [← h]
  exact List.take_length

/-! ### the separator of a sym line -/

/-- whether ` -> ` stands at the front is decided by the first four bytes: behind a non-empty
    name, the whole separator and its first three bytes give the same answer -/
theorem hasPrefix_arrow_cut (name rest : Bytes) (hn : name ≠ []) :
    hasPrefix (name ++ (sepArrow ++ rest)) sepArrow = hasPrefix (name ++ b!" ->") sepArrow := by
  match name, hn with
  | [a], _ => simp [hasPrefix, sepArrow]
  | [a, b], _ => simp [hasPrefix, sepArrow]
  | [a, b, c], _ => simp [hasPrefix, sepArrow]
  | a :: b :: c :: d :: t, _ => simp [hasPrefix, sepArrow]

theorem go_short (n : Nat) : indexOf.go sepArrow b!" ->" n = none := by
  simp [indexOf.go, hasPrefix, sepArrow]

/-- no ` -> ` inside `name ++ " ->"`: the first one in `name -> rest` is the separator -/
theorem go_arrowFree (name rest : Bytes) : ∀ n, indexOf.go sepArrow (name ++ b!" ->") n = none →
    indexOf.go sepArrow (name ++ (sepArrow ++ rest)) n = some (n + name.length) := by
  induction name with
  | nil =>
    intro n _
    simp [indexOf.go, hasPrefix, sepArrow]
  | cons x xs ih =>
    intro n h
    have hcut := hasPrefix_arrow_cut (x :: xs) rest (by simp)
    simp only [List.cons_append] at hcut h ⊢
    simp only [indexOf.go] at h ⊢
    rw [hcut]
    by_cases hp : hasPrefix (x :: (xs ++ b!" ->")) sepArrow = true
    · simp [hp] at h
    · simp only [hp] at h ⊢
      rw [ih (n + 1) h]
      simp
      omega

/-- a ` -> ` inside `name ++ " ->"` is found first, whatever follows -/
theorem go_not_arrowFree (name rest : Bytes) : ∀ n m, indexOf.go sepArrow (name ++ b!" ->") n = some m →
    indexOf.go sepArrow (name ++ (sepArrow ++ rest)) n = some m ∧ m < n + name.length := by
  induction name with
  | nil =>
    intro n m h
    rw [List.nil_append, go_short] at h
    exact absurd h (by simp)
  | cons x xs ih =>
    intro n m h
    have hcut := hasPrefix_arrow_cut (x :: xs) rest (by simp)
    simp only [List.cons_append] at hcut h ⊢
    simp only [indexOf.go] at h ⊢
    rw [hcut]
    by_cases hp : hasPrefix (x :: (xs ++ b!" ->")) sepArrow = true
    · simp only [hp, if_true] at h ⊢
      simp at h
      subst h
      simp
    · simp only [hp] at h ⊢
      obtain ⟨h1, h2⟩ := ih (n + 1) m h
      refine ⟨h1, ?_⟩
      simp
      omega

theorem indexOf_arrowFree (name rest : Bytes) (h : ArrowFree name) :
    indexOf (name ++ (sepArrow ++ rest)) sepArrow = some name.length := by
  unfold ArrowFree indexOf at h
  unfold indexOf
  have := go_arrowFree name rest 0 h
  simpa using this

theorem indexOf_not_arrowFree (name rest : Bytes) (h : ¬ ArrowFree name) :
    ∃ p, p < name.length ∧ indexOf (name ++ (sepArrow ++ rest)) sepArrow = some p := by
  unfold ArrowFree indexOf at h
  cases hg : indexOf.go sepArrow (name ++ b!" ->") 0 with
  | none => exact absurd hg h
  | some m =>
    obtain ⟨h1, h2⟩ := go_not_arrowFree name rest 0 m hg
    exact ⟨m, by simpa using h2, h1⟩

/-! ### one line -/

theorem parseOffTimestamp_append (head : Bytes) (t : Int) (hh : head ≠ []) (ht : TimeOK t) :
    parseOffTimestamp (head ++ 32 :: intDec t) = .ok (t, head) := by
  unfold parseOffTimestamp
  rw [parseOff_append head _ hh (intDec_ne_nil t) (intDec_no_blank t)]
  simp [parseInt64_intDec t ht]

theorem parseOffMd5_append (head md5 : Bytes) (hh : head ≠ []) (hm : md5 ≠ []) (hb : ∀ b ∈ md5, b < 256) :
    parseOffMd5 (head ++ 32 :: hexEncode md5) = .ok (md5, head) := by
  unfold parseOffMd5
  rw [parseOff_append head _ hh (hexEncode_ne_nil md5 hm) (hexEncode_no_blank md5)]
  simp [hexDecode_hexEncode md5 hb]

theorem parseLine_dir (n : Bytes) : parseLine (renderLine (.dir n)) = .ok (expected (.dir n)) := by
  have hlen : ¬ (renderLine (.dir n)).length < 4 := by simp [renderLine]
  unfold parseLine
  rw [if_neg hlen]
  simp [renderLine, expected, Entry.name, Entry.time, Entry.md5, Entry.typeCode, FileType_dir, zeroMd5]

/-- an `obj` line: the name is ANY non-empty byte string (the line being one line) -/
theorem parseLine_obj (n md5 : Bytes) (t : Int) (hn : n ≠ []) (hl : md5.length = 16)
    (hb : ∀ b ∈ md5, b < 256) (ht : TimeOK t) :
    parseLine (renderLine (.obj n md5 t)) = .ok (expected (.obj n md5 t)) := by
  have hm : md5 ≠ [] := by intro e; rw [e] at hl; simp at hl
  have htail : (renderLine (.obj n md5 t)).drop 4 = (n ++ 32 :: hexEncode md5) ++ 32 :: intDec t := by
    simp [renderLine]
  have htake : (renderLine (.obj n md5 t)).take 4 = b!"obj " := by simp [renderLine]
  have hlen : ¬ (renderLine (.obj n md5 t)).length < 4 := by simp [renderLine]
  unfold parseLine
  rw [if_neg hlen]
  simp only [htake, htail]
  rw [parseOffTimestamp_append _ t (by simp) ht]
  simp only [show (b!"obj " = b!"dir ") = False from by simp, if_false, if_true]
  rw [parseOffMd5_append n md5 hn hm hb]
  simp [copyMd5_of_len16 md5 hl, expected, Entry.name, Entry.time, Entry.md5, Entry.typeCode, FileType_file]

theorem sym_tail (n targ : Bytes) (t : Int) :
    (renderLine (.sym n targ t)).drop 4 = (n ++ (sepArrow ++ targ)) ++ 32 :: intDec t := by
  simp [renderLine]

/-- a `sym` line in general: the name comes back up to the first ` -> ` of `name -> target` -/
theorem parseLine_sym_general (n targ : Bytes) (t : Int) (ht : TimeOK t) :
    parseLine (renderLine (.sym n targ t)) =
      match indexOf (n ++ (sepArrow ++ targ)) Lc.Contents.arrow with
      | none => Res.err "arrow"
      | some pos => .ok { type := FileType_symlink, unixTime := t, name := (n ++ (sepArrow ++ targ)).take pos } := by
  have htake : (renderLine (.sym n targ t)).take 4 = b!"sym " := by simp [renderLine]
  have hlen : ¬ (renderLine (.sym n targ t)).length < 4 := by simp [renderLine]
  unfold parseLine
  rw [if_neg hlen]
  simp only [htake, sym_tail]
  rw [parseOffTimestamp_append _ t (by simp [sepArrow]) ht]
  simp only [show (b!"sym " = b!"dir ") = False from by simp, show (b!"sym " = b!"obj ") = False from by simp,
    if_false, if_true]
  cases indexOf (n ++ (sepArrow ++ targ)) Lc.Contents.arrow <;> rfl

theorem arrow_eq : Lc.Contents.arrow = sepArrow := rfl

theorem parseLine_sym (n targ : Bytes) (t : Int) (ha : ArrowFree n) (ht : TimeOK t) :
    parseLine (renderLine (.sym n targ t)) = .ok (expected (.sym n targ t)) := by
  rw [parseLine_sym_general n targ t ht, arrow_eq, indexOf_arrowFree n targ ha]
  simp [expected, Entry.name, Entry.time, Entry.md5, Entry.typeCode, zeroMd5, FileType_symlink]

theorem parseLine_render (e : Entry) (h : WFEntry e) : parseLine (renderLine e) = .ok (expected e) := by
  cases e with
  | dir n => exact parseLine_dir n
  | obj n md5 t =>
    obtain ⟨hn, _, hl, hb, ht⟩ := h
    exact parseLine_obj n md5 t hn hl hb ht
  | sym n targ t =>
    obtain ⟨_, _, ha, ht⟩ := h
    exact parseLine_sym n targ t ha ht

/-! ### lines of the file -/

theorem renderLine_no_nl (e : Entry) (h : WFEntry e) : 10 ∉ renderLine e := by
  cases e with
  | dir n =>
    have hn : 10 ∉ n := h
    simp [renderLine, hn]
  | obj n md5 t =>
    obtain ⟨_, hn, _, _, _⟩ := h
    simp [renderLine, hn, hexEncode_no_nl md5, intDec_no_nl t]
  | sym n targ t =>
    obtain ⟨hn, htg, _, _⟩ := h
    simp [renderLine, hn, htg, intDec_no_nl t, sepArrow]

theorem renderLine_shape (e : Entry) : ∃ c rest, renderLine e = c :: rest ∧ c ≠ 10 := by
  cases e <;> simp [renderLine]

theorem render_eq_join (es : List Entry) (hne : es ≠ []) :
    render es = joinWith 10 (es.map renderLine) ++ [10] := by
  induction es with
  | nil => exact absurd rfl hne
  | cons e es ih =>
    cases es with
    | nil => simp [render, joinWith]
    | cons e' es' =>
      have := ih (by simp)
      simp only [render] at this ⊢
      simp only [List.map_cons, joinWith] at this ⊢
      rw [this]
      simp

/-- a joined list of non-empty newline-free lines ends in a byte other than newline -/
theorem joinWith_last (ls : List Bytes) (hne : ls ≠ []) (h : ∀ l ∈ ls, l ≠ [] ∧ 10 ∉ l) :
    ∃ t x, joinWith 10 ls = t ++ [x] ∧ x ≠ 10 := by
  induction ls with
  | nil => exact absurd rfl hne
  | cons l ls ih =>
    cases ls with
    | nil =>
      obtain ⟨hl, hnl⟩ := h l (by simp)
      refine ⟨l.dropLast, l.getLast hl, ?_, ?_⟩
      · simp [joinWith, List.dropLast_concat_getLast]
      · intro e; apply hnl; rw [← e]; exact List.getLast_mem hl
    | cons l' ls' =>
      obtain ⟨t, x, ht, hx⟩ := ih (by simp) (fun a ha => h a (by simp [ha]))
      refine ⟨l ++ 10 :: t, x, ?_, hx⟩
      simp only [joinWith] at ht ⊢
      rw [ht]
      simp

theorem readFileLines_render (es : List Entry) (hne : es ≠ []) (h : ∀ e ∈ es, WFEntry e) :
    readFileLines (render es) = joinWith 10 (es.map renderLine) := by
  have hlines : ∀ l ∈ es.map renderLine, l ≠ [] ∧ 10 ∉ l := by
    intro l hl
    rw [List.mem_map] at hl
    obtain ⟨e, he, rfl⟩ := hl
    obtain ⟨c, rest, hc, _⟩ := renderLine_shape e
    exact ⟨by rw [hc]; simp, renderLine_no_nl e (h e he)⟩
  obtain ⟨t, x, ht, hx⟩ := joinWith_last (es.map renderLine) (by simpa using hne) hlines
  -- nothing is trimmed in front: the text starts with the first byte of a line
  have hfront : trimLeft 10 (render es) = render es := by
    cases es with
    | nil => exact absurd rfl hne
    | cons e es' =>
      obtain ⟨c, rest, hc, hc10⟩ := renderLine_shape e
      simp only [render, hc, List.cons_append]
      exact trimLeft_head_ne 10 c _ hc10
  unfold readFileLines
  rw [hfront, render_eq_join es hne, trimRight_snoc_same, ht, trimRight_snoc_ne 10 x t hx]

theorem parseLines_render (es : List Entry) (h : ∀ e ∈ es, WFEntry e) :
    parseLines (es.map renderLine) = .ok (es.map expected) := by
  induction es with
  | nil => rfl
  | cons e es ih =>
    simp only [List.map_cons, parseLines]
    rw [parseLine_render e (h e (by simp)), ih (fun a ha => h a (by simp [ha]))]

theorem parseLines_length : ∀ (ls : List Bytes) (out : List FileInfo),
    parseLines ls = .ok out → out.length = ls.length := by
  intro ls
  induction ls with
  | nil => intro out h; simp [parseLines] at h; subst h; rfl
  | cons l ls ih =>
    intro out h
    simp only [parseLines] at h
    cases hl : parseLine l with
    | error e => rw [hl] at h; simp at h
    | ok fi =>
      rw [hl] at h
      cases hls : parseLines ls with
      | error e => rw [hls] at h; simp at h
      | ok fis =>
        rw [hls] at h
        simp at h
        subst h
        simp [ih fis hls]

/-! ### where a panic can come from -/

theorem parseOff_no_panic (tail : Bytes) : parseOffNonBlankField tail ≠ Res.panic := by
  unfold parseOffNonBlankField
  split
  · simp [Res.err, Res.panic]
  · split
    · simp [Res.err, Res.panic]
    · dsimp only
      split <;> simp [Res.err, Res.panic]

theorem parseOffTimestamp_no_panic (tail : Bytes) : parseOffTimestamp tail ≠ Res.panic := by
  intro hp
  unfold parseOffTimestamp at hp
  have := parseOff_no_panic tail
  cases hf : parseOffNonBlankField tail with
  | error e =>
    rw [hf] at hp this
    have he : e = Fault.panic := by simpa [Res.panic] using hp
    exact this (by rw [he]; rfl)
  | ok v =>
    rw [hf] at hp
    obtain ⟨a, b⟩ := v
    dsimp only at hp
    split at hp <;> simp [Res.err, Res.panic] at hp

theorem parseOffMd5_no_panic (tail : Bytes) : parseOffMd5 tail ≠ Res.panic := by
  intro hp
  unfold parseOffMd5 at hp
  have := parseOff_no_panic tail
  cases hf : parseOffNonBlankField tail with
  | error e =>
    rw [hf] at hp this
    have he : e = Fault.panic := by simpa [Res.panic] using hp
    exact this (by rw [he]; rfl)
  | ok v =>
    rw [hf] at hp
    obtain ⟨a, b⟩ := v
    dsimp only at hp
    split at hp <;> simp [Res.err, Res.panic] at hp

/-- a line panics only when it is shorter than four bytes -/
theorem parseLine_panic_short (l : Bytes) (hp : parseLine l = Res.panic) : l.length < 4 := by
  apply Classical.byContradiction
  intro hlen
  unfold parseLine at hp
  rw [if_neg hlen] at hp
  dsimp only at hp
  split at hp
  · simp [Res.panic] at hp
  · split at hp
    · cases h1 : parseOffTimestamp (List.drop 4 l) with
      | error e =>
        rw [h1] at hp; dsimp only at hp
        have he : e = Fault.panic := by simpa [Res.panic] using hp
        exact parseOffTimestamp_no_panic _ (by rw [h1, he]; rfl)
      | ok v =>
        obtain ⟨ts, tl⟩ := v
        rw [h1] at hp; dsimp only at hp
        cases h2 : parseOffMd5 tl with
        | error e =>
          rw [h2] at hp; dsimp only at hp
          have he : e = Fault.panic := by simpa [Res.panic] using hp
          exact parseOffMd5_no_panic _ (by rw [h2, he]; rfl)
        | ok w =>
          obtain ⟨m, tl2⟩ := w
          rw [h2] at hp; simp [Res.panic] at hp
    · split at hp
      · cases h1 : parseOffTimestamp (List.drop 4 l) with
        | error e =>
          rw [h1] at hp; dsimp only at hp
          have he : e = Fault.panic := by simpa [Res.panic] using hp
          exact parseOffTimestamp_no_panic _ (by rw [h1, he]; rfl)
        | ok v =>
          obtain ⟨ts, tl⟩ := v
          rw [h1] at hp; dsimp only at hp
          split at hp <;> simp [Res.err, Res.panic] at hp
      · simp [Res.err, Res.panic] at hp

end Lc.Lemmas.Contents
