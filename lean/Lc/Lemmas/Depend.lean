/-
  Helper lemmas for C14 (not property theorems): cursor functions only ever move
  forward, the atom parser and the tokenizer never panic, consumption facts.
-/
import Lc.Model.Depend

namespace Lc.Lemmas.Depend
open Lc Lc.AtomParse Lc.Depend

/-! ### cursors only move forward -/

theorem take_suffix (c : Cur) : take c <:+ c := List.tail_suffix c

theorem slotFin_suffix (s sub : Bytes) (c : Cur) : (slotFin s sub c).2.2.2 <:+ c := by
  unfold slotFin; split
  · exact List.tail_suffix c
  · exact List.suffix_refl c

theorem slotComp_suffix {c : Cur} {s : Bytes} {c' : Cur} (h : slotComp c = some (s, c')) :
    c' <:+ c := by
  unfold slotComp at h
  split at h
  · simp at h
  · split at h
    · simp at h; obtain ⟨_, rfl⟩ := h
      exact (List.dropWhile_suffix _).trans (List.suffix_cons _ _)
    · simp at h

theorem takeSlot_suffix (c : Cur) : (takeSlot c).2.2.2 <:+ c := by
  unfold takeSlot
  split
  · exact List.suffix_refl c
  · simp only
    split
    · exact (slotFin_suffix _ _ _).trans (take_suffix c)
    · rename_i slot c2 h1
      have s2 : c2 <:+ c := (slotComp_suffix h1).trans (take_suffix c)
      split
      · exact (slotFin_suffix _ _ _).trans s2
      · split
        · exact (slotFin_suffix _ _ _).trans ((take_suffix c2).trans s2)
        · rename_i sub c4 h2
          have s4 : c4 <:+ c := (slotComp_suffix h2).trans ((take_suffix c2).trans s2)
          split
          · exact (slotFin_suffix _ _ _).trans s4
          · split
            · exact (slotFin_suffix _ _ _).trans ((take_suffix c4).trans s4)
            · rename_i x c6 h3
              exact (slotFin_suffix _ _ _).trans ((slotComp_suffix h3).trans ((take_suffix c4).trans s4))

theorem takeRepo_suffix (c : Cur) : (takeRepo c).2 <:+ c := by
  unfold takeRepo
  split
  · exact List.suffix_refl c
  · simp only
    split
    · exact List.drop_suffix 2 c
    · exact (List.dropWhile_suffix _).trans (List.drop_suffix 2 c)

theorem takeUseDepString_suffix (c : Cur) : (takeUseDepString c).2 <:+ c := by
  unfold takeUseDepString
  split
  · exact List.suffix_refl c
  · simp only
    split
    · exact List.suffix_refl c
    · exact (List.tail_suffix _).trans ((List.dropWhile_suffix _).trans (List.tail_suffix c))

theorem takeBlockers_suffix (c : Cur) : (takeBlockers c).2.2 <:+ c := by
  unfold takeBlockers
  split
  · simp only
    split
    · exact (take_suffix _).trans (take_suffix c)
    · exact take_suffix c
  · exact List.suffix_refl c

theorem takeRelop_suffix (c : Cur) : (takeRelop c).2 <:+ c := by
  unfold takeRelop
  simp only
  split
  · exact take_suffix c
  · split
    · split
      · exact take_suffix c
      · split
        · exact (take_suffix _).trans (take_suffix c)
        · split <;> exact take_suffix c
    · exact List.suffix_refl c

/-! ### no panic in the atom parser -/

theorem takeUseDefault_err {c : Cur} {e : Fault} (h : takeUseDefault c = .error e) : e ≠ .panic := by
  unfold takeUseDefault at h
  split at h
  · simp at h
  · simp only at h
    split at h
    · simp at h
    · split at h
      · simp at h
      · simp [Res.err] at h; subst h; simp

theorem takeUseDefault2_err {d : Nat} {c : Cur} {e : Fault} (h : takeUseDefault2 d c = .error e) :
    e ≠ .panic := by
  unfold takeUseDefault2 at h
  split at h
  · exact takeUseDefault_err h
  · simp at h

theorem parseUseDepItem_err {c : Cur} {e : Fault} (h : parseUseDepItem c = .error e) : e ≠ .panic := by
  unfold parseUseDepItem at h
  simp only at h
  repeat' split at h
  all_goals first
    | (simp [Res.err] at h; done)
    | (simp [Res.err] at h; subst h; simp; done)
    | (simp at h; subst h; exact takeUseDefault_err ‹_›)
    | (simp at h; subst h; exact takeUseDefault2_err ‹_›)

theorem parseUseDepsLoop_no_panic (n : Nat) (cur : Cur) :
    parseUseDepsLoop n cur ≠ .error .panic := by
  induction n generalizing cur with
  | zero => intro h; unfold parseUseDepsLoop fuelOut at h; cases h
  | succ n ih =>
    unfold parseUseDepsLoop
    split
    · rename_i e h
      intro hp; simp at hp; subst hp; exact parseUseDepItem_err h rfl
    · split
      · simp
      · split
        · simp [Res.err]
        · split
          · simp
          · rename_i e h
            intro hp; simp at hp; subst hp; exact ih _ h

theorem makeComparableGo_ne (s acc : Bytes) (h : s ≠ [] ∨ acc ≠ []) :
    makeComparableGo s acc ≠ [] := by
  induction s generalizing acc with
  | nil =>
    have : acc ≠ [] := by cases h with | inl h => exact absurd rfl h | inr h => exact h
    simp [makeComparableGo, flushDigits, this, padNumericSegment]
  | cons c cs ih =>
    unfold makeComparableGo
    split
    · exact ih _ (Or.inr (by simp))
    · simp

theorem versionFields_ok (da : ParsedAtom) (relop : Nat) (v : VerMatch)
    (h : v.baseVer ≠ []) : ∃ da', versionFields da relop v = .ok da' := by
  unfold versionFields
  simp only
  have : makeComparable v.baseVer ≠ [] := makeComparableGo_ne _ _ (Or.inl h)
  split
  · rename_i hl
    simp [List.getLast?_eq_none_iff] at hl
    exact absurd hl this
  · exact ⟨_, rfl⟩

theorem matchVersion_base_ne {s : Bytes} {v : VerMatch} (h : matchVersion s = some v) :
    v.baseVer ≠ [] := by
  unfold matchVersion at h
  split at h
  · simp at h
  · split at h
    · simp at h
    · simp only at h
      repeat' split at h
      all_goals first
        | (simp at h; done)
        | (simp at h; subst h; simp)

theorem findVersion_base_ne {s n : Bytes} {v : VerMatch} (h : findVersion s = some (n, v)) :
    v.baseVer ≠ [] := by
  induction s generalizing n with
  | nil => simp [findVersion] at h
  | cons c cs ih =>
    unfold findVersion at h
    split at h
    · split at h
      · rename_i v' hv
        simp at h; obtain ⟨_, rfl⟩ := h
        exact matchVersion_base_ne hv
      · simp at h
        obtain ⟨a, hab, _⟩ := h
        exact ih hab
    · simp at h
      obtain ⟨a, hab, _⟩ := h
      exact ih hab

theorem atomSplit_err {sc : AtomScan} {vnr : Bool} {e : Fault} (h : atomSplit sc vnr = .error e) :
    e ≠ .panic := by
  unfold atomSplit at h
  split at h
  · split at h
    · simp [Res.err] at h; subst h; simp
    · simp at h
  · split at h
    · simp [Res.err] at h; subst h; simp
    · simp at h

theorem atomSplit_ver {sc : AtomScan} {vnr : Bool} {n : Bytes} {r : Nat} {v : VerMatch}
    (h : atomSplit sc vnr = .ok (n, r, some v)) : v.baseVer ≠ [] := by
  unfold atomSplit at h
  split at h
  · rename_i np v' hf
    split at h
    · simp [Res.err] at h
    · simp at h; obtain ⟨_, _, rfl⟩ := h
      exact findVersion_base_ne hf
  · split at h
    · simp [Res.err] at h
    · simp at h

theorem atomBuild_no_panic (sc : AtomScan) (t : Bytes) (vnr : Bool) :
    atomBuild sc t vnr ≠ .error .panic := by
  unfold atomBuild
  split
  · rename_i e h
    intro hp; simp at hp; subst hp; exact atomSplit_err h rfl
  · rename_i namePart relop vm hs
    split
    · simp [Res.err]
    · rename_i cat name hcn
      simp only
      split
      · rename_i v
        obtain ⟨da', hda⟩ := versionFields_ok
          { blocker := sc.blocker, hardBlock := sc.hardBlock, repo := sc.repo, useDeps := sc.useDeps,
            category := cat, name := name, atom := t } relop v (atomSplit_ver hs)
        rw [hda]; simp
      · simp

/-! ### the scanning half: no panic, forward movement -/

theorem atomTrailer_err {ac : Cur} {dep : Bool} {e : Fault} (h : atomTrailer ac dep = .error e) :
    e ≠ .panic := by
  unfold atomTrailer at h
  split at h
  · split at h
    · split at h
      · simp at h
      · rename_i e' h1
        simp at h; subst h
        intro hp; subst hp
        exact parseUseDepsLoop_no_panic _ _ h1
    · simp at h
  · split at h
    · simp [Res.err] at h; subst h; simp
    · simp at h

theorem atomTrailer_suffix {ac : Cur} {dep : Bool} {u : List UseDep} {ac' : Cur}
    (h : atomTrailer ac dep = .ok (u, ac')) : ac' <:+ ac := by
  unfold atomTrailer at h
  split at h
  · split at h
    · split at h
      · simp at h; obtain ⟨_, rfl⟩ := h; exact takeUseDepString_suffix ac
      · simp at h
    · simp at h; obtain ⟨_, rfl⟩ := h; exact takeUseDepString_suffix ac
  · split at h
    · simp [Res.err] at h
    · simp at h; obtain ⟨_, rfl⟩ := h; exact List.suffix_refl _

theorem atomScan_err {ac0 : Cur} {dep : Bool} {e : Fault} (h : atomScan ac0 dep = .error e) :
    e ≠ .panic := by
  unfold atomScan at h
  simp only at h
  split at h
  · rename_i e' h1
    simp at h; subst h; exact atomTrailer_err h1
  · simp at h

theorem atomScan_suffix {ac0 : Cur} {dep : Bool} {sc : AtomScan} {ac : Cur}
    (h : atomScan ac0 dep = .ok (sc, ac)) :
    ac <:+ ac0 ∧ (sc.run ≠ [] → ac.length < ac0.length) := by
  unfold atomScan at h
  simp only at h
  split at h
  · simp at h
  · rename_i u ac' h1
    simp at h
    obtain ⟨hsc, rfl⟩ := h
    have s1 := atomTrailer_suffix h1
    have s2 := takeRepo_suffix (takeSlot (List.dropWhile isNameVerChar (takeRelop (takeBlockers ac0).2.2).2)).2.2.2
    have s3 := takeSlot_suffix (List.dropWhile isNameVerChar (takeRelop (takeBlockers ac0).2.2).2)
    have s4 : List.dropWhile isNameVerChar (takeRelop (takeBlockers ac0).2.2).2 <:+ (takeRelop (takeBlockers ac0).2.2).2 :=
      List.dropWhile_suffix _
    have s5 := takeRelop_suffix (takeBlockers ac0).2.2
    have s6 := takeBlockers_suffix ac0
    have sA := s1.trans (s2.trans s3)
    refine ⟨sA.trans (s4.trans (s5.trans s6)), ?_⟩
    intro hrun
    subst hsc
    simp only at hrun
    have hl : (List.takeWhile isNameVerChar (takeRelop (takeBlockers ac0).2.2).2).length +
        (List.dropWhile isNameVerChar (takeRelop (takeBlockers ac0).2.2).2).length =
        (takeRelop (takeBlockers ac0).2.2).2.length := by
      rw [← List.length_append, List.takeWhile_append_dropWhile]
    have hpos : 0 < (List.takeWhile isNameVerChar (takeRelop (takeBlockers ac0).2.2).2).length :=
      List.length_pos_iff.mpr hrun
    have l1 := sA.length_le
    have l2 := (s5.trans s6).length_le
    omega

theorem matchCatName_nil : matchCatName [] = none := by
  simp [matchCatName, splitOn, matchName]

theorem atomBuild_run_ne {sc : AtomScan} {t : Bytes} {vnr : Bool} {pa : ParsedAtom}
    (h : atomBuild sc t vnr = .ok pa) : sc.run ≠ [] := by
  intro hr
  unfold atomBuild at h
  split at h
  · simp at h
  · rename_i namePart relop vm hs
    have : namePart = [] := by
      unfold atomSplit at hs
      rw [hr] at hs
      simp [findVersion] at hs
      split at hs
      all_goals (try simp [Res.err] at hs)
      all_goals (first | exact hs.1 | exact hs.1.symm)
    subst this
    rw [matchCatName_nil] at h
    simp [Res.err] at h

theorem rawParse_no_panic (ac0 : Cur) (vnr dep : Bool) :
    rawParseAtomAtCursor ac0 vnr dep ≠ .error .panic := by
  unfold rawParseAtomAtCursor
  split
  · rename_i e h
    intro hp; simp at hp; subst hp; exact atomScan_err h rfl
  · split
    · rename_i e h
      intro hp; simp at hp; subst hp; exact atomBuild_no_panic _ _ _ h
    · simp

theorem rawParse_consumes {ac0 : Cur} {vnr dep : Bool} {pa : ParsedAtom} {ac : Cur}
    (h : rawParseAtomAtCursor ac0 vnr dep = .ok (pa, ac)) :
    ac <:+ ac0 ∧ ac.length < ac0.length := by
  unfold rawParseAtomAtCursor at h
  split at h
  · simp at h
  · rename_i sc ac' hs
    split at h
    · simp at h
    · rename_i pa' hb
      simp at h
      obtain ⟨_, rfl⟩ := h
      have := atomScan_suffix hs
      exact ⟨this.1, this.2 (atomBuild_run_ne hb)⟩

/-! ### the tokenizer never panics -/

theorem classify_no_panic {tok : Bytes} (h : tok ≠ []) : classify tok ≠ .error .panic := by
  intro hp
  unfold classify at hp
  simp only at hp
  repeat' split at hp
  all_goals first
    | (simp [Res.panic] at hp; done)
    | (rename_i hl; simp [List.getLast?_eq_none_iff] at hl; exact h hl)

theorem dropWhile_head {p : Nat → Bool} {l : List Nat} {c : Nat} {cs : List Nat}
    (h : l.dropWhile p = c :: cs) : p c = false := by
  induction l with
  | nil => simp at h
  | cons x xs ih =>
    by_cases hx : p x = true
    · simp [List.dropWhile, hx] at h; exact ih h
    · simp [List.dropWhile, hx] at h
      obtain ⟨rfl, _⟩ := h
      simpa using hx

theorem getToken_no_panic (ac : Cur) : getToken ac ≠ .error .panic := by
  unfold getToken
  simp only
  split
  · simp
  · rename_i hne
    split
    · rename_i e he
      intro hp; simp at hp; subst hp
      refine classify_no_panic ?_ he
      cases hd : List.dropWhile (fun c => decide (c ≤ 32)) ac with
      | nil => simp [hd] at hne
      | cons c cs =>
        have hc := dropWhile_head hd
        simp at hc
        have : decide (c > 32) = true := by simp; omega
        simp [List.takeWhile, this]
    · simp

end Lc.Lemmas.Depend
