/-
  Bridge between the model's per-import predicates (`impMissing`, `impMounted`, `impWrong`
  over the `Mounts` view) and the per-import code of the documented classification
  (`Spec.World.stateOf`, over the kernel table).  Helper lemmas for
  Props/C08 `state_eq_spec_partial`.
-/
import Lc.Lemmas.StateProbe
import Lc.Spec.World

namespace Lc.StateProbe
open Lc Lc.Layers Lc.Mountinfo Lc.Spec.World

/-- the per-import code of `stateOf`: 0 = directory or host source missing, 1 = not mounted,
    2 = mounted as configured, 3 = something else mounted -/
def specCode (i : Inst) (e : Expanded) : Nat :=
  if !Fs.lexists i.fs e.mount then 0
  else if !Fs.lexists i.fs e.source && !underLayers i e.source then 0
  else match topAt i.mnts e.mount with
    | none => 1
    | some m => if importAsConfigured i m e.fstype e.source then 2 else 3

/-- what is assumed per import about the two views of the mount table -/
structure ImportBridge (i : Inst) (m : Mounts) (e : Expanded) : Prop where
  /-- the resolved source is an absolute path (the expansion rejects relative ones; an
      empty source is not produced by the layerconfig reader) -/
  abs : isAbs e.source = true
  /-- "inside the layers directory": walking up with path.Dir (code) = prefix test (manual) -/
  inLayers : inAnyLayerDirectory i.cfg (e.source.length + 1) e.source = underLayers i e.source
  /-- ProbeMounts shows a mount on the mountpoint iff the kernel table has one -/
  mounted : (getMount m e.mount).isSome = (topAt i.mnts e.mount).isSome
  /-- `MountSourceIsExpected` answers what the documented comparison answers (this is where
      the finding nonbind-import-fstype-not-compared is excluded) -/
  expected : ∀ mnt km, getMount m e.mount = some mnt → topAt i.mnts e.mount = some km →
    mountSourceIsExpected m mnt e.source = .ok (importAsConfigured i km e.fstype e.source)

theorem bridge_missing (i : Inst) (m : Mounts) (e : Expanded) (h : ImportBridge i m e) :
    (specCode i e == 0) = impMissing i.cfg i.fs e := by
  unfold specCode impMissing
  rw [h.abs, h.inLayers]
  cases Fs.lexists i.fs e.mount <;> cases Fs.lexists i.fs e.source <;> cases underLayers i e.source <;>
    simp <;> (split <;> (try split) <;> simp)

theorem bridge_wrong (i : Inst) (m : Mounts) (e : Expanded) (h : ImportBridge i m e) :
    (specCode i e == 3) = impWrong i.cfg i.fs m e := by
  have hm := h.mounted
  have hx := h.expected
  unfold specCode impWrong impMissing
  rw [h.abs, h.inLayers]
  cases hg : getMount m e.mount with
  | none =>
    rw [hg] at hm
    have : topAt i.mnts e.mount = none := by
      cases ht : topAt i.mnts e.mount with
      | none => rfl
      | some km => rw [ht] at hm; simp at hm
    rw [this]
    cases Fs.lexists i.fs e.mount <;> cases Fs.lexists i.fs e.source <;> cases underLayers i e.source <;> simp
  | some mnt =>
    rw [hg] at hm
    cases ht : topAt i.mnts e.mount with
    | none => rw [ht] at hm; simp at hm
    | some km =>
      have := hx mnt km hg ht
      simp only [this]
      cases importAsConfigured i km e.fstype e.source <;>
        cases Fs.lexists i.fs e.mount <;> cases Fs.lexists i.fs e.source <;>
          cases underLayers i e.source <;> simp

theorem bridge_panic (i : Inst) (m : Mounts) (e : Expanded) (h : ImportBridge i m e) :
    impPanic i.cfg i.fs m e = false := by
  have hm := h.mounted
  have hx := h.expected
  unfold impPanic
  cases hg : getMount m e.mount with
  | none => simp
  | some mnt =>
    rw [hg] at hm
    cases ht : topAt i.mnts e.mount with
    | none => rw [ht] at hm; simp at hm
    | some km =>
      have := hx mnt km hg ht
      simp [this]

theorem bridge_mounted (i : Inst) (m : Mounts) (e : Expanded) (h : ImportBridge i m e)
    (hw : impWrong i.cfg i.fs m e = false) :
    (specCode i e == 2) = impMounted i.cfg i.fs m e := by
  have hm := h.mounted
  have hx := h.expected
  have h3 := bridge_wrong i m e h
  rw [hw] at h3
  have h0 := bridge_missing i m e h
  unfold impMounted
  rw [← h0]
  unfold specCode at h3 ⊢
  cases hg : getMount m e.mount with
  | none =>
    rw [hg] at hm
    have : topAt i.mnts e.mount = none := by
      cases ht : topAt i.mnts e.mount with
      | none => rfl
      | some km => rw [ht] at hm; simp at hm
    rw [this]
    cases Fs.lexists i.fs e.mount <;> cases Fs.lexists i.fs e.source <;> cases underLayers i e.source <;> simp
  | some mnt =>
    rw [hg] at hm
    cases ht : topAt i.mnts e.mount with
    | none => rw [ht] at hm; simp at hm
    | some km =>
      simp only [ht] at h3 ⊢
      generalize importAsConfigured i km e.fstype e.source = c at h3 ⊢
      revert h3
      cases c <;>
        cases Fs.lexists i.fs e.mount <;> cases Fs.lexists i.fs e.source <;>
          cases underLayers i e.source <;> simp

/-- closed form of the documented classification on base layers without exports -/
theorem stateOf_base (i : Inst) (ls : List DLayer) (users : List (Bytes × List User)) (dl : DLayer)
    (imports : List Expanded)
    (hn : dl.file.nmsgs = 0) (hb : dl.file.base = []) (he : dl.file.exports = [])
    (hdir : Fs.isDir i.fs (buildDir i dl.name) = true)
    (himp : dl.file.mounts.map (fun imp => (pathJoin [buildDir i dl.name, imp.mount],
        resolveSource i ls dl.name imp.source, imp.fstype))
      = imports.map (fun e => (e.mount, some e.source, e.fstype))) :
    stateOf i ls users dl none =
      if !(fhsDirs.all fun x => Fs.isDir i.fs (pathJoin [buildDir i dl.name, x])) then .complete
      else if (imports.map (specCode i)).any (fun x => x == 3) then .error
      else if (imports.map (specCode i)).any (fun x => x == 0) then .inhabited
      else if (((imports.map (specCode i)).filter (fun x => x == 2)).length == 0) then .mountable
      else if ((imports.map (specCode i)).filter (fun x => x == 2)).length < imports.length then
        .partialmount
      else if mountBusy i users dl.name || overlain i dl.name then .mountedBusy
      else .mounted := by
  have hnone : ((List.map (fun e : Expanded => (e.mount, some e.source, e.fstype)) imports).any
      fun x => x.snd.fst.isNone) = false := by
    rw [List.any_map]
    simp
  unfold stateOf
  simp only [hn, hb, he, hdir, himp, List.isEmpty_nil, Bool.not_true, Bool.false_and, Nat.lt_irrefl,
    ↓reduceIte, Bool.false_eq_true, List.any_nil, Bool.or_false, gt_iff_lt, hnone, Nat.add_zero,
    List.map_map, List.length_map]
  rfl

theorem any_map_congr {α β} (f : α → β) (p : β → Bool) (q : α → Bool) (xs : List α)
    (h : ∀ e ∈ xs, p (f e) = q e) : (xs.map f).any p = xs.any q := by
  induction xs with
  | nil => rfl
  | cons x xs ih =>
    simp only [List.map_cons, List.any_cons]
    rw [h x (List.mem_cons_self ..), ih (fun e he => h e (List.mem_cons_of_mem _ he))]

theorem filter_map_length {α β} (f : α → β) (p : β → Bool) (q : α → Bool) (xs : List α)
    (h : ∀ e ∈ xs, p (f e) = q e) : ((xs.map f).filter p).length = xs.countP q := by
  induction xs with
  | nil => rfl
  | cons x xs ih =>
    simp only [List.map_cons, List.filter_cons, List.countP_cons]
    rw [h x (List.mem_cons_self ..)]
    have := ih (fun e he => h e (List.mem_cons_of_mem _ he))
    cases q x <;> simp [this]

/-- base layer without the FHS directories: `complete` -/
theorem findLayerstate_base_nofhs (cfg : Config) (fs : Fs.Tree) (d : Defs) (l : Layer)
    (hs : ¬ l.state < S_complete) (hb : l.base.length = 0)
    (hf : minimalBuildDirsPresent fs (buildPath cfg l) = false) :
    ∃ l', findLayerstate cfg fs d l = .ok l' ∧ l'.state = S_complete := by
  rw [findLayerstate_eq]
  unfold findLayerstate2
  simp only [hs, ↓reduceIte]
  generalize hlc : ({ l with mounts := getMountAndSubmounts d.mounts (buildPath cfg l),
                             state := S_complete } : Layer) = lc
  have hbase : lc.base = l.base := by subst hlc; rfl
  have hbp : buildPath cfg lc = buildPath cfg l := by subst hlc; rfl
  rw [preCheck_base cfg fs d lc (by rw [hbase]; exact hb), hbp, hf]
  refine ⟨lc, by simp [afterPre], by subst hlc; rfl⟩

end Lc.StateProbe
