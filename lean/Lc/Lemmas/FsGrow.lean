/-
  `mount` only ever adds entries to the file-system tree (os.MkdirAll of missing directories,
  os.Symlink on free paths): `FsExt fs fs'` — `fs` is an initial segment of `fs'`.  Lookups
  that succeeded in `fs` give the same answer in `fs'` (`get`, `stat`, `readFile`), the
  directory listing only grows, and therefore every layer `FindLayers` read from `fs` is read
  again, with the same record, from `fs'` (`readLayerFiles_ext`).
  Helper lemmas for Props/C01 (`mount_idempotent`).
-/
import Lc.Lemmas.FsMkdir
import Lc.Lemmas.ExportFs
import Lc.Model.Layers
import Lc.Lemmas.RunM

namespace Lc.FsGrow
open Lc Lc.Fs Lc.Layers

/-- `fs` is an initial segment of `fs'` -/
def FsExt (fs fs' : Tree) : Prop := ∃ extra, fs' = fs ++ extra

theorem FsExt.refl (fs : Tree) : FsExt fs fs := ⟨[], by simp⟩

theorem FsExt.trans {a b c : Tree} (h1 : FsExt a b) (h2 : FsExt b c) : FsExt a c := by
  obtain ⟨x, hx⟩ := h1
  obtain ⟨y, hy⟩ := h2
  exact ⟨x ++ y, by rw [hy, hx, List.append_assoc]⟩

theorem mkStep_ext {acc acc' : Tree} {d : Bytes} (h : mkStep acc d = .ok acc') : FsExt acc acc' := by
  unfold mkStep at h
  split at h
  · split at h
    · cases h
    · rename_i hg
      cases h
      have hg' : Fs.get acc d = none := by simpa using hg
      exact ⟨_, set_new acc d .dir hg'⟩
  · cases h; exact FsExt.refl _
  · cases h

theorem foldlM_mkStep_ext (ds : List Bytes) : ∀ (acc acc' : Tree),
    ds.foldlM mkStep acc = .ok acc' → FsExt acc acc' := by
  induction ds with
  | nil =>
    intro acc acc' h
    simp only [List.foldlM_nil, pure, Except.pure, Except.ok.injEq] at h
    subst h; exact FsExt.refl _
  | cons d ds ih =>
    intro acc acc' h
    simp only [List.foldlM_cons, bind, Except.bind] at h
    split at h
    · cases h
    · rename_i a ha
      exact (mkStep_ext ha).trans (ih a acc' h)

theorem mkdirAll_ext {fs fs' : Tree} {p : Bytes} (h : mkdirAll fs p = .ok fs') : FsExt fs fs' := by
  rw [mkdirAll_eq] at h
  exact foldlM_mkStep_ext _ fs fs' h

theorem symlink_ext {fs fs' : Tree} {t link : Bytes} (h : symlink fs t link = .ok fs') : FsExt fs fs' := by
  unfold symlink at h
  split at h
  · cases h
  · rename_i hl
    split at h
    · cases h
    · cases h
      have hg : Fs.get fs link = none := by
        unfold lexists at hl
        cases hgg : Fs.get fs link with
        | none => rfl
        | some x => rw [hgg] at hl; simp at hl
      exact ⟨_, set_new fs link _ hg⟩

/-! ### lookups that succeeded keep their answer -/

theorem get_ext {fs fs' : Tree} (h : FsExt fs fs') {q : Bytes} {x : Node} (hg : Fs.get fs q = some x) :
    Fs.get fs' q = some x := by
  obtain ⟨extra, rfl⟩ := h
  unfold Fs.get at hg ⊢
  rw [List.find?_append]
  split at hg
  · rename_i e he
    rw [he]
    exact hg
  · cases hg

theorem statAux_ext {fs fs' : Tree} (h : FsExt fs fs') : ∀ (k : Nat) (q : Bytes) (x : Node),
    statAux k fs q = some x → statAux k fs' q = some x := by
  intro k
  induction k with
  | zero => intro q x hs; simp [statAux] at hs
  | succ k ih =>
    intro q x hs
    unfold statAux at hs ⊢
    cases hg : Fs.get fs q with
    | none => rw [hg] at hs; cases hs
    | some y =>
      rw [get_ext h hg]
      rw [hg] at hs
      cases y with
      | symlink t => exact ih _ _ hs
      | dir => exact hs
      | file c => exact hs

theorem readFile_ext {fs fs' : Tree} (h : FsExt fs fs') {p c : Bytes} (hr : readFile fs p = some c) :
    readFile fs' p = some c := by
  unfold readFile stat at hr ⊢
  cases hs : statAux 8 fs p with
  | none => rw [hs] at hr; cases hr
  | some x =>
    rw [statAux_ext h 8 p x hs]
    rw [hs] at hr
    exact hr

theorem children_ext {fs fs' : Tree} (h : FsExt fs fs') (d : Bytes) :
    ∃ more, children fs' d = children fs d ++ more := by
  obtain ⟨extra, rfl⟩ := h
  unfold children
  exact ⟨_, by rw [List.filter_append, List.map_append]⟩

/-! ### `FindLayers` reads every old layer again -/

/-- the record `readLayerFiles` builds for the directory entry `n` (if it is a layer) -/
def layerOfEntry (cfg : Config) (fs : Tree) (n : Bytes) : Option Layer :=
  if !isLegalLayerName n then none else
  match Fs.readFile fs (pathJoin [layerPath cfg n, b!"layerconfig"]) with
  | some content => some (layerOfFile cfg n (Layerfile.readLayerFile content))
  | none => none

theorem readLayerFiles_eq (cfg : Config) (fs : Tree) (names : List Bytes) :
    readLayerFiles cfg fs names = names.filterMap (layerOfEntry cfg fs) := rfl

theorem layerOfEntry_name {cfg : Config} {fs : Tree} {n : Bytes} {l : Layer}
    (h : layerOfEntry cfg fs n = some l) : l.name = n := by
  unfold layerOfEntry at h
  split at h
  · cases h
  · split at h
    · cases h; rfl
    · cases h

theorem find?_filterMap_name (g : Bytes → Option Layer) (hg : ∀ x r, g x = some r → r.name = x)
    (n : Bytes) : ∀ (names : List Bytes),
    (names.filterMap g).find? (·.name == n) = if n ∈ names then g n else none := by
  intro names
  induction names with
  | nil => simp
  | cons x xs ih =>
    rw [List.filterMap_cons]
    by_cases hx : x = n
    · subst hx
      cases hgx : g x with
      | none => simp [ih]; intro _; exact hgx.symm ▸ rfl
      | some r =>
        have := hg x r hgx
        simp [this]
    · cases hgx : g x with
      | none =>
        simp only [ih, List.mem_cons]
        have : ¬ n = x := fun e => hx e.symm
        simp [this]
      | some r =>
        have hr := hg x r hgx
        have hne : (r.name == n) = false := by rw [hr]; simpa using hx
        simp only [List.find?_cons, hne, ih, List.mem_cons]
        have : ¬ n = x := fun e => hx e.symm
        simp [this]

theorem findLayer_readLayerFiles (cfg : Config) (fs : Tree) (names : List Bytes) (order : List Bytes)
    (m : Mountinfo.Mounts) (n : Bytes) :
    findLayer { layers := readLayerFiles cfg fs names, order := order, mounts := m } n =
      if n ∈ names then layerOfEntry cfg fs n else none := by
  unfold findLayer
  rw [readLayerFiles_eq]
  exact find?_filterMap_name _ (fun x r h => layerOfEntry_name h) n names

theorem layerOfEntry_ext {cfg : Config} {fs fs' : Tree} (h : FsExt fs fs') {n : Bytes} {l : Layer}
    (hl : layerOfEntry cfg fs n = some l) : layerOfEntry cfg fs' n = some l := by
  unfold layerOfEntry at hl ⊢
  split at hl
  · cases hl
  · rename_i hlegal
    rw [if_neg hlegal]
    split at hl
    · rename_i c hc
      rw [readFile_ext h hc]
      exact hl
    · cases hl

/-- the layers of a `FindLayers` result are the records of the directory entries -/
theorem findLayers_layers {cfg : Config} {w w' : World} {d : Defs}
    (h : (findLayers cfg).run.run w = (.ok d, w')) :
    w' = w ∧ d.layers = readLayerFiles cfg w.fs (Fs.children w.fs cfg.layerdirs) ∧ d.mounts = {} := by
  unfold findLayers fail reorder at h
  simp only [RunM.run_bind, RunM.run_getW, RunM.run_ite, RunM.run_throw] at h
  by_cases h1 : Fs.isDir w.fs cfg.layerdirs = true
  · by_cases h2 : checkInheritance (readLayerFiles cfg w.fs (Fs.children w.fs cfg.layerdirs)) = true
    · simp only [h1, h2, Bool.not_true, Bool.false_eq_true, if_false] at h
      cases hn : normalizeOrder (readLayerFiles cfg w.fs (Fs.children w.fs cfg.layerdirs)) with
      | error e => rw [hn] at h; simp only at h; cases h
      | ok o =>
        rw [hn] at h
        simp only at h
        injection h with ha hb
        injection ha with ha
        subst ha
        exact ⟨hb.symm, rfl, rfl⟩
    · simp [h1, h2] at h
      injection h with ha _; cases ha
  · simp [h1] at h
    injection h with ha _; cases ha

/-- every layer `FindLayers` found in a tree is found again, with the same record, in a tree
    that only gained entries -/
theorem findLayers_found_ext {cfg : Config} {w w1 wa wb : World} {d d1 : Defs} (hfs : FsExt w.fs w1.fs)
    (h : (findLayers cfg).run.run w = (.ok d, wa)) (h1 : (findLayers cfg).run.run w1 = (.ok d1, wb)) :
    ∀ n l, findLayer d n = some l → findLayer d1 n = some l := by
  obtain ⟨_, hl, _⟩ := findLayers_layers h
  obtain ⟨_, hl1, _⟩ := findLayers_layers h1
  intro n l hn
  have e : ∀ (dd : Defs) (ls : List Layer), dd.layers = ls →
      findLayer dd n = findLayer { layers := ls, order := dd.order, mounts := dd.mounts } n := by
    intro dd ls hh; unfold findLayer; rw [hh]
  rw [e d _ hl, findLayer_readLayerFiles] at hn
  rw [e d1 _ hl1, findLayer_readLayerFiles]
  split at hn
  · rename_i hmem
    obtain ⟨more, hmore⟩ := children_ext hfs cfg.layerdirs
    have : n ∈ Fs.children w1.fs cfg.layerdirs := by rw [hmore]; simp [hmem]
    rw [if_pos this]
    exact layerOfEntry_ext hfs hn
  · cases hn

end Lc.FsGrow
