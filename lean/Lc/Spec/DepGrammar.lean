/-
  Specification side of C14: the grammar of package atoms and dependency strings of the
  Package Manager Specification (PMS 8.2 dependency specification format, 8.3 package
  dependency specifications) as abstract syntax trees with printers, what a faithful
  parser must report for a tree (`expectAtom`), and an independent structural reading of
  an arbitrary dependency string (`readDeps`).  Nothing here refers to the model.
  Core Lean only.
-/
import Lc.Base.Bytes

namespace Lc.Spec.DepGrammar
open Lc

/-! ### atoms -/

/-- `[flag]`, `[flag=]`, `[!flag=]`, `[flag?]`, `[!flag?]`, `[-flag]` with an optional
    default `(+)` / `(-)` directly after the flag name -/
structure UseDepAst where
  flag : Bytes
  kind : Nat     -- 0 [f]  1 [f=]  2 [!f=]  3 [f?]  4 [!f?]  5 [-f]
  dflt : Nat     -- 0 none 1 (+)  2 (-)
  deriving Repr, DecidableEq

/-- version: `1.2.3`, optional letter, suffixes `_alpha|_beta|_pre|_rc|_p` with optional
    number, optional revision `-rN` -/
structure VersionAst where
  nums : List Bytes
  letter : Option Nat
  suffixes : List (Nat × Bytes)   -- 0 alpha 1 beta 2 pre 3 rc 4 p ; digits (may be empty)
  rev : Option Bytes
  deriving Repr, DecidableEq

structure AtomAst where
  blocker : Nat := 0              -- 0 none, 1 `!`, 2 `!!`
  op : Nat := 0                   -- 0 none 1 `<` 2 `<=` 3 `=` 4 `>=` 5 `>` 6 `~`
  glob : Bool := false            -- `=cat/pkg-1.2*`
  category : Bytes
  name : Bytes
  version : Option VersionAst := none
  slot : Option (Bytes × Option Bytes) := none
  slotOp : Nat := 0               -- 0 none 1 `*` 2 `=`
  repo : Option Bytes := none
  useDeps : List UseDepAst := []
  deriving Repr, DecidableEq

def printOp : Nat → Bytes
  | 1 => b!"<" | 2 => b!"<=" | 3 => b!"=" | 4 => b!">=" | 5 => b!">" | 6 => b!"~" | _ => []

def suffixName : Nat → Bytes
  | 0 => b!"_alpha" | 1 => b!"_beta" | 2 => b!"_pre" | 3 => b!"_rc" | _ => b!"_p"

def printVersion (v : VersionAst) : Bytes :=
  joinWith 46 v.nums ++ (match v.letter with | some l => [l] | none => []) ++
  (v.suffixes.flatMap fun s => suffixName s.1 ++ s.2) ++
  (match v.rev with | some r => b!"-r" ++ r | none => [])

def printUseDep (u : UseDepAst) : Bytes :=
  let d := if u.dflt == 1 then b!"(+)" else if u.dflt == 2 then b!"(-)" else []
  match u.kind with
  | 0 => u.flag ++ d
  | 1 => u.flag ++ d ++ b!"="
  | 2 => 33 :: u.flag ++ d ++ b!"="
  | 3 => u.flag ++ d ++ b!"?"
  | 4 => 33 :: u.flag ++ d ++ b!"?"
  | _ => 45 :: u.flag ++ d

def printAtom (a : AtomAst) : Bytes :=
  (if a.blocker == 1 then b!"!" else if a.blocker == 2 then b!"!!" else []) ++
  printOp a.op ++
  (if a.category.isEmpty then [] else a.category ++ [47]) ++ a.name ++
  (match a.version with | some v => 45 :: printVersion v | none => []) ++
  (if a.glob then [42] else []) ++
  (match a.slot with
   | some (s, some sub) => 58 :: s ++ 47 :: sub ++ (if a.slotOp == 2 then [61] else [])
   | some (s, none) => 58 :: s ++ (if a.slotOp == 2 then [61] else [])
   | none => if a.slotOp == 1 then b!":*" else if a.slotOp == 2 then b!":=" else []) ++
  (match a.repo with | some r => b!"::" ++ r | none => []) ++
  (if a.useDeps.isEmpty then [] else 91 :: joinWith 44 (a.useDeps.map printUseDep) ++ [93])

/-! #### well-formedness of the abstract syntax (what the generator must respect) -/

def isDig (c : Nat) : Bool := decide (48 ≤ c ∧ c ≤ 57)
def isAlpha (c : Nat) : Bool := decide ((97 ≤ c ∧ c ≤ 122) ∨ (65 ≤ c ∧ c ≤ 90))
def isAlnumU (c : Nat) : Bool := isDig c || isAlpha c || c == 95

def digits (s : Bytes) : Bool := !s.isEmpty && s.all isDig

/-- "looks like a version": dotted numbers, optional letter, optional `_word`, optional
    `-rN`.  Wider than PMS 3.2 in that any `_word` counts as a suffix (the code under
    verification reads versions that way), so the name rule below excludes slightly more
    names than PMS does (e.g. `foo-2_w`); this is a stated restriction of the verified
    domain. -/
def looksLikeVersion (s : Bytes) : Bool :=
  let core := s.takeWhile fun c => isDig c || c == 46
  let r1 := s.dropWhile fun c => isDig c || c == 46
  let coreOk := (splitOn 46 core).all digits
  let r2 := match r1 with
    | c :: cs => if decide (97 ≤ c ∧ c ≤ 122) then cs else r1
    | [] => r1
  let sfx : Option Bytes := match r2 with
    | 95 :: cs => if (cs.takeWhile isAlnumU).isEmpty then none else some (cs.dropWhile isAlnumU)
    | _ => some r2
  match sfx with
  | none => false
  | some r3 =>
    coreOk && (r3.isEmpty ||
      (match r3 with
       | 45 :: 114 :: ds => digits ds
       | _ => false))

/-- all proper suffixes that follow a hyphen -/
def afterHyphens : Bytes → List Bytes
  | [] => []
  | c :: cs => if c == 45 then cs :: afterHyphens cs else afterHyphens cs

/-- PMS 3.1.2 package names: `[A-Za-z0-9+_-]`, not starting with `-` or `+`, not ending in
    a hyphen followed by something that looks like a version -/
def wfName (s : Bytes) : Bool :=
  (match s with
   | [] => false
   | c :: cs => isAlnumU c && cs.all fun x => isAlnumU x || x == 43 || x == 45) &&
  (afterHyphens s).all fun r => !looksLikeVersion r

/-- PMS 3.1.1 category names: `[A-Za-z0-9+_.-]`, not starting with `-`, `.` or `+` -/
def wfCategory (s : Bytes) : Bool :=
  match s with
  | [] => false
  | c :: cs => isAlnumU c && cs.all fun x => isAlnumU x || x == 43 || x == 45 || x == 46

/-- PMS 3.1.3 slot names: `[A-Za-z0-9+_.-]`, not starting with `-`, `.` or `+` -/
def wfSlot (s : Bytes) : Bool := wfCategory s

/-- PMS 3.1.5 repository names: `[A-Za-z0-9_-]`, not starting with `-` -/
def wfRepo (s : Bytes) : Bool :=
  match s with
  | [] => false
  | c :: cs => isAlnumU c && cs.all fun x => isAlnumU x || x == 45

/-- PMS 3.1.4 USE flag names: `[A-Za-z0-9+_@-]`, starting with an alphanumeric -/
def wfFlag (s : Bytes) : Bool :=
  match s with
  | [] => false
  | c :: cs => (isDig c || isAlpha c) && cs.all fun x => isAlnumU x || x == 43 || x == 64 || x == 45

def wfVersion (v : VersionAst) : Bool :=
  !v.nums.isEmpty && v.nums.all digits &&
  (match v.letter with | some l => decide (97 ≤ l ∧ l ≤ 122) | none => true) &&
  v.suffixes.all (fun s => decide (s.1 ≤ 4) && s.2.all isDig) &&
  (match v.rev with | some r => digits r | none => true)

def wfUseDep (u : UseDepAst) : Bool := wfFlag u.flag && decide (u.kind ≤ 5) && decide (u.dflt ≤ 2)

def wfAtom (a : AtomAst) : Bool :=
  decide (a.blocker ≤ 2) && decide (a.op ≤ 6) &&
  (a.category.isEmpty || wfCategory a.category) && wfName a.name &&
  (match a.version with | some v => wfVersion v | none => a.op == 0) &&
  (!a.glob || (a.op == 3 && a.version.isSome)) &&
  (match a.slot with
   | some (s, some sub) => wfSlot s && wfSlot sub && a.slotOp != 1
   | some (s, none) => wfSlot s && a.slotOp != 1
   | none => decide (a.slotOp ≤ 2)) &&
  (match a.repo with | some r => wfRepo r | none => true) &&
  a.useDeps.all wfUseDep

/-! #### what a faithful parser reports (in the representation the code documents:
     every maximal digit run left-padded with zeros to width 5; suffix names abbreviated
     `_a _b _c _d _p`, no suffix = `_n`, no revision = `r00000`, no slot = `0`) -/

def pad5 (d : Bytes) : Bytes := List.replicate (5 - d.length) 48 ++ d

/-- pad every maximal digit run -/
def padRuns (s : Bytes) : Bytes :=
  (s.splitBy fun a b => isDig a == isDig b).flatMap fun g =>
    match g with
    | c :: _ => if isDig c then pad5 g else g
    | [] => []

structure Expect where
  atom : Bytes
  category : Bytes
  name : Bytes
  baseVer : Bytes
  suffix : Bytes
  revision : Bytes
  slot : Bytes
  subslot : Bytes
  repo : Bytes
  verRelop : Nat
  slotRelop : Nat
  anySlot : Bool
  sameSlot : Bool
  blocker : Bool
  hardBlock : Bool
  useDeps : List UseDepAst
  deriving Repr, DecidableEq

def suffixCode : Nat → Bytes
  | 0 => b!"_a" | 1 => b!"_b" | 2 => b!"_c" | 3 => b!"_d" | _ => b!"_p"

def expectFields (a : AtomAst) : Expect :=
  let anySlot := a.slot.isNone && a.slotOp != 0
  let slot := match a.slot with | some (s, _) => padRuns s | none => b!"00000"
  let sub := match a.slot with | some (_, some x) => padRuns x | _ => slot
  { atom := printAtom a, category := a.category, name := a.name,
    baseVer := match a.version with
      | some v => joinWith 46 (v.nums.map pad5) ++ (match v.letter with | some l => [32, l] | none => [])
      | none => [],
    suffix := match a.version with
      | some v => if v.suffixes.isEmpty then b!"_n"
                  else v.suffixes.flatMap fun s => suffixCode s.1 ++ (if s.2.isEmpty then [] else pad5 s.2)
      | none => [],
    revision := match a.version with
      | some v => (match v.rev with | some r => 114 :: pad5 r | none => b!"r00000")
      | none => [],
    slot := if anySlot then [] else slot,
    subslot := if anySlot then [] else sub,
    repo := a.repo.getD [],
    verRelop := if a.version.isNone then 0 else if a.glob then 6 else if a.op == 0 then 3 else a.op,
    slotRelop := if a.slot.isSome then 3 else 0,
    anySlot := anySlot, sameSlot := a.slotOp == 2,
    blocker := a.blocker ≥ 1, hardBlock := a.blocker == 2,
    useDeps := a.useDeps }

/-- the atom is acceptable in the given context: `versionNeedsRelop` (a version requires an
    operator) and `asDependencyAtom` (USE dependencies allowed) -/
def validIn (a : AtomAst) (versionNeedsRelop asDependencyAtom : Bool) : Bool :=
  wfAtom a && !(versionNeedsRelop && a.version.isSome && a.op == 0) &&
  (asDependencyAtom || a.useDeps.isEmpty)

/-! ### dependency trees -/

mutual
inductive Dep where
  | atom (a : AtomAst)
  | allOf (ds : DepL)
  | anyOf (ds : DepL)
  | exactlyOne (ds : DepL)
  | atMostOne (ds : DepL)
  | useCond (flag : Bytes) (negated : Bool) (ds : DepL)
inductive DepL where
  | nil
  | cons (d : Dep) (ds : DepL)
end

mutual
/-- the token sequence of a tree -/
def Dep.toks : Dep → List Bytes
  | .atom a => [printAtom a]
  | .allOf ds => b!"(" :: ds.toks ++ [b!")"]
  | .anyOf ds => b!"||" :: b!"(" :: ds.toks ++ [b!")"]
  | .exactlyOne ds => b!"^^" :: b!"(" :: ds.toks ++ [b!")"]
  | .atMostOne ds => b!"??" :: b!"(" :: ds.toks ++ [b!")"]
  | .useCond f neg ds => ((if neg then 33 :: f else f) ++ [63]) :: b!"(" :: ds.toks ++ [b!")"]
def DepL.toks : DepL → List Bytes
  | .nil => []
  | .cons d ds => d.toks ++ ds.toks
end

/-- the canonical printed form: tokens separated by single spaces -/
def printDeps (l : DepL) : Bytes := joinWith 32 l.toks

mutual
def Dep.atoms : Dep → List AtomAst
  | .atom a => [a]
  | .allOf ds | .anyOf ds | .exactlyOne ds | .atMostOne ds | .useCond _ _ ds => ds.atoms
def DepL.atoms : DepL → List AtomAst
  | .nil => []
  | .cons d ds => d.atoms ++ ds.atoms
end

mutual
def Dep.flagsOk : Dep → Bool
  | .atom _ => true
  | .allOf ds | .anyOf ds | .exactlyOne ds | .atMostOne ds => ds.flagsOk
  | .useCond f _ ds => wfFlag f && ds.flagsOk
def DepL.flagsOk : DepL → Bool
  | .nil => true
  | .cons d ds => d.flagsOk && ds.flagsOk
end

/-! ### independent structural reading of an arbitrary dependency string

  Whitespace-separated tokens (bytes ≤ 0x20 separate), group structure by a stack.
  Atom tokens stay opaque texts (`RawDep.atom tok`).  `lenient = true` additionally reads
  a USE conditional that is directly followed by an atom (not PMS). -/

def tokens (s : Bytes) : List Bytes :=
  (s.splitBy fun a b => decide (a > 32) == decide (b > 32)).filter fun g =>
    match g with
    | c :: _ => decide (c > 32)
    | [] => false

inductive Tok where
  | lpar | rpar | anyOf | exactlyOne | atMostOne
  | use (flag : Bytes) (neg : Bool)
  | atom (text : Bytes)
  | bad
  deriving Repr, DecidableEq

def flagChar (x : Nat) : Bool := isAlnumU x || x == 43 || x == 64 || x == 45

def tokOf (t : Bytes) : Tok :=
  if t == b!"(" then .lpar else if t == b!")" then .rpar
  else if t == b!"||" then .anyOf else if t == b!"^^" then .exactlyOne else if t == b!"??" then .atMostOne
  else match t with
    | [] => .bad
    | c :: _ =>
      if c == 40 || c == 41 || c == 124 || c == 94 || c == 63 then .bad
      else
        let neg := c == 33
        let body := if neg then t.tail else t
        if body.length > 1 && body.getLast? == some 63 then
          (if body.dropLast.all flagChar then .use body.dropLast neg else .bad)
        else .atom t

inductive RawDep where
  | atom (text : Bytes)
  | group (kind : Nat) (flag : Bytes) (ds : List RawDep)   -- kind 1..6 as Pkg_dep_*
  deriving Repr

/-- a frame of the stack: the group being collected (kind, flag) and its members so far,
    newest first -/
structure Frame where
  kind : Nat
  flag : Bytes
  items : List RawDep

/-- pending group introducer: `||`, `^^`, `??` or a USE conditional waiting for its `(` -/
def readToks (lenient : Bool) : List Tok → Option (Nat × Bytes) → List Frame → List RawDep →
    Option (List RawDep)
  | [], pend, stack, top =>
    if pend.isSome || !stack.isEmpty then none else some top.reverse
  | t :: ts, pend, stack, top =>
    let push (d : RawDep) : Option (List RawDep) :=
      match stack with
      | [] => readToks lenient ts none [] (d :: top)
      | f :: fs => readToks lenient ts none ({ f with items := d :: f.items } :: fs) top
    match t with
    | .bad => none
    | .lpar =>
      let (k, fl) := pend.getD (1, [])
      readToks lenient ts none (⟨k, fl, []⟩ :: stack) top
    | .rpar =>
      if pend.isSome then none else
      match stack with
      | [] => none
      | f :: fs =>
        let d := RawDep.group f.kind f.flag f.items.reverse
        match fs with
        | [] => readToks lenient ts none [] (d :: top)
        | g :: gs => readToks lenient ts none ({ g with items := d :: g.items } :: gs) top
    | .anyOf => if pend.isSome then none else readToks lenient ts (some (2, [])) stack top
    | .exactlyOne => if pend.isSome then none else readToks lenient ts (some (3, [])) stack top
    | .atMostOne => if pend.isSome then none else readToks lenient ts (some (4, [])) stack top
    | .use fl neg =>
      if pend.isSome then none else readToks lenient ts (some (if neg then 6 else 5, fl)) stack top
    | .atom text =>
      match pend with
      | none => push (.atom text)
      | some (k, fl) =>
        if lenient && (k == 5 || k == 6) then push (.group k fl [.atom text]) else none

def readDeps (lenient : Bool) (s : Bytes) : Option (List RawDep) :=
  readToks lenient ((tokens s).map tokOf) none [] []

end Lc.Spec.DepGrammar
