/-
  Specification of the kernel's octal escaping in /proc/self/mountinfo
  (`mangle()` / `seq_escape()` in fs/proc_namespace.c, fs/seq_file.c): every byte of
  the escape set is written as a backslash and three octal digits.  The escape set
  differs per field and kernel version (paths: space, tab, newline, backslash; mount
  source additionally '#'; `seq_show_option(m, name, value)` escapes the option VALUE with
  the path set and ',' only -- an '=' inside a value is written as it is -- and the option
  NAME additionally with '='), so the specification is parametrised by an arbitrary set `E`
  that contains the backslash.
-/
import Lc.Base.Bytes

namespace Lc.Spec
open Lc

def esc3 (b : Nat) : Bytes := [92, 48 + b / 64, 48 + (b / 8) % 8, 48 + b % 8]

def mangleWith (E : Nat → Bool) (s : Bytes) : Bytes :=
  s.flatMap fun b => if E b then esc3 b else [b]

/-- escape set of path fields -/
def pathEsc (b : Nat) : Bool := b == 32 || b == 9 || b == 10 || b == 92
/-- escape set of the mount-source field (newer kernels add '#') -/
def srcEsc (b : Nat) : Bool := pathEsc b || b == 35
/-- escape set of `seq_show_option` VALUES (overlay lowerdir/upperdir/workdir):
    `seq_escape(m, value, ", \t\n\\")`.  No '=': a directory called `cake=17.1` appears
    as it is, so a reader must cut `name=value` at the FIRST '=' only. -/
def optEsc (b : Nat) : Bool := pathEsc b || b == 44
/-- escape set of `seq_show_option` NAMES: `seq_escape(m, name, ",= \t\n\\")`.  (The names
    of a well-formed table, `KeyOK`, contain none of these bytes, so `renderSOpt` writes the
    name as it is.) -/
def optNameEsc (b : Nat) : Bool := optEsc b || b == 61

end Lc.Spec
