/-
  How Portage writes a package's CONTENTS file (vartree.py, `dblink.mergeme`):
      dir <name>\n
      obj <name> <md5> <mtime>\n         md5: 32 lower-case hex digits; mtime: decimal seconds
      sym <name> -> <target> <mtime>\n
  Nothing is escaped; names and targets are written byte for byte.  (Portage also writes
  `fif <name>` and `dev <name>` lines for FIFOs and device nodes; the reader in
  portage/vdb/contents.go knows only the three kinds above and refuses the others -- see
  `fif_line_is_refused` in Props/C06Contents.)

  Independent of the model: `render` is the authority the reader is judged against, and
  `WFEntry` says for which entries the format can be read back at all.
-/
import Lc.Base.Bytes

namespace Lc.Spec.ContentsRender
open Lc

inductive Entry where
  | dir (name : Bytes)
  | obj (name md5 : Bytes) (time : Int)
  | sym (name target : Bytes) (time : Int)
  deriving Repr, DecidableEq, BEq

def Entry.name : Entry → Bytes
  | .dir n => n
  | .obj n _ _ => n
  | .sym n _ _ => n

/-- what a reader reports as the kind: the codes of vdb.FileType_dir/_file/_symlink -/
def Entry.typeCode : Entry → Nat
  | .dir _ => 1
  | .obj _ _ _ => 2
  | .sym _ _ _ => 3

/-- the recorded time (a `dir` line carries none: 0) -/
def Entry.time : Entry → Int
  | .dir _ => 0
  | .obj _ _ t => t
  | .sym _ _ t => t

/-- the recorded checksum (only `obj` lines carry one: otherwise sixteen zero bytes) -/
def Entry.md5 : Entry → Bytes
  | .obj _ m _ => m
  | _ => List.replicate 16 0

/-! ### numbers -/

/-- decimal digits of `n`, most significant first (`fuel ≥ n` is plenty) -/
def natDecF : Nat → Nat → Bytes
  | 0, n => [48 + n % 10]
  | f + 1, n => if n < 10 then [48 + n] else natDecF f (n / 10) ++ [48 + n % 10]

def natDec (n : Nat) : Bytes := natDecF n n

/-- Python's `str(int)` -/
def intDec : Int → Bytes
  | .ofNat n => natDec n
  | .negSucc n => 45 :: natDec (n + 1)

def hexChar (n : Nat) : Nat := if n < 10 then 48 + n else 87 + n

/-- lower-case hex, two digits per byte -/
def hexEncode : Bytes → Bytes
  | [] => []
  | b :: bs => hexChar (b / 16) :: hexChar (b % 16) :: hexEncode bs

/-! ### lines -/

/-- the separator between a symlink's name and its target -/
def sepArrow : Bytes := b!" -> "

def renderLine : Entry → Bytes
  | .dir n => b!"dir " ++ n
  | .obj n md5 t => b!"obj " ++ (n ++ 32 :: (hexEncode md5 ++ 32 :: intDec t))
  | .sym n targ t => b!"sym " ++ (n ++ (sepArrow ++ (targ ++ 32 :: intDec t)))

/-- the file: every line newline-terminated -/
def render : List Entry → Bytes
  | [] => []
  | e :: es => renderLine e ++ 10 :: render es

/-! ### which entries the format can carry

  The conditions are the weakest ones: each is needed (witnesses in Props/C06Contents).
  * no newline in any name or target: the file is a sequence of lines;
  * the time fits in 64 bits (the reader's integer type);
  * `obj`: the name is not empty (the reader finds the md5 by looking for the last blank at
    a position > 0); the md5 is 16 bytes.  Otherwise the name is ANY byte string: blanks,
    blanks at the end, something that looks like ` <hex> <digits>` or like ` -> x`;
  * `sym`: the reader takes the name up to the FIRST ` -> `, so the name comes back exactly
    when the first ` -> ` of `<name> -> <target>` is the separator, i.e. when ` -> ` does not
    occur in `<name> ->` (the name followed by the first three bytes of the separator:
    a name that merely ends in ` ->` is cut as well).  Nothing is asked of the target: it
    may contain ` -> `, blanks, blanks at the end, may be empty;
  * `dir`: nothing more; the name is the rest of the line.
-/

def TimeOK (t : Int) : Prop := -(2 ^ 63 : Int) ≤ t ∧ t < (2 ^ 63 : Int)

instance (t : Int) : Decidable (TimeOK t) := by unfold TimeOK; exact inferInstance

/-- ` -> ` does not occur in `name ++ " ->"` -/
def ArrowFree (name : Bytes) : Prop := indexOf (name ++ b!" ->") sepArrow = none

instance (n : Bytes) : Decidable (ArrowFree n) := by unfold ArrowFree; exact inferInstance

def WFEntry : Entry → Prop
  | .dir n => 10 ∉ n
  | .obj n md5 t => n ≠ [] ∧ 10 ∉ n ∧ md5.length = 16 ∧ (∀ b ∈ md5, b < 256) ∧ TimeOK t
  | .sym n targ t => 10 ∉ n ∧ 10 ∉ targ ∧ ArrowFree n ∧ TimeOK t

instance (e : Entry) : Decidable (WFEntry e) := by
  cases e <;> unfold WFEntry <;> exact inferInstance

end Lc.Spec.ContentsRender
