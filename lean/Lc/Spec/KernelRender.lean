/-
  Specification of the text the kernel presents in /proc/self/mountinfo for a mount
  table, and of what a reader must recover from it (independent of fs/mounts.go).
-/
import Lc.Base.Bytes
import Lc.Base.Path
import Lc.Spec.KernelEscape

namespace Lc.Spec
open Lc

/-- one super-block option: key and optional raw (unescaped) value -/
structure SOpt where
  key : Bytes
  val : Option Bytes
  deriving Repr, DecidableEq

structure KMount where
  id : Bytes
  parent : Bytes
  dev : Bytes
  root : Bytes
  mp : Bytes
  opts : Bytes
  optional : List Bytes
  fstype : Bytes
  source : Bytes
  super : List SOpt
  deriving Repr, DecidableEq

def renderSOpt (o : SOpt) : Bytes :=
  match o.val with
  | none => o.key
  | some v => o.key ++ 61 :: mangleWith optEsc v

def renderSuper (l : List SOpt) : Bytes := joinWith 44 (l.map renderSOpt)

def lineFields (m : KMount) : List Bytes :=
  [m.id, m.parent, m.dev, mangleWith pathEsc m.root, mangleWith pathEsc m.mp, m.opts]
    ++ m.optional ++ [[45], m.fstype, mangleWith srcEsc m.source, renderSuper m.super]

def renderLine (m : KMount) : Bytes := joinWith 32 (lineFields m)

def render (t : List KMount) : Bytes := t.flatMap fun m => renderLine m ++ [10]

/-! ### what must be recovered -/

def noByte (c : Nat) (s : Bytes) : Prop := c ∉ s

/-- a token field: non-empty, bytes, no space / newline / carriage return -/
def TokenOK (s : Bytes) : Prop := s ≠ [] ∧ 32 ∉ s ∧ 10 ∉ s ∧ 13 ∉ s

def KeyOK (s : Bytes) : Prop := TokenOK s ∧ 44 ∉ s ∧ 61 ∉ s

def IsB (s : Bytes) : Prop := ∀ b ∈ s, b < 256

/-- Well-formed as the kernel prints it: the token fields (ids, `major:minor`, option
    lists, fstype, optional `tag[:value]` fields) are non-empty and free of blank, newline
    and carriage return; root, mountpoint, source and the super-option values are arbitrary
    byte strings (the kernel escapes them); there is at least one super option ("rw"/"ro").
    `superLast`: the value of the *last* super option does not end in a carriage return
    -- the kernel does not escape CR, so such a line would end in "\r\n" and every line
    reader that accepts CRLF (bufio.ScanLines) strips it; see `cr_at_line_end_lost` in
    Props/C12 for the witness that the clause is needed. -/
structure KMount.WF (m : KMount) : Prop where
  id : TokenOK m.id
  parent : TokenOK m.parent
  dev : TokenOK m.dev
  opts : TokenOK m.opts
  fstype : TokenOK m.fstype
  optional : ∀ o ∈ m.optional, TokenOK o ∧ o ≠ [45]
  root : IsB m.root
  mp : IsB m.mp
  source : IsB m.source
  superNe : m.super ≠ []
  super : ∀ o ∈ m.super, KeyOK o.key ∧ (∀ v, o.val = some v → IsB v)
  superLast : ∀ o, m.super.getLast? = some o → ∀ v, o.val = some v → v.getLast? ≠ some 13

/-- value of the last option with key `k` that has a value ("" if none) -/
def lastVal (k : Bytes) (l : List SOpt) : Bytes :=
  l.foldl (fun acc o => if o.key = k then (match o.val with | some v => v | none => acc) else acc) []

def isShadowingType (t : Bytes) : Bool := t == b!"devtmpfs" || t == b!"sysfs"

/-- one step of the shadow bookkeeping: a mount of a shadowing type, or a child of a
    shadowed/shadowing mount, joins the shadow set -/
def shadowStep (acc : List Bytes) (m : KMount) : List Bytes :=
  if isShadowingType m.fstype || acc.contains m.parent then m.id :: acc else acc

/-- Shadow set after reading a prefix of the table (ids whose subtree is shadowed). -/
def shadowIds (ms : List KMount) : List Bytes := ms.foldl shadowStep []

/-- "is a shadowed submount": `m` is listed after the mounts `pre`, is not itself of a
    shadowing type, and its parent is in the shadow set of `pre` -/
def inShadowAt (pre : List KMount) (m : KMount) : Bool :=
  !isShadowingType m.fstype && (shadowIds pre).contains m.parent

/-- the shadow flag of every mount of a table, in table order -/
def shadowFlags (t : List KMount) : List Bool := t.mapIdx fun i m => inShadowAt (t.take i) m

/-! ### the mount tree (for `shadow_iff_ancestor`) -/

/-- `a` is the parent mount of `m` in table `t`; a reference to itself, as the kernel
    prints for the top of the mount tree, is not a parent -/
def IsParent (t : List KMount) (a m : KMount) : Prop := a ∈ t ∧ a.id = m.parent ∧ a.id ≠ m.id

/-- `a` is a proper ancestor of `m` following parent ids -/
inductive Ancestor (t : List KMount) : KMount → KMount → Prop
  | parent {a m : KMount} : IsParent t a m → Ancestor t a m
  | step {a b m : KMount} : Ancestor t a b → IsParent t b m → Ancestor t a m

/-- the table lists parents before their children: no mount's parent id is the id of a
    mount listed after it -/
def ParentsFirst (t : List KMount) : Prop :=
  ∀ pre m post, t = pre ++ m :: post → ∀ x ∈ post, x.id ≠ m.parent

/-- mount ids are pairwise distinct -/
def DistinctIds (t : List KMount) : Prop := t.Pairwise fun a b => a.id ≠ b.id

structure Expected where
  mountpoint : Bytes
  fstype : Bytes
  options : Bytes
  lower : Bytes
  upper : Bytes
  work : Bytes
  deriving Repr, DecidableEq

def expectedOf (m : KMount) : Expected :=
  if m.fstype = b!"overlay" then
    ⟨m.mp, m.fstype, m.opts, lastVal b!"lowerdir" m.super, lastVal b!"upperdir" m.super,
      lastVal b!"workdir" m.super⟩
  else ⟨m.mp, m.fstype, m.opts, [], [], []⟩

/-- source candidates of mount `m` within table `t` (after fix 23c682d): the lower directory
    of an overlay; the device's first mount source if `m` shows the root of the file system;
    the mounted directory as it is visible through every mount of the same file system that
    shows its root, then through every mount that shows the mounted directory or a directory
    above it (a bind-mounted subdirectory, a subvolume); `m`'s own mountpoint excepted -/
def expectedSources (t : List KMount) (m : KMount) : List Bytes :=
  let lower := if m.fstype = b!"overlay" ∧ (lastVal b!"lowerdir" m.super).length > 0 then
      [lastVal b!"lowerdir" m.super] else []
  let devName := match t.find? (·.dev == m.dev) with
    | some d => d.source
    | none => []
  let roots := (t.filter (fun x => x.dev == m.dev && x.root == [47])).map (·.mp)
  -- (directory shown, mountpoint) of the mounts showing part of the file system
  let subs := (t.filter (fun x => x.dev == m.dev && x.root != [47])).map fun x => (x.root, x.mp)
  lower ++ (if m.root = [47] then [devName] else [])
    ++ (roots.map fun mp => pathJoin [mp, m.root]).filter (· != m.mp)
    ++ ((subs.filter fun s => m.root == s.1 || hasPrefix m.root (s.1 ++ [47])).map
          fun s => pathJoin [s.2, m.root.drop s.1.length]).filter (· != m.mp)

end Lc.Spec
