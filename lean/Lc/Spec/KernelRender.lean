/-
  Specification of the text the kernel presents in /proc/self/mountinfo for a mount
  table, and of what a reader must recover from it (independent of fs/mounts.go).
-/
import Lc.Base.Bytes
import Lc.Base.Path
import Lc.Spec.KernelEscape

namespace Lc.Spec
open Lc

/-- one super-block option: key and optional raw (unescaped) value -/
structure SOpt where
  key : Bytes
  val : Option Bytes
  deriving Repr, DecidableEq

structure KMount where
  id : Bytes
  parent : Bytes
  dev : Bytes
  root : Bytes
  mp : Bytes
  opts : Bytes
  optional : List Bytes
  fstype : Bytes
  source : Bytes
  super : List SOpt
  deriving Repr, DecidableEq

def renderSOpt (o : SOpt) : Bytes :=
  match o.val with
  | none => o.key
  | some v => o.key ++ 61 :: mangleWith optEsc v

def renderSuper (l : List SOpt) : Bytes := joinWith 44 (l.map renderSOpt)

def lineFields (m : KMount) : List Bytes :=
  [m.id, m.parent, m.dev, mangleWith pathEsc m.root, mangleWith pathEsc m.mp, m.opts]
    ++ m.optional ++ [[45], m.fstype, mangleWith srcEsc m.source, renderSuper m.super]

def renderLine (m : KMount) : Bytes := joinWith 32 (lineFields m)

def render (t : List KMount) : Bytes := t.flatMap fun m => renderLine m ++ [10]

/-! ### what must be recovered -/

def noByte (c : Nat) (s : Bytes) : Prop := c ∉ s

/-- a token field: non-empty, bytes, no space / newline / carriage return -/
def TokenOK (s : Bytes) : Prop := s ≠ [] ∧ 32 ∉ s ∧ 10 ∉ s ∧ 13 ∉ s

def KeyOK (s : Bytes) : Prop := TokenOK s ∧ 44 ∉ s ∧ 61 ∉ s

def IsB (s : Bytes) : Prop := ∀ b ∈ s, b < 256

structure KMount.WF (m : KMount) : Prop where
  id : TokenOK m.id
  parent : TokenOK m.parent
  dev : TokenOK m.dev
  opts : TokenOK m.opts
  fstype : TokenOK m.fstype
  optional : ∀ o ∈ m.optional, TokenOK o ∧ o ≠ [45]
  root : IsB m.root
  mp : IsB m.mp
  source : IsB m.source ∧ 13 ∉ m.source
  superNe : m.super ≠ []
  super : ∀ o ∈ m.super, KeyOK o.key ∧ (∀ v, o.val = some v → IsB v ∧ 13 ∉ v)

/-- value of the last option with key `k` that has a value ("" if none) -/
def lastVal (k : Bytes) (l : List SOpt) : Bytes :=
  l.foldl (fun acc o => if o.key = k then (match o.val with | some v => v | none => acc) else acc) []

def isShadowingType (t : Bytes) : Bool := t == b!"devtmpfs" || t == b!"sysfs"

/-- Shadow set after reading a prefix of the table (ids whose subtree is shadowed). -/
def shadowIds : List KMount → List Bytes
  | [] => []
  | ms => ms.foldl (fun acc m =>
      if isShadowingType m.fstype || acc.contains m.parent then m.id :: acc else acc) []

structure Expected where
  mountpoint : Bytes
  fstype : Bytes
  options : Bytes
  lower : Bytes
  upper : Bytes
  work : Bytes
  deriving Repr, DecidableEq

def expectedOf (m : KMount) : Expected :=
  if m.fstype = b!"overlay" then
    ⟨m.mp, m.fstype, m.opts, lastVal b!"lowerdir" m.super, lastVal b!"upperdir" m.super,
      lastVal b!"workdir" m.super⟩
  else ⟨m.mp, m.fstype, m.opts, [], [], []⟩

/-- bind-source candidates of mount `m` within table `t` -/
def expectedSources (t : List KMount) (m : KMount) : List Bytes :=
  if m.fstype = b!"overlay" ∧ (lastVal b!"lowerdir" m.super).length > 0 then
    [lastVal b!"lowerdir" m.super]
  else
    let devName := match t.find? (·.dev == m.dev) with
      | some d => d.source
      | none => []
    let roots := (t.filter (fun x => x.dev == m.dev && x.root == [47])).map (·.mp)
    let (first, root) := if m.root = [47] then ([devName], ([] : Bytes)) else ([], m.root)
    first ++ (roots.map fun mp => pathJoin [mp, root]).filter (· != m.mp)

end Lc.Spec
