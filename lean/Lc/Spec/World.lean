/-
  Specification-level views of an installation (file-system tree + kernel mount table):
  the forest, protection conditions, the documented state classification.  Written
  from the property statements and the manual, independently of package manage's
  control flow; shares only the environment models and the layerconfig reader.
-/
import Lc.Model.Layers

namespace Lc.Spec.World
open Lc Lc.Layers Lc.Layerfile

structure Inst where
  cfg : Config
  fs : Fs.Tree
  mnts : List Kernel.KMnt

/-- a layer as found on disk -/
structure DLayer where
  name : Bytes
  file : LayerFile
  deriving Repr

def layerDir (i : Inst) (n : Bytes) : Bytes := pathJoin [i.cfg.layerdirs, n]
def buildDir (i : Inst) (n : Bytes) : Bytes := pathJoin [layerDir i n, i.cfg.buildRoot]
def workDir (i : Inst) (n : Bytes) : Bytes := pathJoin [layerDir i n, i.cfg.workdir]
def upperDir (i : Inst) (n : Bytes) : Bytes := pathJoin [layerDir i n, i.cfg.upperdir]

/-- the layers of an installation: legal directory names with a readable layerconfig -/
def diskLayers (i : Inst) : List DLayer :=
  (Fs.children i.fs i.cfg.layerdirs).filterMap fun n =>
    if !isLegalLayerName n then none else
    match Fs.readFile i.fs (pathJoin [layerDir i n, b!"layerconfig"]) with
    | some c => some ⟨n, readLayerFile c⟩
    | none => none

def findD (ls : List DLayer) (n : Bytes) : Option DLayer := ls.find? (·.name == n)

/-- ancestors of `n` (nearest first), fuelled by the number of layers -/
def ancestorsOf (ls : List DLayer) : Nat → Bytes → List Bytes
  | 0, _ => []
  | fuel + 1, n =>
    match findD ls n with
    | none => []
    | some l => if l.file.base.isEmpty then [] else l.file.base :: ancestorsOf ls fuel l.file.base

def isAncestor (ls : List DLayer) (a n : Bytes) : Bool := (ancestorsOf ls (ls.length + 1) n).contains a

/-- forest well-formedness: unique legal names (by construction of the directory),
    every declared parent exists, no layer is its own ancestor -/
def forestWF (ls : List DLayer) : Bool :=
  ls.all fun l =>
    (l.file.base.isEmpty || (findD ls l.file.base).isSome) &&
    !(isAncestor ls l.name l.name) &&
    -- the chain ends (no cycle further up)
    (ancestorsOf ls (ls.length + 1) l.name).length ≤ ls.length

def childrenOf (ls : List DLayer) (n : Bytes) : List Bytes :=
  (ls.filter (·.file.base == n)).map (·.name)

/-! ### protection (C04) -/

def atOrBelow (dir p : Bytes) : Bool := p == dir || hasPrefix p (dir ++ [47])

def mountedAtOrBelow (i : Inst) (n : Bytes) : Bool :=
  i.mnts.any fun m => atOrBelow (buildDir i n) m.mp

def overlain (i : Inst) (n : Bytes) : Bool :=
  i.mnts.any fun m => m.fstype == b!"overlay" && m.lower == buildDir i n

def usersOf (users : List (Bytes × List User)) (n : Bytes) : List User :=
  match users.find? (·.1 == n) with
  | some (_, us) => us
  | none => []

def protectedL (i : Inst) (users : List (Bytes × List User)) (n : Bytes) : Bool :=
  mountedAtOrBelow i n || !(usersOf users n).isEmpty || overlain i n

def inDirOrBelow (file dir : Bytes) : Bool := file == dir || hasPrefix file (dir ++ [47])

/-- a process works inside the build, upper or work directory of the layer -/
def mountBusy (i : Inst) (users : List (Bytes × List User)) (n : Bytes) : Bool :=
  (usersOf users n).any fun u =>
    inDirOrBelow u.file i.cfg.buildRoot || inDirOrBelow u.file i.cfg.workdir
      || inDirOrBelow u.file i.cfg.upperdir

def unmountBlocked (i : Inst) (users : List (Bytes × List User)) (n : Bytes) : Bool :=
  mountBusy i users n || overlain i n

/-- for `umount -all`: a layer stays blocked only if a process works in it or a mounted
    overlay sits on it that is not itself going to be unmounted first (it belongs to no
    layer, or to a layer that is blocked in turn) -/
def blockedAll (i : Inst) (ls : List DLayer) (users : List (Bytes × List User)) : Nat → Bytes → Bool
  | 0, _ => true
  | fuel + 1, n =>
    mountBusy i users n ||
    (i.mnts.any fun m =>
      m.fstype == b!"overlay" && m.lower == buildDir i n &&
      (match ls.find? (fun x => buildDir i x.name == m.mp) with
       | some x => x.file.nmsgs > 0 || blockedAll i ls users fuel x.name
       | none => true))

/-! ### documented state classification (C08) -/

/-- where a path lives: device and path within the device, by the mount table -/
def resolveDevRoot (mnts : List Kernel.KMnt) (p : Bytes) : Option (Bytes × Bytes) :=
  match Kernel.findContaining mnts p with
  | some m => some (m.dev, Kernel.joinRoot m.root (Kernel.relTail m.mp p))
  | none => none

def topAt (mnts : List Kernel.KMnt) (mp : Bytes) : Option Kernel.KMnt := Kernel.topmostAt mnts mp

def fhsDirs : List Bytes := [b!"bin", b!"etc", b!"lib", b!"opt", b!"root", b!"sbin", b!"usr"]

def resolveSource (i : Inst) (ls : List DLayer) (n : Bytes) (src : Bytes) : Option Bytes :=
  let rootBase := ((ancestorsOf ls (ls.length + 1) n).getLast?).getD n
  match adjustPrefixedPath src (fun sym =>
      if sym == b!"base" then some (layerDir i rootBase)
      else if sym == b!"self" then some (layerDir i n) else none) with
  | .ok p => some p
  | .error _ => none

def underLayers (i : Inst) (p : Bytes) : Bool := atOrBelow i.cfg.layerdirs p

/-- the mount shows the same device and directory as the path `src` (looked up below the
    mount itself, i.e. among the mounts that existed before it) -/
def showsSource (i : Inst) (m : Kernel.KMnt) (src : Bytes) : Bool :=
  match resolveDevRoot (i.mnts.filter (·.id < m.id)) src with
  | some (dev, root) => m.dev == dev && m.root == root
  | none => false

/-- is the mount `m` the configured import `imp` (resolved source `src`)?  A bind mount:
    it shows the source directory.  Any other type: a mount of that type, made from the
    configured source string or showing the file system that is mounted at the source path
    (a second mount of the host's /proc, whatever source string it was given). -/
def importAsConfigured (i : Inst) (m : Kernel.KMnt) (fstype src : Bytes) : Bool :=
  if fstype == b!"bind" || fstype == b!"rbind" then showsSource i m src
  else m.fstype == fstype && (m.source == src || showsSource i m src)

inductive St where
  | error | incomplete | complete | inhabited | mountable | partialmount | mounted | mountedBusy
  deriving Repr, DecidableEq, BEq

def St.toNat : St → Nat
  | .error => 1 | .incomplete => 2 | .complete => 3 | .inhabited => 4 | .mountable => 5
  | .partialmount => 6 | .mounted => 7 | .mountedBusy => 8

/-- the classification; `parentState` is the parent's state for derived layers -/
def stateOf (i : Inst) (ls : List DLayer) (users : List (Bytes × List User)) (l : DLayer)
    (parentState : Option St) : St :=
  let n := l.name
  let build := buildDir i n
  let derived := !l.file.base.isEmpty
  if l.file.nmsgs > 0 then .error else
  if !Fs.isDir i.fs build then .incomplete else
  if derived && (!Fs.isDir i.fs (workDir i n) || !Fs.isDir i.fs (upperDir i n)) then .incomplete else
  let parentMountable := match parentState with
    | some s => s.toNat ≥ 5
    | none => true
  if derived && !parentMountable then .complete else
  let ovl := topAt i.mnts build
  let ovlOk := match ovl with
    | some m => m.fstype == b!"overlay" && m.lower == buildDir i l.file.base
                && m.upper == upperDir i n && m.work == workDir i n
    | none => true
  if derived && !ovlOk then .error else
  let fhs := fhsDirs.all fun d => Fs.isDir i.fs (pathJoin [build, d])
  -- a derived layer shows its FHS directories only through the overlay
  if derived && ovl.isNone then
    -- something is mounted at or below the build root without the overlay (imports left over
    -- from a partial unmount, mounts made by hand): mounting the overlay would hide it
    if mountedAtOrBelow i n then .error else .mountable
  else
  if !fhs then .complete else
  let imports := l.file.mounts.map fun imp =>
    (pathJoin [build, imp.mount], resolveSource i ls n imp.source, imp.fstype)
  if imports.any (fun x => x.2.1.isNone) then .inhabited else
  -- per import: 0 = directory or host source missing, 1 = not mounted, 2 = mounted as configured, 3 = wrong
  let classify := fun (x : Bytes × Option Bytes × Bytes) =>
    let (mp, src, fstype) := x
    let src := src.getD []
    if !Fs.lexists i.fs mp then 0
    else if !Fs.lexists i.fs src && !underLayers i src then 0
    else match topAt i.mnts mp with
      | none => 1
      | some m => if importAsConfigured i m fstype src then 2 else 3
  let cls := imports.map classify
  let exportsBad := l.file.exports.any fun e =>
    let src := pathJoin [layerDir i n, i.cfg.buildRoot, e.source]
    let link := match adjustPrefixedPath e.mount (fun sym =>
        if sym == b!"package_export" then some (pathJoin [i.cfg.exportdirs, i.cfg.exportBinPkg, n])
        else if sym == b!"file_export" then some (pathJoin [i.cfg.exportdirs, i.cfg.exportGenerated, n])
        else none) with
      | .ok p => some p
      | .error _ => none
    match link with
    | none => true
    | some lk =>
      !(atOrBelow build src) ||
      (Fs.lexists i.fs src && match Fs.get i.fs lk with
        | some (.symlink t) => t != src
        | _ => false)
  let exportsMissing := l.file.exports.any fun e =>
    !Fs.lexists i.fs (pathJoin [layerDir i n, i.cfg.buildRoot, e.source])
  if cls.any (· == 3) || exportsBad then .error
  else if cls.any (· == 0) || exportsMissing then .inhabited
  else
    let nMounted := (cls.filter (· == 2)).length + (if derived then 1 else 0)
    let nExpected := cls.length + (if derived then 1 else 0)
    if nMounted == 0 then .mountable
    else if nMounted < nExpected then .partialmount
    else if mountBusy i users n || overlain i n then .mountedBusy
    else .mounted

/-- states of all layers, parents before children (fuelled by depth) -/
def allStates (i : Inst) (ls : List DLayer) (users : List (Bytes × List User)) : List (Bytes × St) :=
  let rec go : Nat → Bytes → St
    | 0, _ => .error
    | fuel + 1, n =>
      match findD ls n with
      | none => .error
      | some l =>
        let ps := if l.file.base.isEmpty then none else some (go fuel l.file.base)
        stateOf i ls users l ps
  ls.map fun l => (l.name, go (ls.length + 1) l.name)

end Lc.Spec.World
