/-
  Specification for C05, written without reference to the resolver's mechanics (no
  candidate order, no marks, no traversal order): the stage set as a dependency closure.

  Authority: PMS ch. 8 (dependency specification format: all-of, any-of, use-conditional
  groups; blockers) and the property statement.  A selection `S` (a set of installed
  packages) is a *valid closure* for a request when

    (req)   every requested non-blocker atom matches at least one installed package and
            all its matches are in `S`;
    (deps)  for every member of `S`, every dependency expression of the classes in force
            is satisfied in `S` under the member's own USE flags:
              atom in mandatory position   – has a match, and all its matches are in `S`
              all-of group                 – every child satisfied
              use-conditional              – inactive: nothing required; active: as all-of
              any-of / exactly-one-of      – at least one *member* child satisfied, where an
                                             inactive use-conditional child is not a member
                                             (PMS 8.2.3) and an atom inside a choice group is
                                             satisfied when some match of it is in `S`
              at-most-one-of               – nothing required
    (just)  nothing else: every member of `S` is reachable from the requested atoms through
            matches of active atoms of members of `S`;
    (block) no member of `S` is matched by a requested blocker or by an active blocker of a
            member of `S`.

  `cmin` is the least set closed under mandatory atoms, `cmax` the least set closed under
  all active atoms; every valid closure lies between them, so the answer is unique when
  they coincide.  Core Lean only.
-/
import Lc.Model.Resolve

namespace Lc.Spec.Closure
open Lc Lc.Resolve

structure World where
  pkgs : List Pkg             -- the installed packages, in any order
  rel : List (List Nat)       -- the match relation (C13), by atom occurrence
  includeBdepend : Bool       -- false under -nobdeps
  req : List DAtom            -- requested atoms (@system ∪ user atoms)

def World.ids (w : World) : List Nat := w.pkgs.map (·.id)

/-- installed packages matched by an atom occurrence -/
def World.matchesOf (w : World) (a : DAtom) : List Nat :=
  (w.rel.getD a.id []).filter fun i => w.ids.contains i

/-- dependency classes in force: RDEPEND, PDEPEND, and DEPEND/BDEPEND unless -nobdeps -/
def World.depsOf (w : World) (p : Pkg) : List DepList :=
  if w.includeBdepend then [p.rdepend, p.pdepend, p.depend, p.bdepend]
  else [p.rdepend, p.pdepend]

def isActive (use : List Flag) : Kind → Bool
  | .useSet f => use.contains f
  | .useUnset f => !use.contains f
  | _ => true

def isChoice : Kind → Bool
  | .anyOf | .exactlyOne | .atMostOne => true
  | _ => false

mutual
/-- every atom in an active position (inside choice groups too) -/
def activeAtomsL (use : List Flag) : DepList → List DAtom
  | .nil => []
  | .cons d ds => activeAtomsD use d ++ activeAtomsL use ds
def activeAtomsD (use : List Flag) : Dep → List DAtom
  | .atom a => [a]
  | .group k ds => if isActive use k then activeAtomsL use ds else []
end

mutual
/-- atoms in mandatory position: reached through all-of and active use-conditionals only -/
def mandatoryAtomsL (use : List Flag) : DepList → List DAtom
  | .nil => []
  | .cons d ds => mandatoryAtomsD use d ++ mandatoryAtomsL use ds
def mandatoryAtomsD (use : List Flag) : Dep → List DAtom
  | .atom a => [a]
  | .group k ds => if isActive use k && !isChoice k then mandatoryAtomsL use ds else []
end

def memberChild (use : List Flag) : Dep → Bool
  | .atom _ => true
  | .group k _ => isActive use k

mutual
/-- all children satisfied; `inChoice` = below an any-of / exactly-one-of group -/
def satAllL (w : World) (S : List Nat) (use : List Flag) (inChoice : Bool) : DepList → Bool
  | .nil => true
  | .cons d ds => satD w S use inChoice d && satAllL w S use inChoice ds
/-- some member child satisfied -/
def satAnyL (w : World) (S : List Nat) (use : List Flag) : DepList → Bool
  | .nil => false
  | .cons d ds => (memberChild use d && satD w S use true d) || satAnyL w S use ds
def satD (w : World) (S : List Nat) (use : List Flag) (inChoice : Bool) : Dep → Bool
  | .atom a =>
    if a.blocker then true     -- blockers are judged by `noBlock`
    else if inChoice then (w.matchesOf a).any (S.contains ·)
    else !(w.matchesOf a).isEmpty && (w.matchesOf a).all (S.contains ·)
  | .group k ds =>
    match k with
    | .all => satAllL w S use inChoice ds
    | .useSet f => if use.contains f then satAllL w S use inChoice ds else true
    | .useUnset f => if !use.contains f then satAllL w S use inChoice ds else true
    | .anyOf => satAnyL w S use ds
    | .exactlyOne => satAnyL w S use ds
    | .atMostOne => true
end

mutual
/-- the weaker notion the resolver implements for choice groups: some atom in an active
    position below the group has a match in `S` (used only to delimit a known finding) -/
def lenAllL (w : World) (S : List Nat) (use : List Flag) : DepList → Bool
  | .nil => true
  | .cons d ds => lenD w S use d && lenAllL w S use ds
def lenD (w : World) (S : List Nat) (use : List Flag) : Dep → Bool
  | .atom a =>
    if a.blocker then true
    else !(w.matchesOf a).isEmpty && (w.matchesOf a).all (S.contains ·)
  | .group k ds =>
    match k with
    | .all => lenAllL w S use ds
    | .useSet f => if use.contains f then lenAllL w S use ds else true
    | .useUnset f => if !use.contains f then lenAllL w S use ds else true
    | .atMostOne => true
    | _ => (activeAtomsL use ds).any fun a => !a.blocker && (w.matchesOf a).any (S.contains ·)
end

def nonBlockers (l : List DAtom) : List DAtom := l.filter (!·.blocker)
def blockersOf (l : List DAtom) : List DAtom := l.filter (·.blocker)

def World.pkg? (w : World) (i : Nat) : Option Pkg := w.pkgs.find? (·.id == i)

def World.activeAtoms (w : World) (p : Pkg) : List DAtom :=
  (w.depsOf p).flatMap (activeAtomsL p.use)

def World.mandatoryAtoms (w : World) (p : Pkg) : List DAtom :=
  (w.depsOf p).flatMap (mandatoryAtomsL p.use)

def union (a b : List Nat) : List Nat := a ++ (b.filter fun x => !a.contains x).eraseDups

def subset (a b : List Nat) : Bool := a.all (b.contains ·)

/-- one round: add the matches of the chosen atoms of every member (restricted to `within`) -/
def stepWith (w : World) (atomsOf : Pkg → List DAtom) (within : Nat → Bool) (S : List Nat) :
    List Nat :=
  let new := S.flatMap fun i => match w.pkg? i with
    | none => []
    | some p => (nonBlockers (atomsOf p)).flatMap fun a => (w.matchesOf a).filter within
  union S new

def iter (f : List Nat → List Nat) : Nat → List Nat → List Nat
  | 0, S => S
  | n + 1, S => iter f n (f S)

def World.seed (w : World) : List Nat :=
  union [] ((nonBlockers w.req).flatMap w.matchesOf)

/-- least set containing the requested matches and closed under `atomsOf` -/
def closureWith (w : World) (atomsOf : Pkg → List DAtom) (within : Nat → Bool) : List Nat :=
  iter (stepWith w atomsOf within) (w.pkgs.length + 1) (w.seed.filter within)

def cmin (w : World) : List Nat := closureWith w w.mandatoryAtoms (fun _ => true)
def cmax (w : World) : List Nat := closureWith w w.activeAtoms (fun _ => true)

/-- packages of `S` reachable from the request through active atoms of members of `S` -/
def justifiedPart (w : World) (S : List Nat) : List Nat :=
  closureWith w w.activeAtoms (S.contains ·)

def reqOK (w : World) (S : List Nat) : Bool :=
  (nonBlockers w.req).all fun a => !(w.matchesOf a).isEmpty && subset (w.matchesOf a) S

def depsOKWith (w : World) (sat : List Flag → DepList → Bool) (S : List Nat) : Bool :=
  S.all fun i => match w.pkg? i with
    | none => false
    | some p => (w.depsOf p).all (sat p.use)

def depsOK (w : World) (S : List Nat) : Bool :=
  depsOKWith w (fun use ds => satAllL w S use false ds) S

def depsOKLenient (w : World) (S : List Nat) : Bool :=
  depsOKWith w (fun use ds => lenAllL w S use ds) S

def justified (w : World) (S : List Nat) : Bool := subset S (justifiedPart w S)

/-- blockers in force for a selection: the requested ones and the active ones of members -/
def blockersInForce (w : World) (S : List Nat) : List DAtom :=
  blockersOf w.req ++ S.flatMap fun i => match w.pkg? i with
    | none => []
    | some p => blockersOf (w.activeAtoms p)

def noBlock (w : World) (S : List Nat) : Bool :=
  (blockersInForce w S).all fun b => (w.matchesOf b).all fun m => !S.contains m

def wellFormed (w : World) (S : List Nat) : Bool :=
  subset S w.ids && S.eraseDups.length == S.length

/-- `S` is a valid closure -/
def valid (w : World) (S : List Nat) : Bool :=
  wellFormed w S && reqOK w S && depsOK w S && justified w S && noBlock w S

def validLenient (w : World) (S : List Nat) : Bool :=
  wellFormed w S && reqOK w S && depsOKLenient w S && justified w S && noBlock w S

/-- the specification determines the selection uniquely -/
def unique (w : World) : Bool := subset (cmax w) (cmin w)

/-- a failure "unsatisfied dependency" is justified: a requested atom has no match, or a
    package reachable from the request has a dependency expression that the whole installed
    set cannot satisfy -/
def unsatJustified (w : World) : Bool :=
  (nonBlockers w.req).any (fun a => (w.matchesOf a).isEmpty) ||
  (cmax w).any fun i => match w.pkg? i with
    | none => false
    | some p => !(w.depsOf p).all fun ds => satAllL w w.ids p.use false ds

mutual
/-- regions of two known findings: there is an active any-of / exactly-one-of group none of
    whose active atoms matches anything installed (the resolver's count is 0 and it fails),
    `nested = true`: looking only at groups below another choice group,
    `nested = false`: only at groups in mandatory position -/
def deadChoiceL (w : World) (use : List Flag) (nested inChoice : Bool) : DepList → Bool
  | .nil => false
  | .cons d ds => deadChoiceD w use nested inChoice d || deadChoiceL w use nested inChoice ds
def deadChoiceD (w : World) (use : List Flag) (nested inChoice : Bool) : Dep → Bool
  | .atom _ => false
  | .group k ds =>
    if !isActive use k then false
    else if k == .anyOf || k == .exactlyOne then
      (nested == inChoice &&
        (activeAtomsL use ds).all fun a => a.blocker || (w.matchesOf a).isEmpty) ||
      deadChoiceL w use nested true ds
    else deadChoiceL w use nested (inChoice || isChoice k) ds
end

def deadChoice (w : World) (nested : Bool) : Bool :=
  (cmax w).any fun i => match w.pkg? i with
    | none => false
    | some p => (w.depsOf p).any fun ds => deadChoiceL w p.use nested false ds

/-- a failure "blocked" is justified: a reachable package is matched by a requested blocker
    or by an active blocker of a reachable package -/
def blockJustified (w : World) : Bool := !noBlock w (cmax w)

/-- the documented listing order: package name ascending, then slot ascending -/
def listingLe (a b : Pkg) : Bool :=
  bytesLt a.name b.name || (a.name == b.name && bytesLe a.slot b.slot)

def listing (w : World) (S : List Nat) : List Nat :=
  ((w.pkgs.filter fun p => S.contains p.id).mergeSort listingLe).map (·.id)

end Lc.Spec.Closure
