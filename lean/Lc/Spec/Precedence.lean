/-
  C18 — specification of configuration precedence, written from the property statement
  and doc/layercake_config.adoc, not from config.go:

    value(key) = the first non-empty one of
        the command-line switch            (base path only)
        the environment variable LAYERROOT (base path only)
        the value given by the 1st, 2nd, … file of the CONFIGFILE chain
        the built-in default;
    then the base path is cleaned and must be absolute, LAYERS and EXPORTS are cleaned and,
    when relative, placed under the effective base path, file paths (CHROOT_EXEC,
    CONFIGFILE) are cleaned and must be absolute, everything else is taken verbatim.

  The spec has its own table of kinds and defaults and its own key-name table.  What it
  shares with the model is the *lexical* layer only (`isSkipped`, `lineKey`, `lineVal`:
  what counts as a comment, where key and value of a line are) and the environment types.
  Not fixed by the property statement and chosen here as the code does it: when one file
  assigns the same key more than once, the file's value for the key is its last non-empty
  assignment (noted in REPORT.md).
-/
import Lc.Base.Path
import Lc.Model.Config

namespace Lc.Spec.Precedence
open Lc Lc.Config

/-! ### tables -/

inductive Kind where
  | baseDir        -- BASEPATH
  | dirUnderBase   -- LAYERS, EXPORTS
  | filePath       -- CONFIGFILE, CHROOT_EXEC
  | plain          -- names relative to a layer / export directory: verbatim
  deriving Repr, DecidableEq

def kind : Key → Kind
  | .basepath => .baseDir
  | .layerdirs | .exportroot => .dirUnderBase
  | .configfile | .chrootexec => .filePath
  | _ => .plain

/-- built-in defaults (doc/layercake_config.adoc, "Default configuration") -/
def builtin : Key → Bytes
  | .basepath => b!"/var/lib/layercake"
  | .configfile => []
  | .layerdirs => b!"layers"
  | .buildroot => b!"build"
  | .binpkgdir => b!"packages"
  | .gendir => b!"generated"
  | .workdir => b!"overlayfs/workdir"
  | .upperdir => b!"overlayfs/upperdir"
  | .exportroot => b!"export"
  | .exportpkgdir => b!"packages"
  | .exportgendir => b!"generated"
  | .chrootexec => b!"/usr/bin/chroot"

def keyOfName (n : Bytes) : Option Key :=
  if n = b!"BASEPATH" then some .basepath
  else if n = b!"CONFIGFILE" then some .configfile
  else if n = b!"LAYERS" then some .layerdirs
  else if n = b!"BUILDROOT" then some .buildroot
  else if n = b!"BINPKGS" then some .binpkgdir
  else if n = b!"GENERATED_FILES" then some .gendir
  else if n = b!"OVERFS_WORKDIR" then some .workdir
  else if n = b!"OVERFS_UPPERDIR" then some .upperdir
  else if n = b!"EXPORTS" then some .exportroot
  else if n = b!"EXPORT_BINPKGS" then some .exportpkgdir
  else if n = b!"EXPORT_GENERATED_FILES" then some .exportgendir
  else if n = b!"CHROOT_EXEC" then some .chrootexec
  else none

def allKeys : List Key :=
  [.basepath, .configfile, .layerdirs, .buildroot, .binpkgdir, .gendir, .workdir, .upperdir,
   .exportroot, .exportpkgdir, .exportgendir, .chrootexec]

/-! ### one file -/

/-- the assignments of the given lines in textual order: one `(key?, value)` per line that
    is neither blank nor a comment; `none` = the key is not a setting name -/
def assignmentsOf (lines : List Bytes) : List (Option Key × Bytes) :=
  (lines.filter (fun l => !isSkipped l)).map (fun l => (keyOfName (lineKey l), lineVal l))

def assignments (content : Bytes) : List (Option Key × Bytes) :=
  assignmentsOf (Mountinfo.scanLines content)

/-- "unknown keys are errors" -/
def wellFormed (as : List (Option Key × Bytes)) : Bool := as.all (·.1.isSome)

/-- the value a file gives to `k`: its last non-empty assignment to `k`, "" if none -/
def lastValue (k : Key) : List (Option Key × Bytes) → Bytes
  | [] => []
  | (k', v) :: rest =>
    let r := lastValue k rest
    if r ≠ [] then r else if k' = some k then v else []

def fileValue (content : Bytes) (k : Key) : Bytes := lastValue k (assignments content)

/-! ### the chain -/

/-- `Walk fs start names contents next`: starting at `start` and following CONFIGFILE, the
    files `names` are read one after the other (all present, regular, well formed) with
    contents `contents`, and `next` is what the last of them names as its successor
    (`start` itself for the empty walk).  Purely relational, no fuel. -/
inductive Walk (fs : Fs) : Bytes → List Bytes → List Bytes → Bytes → Prop where
  | nil {start : Bytes} : Walk fs start [] [] start
  | cons {name c next : Bytes} {names contents : List Bytes} :
      name ≠ [] → fs name = some (.file c) → wellFormed (assignments c) = true →
      Walk fs (fileValue c .configfile) names contents next →
      Walk fs name (name :: names) (c :: contents) next

/-- a complete chain: the walk ends at a file that names no successor -/
def IsChain (fs : Fs) (start : Bytes) (names contents : List Bytes) : Prop :=
  Walk fs start names contents []

/-- the chain from `start` revisits a file: some walk along pairwise different names ends
    with a successor that is one of them -/
def Revisits (fs : Fs) (start : Bytes) : Prop :=
  ∃ names contents next, Walk fs start names contents next ∧ names.Nodup ∧ next ∈ names

/-- executable walk along the chain; the error classes are those of the observation -/
def follow (fs : Fs) : Nat → Bytes → List Bytes → Res (List Bytes)
  | fuel, name, seen =>
    if name = [] then .ok []
    else match fuel with
      | 0 => Res.err "out-of-fuel"
      | fuel + 1 =>
        if name ∈ seen then Res.err "loop"
        else match fs name with
          | none => Res.err "open"
          | some .dir => Res.err "read"
          | some (.file c) =>
            if wellFormed (assignments c) then
              match follow fs fuel (fileValue c .configfile) (name :: seen) with
              | .ok cs => .ok (c :: cs)
              | .error f => .error f
            else Res.err "unknown-key"

/-! ### which file the chain starts from (doc: "Configuration-file selection", plus the
    system-wide /etc/layercake.conf the code also looks at) -/

def searchList (env : Env) : List Bytes :=
  [env.layerconf,
   if env.home = [] then [] else env.home ++ b!"/.layercake",
   pathDir (pathDir env.argv0) ++ b!"/etc/layercake.conf",
   b!"/etc/layercake.conf"].filter (· ≠ [])

def isRegular (fs : Fs) (n : Bytes) : Bool :=
  match fs n with
  | some (.file _) => true
  | _ => false

def selectFile (fs : Fs) (env : Env) (sw : Switches) : Bytes :=
  if sw.configfile ≠ [] then sw.configfile
  else match (searchList env).find? (isRegular fs) with
    | some n => n
    | none => []

/-! ### precedence -/

def firstNonEmpty : List Bytes → Bytes
  | [] => []
  | v :: vs => if v ≠ [] then v else firstNonEmpty vs

structure Inputs where
  switchBase : Bytes
  envBase : Bytes
  files : List Bytes     -- contents of the chain's files, in chain order

/-- switch and environment variable: for the base path only -/
def overrides (inp : Inputs) : Key → List Bytes
  | .basepath => [inp.switchBase, inp.envBase]
  | _ => []

/-- everything that may supply `k`, most important first -/
def suppliers (inp : Inputs) (k : Key) : List Bytes :=
  overrides inp k ++ inp.files.map (fun c => fileValue c k) ++ [builtin k]

def raw (inp : Inputs) (k : Key) : Bytes := firstNonEmpty (suppliers inp k)

/-- the effective base path: cleaned, must be absolute -/
def effectiveBase (rawv : Key → Bytes) : Option Bytes :=
  let b := pathClean (rawv .basepath)
  if isAbs b then some b else none

def resolveKey (rawv : Key → Bytes) (base : Bytes) (k : Key) : Option Bytes :=
  let v := rawv k
  match kind k with
  | .plain => some v
  | .baseDir => some base
  | .filePath =>
    if v = [] then some []
    else
      let c := pathClean v
      if isAbs c then some c else none
  | .dirUnderBase =>
    let c := pathClean v
    some (if isAbs c then c else pathClean (base ++ SLASH :: c))

/-- path treatment of the per-key first values `rawv` -/
def resolveFrom (rawv : Key → Bytes) : Res (Key → Bytes) :=
  match effectiveBase rawv with
  | none => Res.err "no-abs-path"
  | some base =>
    if allKeys.all (fun k => (resolveKey rawv base k).isSome) then
      .ok (fun k => (resolveKey rawv base k).getD [])
    else Res.err "no-abs-path"

def resolve (inp : Inputs) : Res (Key → Bytes) := resolveFrom (raw inp)

/-- the specified result of `Load` -/
def load (fs : Fs) (env : Env) (sw : Switches) (fuel : Nat) : Res ConfigType :=
  match follow fs fuel (selectFile fs env sw) [] with
  | .error f => .error f
  | .ok cs =>
    match resolve { switchBase := sw.basepath, envBase := env.layerroot, files := cs } with
    | .error f => .error f
    | .ok s => .ok (toConfig s)

end Lc.Spec.Precedence
