/-
  How the specification's vocabulary (Spec.Stage.Src / Over) is read off the model's inputs
  (an lstat record, the lineInfo of a list line).  Shared by the C07 driver (oracle) and the
  C07 theorems so that the two cannot drift apart.
-/
import Lc.Model.StageEntry
import Lc.Spec.Stage

namespace Lc.Spec.Stage
open Lc Lc.Stage

def kindOfMode (mode : Nat) : String :=
  let t := mode &&& S_IFMT
  if t = S_IFREG then "f" else if t = S_IFDIR then "d" else if t = S_IFLNK then "l"
  else if t = S_IFCHR then "c" else if t = S_IFBLK then "b" else if t = S_IFIFO then "p" else "s"

/-- the source data of a member as the property names it, from the lstat record -/
def srcOf (s : Lstat) : Src :=
  { kind := kindOfMode s.mode, perm := s.mode % 4096, uid := s.uid, gid := s.gid, mtime := s.mtime,
    size := s.size, rdev := s.rdev, link := s.link, xattrs := s.xattrs, sha := s.sha }

/-- what a list line explicitly overrides: mod= / uid= / gid= / dev= / targ=, and the type the
    line forces (`dir`; `node` with dev=; `symlink` with targ=) -/
def overOfEntry (e : Entry) : Over :=
  { kind := if e.ltype = ltDir then some "d"
            else if e.ltype = ltDevice ∧ e.hasDev = true then some (if e.devtype = chrC then "c" else "b")
            else if e.ltype = ltSymlink ∧ e.target ≠ [] then some "l" else none,
    perm := if e.hasPerm then some (e.andMask, e.orMask) else none,
    uid := if e.hasUid then some e.uid else none,
    gid := if e.hasGid then some e.gid else none,
    dev := if e.hasDev then some (e.major, e.minor) else none,
    targ := if e.target = [] then none else some e.target }

def typeChar (t : Nat) : String :=
  if t = tyDir then "d" else if t = tyReg then "f" else if t = tySymlink then "l"
  else if t = tyLink then "h" else if t = tyChar then "c" else if t = tyBlock then "b" else "?"

end Lc.Spec.Stage
