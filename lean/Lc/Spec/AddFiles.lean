/-
  Specification of the add-files line format as the manual states it
  (doc/stagemaker_manpage.adoc "ADD-FILES FORMAT" and the format comment at the top
  of stage/fileList.go), independent of the parser:

  * the type × option table,
  * the two quoting styles (whole field in single or double quotes; backslash
    escapes) as rendering functions,
  * the meaning of a structured line (type, name, key=value options).
-/
import Lc.Base.Bytes
import Lc.Spec.Chmod
import Lc.Base.Path

namespace Lc.Spec.AddFiles
open Lc

/-! ### type × option table (manual, "These are the legal entry types") -/

def types : List Bytes := [b!"file", b!"dir", b!"node", b!"symlink", b!"tbd", b!"omit"]
def options : List Bytes := [b!"mod", b!"uid", b!"gid", b!"src", b!"dev", b!"targ", b!"absent"]

/-- options each type "accepts".  `dir` + `src=` is not in the list of the `dir` entry
    but is used by the manual's own example (`dir /etc/portage src=$$stageroot/…`) and
    by the description of `src=` ("source file, directory or device node"), so it
    counts as documented. -/
def accepts (ty opt : Bytes) : Bool :=
  if ty == b!"file" then [b!"mod", b!"uid", b!"gid", b!"src", b!"absent"].contains opt
  else if ty == b!"dir" then [b!"mod", b!"uid", b!"gid", b!"src", b!"absent"].contains opt
  else if ty == b!"node" then [b!"mod", b!"uid", b!"gid", b!"dev", b!"src", b!"absent"].contains opt
  else if ty == b!"symlink" then [b!"targ", b!"absent"].contains opt
  else if ty == b!"tbd" then [b!"absent"].contains opt
  else false

/-- a syntactically valid sample value for each option -/
def sampleValue (opt : Bytes) : Bytes :=
  if opt == b!"mod" then b!"644" else if opt == b!"uid" then b!"7"
  else if opt == b!"gid" then b!"7" else if opt == b!"src" then b!"/x"
  else if opt == b!"dev" then b!"c4:7" else if opt == b!"targ" then b!"/t"
  else b!"skip"

/-! ### quoting -/

/-- bytes that end or start something for the tokenizer: blank, tab, both quotes, backslash -/
def isSpecial (c : Nat) : Bool := c == 32 || c == 9 || c == 34 || c == 39 || c == 92

/-- backslash style: every blank, quote and backslash gets a backslash in front -/
def escField (f : Bytes) : Bytes := f.flatMap fun c => if isSpecial c then [92, c] else [c]

/-- quote style with quote character `q` (34 or 39): the field between two `q`,
    `q` itself and backslashes escaped -/
def quoteField (q : Nat) (f : Bytes) : Bytes :=
  q :: (f.flatMap fun c => if c == q || c == 92 then [92, c] else [c]) ++ [q]

/-- style 0: backslash escapes, 1: double quotes, 2: single quotes -/
def renderField (style : Nat) (f : Bytes) : Bytes :=
  if style == 1 then quoteField 34 f else if style == 2 then quoteField 39 f else escField f

def renderLine : List (Nat × Bytes) → Bytes
  | [] => []
  | [(s, f)] => renderField s f
  | (s, f) :: rest => renderField s f ++ 32 :: renderLine rest

/-- a field the manual's escaping rules talk about: non-empty, no NUL, no newline -/
def fieldOk (f : Bytes) : Bool := !f.isEmpty && f.all fun c => c != 0 && c != 10 && c < 256

/-! ### meaning of a structured line -/

structure Want where
  adding : Bool
  ltype : Nat
  name : Bytes
  wildcard : Bool
  mode : Option Chmod.Mode := none
  uid : Option Nat := none
  gid : Option Nat := none
  dev : Option (Nat × Nat × Nat) := none
  source : Bytes := []
  target : Bytes := []
  skip : Bool := false
  deriving Repr, DecidableEq

inductive Verdict where
  | accept (w : Want)
  | reject
  | unspecified     -- the manual does not say; only "no crash, errors located" is required
  deriving Repr, DecidableEq

def typeCode (ty : Bytes) : Option (Bool × Nat) :=
  if ty == b!"file" then some (true, 2) else if ty == b!"dir" then some (true, 1)
  else if ty == b!"node" then some (true, 5) else if ty == b!"symlink" then some (true, 3)
  else if ty == b!"tbd" then some (true, 0) else if ty == b!"omit" then some (false, 0)
  else none

/-- asterisks not preceded by a backslash: (in an element before the last, in the last) -/
def stars : Bytes → Bool → Bool → Bool → Bool × Bool
  | [], inParent, inLast, _ => (inParent, inLast)
  | c :: cs, inParent, inLast, prevBs =>
    if c == 47 then stars cs (inParent || inLast) false false
    else if c == 92 then stars cs inParent inLast true
    else if c == 42 && !prevBs then stars cs inParent true false
    else stars cs inParent inLast false

def allDigits (s : Bytes) : Bool := !s.isEmpty && s.all fun c => 48 ≤ c && c ≤ 57
def decVal (s : Bytes) : Nat := s.foldl (fun acc c => acc * 10 + (c - 48)) 0

inductive NumV where
  | val (n : Nat) | bad | unspec
  deriving DecidableEq

/-- an "integer ID": digits; below 2^31 must be taken, 2^32 and above cannot be an ID,
    in between the manual gives no range -/
def idNum (s : Bytes) : NumV :=
  if allDigits s then
    let v := decVal s
    if v < 2 ^ 31 then .val v else if v ≥ 2 ^ 32 then .bad else .unspec
  else if (s.head? == some 43 || s.head? == some 45) && allDigits (s.drop 1) then .unspec
  else .bad

/-- fold one option into the wanted entry -/
def wantOption (acc : Bytes → Bytes → Bool) (ty : Bytes) (w : Want) (key val : Bytes) : Option Want ⊕ Unit :=
  -- `.inl (some w')` accept so far, `.inl none` reject, `.inr ()` unspecified
  if !options.contains key then .inl none
  else if !acc ty key then .inl none
  else if key == b!"mod" then
    if w.mode.isSome then .inr ()
    else match Chmod.parse val with
      | some m => .inl (some { w with mode := some m })
      | none => .inl none
  else if key == b!"uid" then
    if w.uid.isSome then .inr ()
    else match splitOn 58 val with
      | [a] => match idNum a with
        | .val n => .inl (some { w with uid := some n })
        | .bad => .inl none
        | .unspec => .inr ()
      | [a, b] =>
        if w.gid.isSome then .inr ()
        else match idNum a, idNum b with
          | .val g, .val u => .inl (some { w with gid := some g, uid := some u })
          | .bad, _ => .inl none
          | _, .bad => .inl none
          | _, _ => .inr ()
      | _ => .inl none
  else if key == b!"gid" then
    if w.gid.isSome then .inr ()
    else if val.contains 58 then .inr ()
    else match idNum val with
      | .val n => .inl (some { w with gid := some n })
      | .bad => .inl none
      | .unspec => .inr ()
  else if key == b!"dev" then
    if w.dev.isSome || !w.source.isEmpty then .inr ()
    else match val with
      | t :: rest =>
        if t != 98 && t != 99 then .inl none
        else match splitOn 58 rest with
          | [a, b] =>
            if allDigits a && allDigits b then
              let mj := decVal a
              let mn := decVal b
              if mj ≥ 2 ^ 32 || mn ≥ 2 ^ 32 then .inl none
              else if mn < 2 ^ 20 then .inl (some { w with dev := some (t, mj, mn) })
              else .inr ()
            else .inl none
          | _ => .inl none
      | [] => .inl none
  else if key == b!"src" then
    if !w.source.isEmpty || w.dev.isSome then .inr ()
    else if w.wildcard then .inl none          -- "src= is unavailable when globbing is specified"
    else if val.isEmpty then .inl none
    else if (stars val false false false) != (false, false) then .inr ()
    else .inl (some { w with source := val })
  else if key == b!"targ" then
    if val.isEmpty then .inl none
    else if (stars val false false false) != (false, false) then .inr ()
    else .inl (some { w with target := val })    -- a later targ= replacing an earlier one: unspecified below
  else -- absent
    if val == b!"skip" then .inl (some { w with skip := true }) else .inl none

def wantOptions (acc : Bytes → Bytes → Bool) (ty : Bytes) : List (Bytes × Bytes) → Want → Bool → Verdict
  | [], w, unspec => if unspec then .unspecified else .accept w
  | (k, v) :: rest, w, unspec =>
    match wantOption acc ty w k v with
    | .inl (some w') =>
      -- repeated targ=/absent=: manual silent
      let rep := (k == b!"targ" && !w.target.isEmpty)
      wantOptions acc ty rest w' (unspec || rep)
    | .inl none => .reject                    -- one refused option refuses the line
    | .inr () => wantOptions acc ty rest w true

/-- the meaning of `type name key=value…` -/
def expectWith (acc : Bytes → Bytes → Bool) (ty name : Bytes) (opts : List (Bytes × Bytes)) : Verdict :=
  match typeCode ty with
  | none => .reject
  | some (adding, lt) =>
    if name.length < 2 || name.head? != some 47 then .unspecified
    else
      -- the name means the clean path it spells (`/a//b/`, `/a/./b`, `/a/x/../b` all mean `/a/b`);
      -- the root directory alone is not a name
      let name := pathClean name
      if name.length < 2 then .unspecified else
      let (inParent, inLast) := stars name false false false
      if inParent then .reject
      else
        -- keys must not contain '=' themselves and be non-empty for the split to be the intended one
        if opts.any (fun kv => kv.1.isEmpty || kv.1.contains 61) then .unspecified
        else wantOptions acc ty opts { adding := adding, ltype := lt, name := name, wildcard := inLast } false

def expect := expectWith accepts

/-- the table the code implements: `tbd` takes every option (finding
    `tbd-accepts-undocumented-options`) -/
def acceptsLenientTbd (ty opt : Bytes) : Bool :=
  if ty == b!"tbd" then options.contains opt else accepts ty opt

end Lc.Spec.AddFiles
