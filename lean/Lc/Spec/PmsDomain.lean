/-
  Decidable predicates on the *input* of C13 (structured atom, installed package):
  `dom5`, the domain on which the comparable-string order is proved to agree with PMS,
  and the regions of the known findings.  Every region is a predicate on the input
  alone; inside a region the specification's answer is fixed by the predicate, so a
  case in the region either shows the recorded wrong decision or agrees with PMS.
  Core Lean only.
-/
import Lc.Spec.Pms

namespace Lc.Spec.Pms
open Lc

def isDigitB (c : Nat) : Bool := decide (48 ≤ c) && decide (c ≤ 57)
def allDigits (s : Bytes) : Bool := s.all isDigitB

/-- 1–5 digits, no leading zero except the lone `0` -/
def cleanNum (s : Bytes) : Bool :=
  allDigits s && decide (1 ≤ s.length) && decide (s.length ≤ 5) &&
    (match s with
     | 48 :: _ :: _ => false
     | _ => true)

/-- 1–5 digits, first digit 1–9 (so the value is positive) -/
def posNum (s : Bytes) : Bool :=
  allDigits s && decide (s.length ≤ 5) &&
    (match s with
     | c :: _ => decide (49 ≤ c)
     | [] => false)

/-- 1–5 digits -/
def shortNum (s : Bytes) : Bool := allDigits s && decide (1 ≤ s.length) && decide (s.length ≤ 5)

def dom5Suffix (s : Suffix) : Bool :=
  match s.num with
  | none => true
  | some d => posNum d

/-- DESIGN.md §4 C13: every numeric component 1–5 digits without leading zero (a lone 0 is
    fine), optional letter, at most one suffix whose number is absent or positive without
    leading zero and ≤ 5 digits, revision ≤ 5 digits -/
def dom5 (v : Version) : Bool :=
  !v.nums.isEmpty && v.nums.all cleanNum &&
  (match v.letter with
   | none => true
   | some l => decide (97 ≤ l) && decide (l ≤ 122)) &&
  decide (v.sufs.length ≤ 1) && v.sufs.all dom5Suffix &&
  (match v.rev with
   | none => true
   | some r => shortNum r)

/-! ### regions of the known findings -/

/-- every digit string written in the version -/
def digitRuns (v : Version) : List Bytes :=
  v.nums ++ v.sufs.filterMap (·.num) ++ (match v.rev with | some r => [r] | none => [])

/-- `ver-component-over-5-digits` -/
def hasLongRun (v : Version) : Bool := (digitRuns v).any fun r => decide (5 < r.length)

def zeroLed (s : Bytes) : Bool :=
  match s with
  | 48 :: _ :: _ => true
  | _ => false

/-- `ver-leading-zero`: a numeric component after the first is written with a leading zero -/
def hasLeadingZeroComponent (v : Version) : Bool := (v.nums.drop 1).any zeroLed

/-- `ver-multi-suffix` -/
def hasMultiSuffix (v : Version) : Bool := decide (2 ≤ v.sufs.length)

/-- `ver-suffix-zero`: a suffix carries an explicit number of value 0 -/
def hasSuffixZero (v : Version) : Bool :=
  v.sufs.any fun s => match s.num with
    | some d => natOf d == 0
    | none => false

def noRev (v : Version) : Version := { v with rev := none }

/-- `tilde-matches-longer-version`: `~v`, the candidate is not `v` (revision ignored) but
    starts with v's components (PMS says no) -/
def regionTildeLonger (op : Op) (pat cand : Version) : Bool :=
  op == .tilde && (pat.sufs.isEmpty || pat.rev.isNone) &&
    !(opMatch .tilde pat cand) && globMatch (noRev pat) cand

/-- `tilde-revision-not-ignored`: `~v` where v has a suffix and a revision, candidate equal
    to v except for the revision (PMS says yes) -/
def regionTildeRevision (op : Op) (pat cand : Version) : Bool :=
  op == .tilde && !pat.sufs.isEmpty && pat.rev.isSome &&
    opMatch .tilde pat cand && cmpRev pat.rev cand.rev != .eq

/-- `glob-revision-ignored`: `=v-rN*` without suffix: candidate starts with v's components
    but is not v-rN (PMS says no) -/
def regionGlobRevision (op : Op) (pat cand : Version) : Bool :=
  op == .glob && pat.sufs.isEmpty && pat.rev.isSome &&
    !(globMatch pat cand) && globMatch (noRev pat) cand

/-- `subslot-ignored`: `:s/ss`, candidate in slot s with another sub-slot (PMS says no) -/
def regionSubslot (d : SlotDep) (cslot csub : Bytes) : Bool :=
  match d with
  | .slot s (some ss) _ => cslot == s && csub != ss
  | _ => false

/-- a digit run of length > 1 that starts with 0 (`prev` = the previous byte was a digit) -/
def zeroLedGo : Bool → Bytes → Bool
  | _, [] => false
  | prev, c :: rest =>
    if isDigitB c then
      (!prev && c == 48 && isDigitB (rest.head?.getD 0)) || zeroLedGo true rest
    else zeroLedGo false rest

def hasZeroLedRun (s : Bytes) : Bool := zeroLedGo false s

/-- `slot-zero-padding`: slot names differ, one of them has a zero-led digit run
    (PMS says no) -/
def regionSlotPadding (d : SlotDep) (cslot : Bytes) : Bool :=
  match d with
  | .slot s _ _ => cslot != s && (hasZeroLedRun s || hasZeroLedRun cslot)
  | _ => false

/-- `usedep-not-conditional-inverted`: a `[!flag?]` dependency whose flag is (by state or
    by default) enabled in the candidate -/
def regionNotConditional (a : Atom) (p : Package) : Bool :=
  a.use.any fun u => u.form == .ifUnset &&
    (match targetState p u.flag, u.dflt with
     | some s, _ => s
     | none, .plus => true
     | none, _ => false)

/-- finding key for a wrong version-and-slot decision, in fixed priority order -/
def verSlotKey (a : Atom) (p : Package) : Option String :=
  let verKeys : List (String × Bool) :=
    match a.ver with
    | none => []
    | some (op, v) =>
      [("ver-component-over-5-digits", hasLongRun v || hasLongRun p.ver),
       ("ver-leading-zero", hasLeadingZeroComponent v || hasLeadingZeroComponent p.ver),
       ("ver-multi-suffix", hasMultiSuffix v || hasMultiSuffix p.ver),
       ("ver-suffix-zero", hasSuffixZero v || hasSuffixZero p.ver),
       ("tilde-matches-longer-version", regionTildeLonger op v p.ver),
       ("tilde-revision-not-ignored", regionTildeRevision op v p.ver),
       ("glob-revision-ignored", regionGlobRevision op v p.ver)]
  let keys := verKeys ++
    [("subslot-ignored", regionSubslot a.slot p.slot (p.sub.getD p.slot)),
     ("slot-zero-padding", regionSlotPadding a.slot p.slot)]
  (keys.find? (·.2)).map (·.1)

/-- finding key for a wrong USE-dependency decision -/
def useKey (a : Atom) (p : Package) : Option String :=
  if regionNotConditional a p then some "usedep-not-conditional-inverted" else none

end Lc.Spec.Pms
