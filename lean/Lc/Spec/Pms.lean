/-
  Independent specification: the Package Manager Specification's version comparison
  (PMS ch. 3.3, Algorithms 3.1–3.7), the version operators, slot dependencies and
  USE dependencies of dependency atoms (PMS ch. 8.3).  Written from the PMS text, not
  from the Go code.  Works on the *structure* of a version / atom (the harness's
  generator builds text from the same structure; `render` is used to check that).
  Core Lean only.
-/
import Lc.Base.Bytes

namespace Lc.Spec.Pms
open Lc

/-! ### structure of a version (PMS 3.2) -/

inductive SufKind where
  | alpha | beta | pre | rc | p
  deriving Repr, DecidableEq

structure Suffix where
  kind : SufKind
  /-- the digits as written; `none` = no number -/
  num : Option Bytes
  deriving Repr, DecidableEq

structure Version where
  /-- the dot-separated numeric components, as written (digit strings), at least one -/
  nums : List Bytes
  /-- optional single letter a–z -/
  letter : Option Nat
  sufs : List Suffix
  /-- `-rN`; the digits as written -/
  rev : Option Bytes
  deriving Repr, DecidableEq

/-! ### numbers and strings -/

/-- value of a digit string -/
def natOf (s : Bytes) : Nat := s.foldl (fun acc d => acc * 10 + (d - 48)) 0

/-- ASCII stringwise comparison -/
def strCmp : Bytes → Bytes → Ordering
  | [], [] => .eq
  | [], _ :: _ => .lt
  | _ :: _, [] => .gt
  | a :: as, b :: bs => if a < b then .lt else if b < a then .gt else strCmp as bs

def stripTrailingZeros (s : Bytes) : Bytes := (s.reverse.dropWhile (· == 48)).reverse

def hasLeadingZero (s : Bytes) : Bool :=
  match s with
  | 48 :: _ => true
  | _ => false

/-- Algorithm 3.3: a numeric component after the first -/
def cmpLaterComponent (a b : Bytes) : Ordering :=
  if hasLeadingZero a || hasLeadingZero b then
    strCmp (stripTrailingZeros a) (stripTrailingZeros b)
  else compare (natOf a) (natOf b)

/-- Algorithm 3.2, the loop over the components after the first, then the length rule -/
def cmpLaterComponents : List Bytes → List Bytes → Ordering
  | [], [] => .eq
  | [], _ :: _ => .lt
  | _ :: _, [] => .gt
  | a :: as, b :: bs =>
    match cmpLaterComponent a b with
    | .eq => cmpLaterComponents as bs
    | o => o

/-- Algorithm 3.2 -/
def cmpNums : List Bytes → List Bytes → Ordering
  | a :: as, b :: bs =>
    match compare (natOf a) (natOf b) with
    | .eq => cmpLaterComponents as bs
    | o => o
  | [], [] => .eq
  | [], _ :: _ => .lt
  | _ :: _, [] => .gt

/-- Algorithm 3.4: the letter, absent = empty string -/
def cmpLetter : Option Nat → Option Nat → Ordering
  | none, none => .eq
  | none, some _ => .lt
  | some _, none => .gt
  | some a, some b => compare a b

def SufKind.rank : SufKind → Nat
  | .alpha => 0 | .beta => 1 | .pre => 2 | .rc => 3 | .p => 4

def sufNum (s : Suffix) : Nat :=
  match s.num with
  | some d => natOf d
  | none => 0

/-- Algorithm 3.6 -/
def cmpSuffix (a b : Suffix) : Ordering :=
  if a.kind = b.kind then compare (sufNum a) (sufNum b)
  else compare a.kind.rank b.kind.rank

/-- Algorithm 3.5 -/
def cmpSufs : List Suffix → List Suffix → Ordering
  | [], [] => .eq
  | [], b :: _ => if b.kind = .p then .lt else .gt
  | a :: _, [] => if a.kind = .p then .gt else .lt
  | a :: as, b :: bs =>
    match cmpSuffix a b with
    | .eq => cmpSufs as bs
    | o => o

def revNum (r : Option Bytes) : Nat :=
  match r with
  | some d => natOf d
  | none => 0

/-- Algorithm 3.7 -/
def cmpRev (a b : Option Bytes) : Ordering := compare (revNum a) (revNum b)

/-- Algorithm 3.1 without the revision -/
def vercmpNoRev (a b : Version) : Ordering :=
  match cmpNums a.nums b.nums with
  | .eq =>
    match cmpLetter a.letter b.letter with
    | .eq => cmpSufs a.sufs b.sufs
    | o => o
  | o => o

/-- Algorithm 3.1 -/
def vercmp (a b : Version) : Ordering :=
  match vercmpNoRev a b with
  | .eq => cmpRev a.rev b.rev
  | o => o

/-! ### version operators (PMS 8.3.1) -/

inductive Op where
  | lt | le | eq | ge | gt | tilde | glob
  deriving Repr, DecidableEq

/-- `=v*`: "only the given number of version components is used for the comparison, the
    asterisk acts as a wildcard for any further components".  Components, in order: the
    numeric components, the letter, each suffix (its kind, then its number), the
    revision.  The candidate must start with the specified components; the last
    specified component may be followed by anything, except that a component may not
    be cut in the middle (`=1.2*` does not match `1.20`) — the boundary rule every
    package manager implements. -/
def globNums : List Bytes → List Bytes → Bool → Option (List Bytes)
  -- returns the candidate's remaining components when the pattern's are a prefix
  | [], cs, _ => some cs
  | _ :: _, [], _ => none
  | p :: ps, c :: cs, first =>
    let same := if first then compare (natOf p) (natOf c) == .eq else cmpLaterComponent p c == .eq
    if same then globNums ps cs false else none

def globSufs : List Suffix → List Suffix → Bool
  | [], _ => true
  | _ :: _, [] => false
  | [p], c :: _ =>
    -- last specified suffix: a suffix without number leaves the number open
    p.kind = c.kind && (match p.num with
      | none => true
      | some _ => sufNum p == sufNum c)
  | p :: ps, c :: cs => cmpSuffix p c == .eq && globSufs ps cs

def globMatch (pat cand : Version) : Bool :=
  match globNums pat.nums cand.nums true with
  | none => false
  | some restNums =>
    let exactNums := restNums.isEmpty
    match pat.rev with
    | some _ =>
      -- everything is specified: the candidate is that version
      exactNums && cmpLetter pat.letter cand.letter == .eq && cmpSufs pat.sufs cand.sufs == .eq
        && cmpRev pat.rev cand.rev == .eq
    | none =>
      match pat.sufs with
      | _ :: _ =>
        exactNums && cmpLetter pat.letter cand.letter == .eq && globSufs pat.sufs cand.sufs
      | [] =>
        match pat.letter with
        | some _ => exactNums && cmpLetter pat.letter cand.letter == .eq
        | none => true

def opMatch (op : Op) (pat cand : Version) : Bool :=
  match op with
  | .lt => vercmp cand pat == .lt
  | .le => vercmp cand pat != .gt
  | .eq => vercmp cand pat == .eq
  | .ge => vercmp cand pat != .lt
  | .gt => vercmp cand pat == .gt
  | .tilde => vercmpNoRev cand pat == .eq
  | .glob => globMatch pat cand

/-! ### slot dependencies (PMS 8.3.3) -/

inductive SlotDep where
  | none                                     -- no slot restriction
  | star                                     -- `:*`
  | eq                                       -- `:=`
  | slot (s : Bytes) (sub : Option Bytes) (eqOp : Bool)   -- `:s`, `:s/ss`, `:s=`
  deriving Repr, DecidableEq

/-- the candidate has slot `cslot` and sub-slot `csub` (a package without explicit
    sub-slot has a sub-slot equal to its slot) -/
def slotMatch (d : SlotDep) (cslot csub : Bytes) : Bool :=
  match d with
  | .none => true
  | .star => true
  | .eq => true
  | .slot s none _ => cslot == s
  | .slot s (some ss) _ => cslot == s && csub == ss

/-! ### USE dependencies (PMS 8.3.4) -/

inductive UseForm where
  | enabled      -- [opt]
  | disabled     -- [-opt]
  | same         -- [opt=]
  | opposite     -- [!opt=]
  | ifSet        -- [opt?]
  | ifUnset      -- [!opt?]
  deriving Repr, DecidableEq

inductive UseDefault where
  | none | plus | minus
  deriving Repr, DecidableEq

/-- The table of PMS 8.3.4.  `target` = the flag's state in the candidate (`none` = the
    candidate does not have the flag), `parent` = the flag's state in the package that
    has the dependency.  A flag the candidate lacks is taken from the `(+)`/`(-)`
    default; without a default the dependency is an error and nothing matches. -/
def useFormHolds (f : UseForm) (state parent : Bool) : Bool :=
  match f with
  | .enabled => state
  | .disabled => !state
  | .same => state == parent
  | .opposite => state != parent
  | .ifSet => !parent || state          -- "if the flag is enabled for the parent it must be enabled"
  | .ifUnset => parent || !state        -- "if the flag is disabled for the parent it must be disabled"

def useDepHolds (f : UseForm) (d : UseDefault) (target : Option Bool) (parent : Bool) : Bool :=
  match target, d with
  | some s, _ => useFormHolds f s parent
  | none, .plus => useFormHolds f true parent
  | none, .minus => useFormHolds f false parent
  | none, .none => false

structure UseDep where
  form : UseForm
  dflt : UseDefault
  flag : Bytes
  deriving Repr, DecidableEq

/-! ### atoms and installed packages -/

structure Atom where
  bang : Nat                 -- 0, 1 (`!`), 2 (`!!`): blockers do not change what the atom matches
  name : Bytes               -- category/package
  ver : Option (Op × Version)
  slot : SlotDep
  use : List UseDep
  /-- the `(+)` marker is written before (`true`, PMS) or after the `=`/`?` suffix -/
  pmsOrder : Bool := true
  deriving Repr

structure Package where
  name : Bytes
  ver : Version
  slot : Bytes
  sub : Option Bytes
  /-- IUSE: the flags the package has, with their state -/
  flags : List (Bytes × Bool)
  deriving Repr

def targetState (p : Package) (flag : Bytes) : Option Bool :=
  (p.flags.find? (fun e => e.1 == flag)).map (·.2)

def parentState (parent : List (Bytes × Bool)) (flag : Bytes) : Bool :=
  match parent.find? (fun e => e.1 == flag) with
  | some e => e.2
  | none => false

def verMatch (a : Atom) (p : Package) : Bool :=
  match a.ver with
  | none => true
  | some (op, v) => opMatch op v p.ver

def useMatch (a : Atom) (p : Package) (parent : List (Bytes × Bool)) : Bool :=
  a.use.all fun u => useDepHolds u.form u.dflt (targetState p u.flag) (parentState parent u.flag)

/-- does installed package `p` satisfy dependency atom `a` of a package whose USE state
    is `parent`? -/
def satisfies (a : Atom) (p : Package) (parent : List (Bytes × Bool)) : Bool :=
  a.name == p.name && verMatch a p && slotMatch a.slot p.slot (p.sub.getD p.slot)
    && useMatch a p parent

/-! ### rendering (only to check that the harness's text is the text of the structure) -/

def SufKind.text : SufKind → Bytes
  | .alpha => b!"alpha" | .beta => b!"beta" | .pre => b!"pre" | .rc => b!"rc" | .p => b!"p"

def Suffix.render (s : Suffix) : Bytes := 95 :: s.kind.text ++ s.num.getD []

def Version.renderBase (v : Version) : Bytes :=
  joinWith 46 v.nums ++ (match v.letter with | some l => [l] | none => [])

def Version.renderSufs (v : Version) : Bytes := v.sufs.flatMap Suffix.render

def Version.renderRev (v : Version) : Bytes :=
  match v.rev with
  | some r => 114 :: r
  | none => []

def Version.render (v : Version) : Bytes :=
  v.renderBase ++ v.renderSufs ++ (match v.rev with | some r => 45 :: 114 :: r | none => [])

def Op.text : Op → Bytes
  | .lt => b!"<" | .le => b!"<=" | .eq => b!"=" | .ge => b!">=" | .gt => b!">"
  | .tilde => b!"~" | .glob => b!"="

def UseDefault.text : UseDefault → Bytes
  | .none => [] | .plus => b!"(+)" | .minus => b!"(-)"

def UseDep.render (u : UseDep) (pmsOrder : Bool) : Bytes :=
  let d := u.dflt.text
  let withSuffix (pre : Bytes) (suf : Bytes) : Bytes :=
    if pmsOrder then pre ++ u.flag ++ d ++ suf else pre ++ u.flag ++ suf ++ d
  match u.form with
  | .enabled => u.flag ++ d
  | .disabled => 45 :: u.flag ++ d
  | .same => withSuffix [] b!"="
  | .opposite => withSuffix b!"!" b!"="
  | .ifSet => withSuffix [] b!"?"
  | .ifUnset => withSuffix b!"!" b!"?"

def SlotDep.render : SlotDep → Bytes
  | .none => []
  | .star => b!":*"
  | .eq => b!":="
  | .slot s sub e =>
    58 :: s ++ (match sub with | Option.some ss => 47 :: ss | Option.none => []) ++ (if e then b!"=" else [])

def Atom.render (a : Atom) : Bytes :=
  List.replicate a.bang 33 ++
  (match a.ver with
   | some (op, v) => op.text ++ a.name ++ 45 :: v.render ++ (if op = .glob then b!"*" else [])
   | none => a.name) ++
  a.slot.render ++
  (match a.use with
   | [] => []
   | us => 91 :: joinWith 44 (us.map fun u => u.render a.pmsOrder) ++ [93])

def Package.text (p : Package) : Bytes := p.name ++ 45 :: p.ver.render

end Lc.Spec.Pms
