/-
  Specification: what chmod(1) does with a MODE operand (POSIX grammar, GNU coreutils
  behaviour), independent of the Go code.

      mode    := octal | clause (',' clause)*
      octal   := [0-7]+            value ≤ 07777
      clause  := who* action+
      action  := op (perm* | who')          op ∈ + - =   who' ∈ u g o (copy)
      who     := u g o a
      perm    := r w x X s t

  Modes are 12-bit permission words.  `who` empty means `a` with the process umask
  masked out; stagemaker has no umask notion for a tarball member, the specification
  takes umask = 0.  Not covered (GNU extension): a numeric mode or `=` on a directory
  keeps set-user-ID/set-group-ID unless given explicitly.
-/
import Lc.Base.Bytes

namespace Lc.Spec.Chmod
open Lc

inductive Op where
  | add | remove | set
  deriving Repr, DecidableEq

/-- one action: operator and the letters after it (perm letters, or one of u g o) -/
structure Action where
  op : Op
  perms : Bytes
  deriving Repr, DecidableEq

structure Clause where
  who : Bytes
  actions : List Action
  deriving Repr, DecidableEq

inductive Mode where
  | octal (v : Nat)
  | symbolic (cs : List Clause)
  deriving Repr, DecidableEq

def isWho (c : Nat) : Bool := c == 117 || c == 103 || c == 111 || c == 97
def isPermLetter (c : Nat) : Bool :=
  c == 114 || c == 119 || c == 120 || c == 88 || c == 115 || c == 116
def isCopyLetter (c : Nat) : Bool := c == 117 || c == 103 || c == 111

def op? (c : Nat) : Option Op :=
  if c == 43 then some .add else if c == 45 then some .remove
  else if c == 61 then some .set else none

/-- `action+`: `cur` is the action being collected -/
def parseActs : Bytes → List Action → Option Action → Option (List Action)
  | [], done, some a => some (done ++ [a])
  | [], _, none => none
  | c :: cs, done, cur =>
    match op? c with
    | some o => parseActs cs (match cur with | some a => done ++ [a] | none => done) (some ⟨o, []⟩)
    | none =>
      if isPermLetter c || isCopyLetter c then
        match cur with
        | some a => parseActs cs done (some ⟨a.op, a.perms ++ [c]⟩)
        | none => none
      else none

/-- letters after an operator: all perm letters, or exactly one copy letter -/
def validPerms (ps : Bytes) : Bool :=
  ps.all isPermLetter || (ps.length == 1 && ps.all isCopyLetter)

def parseClause (s : Bytes) : Option Clause :=
  let who := s.takeWhile isWho
  match parseActs (s.dropWhile isWho) [] none with
  | some acts => if acts.all (fun a => validPerms a.perms) then some ⟨who, acts⟩ else none
  | none => none

def parseClauses : List Bytes → Option (List Clause)
  | [] => some []
  | s :: rest => match parseClause s, parseClauses rest with
    | some c, some cs => some (c :: cs)
    | _, _ => none

def isOct (c : Nat) : Bool := 48 ≤ c && c ≤ 55

def octVal : Bytes → Nat → Nat
  | [], acc => acc
  | c :: cs, acc => octVal cs (acc * 8 + (c - 48))

def parse (s : Bytes) : Option Mode :=
  if s.isEmpty then none
  else if s.all isOct then
    let v := octVal s 0
    if v ≤ 0o7777 then some (.octal v) else none
  else (parseClauses (splitOn 44 s)).map .symbolic

/-! ### semantics -/

def whoMask1 (c : Nat) : Nat :=
  if c == 117 then 0o4700 else if c == 103 then 0o2070
  else if c == 111 then 0o1007 else if c == 97 then 0o7777 else 0

def whoMask (who : Bytes) : Nat :=
  if who.isEmpty then 0o7777 else who.foldl (fun acc c => acc ||| whoMask1 c) 0

/-- bits named by a perm letter (before masking with who); `X` looks at the mode the
    action is applied to -/
def permBits1 (isDir : Bool) (m : Nat) (c : Nat) : Nat :=
  if c == 114 then 0o444 else if c == 119 then 0o222 else if c == 120 then 0o111
  else if c == 88 then (if isDir || m &&& 0o111 != 0 then 0o111 else 0)
  else if c == 115 then 0o6000 else if c == 116 then 0o1000 else 0

def rep3 (b : Nat) : Nat := b * 0o111

def permValue (isDir : Bool) (m : Nat) (ps : Bytes) : Nat :=
  match ps with
  | [117] => rep3 ((m / 64) % 8)
  | [103] => rep3 ((m / 8) % 8)
  | [111] => rep3 (m % 8)
  | _ => ps.foldl (fun acc c => acc ||| permBits1 isDir m c) 0

def applyAction (isDir : Bool) (w : Nat) (m : Nat) (a : Action) : Nat :=
  let v := permValue isDir m a.perms &&& w
  match a.op with
  | .add => m ||| v
  | .remove => m &&& (0o7777 ^^^ v)
  | .set => (m &&& (0o7777 ^^^ w)) ||| v

def applyClause (isDir : Bool) (m : Nat) (c : Clause) : Nat :=
  c.actions.foldl (applyAction isDir (whoMask c.who)) m

/-- the mode a file of mode `m` has after `chmod MODE file` -/
def apply (md : Mode) (isDir : Bool) (m : Nat) : Nat :=
  match md with
  | .octal v => v
  | .symbolic cs => cs.foldl (applyClause isDir) m

/-- what an and/or mask pair does to a mode (stage/expand.go:
    `perms = (perms & andMask) | orMask`) -/
def applyMasks (andM orM m : Nat) : Nat := (m &&& andM) ||| orM

end Lc.Spec.Chmod
