/-
  Independent specification for C06/C07 (written from the property text, tar(5) and the
  Linux `dev_t` layout, not from the Go code):

  * which member names a stage tarball must contain, as set algebra over the generator's
    description of the build root,
  * the order predicates (members under `./`, unique, parents first, hard links refer to
    an earlier regular member of the same inode),
  * "header field = source field" per member kind, with the add-files overrides,
  * Linux `major()`/`minor()`/`makedev()`.
-/
import Lc.Base.Bytes
import Lc.Base.Path

namespace Lc.Spec.Stage
open Lc

/-! ### Linux dev_t (include/linux/kdev_t.h `new_decode_dev` widened as in glibc
    `gnu_dev_major/minor/makedev`): major bits 8-19 and 44-63, minor bits 0-7 and 20-43 -/

def linuxMajor (dev : Nat) : Nat := (dev / 2 ^ 8) % 2 ^ 12 + (dev / 2 ^ 44) * 2 ^ 12
def linuxMinor (dev : Nat) : Nat := dev % 2 ^ 8 + ((dev / 2 ^ 20) % 2 ^ 24) * 2 ^ 8
def makedev (ma mi : Nat) : Nat :=
  (ma % 2 ^ 12) * 2 ^ 8 + (ma / 2 ^ 12) * 2 ^ 44 + mi % 2 ^ 8 + (mi / 2 ^ 8) * 2 ^ 20

/-! ### names and ancestors -/

/-- prefixes of `n` that end right before a later `/` (`pre` = bytes already passed) -/
def ancestorsAux (pre : Bytes) : Bytes → List Bytes
  | [] => []
  | c :: cs =>
    if c = SLASH ∧ pre ≠ [] then pre :: ancestorsAux (pre ++ [c]) cs
    else ancestorsAux (pre ++ [c]) cs

/-- all proper ancestor directories of a clean absolute name, starting with "/" :
    `/a/b/c ↦ [/, /a, /a/b]`, `/ ↦ []` -/
def ancestors (n : Bytes) : List Bytes :=
  if n = [SLASH] ∨ n = [] then [] else [SLASH] :: ancestorsAux [] n

def insertU (n : Bytes) (s : List Bytes) : List Bytes := if s.contains n then s else n :: s
def unionU (a b : List Bytes) : List Bytes := a.foldl (fun acc n => insertU n acc) b
def minusU (a b : List Bytes) : List Bytes := a.filter (fun n => !b.contains n)

/-- close a set of names under parent directories -/
def parentClose (s : List Bytes) : List Bytes :=
  s.foldl (fun acc n => unionU (ancestors n) acc) s

structure Cats where
  sel : List Bytes            -- existing names recorded for selected packages
  cands : List (Bytes × Bytes) -- symlinks of the root outside do-not-traverse areas, with final target
  vdb : List Bytes            -- database entries of the selected packages
  static : List Bytes         -- static /dev names
  magic : List Bytes          -- names the built-in StageMagic list yields on this root
  excluded : List Bytes       -- recorded only for installed packages outside the selection
  std : List Bytes            -- standard stage directories
  user : List (Bool × Bytes)  -- add-files script in order: (true, name) added, (false, name) omitted
  novdb : Bool
  emptydev : Bool

/-- the member names (stage-absolute, e.g. `/etc/passwd`) a generated tarball must have -/
def expectedNames (c : Cats) : List Bytes :=
  let links := (c.cands.filter fun (n, t) => !c.sel.contains n && c.sel.contains t).map (·.1)
  let base := unionU c.magic (unionU (if c.emptydev then [] else c.static)
                (unionU (if c.novdb then [] else c.vdb) (unionU links c.sel)))
  let s1 := parentClose (unionU c.std (minusU base c.excluded))
  let s2 := c.user.foldl (fun acc (adding, n) => if adding then insertU n acc else minusU acc [n]) s1
  parentClose s2

/-! ### order predicates on an archive member sequence `(name, type, linkname)` -/

structure Mem where
  name : Bytes
  type : String
  link : Bytes

/-- `./x/y ↦ /x/y`, `./ ↦ /`; none when the name is not under `./` -/
def stripDot (n : Bytes) : Option Bytes :=
  match n with
  | 46 :: 47 :: rest => some (47 :: rest)
  | _ => none

def allDotRelative (ms : List Mem) : Bool := ms.all fun m => (stripDot m.name).isSome

def uniqueNames : List Bytes → Bool
  | [] => true
  | n :: ns => !ns.contains n && uniqueNames ns

/-- every member is preceded by all of its parent directories (as directory members) -/
def parentsPrecede (ms : List Mem) : Bool :=
  let rec go : List Bytes → List Mem → Bool
    | _, [] => true
    | seenDirs, m :: rest =>
      match stripDot m.name with
      | none => false
      | some n =>
        (ancestors n).all (fun a => seenDirs.contains a) &&
          go (if m.type == "d" then n :: seenDirs else seenDirs) rest
  go [] ms

/-- every hard-link member names an earlier regular-file member whose source has the same
    inode (`inoOf` looks the source of a member up in the generator's record of the root) -/
def hardlinksOK (inoOf : Bytes → Option (Nat × Nat)) (ms : List Mem) : Bool :=
  let rec go : List (Bytes × Option (Nat × Nat)) → List Mem → Bool
    | _, [] => true
    | seenRegs, m :: rest =>
      let me := inoOf m.name
      if m.type == "h" then
        (me.isSome && seenRegs.any (fun (n, i) => n == m.link && i == me)) && go seenRegs rest
      else if m.type == "f" then go ((m.name, me) :: seenRegs) rest
      else go seenRegs rest
  go [] ms

/-! ### header fidelity -/

/-- source data of one member, as recorded by lstat/readlink/llistxattr on the build root -/
structure Src where
  kind : String     -- f d l c b
  perm : Nat        -- st_mode & 07777
  uid : Nat
  gid : Nat
  mtime : Nat
  size : Nat
  rdev : Nat
  link : Bytes
  xattrs : List (Bytes × Bytes)
  sha : String

/-- what the applicable add-files line overrides -/
structure Over where
  kind : Option String := none      -- type forced by the line: dir ↦ d, node+dev= ↦ c/b, symlink+targ= ↦ l
  perm : Option (Nat × Nat) := none  -- (andMask, orMask) of mod=
  uid : Option Nat := none
  gid : Option Nat := none
  dev : Option (Nat × Nat) := none
  targ : Option Bytes := none

/-- header fields the property fixes, for one member -/
structure Exp where
  kind : String
  perm : Nat
  uid : Nat
  gid : Nat
  mtime : Option Nat    -- none: time of the run
  size : Nat
  link : Bytes
  maj : Nat
  min : Nat
  xattrs : List (Bytes × Bytes)
  sha : String
  deriving DecidableEq

def emptySha : String := "e3b0c44298fc1c14"

def applyMod (base : Nat) : Option (Nat × Nat) → Nat
  | none => base % 4096
  | some (a, o) => (if a > 0 then (base &&& a) ||| o else o) % 4096

/-- the header a member must carry: the source's fields unless an option overrides one;
    root ownership and mode 0755 when the path is absent from the build root. -/
def expected (src : Option Src) (ov : Over) : Exp :=
  match src with
  | some s =>
    let kind := ov.kind.getD s.kind
    let isDev := kind == "c" || kind == "b"
    { kind := kind,
      perm := applyMod s.perm ov.perm,
      uid := ov.uid.getD s.uid, gid := ov.gid.getD s.gid,
      mtime := some s.mtime,
      size := if kind == "f" then s.size else 0,
      link := if kind == "l" then ov.targ.getD s.link else [],
      maj := if isDev then (match ov.dev with | some d => d.1 | none => linuxMajor s.rdev) else 0,
      min := if isDev then (match ov.dev with | some d => d.2 | none => linuxMinor s.rdev) else 0,
      xattrs := s.xattrs,
      sha := if kind == "f" then s.sha else emptySha }
  | none =>
    let kind := ov.kind.getD "d"   -- no line asks for it: a parent directory added by closure
    { kind := kind,
      perm := applyMod 0o755 ov.perm,
      uid := ov.uid.getD 0, gid := ov.gid.getD 0,
      mtime := none, size := 0,
      link := if kind == "l" then ov.targ.getD [] else [],
      maj := (ov.dev.map (·.1)).getD 0, min := (ov.dev.map (·.2)).getD 0,
      xattrs := [], sha := emptySha }

end Lc.Spec.Stage
