/-
  C18 — model of config/config.go (`Load`, `readConfigFile`, `mergeSettingSetup`,
  `patchPaths`), defaults/defaults.go and fs.ReadNonBlankNonCommentLine, statement by
  statement, as the code is after the two `fix:` commits recorded in known_findings.txt
  (single `patchPaths` call after the defaults are merged; key looked up before the
  empty-value test).  Core Lean only.

  Environment model.  The file system is a function `Bytes → Option Node` from the exact
  name string handed to open(2)/stat(2) to what is found there.  Environment variables
  and `os.Args[0]` are fields of `Env`; an unset variable is the empty string (that is
  what `os.Getenv` returns).

  Go maps `map[int]string`: every read in the modelled code is `m[k]`, which yields ""
  for an absent key, and every test is `len(m[k]) == 0`; "absent" and "empty" are
  therefore indistinguishable and a map is modelled as a total function `Key → Bytes`.

  Unicode.  `strings.TrimSpace` and `strings.ToUpper` are Unicode-aware.  `trimSpace`
  below models the full `unicode.IsSpace` set on UTF-8 input (ASCII \t \n \v \f \r space,
  U+0085, U+00A0, U+1680, U+2000–U+200A, U+2028, U+2029, U+202F, U+205F, U+3000), which is
  exact for every byte string because all of these encodings start with a lead byte and
  invalid UTF-8 decodes to U+FFFD (not a space).  `upperKey` is exact *as far as equality
  with an ASCII key name is concerned*: besides a–z, the only runes whose
  `unicode.ToUpper` is ASCII are U+0131 (ı → I) and U+017F (ſ → S) (enumerated over all
  runes with the Go toolchain); every other non-ASCII rune or invalid byte maps to a
  non-ASCII result and cannot match a key.  The result of `upperKey` is only ever
  compared with the ASCII names in `settingSetup`.
-/
import Lc.Base.Bytes
import Lc.Base.Res
import Lc.Base.Path
import Lc.Model.Mountinfo

namespace Lc.Config
open Lc

/-! ### file system and process environment -/

inductive Node where
  | file (content : Bytes)
  | dir
  deriving Repr, DecidableEq

abbrev Fs := Bytes → Option Node

structure Env where
  layerroot : Bytes := []
  layerconf : Bytes := []
  home : Bytes := []
  argv0 : Bytes := []
  deriving Repr, DecidableEq

/-- the two command-line switches handed to `Load(configfile, basepath)` -/
structure Switches where
  configfile : Bytes := []
  basepath : Bytes := []
  deriving Repr, DecidableEq

/-! ### strings.TrimSpace / strings.ToUpper -/

/-- two-byte UTF-8 encodings of Unicode spaces: U+0085, U+00A0 -/
def uspace2 (a b : Nat) : Bool := a == 0xC2 && (b == 0x85 || b == 0xA0)

/-- three-byte encodings: U+1680, U+2000..U+200A, U+2028, U+2029, U+202F, U+205F, U+3000 -/
def uspace3 (a b c : Nat) : Bool :=
  (a == 0xE1 && b == 0x9A && c == 0x80) ||
  (a == 0xE2 && b == 0x80 && ((0x80 ≤ c && c ≤ 0x8A) || c == 0xA8 || c == 0xA9 || c == 0xAF)) ||
  (a == 0xE2 && b == 0x81 && c == 0x9F) ||
  (a == 0xE3 && b == 0x80 && c == 0x80)

/-- `strings.TrimLeftFunc(s, unicode.IsSpace)` -/
def trimLeft : Bytes → Bytes
  | [] => []
  | [a] => if isAsciiSpace a then [] else [a]
  | [a, b] => if isAsciiSpace a then trimLeft [b] else if uspace2 a b then [] else [a, b]
  | a :: b :: c :: r =>
    if isAsciiSpace a then trimLeft (b :: c :: r)
    else if uspace2 a b then trimLeft (c :: r)
    else if uspace3 a b c then trimLeft r
    else a :: b :: c :: r

/-- `strings.TrimRightFunc` on the reversed string (last byte first) -/
def trimRightRev : Bytes → Bytes
  | [] => []
  | [a] => if isAsciiSpace a then [] else [a]
  | [a, b] => if isAsciiSpace a then trimRightRev [b] else if uspace2 b a then [] else [a, b]
  | a :: b :: c :: r =>
    if isAsciiSpace a then trimRightRev (b :: c :: r)
    else if uspace2 b a then trimRightRev (c :: r)
    else if uspace3 c b a then trimRightRev r
    else a :: b :: c :: r

/-- `strings.TrimSpace` -/
def trimSpace (s : Bytes) : Bytes := (trimRightRev (trimLeft s).reverse).reverse

/-- `strings.ToUpper`, exact up to equality with an ASCII string (see the header) -/
def upperKey : Bytes → Bytes
  | [] => []
  | [c] => [if 97 ≤ c ∧ c ≤ 122 then c - 32 else c]
  | a :: b :: r =>
    if a = 0xC4 ∧ b = 0xB1 then 73 :: upperKey r
    else if a = 0xC5 ∧ b = 0xBF then 83 :: upperKey r
    else (if 97 ≤ a ∧ a ≤ 122 then a - 32 else a) :: upperKey (b :: r)

/-! ### the setting table (config.go `settingSetup`, defaults/defaults.go) -/

/-- `cfKey_*` (cfKey_none = 0 is `Option.none` in `relativeTo`) -/
inductive Key where
  | basepath | configfile | layerdirs | buildroot | binpkgdir | gendir
  | workdir | upperdir | exportroot | exportpkgdir | exportgendir | chrootexec
  deriving Repr, DecidableEq

inductive SType where
  | value | file | dir
  deriving Repr, DecidableEq

structure CfSetup where
  key : Key
  sType : SType
  relativeTo : Option Key
  defaultValue : Bytes
  configKey : Bytes
  deriving Repr

def settingSetup : List CfSetup := [
  ⟨.basepath, .dir, none, b!"/var/lib/layercake", b!"BASEPATH"⟩,
  ⟨.configfile, .file, none, [], b!"CONFIGFILE"⟩,
  ⟨.layerdirs, .dir, some .basepath, b!"layers", b!"LAYERS"⟩,
  ⟨.buildroot, .value, none, b!"build", b!"BUILDROOT"⟩,
  ⟨.binpkgdir, .value, none, b!"packages", b!"BINPKGS"⟩,
  ⟨.gendir, .value, none, b!"generated", b!"GENERATED_FILES"⟩,
  ⟨.workdir, .value, none, b!"overlayfs/workdir", b!"OVERFS_WORKDIR"⟩,
  ⟨.upperdir, .value, none, b!"overlayfs/upperdir", b!"OVERFS_UPPERDIR"⟩,
  ⟨.exportroot, .dir, some .basepath, b!"export", b!"EXPORTS"⟩,
  ⟨.exportpkgdir, .value, none, b!"packages", b!"EXPORT_BINPKGS"⟩,
  ⟨.exportgendir, .value, none, b!"generated", b!"EXPORT_GENERATED_FILES"⟩,
  ⟨.chrootexec, .file, none, b!"/usr/bin/chroot", b!"CHROOT_EXEC"⟩]

/-- `map[int]string` (see the header) -/
abbrev Setup := Key → Bytes

def Setup.empty : Setup := fun _ => []

def Setup.set (s : Setup) (k : Key) (v : Bytes) : Setup :=
  fun k' => if k' = k then v else s k'

/-- `defaultSettingSetup` -/
def defaultSettingSetup : Setup :=
  settingSetup.foldl (fun s v => s.set v.key v.defaultValue) Setup.empty

/-- `mergeSettingSetup(target, source)`: a source value is taken only where the target
    has none (first value wins) -/
def mergeSettingSetup (target source : Setup) : Setup :=
  fun k => if (target k).length = 0 then source k else target k

/-! ### patchPaths -/

/-- one iteration of the loop in `patchPaths` -/
def patchOne (cfg : Setup) (e : CfSetup) : Res Setup :=
  let value := cfg e.key
  if (e.sType ≠ .dir ∧ e.sType ≠ .file) ∨ value.length < 1 then .ok cfg
  else
    let value := pathClean value
    if !isAbs value then
      let relTo := match e.relativeTo with
        | none => []            -- cfg[cfKey_none]: never set
        | some k => cfg k
      if relTo.length < 1 ∨ !isAbs relTo then Res.err "no-abs-path"
      else .ok (cfg.set e.key (pathJoin [relTo, value]))
    else .ok (cfg.set e.key value)

def patchList : List CfSetup → Setup → Res Setup
  | [], cfg => .ok cfg
  | e :: es, cfg => match patchOne cfg e with
    | .ok cfg' => patchList es cfg'
    | .error f => .error f

def patchPaths (cfg : Setup) : Res Setup := patchList settingSetup cfg

/-! ### readConfigFile -/

/-- the skip test of `ReadNonBlankNonCommentLine`: blank, `#…` or `//…` after trimming -/
def isSkipped (line : Bytes) : Bool :=
  match trimSpace line with
  | [] => true
  | 35 :: _ => true
  | 47 :: 47 :: _ => true
  | _ => false

/-- key part of a line: `strings.ToUpper(strings.TrimSpace(parts[0]))` -/
def lineKey (line : Bytes) : Bytes :=
  match splitN2 61 (trimSpace line) with
  | k :: _ => upperKey (trimSpace k)
  | [] => []          -- unreachable: SplitN never returns an empty slice here

/-- value part of a line: `strings.TrimSpace(parts[1])`, "" when there is no `=` -/
def lineVal (line : Bytes) : Bytes :=
  match splitN2 61 (trimSpace line) with
  | [_, v] => trimSpace v
  | _ => []

/-- the inner `for _, item := range settingSetup` lookup -/
def lookupKey (uckey : Bytes) : Option Key :=
  (settingSetup.find? (fun item => uckey == item.configKey)).map (·.key)

/-- body of the line loop of `readConfigFile` (after the fix: key first, then the
    empty-value test) -/
def readLines : Setup → List Bytes → Res Setup
  | cfg, [] => .ok cfg
  | cfg, line :: rest =>
    if isSkipped line then readLines cfg rest
    else match lookupKey (lineKey line) with
      | none => Res.err "unknown-key"
      | some k =>
        let val := lineVal line
        readLines (if val.length > 0 then cfg.set k val else cfg) rest

/-- `readConfigFile` on the content of an opened file -/
def parseConfig (content : Bytes) : Res Setup :=
  readLines Setup.empty (Mountinfo.scanLines content)

/-- `readConfigFile(filename)`: a missing name fails in `os.OpenFile`; a directory opens
    but the first `read` fails (EISDIR), which the cursor reports through `Err()` -/
def readConfigFile (fs : Fs) (filename : Bytes) : Res Setup :=
  match fs filename with
  | none => Res.err "open"
  | some .dir => Res.err "read"
  | some (.file c) => parseConfig c

/-! ### Load -/

/-- `fs.IsFile` -/
def isFile (fs : Fs) (name : Bytes) : Bool :=
  match fs name with
  | some (.file _) => true
  | _ => false

/-- the `choices` slice built when no `-config` switch is given.  `path.Dir` never
    returns the empty string, so the third candidate is always present. -/
def candidates (env : Env) : List Bytes :=
  (if env.layerconf.length > 0 then [env.layerconf] else []) ++
  (if env.home.length > 0 then [env.home ++ b!"/.layercake"] else []) ++
  (let parentdir := pathDir (pathDir env.argv0)
   if parentdir.length > 0 then [parentdir ++ b!"/etc/layercake.conf"] else []) ++
  [b!"/etc/layercake.conf"]

/-- the configuration file the chain starts from ("" = none) -/
def startFile (fs : Fs) (env : Env) (sw : Switches) : Bytes :=
  if sw.configfile.length < 1 then
    ((candidates env).find? (isFile fs)).getD []
  else sw.configfile

/-- `for len(configfile) > 0 { … }` with the visited set.  `fuel` bounds the number of
    iterations; `Props.C18.load_terminates` shows that `|files| + 1` always suffices. -/
def chainLoop (fs : Fs) : Nat → Bytes → List Bytes → Setup → Res Setup
  | fuel, configfile, visited, setup =>
    if configfile.length = 0 then .ok setup
    else match fuel with
      | 0 => Res.err "out-of-fuel"
      | fuel + 1 =>
        if configfile ∈ visited then Res.err "loop"
        else match readConfigFile fs configfile with
          | .error f => .error f
          | .ok fileSetup =>
            chainLoop fs fuel (fileSetup .configfile) (configfile :: visited)
              (mergeSettingSetup setup fileSetup)

/-- the seed of `setup`: `-basepath`, else `LAYERROOT` -/
def seedSetup (env : Env) (sw : Switches) : Setup :=
  Setup.empty.set .basepath (if sw.basepath.length < 1 then env.layerroot else sw.basepath)

/-- `Load` up to the construction of `ConfigType`: the final `setup` map -/
def loadSetup (fs : Fs) (env : Env) (sw : Switches) (fuel : Nat) : Res Setup :=
  match chainLoop fs fuel (startFile fs env sw) [] (seedSetup env sw) with
  | .error f => .error f
  | .ok setup => patchPaths (mergeSettingSetup setup defaultSettingSetup)

/-- `ConfigType` (the eleven string fields; `LayerExportDirs` is never set by `Load`) -/
structure ConfigType where
  basepath : Bytes
  layerdirs : Bytes
  layerBuildRoot : Bytes
  layerBinPkgdir : Bytes
  layerGeneratedir : Bytes
  layerOvfsWorkdir : Bytes
  layerOvfsUpperdir : Bytes
  exportdirs : Bytes
  exportBinPkgdir : Bytes
  exportGeneratedir : Bytes
  chrootExec : Bytes
  deriving Repr, DecidableEq

def toConfig (s : Setup) : ConfigType :=
  { basepath := s .basepath, layerdirs := s .layerdirs, layerBuildRoot := s .buildroot,
    layerBinPkgdir := s .binpkgdir, layerGeneratedir := s .gendir,
    layerOvfsWorkdir := s .workdir, layerOvfsUpperdir := s .upperdir,
    exportdirs := s .exportroot, exportBinPkgdir := s .exportpkgdir,
    exportGeneratedir := s .exportgendir, chrootExec := s .chrootexec }

/-- `config.Load(configfile, basepath)` -/
def load (fs : Fs) (env : Env) (sw : Switches) (fuel : Nat) : Res ConfigType :=
  (loadSetup fs env sw fuel).map toConfig

/-! ### file systems given as a finite listing (what the driver builds) -/

def lookupName (files : List (Bytes × Node)) (name : Bytes) : Option Node :=
  (files.find? (fun p => p.1 == name)).map (·.2)

/-- exact-name file system over a finite listing -/
def fsOf (files : List (Bytes × Node)) : Fs := lookupName files

end Lc.Config
