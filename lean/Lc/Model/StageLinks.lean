/-
  Model of stage/supplement.go `RecoverMissingLinks`, `addMissingLinks` and
  `ultimateSymlinkTarget`: the walk over the build root that adds every symbolic link
  which is not yet a member and whose chain of links ends at a member.

  What is environment here (not layercake code):
    * `lstat(2)` / `readlink(2)` on an arbitrary path: the oracle `Env.fs` the stage model
      already has (keyed by the full path, `rootDir` included).  `fs.IsSymlink` and
      `fs.Readlink` are answered from it.  The chain of links may pass through symbolically
      linked directories; what the kernel answers there is the oracle's business.
    * what the walk itself sees: `fs.Readdirnames` of a directory and, for every name in it,
      whether `lstat` says symbolic link / directory.  The walk reaches its paths through
      real directories only (it never descends into a symbolic link), so this part of the
      file system is a finite tree: `Node`.  Children stand in `Readdirnames` order (the
      order of getdents64, not sorted).
    * `fs.IsDir` is `stat(2)` (follows links), but the code asks it only after
      `fs.IsSymlink` has said no, where `stat` and `lstat` agree: a `Node.dir`/`unreadable`.

  `Res.panic`: `target[0]` on an empty link target.  Running out of fuel is the separate
  error class "fuel"; `Lc.Props.C06Links.walk_fuel` shows it does not occur when the fuel is
  the number of nodes of the tree.
-/
import Lc.Model.StageList

namespace Lc.Stage

/-! ### defaults/stagemaker.go -/

/-- `defaults.MaxSymlinkChain` -/
def maxSymlinkChain : Nat := 5

/-- `defaults.DoNotTraverse` -/
def doNotTraverse : Bytes :=
  b!"/boot /dev /home /media /mnt /proc /run /usr/portage /sys /var/db cache tmp"

/-- the map `nogoPaths` of `RecoverMissingLinks`: the fields of `DoNotTraverse` with
    `name[0] == '/'` (`strings.Fields` yields no empty string, so `name[0]` cannot panic);
    `Lc.Stage.nogo_split` (Lemmas/StageLinks) shows these two lists are that split -/
def nogoPaths : List Bytes :=
  [b!"/boot", b!"/dev", b!"/home", b!"/media", b!"/mnt", b!"/proc", b!"/run", b!"/usr/portage",
   b!"/sys", b!"/var/db"]

/-- the map `nogoNames`: the other fields -/
def nogoNames : List Bytes := [b!"cache", b!"tmp"]

/-! ### the part of the build root the walk sees -/

inductive Node where
  /-- a directory with its names in `Readdirnames` order -/
  | dir (entries : List (Bytes × Node))
  /-- a directory `Readdirnames` fails on (EACCES, or gone in between) -/
  | unreadable
  | file
  | symlink (target : Bytes)
  /-- device node, FIFO, socket; also a name `lstat` fails on -/
  | other

mutual
/-- number of nodes -/
def Node.size : Node → Nat
  | .dir es => 1 + Node.sizeList es
  | _ => 1
def Node.sizeList : List (Bytes × Node) → Nat
  | [] => 0
  | (_, n) :: rest => n.size + Node.sizeList rest
end

/-! ### fs.IsSymlink, fs.Readlink -/

/-- `fs.IsSymlink(p)`: `lstat` succeeds and says S_IFLNK -/
def isSymlinkAt (env : Env) (p : Bytes) : Bool :=
  match env.fs p with
  | some st => st.mode &&& S_IFMT == S_IFLNK
  | none => false

/-- `fs.Readlink(p)`: ENOENT, or EINVAL on something that is not a link -/
def readlinkAt (env : Env) (p : Bytes) : Res Bytes :=
  match env.fs p with
  | some st => if st.mode &&& S_IFMT = S_IFLNK then .ok st.link else Res.err "stage"
  | none => Res.err "stage"

/-! ### ultimateSymlinkTarget -/

/-- `if target[0] != '/' { target = path.Join(path.Dir(relPath), target) }` on a non-empty target -/
def resolveTarget (relPath : Bytes) (c : Nat) (rest : Bytes) : Bytes :=
  if c != SLASH then pathJoin2 (pathDir relPath) (c :: rest) else c :: rest

/-- the `for` loop of `ultimateSymlinkTarget`; the arguments are the loop variables
    `linkCount`, `relPath`, `absPath` at the top of an iteration.  One unit of fuel per
    iteration. -/
def chainLoop (env : Env) : Nat → Nat → Bytes → Bytes → Res Bytes
  | 0, _, _, _ => Res.err "fuel"
  | fuel + 1, linkCount, relPath, absPath =>
    match readlinkAt env absPath with
    | .error f => .error f
    | .ok [] => Res.panic                                 -- target[0]: index out of range
    | .ok (c :: rest) =>
      let target := resolveTarget relPath c rest
      let absPath' := pathJoin2 env.rootDir target
      if !isSymlinkAt env absPath' then .ok target
      else
        let linkCount' := linkCount + 1                    -- linkCount++
        if linkCount' > maxSymlinkChain then Res.err "stage"  -- break: "symlink chain … too long"
        else chainLoop env fuel linkCount' target absPath'

/-- `fl.ultimateSymlinkTarget(source, absPath)`: `linkCount := 1; relPath := source`.  The
    loop makes at most `MaxSymlinkChain` iterations (`chainLoop_fuel`). -/
def ultimateTarget (env : Env) (source absPath : Bytes) : Res Bytes :=
  chainLoop env maxSymlinkChain 1 source absPath

/-! ### addMissingLinks -/

/-- the branch `if fs.IsSymlink(matchpath)` of the loop body -/
def linkStep (env : Env) (m : EMap) (matchname : Bytes) : Res EMap :=
  if m.has matchname then .ok m                            -- already in the file set: continue
  else
    match ultimateTarget env matchname (pathJoin2 env.rootDir matchname) with
    | .error f => .error f
    | .ok target =>
      if m.has target then addEntry env m { ltype := ltSymlink, name := matchname }
      else .ok m

/-- the body of the `for _, match := range matches` loop for one name of the directory;
    `rec` is the recursive call `sr.addMissingLinks(matchname)` -/
def entryStep (env : Env) (rec : Bytes → Node → EMap → Res EMap) (dir mtch : Bytes) (node : Node)
    (m : EMap) : Res EMap :=
  let matchname := pathJoin2 dir mtch
  match node with
  | .symlink _ => linkStep env m matchname                 -- fs.IsSymlink(matchpath)
  | .dir _ | .unreadable =>                                -- else if fs.IsDir(matchpath)
    if nogoNames.contains mtch then .ok m else rec matchname node m
  | .file | .other => .ok m

/-- the loop over the names `fs.Readdirnames` returned, in their order -/
def walkEntries (env : Env) (rec : Bytes → Node → EMap → Res EMap) (dir : Bytes) :
    List (Bytes × Node) → EMap → Res EMap
  | [], m => .ok m
  | (mtch, node) :: rest, m =>
    match entryStep env rec dir mtch node m with
    | .error f => .error f
    | .ok m' => walkEntries env rec dir rest m'

/-- `sr.addMissingLinks(dir)` on the node that stands at `dir`; one unit of fuel per level
    of recursion -/
def walkDir (env : Env) : Nat → Bytes → Node → EMap → Res EMap
  | 0, _, _, _ => Res.err "fuel"
  | fuel + 1, dir, node, m =>
    if nogoPaths.contains dir then .ok m
    else
      match node with                                        -- fs.Readdirnames(dirpath)
      | .dir entries => walkEntries env (walkDir env fuel) dir entries m
      | _ => Res.err "stage"                                 -- ENOTDIR, EACCES, ENOENT

/-- `fl.RecoverMissingLinks()` on the build root `tree` -/
def recoverMissingLinks (env : Env) (tree : Node) (m : EMap) : Res EMap :=
  walkDir env tree.size [SLASH] tree m

/-! ### the candidate list (what the harness hands to the pipeline as `Step.recover`) -/

/-- one symbolic link of the walk with the outcome of `ultimateSymlinkTarget`, independent
    of the member map -/
def candOf (env : Env) (matchname : Bytes) : Cand :=
  match ultimateTarget env matchname (pathJoin2 env.rootDir matchname) with
  | .ok t => { name := matchname, target := t, tooLong := false }
  | .error _ => { name := matchname, target := [], tooLong := true }

def candsEntry (env : Env) (rec : Bytes → Node → List Cand) (dir mtch : Bytes) (node : Node) : List Cand :=
  let matchname := pathJoin2 dir mtch
  match node with
  | .symlink _ => [candOf env matchname]
  | .dir _ | .unreadable => if nogoNames.contains mtch then [] else rec matchname node
  | .file | .other => []

def candsEntries (env : Env) (rec : Bytes → Node → List Cand) (dir : Bytes) :
    List (Bytes × Node) → List Cand
  | [] => []
  | (mtch, node) :: rest => candsEntry env rec dir mtch node ++ candsEntries env rec dir rest

/-- every symbolic link the walk would look at, in the order of the walk -/
def candsDir (env : Env) : Nat → Bytes → Node → List Cand
  | 0, _, _ => []
  | fuel + 1, dir, node =>
    if nogoPaths.contains dir then []
    else
      match node with
      | .dir entries => candsEntries env (candsDir env fuel) dir entries
      | _ => []

def candidates (env : Env) (tree : Node) : List Cand := candsDir env tree.size [SLASH] tree

mutual
/-- no `unreadable` directory anywhere in the tree -/
def Node.readable : Node → Bool
  | .dir es => Node.readableList es
  | .unreadable => false
  | _ => true
def Node.readableList : List (Bytes × Node) → Bool
  | [] => true
  | (_, n) :: rest => n.readable && Node.readableList rest
end

/-! ### a tree as its own lstat oracle (for examples and tests) -/

/-- the node at the path with these components, through directories only -/
def Node.find : Node → List Bytes → Option Node
  | n, [] => some n
  | .dir es, c :: cs =>
    match es.find? (fun e => e.1 == c) with
    | some e => e.2.find cs
    | none => none
  | _, _ :: _ => none

def lstatWith (mode : Nat) (link : Bytes) : Lstat :=
  { mode := mode, uid := 0, gid := 0, mtime := 0, size := link.length, nlink := 1, dev := 1, ino := 0,
    rdev := 0, link := link, xattrs := [], sha := "" }

def Node.lstat : Node → Lstat
  | .dir _ => lstatWith (S_IFDIR + 0o755) []
  | .unreadable => lstatWith S_IFDIR []
  | .file => lstatWith (S_IFREG + 0o644) []
  | .symlink t => lstatWith (S_IFLNK + 0o777) t
  | .other => lstatWith (S_IFIFO + 0o644) []

/-- the path below the root directory, `none` for a path outside -/
def stripRoot (rootDir p : Bytes) : Option Bytes :=
  if rootDir = [SLASH] then some p
  else if p = rootDir then some [SLASH]
  else if hasPrefix p (rootDir ++ [SLASH]) then some (p.drop rootDir.length)
  else none

/-- the environment in which `lstat` is the literal lookup in `tree` (a symbolic link in
    the middle of a path is not followed) -/
def Env.ofTree (rootDir : Bytes) (tree : Node) : Env :=
  { rootDir := rootDir,
    fs := fun p => match stripRoot rootDir p with
      | none => none
      | some rel => (tree.find (pathComps rel)).map Node.lstat }

end Lc.Stage
