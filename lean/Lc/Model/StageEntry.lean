/-
  Model of stage/expand.go `addSingleFile` (one `lineInfo` + the `lstat` record of its
  source ↦ the entry stored in `entryMap`) and of the header mapping of stage/tar.go
  `MakeTar`.  Statement by statement, after the fixes recorded in known_findings.txt
  (device type/major/minor decoding, synthesised mode 0777 &^ umask, full-length
  Readlink, xattr reads that retry on ERANGE and do not follow symlinks).

  What is environment here (not layercake code): `lstat`, `readlink`, `l*xattr` — the
  record `Lstat` carries their answers; the bytes of regular files are represented by an
  opaque digest `sha`.
-/
import Lc.Base.Bytes
import Lc.Base.Res
import Lc.Base.Path

namespace Lc.Stage

/-! ### constants of syscall / vdb / defaults -/

def S_IFMT : Nat := 0o170000
def S_IFSOCK : Nat := 0o140000
def S_IFLNK : Nat := 0o120000
def S_IFREG : Nat := 0o100000
def S_IFBLK : Nat := 0o060000
def S_IFDIR : Nat := 0o040000
def S_IFCHR : Nat := 0o020000
def S_IFIFO : Nat := 0o010000

def ltNone : Nat := 0
def ltDir : Nat := 1
def ltFile : Nat := 2
def ltSymlink : Nat := 3
def ltHardlink : Nat := 4
def ltDevice : Nat := 5

def umask : Nat := 0o022        -- defaults.Umask
def stageFileUID : Nat := 0     -- defaults.StageFileUID
def stageFileGID : Nat := 0     -- defaults.StageFileGID
def permBits : Nat := 0o7777    -- vdb.PermBits

def chrC : Nat := 99  -- 'c'
def chrB : Nat := 98  -- 'b'

/-- What `lstat(2)`, `readlink(2)`, `llistxattr/lgetxattr(2)` say about one path. -/
structure Lstat where
  mode : Nat
  uid : Nat
  gid : Nat
  mtime : Nat
  size : Nat
  nlink : Nat
  dev : Nat
  ino : Nat
  rdev : Nat
  link : Bytes
  xattrs : List (Bytes × Bytes)
  sha : String
  deriving Repr, DecidableEq

/-- `stage.lineInfo`.  `unixTime = none` stands for `time.Now()`; `xattrs = none` for a nil
    map; `devino` carries the inode identity itself instead of the index handed out by
    `fl.inodes` (the index is only ever compared for equality). -/
structure Entry where
  ltype : Nat := 0
  name : Bytes := []
  source : Bytes := []
  target : Bytes := []
  fsize : Nat := 0
  unixTime : Option Nat := some 0
  xattrs : Option (List (Bytes × Bytes)) := none
  gid : Nat := 0
  uid : Nat := 0
  andMask : Nat := 0
  orMask : Nat := 0
  devino : Option (Nat × Nat) := none
  major : Nat := 0
  minor : Nat := 0
  devtype : Nat := 0
  hasWildcard : Bool := false
  hasGid : Bool := false
  hasUid : Bool := false
  hasDev : Bool := false
  hasPerm : Bool := false
  skipIfAbsent : Bool := false
  deriving Repr, DecidableEq

/-! ### device numbers -/

def u32 (n : Nat) : Nat := n % 4294967296

/-- `devMajorMinor` of stage/expand.go:
    `major = uint32((rdev >> 8) & 0xfff) | uint32((rdev >> 32) &^ 0xfff)`.
    `x &^ 0xfff` on a 64-bit value is written `x - x % 4096`; the or of the two disjoint
    bit ranges is a sum (`devMajor_bits` in Lc/Props/C07 proves the equality with the
    bitwise form). -/
def devMajor (rdev : Nat) : Nat :=
  u32 ((rdev / 256) % 4096) + u32 (rdev / 4294967296 - (rdev / 4294967296) % 4096)

/-- `minor = uint32(rdev & 0xff) | uint32((rdev >> 12) &^ 0xff)` -/
def devMinor (rdev : Nat) : Nat :=
  u32 (rdev % 256) + u32 (rdev / 4096 - (rdev / 4096) % 256)

/-- the same two expressions written with the bit operators of the Go source -/
def devMajorBits (rdev : Nat) : Nat :=
  u32 ((rdev >>> 8) &&& 0xfff) ||| u32 ((rdev >>> 32) - ((rdev >>> 32) &&& 0xfff))

def devMinorBits (rdev : Nat) : Nat :=
  u32 (rdev &&& 0xff) ||| u32 ((rdev >>> 12) - ((rdev >>> 12) &&& 0xff))

/-! ### addSingleFile -/

/-- outcome of the `switch statbuf.Mode & S_IFMT`: the actual ltype, or a deferred error
    (socket, FIFO), or an immediate error (unknown type bits) -/
inductive Actual where
  | ok (ltype : Nat)
  | deferred
  | unknown
  deriving Repr, DecidableEq

def actualOf (mode : Nat) : Actual :=
  let t := mode &&& S_IFMT
  if t = S_IFSOCK then .deferred
  else if t = S_IFLNK then .ok ltSymlink
  else if t = S_IFREG then .ok ltFile
  else if t = S_IFBLK ∨ t = S_IFCHR then .ok ltDevice
  else if t = S_IFDIR then .ok ltDir
  else if t = S_IFIFO then .deferred
  else .unknown

/-- `needLtypeCheck` as computed at the top of `addSingleFile` -/
def needLtypeCheck (nameIsSource : Bool) (info : Entry) : Bool :=
  if info.ltype = ltDir then false
  else if info.ltype = ltSymlink then info.target.isEmpty
  else if info.ltype = ltDevice then (!nameIsSource || !info.hasDev)
  else nameIsSource

/-- the part of `addSingleFile` between the `lstat` and the final `switch info.ltype`:
    which ltype the entry gets (`.ok none` = `return nil`, nothing stored). -/
def resolveLtype (st : Option Lstat) (nameIsSource : Bool) (info : Entry) : Res (Option Nat) :=
  match st.map (fun s => actualOf s.mode) with
  | some .unknown => Res.err "stage"                 -- default: unknown type bits
  | none =>                                           -- lstat: ENOENT
    if info.skipIfAbsent then .ok none
    else if info.ltype = ltNone then Res.err "stage"  -- no file found to determine type
    else .ok (some info.ltype)
  | some .deferred =>                                 -- socket, FIFO: err is set
    if info.ltype = ltNone then Res.err "stage"
    else if needLtypeCheck nameIsSource info then Res.err "stage"
    else .ok (some info.ltype)
  | some (.ok t) =>
    if info.ltype = ltNone then .ok (some t)
    else if needLtypeCheck nameIsSource info then
      if info.ltype != t then Res.err "stage" else .ok (some info.ltype)
    else .ok (some info.ltype)

/-- permission bits: `perms := statbuf.Mode` / `0777 &^ defaults.Umask`, then the `mod=` masks -/
def permsOf (st : Option Lstat) (info : Entry) : Nat :=
  let perms0 : Nat := match st with
    | some s => s.mode
    | none => 0o777 - (0o777 &&& umask)
  if info.hasPerm then
    if info.andMask > 0 then (perms0 &&& info.andMask) ||| info.orMask else info.orMask
  else perms0

/-- the fields every kind of entry gets: ltype, permissions, owner, group, time, xattrs -/
def commonFields (st : Option Lstat) (info : Entry) (ltype : Nat) : Entry :=
  { info with
    ltype := ltype,
    devino := none,
    orMask := permsOf st info,
    gid := if !info.hasGid then (match st with | some s => s.gid | none => stageFileGID) else info.gid,
    uid := if !info.hasUid then (match st with | some s => s.uid | none => stageFileUID) else info.uid,
    unixTime := match st with | some s => some s.mtime | none => none,
    xattrs := match st with | some s => some s.xattrs | none => info.xattrs }

/-- the final `switch info.ltype` of `addSingleFile` -/
def finishKind (st : Option Lstat) (nameIsSource : Bool) (info : Entry) : Res (Option Entry) :=
  if info.ltype = ltDir then .ok (some info)
  else if info.ltype = ltFile then
    match st with
    | none => Res.err "stage"
    | some s =>
      .ok (some { info with
        devino := if nameIsSource && s.nlink > 1 then some (s.dev, s.ino) else info.devino,
        fsize := s.size })
  else if info.ltype = ltSymlink then
    if info.target.isEmpty then
      match st with
      | none => Res.err "stage"           -- readlink: ENOENT
      | some s =>
        if s.mode &&& S_IFMT = S_IFLNK then .ok (some { info with target := s.link })
        else Res.err "stage"              -- readlink: EINVAL
    else .ok (some info)
  else if info.ltype = ltDevice then
    if !info.hasDev then
      match st with
      | none => Res.err "stage"
      | some s =>
        let t := s.mode &&& S_IFMT
        if t = S_IFCHR then
          .ok (some { info with devtype := chrC, major := devMajor s.rdev, minor := devMinor s.rdev })
        else if t = S_IFBLK then
          .ok (some { info with devtype := chrB, major := devMajor s.rdev, minor := devMinor s.rdev })
        else Res.err "stage"
    else .ok (some info)
  else Res.err "stage"

/-- the source path `addSingleFile` stats -/
def sourceOf (rootDir : Bytes) (info : Entry) : Bytes :=
  if info.source.isEmpty then pathJoin2 rootDir info.name else info.source

/-- `fl.addSingleFile(info)`: `.ok none` = returned nil without storing anything
    (`skipIfAbsent`), `.ok (some e)` = `fl.entryMap[e.name] = e`. -/
def addSingleFile (fs : Bytes → Option Lstat) (rootDir : Bytes) (info0 : Entry) :
    Res (Option Entry) :=
  let nameIsSource := info0.source.isEmpty
  let info : Entry := { info0 with source := sourceOf rootDir info0 }
  let st := fs info.source
  match resolveLtype st nameIsSource info with
  | .error e => .error e
  | .ok none => .ok none
  | .ok (some ltype) => finishKind st nameIsSource (commonFields st info ltype)

/-! ### MakeTar: entry ↦ tar header -/

structure Header where
  name : Bytes
  typeflag : Nat       -- '0' reg, '1' link, '2' symlink, '3' char, '4' block, '5' dir
  linkname : Bytes
  size : Nat
  mode : Nat
  uid : Nat
  gid : Nat
  mtime : Option Nat   -- none = time of the run
  devmajor : Nat
  devminor : Nat
  xattrs : List (Bytes × Bytes)
  deriving Repr, DecidableEq

def tyReg : Nat := 48
def tyLink : Nat := 49
def tySymlink : Nat := 50
def tyChar : Nat := 51
def tyBlock : Nat := 52
def tyDir : Nat := 53

/-- the header `MakeTar` builds for one entry of `fl.Files`; `target[0]` on an empty
    hard-link target is an index-out-of-range panic. -/
def headerOf (info : Entry) : Res Header :=
  let hdr : Header :=
    { name := 46 :: info.name, typeflag := tyReg, linkname := [], size := info.fsize,
      mode := info.orMask, uid := info.uid, gid := info.gid, mtime := info.unixTime,
      devmajor := 0, devminor := 0,
      xattrs := info.xattrs.getD [] }
  if info.ltype = ltDir then .ok { hdr with typeflag := tyDir }
  else if info.ltype = ltFile then .ok { hdr with typeflag := tyReg }
  else if info.ltype = ltSymlink then .ok { hdr with typeflag := tySymlink, linkname := info.target }
  else if info.ltype = ltHardlink then
    match info.target with
    | [] => Res.panic
    | c :: rest =>
      let target := if c = 47 then 46 :: c :: rest else c :: rest
      .ok { hdr with typeflag := tyLink, linkname := target }
  else if info.ltype = ltDevice then
    .ok { hdr with typeflag := (if info.devtype = chrC then tyChar else tyBlock),
                   devmajor := info.major, devminor := info.minor }
  else .ok hdr

end Lc.Stage
