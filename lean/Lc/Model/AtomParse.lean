/-
  Model of portage/parse/atomCursor.go, portage/parse/chartype.go and
  portage/atom/parse.go (RawParseAtomAtCursor, parseUseDependencies, the two regular
  expressions) and portage/atom/compare.go (makeComparable, padNumericSegment).

  Cursor representation.  The Go `AtomCursor{Slice, Pos, Last}` is modelled by the
  remaining input `Slice[Pos:]` (a `Bytes`).  This is exact because no method ever reads
  `Slice` at an index below the position at which the current token / atom started
  (checked by reading every index expression of the three files), `Pos` never exceeds
  `len(Slice)` (every `Take` is preceded by a successful class test of the byte under
  the cursor, and `Peek*` return 0 beyond `Last`), and the slices `Slice[a:b]` that are
  only used to build error-message texts are not modelled (error *class* only).

  Core Lean only.
-/
import Lc.Base.Bytes
import Lc.Base.Res

namespace Lc.AtomParse
open Lc

abbrev Cur := Bytes

/-- sentinel: a fuelled loop ran out of fuel (never a Go outcome; shown unreachable) -/
def fuelOut {α} : Res α := .error (.err "fuel")

/-! ### AtomCursor primitives -/

/-- `ac.Peek()` : byte under the cursor, 0 beyond the end -/
def peek (c : Cur) : Nat := c.headD 0
/-- `ac.Peek1()` -/
def peek1 (c : Cur) : Nat := (c.drop 1).headD 0
/-- `ac.Peek2()` -/
def peek2 (c : Cur) : Nat := (c.drop 2).headD 0
/-- `ac.Take()` : `ac.Pos++`; the byte it returns is `peek` of the new cursor -/
def take (c : Cur) : Cur := c.tail

/-! ### chartype.go (fns.MakeCharTypeMap expansions) -/

def isLower (c : Nat) : Bool := decide (97 ≤ c) && decide (c ≤ 122)
def isUpper (c : Nat) : Bool := decide (65 ≤ c) && decide (c ≤ 90)
def isDigit (c : Nat) : Bool := decide (48 ≤ c) && decide (c ≤ 57)
def isAlnum (c : Nat) : Bool := isLower c || isUpper c || isDigit c

/-- "a-zA-Z0-9/_+*.-" -/
def isNameVerChar (c : Nat) : Bool :=
  isAlnum c || c == 47 || c == 95 || c == 43 || c == 42 || c == 46 || c == 45
/-- "a-zA-Z0-9_" -/
def isSlotNameStartChar (c : Nat) : Bool := isAlnum c || c == 95
/-- "a-zA-Z0-9+_.-" -/
def isSlotNameMidChar (c : Nat) : Bool := isAlnum c || c == 43 || c == 95 || c == 46 || c == 45
/-- "a-zA-Z0-9_-" -/
def isRepoNameChar (c : Nat) : Bool := isAlnum c || c == 95 || c == 45
/-- "a-zA-Z0-9+_@!?=(),-" -/
def isUseDepChar (c : Nat) : Bool :=
  isAlnum c || c == 43 || c == 95 || c == 64 || c == 33 || c == 63 || c == 61 || c == 40 ||
  c == 41 || c == 44 || c == 45
/-- "a-zA-Z0-9+_@-" -/
def isUseFlagChar (c : Nat) : Bool := isAlnum c || c == 43 || c == 95 || c == 64 || c == 45
/-- regexp `\w` (RE2: ASCII only) -/
def isWord (c : Nat) : Bool := isAlnum c || c == 95

/-! ### AtomCursor scanners -/

/-- one slot-name component at the cursor: start char followed by mid chars -/
def slotComp (c : Cur) : Option (Bytes × Cur) :=
  match c with
  | [] => none
  | x :: xs =>
    if isSlotNameStartChar x then
      some (x :: xs.takeWhile isSlotNameMidChar, xs.dropWhile isSlotNameMidChar)
    else none

/-- tail of `TakeSlot`: the optional slot operator -/
def slotFin (slot sub : Bytes) (c : Cur) : Bytes × Bytes × Bytes × Cur :=
  if peek c == 42 || peek c == 61 then (slot, sub, [peek c], c.tail) else (slot, sub, [], c)

/-- `ac.TakeSlot()` → (slot, subslot, slotop, cursor).  The Go loop runs at most three
    times (the third component is scanned and dropped), so it is unrolled. -/
def takeSlot (c : Cur) : Bytes × Bytes × Bytes × Cur :=
  if peek c != 58 || peek1 c == 58 then ([], [], [], c) else
  let c1 := take c
  match slotComp c1 with
  | none => slotFin [] [] c1
  | some (slot, c2) =>
    if peek c2 != 47 then slotFin slot [] c2 else
    let c3 := take c2
    match slotComp c3 with
    | none => slotFin slot [] c3
    | some (sub, c4) =>
      if peek c4 != 47 then slotFin slot sub c4 else
      let c5 := take c4
      match slotComp c5 with
      | none => slotFin slot sub c5
      | some (_, c6) => slotFin slot sub c6

/-- `ac.TakeRepo()` -/
def takeRepo (c : Cur) : Bytes × Cur :=
  if peek c != 58 || peek1 c != 58 then ([], c) else
  let c1 := c.drop 2
  let ch := peek c1
  if !isRepoNameChar ch || ch == 45 then ([], c1) else
  (c1.takeWhile isRepoNameChar, c1.dropWhile isRepoNameChar)

/-- `ac.TakeUseDependencyString()`; `nil` and the empty slice are both `[]` (the caller
    only tests `len(...) > 0`) -/
def takeUseDepString (c : Cur) : Bytes × Cur :=
  if peek c != 91 then ([], c) else
  let body := c.tail.takeWhile isUseDepChar
  let r := c.tail.dropWhile isUseDepChar
  if peek r != 93 || body.isEmpty then ([], c) else (body, r.tail)

/-! ### compare.go: makeComparable -/

/-- `padNumericSegment` (width 5) -/
def padNumericSegment (seg : Bytes) : Bytes := List.replicate (5 - seg.length) 48 ++ seg

def flushDigits (acc : Bytes) : Bytes := if acc.isEmpty then [] else padNumericSegment acc

/-- `makeComparable`: every maximal digit run is left-padded with zeros to width 5 -/
def makeComparableGo : Bytes → Bytes → Bytes
  | [], acc => flushDigits acc
  | c :: cs, acc =>
    if isDigit c then makeComparableGo cs (acc ++ [c])
    else flushDigits acc ++ c :: makeComparableGo cs []

def makeComparable (v : Bytes) : Bytes := makeComparableGo v []

/-- `strings.ReplaceAll(s, old, new)` for non-empty `old` -/
def replaceAllGo (old new : Bytes) : Nat → Bytes → Bytes
  | _, [] => []
  | skip + 1, _ :: cs => replaceAllGo old new skip cs
  | 0, c :: cs =>
    if hasPrefix (c :: cs) old then new ++ replaceAllGo old new (old.length - 1) cs
    else c :: replaceAllGo old new 0 cs

def replaceAll (s old new : Bytes) : Bytes := replaceAllGo old new 0 s

/-! ### the two regular expressions as hand-written matchers -/

/-- continues `\d+(?:\.\d+)*` after at least one digit has been seen -/
def verNumsTail : Bytes → Bytes × Bytes
  | [] => ([], [])
  | c :: cs =>
    if isDigit c then
      let r := verNumsTail cs
      (c :: r.1, r.2)
    else if c == 46 then
      match cs with
      | d :: ds =>
        if isDigit d then
          let r := verNumsTail ds
          (c :: d :: r.1, r.2)
        else ([], c :: cs)
      | [] => ([], c :: cs)
    else ([], c :: cs)

structure VerMatch where
  baseVer : Bytes
  suffix : Bytes
  revision : Bytes
  wildcard : Bool
  deriving Repr, DecidableEq

/-- `(\d+(?:\.\d+)*[a-z]?)(_\w+)?(?:-(r\d+))?(\*?)$` anchored at the start of `s`.
    Every choice point of the expression is forced by the next byte, so the leftmost-first
    (backtracking) semantics of Go's regexp coincides with this deterministic scan. -/
def matchVersion (s : Bytes) : Option VerMatch :=
  match s with
  | [] => none
  | d :: ds =>
    if !isDigit d then none else
    let r := verNumsTail ds
    let nums := d :: r.1
    let rest := r.2
    -- [a-z]?
    let (base, rest) := if isLower (peek rest) then (nums ++ [peek rest], rest.tail) else (nums, rest)
    -- (_\w+)?
    let sufOk : Option (Bytes × Bytes) :=
      if peek rest == 95 then
        let w := rest.tail.takeWhile isWord
        if w.isEmpty then none else some (95 :: w, rest.tail.dropWhile isWord)
      else some ([], rest)
    match sufOk with
    | none => none
    | some (suffix, rest) =>
      -- (?:-(r\d+))?
      let revOk : Option (Bytes × Bytes) :=
        if peek rest == 45 then
          if peek1 rest == 114 then
            let ds := (rest.drop 2).takeWhile isDigit
            if ds.isEmpty then none else some (114 :: ds, (rest.drop 2).dropWhile isDigit)
          else none
        else some ([], rest)
      match revOk with
      | none => none
      | some (revision, rest) =>
        -- (\*?)$
        if rest.isEmpty then some ⟨base, suffix, revision, false⟩
        else if rest == [42] then some ⟨base, suffix, revision, true⟩
        else none

/-- `pkgVerRE.FindSubmatch`: `^(.*?)-(version)$` — the leftmost `-` whose remainder is a
    complete version.  Returns the text before that hyphen and the version groups. -/
def findVersion : Bytes → Option (Bytes × VerMatch)
  | [] => none
  | c :: cs =>
    if c == 45 then
      match matchVersion cs with
      | some v => some ([], v)
      | none => (findVersion cs).map fun r => (c :: r.1, r.2)
    else (findVersion cs).map fun r => (c :: r.1, r.2)

/-- `\w[\w+-]*` -/
def matchName (s : Bytes) : Bool :=
  match s with
  | [] => false
  | c :: cs => isWord c && cs.all fun x => isWord x || x == 43 || x == 45

/-- `\w[\w+.-]*` -/
def matchCategory (s : Bytes) : Bool :=
  match s with
  | [] => false
  | c :: cs => isWord c && cs.all fun x => isWord x || x == 43 || x == 46 || x == 45

/-- `pkgCatNameRE.FindSubmatch`: `^(?:(\w[\w+.-]*)/)?(\w[\w+-]*)$` → (category, name) -/
def matchCatName (s : Bytes) : Option (Bytes × Bytes) :=
  match splitOn 47 s with
  | [n] => if matchName n then some ([], n) else none
  | [c, n] => if matchCategory c && matchName n then some (c, n) else none
  | _ => none

/-! ### parseUseDependencies -/

structure UseDep where
  type : Nat      -- Use_dep_enabled .. Use_dep_disabled (0..5)
  dflt : Nat      -- Use_default_none / enabled / disabled
  flag : Bytes
  deriving Repr, DecidableEq

/-- `prefixSuffixMap[prefix][suffix]` -/
def prefixSuffix (pre suf : Nat) : Option Nat :=
  if pre == 0 then (if suf == 0 then some 0 else if suf == 61 then some 1 else if suf == 63 then some 3 else none)
  else if pre == 33 then (if suf == 61 then some 2 else if suf == 63 then some 4 else none)
  else if pre == 45 then (if suf == 0 then some 5 else none)
  else none

/-- `takeUseDefault(cur, c)`: "(+)" / "(-)" at the cursor → (default, cursor) -/
def takeUseDefault (cur : Cur) : Res (Nat × Cur) :=
  if peek cur != 40 || peek2 cur != 41 then .ok (0, cur)
  else
    let d := peek1 cur
    if d == 43 then .ok (1, cur.drop 3)
    else if d == 45 then .ok (2, cur.drop 3)
    else Res.err "use-default"

/-- second look for the default, after the suffix, only when none was found before -/
def takeUseDefault2 (d1 : Nat) (cur : Cur) : Res (Nat × Cur) :=
  if d1 == 0 then takeUseDefault cur else .ok (d1, cur)

/-- one iteration of the loop of `parseUseDependencies` up to the map lookup:
    `[!-]flag[(+)|(-)][=?][(+)|(-)]` → (dependency, cursor) -/
def parseUseDepItem (cur : Cur) : Res (UseDep × Cur) :=
  let c := peek cur
  let pre := if c == 33 || c == 45 then c else 0
  let cur := if c == 33 || c == 45 then take cur else cur
  if !isUseFlagChar (peek cur) then Res.err "use-missing-flag" else
  let flag := cur.takeWhile isUseFlagChar
  let cur := cur.dropWhile isUseFlagChar
  match takeUseDefault cur with
  | .error e => .error e
  | .ok (dflt1, cur) =>
    let c := peek cur
    let suf := if c == 61 || c == 63 then c else 0
    let cur := if c == 61 || c == 63 then take cur else cur
    match takeUseDefault2 dflt1 cur with
    | .error e => .error e
    | .ok (dflt, cur) =>
      match prefixSuffix pre suf with
      | none => Res.err "use-combination"
      | some tp => .ok (⟨tp, dflt, flag⟩, cur)

/-- the loop of `parseUseDependencies`; one iteration per fuel unit -/
def parseUseDepsLoop : Nat → Cur → Res (List UseDep)
  | 0, _ => fuelOut
  | n + 1, cur =>
    match parseUseDepItem cur with
    | .error e => .error e
    | .ok (dep, cur) =>
      if peek cur == 0 then .ok [dep]
      else if peek cur != 44 then Res.err "use-syntax"
      else match parseUseDepsLoop n cur.tail with
        | .ok rest => .ok (dep :: rest)
        | .error e => .error e

def parseUseDependencies (input : Bytes) : Res (List UseDep) :=
  parseUseDepsLoop (input.length + 1) input

/-! ### RawParseAtomAtCursor -/

structure ParsedAtom where
  atom : Bytes := []
  category : Bytes := []
  name : Bytes := []
  baseVer : Bytes := []
  suffix : Bytes := []
  revision : Bytes := []
  compVer : Bytes := []
  slot : Bytes := []
  subslot : Bytes := []
  repo : Bytes := []
  verRelop : Nat := 0
  slotRelop : Nat := 0
  anySlot : Bool := false
  sameSlot : Bool := false
  blocker : Bool := false
  hardBlock : Bool := false
  useDeps : List UseDep := []
  deriving Repr, DecidableEq

-- Relop_none .. Relop_range
def relopNone := 0
def relopLt := 1
def relopLe := 2
def relopEq := 3
def relopGe := 4
def relopGt := 5
def relopRange := 6

/-- prefix part: blockers → (blocker, hardBlock, cursor) -/
def takeBlockers (ac : Cur) : Bool × Bool × Cur :=
  if peek ac == 33 then
    let ac1 := take ac
    if peek ac1 == 33 then (true, true, take ac1) else (true, false, ac1)
  else (false, false, ac)

/-- prefix part: version operator → (relop, cursor) -/
def takeRelop (ac : Cur) : Nat × Cur :=
  let c := peek ac
  if c == 126 then (relopRange, take ac)
  else if c == 61 || c == 60 || c == 62 then
    let c1 := c
    let ac1 := take ac
    let c := peek ac1
    if c1 == 61 then (relopEq, ac1)
    else if c == 61 then (if c1 == 60 then relopLe else relopGe, take ac1)
    else if c1 == 60 then (relopLt, ac1)
    else (relopGt, ac1)
  else (relopNone, ac)

/-- version fields of the result: BaseVer, Suffix, Revision, CompVer, VerRelop.
    `basever[len(basever)-1]` is an index expression: empty → panic (unreachable, the
    regular expression guarantees a digit). -/
def versionFields (da : ParsedAtom) (relop : Nat) (v : VerMatch) : Res ParsedAtom :=
  let basever := makeComparable v.baseVer
  match basever.getLast? with
  | none => Res.panic
  | some c =>
    let basever := if !isDigit c then basever.dropLast ++ [32, c] else basever
    let compVer := basever
    let extend := true
    let suffix :=
      if v.suffix.length > 0 then
        makeComparable (replaceAll (replaceAll (replaceAll (replaceAll v.suffix
          b!"_alpha" b!"_a") b!"_beta" b!"_b") b!"_pre" b!"_c") b!"_rc" b!"_d")
      else b!"_n"
    let extend := if v.suffix.length > 0 then extend else extend && relop != relopRange
    let compVer := if extend then compVer ++ 32 :: suffix else compVer
    let revision := if v.revision.length > 0 then makeComparable v.revision else b!"r00000"
    let extend := if v.revision.length > 0 then extend else extend && relop != relopRange
    let compVer := if extend then compVer ++ 32 :: revision else compVer
    let relop := if relop == relopNone then relopEq else relop
    .ok { da with baseVer := basever, suffix := suffix, revision := revision, compVer := compVer,
                  verRelop := relop }

/-- slot fields of the result -/
def slotFields (da : ParsedAtom) (slot subslot slotop : Bytes) : ParsedAtom :=
  let da := if slot.length > 0 then { da with slotRelop := relopEq } else da
  let da :=
    if slotop == [42] then
      (if slot.length > 0 then { da with slotRelop := relopRange } else { da with anySlot := true })
    else if slotop == [61] then
      { (if slot.length == 0 then { da with anySlot := true } else da) with sameSlot := true }
    else da
  if !da.anySlot then
    let slot := if slot.length == 0 then [48] else slot
    let s := makeComparable slot
    { da with slot := s, subslot := if subslot.length > 0 then makeComparable subslot else s }
  else da

/-- what the scanning half of `RawParseAtomAtCursor` collects -/
structure AtomScan where
  blocker : Bool
  hardBlock : Bool
  relop : Nat
  run : Bytes          -- ac.Slice[nameStart:endpos], the name/version characters
  slot : Bytes
  subslot : Bytes
  slotop : Bytes
  repo : Bytes
  useDeps : List UseDep

/-- the trailing part: USE dependencies (dependency atoms) or the end-of-input test -/
def atomTrailer (ac : Cur) (asDependencyAtom : Bool) : Res (List UseDep × Cur) :=
  if asDependencyAtom then
    if (takeUseDepString ac).1.length > 0 then
      match parseUseDependencies (takeUseDepString ac).1 with
      | .ok deps => .ok (deps, (takeUseDepString ac).2)
      | .error e => .error e
    else .ok ([], (takeUseDepString ac).2)
  else if !ac.isEmpty then Res.err "extraneous"
  else .ok ([], ac)

/-- first half of `RawParseAtomAtCursor`: everything that moves the cursor -/
def atomScan (ac0 : Cur) (asDependencyAtom : Bool) : Res (AtomScan × Cur) :=
  let acB := (takeBlockers ac0).2.2
  let acR := (takeRelop acB).2
  let run := acR.takeWhile isNameVerChar           -- ac.Slice[nameStart:endpos]
  let acN := acR.dropWhile isNameVerChar
  let sl := takeSlot acN
  let rp := takeRepo sl.2.2.2
  match atomTrailer rp.2 asDependencyAtom with
  | .error e => .error e
  | .ok (useDeps, ac) =>
    .ok (⟨(takeBlockers ac0).1, (takeBlockers ac0).2.1, (takeRelop acB).1, run, sl.1, sl.2.1, sl.2.2.1,
          rp.1, useDeps⟩, ac)

/-- name/version boundary and the operator checks → (category/name text, relop, version) -/
def atomSplit (sc : AtomScan) (versionNeedsRelop : Bool) : Res (Bytes × Nat × Option VerMatch) :=
  match findVersion sc.run with
  | some (namePart, v) =>
    if sc.relop == relopNone && versionNeedsRelop then Res.err "version-needs-relop"
    else .ok (namePart, (if v.wildcard then relopRange else sc.relop), some v)
  | none => if sc.relop != relopNone then Res.err "no-version" else .ok (sc.run, sc.relop, none)

/-- second half of `RawParseAtomAtCursor`: the two regular expressions and the fields -/
def atomBuild (sc : AtomScan) (atomText : Bytes) (versionNeedsRelop : Bool) : Res ParsedAtom :=
  match atomSplit sc versionNeedsRelop with
  | .error e => .error e
  | .ok (namePart, relop, vm) =>
    match matchCatName namePart with
    | none => Res.err "cat-name"
    | some (cat, name) =>
      let da : ParsedAtom := { blocker := sc.blocker, hardBlock := sc.hardBlock, repo := sc.repo,
                               useDeps := sc.useDeps, category := cat, name := name, atom := atomText }
      match vm with
      | some v =>
        (match versionFields da relop v with
         | .error e => .error e
         | .ok da => .ok (slotFields da sc.slot sc.subslot sc.slotop))
      | none => .ok (slotFields da sc.slot sc.subslot sc.slotop)

/-- `RawParseAtomAtCursor(ac, versionNeedsRelop, asDependencyAtom)` → parsed atom and the
    cursor after it -/
def rawParseAtomAtCursor (ac0 : Cur) (versionNeedsRelop asDependencyAtom : Bool) :
    Res (ParsedAtom × Cur) :=
  match atomScan ac0 asDependencyAtom with
  | .error e => .error e
  | .ok (sc, ac) =>
    -- ac.Slice[start:atomEndpos]
    match atomBuild sc (ac0.take (ac0.length - ac.length)) versionNeedsRelop with
    | .error e => .error e
    | .ok pa => .ok (pa, ac)

/-- `RawParseAtom(atom, versionNeedsRelop, asDependencyAtom)` -/
def rawParseAtom (s : Bytes) (versionNeedsRelop asDependencyAtom : Bool) : Res ParsedAtom :=
  match rawParseAtomAtCursor s versionNeedsRelop asDependencyAtom with
  | .ok (pa, _) => .ok pa
  | .error e => .error e

end Lc.AtomParse
