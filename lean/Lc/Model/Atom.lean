/-
  Model of the atom-matching code as it is:
    portage/parse/atomCursor.go  (TakeNameVerChars, TakeSlot, TakeRepo, TakeUseDependencyString)
    portage/atom/parse.go        (RawParseAtomAtCursor, parseUseDependencies, both regular
                                  expressions as hand-written matchers)
    portage/atom/use.go          (NewUseFlagSetFromIUSE, SetFlagsFromUSE, flagStateByIndex)
    portage/atom/useDependencies.go (FlagsMatch)
    portage/atom/baseAtom.go     (SetSlotAndSubslot)
    portage/depend/atom.go       (makeDA, makeVersionComparer, VersionAndSlotMatch, FilterAtoms)
  The cursor is modelled by the not-yet-consumed rest of the input; `Peek` beyond the end
  is 0 exactly as in Go.  Core Lean only.
-/
import Lc.Model.Version

namespace Lc.Atom
open Lc Lc.Version

/-! ### character classes (fns.MakeCharTypeMap tables of portage/parse) -/

def isLower (c : Nat) : Bool := decide (97 ≤ c) && decide (c ≤ 122)
def isUpper (c : Nat) : Bool := decide (65 ≤ c) && decide (c ≤ 90)
def isAlnum (c : Nat) : Bool := isLower c || isUpper c || isDigit c
/-- regexp `\w` -/
def isWord (c : Nat) : Bool := isAlnum c || c == 95
/-- "a-zA-Z0-9/_+*.-" -/
def isNameVerChar (c : Nat) : Bool :=
  isAlnum c || c == 47 || c == 95 || c == 43 || c == 42 || c == 46 || c == 45
/-- "a-zA-Z0-9_" -/
def isSlotStart (c : Nat) : Bool := isAlnum c || c == 95
/-- "a-zA-Z0-9+_.-" -/
def isSlotMid (c : Nat) : Bool := isAlnum c || c == 43 || c == 95 || c == 46 || c == 45
/-- "a-zA-Z0-9_-" -/
def isRepoChar (c : Nat) : Bool := isAlnum c || c == 95 || c == 45
/-- "a-zA-Z0-9+_@!?=(),-" -/
def isUseDepChar (c : Nat) : Bool :=
  isAlnum c || c == 43 || c == 95 || c == 64 || c == 33 || c == 63 || c == 61 || c == 40
    || c == 41 || c == 44 || c == 45
/-- "a-zA-Z0-9+_@-" -/
def isUseFlagChar (c : Nat) : Bool := isAlnum c || c == 43 || c == 95 || c == 64 || c == 45

/-- `Peek`: the byte under the cursor, 0 beyond the end -/
def hd (s : Bytes) : Nat := s.head?.getD 0
/-- `Peek2` -/
def hd2 (s : Bytes) : Nat := (s.drop 2).head?.getD 0

/-! ### Relop / USE-dependency constants of parse.go -/

def relopNone : Nat := 0
def relopLt : Nat := 1
def relopLe : Nat := 2
def relopEq : Nat := 3
def relopGe : Nat := 4
def relopGt : Nat := 5
def relopRange : Nat := 6

def useDepEnabled : Nat := 0
def useDepSame : Nat := 1
def useDepOpposite : Nat := 2
def useDepSetOnlyIf : Nat := 3
def useDepUnsetOnlyIf : Nat := 4
def useDepDisabled : Nat := 5

def useDefaultNone : Nat := 0
def useDefaultEnabled : Nat := 1
def useDefaultDisabled : Nat := 2

structure UseDep where
  type : Nat
  dflt : Nat
  flag : Bytes
  deriving Repr, DecidableEq

structure ParsedAtom where
  category : Bytes := []
  name : Bytes := []
  compVer : Bytes := []
  slot : Bytes := []
  subslot : Bytes := []
  repo : Bytes := []
  verRelop : Nat := 0
  slotRelop : Nat := 0
  anySlot : Bool := false
  sameSlot : Bool := false
  blocker : Bool := false
  hardBlock : Bool := false
  useDeps : List UseDep := []
  /-- not a Go field: what the cursor left unconsumed -/
  rest : Bytes := []
  deriving Repr

/-! ### cursor methods -/

def takeSlotTok (r : Bytes) : Option (Bytes × Bytes) :=
  match r with
  | c :: cs =>
    if isSlotStart c then
      let p := cs.span isSlotMid
      some (c :: p.1, p.2)
    else none
  | [] => none

/-- the `*`/`=` check at the end of TakeSlot -/
def slotFin (slot sub r : Bytes) : Bytes × Bytes × Bytes × Bytes :=
  if hd r == 42 || hd r == 61 then (slot, sub, [hd r], r.drop 1) else (slot, sub, [], r)

/-- `TakeSlot`: slot, subslot, slotop, rest -/
def takeSlot (r0 : Bytes) : Bytes × Bytes × Bytes × Bytes :=
  match r0 with
  | 58 :: r1 =>
    if hd r1 == 58 then ([], [], [], r0) else
    match takeSlotTok r1 with
    | none => slotFin [] [] r1
    | some (t1, r2) =>
      if hd r2 != 47 then slotFin t1 [] r2 else
      let r3 := r2.drop 1
      match takeSlotTok r3 with
      | none => slotFin t1 [] r3
      | some (t2, r4) =>
        if hd r4 != 47 then slotFin t1 t2 r4 else
        let r5 := r4.drop 1
        match takeSlotTok r5 with
        | none => slotFin t1 t2 r5
        | some (_, r6) => slotFin t1 t2 r6
  | _ => ([], [], [], r0)

/-- `TakeRepo` -/
def takeRepo (r : Bytes) : Bytes × Bytes :=
  match r with
  | 58 :: 58 :: r2 =>
    let c := hd r2
    if !isRepoChar c || c == 45 then ([], r2) else r2.span isRepoChar
  | _ => ([], r)

/-- `TakeUseDependencyString` -/
def takeUseDepString (r : Bytes) : Option Bytes × Bytes :=
  match r with
  | 91 :: r1 =>
    let p := r1.span isUseDepChar
    if hd p.2 != 93 || p.1.isEmpty then (none, r) else (some p.1, p.2.drop 1)
  | _ => (none, r)

/-! ### parseUseDependencies (after the fix that accepts `flag(+)=`) -/

/-- `prefixSuffixMap[prefix][suffix]` -/
def prefixSuffixType (pre suf : Nat) : Option Nat :=
  if pre == 0 then
    if suf == 0 then some useDepEnabled
    else if suf == 61 then some useDepSame
    else if suf == 63 then some useDepSetOnlyIf
    else none
  else if pre == 33 then
    if suf == 61 then some useDepOpposite
    else if suf == 63 then some useDepUnsetOnlyIf
    else none
  else if pre == 45 then
    if suf == 0 then some useDepDisabled else none
  else none

/-- `takeUseDefault` at a cursor standing on `(` with `Peek2 = )`: default and rest, or error -/
def takeUseDefault (r : Bytes) : Option (Nat × Bytes) :=
  let c := hd (r.drop 1)
  if c == 43 then some (useDefaultEnabled, r.drop 3)
  else if c == 45 then some (useDefaultDisabled, r.drop 3)
  else none

/-- one loop iteration: the dependency, the character after it, and the rest standing on
    that character -/
def parseOneUseDep (r0 : Bytes) : Option (UseDep × Bytes) :=
  let c0 := hd r0
  let pre := if c0 == 33 || c0 == 45 then c0 else 0
  let r1 := if pre != 0 then r0.drop 1 else r0
  if !isUseFlagChar (hd r1) then none else
  let p := r1.span isUseFlagChar
  let flag := p.1
  let r2 := p.2
  -- default directly after the flag name
  let d1 : Option (Nat × Bytes) :=
    if hd r2 == 40 && hd2 r2 == 41 then takeUseDefault r2 else some (useDefaultNone, r2)
  match d1 with
  | none => none
  | some (dflt1, r3) =>
    let suf := if hd r3 == 61 || hd r3 == 63 then hd r3 else 0
    let r4 := if suf != 0 then r3.drop 1 else r3
    let d2 : Option (Nat × Bytes) :=
      if dflt1 == useDefaultNone && hd r4 == 40 && hd2 r4 == 41 then takeUseDefault r4
      else some (dflt1, r4)
    match d2 with
    | none => none
    | some (dflt, r5) =>
      match prefixSuffixType pre suf with
      | none => none
      | some tp => some ({ type := tp, dflt := dflt, flag := flag }, r5)

def parseUseDepsFuel : Nat → Bytes → Option (List UseDep)
  | 0, _ => none
  | n + 1, r =>
    match parseOneUseDep r with
    | none => none
    | some (d, r') =>
      let c := hd r'
      if c == 0 then some [d]
      else if c != 44 then none
      else (parseUseDepsFuel n (r'.drop 1)).map (d :: ·)

/-- `parseUseDependencies`; `none` = error return.  Every iteration consumes at least one
    byte, so `length + 1` iterations are enough. -/
def parseUseDependencies (input : Bytes) : Option (List UseDep) :=
  parseUseDepsFuel (input.length + 1) input

/-! ### the two regular expressions -/

/-- `(?:\.\d+)*` greedily, called right after a digit run has started (also consumes the
    remaining digits of that run): matched text, rest -/
def scanNums : Nat → Bytes → Bytes × Bytes
  | 0, s => ([], s)
  | n + 1, s =>
    match s with
    | [] => ([], [])
    | c :: rest =>
      if isDigit c then
        let p := scanNums n rest
        (c :: p.1, p.2)
      else if c == 46 && isDigit (hd rest) then
        let p := scanNums n rest
        (c :: p.1, p.2)
      else ([], c :: rest)

structure VerGroups where
  basever : Bytes
  suffix : Bytes
  revision : Bytes
  wildcard : Bool
  deriving Repr, DecidableEq

/-- `[a-z]?`: matched text, rest -/
def takeLetter (r : Bytes) : Bytes × Bytes :=
  if isLower (hd r) then ([hd r], r.drop 1) else ([], r)

/-- `(_\w+)?`: matched text, rest -/
def takeSuffix (r : Bytes) : Bytes × Bytes :=
  if hd r == 95 && isWord (hd (r.drop 1)) then
    let sp := (r.drop 1).span isWord
    (95 :: sp.1, sp.2)
  else ([], r)

/-- `(?:-(r\d+))?`: group 4, rest -/
def takeRevision (r : Bytes) : Bytes × Bytes :=
  if hd r == 45 && hd (r.drop 1) == 114 && isDigit (hd (r.drop 2)) then
    let rp := (r.drop 2).span isDigit
    (114 :: rp.1, rp.2)
  else ([], r)

/-- `(\*?)`: matched?, rest -/
def takeStar (r : Bytes) : Bool × Bytes :=
  match r with
  | 42 :: r' => (true, r')
  | _ => (false, r)

/-- `(\d+(?:\.\d+)*[a-z]?)(_\w+)?(?:-(r\d+))?(\*?)$` against the whole of `s`
    (no backtracking can succeed where this deterministic scan fails: every optional
    piece is followed by a character class disjoint from what it consumes) -/
def matchVerTail (s : Bytes) : Option VerGroups :=
  if !isDigit (hd s) then none else
  let p := scanNums (s.length + 1) s
  let l := takeLetter p.2
  let sf := takeSuffix l.2
  let rv := takeRevision sf.2
  let st := takeStar rv.2
  if st.2.isEmpty then some ⟨p.1 ++ l.1, sf.1, rv.1, st.1⟩ else none

/-- `pkgVerRE`: the leftmost `-` whose remainder matches; returns group 1 and the groups -/
def pkgVerMatch : Bytes → Bytes → Option (Bytes × VerGroups)
  | _, [] => none
  | pre, c :: rest =>
    if c == 45 then
      match matchVerTail rest with
      | some g => some (pre, g)
      | none => pkgVerMatch (pre ++ [c]) rest
    else pkgVerMatch (pre ++ [c]) rest

def isCatTail (c : Nat) : Bool := isWord c || c == 43 || c == 46 || c == 45
def isNameTail (c : Nat) : Bool := isWord c || c == 43 || c == 45

/-- `\w[\w+-]*` against the whole string -/
def matchName (s : Bytes) : Bool :=
  match s with
  | c :: cs => isWord c && cs.all isNameTail
  | [] => false

/-- `pkgCatNameRE = ^(?:(\w[\w+.-]*)/)?(\w[\w+-]*)$`: category, name -/
def pkgCatNameMatch (s : Bytes) : Option (Bytes × Bytes) :=
  let p := s.span (· != 47)
  match p.2 with
  | [] => if matchName s then some ([], s) else none
  | _ :: nm =>
    match p.1 with
    | c :: cs => if isWord c && cs.all isCatTail && matchName nm then some (p.1, nm) else none
    | [] => none

/-! ### version normalisation inside RawParseAtomAtCursor -/

/-- `strings.ReplaceAll(s, pat, rep)` for a non-empty `pat` (`skip` = bytes of a match
    still to be skipped) -/
def replaceAllGo (pat rep : Bytes) : Nat → Bytes → Bytes
  | _, [] => []
  | skip + 1, _ :: cs => replaceAllGo pat rep skip cs
  | 0, c :: cs =>
    if hasPrefix (c :: cs) pat then rep ++ replaceAllGo pat rep (pat.length - 1) cs
    else c :: replaceAllGo pat rep 0 cs

def replaceAll (pat rep s : Bytes) : Bytes := replaceAllGo pat rep 0 s

/-- the four successive ReplaceAll calls -/
def mapSuffixNames (suffix : Bytes) : Bytes :=
  replaceAll b!"_rc" b!"_d" (replaceAll b!"_pre" b!"_c"
    (replaceAll b!"_beta" b!"_b" (replaceAll b!"_alpha" b!"_a" suffix)))

/-- comparable base version: `makeComparable` plus the blank before a trailing non-digit -/
def normBase (basever : Bytes) : Bytes :=
  let b := makeComparable basever
  match b.reverse with
  | c :: ini => if !isDigit c then ini.reverse ++ [32, c] else b
  | [] => b

def normSuffix (suffix : Bytes) : Bytes :=
  if suffix.isEmpty then b!"_n" else makeComparable (mapSuffixNames suffix)

def normRevision (revision : Bytes) : Bytes :=
  if revision.isEmpty then b!"r00000" else makeComparable revision

/-- `da.CompVer` from the three regexp groups (`basever` non-empty); `isRange` = the
    relop is Relop_range (`~` or `=…*`) -/
def compVerOf (basever suffix revision : Bytes) (isRange : Bool) : Bytes :=
  let b := normBase basever
  let ext1 := if suffix.isEmpty then !isRange else true
  let cv1 := if ext1 then b ++ 32 :: normSuffix suffix else b
  let ext2 := if revision.isEmpty then ext1 && !isRange else ext1
  if ext2 then cv1 ++ 32 :: normRevision revision else cv1

/-- `RawParseAtomAtCursor`; `none` = error return -/
def rawParseAtom (s : Bytes) (versionNeedsRelop asDependencyAtom : Bool) : Option ParsedAtom :=
  -- blocker prefix
  let blocker := hd s == 33
  let s1 := if blocker then s.drop 1 else s
  let hardBlock := blocker && hd s1 == 33
  let s2 := if hardBlock then s1.drop 1 else s1
  -- version operator
  let c := hd s2
  let c' := hd (s2.drop 1)
  let opr : Nat × Bytes :=
    if c == 126 then (relopRange, s2.drop 1)
    else if c == 61 then (relopEq, s2.drop 1)
    else if c == 60 then (if c' == 61 then (relopLe, s2.drop 2) else (relopLt, s2.drop 1))
    else if c == 62 then (if c' == 61 then (relopGe, s2.drop 2) else (relopGt, s2.drop 1))
    else (relopNone, s2)
  let relop0 := opr.1
  let nvp := opr.2.span isNameVerChar
  let nv := nvp.1
  let sl := takeSlot nvp.2
  let slot := sl.1
  let subslot := sl.2.1
  let slotop := sl.2.2.1
  let rp := takeRepo sl.2.2.2
  let repo := rp.1
  -- USE dependencies / trailing garbage
  let useRes : Option (List UseDep × Bytes) :=
    if asDependencyAtom then
      match takeUseDepString rp.2 with
      | (some inner, r) =>
        match parseUseDependencies inner with
        | some deps => some (deps, r)
        | none => none
      | (none, r) => some ([], r)
    else if !rp.2.isEmpty then none
    else some ([], rp.2)
  match useRes with
  | none => none
  | some (useDeps, rest) =>
    let vm := pkgVerMatch [] nv
    let chk : Option (Nat × Bytes) :=   -- relop after the wildcard rule, text for pkgCatNameRE
      match vm with
      | some (pre, g) =>
        if relop0 == relopNone && versionNeedsRelop then none
        else some (if g.wildcard then relopRange else relop0, pre)
      | none => if relop0 != relopNone then none else some (relop0, nv)
    match chk with
    | none => none
    | some (relop1, catname) =>
      match pkgCatNameMatch catname with
      | none => none
      | some (category, name) =>
        let groups : VerGroups := match vm with
          | some (_, g) => g
          | none => ⟨[], [], [], false⟩
        let haveVer := !groups.basever.isEmpty
        let compVer := if haveVer then
            compVerOf groups.basever groups.suffix groups.revision (relop1 == relopRange)
          else []
        let verRelop := if haveVer then (if relop1 == relopNone then relopEq else relop1) else 0
        let slotRelop0 := if !slot.isEmpty then relopEq else 0
        let isStar := slotop == [42]
        let isEq := slotop == [61]
        let slotRelop := if isStar && !slot.isEmpty then relopRange else slotRelop0
        let anySlot := (isStar && slot.isEmpty) || (isEq && slot.isEmpty)
        let sameSlot := isEq
        let slot' := if slot.isEmpty then b!"0" else slot
        let cslot := if anySlot then [] else makeComparable slot'
        let csub := if anySlot then [] else
          (if !subslot.isEmpty then makeComparable subslot else cslot)
        some { category := category, name := name, compVer := compVer, slot := cslot,
               subslot := csub, repo := repo, verRelop := verRelop, slotRelop := slotRelop,
               anySlot := anySlot, sameSlot := sameSlot, blocker := blocker,
               hardBlock := hardBlock, useDeps := useDeps, rest := rest }

/-- `BaseAtom.PackageName` -/
def packageName (pa : ParsedAtom) : Bytes := pa.category ++ 47 :: pa.name

/-! ### depend/atom.go -/

inductive Cmp where
  | ok (b : Bool)
  | hang
  deriving Repr, DecidableEq

/-- the closure built by `makeVersionComparer relop comparison`, applied to `tstval`.
    `none` = MakeNextVer did not return (cannot happen, `makeNextVer_terminates`). -/
def versionComparer (relop : Nat) (comparison tstval : Bytes) : Option Bool :=
  if relop == relopLt then some (bytesLt tstval comparison)
  else if relop == relopLe then some (bytesLe tstval comparison)
  else if relop == relopEq then some (tstval == comparison)
  else if relop == relopGe then some (bytesLe comparison tstval)
  else if relop == relopGt then some (bytesLt comparison tstval)
  else if relop == relopRange then
    match makeNextVer comparison with
    | some asymptote => some (bytesLe comparison tstval && bytesLt tstval asymptote)
    | none => none
  else some true

/-- `slotComparer` of makeDA applied to a candidate's slot -/
def slotComparer (da : ParsedAtom) (tstSlot : Bytes) : Option Bool :=
  if da.anySlot then versionComparer relopNone [] tstSlot
  else versionComparer da.slotRelop da.slot tstSlot

/-- `VersionAndSlotMatch` (both comparers are built in makeDA, so a non-returning
    MakeNextVer shows even when the other comparer would say no) -/
def versionAndSlotMatch (da : ParsedAtom) (tstCompVer tstSlot : Bytes) : Option Bool :=
  match versionComparer da.verRelop da.compVer tstCompVer, slotComparer da tstSlot with
  | some v, some s => some (s && v)
  | _, _ => none

/-! ### use.go -/

/-- ASCII `strings.Fields` / the non-empty pieces of `strings.Split(group, " ")` coincide
    on strings whose only white space is the blank; the harness sends only such strings -/
def splitSpaces (s : Bytes) : List Bytes := (splitOn 32 s).filter (fun x => !x.isEmpty)

def stripSign (name : Bytes) : Bytes :=
  match name with
  | 43 :: r => r
  | 45 :: r => r
  | _ => name

abbrev FlagSet := List (Bytes × Bool)

/-- `NewUseFlagSetFromIUSE` -/
def newUseFlagSetFromIUSE (group : Bytes) : FlagSet :=
  (splitSpaces group).foldl (fun acc nm =>
    let n := stripSign nm
    if acc.any (fun e => e.1 == n) then acc else acc ++ [(n, false)]) []

/-- `SetFlagsFromUSE` -/
def setFlagsFromUSE (f : FlagSet) (group : Bytes) : FlagSet :=
  (splitSpaces group).foldl (fun acc nm =>
    let n := stripSign nm
    acc.map (fun e => if e.1 == n then (e.1, true) else e)) f

/-- `flagStateByIndex`: state, found -/
def flagState (f : FlagSet) (flag : Bytes) : Option Bool :=
  (f.find? (fun e => e.1 == flag)).map (·.2)

/-- `contextFlags[name]` of a Go map built by inserting the pairs in order -/
def ctxLookup (ctx : List (Bytes × Bool)) (flag : Bytes) : Bool :=
  match ctx.reverse.find? (fun e => e.1 == flag) with
  | some e => e.2
  | none => false

inductive FM where
  | yes | no | err
  deriving Repr, DecidableEq

/-- one iteration of the loop in `FlagsMatch`: `none` = continue with the next dependency -/
def flagsMatchOne (tstFlags : FlagSet) (ctx : List (Bytes × Bool)) (dep : UseDep) : Option FM :=
  let st : Option Bool := match flagState tstFlags dep.flag with
    | some s => some s
    | none =>
      if dep.dflt == useDefaultEnabled then some true
      else if dep.dflt == useDefaultDisabled then some false
      else none
  match st with
  | none => some .err
  | some state =>
    let parent := ctxLookup ctx dep.flag
    if dep.type == useDepEnabled then (if !state then some .no else none)
    else if dep.type == useDepSame then (if state != parent then some .no else none)
    else if dep.type == useDepOpposite then (if state == parent then some .no else none)
    else if dep.type == useDepSetOnlyIf then (if parent && !state then some .no else none)
    else if dep.type == useDepUnsetOnlyIf then (if parent && state then some .no else none)
    else (if state then some .no else none)

/-- `UseDependencies.FlagsMatch` -/
def flagsMatch (deps : List UseDep) (tstFlags : FlagSet) (ctx : List (Bytes × Bool)) : FM :=
  match deps with
  | [] => .yes
  | d :: ds =>
    match flagsMatchOne tstFlags ctx d with
    | some r => r
    | none => flagsMatch ds tstFlags ctx

/-! ### an installed package as portage/vdb/get_list.go builds it -/

structure Cand where
  name : Bytes
  compVer : Bytes
  slot : Bytes
  flags : FlagSet
  deriving Repr

/-- `SetSlotAndSubslot`: the comparable slot -/
def setSlot (slot : Bytes) : Bytes := makeComparable (if slot.isEmpty then b!"0" else slot)

def mkCand (text slot iuse use : Bytes) : Option Cand :=
  match rawParseAtom text false false with
  | none => none
  | some pa =>
    some { name := packageName pa, compVer := pa.compVer, slot := setSlot slot,
           flags := setFlagsFromUSE (newUseFlagSetFromIUSE iuse) use }

/-- `FilterAtoms` on a one-element candidate list: kept? -/
def filterKeeps (da : ParsedAtom) (c : Cand) (ctx : List (Bytes × Bool)) : Option Bool :=
  match versionAndSlotMatch da c.compVer c.slot with
  | none => none
  | some false => some false
  | some true => some (flagsMatch da.useDeps c.flags ctx == .yes)

end Lc.Atom
