/-
  Model of manage/layerfile.go (ReadLayerFile, WriteLayerfile) and of
  fs/inputFileCursor.go (ReadLine via bufio.ScanLines, ReadNonBlankNonCommentLine).
-/
import Lc.Base.Bytes
import Lc.Base.Path
import Lc.Base.Utf8
import Lc.Model.Mountinfo

namespace Lc.Layerfile
open Lc

structure NeededMount where
  mount : Bytes
  source : Bytes
  fstype : Bytes
  deriving Repr, DecidableEq, BEq

structure LayerFile where
  base : Bytes := []
  mounts : List NeededMount := []
  exports : List NeededMount := []
  nmsgs : Nat := 0        -- number of logged messages (their text is not compared)
  deriving Repr, DecidableEq, BEq

/-- the acceptance test of ReadNonBlankNonCommentLine on the trimmed line -/
def isContentLine (ll : Bytes) : Bool :=
  match ll with
  | [] => false
  | 35 :: _ => false
  | 47 :: 47 :: _ => false
  | _ => true

def kwBase : Bytes := b!"base"
def kwImport : Bytes := b!"import"
def kwExport : Bytes := b!"export"

def readStep (l : LayerFile) (rawLine : Bytes) : LayerFile :=
  let line := trimSpace rawLine
  if !isContentLine line then l else
  match fields line with
  | [] => l
  | kw :: args =>
    if kw = kwBase then
      match args with
      | [] => { l with nmsgs := l.nmsgs + 1 }
      | b :: _ =>
        if l.base.length > 0 && l.base != b then { l with nmsgs := l.nmsgs + 1 }
        else { l with base := b }
    else if kw = kwImport then
      match args with
      | t :: s :: m :: _ =>
        { l with mounts := l.mounts ++ [⟨pathClean m, pathClean s, t⟩] }
      | _ => { l with nmsgs := l.nmsgs + 1 }
    else if kw = kwExport then
      match args with
      | t :: s :: m :: _ =>
        { l with exports := l.exports ++ [⟨pathClean m, pathClean s, t⟩] }
      | _ => { l with nmsgs := l.nmsgs + 1 }
    else { l with nmsgs := l.nmsgs + 1 }

def readLines (lines : List Bytes) : LayerFile := lines.foldl readStep {}

/-- ReadLayerFile on file content (scanner errors — lines over 64 KiB — not modelled) -/
def readLayerFile (content : Bytes) : LayerFile := readLines (Mountinfo.scanLines content)

/-- the lines as bufio.ScanLines cuts them, before the trailing CR is dropped -/
def rawLines (text : Bytes) : List Bytes :=
  let parts := splitOn 10 text
  match parts.reverse with
    | [] :: r => r.reverse
    | _ => parts

/-- bufio.Scanner's token limit: a line of this many bytes or more (CR included, LF not) ends
    the reading with the error "token too long" -/
def scanLimit : Nat := 65536

/-- ReadLayerFile with the scanner's limit: the lines up to the first one the scanner cannot
    hold; that one is logged as an error (one message) and nothing after it is read -/
def readLayerFileScanner (content : Bytes) : LayerFile :=
  let raw := rawLines content
  let ok := raw.takeWhile (fun l => l.length < scanLimit)
  let l := readLines (ok.map Mountinfo.dropCR)
  if ok.length < raw.length then { l with nmsgs := l.nmsgs + 1 } else l

def renderMount (kw : Bytes) (m : NeededMount) : Bytes :=
  kw ++ 32 :: m.fstype ++ 32 :: m.source ++ 32 :: m.mount ++ [10]

/-- the sequence of Printf chunks WriteLayerfile emits (one write(2) each) -/
def writeChunks (l : LayerFile) : List Bytes :=
  (if l.base.length > 0 then [kwBase ++ 32 :: l.base ++ [10, 10]] else [])
  ++ l.mounts.map (renderMount kwImport)
  ++ (if l.exports.length > 0 then [[10]] else [])
  ++ l.exports.map (renderMount kwExport)

def render (l : LayerFile) : Bytes := (writeChunks l).flatten

end Lc.Layerfile
