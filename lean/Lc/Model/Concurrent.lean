/-
  C20: two layercake processes working on one kernel mount table.  Each process is a
  sequence of actions separated by the points at which it talks to the kernel (reading
  /proc/self/mountinfo, mount(2), umount(2)); a schedule decides which process performs
  its next kernel interaction.  This is the abstract interleaving model; the harness
  runs two real command instances on the simulated kernel, blocks each inside the
  injected mountinfo reader / syscall functions and releases them in schedule order.
-/
import Lc.Base.Bytes
import Lc.Base.Sort

namespace Lc.Concurrent
open Lc

inductive Act where
  | probe                       -- read the mount table into the process's cache
  | ensure (t : Bytes)          -- mount t unless the cache says it is mounted (mountOne)
  | planUmount (pre : Bytes)    -- list the cached mounts at/below pre, deepest first (unmountLayer)
  | umount (t : Bytes)
  | failIfCached (t : Bytes)    -- refuse (errorIfBusy: overlain) when the cache shows a mount at t
  | doneIfCached (ts : List Bytes) -- chroot: nothing left to do when the cache shows all of ts mounted
  | probe0                      -- ProbeAllLayerstate: read the table; every layer's mount LIST is taken from this reading
  | allLayer (pre : Bytes) (kids : List Bytes)
      -- one layer of `umount -all`: skipped as busy when the latest reading shows an overlay of a
      -- child on it; not mounted (nothing to do) when the FIRST reading shows nothing at/below
      -- pre; otherwise those mounts are unmounted, deepest first, and the table is read again
  | failIfBusy                  -- end of `umount -all`: failure when a layer was skipped as busy
  deriving Repr, DecidableEq, BEq

structure Proc where
  cache : List Bytes := []
  pending : List Act := []
  failed : Bool := false
  snap : List Bytes := []       -- the table as first read (probe0): layer.Mounts of every layer
  busy : Bool := false          -- umount -all: some layer was skipped as busy
  deriving Repr, DecidableEq, BEq

def atOrBelow (pre p : Bytes) : Bool := p == pre || hasPrefix p (pre ++ [47])

/-- remove the last (topmost) occurrence of `t` -/
def removeLast (t : Bytes) (k : List Bytes) : Option (List Bytes) :=
  if k.contains t then some ((k.reverse.erase t).reverse) else none

def hasChildMount (t : Bytes) (k : List Bytes) : Bool := k.any fun m => m != t && hasPrefix m (t ++ [47])

/-- one turn: skip bookkeeping that needs no kernel interaction, then perform exactly one
    kernel interaction (if any is left) -/
def turn : Nat → Proc → List Bytes → Proc × List Bytes
  | 0, p, k => (p, k)
  | fuel + 1, p, k =>
    match p.pending with
    | [] => (p, k)
    | .probe :: rest => ({ p with cache := k, pending := rest }, k)
    | .ensure t :: rest =>
      if p.cache.contains t then turn fuel { p with pending := rest } k
      else ({ p with pending := rest }, k ++ [t])
    | .planUmount pre :: rest =>
      let ts := (sortBy bytesLt (p.cache.filter (atOrBelow pre))).reverse
      if ts.isEmpty then ({ p with pending := [], failed := true }, k)
      else turn fuel { p with pending := ts.map Act.umount ++ rest } k
    | .failIfCached t :: rest =>
      if p.cache.contains t then ({ p with pending := [], failed := true }, k)
      else turn fuel { p with pending := rest } k
    | .doneIfCached ts :: rest =>
      if ts.all p.cache.contains then ({ p with pending := [] }, k)
      else turn fuel { p with pending := rest } k
    | .probe0 :: rest => ({ p with cache := k, snap := k, pending := rest }, k)
    | .allLayer pre kids :: rest =>
      if kids.any p.cache.contains then turn fuel { p with pending := rest, busy := true } k
      else
        let ts := (sortBy bytesLt (p.snap.filter (atOrBelow pre))).reverse
        if ts.isEmpty then turn fuel { p with pending := rest } k
        else turn fuel { p with pending := ts.map Act.umount ++ [.probe] ++ rest } k
    | .failIfBusy :: rest =>
      if p.busy then ({ p with pending := [], failed := true }, k)
      else turn fuel { p with pending := rest } k
    | .umount t :: rest =>
      if hasChildMount t k then ({ p with pending := [], failed := true }, k)
      else match removeLast t k with
        | some k' => ({ p with pending := rest }, k')
        | none => ({ p with pending := [], failed := true }, k)

structure St where
  kernel : List Bytes
  p0 : Proc
  p1 : Proc
  deriving Repr, DecidableEq, BEq

def fuelOf (s : St) : Nat := 2 * (s.kernel.length + s.p0.pending.length + s.p1.pending.length + s.p0.cache.length + s.p1.cache.length + s.p0.snap.length + s.p1.snap.length) + 8

def step (s : St) (who : Bool) : St :=
  if who then
    let (p, k) := turn (fuelOf s) s.p1 s.kernel
    { s with kernel := k, p1 := p }
  else
    let (p, k) := turn (fuelOf s) s.p0 s.kernel
    { s with kernel := k, p0 := p }

def runSchedule (s : St) (sched : List Bool) : St := sched.foldl step s

/-- let a process finish on its own -/
def drain : Nat → Bool → St → St
  | 0, _, s => s
  | n + 1, who, s =>
    let p := if who then s.p1 else s.p0
    if p.pending.isEmpty then s else drain n who (step s who)

def finish (s : St) : St :=
  let n := 4 * fuelOf s
  drain n true (drain n false s)

/-- the whole concurrent run: the schedule, then whatever is left, process 0 first -/
def run (k : List Bytes) (a0 a1 : List Act) (sched : List Bool) : St :=
  finish (runSchedule { kernel := k, p0 := { pending := a0 }, p1 := { pending := a1 } } sched)

/-- serial executions: one process completely, then the other -/
def serial01 (k : List Bytes) (a0 a1 : List Act) : St :=
  let s : St := { kernel := k, p0 := { pending := a0 }, p1 := { pending := a1 } }
  let n := 4 * fuelOf s + 64
  drain n true (drain n false s)

def serial10 (k : List Bytes) (a0 a1 : List Act) : St :=
  let s : St := { kernel := k, p0 := { pending := a0 }, p1 := { pending := a1 } }
  let n := 4 * fuelOf s + 64
  drain n false (drain n true s)

def mountActs (targets : List Bytes) : List Act := [.probe] ++ targets.map .ensure ++ [.probe]

/-- mount of a chain: per layer (root first) its mounts — overlay first for derived layers —
    then the re-reading of the table -/
def mountChainActs (layers : List (List Bytes)) : List Act :=
  [.probe] ++ layers.flatMap fun ts => ts.map .ensure ++ [.probe]

/-- chroot into the last layer of a chain: the table is read once; if it shows all of that
    layer's own mounts (state "mounted") nothing is mounted, otherwise the chain is mounted as
    by `mount` (Layerdefs.Chroot → Layerdefs.Mount, on the table already read) -/
def chrootChainActs (layers : List (List Bytes)) : List Act :=
  [.probe, .doneIfCached (layers.getLast?.getD [])] ++ layers.flatMap fun ts => ts.map .ensure ++ [.probe]

/-- umount of a layer whose children's build roots are `kids` -/
def umountLayerActs (pre : Bytes) (kids : List Bytes) : List Act :=
  [.probe] ++ kids.map .failIfCached ++ [.planUmount pre, .probe]

/-- `umount -all`: the layers in reverse normalized order, each with its build root and the
    build roots of its direct children -/
def umountAllActs (layers : List (Bytes × List Bytes)) : List Act :=
  [.probe0] ++ layers.map (fun l => .allLayer l.1 l.2) ++ [.failIfBusy]

/-- run one process alone to completion -/
def solo (k : List Bytes) (a : List Act) : St :=
  let s : St := { kernel := k, p0 := { pending := a }, p1 := {} }
  drain (4 * fuelOf s + 64) false s
def umountActs (pre : Bytes) : List Act := [.probe, .planUmount pre, .probe]

/-- multiset view of the kernel table -/
def canonK (k : List Bytes) : List Bytes := sortBy bytesLt k

end Lc.Concurrent
