/-
  Model of fs/inuse.go (FindLayerUsers, isLinkToLayer, SameDirectoryOrDescendant) over an
  explicit description of what /proc answers for each process: every readlink / open /
  readdir may succeed or fail with an errno (a process may exit at any moment).
-/
import Lc.Base.Bytes
import Lc.Base.Res
import Lc.Base.Path

namespace Lc.InUse
open Lc

def EACCES : Nat := 13
def ENOENT : Nat := 2
def ESRCH : Nat := 3

/-- result of a readlink: target or errno -/
abbrev Link := Except Nat Bytes

inductive FdDir where
  | notDir                          -- stat says /proc/<pid>/fd is not a directory (process gone)
  | openFails (errno : Nat)
  | readFails (errno : Nat)         -- opened, but readdir fails (process exited meanwhile)
  | entries (links : List Link)
  deriving Repr

structure ProcRec where
  pid : Nat
  exe : Link
  cwd : Link
  root : Link
  fd : FdDir
  deriving Repr

structure Use where
  layer : Bytes
  pid : Nat
  usedAs : Nat          -- 0 root, 1 cwd, 2 exec, 3 open
  file : Bytes
  deriving Repr, DecidableEq, BEq

/-- fs.SameDirectoryOrDescendant (prefix non-empty) -/
def sameDirOrDesc (path pre : Bytes) : Bool :=
  hasPrefix path pre &&
    (pre.getLast? == some 47 || path.length == pre.length || path[pre.length]? == some 47)

/-- isLinkToLayer on a readlink result -/
def linkToLayer (pre : Bytes) (l : Link) : Option (Bytes × Bytes) :=
  match l with
  | .error _ => none
  | .ok target =>
    if sameDirOrDesc target pre then
      let rest := target.drop pre.length
      match indexByte 47 rest with
      | some p => some (rest.take p, rest.drop (p + 1))
      | none => some (rest, [])
    else none

/-- the prefix FindLayerUsers works with: the layers directory with a trailing slash -/
def scanPrefix (layersDir : Bytes) : Bytes :=
  if layersDir.length > 1 && layersDir.getLast? != some 47 then layersDir ++ [47] else layersDir

def usesOfLinks (pre : Bytes) (pid : Nat) (items : List (Link × Nat)) : List Use :=
  items.filterMap fun (l, usedAs) =>
    match linkToLayer pre l with
    | some (layer, tail) => some ⟨layer, pid, usedAs, tail⟩
    | none => none

/-- one process of the scan; `.error` = the whole command fails.  `strict` = the code
    before fix 3b950b5 (any unexpected errno aborts the scan) -/
def scanProc (strict : Bool) (pre : Bytes) (p : ProcRec) : Res (List Use) :=
  let skip : Bool := match p.exe with
    | .error e => e == EACCES
    | .ok _ => false
  if skip then .ok [] else
  let abort : Bool := strict && (match p.exe with
    | .error e => e != ENOENT
    | .ok _ => false)
  if abort then Res.err "exe" else
  let base := usesOfLinks pre p.pid [(p.cwd, 1), (p.root, 0), (p.exe, 2)]
  match p.fd with
  | .notDir => .ok base
  | .openFails _ => .ok base
  | .readFails _ => if strict then Res.err "readdir" else .ok base
  | .entries ls => .ok (base ++ usesOfLinks pre p.pid (ls.map fun l => (l, 3)))

def scanAll (strict : Bool) (pre : Bytes) : List ProcRec → Res (List Use)
  | [] => .ok []
  | p :: ps =>
    match scanProc strict pre p with
    | .error e => .error e
    | .ok us => match scanAll strict pre ps with
      | .error e => .error e
      | .ok rest => .ok (us ++ rest)

/-- FindLayerUsers (as fixed) -/
def findLayerUsers (layersDir : Bytes) (procs : List ProcRec) : Res (List Use) :=
  scanAll false (scanPrefix layersDir) procs

/-- FindLayerUsers before the fix -/
def findLayerUsersOld (layersDir : Bytes) (procs : List ProcRec) : Res (List Use) :=
  scanAll true (scanPrefix layersDir) procs

end Lc.InUse
