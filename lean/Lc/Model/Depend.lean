/-
  Model of portage/depend/tokenizer.go (getToken/_getToken) and
  portage/depend/depend.go (DecodeDependencies, decodeDependency,
  ConditionalPackageDependency.String), following the code after the `fix:` commits
  (nil check / checked type assertion, nesting depth, atom must end at whitespace,
  `?` printed by String).

  The cursor is the remaining input (see Lc/Model/AtomParse.lean).  The recursion of
  `decodeDependency` and its `for` loops are fuelled; Lc/Props/C14.lean shows that
  `2 * len + 2` units always suffice and that extra fuel never changes a result.
  Core Lean only.
-/
import Lc.Model.AtomParse

namespace Lc.Depend
open Lc Lc.AtomParse

/-- toktype_* of tokenizer.go -/
inductive TokType where
  | error | eof | open | close | whenUseSet | whenUseUnset | anyOf | exactlyOneOf | atMostOneOf
  | testForAtom
  deriving Repr, DecidableEq

-- Pkg_dep_* of depend.go
def pkgDepAtom := 0
def pkgDepAll := 1
def pkgDepAnyOf := 2
def pkgDepExactlyOneOf := 3
def pkgDepAtMostOneOf := 4
def pkgDepWhenUseSet := 5
def pkgDepWhenUseUnset := 6

/-- `toktype_to_pkg_dep` (a missing key of a Go map reads as 0) -/
def toktypeToPkgDep : TokType → Nat
  | .whenUseSet => pkgDepWhenUseSet
  | .whenUseUnset => pkgDepWhenUseUnset
  | .anyOf => pkgDepAnyOf
  | .exactlyOneOf => pkgDepExactlyOneOf
  | .atMostOneOf => pkgDepAtMostOneOf
  | _ => 0

/-- `byte_to_toktype_map` -/
def byteToToktype (c : Nat) : TokType :=
  if c == 40 then .open else if c == 41 then .close else if c == 124 then .anyOf
  else if c == 94 then .exactlyOneOf else if c == 63 then .atMostOneOf else .error

/-- what `_getToken` decides from the token text `tok = Slice[start:end]` (non-empty, all
    bytes > ' '): token type, USE flag, and how many bytes the cursor moves from `start`.
    `ac.Slice[end-1]` is an index expression: on an empty token it would panic. -/
def classify (tok : Bytes) : Res (TokType × Bytes × Nat) :=
  let c0 := peek tok
  let toklen := tok.length
  let tk := if c0 == 40 || c0 == 41 then 1 else if c0 == 124 || c0 == 94 || c0 == 63 then 2 else 0
  if tk > 0 then
    if toklen != tk || (tk > 1 && peek1 tok != c0) then .ok (.error, [], 0)
    else .ok (byteToToktype c0, [], toklen)
  else
    -- if c == '!' { c = ac.Take(); useStart++; toklen-- }
    let bang := c0 == 33
    let body := if bang then tok.tail else tok      -- Slice[ac.Pos:end]
    let toklen := body.length
    match tok.getLast? with
    | none => Res.panic
    | some last =>
      if toklen > 1 && last == 63 then
        let flag := body.dropLast
        if !flag.all isUseFlagChar then .ok (.error, [], if bang then 1 else 0)
        else .ok (if bang then .whenUseUnset else .whenUseSet, flag, tok.length)
      else .ok (.testForAtom, [], 0)

/-- `getToken(ac)` → (toktype, useFlag, cursor).  (`start` only feeds error texts.) -/
def getToken (ac : Cur) : Res (TokType × Bytes × Cur) :=
  let ac := ac.dropWhile fun c => decide (c ≤ 32)   -- `for c <= ' '` loop
  if ac.isEmpty then .ok (.eof, [], ac)
  else
    let tok := ac.takeWhile fun c => decide (c > 32) -- Slice[start:NextWhitespace()]
    match classify tok with
    | .error e => .error e
    | .ok (ty, flag, adv) => .ok (ty, flag, ac.drop adv)

mutual
/-- PackageDependency values: *DependAtom or *ConditionalPackageDependency -/
inductive MDep where
  | atom (pa : ParsedAtom)
  | cond (type : Nat) (useFlag : Bytes) (deps : MDepL)
inductive MDepL where
  | nil
  | cons (d : MDep) (ds : MDepL)
end

mutual
/-- `decodeDependency(ac, depth)`: `none` is the Go `nil, nil` return -/
def decodeDep : Nat → Nat → Cur → Res (Option MDep × Cur)
  | 0, _, _ => fuelOut
  | n + 1, depth, ac =>
    match getToken ac with
    | .error e => .error e
    | .ok (ty, useFlag, ac) =>
      match ty with
      | .eof => if depth > 0 then Res.err "missing-close" else .ok (none, ac)
      | .close => if depth == 0 then Res.err "unbalanced-close" else .ok (none, ac)
      | .error => Res.err "token"
      | .open =>
        match decodeSeq n (depth + 1) ac with
        | .error e => .error e
        | .ok (list, ac) => .ok (some (.cond pkgDepAll [] list), ac)
      | .whenUseSet | .whenUseUnset =>
        match decodeDep n depth ac with
        | .error e => .error e
        | .ok (none, _) => Res.err "missing-after-use"
        | .ok (some dep, ac) =>
          let newType := toktypeToPkgDep ty
          match dep with
          | .atom pa => .ok (some (.cond newType useFlag (.cons (.atom pa) .nil)), ac)
          | .cond t _ ds =>
            if t == pkgDepAll then .ok (some (.cond newType useFlag ds), ac)
            else Res.err "invalid-after-use"
      | .anyOf | .exactlyOneOf | .atMostOneOf =>
        match decodeDep n depth ac with
        | .error e => .error e
        | .ok (none, _) => Res.err "invalid-after-group-op"
        | .ok (some dep, ac) =>
          let newType := toktypeToPkgDep ty
          match dep with
          | .atom _ => Res.err "invalid-after-group-op"
          | .cond t f ds =>
            if t != pkgDepAll then Res.err "invalid-after-group-op"
            else .ok (some (.cond newType f ds), ac)
      | .testForAtom =>
        match rawParseAtomAtCursor ac true true with
        | .error e => .error e
        | .ok (pa, ac) =>
          if peek ac > 32 then Res.err "after-atom" else .ok (some (.atom pa), ac)
/-- the `for { dp, err := decodeDependency(...); ...; list = append(list, dp) }` loops -/
def decodeSeq : Nat → Nat → Cur → Res (MDepL × Cur)
  | 0, _, _ => fuelOut
  | n + 1, depth, ac =>
    match decodeDep n depth ac with
    | .error e => .error e
    | .ok (none, ac) => .ok (.nil, ac)
    | .ok (some d, ac) =>
      match decodeSeq n depth ac with
      | .error e => .error e
      | .ok (ds, ac) => .ok (.cons d ds, ac)
end

/-- fuel that always suffices (theorem `decode_terminates`) -/
def fuelFor (buf : Bytes) : Nat := 2 * buf.length + 2

/-- `DecodeDependencies(buf)` -/
def decodeDependencies (buf : Bytes) : Res MDepL :=
  match decodeSeq (fuelFor buf) 0 buf with
  | .ok (l, _) => .ok l
  | .error e => .error e

/-! ### String() -/

mutual
/-- `dep.String()`; the table lookup `[]string{...}[d.Type]` panics for Type > 4 -/
def depString : MDep → Res Bytes
  | .atom pa => .ok pa.atom
  | .cond t flag deps =>
    let pre : Res Bytes :=
      if t == pkgDepWhenUseSet then .ok (flag ++ b!"? (")
      else if t == pkgDepWhenUseUnset then .ok (33 :: flag ++ b!"? (")
      else if t == 0 then .ok []
      else if t == 1 then .ok b!"("
      else if t == 2 then .ok b!"|| ("
      else if t == 3 then .ok b!"^^ ("
      else if t == 4 then .ok b!"?? ("
      else Res.panic
    match pre, depsString deps with
    | .ok p, .ok body => .ok (p ++ body ++ b!" )")
    | .error e, _ => .error e
    | _, .error e => .error e
def depsString : MDepL → Res Bytes
  | .nil => .ok []
  | .cons d ds =>
    match depString d, depsString ds with
    | .ok s, .ok r => .ok (32 :: s ++ r)
    | .error e, _ => .error e
    | _, .error e => .error e
end

/-- the harness joins the top-level `String()`s with single spaces -/
def topString : MDepL → Res Bytes
  | .nil => .ok []
  | .cons d .nil => depString d
  | .cons d ds =>
    match depString d, topString ds with
    | .ok s, .ok r => .ok (s ++ 32 :: r)
    | .error e, _ => .error e
    | _, .error e => .error e

end Lc.Depend
