/-
  Model of package manage (layers.go, probe.go, layerinfo.go, normalizeOrder.go,
  exports.go, init.go) over the environment models Fs and Kernel, in a
  state/exception monad with pretend, fault and crash switches (DESIGN.md §3.4).
  Follows the code statement by statement, after the `fix:` commits listed in
  known_findings.txt.
-/
import Lc.Base.Bytes
import Lc.Base.Res
import Lc.Base.Path
import Lc.Base.Utf8
import Lc.Base.Sort
import Lc.Model.Mountinfo
import Lc.Model.Kernel
import Lc.Model.Fs
import Lc.Model.Layerfile

namespace Lc.Layers
open Lc Lc.Mountinfo Lc.Layerfile

structure Config where
  basepath : Bytes
  layerdirs : Bytes
  buildRoot : Bytes
  binPkg : Bytes
  generated : Bytes
  workdir : Bytes
  upperdir : Bytes
  exportdirs : Bytes
  exportBinPkg : Bytes
  exportGenerated : Bytes
  deriving Repr, DecidableEq, BEq

/-- layer states, numbered as in manage/layers.go -/
def S_empty : Nat := 0
def S_error : Nat := 1
def S_incomplete : Nat := 2
def S_complete : Nat := 3
def S_inhabited : Nat := 4
def S_mountable : Nat := 5
def S_partialmount : Nat := 6
def S_mounted : Nat := 7
def S_mounted_busy : Nat := 8

structure User where
  usedAs : Nat        -- 0 root, 1 cwd, 2 exec, 3 open
  file : Bytes        -- path below the layer directory
  deriving Repr, DecidableEq, BEq

structure Layer where
  name : Bytes
  base : Bytes := []
  cmounts : List NeededMount := []
  cexports : List NeededMount := []
  layerPath : Bytes := []
  state : Nat := 0
  mountBusy : Bool := false
  nonMountBusy : Bool := false
  overlain : Bool := false
  chroot : Bool := false
  mounts : List MountType := []
  deriving Repr, DecidableEq, BEq

structure Defs where
  layers : List Layer := []          -- layermap (keys unique)
  order : List Bytes := []           -- normalizedOrder
  mounts : Mounts := {}
  deriving Repr

/-! ### environment and monad -/

inductive Op where
  | mkdir (p : Bytes)
  | writefile (p : Bytes)
  | fopen (p : Bytes)
  | fwrite (p : Bytes)
  | rename (a b : Bytes)
  | remove (p : Bytes)
  | symlink (link target : Bytes)
  | mount (src tgt fstype : Bytes) (flags : Nat) (data : Bytes)
  | umount (tgt : Bytes) (flags : Nat)
  deriving Repr, DecidableEq, BEq

structure World where
  fs : Fs.Tree := []
  kt : Kernel.KTable := {}
  pretend : Bool := false
  force : Bool := false
  faultAt : Option Nat := none
  crashAt : Option Nat := none
  nops : Nat := 0                    -- fault points passed so far
  trace : List Op := []              -- operations actually attempted on the environment
  deriving Repr

abbrev M := ExceptT Fault (StateM World)

def fail {α} (cls : String) : M α := throw (.err cls)

def getW : M World := get
def setW (w : World) : M Unit := set w

/-- the `verifPoint` hook: numbers the mutating operations; `false` = pretend mode
    (operation skipped), otherwise passes or injects a fault / crash -/
def gate : M Bool := do
  let w ← getW
  if w.pretend then return false
  let n := w.nops + 1
  setW { w with nops := n }
  if w.crashAt == some n then fail "crash"
  if w.faultAt == some n then fail "fault"
  return true

def record (op : Op) : M Unit := modify fun w => { w with trace := w.trace ++ [op] }

def fsStep (op : Op) (f : Fs.Tree → Except String Fs.Tree) : M Unit := do
  if !(← gate) then return
  record op
  let w ← getW
  match f w.fs with
  | .ok fs' => setW { w with fs := fs' }
  | .error e => fail ("os:" ++ e)

def fsMkdir (p : Bytes) : M Unit := fsStep (.mkdir p) (fun fs => Fs.mkdirAll fs p)
def fsRename (a b : Bytes) : M Unit := fsStep (.rename a b) (fun fs => Fs.rename fs a b)
def fsRemove (p : Bytes) : M Unit := fsStep (.remove p) (fun fs => .ok (Fs.removeAll fs p))
def fsSymlink (link target : Bytes) : M Unit :=
  fsStep (.symlink link target) (fun fs => Fs.symlink fs target link)
def fsWriteTextFile (p content : Bytes) : M Unit :=
  fsStep (.writefile p) (fun fs => do
    let fs1 ← Fs.openWrite fs p false
    pure (Fs.overwriteFile fs1 p content))

def sysMount (src tgt fstype : Bytes) (flags : Nat) (data : Bytes) : M Unit := do
  record (.mount src tgt fstype flags data)
  let w ← getW
  match Kernel.kmount w.kt src tgt fstype flags data with
  | .ok kt' => setW { w with kt := kt' }
  | .error e => fail ("sys:" ++ e.str)

/-- fs.Mount -/
def fsMount (src tgt fstype options : Bytes) : M Unit := do
  if !(← gate) then return
  let flags :=
    if fstype == b!"bind" then Kernel.MS_BIND
    else if fstype == b!"rbind" then Kernel.MS_BIND + Kernel.MS_REC
    else if fstype == b!"remount" then Kernel.MS_REMOUNT
    else 0
  sysMount src tgt fstype flags options
  if src == b!"/dev" || src == b!"/sys" || src == b!"/run" then
    -- the propagation change is a fault point of its own (hook `mount-propagation`); the
    -- pretender was asked once, before the first call, so `gate` cannot answer `false` here
    let _ ← gate
    sysMount [] tgt [] (Kernel.MS_SLAVE + Kernel.MS_REC) options

/-- fs.Unmount -/
def fsUnmount (tgt : Bytes) : M Unit := do
  if !(← gate) then return
  let flags := if (← getW).force then 1 else 0
  record (.umount tgt flags)
  let w ← getW
  match Kernel.kumount w.kt tgt with
  | .ok kt' => setW { w with kt := kt' }
  | .error e => fail ("sys:" ++ e.str)

def fIsDir (p : Bytes) : M Bool := do return Fs.isDir (← getW).fs p
def fIsFile (p : Bytes) : M Bool := do return Fs.isFile (← getW).fs p
def fExists (p : Bytes) : M Bool := do return Fs.lexists (← getW).fs p
def fIsSymlink (p : Bytes) : M Bool := do return Fs.isSymlink (← getW).fs p

/-! ### paths -/

def layerPath (cfg : Config) (name : Bytes) : Bytes := pathJoin [cfg.layerdirs, name]
def buildPath (cfg : Config) (l : Layer) : Bytes := pathJoin [l.layerPath, cfg.buildRoot]
def workPath (cfg : Config) (l : Layer) : Bytes := pathJoin [l.layerPath, cfg.workdir]
def upperPath (cfg : Config) (l : Layer) : Bytes := pathJoin [l.layerPath, cfg.upperdir]
def layerconfigPath (l : Layer) : Bytes := pathJoin [l.layerPath, b!"layerconfig"]

/-! ### names -/

/-- isLegalLayerName: every rune is a letter, a digit, '_' or (not at offset 0) '-' -/
def isLegalLayerName (name : Bytes) : Bool :=
  (runes name).all fun (off, r, _) => isLetterOrDigit r || r == 95 || (r == 45 && off != 0)

def findLayer (d : Defs) (name : Bytes) : Option Layer := d.layers.find? (·.name == name)

def setLayer (d : Defs) (l : Layer) : Defs :=
  { d with layers := d.layers.map fun x => if x.name == l.name then l else x }

def NAME_NEED : Nat := 1
def NAME_FREE : Nat := 2
def NAME_OPTIONAL : Nat := 4

def testName1 (d : Defs) (name : Bytes) (mask : Nat) : Bool :=
  if name.length < 1 then (mask / 4) % 2 == 1
  else if !isLegalLayerName name then false
  else if (mask / 2) % 2 == 1 then (findLayer d name).isNone
  else if mask % 2 == 1 then (findLayer d name).isSome
  else true

def testName (d : Defs) (tests : List (Bytes × Nat)) : M Unit :=
  if tests.all (fun t => testName1 d t.1 t.2) then pure () else fail "name"

/-! ### FindLayers -/

def layerOfFile (cfg : Config) (name : Bytes) (lf : LayerFile) : Layer :=
  { name := name, base := lf.base, cmounts := lf.mounts, cexports := lf.exports,
    layerPath := layerPath cfg name, state := if lf.nmsgs > 0 then S_error else S_empty }

/-- readLayerFiles over the directory listing `names` -/
def readLayerFiles (cfg : Config) (fs : Fs.Tree) (names : List Bytes) : List Layer :=
  names.filterMap fun n =>
    if !isLegalLayerName n then none else
    let lc := pathJoin [layerPath cfg n, b!"layerconfig"]
    match Fs.readFile fs lc with
    | some content => some (layerOfFile cfg n (readLayerFile content))
    | none => none

/-- walk up the base chain; `none` = missing base or cycle -/
def chainOk (layers : List Layer) : Nat → List Bytes → Bytes → Bool
  | 0, _, _ => false
  | fuel + 1, visited, base =>
    if base.length == 0 then true else
    match layers.find? (·.name == base) with
    | none => false
    | some l => if visited.contains l.name then false
                else chainOk layers fuel (l.name :: visited) l.base

def checkInheritance (layers : List Layer) : Bool :=
  layers.all fun l => chainOk layers (layers.length + 1) [l.name] l.base

/-- sort key of normalizeOrder: "/root/…/parent/name" (fuelled; `none` = would not
    terminate) -/
def sortKey (layers : List Layer) : Nat → Bytes → Bytes → Option Bytes
  | 0, _, _ => none
  | fuel + 1, base, acc =>
    let acc' := base ++ 47 :: acc
    if base.length < 1 then some acc' else
    match layers.find? (·.name == base) with
    | none => none            -- nil dereference in Go
    | some l => sortKey layers fuel l.base acc'

def normalizeOrder (layers : List Layer) : Res (List Bytes) :=
  let keyed := layers.map fun l => (l.name, sortKey layers (layers.length + 1) l.base l.name)
  if keyed.any (·.2.isNone) then Res.panic else
  .ok ((sortBy (fun a b => bytesLt (a.2.getD []) (b.2.getD [])) keyed).map (·.1))

def reorder (d : Defs) : M Defs :=
  match normalizeOrder d.layers with
  | .ok o => pure { d with order := o }
  | .error e => throw e

def findLayers (cfg : Config) : M Defs := do
  let w ← getW
  if !Fs.isDir w.fs cfg.layerdirs then fail "readdir"
  let names := Fs.children w.fs cfg.layerdirs
  let layers := readLayerFiles cfg w.fs names
  if !checkInheritance layers then fail "inheritance"
  reorder { layers := layers }

/-! ### config expansion (exports.go, fs/pathadjust.go) -/

/-- decomposePrefix -/
def decomposePrefix (p : Bytes) : Bytes × Bytes × Bytes :=
  let sigil := p.takeWhile (fun c => c == 126 || c == 36)
  let rest := p.drop sigil.length
  let name := rest.takeWhile (· != 47)
  (sigil, name, rest.drop name.length)

/-- AdjustPrefixedPath with relativeTo = "" and a `$$name` resolver -/
def adjustPrefixedPath (p : Bytes) (resolve : Bytes → Option Bytes) : Res Bytes :=
  if p.length < 1 then .ok [] else
  let (sigil, name, tail) := decomposePrefix p
  let r : Res Bytes :=
    if sigil == [126] then Res.err "tilde"         -- user lookup: environment, not modelled
    else if sigil == [36, 36] then
      match resolve name with
      | some pre => .ok (pathJoin [pre, tail])
      | none => Res.err "prefix"
    else if sigil.length > 0 then Res.err "prefix"
    else .ok p
  match r with
  | .error e => .error e
  | .ok np => if np.length > 0 && np.head? != some 47 then Res.err "relative" else .ok np

structure Expanded where
  mount : Bytes
  source : Bytes
  fstype : Bytes
  unMount : Bytes
  unSource : Bytes
  deriving Repr, DecidableEq, BEq

def findLayerBase (d : Defs) : Nat → Layer → Option Layer
  | 0, _ => none
  | fuel + 1, l =>
    if l.base.length > 0 then
      match findLayer d l.base with
      | some p => findLayerBase d fuel p
      | none => none
    else some l

def expandConfigMounts (cfg : Config) (d : Defs) (l : Layer) : Res (List Expanded) :=
  l.cmounts.mapM fun m =>
    let mp := pathJoin [buildPath cfg l, m.mount]
    let resolve := fun (sym : Bytes) =>
      if sym == b!"base" then (findLayerBase d (d.layers.length + 1) l).map (·.layerPath)
      else if sym == b!"self" then some l.layerPath
      else none
    match adjustPrefixedPath m.source resolve with
    | .ok src => .ok ⟨mp, src, m.fstype, m.mount, m.source⟩
    | .error e => .error e

def expandConfigExports (cfg : Config) (l : Layer) : Res (List Expanded) :=
  l.cexports.mapM fun m =>
    let src := pathJoin [l.layerPath, cfg.buildRoot, m.source]
    let resolve := fun (sym : Bytes) =>
      if sym == b!"package_export" then some (pathJoin [cfg.exportdirs, cfg.exportBinPkg, l.name])
      else if sym == b!"file_export" then some (pathJoin [cfg.exportdirs, cfg.exportGenerated, l.name])
      else none
    match adjustPrefixedPath m.mount resolve with
    | .ok tgt => .ok ⟨tgt, src, m.fstype, m.mount, m.source⟩
    | .error e => .error e

/-- inAnyLayerDirectory: walk `path.Dir` upwards while at least as long as Layerdirs -/
def inAnyLayerDirectory (cfg : Config) : Nat → Bytes → Bool
  | 0, _ => false
  | fuel + 1, p =>
    if p.length < cfg.layerdirs.length then false
    else if p == cfg.layerdirs then true
    else inAnyLayerDirectory cfg fuel (pathDir p)

/-- fs.IsDescendant for clean absolute paths (filepath.Rel; after fix eeedaf2 the relative
    path is not ".", not ".." and does not begin with "../") -/
def isDescendant (dir test : Bytes) : Bool :=
  if test == dir then false
  else if Fs.under dir test then
    let rel := if dir == [47] then test.drop 1 else test.drop (dir.length + 1)
    rel.length > 0 && rel != [46] && rel != [46, 46] && !hasPrefix rel [46, 46, 47]
  else false

/-! ### mount-table queries used by package manage (after fixes 8d11829, e546b99) -/

def getMountAndSubmounts (m : Mounts) (path : Bytes) : List MountType :=
  let pre := path ++ [47]
  let l := m.list.filter fun x => x.mountpoint == path || hasPrefix x.mountpoint pre
  -- sort.Stable: mounts on one mountpoint stay in table order (the insertion sort `sortBy`
  -- puts an element behind the equal ones that followed it, hence the reversal)
  let sorted := sortBy (fun a b => bytesLt a.mountpoint b.mountpoint) l.reverse
  if hasCoveredMount sorted then inTreeOrder sorted else sorted

/-! ### probe.go -/

def minimalBuildDirs : List Bytes :=
  [b!"bin", b!"etc", b!"lib", b!"opt", b!"root", b!"sbin", b!"usr"]

def minimalBuildDirsPresent (fs : Fs.Tree) (buildroot : Bytes) : Bool :=
  minimalBuildDirs.all fun n => Fs.isDir fs (pathJoin [buildroot, n])

/-- fs.SameDirectoryOrDescendant (prefix non-empty) -/
def sameDirOrDesc (path pre : Bytes) : Bool :=
  hasPrefix path pre &&
    (pre.getLast? == some 47 || path.length == pre.length || path[pre.length]? == some 47)

/-- fs.Readlink + comparison for export links (256-byte buffer not modelled here) -/
def readlink (fs : Fs.Tree) (p : Bytes) : Option Bytes :=
  match Fs.get fs p with
  | some (.symlink t) => some t
  | _ => none

/-- findLayerstate; returns the updated layer -/
def findLayerstate (cfg : Config) (fs : Fs.Tree) (d : Defs) (l : Layer) : Res Layer :=
  let builddir := buildPath cfg l
  let l := { l with mounts := getMountAndSubmounts d.mounts builddir }
  if l.state < S_complete then .ok l else
  let l := { l with state := S_complete }
  -- derived layer: overlay check
  let pre : Res (Option (Layer × Nat)) :=   -- none = finished (return l), some = continue
    if l.base.length > 0 then
      match findLayer d l.base with
      | none => Res.panic
      | some bl =>
        if bl.state < S_mountable then .ok none else
        match getMount d.mounts builddir with
        | none =>
          -- (after fix f9eff6a) mounts below the build root but no overlay: error
          if l.mounts.length > 0 then .ok (some ({ l with state := S_error }, 1000000))
          else .ok (some ({ l with state := S_mountable }, 1000000))   -- marker: return now
        | some mnt =>
          if mnt.fstype != b!"overlay" then .ok (some ({ l with state := S_error }, 1000000))
          else if mnt.source != buildPath cfg bl || mnt.source2 != upperPath cfg l
                  || mnt.workdir != workPath cfg l then
            .ok (some ({ l with state := S_error }, 1000000))
          else if !minimalBuildDirsPresent fs builddir then .ok none
          else .ok (some (l, 1))
    else if !minimalBuildDirsPresent fs builddir then .ok none
    else .ok (some (l, 0))
  match pre with
  | .error e => .error e
  | .ok none => .ok l
  | .ok (some (l, 1000000)) => .ok l
  | .ok (some (l, numMounted0)) =>
    let l := { l with state := S_inhabited }
    let numExpected := l.cmounts.length + (if l.base.length > 0 then 1 else 0)
    match expandConfigMounts cfg d l with
    | .error (.err _) => .ok l
    | .error .panic => Res.panic
    | .ok mounts =>
      -- (numMounted, missing?, incorrect?, panic?)
      let step := fun (acc : Nat × Bool × Bool × Bool) (pair : Expanded) =>
        let (n, missing, incorrect, pn) := acc
        if !Fs.lexists fs pair.mount then (n, true, incorrect, pn)
        else if isAbs pair.source && !Fs.lexists fs pair.source
                && !inAnyLayerDirectory cfg (pair.source.length + 1) pair.source then
          (n, true, incorrect, pn)
        else match getMount d.mounts pair.mount with
          | none => (n, missing, incorrect, pn)
          | some mnt =>
            match mountSourceIsExpected d.mounts mnt pair.source with
            | .ok true => (n + 1, missing, incorrect, pn)
            | .ok false => (n + 1, missing, true, pn)
            | .error _ => (n + 1, missing, incorrect, true)
      let (numMounted, missing1, incorrect1, pn) := mounts.foldl step (numMounted0, false, false, false)
      if pn then Res.panic else
      let (exports, fsErr) := match expandConfigExports cfg l with
        | .ok e => (e, false)
        | .error _ => ([], true)
      let estep := fun (acc : Bool × Bool) (pair : Expanded) =>
        let (missing, incorrect) := acc
        if !isDescendant builddir pair.source && builddir != pair.source then (missing, true)
        else if !Fs.lexists fs pair.source then (true, incorrect)
        else if Fs.isSymlink fs pair.mount then
          (missing, incorrect || readlink fs pair.mount != some pair.source)
        else (missing, incorrect)
      let (missing, incorrect) := exports.foldl estep (missing1, incorrect1)
      if incorrect || fsErr then .ok { l with state := S_error }
      else if missing then .ok l
      else if numMounted == 0 then .ok { l with state := S_mountable }
      else if numMounted < numExpected then .ok { l with state := S_partialmount }
      else if l.mountBusy || l.overlain then .ok { l with state := S_mounted_busy }
      else .ok { l with state := S_mounted }

def liftRes {α} (r : Res α) : M α :=
  match r with
  | .ok a => pure a
  | .error e => throw e

/-- refreshMountInfo -/
def refreshMountInfo (cfg : Config) (d : Defs) : M Defs := do
  let w ← getW
  let m ← liftRes (Kernel.probe w.kt)
  let lower := overlayLowerdirs m
  pure { d with mounts := m,
                layers := d.layers.map fun l => { l with overlain := lower.contains (buildPath cfg l) } }

def classifyUsers (cfg : Config) (l : Layer) (users : List User) : Layer :=
  users.foldl (fun l u =>
    [cfg.buildRoot, cfg.workdir, cfg.upperdir].foldl (fun l mp =>
      let l := if sameDirOrDesc u.file mp then { l with mountBusy := true }
               else { l with nonMountBusy := true }
      if u.usedAs == 0 then { l with chroot := true } else l) l) l

/-- ProbeAllLayerstate (in normalizedOrder, so parents are classified before children) -/
def probeAll (cfg : Config) (inuse : List (Bytes × List User)) (d : Defs) : M Defs := do
  let d ← refreshMountInfo cfg d
  let fs := (← getW).fs
  d.order.foldlM (fun (d : Defs) (name : Bytes) => do
    match findLayer d name with
    | none => throw Fault.panic
    | some l =>
      let buildroot := buildPath cfg l
      let l := { l with mounts := getMountAndSubmounts d.mounts buildroot }
      let users := match inuse.find? (·.1 == name) with
        | some (_, us) => us
        | none => []
      let l := classifyUsers cfg l users
      -- (after fix e3cb7aa) a layer in the error state keeps its state, but its mounts and
      -- users have been recorded
      if l.state == S_error then pure (setLayer d l) else
      if !Fs.isDir fs buildroot then pure (setLayer d { l with state := S_incomplete }) else
      let haveWork := Fs.isDir fs (workPath cfg l)
      let haveUpper := Fs.isDir fs (upperPath cfg l)
      if l.base.length ≥ 1 && (!haveWork || !haveUpper) then
        pure (setLayer d { l with state := S_incomplete })
      else
        let l ← liftRes (findLayerstate cfg fs d { l with state := S_complete })
        pure (setLayer d l)) d

/-- what `getLayers` of cmd/layercake does before every command -/
def getLayers (cfg : Config) (inuse : List (Bytes × List User)) : M Defs := do
  let d ← findLayers cfg
  probeAll cfg inuse d

/-! ### layers.go: guards -/

def errorIfError (l : Layer) : M Unit := if l.state == S_error then fail "errorstate" else pure ()

def isBusy (l : Layer) (altering : Bool) : Bool :=
  (if altering then l.mounts.length > 0 || l.mountBusy || l.nonMountBusy else l.mountBusy)
  || l.overlain

def errorIfBusy (l : Layer) (altering : Bool) : M Unit :=
  if isBusy l altering then fail "busy" else pure ()

def hasChild (d : Defs) (name : Bytes) : Bool := d.layers.any (·.base == name)

def getL (d : Defs) (name : Bytes) : M Layer :=
  match findLayer d name with
  | some l => pure l
  | none => throw Fault.panic

/-! ### layerconfig writing (after fixes e8b7313, ae7b7b4): temp file + rename -/

def toLayerFile (l : Layer) : LayerFile := { base := l.base, mounts := l.cmounts, exports := l.cexports }

def tmpSuffix : Bytes := b!".new"

/-- one Printf of the cursor: fault point, then write(2) -/
def cursorWrite (p chunk : Bytes) (failed : Bool) : M Bool := do
  if failed then return true
  let w ← getW
  let n := w.nops + 1
  setW { w with nops := n }
  if w.crashAt == some n then fail "crash"
  if w.faultAt == some n then return true
  record (.fwrite p)
  modify fun w => { w with fs := Fs.appendFile w.fs p chunk }
  return false

/-- NewTextOutputFileCursor (not pretending): fault point, then open(O_TRUNC|O_CREATE) -/
def cursorOpen (p : Bytes) : M Unit := do
  let w ← getW
  let n := w.nops + 1
  setW { w with nops := n }
  if w.crashAt == some n then fail "crash"
  if w.faultAt == some n then fail "fault"
  record (.fopen p)
  let w ← getW
  match Fs.openWrite w.fs p true with
  | .error e => fail ("os:" ++ e)
  | .ok fs' => setW { w with fs := fs' }

def writeLayerFile (l : Layer) : M Unit := do
  let filename := layerconfigPath l
  let tmp := filename ++ tmpSuffix
  -- pretending cursor: no file is touched and the final Rename is gated too
  if (← getW).pretend then return
  cursorOpen tmp
  let failed ← (writeChunks (toLayerFile l)).foldlM (fun failed chunk => cursorWrite tmp chunk failed) false
  if failed then fail "fault"
  fsRename tmp filename

/-! ### commands -/

/-- filepath.Ext: from the last '.' of the last path element -/
def fileExt (p : Bytes) : Bytes :=
  let b := (lastSlashSplit p).2
  let r := b.reverse
  if r.contains 46 then 46 :: (r.takeWhile (· != 46)).reverse else []

def skeletonFile : Bytes := b!"default_layerconfig.skel"

def getDefaultLayerinfo (cfg : Config) (filename : Bytes) : M LayerFile := do
  let fs := (← getW).fs
  let f0 := if filename.length == 0 then pathJoin [cfg.basepath, skeletonFile] else filename
  let f1 := if !Fs.isFile fs f0 then
      let f := pathJoin [cfg.basepath, f0]
      if !Fs.isFile fs f && (fileExt f).length == 0 then f ++ b!".skel" else f
    else f0
  match Fs.readFile fs f1 with
  | none => fail "noconfig"
  | some content =>
    let lf := readLayerFile content
    if lf.nmsgs > 0 then fail "configerror" else pure lf

def addLayer (cfg : Config) (d : Defs) (name base configFile : Bytes) : M Defs := do
  testName d [(name, NAME_FREE), (base, NAME_OPTIONAL + NAME_NEED)]
  let mut basis : Option (List NeededMount × List NeededMount) := none
  if base.length > 0 then
    if base == name then fail "ownbase"
    match findLayer d base with
    | some b => basis := some (b.cmounts, b.cexports)
    | none => basis := none
  if configFile.length > 0 || base.length == 0 then
    let lf ← getDefaultLayerinfo cfg configFile
    basis := some (lf.mounts, lf.exports)
  match basis with
  | none => fail "noconfig"
  | some (cm, ce) =>
    let layer : Layer := { name := name, base := base, cmounts := cm, cexports := ce,
                           layerPath := layerPath cfg name }
    fsMkdir layer.layerPath
    writeLayerFile layer
    fsMkdir (buildPath cfg layer)
    if base.length > 0 then
      fsMkdir (workPath cfg layer)
      fsMkdir (upperPath cfg layer)
    else
      let rootuser := pathJoin [buildPath cfg layer, b!"root"]
      fsMkdir rootuser
      fsWriteTextFile (pathJoin [rootuser, b!".bashrc"]) b!"#bashrc"
    reorder { d with layers := d.layers ++ [layer] }

def autoExportPaths (cfg : Config) (l : Layer) : List (Bytes × Bytes) :=
  [ (pathJoin [cfg.exportdirs, cfg.exportBinPkg, l.name], pathJoin [l.layerPath, cfg.binPkg]),
    (pathJoin [cfg.exportdirs, cfg.exportGenerated, l.name], pathJoin [l.layerPath, cfg.generated]) ]

def removeLayerExportLinks (cfg : Config) (l : Layer) : M Unit :=
  for (mnt, _) in autoExportPaths cfg l do
    if !(← fExists mnt) then continue
    if !(← fIsSymlink mnt) then fail "notsymlink"
    fsRemove mnt

def removedSuffix : Bytes := b!"~removed"

/-- the files `AddLayer` itself creates in a layer directory -/
def ownFiles (cfg : Config) (l : Layer) : List Bytes :=
  [pathJoin [l.layerPath, b!"layerconfig"], pathJoin [buildPath cfg l, b!"root", b!".bashrc"]]

/-- `holdsOnlyOwnFiles` on a tree: every entry at or below the layer directory is a directory
    or one of the layer's own files (filepath.Walk: lstat, no symlink is followed) -/
def onlyOwnFiles (cfg : Config) (l : Layer) (fs : Fs.Tree) : Bool :=
  fs.all fun e => !Fs.under l.layerPath e.1 || (match e.2 with | .dir => true | _ => false) || (ownFiles cfg l).contains e.1

def holdsOnlyOwnFiles (cfg : Config) (l : Layer) : M Bool := do
  pure (onlyOwnFiles cfg l (← getW).fs)

def removeLayer (cfg : Config) (d : Defs) (name : Bytes) (removeFiles : Bool) : M Defs := do
  testName d [(name, NAME_NEED)]
  let l ← getL d name
  errorIfError l
  if hasChild d name then fail "haschild"
  errorIfBusy l true
  removeLayerExportLinks cfg l
  let outright ← if removeFiles then pure true
                 else if l.state == S_complete then holdsOnlyOwnFiles cfg l else pure false
  if outright then
    fsRemove l.layerPath
  else
    let newname := l.layerPath ++ removedSuffix
    if ← fExists newname then fail "pseudodelete"
    fsRename l.layerPath newname
  reorder { d with layers := d.layers.filter (·.name != name) }

/-- `childOrder`: the order in which Go's map iteration visited the children (given by
    the harness from the observed run; any order is possible) -/
def renameLayer (cfg : Config) (d : Defs) (oldname newname : Bytes) (childOrder : List Bytes) : M Defs := do
  testName d [(oldname, NAME_NEED), (newname, NAME_FREE)]
  let l ← getL d oldname
  errorIfError l
  errorIfBusy l true
  let kids := d.layers.filter (·.base == oldname)
  let kids := (childOrder.filterMap fun n => kids.find? (·.name == n))
              ++ kids.filter (fun k => !childOrder.contains k.name)
  if kids.any (fun k => isBusy k true) then fail "busy"
  removeLayerExportLinks cfg l
  let newPath := layerPath cfg newname
  fsRename l.layerPath newPath
  -- children are re-read relative to their own (unchanged) directories
  let d ← kids.foldlM (fun (d : Defs) (k : Layer) => do
    let k' := { k with base := newname }
    writeLayerFile k'
    pure (setLayer d k')) d
  let l' := { l with name := newname, layerPath := newPath }
  let d := { d with layers := (d.layers.filter (·.name != oldname)) ++ [l'] }
  let d ← reorder d
  writeLayerFile l'
  pure d

def rebaseLayer (cfg : Config) (d : Defs) (name newbase : Bytes) : M Defs := do
  let _ := cfg
  testName d [(name, NAME_NEED), (newbase, NAME_NEED + NAME_OPTIONAL)]
  let l ← getL d name
  errorIfError l
  errorIfBusy l true
  let l' := { l with base := newbase }
  let d' := setLayer d l'
  if !checkInheritance d'.layers then fail "orphan"
  if (d.layers.filter (·.base == name)).any (fun k => isBusy k true) then fail "busy"
  let d' ← reorder d'
  writeLayerFile l'
  pure d'

def makedirs (cfg : Config) (d : Defs) (name : Bytes) : M Defs := do
  testName d [(name, NAME_NEED)]
  let l ← getL d name
  errorIfError l
  if l.state < S_complete then
    let fs := (← getW).fs
    let need := [buildPath cfg l] ++ (if l.base.length > 0 then [workPath cfg l, upperPath cfg l] else [])
    let need := need.filter (fun p => !Fs.isDir fs p)
    for p in need do fsMkdir p
    let l' ← liftRes (findLayerstate cfg (← getW).fs d l)
    pure (setLayer d l')
  else pure d

def ancestorsAndSelf (d : Defs) : Nat → Bytes → List Layer → M (List Layer)
  | 0, _, _ => throw Fault.panic
  | fuel + 1, name, acc =>
    if name.length == 0 then pure acc else do
    let l ← getL d name
    ancestorsAndSelf d fuel l.base (l :: acc)

def makeSymlinkInDirectory (source target : Bytes) : M Unit := do
  if !(← fIsSymlink target) then
    let dir := pathDir target
    if !(← fIsDir dir) then fsMkdir dir
    fsSymlink target source

def makeExportSymlinks (cfg : Config) (l : Layer) : M Unit := do
  let exports ← liftRes (expandConfigExports cfg l)
  for e in exports do makeSymlinkInDirectory e.source e.mount
  for (mnt, src) in autoExportPaths cfg l do
    if ← fExists src then makeSymlinkInDirectory src mnt

def mountOne (cfg : Config) (d : Defs) (name : Bytes) : M Defs := do
  let l ← getL d name
  if l.state < S_mountable then fail "notmountable"
  let builddir := buildPath cfg l
  if l.base.length > 0 then
    if (getMount d.mounts builddir).isNone then
      let bl ← getL d l.base
      fsMount b!"overlay" builddir b!"overlay"
        (b!"lowerdir=" ++ buildPath cfg bl ++ b!",upperdir=" ++ upperPath cfg l
          ++ b!",workdir=" ++ workPath cfg l)
  let expanded ← liftRes (expandConfigMounts cfg d l)
  for m in expanded do
    if (getMount d.mounts m.mount).isNone then
      if !(← fExists m.source) then
        if inAnyLayerDirectory cfg (m.source.length + 1) m.source then fsMkdir m.source
        else fail "nosource"
      fsMount m.source m.mount m.fstype []
  let d ← refreshMountInfo cfg d
  let l ← getL d name
  let l' ← liftRes (findLayerstate cfg (← getW).fs d l)
  pure (setLayer d l')

def mountCmd (cfg : Config) (d : Defs) (name : Bytes) : M Defs := do
  testName d [(name, NAME_NEED)]
  let l ← getL d name
  errorIfError l
  let chain ← ancestorsAndSelf d (d.layers.length + 1) name []
  let d ← chain.foldlM (fun d a => makedirs cfg d a.name) d
  let d ← chain.foldlM (fun d a => mountOne cfg d a.name) d
  -- export links only once the whole chain is mounted (fix d8f34a4)
  for a in chain do
    let a' ← getL d a.name
    makeExportSymlinks cfg a'
  pure d

inductive UStatus where | ok | notMounted | busy
  deriving Repr, DecidableEq, BEq

def unmountLayer (cfg : Config) (d : Defs) (name : Bytes) : M (UStatus × Defs) := do
  let l ← getL d name
  if isBusy l false then return (.busy, d)
  if l.mounts.length == 0 then return (.notMounted, d)
  for m in l.mounts.reverse do fsUnmount m.mountpoint
  let d ← refreshMountInfo cfg d
  let l ← getL d name
  let l' ← liftRes (findLayerstate cfg (← getW).fs d l)
  pure (.ok, setLayer d l')

def unmountCmd (cfg : Config) (d : Defs) (name : Bytes) (all : Bool) : M Defs := do
  if name.length > 0 && all then fail "both"
  if name.length > 0 then
    testName d [(name, NAME_NEED)]
    let (st, d) ← unmountLayer cfg d name
    match st with
    | .ok => pure d
    | .busy => fail "busy"
    | .notMounted => fail "notmounted"
  else
    if !all then fail "needarg"
    let (d, busy) ← d.order.reverse.foldlM (fun (acc : Defs × Bool) n => do
      let (st, d) ← unmountLayer cfg acc.1 n
      pure (d, acc.2 || st == .busy)) (d, false)
    if busy then fail "busylayers"
    pure d

def shake (cfg : Config) (d : Defs) : M Defs := do
  for n in d.order do
    let l ← getL d n
    if l.base.length > 0 && l.state ≥ S_mounted then
      fsMount [] (buildPath cfg l) b!"remount" []
  pure d

/-- Chroot up to (not including) the exec -/
def chrootMount (cfg : Config) (d : Defs) (name : Bytes) : M Defs := do
  testName d [(name, NAME_NEED)]
  let l ← getL d name
  let d ← if l.state < S_mounted then mountCmd cfg d name else pure d
  if !(← fIsDir (buildPath cfg l)) then fail "nobuilddir"
  pure d

/-- defaults.SkeletonLayerconfig with {pkgdir} filled in (fns.Template; the value is
    inserted as is) -/
def skeletonText (cfg : Config) : Bytes :=
  b!"import rbind /dev /dev\nimport proc /proc /proc\nimport rbind /sys /sys\nimport rbind /var/db/repos /var/db/repos\nimport rbind /var/cache/distfiles /var/cache/distfiles\nimport rbind $$base/"
    ++ cfg.binPkg ++ b!" /var/cache/binpkgs"

/-- InitLayercakeBase -/
def initBase (cfg : Config) : M Unit := do
  let fs := (← getW).fs
  let dirs := [cfg.layerdirs, cfg.exportdirs]
  let missing := (if !Fs.isDir fs cfg.basepath then [cfg.basepath] else [])
    ++ dirs.filter (fun p => !Fs.isDir fs p)
  let nonBase := dirs.any fun p => Fs.isDir fs p && !isDescendant cfg.basepath p
  if missing.length > 0 && nonBase then fail "manualsetup"
  for p in missing do fsMkdir p
  let files := [ (pathJoin [cfg.basepath, skeletonFile], true), (pathJoin [cfg.exportdirs, b!"index.html"], false) ]
  let haveF := files.filter (fun f => Fs.isFile fs f.1)
  let needF := files.filter (fun f => !Fs.isFile fs f.1)
  for f in needF do fsWriteTextFile f.1 (if f.2 then skeletonText cfg else b!"#html")
  if haveF.length > 0 then fail "nooverwrite"
  if missing.length == 0 && needF.length == 0 then fail "nothingtodo"

/-! ### one CLI step -/

inductive Cmd where
  | init
  | add (name base configFile : Bytes)
  | remove (name : Bytes) (files : Bool)
  | rename (old new : Bytes) (childOrder : List Bytes)
  | rebase (name newbase : Bytes)
  | mkdirs (name : Bytes)
  | mount (name : Bytes)
  | umount (name : Bytes) (all : Bool)
  | shake
  | chroot (name : Bytes)
  | probe                      -- list/status: no mutation
  deriving Repr

def runCmd (cfg : Config) (inuse : List (Bytes × List User)) (c : Cmd) : M Defs := do
  match c with
  | .init => initBase cfg; pure {}
  | _ =>
    let d ← getLayers cfg inuse
    match c with
    | .init => pure d
    | .add n b f => addLayer cfg d n b f
    | .remove n f => removeLayer cfg d n f
    | .rename o n co => renameLayer cfg d o n co
    | .rebase n b => rebaseLayer cfg d n b
    | .mkdirs n => makedirs cfg d n
    | .mount n => mountCmd cfg d n
    | .umount n a => unmountCmd cfg d n a
    | .shake => shake cfg d
    | .chroot n => chrootMount cfg d n
    | .probe => pure d

def run (cfg : Config) (inuse : List (Bytes × List User)) (c : Cmd) (w : World) :
    Except Fault Defs × World :=
  (runCmd cfg inuse c).run.run w

end Lc.Layers
