/-
  Model of the member-set pipeline of cmd/stagemaker `getStageFileList` over
  `FileList.entryMap` (stage/fileList.go, addRemove.go, exclusions.go, supplement.go,
  staticDev.go), of `Finalize` (sort by name + `fixHardlinks`) and of the member naming in
  `MakeTar`.

  `entryMap` is modelled as a list of entries with pairwise different names (`EMap`,
  insertion replaces the entry of the same name).  Go's map iteration order is not
  observable here: `Finalize` sorts, and every loop over the map only inserts entries
  whose content depends on their name alone.

  Line parsing and globbing are *not* modelled: the harness expands every list line into
  `Step`s (one `addSingleFile` call, one deletion, …) using the real directory tree; the tie
  of that expansion to the code is the differential comparison of the final member sequence.
  The walk of `RecoverMissingLinks` is modelled in Lc/Model/StageLinks.lean; its candidate
  list is what `Step.recover` carries (`Lc.Props.C06Links.walk_eq_recoverAll`).
-/
import Lc.Model.StageEntry

namespace Lc.Stage

abbrev EMap := List Entry

def EMap.has (m : EMap) (n : Bytes) : Bool := m.any (fun e => e.name == n)

def EMap.get? (m : EMap) (n : Bytes) : Option Entry := m.find? (fun e => e.name == n)

/-- `fl.entryMap[e.name] = e` -/
def EMap.insert : EMap → Entry → EMap
  | [], e => [e]
  | x :: xs, e => if x.name == e.name then e :: xs else x :: EMap.insert xs e

/-- `delete(fl.entryMap, n)` -/
def EMap.erase (m : EMap) (n : Bytes) : EMap := m.filter (fun e => e.name != n)

def EMap.names (m : EMap) : List Bytes := m.map (·.name)

/-- the environment of one pipeline run -/
structure Env where
  fs : Bytes → Option Lstat
  rootDir : Bytes

/-- `fl.addFiles(entry)` for an entry without wildcard whose source is already resolved -/
def addEntry (env : Env) (m : EMap) (e : Entry) : Res EMap :=
  match addSingleFile env.fs env.rootDir e with
  | .error f => .error f
  | .ok none => .ok m
  | .ok (some e') => .ok (m.insert e')

/-! ### AddMissingStageDirs -/

/-- `strings.LastIndexByte(s, '/')` (−1 ↦ none) -/
def lastSlash (s : Bytes) : Option Nat :=
  let r := s.reverse
  match indexByte SLASH r with
  | none => none
  | some i => some (s.length - 1 - i)

/-- the inner `for` loop of `AddMissingStageDirs` started at `dir`; `fuel` bounds the number
    of iterations (`dir` gets strictly shorter, see `addChain_fuel` in Lc/Props/C06). -/
def addChain (env : Env) : Nat → EMap → Bytes → Res EMap
  | 0, m, _ => .ok m
  | fuel + 1, m, dir =>
    let r := if m.has dir then .ok m else addEntry env m { ltype := ltDir, name := dir }
    match r with
    | .error f => .error f
    | .ok m' =>
      match lastSlash dir with
      | none => .ok m'
      | some pos => if pos < 1 then .ok m' else addChain env fuel m' (dir.take pos)

def addChains (env : Env) : EMap → List Bytes → Res EMap
  | m, [] => .ok m
  | m, d :: ds =>
    match addChain env (d.length + 1) m d with
    | .error f => .error f
    | .ok m' => addChains env m' ds

/-- `fl.AddMissingStageDirs()` -/
def addMissingStageDirs (env : Env) (m : EMap) : Res EMap :=
  let stageDirs := (m.map (fun e => pathDir e.name)).filter (fun d => !d.isEmpty)
  addChains env m stageDirs

/-! ### exclusions -/

/-- `fl.UnstagedFileMap(installedSet)`: the names recorded for installed packages that are
    not staged at this point -/
def unstagedFileMap (m : EMap) (installedNames : List Bytes) : List Bytes :=
  installedNames.filter (fun n => !m.has n)

/-- `fl.ExcludeFiles(excludable)` -/
def excludeFiles (m : EMap) (excludable : List Bytes) : EMap :=
  m.filter (fun e => !excludable.contains e.name)

/-! ### removeFiles -/

/-- `fl.removeFiles(entry)` without wildcard -/
def removeFile (m : EMap) (name : Bytes) : Res EMap :=
  if m.has name then .ok (m.erase name) else Res.err "stage"

/-- `fl.removeFiles(entry)` with wildcard; `matches` = glob results with the root stripped -/
def removeGlob (m : EMap) (matched : List Bytes) : EMap :=
  matched.foldl (fun acc n => if acc.has n then acc.erase n else acc) m

/-! ### pipeline steps -/

structure Cand where
  name : Bytes
  target : Bytes
  tooLong : Bool
  deriving Repr

inductive Step where
  | add (e : Entry)
  | del (name : Bytes)
  | delGlob (names : List Bytes)
  | unstaged (installedNames : List Bytes)
  | recover (cands : List Cand)
  | clone (src name : Bytes) (dminor : Nat)
  | exclude
  | closure
  | fail
  deriving Repr

structure St where
  map : EMap := []
  unstaged : List Bytes := []

/-- the body of `addMissingLinks` for one directory entry that is a symlink -/
def recoverOne (env : Env) (m : EMap) (c : Cand) : Res EMap :=
  if m.has c.name then .ok m
  else if c.tooLong then Res.err "stage"
  else if m.has c.target then addEntry env m { ltype := ltSymlink, name := c.name }
  else .ok m

def recoverAll (env : Env) : EMap → List Cand → Res EMap
  | m, [] => .ok m
  | m, c :: cs =>
    match recoverOne env m c with
    | .error f => .error f
    | .ok m' => recoverAll env m' cs

def runStep (env : Env) (s : St) : Step → Res St
  | .add e => (addEntry env s.map e).map fun m => { s with map := m }
  | .del n => (removeFile s.map n).map fun m => { s with map := m }
  | .delGlob ns => .ok { s with map := removeGlob s.map ns }
  | .unstaged ns => .ok { s with unstaged := unstagedFileMap s.map ns }
  | .recover cs => (recoverAll env s.map cs).map fun m => { s with map := m }
  | .clone src name dminor =>
    -- InsertStaticDev: `entry, found := fl.entryMap[name]` … `fl.addFiles(entry)`
    match s.map.get? src with
    | none => Res.err "stage"
    | some e =>
      (addEntry env s.map { e with name := name, minor := u32 (e.minor + dminor), source := [] }).map
        fun m => { s with map := m }
  | .exclude => .ok { s with map := excludeFiles s.map s.unstaged }
  | .closure => (addMissingStageDirs env s.map).map fun m => { s with map := m }
  | .fail => Res.err "stage"

def runSteps (env : Env) : St → List Step → Res St
  | s, [] => .ok s
  | s, x :: xs =>
    match runStep env s x with
    | .error f => .error f
    | .ok s' => runSteps env s' xs

/-! ### Finalize -/

/-- insertion into a list sorted by name (Go's `sort.Slice` with `name <`; names are
    pairwise different, so every correct sort yields this list) -/
def insertSorted (e : Entry) : List Entry → List Entry
  | [] => [e]
  | x :: xs => if bytesLt e.name x.name then e :: x :: xs else x :: insertSorted e xs

def sortByName (l : List Entry) : List Entry := l.foldr insertSorted []

def lookupIno (id : Nat × Nat) : List ((Nat × Nat) × Bytes) → Option Bytes
  | [] => none
  | (k, v) :: rest => if k = id then some v else lookupIno id rest

/-- `fl.fixHardlinks()`; `seen` is `inodeMap` -/
def fixHardlinks : List ((Nat × Nat) × Bytes) → List Entry → List Entry
  | _, [] => []
  | seen, e :: es =>
    match e.devino with
    | none => e :: fixHardlinks seen es
    | some id =>
      match lookupIno id seen with
      | some targ => { e with ltype := ltHardlink, target := targ } :: fixHardlinks seen es
      | none => e :: fixHardlinks ((id, e.name) :: seen) es

/-- `fl.Finalize()`: the content of `fl.Files` -/
def finalize (m : EMap) : List Entry := fixHardlinks [] (sortByName m)

/-- the whole of `getStageFileList` on an expanded step list -/
def stageFileList (env : Env) (steps : List Step) : Res (List Entry) :=
  (runSteps env {} steps).map fun s => finalize s.map

/-- `MakeTar`: the headers in archive order -/
def tarHeaders : List Entry → Res (List Header)
  | [] => .ok []
  | e :: es =>
    match headerOf e with
    | .error f => .error f
    | .ok h => (tarHeaders es).map (h :: ·)

end Lc.Stage
