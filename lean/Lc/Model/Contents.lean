/-
  Model of portage/vdb/contents.go (GetAtomFileInfo, parseOffTimestamp, parseOffMd5,
  parseOffNonBlankField) and of readFileLines (portage/vdb/get_list.go), statement by
  statement, as the code is.  The input is the byte content of one CONTENTS file.

  A CONTENTS file has one line per recorded object:
      dir <name>
      obj <name> <md5> <mtime>
      sym <name> -> <target> <mtime>
  Names are written unescaped and may contain blanks, so the fields are cut off from
  the RIGHT end of the line.

  Outcomes: `.ok entries`, `Res.err cls` for the error returns
      "empty"      parseOffNonBlankField on an empty rest ("empty CONTENTS line")
      "parse"      parseOffNonBlankField finds no blank after position 0, or nothing after it
      "timestamp"  strconv.ParseInt(str, 10, 64) refuses the field
      "md5"        hex.DecodeString refuses the field
      "arrow"      a sym line without " -> "
      "type"       the first four bytes are none of "dir ", "obj ", "sym "
  and `Res.panic` for `line[:4]` on a line shorter than four bytes (slice bounds out of range).
-/
import Lc.Base.Bytes
import Lc.Base.Res

namespace Lc.Contents
open Lc

/-! ### readFileLines: `strings.Trim(blob, "\n")` -/

/-- `strings.TrimLeft(s, string(c))` for a one-byte cutset -/
def trimLeft (c : Nat) : Bytes → Bytes
  | [] => []
  | x :: xs => if x = c then trimLeft c xs else x :: xs

/-- `strings.TrimRight(s, string(c))` -/
def trimRight (c : Nat) (s : Bytes) : Bytes := (trimLeft c s.reverse).reverse

/-- `readFileLines`: only newlines at either end are dropped (blanks at the end of the last
    line belong to a name and stay; fix 4114813) -/
def readFileLines (blob : Bytes) : Bytes := trimRight 10 (trimLeft 10 blob)

/-! ### FileInfo -/

def FileType_dir : Nat := 1
def FileType_file : Nat := 2
def FileType_symlink : Nat := 3

def zeroMd5 : Bytes := List.replicate 16 0

structure FileInfo where
  name : Bytes := []
  unixTime : Int := 0
  md5 : Bytes := zeroMd5      -- the `[16]byte` array
  type : Nat := 0
  deriving Repr, DecidableEq, BEq

/-! ### parseOffNonBlankField -/

/-- the loop `for pos > 0 { if tail[pos] == ' ' { found = true; break }; pos-- }` started at
    `pos`: `some p` = left with `found` at position `p` (> 0), `none` = ran down to `pos = 0`
    without `found`.  Position 0 is never looked at.  (`tail[pos]` is in range: the loop starts
    at `len(tail) - 1` with `len(tail) ≥ 1`.) -/
def scanBlank (tail : Bytes) : Nat → Option Nat
  | 0 => none
  | pos + 1 => if tail.getD (pos + 1) 0 = 32 then some (pos + 1) else scanBlank tail pos

/-- returns (rest of the line to the left of the blank, the field) -/
def parseOffNonBlankField (tail : Bytes) : Res (Bytes × Bytes) :=
  if tail.length < 1 then Res.err "empty"
  else
    match scanBlank tail (tail.length - 1) with
    | none => Res.err "parse"                 -- `!found` (pos = 0, right = tail[1:])
    | some pos =>
      let right := tail.drop (pos + 1)
      if right.length = 0 then Res.err "parse"
      else .ok (tail.take pos, right)

/-! ### strconv.ParseInt(str, 10, 64) -/

def isDigit (c : Nat) : Bool := 48 ≤ c && c ≤ 57

/-- the accumulation `n = n*10 + d` of ParseUint, most significant digit first -/
def digitsVal : Bytes → Nat → Nat
  | [], acc => acc
  | c :: cs, acc => digitsVal cs (acc * 10 + (c - 48))

/-- `strconv.ParseInt(s, 10, 64)`: `none` = any error (ErrSyntax: empty, a sign alone, a byte
    that is not a decimal digit -- with an explicit base an underscore is not accepted --;
    ErrRange: value outside [-2^63, 2^63-1]).  Accepted: an optional `+` or `-`, then one or
    more digits; leading zeros and `-0` are fine. -/
def parseInt64 (s : Bytes) : Option Int :=
  match s with
  | [] => none
  | c :: rest =>
    let neg := c == 45
    let body := if c == 43 || c == 45 then rest else s
    if body.isEmpty then none
    else if body.all isDigit then
      let un := digitsVal body 0
      if neg then (if un ≤ 2 ^ 63 then some (-(un : Int)) else none)
      else (if un < 2 ^ 63 then some (un : Int) else none)
    else none

def parseOffTimestamp (tail : Bytes) : Res (Int × Bytes) :=
  match parseOffNonBlankField tail with
  | .error e => .error e
  | .ok (tail', str) =>
    match parseInt64 str with
    | none => Res.err "timestamp"
    | some ts => .ok (ts, tail')

/-! ### hex.DecodeString -/

def hexNib (c : Nat) : Option Nat :=
  if 48 ≤ c ∧ c ≤ 57 then some (c - 48)
  else if 97 ≤ c ∧ c ≤ 102 then some (c - 87)
  else if 65 ≤ c ∧ c ≤ 70 then some (c - 55)
  else none

/-- `hex.DecodeString`: pairs of hex digits (either case); `none` = any error
    (InvalidByteError, or ErrLength for an odd number of digits) -/
def hexDecode : Bytes → Option Bytes
  | [] => some []
  | [_] => none
  | a :: b :: rest =>
    match hexNib a, hexNib b with
    | some x, some y => (hexDecode rest).map (fun r => (x * 16 + y) :: r)
    | _, _ => none

def parseOffMd5 (tail : Bytes) : Res (Bytes × Bytes) :=
  match parseOffNonBlankField tail with
  | .error e => .error e
  | .ok (tail', str) =>
    match hexDecode str with
    | none => Res.err "md5"
    | some bs => .ok (bs, tail')

/-- `copy(entry.MD5[:], md5)` into the zero array: the first 16 bytes, zero-filled -/
def copyMd5 (bs : Bytes) : Bytes := bs.take 16 ++ List.replicate (16 - bs.length) 0

/-! ### GetAtomFileInfo -/

def arrow : Bytes := b!" -> "

/-- body of the line loop -/
def parseLine (line : Bytes) : Res FileInfo :=
  if line.length < 4 then Res.panic          -- typeInd := line[:4]
  else
    let typeInd := line.take 4
    let tail := line.drop 4
    if typeInd = b!"dir " then
      .ok { type := FileType_dir, name := tail }
    else if typeInd = b!"obj " then
      match parseOffTimestamp tail with
      | .error e => .error e
      | .ok (ts, tail) =>
        match parseOffMd5 tail with
        | .error e => .error e
        | .ok (md5, tail) =>
          .ok { type := FileType_file, unixTime := ts, md5 := copyMd5 md5, name := tail }
    else if typeInd = b!"sym " then
      match parseOffTimestamp tail with
      | .error e => .error e
      | .ok (ts, tail) =>
        match indexOf tail arrow with          -- strings.Index(tail, " -> ")
        | none => Res.err "arrow"
        | some pos => .ok { type := FileType_symlink, unixTime := ts, name := tail.take pos }
    else Res.err "type"

/-- the line loop: the first line that fails ends the call -/
def parseLines : List Bytes → Res (List FileInfo)
  | [] => .ok []
  | l :: ls =>
    match parseLine l with
    | .error e => .error e
    | .ok fi =>
      match parseLines ls with
      | .error e => .error e
      | .ok fis => .ok (fi :: fis)

/-- `GetAtomFileInfo` on the content of the CONTENTS file -/
def getAtomFileInfo (content : Bytes) : Res (List FileInfo) :=
  let blob := readFileLines content
  if blob.length = 0 then .ok []
  else parseLines (splitOn 10 blob)

end Lc.Contents
