/-
  Environment model: the kernel's mount table (DESIGN.md §3.2).  Trusted, validated
  against the harness's Go simulated kernel on every syscall sequence and (thorough
  tier) against the real kernel in a private mount namespace.
-/
import Lc.Base.Bytes
import Lc.Base.Path
import Lc.Model.Mountinfo
import Lc.Spec.KernelRender

namespace Lc.Kernel
open Lc

structure KMnt where
  id : Nat
  parent : Nat
  dev : Bytes
  root : Bytes
  mp : Bytes
  fstype : Bytes
  source : Bytes
  lower : Bytes := []
  upper : Bytes := []
  work : Bytes := []
  deriving Repr, DecidableEq, BEq

structure KTable where
  mnts : List KMnt := []
  nextId : Nat := 100
  nextMinor : Nat := 60
  deriving Repr, DecidableEq, BEq

def MS_REMOUNT : Nat := 32
def MS_BIND : Nat := 4096
def MS_REC : Nat := 16384
def MS_PROPAGATION : Nat := 131072 + 262144 + 524288 + 1048576
def MS_SLAVE : Nat := 524288

def hasFlag (flags f : Nat) : Bool := (flags / f) % 2 == 1

/-- `q` is `p` or lies below `p` (path-component wise); `p` is a clean absolute path -/
def pathUnder (p q : Bytes) : Bool :=
  q == p || (if p == [47] then hasPrefix q [47] else hasPrefix q (p ++ [47]))

/-- the mount that a path lookup of `path` ends in: longest mountpoint containing it,
    the last (topmost) among equals -/
def findContaining (mnts : List KMnt) (path : Bytes) : Option KMnt :=
  mnts.foldl (fun best m =>
    if pathUnder m.mp path then
      match best with
      | none => some m
      | some b => if b.mp.length ≤ m.mp.length then some m else some b
    else best) none

def topmostAt (mnts : List KMnt) (mp : Bytes) : Option KMnt :=
  mnts.reverse.find? (·.mp == mp)

/-- tail of `path` relative to `base` ("" when equal), base contains path -/
def relTail (base path : Bytes) : Bytes :=
  if base == [47] then (if path == [47] then [] else path) else path.drop base.length

def joinRoot (root tail : Bytes) : Bytes :=
  if tail.isEmpty then root else if root == [47] then tail else root ++ tail

def devOfMinor (n : Nat) : Bytes := b!"0:" ++ (toString n).toUTF8.toList.map (·.toNat)

inductive KErr where
  | einval | enoent | ebusy | enodev
  deriving Repr, DecidableEq, BEq

def KErr.str : KErr → String
  | .einval => "EINVAL" | .enoent => "ENOENT" | .ebusy => "EBUSY" | .enodev => "ENODEV"

def addMount (t : KTable) (m : KMnt) : KTable :=
  let parent := match findContaining t.mnts m.mp with
    | some p => p.id
    | none => 0
  { t with mnts := t.mnts ++ [{ m with id := t.nextId, parent := parent }], nextId := t.nextId + 1 }

/-- bind `m` (the mount containing `src`) at `tgt` -/
def bindOne (t : KTable) (m : KMnt) (src tgt : Bytes) : KTable :=
  addMount t { m with root := joinRoot m.root (relTail m.mp src), mp := tgt }

def kmount (t : KTable) (src tgt fstype : Bytes) (flags : Nat) (data : Bytes) : Except KErr KTable :=
  if hasFlag flags MS_REMOUNT || (flags / 131072) % 16 != 0 then
    -- remount / propagation change: needs a mountpoint, no structural change
    match topmostAt t.mnts tgt with
    | none => .error .einval
    | some _ => .ok t
  else if hasFlag flags MS_BIND then
    match findContaining t.mnts src with
    | none => .error .enodev
    | some m =>
      let t1 := bindOne t m src tgt
      if hasFlag flags MS_REC then
        let subs := t.mnts.filter (fun c => pathUnder src c.mp && c.mp != src)
        .ok (subs.foldl (fun acc c =>
          addMount acc { c with mp := joinRoot tgt (relTail src c.mp) }) t1)
      else .ok t1
  else if fstype == b!"overlay" then
    let o := Mountinfo.parseOverlayOpts data
    .ok (addMount { t with nextMinor := t.nextMinor + 1 }
      { id := 0, parent := 0, dev := devOfMinor t.nextMinor, root := [47], mp := tgt,
        fstype := fstype, source := src, lower := o.lower, upper := o.upper, work := o.work })
  else if fstype == b!"proc" then
    match t.mnts.find? (·.fstype == b!"proc") with
    | some p => .ok (addMount t { p with root := [47], mp := tgt, source := src })
    | none => .ok (addMount { t with nextMinor := t.nextMinor + 1 }
        { id := 0, parent := 0, dev := devOfMinor t.nextMinor, root := [47], mp := tgt,
          fstype := fstype, source := src })
  else
    .ok (addMount { t with nextMinor := t.nextMinor + 1 }
      { id := 0, parent := 0, dev := devOfMinor t.nextMinor, root := [47], mp := tgt,
        fstype := fstype, source := src })

def kumount (t : KTable) (tgt : Bytes) : Except KErr KTable :=
  match topmostAt t.mnts tgt with
  | none => .error .einval
  | some m =>
    if t.mnts.any (·.parent == m.id) then .error .ebusy
    else .ok { t with mnts := t.mnts.filter (·.id != m.id) }

/-! ### what /proc/self/mountinfo shows and what ProbeMounts makes of it -/

def natBytes (n : Nat) : Bytes := (toString n).toUTF8.toList.map (·.toNat)

def toSpec (m : KMnt) : Spec.KMount :=
  { id := natBytes m.id, parent := natBytes m.parent, dev := m.dev, root := m.root, mp := m.mp,
    opts := b!"rw", optional := [], fstype := m.fstype, source := m.source,
    super := if m.fstype == b!"overlay" then
        [⟨b!"rw", none⟩, ⟨b!"lowerdir", some m.lower⟩, ⟨b!"upperdir", some m.upper⟩,
         ⟨b!"workdir", some m.work⟩]
      else [⟨b!"rw", none⟩] }

def render (t : KTable) : Bytes := Spec.render (t.mnts.map toSpec)

/-- the table as layercake sees it -/
def probe (t : KTable) : Res Mountinfo.Mounts := Mountinfo.probeMounts (render t)

end Lc.Kernel
