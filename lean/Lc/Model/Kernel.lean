/-
  Environment model: the kernel's mount table (DESIGN.md §3.2).  Trusted, validated
  against the harness's Go simulated kernel on every syscall sequence and (thorough
  tier) against the real kernel in a private mount namespace.
-/
import Lc.Base.Bytes
import Lc.Base.Path
import Lc.Model.Mountinfo
import Lc.Spec.KernelRender

namespace Lc.Kernel
open Lc

structure KMnt where
  id : Nat
  parent : Nat
  dev : Bytes
  root : Bytes
  mp : Bytes
  fstype : Bytes
  source : Bytes
  lower : Bytes := []
  upper : Bytes := []
  work : Bytes := []
  deriving Repr, DecidableEq, BEq

structure KTable where
  mnts : List KMnt := []
  nextId : Nat := 100
  nextMinor : Nat := 60
  deriving Repr, DecidableEq, BEq

def MS_REMOUNT : Nat := 32
def MS_BIND : Nat := 4096
def MS_REC : Nat := 16384
def MS_PROPAGATION : Nat := 131072 + 262144 + 524288 + 1048576
def MS_SLAVE : Nat := 524288

def hasFlag (flags f : Nat) : Bool := (flags / f) % 2 == 1

/-- `q` is `p` or lies below `p` (path-component wise); `p` is a clean absolute path -/
def pathUnder (p q : Bytes) : Bool :=
  q == p || (if p == [47] then hasPrefix q [47] else hasPrefix q (p ++ [47]))

/-- the mount that a path lookup of `path` ends in: longest mountpoint containing it,
    the last (topmost) among equals -/
def findContaining (mnts : List KMnt) (path : Bytes) : Option KMnt :=
  mnts.foldl (fun best m =>
    if pathUnder m.mp path then
      match best with
      | none => some m
      | some b => if b.mp.length ≤ m.mp.length then some m else some b
    else best) none

def topmostAt (mnts : List KMnt) (mp : Bytes) : Option KMnt :=
  mnts.reverse.find? (·.mp == mp)

/-! ### path resolution through the mount tree

  What the kernel does when it looks a path up: it starts on the root mount and walks the
  path; whenever it stands on the root of a mount it first goes up through whatever is mounted
  on that root ("stacked"), and on the way down it enters the first mountpoint of the current
  mount that lies on the path.  A mount below a mount that was stacked later on one of its
  ancestors is never reached: it is hidden (umount(2) answers EINVAL for its mountpoint).
  `findContaining` / `topmostAt` above are the flat readings of the table ("longest mountpoint
  containing the path", "last entry with this mountpoint"); they coincide with the resolution
  on tables without hidden mounts (`Lemmas/KernelResolve.lean`) and remain what a reader of
  /proc/self/mountinfo such as layercake computes. -/

/-- `m` hangs below no other entry of the table -/
def isRootIn (mnts : List KMnt) (m : KMnt) : Bool :=
  !(mnts.any fun x => x.id == m.parent && x.id != m.id)

/-- where the walk starts: the root mount containing the path (a namespace has one root; should
    a table have several, the longest mountpoint, the last among equals) -/
def startOf (mnts : List KMnt) (p : Bytes) : Option KMnt :=
  findContaining (mnts.filter (isRootIn mnts)) p

/-- one step of the walk from mount `c` towards `p`: a mount stacked on `c`'s own root (the
    most recently attached), otherwise the child of `c` whose mountpoint comes first on the way
    to `p` (the shortest; the most recently attached among equals) -/
def stepFrom (mnts : List KMnt) (c : KMnt) (p : Bytes) : Option KMnt :=
  let kids := mnts.filter fun k => k.parent == c.id && k.id != c.id
  match (kids.filter (·.mp == c.mp)).getLast? with
  | some k => some k
  | none =>
    (kids.filter fun k => pathUnder c.mp k.mp && pathUnder k.mp p).foldl (fun best k =>
      match best with
      | none => some k
      | some b => if k.mp.length ≤ b.mp.length then some k else some b) none

/-- the walk, with fuel (every step goes to a child: `mnts.length` steps suffice on a table in
    which parents are listed before their children, `walk_fuel` in Lemmas/KernelResolve) -/
def walk (mnts : List KMnt) (p : Bytes) : Nat → KMnt → KMnt
  | 0, c => c
  | fuel + 1, c =>
    match stepFrom mnts c p with
    | none => c
    | some k => walk mnts p fuel k

/-- the mount a lookup of `p` ends in -/
def resolve (mnts : List KMnt) (p : Bytes) : Option KMnt :=
  match startOf mnts p with
  | none => none
  | some r => some (walk mnts p mnts.length r)

/-- `c` hangs (directly or further down) below the mount with id `top`; fuelled climb along
    the parent ids (`mnts.length` steps suffice when parents are listed before children) -/
def isBelow (mnts : List KMnt) (top : Nat) : Nat → KMnt → Bool
  | 0, _ => false
  | fuel + 1, c =>
    if c.id == top then false
    else if c.parent == top then true
    else match mnts.find? (fun x => x.id == c.parent && x.id != c.id) with
      | some x => isBelow mnts top fuel x
      | none => false

/-- the mount whose root a lookup of `mp` ends on: `mp` is a mountpoint and can be reached -/
def mountedAt (mnts : List KMnt) (mp : Bytes) : Option KMnt :=
  match resolve mnts mp with
  | some m => if m.mp == mp then some m else none
  | none => none

/-- tail of `path` relative to `base` ("" when equal), base contains path -/
def relTail (base path : Bytes) : Bytes :=
  if base == [47] then (if path == [47] then [] else path) else path.drop base.length

def joinRoot (root tail : Bytes) : Bytes :=
  if tail.isEmpty then root else if root == [47] then tail else root ++ tail

def devOfMinor (n : Nat) : Bytes := b!"0:" ++ (toString n).toUTF8.toList.map (·.toNat)

inductive KErr where
  | einval | enoent | ebusy | enodev
  deriving Repr, DecidableEq, BEq

def KErr.str : KErr → String
  | .einval => "EINVAL" | .enoent => "ENOENT" | .ebusy => "EBUSY" | .enodev => "ENODEV"

def addMount (t : KTable) (m : KMnt) : KTable :=
  let parent := match resolve t.mnts m.mp with
    | some p => p.id
    | none => 0
  { t with mnts := t.mnts ++ [{ m with id := t.nextId, parent := parent }], nextId := t.nextId + 1 }

/-- bind `m` (the mount a lookup of `src` ends in) at `tgt` -/
def bindOne (t : KTable) (m : KMnt) (src tgt : Bytes) : KTable :=
  addMount t { m with root := joinRoot m.root (relTail m.mp src), mp := tgt }

def kmount (t : KTable) (src tgt fstype : Bytes) (flags : Nat) (data : Bytes) : Except KErr KTable :=
  if hasFlag flags MS_REMOUNT || (flags / 131072) % 16 != 0 then
    -- remount / propagation change: needs a (reachable) mountpoint, no structural change
    match mountedAt t.mnts tgt with
    | none => .error .einval
    | some _ => .ok t
  else if hasFlag flags MS_BIND then
    match resolve t.mnts src with
    | none => .error .enodev
    | some m =>
      let t1 := bindOne t m src tgt
      if hasFlag flags MS_REC then
        -- the mount tree below the source mount (mounts that merely lie below the source PATH
        -- but hang below another, covered mount are not part of it)
        let subs := t.mnts.filter (fun c => isBelow t.mnts m.id t.mnts.length c &&
          pathUnder src c.mp && c.mp != src)
        .ok (subs.foldl (fun acc c =>
          addMount acc { c with mp := joinRoot tgt (relTail src c.mp) }) t1)
      else .ok t1
  else if fstype == b!"overlay" then
    let o := Mountinfo.parseOverlayOpts data
    .ok (addMount { t with nextMinor := t.nextMinor + 1 }
      { id := 0, parent := 0, dev := devOfMinor t.nextMinor, root := [47], mp := tgt,
        fstype := fstype, source := src, lower := o.lower, upper := o.upper, work := o.work })
  else if fstype == b!"proc" then
    match t.mnts.find? (·.fstype == b!"proc") with
    | some p => .ok (addMount t { p with root := [47], mp := tgt, source := src })
    | none => .ok (addMount { t with nextMinor := t.nextMinor + 1 }
        { id := 0, parent := 0, dev := devOfMinor t.nextMinor, root := [47], mp := tgt,
          fstype := fstype, source := src })
  else
    .ok (addMount { t with nextMinor := t.nextMinor + 1 }
      { id := 0, parent := 0, dev := devOfMinor t.nextMinor, root := [47], mp := tgt,
        fstype := fstype, source := src })

/-- umount(2): the path must resolve to the root of a mount (EINVAL otherwise: nothing mounted
    there, or what is mounted there is hidden); EBUSY while other mounts hang below it -/
def kumount (t : KTable) (tgt : Bytes) : Except KErr KTable :=
  match mountedAt t.mnts tgt with
  | none => .error .einval
  | some m =>
    if t.mnts.any (·.parent == m.id) then .error .ebusy
    else .ok { t with mnts := t.mnts.filter (·.id != m.id) }

/-! ### what /proc/self/mountinfo shows and what ProbeMounts makes of it -/

def natBytes (n : Nat) : Bytes := (toString n).toUTF8.toList.map (·.toNat)

def toSpec (m : KMnt) : Spec.KMount :=
  { id := natBytes m.id, parent := natBytes m.parent, dev := m.dev, root := m.root, mp := m.mp,
    opts := b!"rw", optional := [], fstype := m.fstype, source := m.source,
    super := if m.fstype == b!"overlay" then
        [⟨b!"rw", none⟩, ⟨b!"lowerdir", some m.lower⟩, ⟨b!"upperdir", some m.upper⟩,
         ⟨b!"workdir", some m.work⟩]
      else [⟨b!"rw", none⟩] }

def render (t : KTable) : Bytes := Spec.render (t.mnts.map toSpec)

/-- the table as layercake sees it -/
def probe (t : KTable) : Res Mountinfo.Mounts := Mountinfo.probeMounts (render t)

end Lc.Kernel
