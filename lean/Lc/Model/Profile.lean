/-
  Model of portage/profile/read_system_set.go (ReadSystemSet, readProfileDirectory,
  readProfileFile, readParentFile) and of depend.UserEnteredDependencies.Add / Remove over
  an abstract file map, plus the specification of the @system set (PMS 5.2.6 `packages`,
  5.2.1 `parent`: parents are stacked first, in the order listed, then the directory's own
  file; `*atom` adds to the system set, `-*atom` removes an inherited entry; a set, so
  reaching a profile twice or listing an atom twice is harmless).

  Not modelled: the symlink branch of readParentFile (the harness never generates
  symlinked profile directories) and atom syntax errors (C14).  Core Lean only.
-/
import Lc.Base.Bytes
import Lc.Base.Path

namespace Lc.Profile

structure ProfDir where
  path : Bytes                      -- clean path of the directory
  packages : Option (List Bytes)    -- lines of `packages` if the file exists
  parent : Option (List Bytes)      -- lines of `parent` if the file exists

inductive PErr where
  | nodir | dup | fuel
  deriving Repr, DecidableEq

/-- `UserEnteredDependencies.Add` (after the fix: an atom string already present is
    accepted and ignored) -/
def uedAdd (atoms : List Bytes) (s : Bytes) : Except PErr (List Bytes) :=
  if atoms.contains s then .ok atoms else .ok (atoms ++ [s])

/-- the same before the fix: "duplicate entry for atom" -/
def uedAddOld (atoms : List Bytes) (s : Bytes) : Except PErr (List Bytes) :=
  if atoms.contains s then .error .dup else .ok (atoms ++ [s])

/-- `UserEnteredDependencies.Remove` together with its index map (after the fix).
    The state is the atom list; `amap[s]` is the position of `s`. -/
def uedRemove (atoms : List Bytes) (s : Bytes) : List Bytes × Bool :=
  if atoms.contains s then (atoms.erase s, true) else (atoms, false)

def STAR : Nat := 42
def MINUS : Nat := 45

/-- `readProfileFile`: `len(line) > 2 && line[0] == '*'` → `Add(line[1:])` -/
def readProfileFile (add : List Bytes → Bytes → Except PErr (List Bytes)) :
    List Bytes → List Bytes → Except PErr (List Bytes)
  | [], acc => .ok acc
  | line :: rest, acc =>
    if line.length > 2 && line.head? == some STAR then
      match add acc (line.drop 1) with
      | .error e => .error e
      | .ok acc' => readProfileFile add rest acc'
    else readProfileFile add rest acc

def findDir (fs : List ProfDir) (p : Bytes) : Option ProfDir := fs.find? (·.path == p)

/-- `readProfileDirectory` (own `packages` first, then every `parent` line, recursively).
    Go recurses without a bound; a cyclic `parent` chain overflows the stack there and
    runs out of fuel here. -/
def readDir (add : List Bytes → Bytes → Except PErr (List Bytes)) (fs : List ProfDir) :
    Nat → Bytes → List Bytes → Except PErr (List Bytes)
  | 0, _, _ => .error .fuel
  | n + 1, dir, acc =>
    match findDir fs dir with
    | none => .error .nodir
    | some d =>
      let r1 : Except PErr (List Bytes) := match d.packages with
        | none => .ok acc
        | some lines => readProfileFile add lines acc
      match r1 with
      | .error e => .error e
      | .ok acc1 =>
        match d.parent with
        | none => .ok acc1
        | some lines =>
          lines.foldlM (fun (a : List Bytes) (line : Bytes) =>
            if line.length > 0 then readDir add fs n (pathJoin2 dir line) a else .ok a) acc1

def readSystemSet (fs : List ProfDir) (start : Bytes) : Except PErr (List Bytes) :=
  readDir uedAdd fs (fs.length + 1) start []

def readSystemSetOld (fs : List ProfDir) (start : Bytes) : Except PErr (List Bytes) :=
  readDir uedAddOld fs (fs.length + 1) start []

/-! ### specification -/

def specLines (honourMinus : Bool) : List Bytes → List Bytes → List Bytes
  | [], acc => acc
  | line :: rest, acc =>
    if line.length > 2 && line.head? == some STAR then
      let a := line.drop 1
      specLines honourMinus rest (if acc.contains a then acc else acc ++ [a])
    else if honourMinus && line.length > 3 && line.head? == some MINUS && (line.drop 1).head? == some STAR then
      specLines honourMinus rest (acc.filter (· != line.drop 2))
    else specLines honourMinus rest acc

/-- parents first (in order), then the directory's own lines -/
def specDir (honourMinus : Bool) (fs : List ProfDir) : Nat → Bytes → List Bytes → Option (List Bytes)
  | 0, _, _ => none
  | n + 1, dir, acc =>
    match findDir fs dir with
    | none => none
    | some d =>
      let r1 : Option (List Bytes) := match d.parent with
        | none => some acc
        | some lines => lines.foldlM (fun (a : List Bytes) (line : Bytes) =>
            if line.length > 0 then specDir honourMinus fs n (pathJoin2 dir line) a else some a) acc
      match r1 with
      | none => none
      | some acc1 => match d.packages with
        | none => some acc1
        | some lines => some (specLines honourMinus lines acc1)

/-- the @system set as a sorted list of atom strings; `none` = broken chain -/
def specSystemSet (honourMinus : Bool) (fs : List ProfDir) (start : Bytes) : Option (List Bytes) :=
  (specDir honourMinus fs (fs.length + 1) start []).map fun l =>
    l.mergeSort (fun a b => bytesLe a b)

end Lc.Profile
