/-
  Model of the add-files line parser of stagemaker: stage/fileList.go
  (parseFields, parseLine, process*Option, parseModString, parseUid, parseDev,
  parseSource, parseAbsent), of the wildcard part of stage/addRemove.go and of the
  recipe loop of cmd/stagemaker/stagemaker.go — as the code is after the `fix:`
  commits listed in known_findings.txt.  `parseFieldsOld` keeps the unfixed
  tokenizer (index out of range on a trailing backslash) for the witness theorem.

  Strings are byte lists.  Error returns carry a class tag, never the message text.
  A Go run-time panic is `Res.panic`.  Core Lean only.
-/
import Lc.Base.Bytes
import Lc.Base.Res
import Lc.Base.Path

namespace Lc.StageLine
open Lc

/-! ### strconv -/

def isDigit (c : Nat) : Bool := 48 ≤ c && c ≤ 57
def isOctDigit (c : Nat) : Bool := 48 ≤ c && c ≤ 55

/-- value of a digit string, most significant first -/
def digitsVal (base : Nat) : Bytes → Nat → Nat
  | [], acc => acc
  | c :: cs, acc => digitsVal base cs (acc * base + (c - 48))

/-- `strconv.ParseUint(s, 10, bits)`: a non-empty string of decimal digits (no sign, no
    underscore because the base is given) whose value fits in `bits` bits. -/
def parseUint10 (bits : Nat) (s : Bytes) : Option Nat :=
  if s.isEmpty then none
  else if s.all isDigit then
    let v := digitsVal 10 s 0
    if v < 2 ^ bits then some v else none
  else none

/-- `strconv.ParseInt(s, 10, 32)` followed by the caller's `v < 0` rejection:
    optional sign, digits, magnitude below 2^31; a negative sign is only survivable
    for the value 0 (`-0`). -/
def parseNonNegInt32 (s : Bytes) : Option Nat :=
  match s with
  | [] => none
  | c :: rest =>
    let neg := c == 45
    let body := if c == 43 || c == 45 then rest else s
    if body.isEmpty then none
    else if body.all isDigit then
      let v := digitsVal 10 body 0
      if neg then (if v == 0 then some 0 else none)
      else if v < 2 ^ 31 then some v else none
    else none

/-! ### parseFields -/

/-- main loop of `parseFields`; `fixed = false` reproduces the original code:
    `if len(line) > p { c2 := line[p+1] …` (always true, so a trailing backslash
    indexes past the end), and the first byte of an unquoted field appended without
    looking at it (so a leading backslash was not an escape). Returns fields, pending field, open quote. -/
def pfLoop (fixed : Bool) : Bytes → List Bytes → Bytes → Nat → Bool → Res (List Bytes × Bytes × Nat)
  | [], fs, f, q, _ => .ok (fs, f, q)
  | c :: rest, fs, f, q, true =>
    if (c == 32 || c == 9) && q == 0 then
      pfLoop fixed rest (if f.isEmpty then fs else fs ++ [f]) [] q false
    else if c == q then pfLoop fixed rest fs f 0 true
    else if c == 92 then
      match rest with
      | [] => if fixed then Res.err "trailing-backslash" else Res.panic
      | c2 :: rest' =>
        pfLoop fixed rest' fs (if c2 == 42 then f ++ [92, 42] else f ++ [c2]) q true
    else pfLoop fixed rest fs (f ++ [c]) q true
  | c :: rest, fs, f, q, false =>
    if c != 32 && c != 9 then
      if c == 34 || c == 39 then pfLoop fixed rest fs f c true
      else if fixed then
        -- `p--`: the byte is looked at again as field content, with quote = 0
        if c == 0 then pfLoop fixed rest fs f 0 true
        else if c == 92 then
          match rest with
          | [] => Res.err "trailing-backslash"
          | c2 :: rest' =>
            pfLoop fixed rest' fs (if c2 == 42 then f ++ [92, 42] else f ++ [c2]) 0 true
        else pfLoop fixed rest fs (f ++ [c]) 0 true
      else pfLoop fixed rest fs (f ++ [c]) 0 true
    else pfLoop fixed rest fs f q false

def pfFinish : List Bytes × Bytes × Nat → Res (List Bytes)
  | (fs, f, q) =>
    if f.isEmpty then .ok fs
    else if q > 0 then Res.err "unclosed-quote"
    else .ok (fs ++ [f])

def parseFieldsGen (fixed : Bool) (line : Bytes) : Res (List Bytes) :=
  match pfLoop fixed line [] [] 0 false with
  | .ok r => pfFinish r
  | .error e => .error e

/-- the code as it is now -/
def parseFields (line : Bytes) : Res (List Bytes) := parseFieldsGen true line
/-- the code before the fix -/
def parseFieldsOld (line : Bytes) : Res (List Bytes) := parseFieldsGen false line

/-! ### value parsers -/

/-- `parseSource`: (has an unescaped asterisk in the last element) or error.
    The Go loop ranges over runes; all tests are against ASCII so a byte loop is the
    same function (continuation bytes are ≥ 0x80, invalid bytes decode to U+FFFD of
    width 1).  `i-1 != backslashPos` is "previous byte is not a backslash". -/
def psLoop : Bytes → Bool → Bool → Option Bool
  | [], wild, _ => some wild
  | c :: cs, wild, prevBs =>
    if c == 47 then (if wild then none else psLoop cs wild false)
    else if c == 92 then psLoop cs wild true
    else if c == 42 && !prevBs then psLoop cs true false
    else psLoop cs wild false

def parseSource (s : Bytes) : Res Bool :=
  if s.isEmpty then Res.err "zero-length-name"
  else match psLoop s false false with
    | some w => .ok w
    | none => Res.err "wildcard-parent"

def permBits : Nat := 0o7777

def groupMask? (c : Nat) : Option Nat :=
  if c == 117 then some 0o4700        -- u
  else if c == 103 then some 0o2070   -- g
  else if c == 111 then some 0o1007   -- o (sticky included since the o+t fix)
  else if c == 97 then some 0o7777    -- a
  else none

def settingMask? (c : Nat) : Option Nat :=
  if c == 114 then some 0o444         -- r
  else if c == 119 then some 0o222    -- w
  else if c == 120 then some 0o111    -- x
  else if c == 115 then some 0o6000   -- s
  else if c == 116 then some 0o1000   -- t
  else none

/-- state of the symbolic loop of `parseModString`; `aor` is addOrRemove: 0, 1 (+), 2 (−) -/
structure MS where
  andM : Nat
  orM : Nat
  group : Nat
  setting : Nat
  aor : Nat
  deriving Repr, DecidableEq

def modStep (st : MS) (c : Nat) : Option MS :=
  match groupMask? c with
  | some m =>
    if st.group > 0 || st.setting > 0 || st.aor != 0 then none
    else some { st with group := m }
  | none =>
    if c == 43 || c == 45 then
      if st.setting > 0 || st.aor != 0 then none
      else some { st with group := (if st.group == 0 then permBits else st.group),
                          aor := (if c == 45 then 2 else 1) }
    else match settingMask? c with
      | some m =>
        let g := if st.group == 0 then permBits else st.group
        let a := if st.aor == 0 then 1 else st.aor
        let sm := m &&& g
        if a == 1 then
          some { andM := st.andM, orM := st.orM ||| sm, group := g, setting := sm, aor := a }
        else
          some { andM := st.andM &&& (permBits ^^^ sm), orM := st.orM &&& (permBits ^^^ sm),
                 group := g, setting := sm, aor := a }
      | none =>
        if c == 44 then some { st with group := 0, setting := 0, aor := 0 }
        else none

def modLoop : Bytes → MS → Option MS
  | [], st => some st
  | c :: cs, st => match modStep st c with
    | some st' => modLoop cs st'
    | none => none

/-- `parseModString`: (andMask, orMask).  An all-octal string (the empty string
    included) goes to `strconv.ParseInt(str, 8, 32)` and the 07777 range check. -/
def parseModString (s : Bytes) : Res (Nat × Nat) :=
  if s.all isOctDigit then
    if s.isEmpty then Res.err "badmode"
    else
      let v := digitsVal 8 s 0
      if v ≤ permBits then .ok (0, v) else Res.err "badmode"
  else match modLoop s ⟨permBits, 0, 0, 0, 0⟩ with
    | some st => .ok (st.andM, st.orM)
    | none => Res.err "badmode"

/-- `parseUid`: `(v1, some v2)` for `N:N`, `(v1, none)` for `N` -/
def parseUid (s : Bytes) : Res (Nat × Option Nat) :=
  match indexByte 58 s with
  | none => match parseNonNegInt32 s with
    | some v => .ok (v, none)
    | none => Res.err "baduid"
  | some pos => match parseNonNegInt32 (s.take pos), parseNonNegInt32 (s.drop (pos + 1)) with
    | some a, some b => .ok (a, some b)
    | _, _ => Res.err "baduid"

/-- `parseDev`: devtype, major, minor, failed?  On failure Go still returns the first
    byte as devtype (named result assigned before the check) and the caller stores it. -/
def parseDev (s : Bytes) : (Nat × Nat × Nat) × Bool :=
  match s with
  | [] => ((0, 0, 0), true)
  | t :: rest =>
    if t != 99 && t != 98 then ((t, 0, 0), true)
    else match splitOn 58 rest with
      | [a, b] => match parseUint10 32 a with
        | none => ((t, 0, 0), true)
        | some mj => match parseUint10 20 b with
          | none => ((t, mj, 0), true)
          | some mn => ((t, mj, mn), false)
      | _ => ((t, 0, 0), true)

def parseAbsent (s : Bytes) : Option Bool := if s == b!"skip" then some true else none

/-! ### parseLine -/

structure Entry where
  ltype : Nat := 0
  name : Bytes := []
  source : Bytes := []
  target : Bytes := []
  gid : Nat := 0
  uid : Nat := 0
  andMask : Nat := 0
  orMask : Nat := 0
  major : Nat := 0
  minor : Nat := 0
  devtype : Nat := 0
  hasWildcard : Bool := false
  hasGid : Bool := false
  hasUid : Bool := false
  hasDev : Bool := false
  hasPerm : Bool := false
  skip : Bool := false
  deriving Repr, DecidableEq

/-- vdb.FileType_* -/
def ftNone : Nat := 0
def ftDir : Nat := 1
def ftFile : Nat := 2
def ftSymlink : Nat := 3
def ftDevice : Nat := 5

def tFile := b!"file"
def tDir := b!"dir"
def tNode := b!"node"
def tSymlink := b!"symlink"
def tTbd := b!"tbd"
def tOmit := b!"omit"

/-- `optErrorIf` -/
def forbidden (ltype : Bytes) (l : List Bytes) : Bool := l.any (· == ltype)

/-- one option; returns the new entry and an optional error class -/
def processOption (e : Entry) (ltype key val : Bytes) : Entry × Option String :=
  if key == b!"mod" then
    if forbidden ltype [tSymlink, tOmit] then (e, some "opt-forbidden")
    else if e.hasPerm then (e, some "multiple-perm")
    else match parseModString val with
      | .ok (a, o) => ({ e with andMask := a, orMask := o, hasPerm := true }, none)
      | .error _ => (e, some "badmode")
  else if key == b!"gid" || key == b!"uid" then
    if forbidden ltype [tSymlink, tOmit] then (e, some "opt-forbidden")
    else match parseUid val with
      | .ok (v1, none) =>
        if key == b!"gid" then ({ e with gid := v1, hasGid := true }, none)
        else ({ e with uid := v1, hasUid := true }, none)
      | .ok (v1, some v2) => ({ e with gid := v1, uid := v2, hasGid := true, hasUid := true }, none)
      -- on the error path Go also stores partial numbers in gid/uid; the entry is
      -- discarded by the caller once an error is logged and no later check reads them
      | .error _ => (e, some "baduid")
  else if key == b!"src" then
    if forbidden ltype [tSymlink, tOmit] then (e, some "opt-forbidden")
    else if !e.source.isEmpty || e.devtype != 0 then (e, some "dup-source")
    else if e.hasWildcard then (e, some "wildcard-with-src")
    else match parseSource val with
      | .ok w => ({ e with source := val, hasWildcard := w }, none)
      | .error (.err c) => ({ e with source := [], hasWildcard := false }, some c)
      | .error .panic => (e, some "panic")
  else if key == b!"dev" then
    if forbidden ltype [tFile, tDir, tSymlink, tOmit] then (e, some "opt-forbidden")
    else if !e.source.isEmpty || e.devtype != 0 then (e, some "dup-source")
    else
      let ((t, mj, mn), bad) := parseDev val
      ({ e with devtype := t, major := mj, minor := mn, hasDev := true },
       if bad then some "baddev" else none)
  else if key == b!"targ" then
    if forbidden ltype [tFile, tDir, tNode, tOmit] then (e, some "opt-forbidden")
    else match parseSource val with
      | .error (.err c) => (e, some c)
      | .error .panic => (e, some "panic")
      | .ok true => (e, some "target-wildcard")
      | .ok false => ({ e with target := val }, none)
  else if key == b!"absent" then
    if forbidden ltype [tOmit] then (e, some "opt-forbidden")
    else match parseAbsent val with
      | some b => ({ e with skip := b }, none)
      | none => ({ e with skip := false }, some "bad-absent")
  else (e, some "unknown-option")

def optionsLoop (ltype : Bytes) : List Bytes → Entry → List String → Entry × List String
  | [], e, errs => (e, errs)
  | str :: rest, e, errs =>
    match indexByte 61 str with
    | none => optionsLoop ltype rest e (errs ++ ["bad-option"])
    | some 0 => optionsLoop ltype rest e (errs ++ ["bad-option"])
    | some pos =>
      let (e', err) := processOption e ltype (str.take pos) (str.drop (pos + 1))
      optionsLoop ltype rest e' (match err with | some c => errs ++ [c] | none => errs)

structure LineResult where
  adding : Bool
  entry : Entry
  errors : List String
  deriving Repr, DecidableEq

/-- `parseLine` given the outcome of `parseFields` (an error there yields no fields; the
    error value itself is overwritten by the name check, as in the Go code) -/
def parseLineFields (fields : List Bytes) : LineResult :=
  let ltype := fields.getD 0 []
  let name := fields.getD 1 []
  let (adding, lt, errs0) : Bool × Nat × List String :=
    if ltype.isEmpty then (true, 0, ["no-type"])
    else if ltype == tFile then (true, ftFile, [])
    else if ltype == tDir then (true, ftDir, [])
    else if ltype == tNode then (true, ftDevice, [])
    else if ltype == tSymlink then (true, ftSymlink, [])
    else if ltype == tTbd then (true, ftNone, [])
    else if ltype == tOmit then (false, 0, [])
    else (true, 0, ["unknown-type"])
  let e0 : Entry := { ltype := lt }
  let (e1, errs1) : Entry × List String :=
    if name.length < 2 then (e0, errs0 ++ ["no-name"])
    else if name.head? != some 47 then (e0, errs0 ++ ["not-absolute"])
    -- (after the fix "add-files names are cleaned") the name is `path.Clean`ed; `/` alone is no name
    else if (pathClean name).length < 2 then (e0, errs0 ++ ["no-name"])
    else match parseSource (pathClean name) with
      | .ok w => ({ e0 with name := pathClean name, hasWildcard := w }, errs0)
      | .error (.err c) => (e0, errs0 ++ [c])
      | .error .panic => (e0, errs0 ++ ["panic"])
  let (e2, errs2) := optionsLoop ltype (fields.drop 2) e1 errs1
  ⟨adding, e2, errs2⟩

def parseLine (line : Bytes) : Res LineResult :=
  match parseFields line with
  | .ok fs => .ok (parseLineFields fs)
  | .error .panic => Res.panic
  | .error (.err _) => .ok (parseLineFields [])

/-! ### wildcard expansion (last path element; `filepath.Match` restricted to `*`,
    backslash escapes and literal bytes — the generator keeps to that subset) -/

def globMatch : Bytes → Bytes → Bool
  | [], [] => true
  | [], _ :: _ => false
  | 42 :: ps, [] => globMatch ps []
  | 42 :: ps, c :: cs => globMatch ps (c :: cs) || (c != 47 && globMatch (42 :: ps) cs)
  | 92 :: p :: ps, c :: cs => p == c && globMatch ps cs
  | _ :: _, [] => false
  | p :: ps, c :: cs => p == c && globMatch ps cs
termination_by p s => p.length + s.length

/-! ### recipe lines (cmd/stagemaker/stagemaker.go) -/

/-- `strings.TrimSpace` on ASCII input -/
def trimAscii (s : Bytes) : Bytes :=
  ((s.dropWhile isAsciiSpace).reverse.dropWhile isAsciiSpace).reverse

/-- `parseRecipeLine` (after the trim fix): keyword = first blank-separated word -/
def parseRecipeLine (line : Bytes) : Bytes × Bytes :=
  let l := trimAscii line
  let key := l.takeWhile (fun c => !isAsciiSpace c)
  (key, trimAscii (l.drop key.length))

structure Recipe where
  root : Bytes := []
  profile : Bytes := []
  atoms : Bytes := []
  atomFiles : List Bytes := []
  addFiles : List Bytes := []
  compress : Bytes := []
  nobdeps : Bool := false
  novdb : Bool := false
  emptydev : Bool := false
  errors : List (Nat × String) := []
  deriving Repr, DecidableEq

def isBlankOrComment (line : Bytes) : Bool :=
  let l := trimAscii line
  l.isEmpty || l.head? == some 35 || hasPrefix l [47, 47]

/-- the recipe loop of `main`; the initial value carries the command-line settings.
    Line numbers count every physical line. -/
def recipeLoop : List Bytes → Nat → Recipe → Recipe
  | [], _, r => r
  | line :: rest, n, r =>
    if isBlankOrComment line then recipeLoop rest (n + 1) r
    else
      let (key, value) := parseRecipeLine line
      let needsValue := [b!"root", b!"profile", b!"atoms", b!"atomsfile", b!"addfiles", b!"compress"].contains key
      let r1 : Recipe :=
        if key == b!"root" then { r with root := value }
        else if key == b!"profile" then { r with profile := value }
        else if key == b!"atoms" then { r with atoms := value ++ 32 :: r.atoms }
        else if key == b!"atomsfile" then { r with atomFiles := r.atomFiles ++ [value] }
        else if key == b!"addfiles" then { r with addFiles := r.addFiles ++ [value] }
        else if key == b!"compress" then (if r.compress.isEmpty then { r with compress := value } else r)
        else if key == b!"nobdeps" then { r with nobdeps := true }
        else if key == b!"novdb" then { r with novdb := true }
        else if key == b!"emptydev" then { r with emptydev := true }
        else { r with errors := r.errors ++ [(n, "unknown-keyword")] }
      let r2 := if needsValue && value.isEmpty then { r1 with errors := r1.errors ++ [(n, "needs-value")] } else r1
      recipeLoop rest (n + 1) r2

/-- the whole recipe step of `main`: the loop, then the `-root` / `-profile` switches (the
    settings `cmd` carried in from the command line) put back over what the recipe said -/
def recipeApply (lines : List Bytes) (cmd : Recipe) : Recipe :=
  let r := recipeLoop lines 1 cmd
  { r with root := if cmd.root.isEmpty then r.root else cmd.root,
           profile := if cmd.profile.isEmpty then r.profile else cmd.profile }

end Lc.StageLine

namespace Lc.StageLine
open Lc

/-! ### ReadUserFileList over a scratch tree of regular files and directories
    (generator subset: no src=, no symlinks or devices in the tree).  With
    `unescapeNames` the function is the documented meaning (a name without wildcard
    denotes the path with `\*` read as `*`); without it, it is the code. -/

structure Tree where
  files : List Bytes      -- stage-relative absolute names, e.g. /d/a1
  dirs : List Bytes
  deriving Repr

def Tree.all (t : Tree) : List Bytes := t.files ++ t.dirs

def unescapeStar : Bytes → Bytes
  | 92 :: 42 :: rest => 42 :: unescapeStar rest
  | c :: rest => c :: unescapeStar rest
  | [] => []

def insertSorted (x : Bytes) : List Bytes → List Bytes
  | [] => [x]
  | y :: ys => if x == y then y :: ys else if bytesLt x y then x :: y :: ys else y :: insertSorted x ys

/-- entries below a directory (any depth) -/
def below (t : Tree) (d : Bytes) : List Bytes := t.all.filter fun p => hasPrefix p (d ++ [47])

def globTree (t : Tree) (pat : Bytes) (recursive : Bool) : List Bytes :=
  let top := t.all.filter (globMatch pat)
  if recursive then top ++ (top.filter (t.dirs.contains ·)).flatMap (below t) else top

def addSingle (t : Tree) (set : List Bytes) (ltype : Nat) (name : Bytes) (skip : Bool) :
    List Bytes × Option String :=
  let isF := t.files.contains name
  let isD := t.dirs.contains name
  if isF || isD then
    if ltype == ftFile && isD then (set, some "type-mismatch")
    else (insertSorted name set, none)
  else if skip then (set, none)
  else if ltype == ftNone then (set, some "no-file-for-type")
  else if ltype == ftFile then (set, some "missing-source")
  else if ltype == ftDir then (insertSorted name set, none)
  else (set, some "unsupported-in-model")

def applyEntry (unescapeNames : Bool) (t : Tree) (set : List Bytes) (r : LineResult) :
    List Bytes × Option String :=
  let e := r.entry
  if r.adding then
    if e.hasWildcard then
      let ms := globTree t e.name (e.ltype == ftDir)
      if ms.isEmpty then (set, some "no-match")
      else (ms.foldl (fun s m => insertSorted m s) set, none)
    else addSingle t set e.ltype (if unescapeNames then unescapeStar e.name else e.name) e.skip
  else
    if e.hasWildcard then
      let ms := globTree t e.name false
      (set.filter (fun x => !ms.contains x), none)
    else
      let nm := if unescapeNames then unescapeStar e.name else e.name
      if set.contains nm then (set.filter (· != nm), none) else (set, some "not-in-list")

def userListLoop (unescapeNames : Bool) (t : Tree) : List Bytes → Nat → List Bytes → List (Nat × String) →
    Res (List Bytes × List (Nat × String))
  | [], _, set, errs => .ok (set, errs)
  | line :: rest, n, set, errs =>
    let l := trimAscii line
    if l.isEmpty || l.head? == some 35 || hasPrefix l [47, 47] then userListLoop unescapeNames t rest (n + 1) set errs
    else match parseLine l with
      | .error _ => Res.panic
      | .ok r =>
        if !r.errors.isEmpty then
          userListLoop unescapeNames t rest (n + 1) set (errs ++ r.errors.map fun c => (n, c))
        else
          let (set', err) := applyEntry unescapeNames t set r
          userListLoop unescapeNames t rest (n + 1) set'
            (match err with | some c => errs ++ [(n, c)] | none => errs)

end Lc.StageLine
