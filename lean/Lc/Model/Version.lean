/-
  Model of portage/atom/compare.go as it is (after the `fix:` commit that makes
  MakeNextVer drop an overflowing all-nines segment): makeComparable,
  padNumericSegment, incrementDecimal (with the date heuristic), MakeNextVer.
  Core Lean only.
-/
import Lc.Base.Bytes
import Lc.Base.Res

namespace Lc.Version
open Lc

/-- `isDigit` of compare.go -/
def isDigit (c : Nat) : Bool := decide (48 ≤ c) && decide (c ≤ 57)

/-- numericVersionSegmentWidth -/
def segWidth : Nat := 5

/-- `padNumericSegment`: left-pad with '0' to five characters; longer segments unchanged -/
def padNumericSegment (seg : Bytes) : Bytes :=
  List.replicate (segWidth - seg.length) 48 ++ seg

/-- what `makeComparable` appends when a digit run ends -/
def flushRun (run : Bytes) : Bytes :=
  match run with
  | [] => []
  | _ :: _ => padNumericSegment run

/-- `makeComparable`, as a left-to-right scan that carries the current digit run -/
def mcGo : Bytes → Bytes → Bytes
  | run, [] => flushRun run
  | run, c :: cs =>
    if isDigit c then mcGo (run ++ [c]) cs
    else flushRun run ++ c :: mcGo [] cs

def makeComparable (version : Bytes) : Bytes := mcGo [] version

/-! ### incrementDecimal -/

/-- little-endian increment with Go's byte arithmetic (`slice[p] + 1` wraps at 256) -/
def incRev : Bytes → Option Bytes
  | [] => none
  | d :: ds =>
    let c := (d + 1) % 256
    if c ≤ 57 then some (c :: ds) else (incRev ds).map (48 :: ·)

/-- the plain part of `incrementDecimal` (no date heuristic): result, overflow -/
def incPlain (val : Bytes) : Bytes × Bool :=
  match incRev val.reverse with
  | some r => (r.reverse, false)
  | none => (val, true)

def bytesGt (a b : Bytes) : Bool := bytesLt b a

/-- `incrementDecimal`; the recursive calls are on strings of length 2 and 4 and
    therefore never take the date branch again -/
def incrementDecimal (val : Bytes) : Bytes × Bool :=
  if val.length == 8 then
    let yr := val.take 4
    let mo := (val.drop 4).take 2
    let dy := val.drop 6
    if bytesGt yr b!"0000" && bytesLt yr b!"2100" && bytesGt mo b!"00" && bytesLt mo b!"13"
        && bytesGt dy b!"00" && bytesLt dy b!"32" then
      let dy1 := (incPlain dy).1
      if bytesGt dy1 b!"31" then
        let mo1 := (incPlain mo).1
        if bytesGt mo1 b!"12" then
          (((incPlain yr).1 ++ b!"01") ++ b!"01", false)
        else ((yr ++ mo1) ++ b!"01", false)
      else ((yr ++ mo) ++ dy1, false)
    else incPlain val
  else incPlain val

/-! ### MakeNextVer -/

def isDotDash (c : Nat) : Bool := c == 46 || c == 45

/-- `strings.TrimRight(version, ".-")` -/
def trimRightDotDash (v : Bytes) : Bytes := (v.reverse.dropWhile isDotDash).reverse

def maxAlphaVersion : Bytes := b!"zzzzz"

inductive Step where
  | done (r : Bytes)
  | again (v : Bytes)
  deriving Repr

/-- the inner loop of MakeNextVer on the reversed string (head = last character);
    `numZ` = numStrippedZs -/
def stripZs : Bytes → Nat → Step
  | [], numZ => .done (List.replicate (numZ + 1) 122)   -- not reachable from nextStep
  | c :: rest, numZ =>
    if c == 45 || c == 95 || c == 46 then .again rest.reverse
    else if c < 122 then .done (rest.reverse ++ [(if c == 90 then 96 else c) + 1])
    else match rest with
      | [] => .done (List.replicate (numZ + 1) 122)
      | d :: _ =>
        if isDigit d then .done (rest.reverse ++ List.replicate (numZ + 1) 122)
        else stripZs rest (numZ + 1)

/-- one pass of the `versionSegmentLoop` -/
def nextStep (v0 : Bytes) : Step :=
  let r := v0.reverse.dropWhile isDotDash
  match r with
  | [] => .done maxAlphaVersion
  | c :: rest =>
    if isDigit c then
      let run := (c :: rest).takeWhile isDigit
      let pre := (c :: rest).dropWhile isDigit
      match incrementDecimal run.reverse with
      | (_, true) => .again pre.reverse
      | (val, false) => .done (pre.reverse ++ val)
    else stripZs (c :: rest) 0

def makeNextVerFuel : Nat → Bytes → Option Bytes
  | 0, _ => none
  | n + 1, v =>
    match nextStep v with
    | .done r => some r
    | .again v' => makeNextVerFuel n v'

/-- `MakeNextVer`; `none` = the loop did not finish within `len+1` passes (never
    happens, see `Lc.Props.C13.makeNextVer_terminates`) -/
def makeNextVer (v : Bytes) : Option Bytes := makeNextVerFuel (v.length + 1) v

end Lc.Version
