/-
  Model of the stage-set resolver (property C05), statement by statement:

    portage/atom/atom.go        AtomSet.Add / GetByName / SortedAtoms
    portage/vdb/get_list.go     GetInstalledPackageList  (one Add per directory entry, in
                                enumeration order — the order is an INPUT of the model)
    portage/vdb/solution.go     ResolveUserDeps, findDependencies, ResolveAtom,
                                ResolveEach, ResolveSomeOf  (Added / Blocked marks)
    portage/depend/resolver.go  Resolver.Resolve over the group kinds

  Atom *matching* (version / slot / USE-dependency comparison) is property C13 and is not
  modelled here: every atom occurrence carries an index into a precomputed match relation
  `rel` (the harness fills it by calling the real `DependAtom.FilterAtoms` on every
  (atom occurrence, installed package) pair with the owning package's USE map).
  Dependency strings arrive as parsed trees (parsing is C14).

  `findDependencies` recurses through `ResolveEach` without a syntactic bound; the model
  takes fuel and `Lc.Props.C05.resolve_terminates` shows that
  `number of installed packages + 1` always suffices (dependency cycles included).
  Core Lean only.
-/
import Lc.Base.Bytes

namespace Lc.Resolve

abbrev Flag := Bytes

/-- `ConditionalPackageDependency.Type` (Pkg_dep_all … Pkg_dep_when_use_unset) -/
inductive Kind where
  | all | anyOf | exactlyOne | atMostOne
  | useSet (f : Flag) | useUnset (f : Flag)
  deriving Repr, DecidableEq

/-- one occurrence of a `DependAtom` in a dependency tree or in the requested list -/
structure DAtom where
  id : Nat          -- occurrence id = row of the match relation
  name : Bytes      -- `PackageName()` = category/name
  blocker : Bool
  deriving Repr, DecidableEq

mutual
inductive Dep where
  | atom (a : DAtom)
  | group (k : Kind) (ds : DepList)
inductive DepList where
  | nil
  | cons (d : Dep) (ds : DepList)
end

def DepList.append : DepList → DepList → DepList
  | .nil, e => e
  | .cons d ds, e => .cons d (ds.append e)

def DepList.isNil : DepList → Bool
  | .nil => true
  | .cons _ _ => false

def DepList.length : DepList → Nat
  | .nil => 0
  | .cons _ ds => ds.length + 1

def DepList.ofList : List Dep → DepList
  | [] => .nil
  | d :: ds => .cons d (DepList.ofList ds)

/-- an installed package (`vdb.AvailableVersion`): identity, grouping key, the flags that
    are true in `GetUseFlagMap()`, and the four dependency files (absent file = `nil`) -/
structure Pkg where
  id : Nat
  name : Bytes       -- category/name
  slot : Bytes       -- `GetGroupingKey(GroupBySlot)` = comparable slot string
  use : List Flag
  bdepend : DepList
  depend : DepList
  rdepend : DepList
  pdepend : DepList

/-! ### AtomSet (portage/atom/atom.go) -/

/-- The scan loop of `AtomSet.Add` (after the fix): `none` = an entry with the same key
    exists (`return`), `some pos` = `insertPos` (`none` for −1). -/
def scanPos (key : Bytes) : List Pkg → Nat → Option Nat → Option (Option Nat)
  | [], _, pos => some pos
  | x :: rest, i, pos =>
    if x.slot == key then none
    else scanPos key rest (i + 1) (if bytesLt x.slot key && pos.isNone then some i else pos)

/-- the same loop before the fix (`insertPos = i` on every smaller key, i.e. the LAST one) -/
def scanPosOld (key : Bytes) : List Pkg → Nat → Option Nat → Option (Option Nat)
  | [], _, pos => some pos
  | x :: rest, i, pos =>
    if x.slot == key then none
    else scanPosOld key rest (i + 1) (if bytesLt x.slot key then some i else pos)

/-- `append; copy(slice[p+1:], slice[p:]); slice[p] = entry` -/
def placeAt (l : List Pkg) (e : Pkg) : Option Nat → List Pkg
  | none => l ++ [e]
  | some p => l.take p ++ e :: l.drop p

def addSlice (l : List Pkg) (e : Pkg) : List Pkg :=
  match scanPos e.slot l 0 none with
  | none => l
  | some pos => placeAt l e pos

def addSliceOld (l : List Pkg) (e : Pkg) : List Pkg :=
  match scanPosOld e.slot l 0 none with
  | none => l
  | some pos => placeAt l e pos

/-- `AtomSet.Atoms` as an association list (Go: a map; its iteration order is never used
    except through `SortedAtoms`, which sorts the names) -/
abbrev AtomSet := List (Bytes × List Pkg)

def AtomSet.addWith (f : List Pkg → Pkg → List Pkg) : AtomSet → Pkg → AtomSet
  | [], e => [(e.name, f [] e)]
  | (n, sl) :: rest, e =>
    if n == e.name then (n, f sl e) :: rest else (n, sl) :: AtomSet.addWith f rest e

def AtomSet.add (s : AtomSet) (e : Pkg) : AtomSet := AtomSet.addWith addSlice s e

/-- `GetByName` -/
def AtomSet.get : AtomSet → Bytes → List Pkg
  | [], _ => []
  | (n, sl) :: rest, name => if n == name then sl else AtomSet.get rest name

/-- `SortedAtoms`: names ascending, each slice back to front -/
def AtomSet.sortedAtoms (s : AtomSet) : List Pkg :=
  let names := (s.map (·.1)).mergeSort (fun a b => bytesLe a b)
  names.flatMap fun n => (AtomSet.get s n).reverse

/-- `GetInstalledPackageList`: one `Add` per package in enumeration order -/
def installedOf (enum : List Pkg) : AtomSet := enum.foldl AtomSet.add []

/-! ### the resolver -/

structure Db where
  installed : AtomSet
  rel : List (List Nat)       -- rel[atom occurrence id] = ids of the packages it matches
  includeBdepend : Bool

def Db.matches (db : Db) (aid pid : Nat) : Bool := (db.rel.getD aid []).contains pid

/-- `Installed.GetByName(dep.PackageName())` then `dep.FilterAtoms(candidates, use)` -/
def candidates (db : Db) (a : DAtom) : List Pkg :=
  (AtomSet.get db.installed a.name).filter fun p => db.matches a.id p.id

/-- the `Added` / `Blocked` marks of all `AvailableVersion`s and `Solution.Resolution` -/
structure St where
  added : List Nat
  blocked : List Nat
  res : AtomSet

def St.init : St := ⟨[], [], []⟩

inductive Err where
  | unsat      -- "could not resolve … dependency of …" / "cannot resolve dependency …"
  | blocked    -- "… blocks package: …" / "blocked package: …"
  | fuel       -- model artefact: ran out of fuel (never happens, see resolve_terminates)
  deriving Repr, DecidableEq

abbrev R := Except Err

/-- blocker branch of `ResolveAtom` -/
def blockLoop : List Pkg → St → R St
  | [], st => .ok st
  | c :: rest, st =>
    if st.added.contains c.id then .error .blocked
    else blockLoop rest { st with blocked := c.id :: st.blocked }

/-- `installedResolverData.ResolveAtom` -/
def resolveAtom (db : Db) (cond : Bool) (a : DAtom) (st : St) (rs : List Pkg) :
    R (St × List Pkg) :=
  let cands := candidates db a
  if a.blocker then
    match blockLoop cands st with
    | .error e => .error e
    | .ok st' => .ok (st', rs)
  else if cands.isEmpty then
    if !cond then .error .unsat else .ok (st, rs)
  else .ok (st, rs ++ cands)

/-- the loop over `data.resolved` at the end of `ResolveEach`; `recur` is
    `findDependencies` -/
def postLoop (recur : Pkg → St → R St) (cond : Bool) : List Pkg → St → R St
  | [], st => .ok st
  | ia :: rest, st =>
    if st.blocked.contains ia.id then .error .blocked
    else if st.added.contains ia.id || cond then postLoop recur cond rest st
    else
      match recur ia { st with added := ia.id :: st.added, res := st.res.add ia } with
      | .error e => .error e
      | .ok st2 => postLoop recur cond rest st2

/-- `minNeeded, maxNeeded` of `Resolver.Resolve` for the three choice kinds -/
def needs (k : Kind) (n : Nat) : Nat × Nat :=
  match k with
  | .exactlyOne => (1, 1)
  | .atMostOne => (0, 1)
  | _ => (1, n)

mutual
/-- `Resolver.Resolve(dep)`: the loop over `dep.Dependencies()`; `rs` is `data.resolved`,
    `cond` is `data.conditionalAtomMode`, `use` is `ParentUseFlags()` -/
def resolveKids (db : Db) (recur : Pkg → St → R St) (use : List Flag) (cond : Bool) :
    DepList → St → List Pkg → R (St × List Pkg)
  | .nil, st, rs => .ok (st, rs)
  | .cons d ds, st, rs =>
    match resolveDep db recur use cond d st rs with
    | .error e => .error e
    | .ok (st1, rs1) => resolveKids db recur use cond ds st1 rs1
/-- one iteration of that loop (the `switch dt`) -/
def resolveDep (db : Db) (recur : Pkg → St → R St) (use : List Flag) (cond : Bool) :
    Dep → St → List Pkg → R (St × List Pkg)
  | .atom a, st, rs => resolveAtom db cond a st rs
  | .group k ds, st, rs =>
    match k with
    | .all =>
      -- ResolveEach(res, dep): Resolve into the SAME data, then the loop over all of it
      match resolveKids db recur use cond ds st rs with
      | .error e => .error e
      | .ok (st1, rs1) =>
        match postLoop recur cond rs1 st1 with
        | .error e => .error e
        | .ok st2 => .ok (st2, rs1)
    | .useSet f =>
      if use.contains f then resolveKids db recur use cond ds st rs else .ok (st, rs)
    | .useUnset f =>
      if !use.contains f then resolveKids db recur use cond ds st rs else .ok (st, rs)
    | k =>
      -- ResolveSomeOf: sub-resolver in conditional mode with an empty `resolved`
      match resolveKids db recur use true ds st [] with
      | .error e => .error e
      | .ok (st1, sub) =>
        let (minNeeded, maxNeeded) := needs k ds.length
        if sub.length < minNeeded then .error .unsat
        else .ok (st1, rs ++ sub.take maxNeeded)
end

/-- `Resolver.ResolveDependencies(deps)` on a fresh resolver:
    `ResolveEach(all-of deps)` with empty `resolved`, not conditional -/
def resolveTop (db : Db) (recur : Pkg → St → R St) (use : List Flag) (ds : DepList)
    (st : St) : R St :=
  match resolveKids db recur use false ds st [] with
  | .error e => .error e
  | .ok (st1, rs) => postLoop recur false rs st1

/-- the dependency classes `findDependencies` reads, in its order -/
def depsOf (db : Db) (p : Pkg) : DepList :=
  if db.includeBdepend then
    p.bdepend.append (p.depend.append (p.rdepend.append p.pdepend))
  else p.rdepend.append p.pdepend

/-- `Solution.findDependencies` -/
def findDeps (db : Db) : Nat → Pkg → St → R St
  | 0, _, _ => .error .fuel
  | n + 1, p, st =>
    if (depsOf db p).isNil then .ok st
    else resolveTop db (findDeps db n) p.use (depsOf db p) st

def atomsToDeps : List DAtom → DepList
  | [] => .nil
  | a :: as => .cons (.atom a) (atomsToDeps as)

/-- `Solution.ResolveUserDeps`: blockers first, then the wanted atoms, resolved in the
    context of the pseudo package "requested" (no USE flags) -/
def resolveUserDeps (db : Db) (fuel : Nat) (req : List DAtom) : R St :=
  let blockers := req.filter (·.blocker)
  let wanted := req.filter (!·.blocker)
  resolveTop db (findDeps db fuel) [] (atomsToDeps (blockers ++ wanted)) St.init

/-- number of installed entries (`AvailableVersion`s reachable through `Installed`) -/
def AtomSet.size (s : AtomSet) : Nat := (s.map (·.2.length)).sum

def allPkgs (s : AtomSet) : List Pkg := s.flatMap (·.2)

/-- the fuel the driver uses -/
def defaultFuel (db : Db) : Nat := (allPkgs db.installed).length + 1

/-- `generateStageSet`: resolve, then `Resolution.SortedAtoms()` -/
def stageSet (db : Db) (req : List DAtom) : R (List Pkg) :=
  match resolveUserDeps db (defaultFuel db) req with
  | .error e => .error e
  | .ok st => .ok st.res.sortedAtoms

end Lc.Resolve
