/-
  Model of fs/mounts.go: ProbeMounts, unescape, GetMount, GetMountSources,
  MountSourceIsExpected, GetOverlayLowerdirs, GetMountAndSubmounts.
-/
import Lc.Base.Bytes
import Lc.Base.Res
import Lc.Base.Path

namespace Lc.Mountinfo
open Lc

def isOct (c : Nat) : Bool := 48 ≤ c && c < 56

/-- fs.unescape (after `fix: decode three-digit octal escapes`): `\ooo` with
    `ooo` ≤ 377 becomes one byte; any other backslash is kept. -/
def unescape : Bytes → Bytes
  | [] => []
  | x :: a :: b :: c :: rest' =>
    if x = 92 && 48 ≤ a && a < 52 && isOct b && isOct c then
      ((a - 48) * 64 + (b - 48) * 8 + (c - 48)) :: unescape rest'
    else x :: unescape (a :: b :: c :: rest')
  | x :: rest => x :: unescape rest

structure MountType where
  source : Bytes
  mountpoint : Bytes
  source2 : Bytes
  workdir : Bytes
  fstype : Bytes
  options : Bytes
  inShadow : Bool
  stDev : Bytes
  root : Bytes
  id : Bytes := []        -- mount ID and parent ID as listed ("" if unknown)
  parent : Bytes := []
  deriving Repr, DecidableEq, BEq

/-- `roots`: mountpoints showing the root of the file system; `subroots`: (root, mountpoint)
    of the mounts showing part of it (a bind-mounted subdirectory, a subvolume) -/
structure Device where
  stDev : Bytes
  name : Bytes
  roots : List Bytes
  subroots : List (Bytes × Bytes) := []
  deriving Repr, DecidableEq, BEq

structure Mounts where
  list : List MountType := []
  devices : List Device := []
  deriving Repr, DecidableEq, BEq

structure PState where
  m : Mounts := {}
  shadow : List Bytes := []     -- shadowing_parents (set of mount ids)
  deriving Repr

def shadowingFsTypes : List Bytes := [b!"devtmpfs", b!"sysfs"]

/-- position (≥ start) of the first "-" segment -/
def findDash : List Bytes → Nat → Option Nat
  | [], _ => none
  | s :: rest, i => if s = [45] then some i else findDash rest (i + 1)

structure OvlOpts where
  lower : Bytes := []
  upper : Bytes := []
  work : Bytes := []

def ovlStep (o : OvlOpts) (part : Bytes) : OvlOpts :=
  match splitN2 61 part with
  | [k, v] =>
    if k = b!"lowerdir" then { o with lower := unescape v }
    else if k = b!"upperdir" then { o with upper := unescape v }
    else if k = b!"workdir" then { o with work := unescape v }
    else o
  | _ => o

def parseOverlayOpts (superOpts : Bytes) : OvlOpts :=
  (splitOn 44 superOpts).foldl ovlStep {}

def addDevice (devs : List Device) (stDev fsname root mtpoint : Bytes) : List Device :=
  let devs' := if devs.any (·.stDev == stDev) then devs else devs ++ [⟨stDev, fsname, [], []⟩]
  if root = [47] then
    devs'.map fun d => if d.stDev == stDev then { d with roots := d.roots ++ [mtpoint] } else d
  else
    devs'.map fun d => if d.stDev == stDev then { d with subroots := d.subroots ++ [(root, mtpoint)] } else d

/-- one line of mountinfo; `none`-like skip is `ok st` unchanged; index errors panic -/
def probeLine (st : PState) (line : Bytes) : Res PState :=
  let segs := splitOn 32 line
  if segs.length < 10 then .ok st else
  let mountID := segs.getD 0 []
  let parentID := segs.getD 1 []
  let stDev := segs.getD 2 []
  let root := unescape (segs.getD 3 [])
  let mtpoint := unescape (segs.getD 4 [])
  let options := segs.getD 5 []
  match findDash (segs.drop 6) 6 with
  | none => Res.panic
  | some i =>
    match segs[i + 1]?, segs[i + 2]? with
    | some fstype, some fsnameRaw =>
      let fsname := unescape fsnameRaw
      let isShadowing := shadowingFsTypes.contains fstype
      let parentShadow := st.shadow.contains parentID
      let shadow' := if isShadowing || parentShadow then mountID :: st.shadow else st.shadow
      let inShadow := !isShadowing && parentShadow
      let mk (o : OvlOpts) : PState :=
        { m := { list := st.m.list ++ [⟨o.lower, mtpoint, o.upper, o.work, fstype, options,
                                         inShadow, stDev, root, mountID, parentID⟩],
                 devices := addDevice st.m.devices stDev fsname root mtpoint },
          shadow := shadow' }
      if fstype = b!"overlay" then
        match segs[i + 3]? with
        | none => Res.panic
        | some so => .ok (mk (parseOverlayOpts so))
      else .ok (mk {})
    | _, _ => Res.panic

def probeLines : PState → List Bytes → Res PState
  | st, [] => .ok st
  | st, l :: ls => match probeLine st l with
    | .ok st' => probeLines st' ls
    | .error e => .error e

/-- bufio.ScanLines: split at '\n', drop one trailing '\r' per line, no final empty line -/
def dropCR (l : Bytes) : Bytes :=
  match l.reverse with
  | 13 :: r => r.reverse
  | _ => l

def scanLines (text : Bytes) : List Bytes :=
  let parts := splitOn 10 text
  let parts := match parts.reverse with
    | [] :: r => r.reverse
    | _ => parts
  parts.map dropCR

def probeMounts (text : Bytes) : Res Mounts :=
  (probeLines {} (scanLines text)).map (·.m)

/-- m.mounts[path]: the map is overwritten, so the *last* mount with that mountpoint -/
def getMount (m : Mounts) (path : Bytes) : Option MountType :=
  (m.list.reverse.find? (·.mountpoint == path))

def getDevice (m : Mounts) (stDev : Bytes) : Option Device :=
  m.devices.find? (·.stDev == stDev)

def getMountSources (m : Mounts) (mnt : MountType) : Res (List Bytes) :=
  match getDevice m mnt.stDev with
  | none => Res.panic     -- nil dereference in Go; unreachable for mounts taken from `m`
  | some dev =>
    -- (after fix 23c682d) the overlay lower directory, the device name for a mount of the
    -- file system's root, the mounted directory as seen through every root mount and through
    -- every mount of a directory that is the mounted one or above it
    .ok ((if mnt.source.length > 0 then [mnt.source] else [])
      ++ (if mnt.root = [47] then [dev.name] else [])
      ++ (dev.roots.map (fun mp => pathJoin [mp, mnt.root])).filter (· != mnt.mountpoint)
      ++ ((dev.subroots.filter fun s => mnt.root == s.1 || hasPrefix mnt.root (s.1 ++ [47])).map
            (fun s => pathJoin [s.2, mnt.root.drop s.1.length])).filter (· != mnt.mountpoint))

def mountSourceIsExpected (m : Mounts) (mnt : MountType) (test : Bytes) : Res Bool :=
  (getMountSources m mnt).map (·.contains test)

/-! ### GetMountAndSubmounts (after fix e546b99): along the mount tree when a mount is covered -/

/-- `MountType.covers`: `a` and `b` hang below the same mount and `b`'s mountpoint lies below
    `a`'s; then `a` was mounted after `b`, over the directory that holds `b`'s mountpoint -/
def covers (a b : MountType) : Bool :=
  a.id.length > 0 && a.id != b.id && a.parent.length > 0 && a.parent == b.parent &&
    hasPrefix b.mountpoint (a.mountpoint ++ [47])

/-- `mountList.hasCoveredMount` -/
def hasCoveredMount (l : List MountType) : Bool := l.any fun a => l.any fun b => covers a b

/-- one round of `inTreeOrder`'s loop, first half: the level of `m` in the mount tree and the
    place after the mount it hangs below (the first placed mount with that id) and everything
    already placed below that: `(level, front, back)`, `m` goes between `front` and `back` -/
def placeBelow (out : List (MountType × Nat)) (m : MountType) :
    Nat × List (MountType × Nat) × List (MountType × Nat) :=
  match out.dropWhile (fun (p : MountType × Nat) => !(p.1.id == m.parent)) with
  | par :: after =>
    (par.2 + 1,
     out.takeWhile (fun (p : MountType × Nat) => !(p.1.id == m.parent)) ++
       par :: after.takeWhile (fun (q : MountType × Nat) => decide (q.2 > par.2)),
     after.dropWhile (fun (q : MountType × Nat) => decide (q.2 > par.2)))
  | [] => (0, out, [])

/-- … second half: in front of the first placed mount that covers it, if there is one -/
def insertTree (out : List (MountType × Nat)) (m : MountType) : List (MountType × Nat) :=
  match out.dropWhile (fun (a : MountType × Nat) => !(covers a.1 m)) with
  | a :: back =>
    out.takeWhile (fun (a : MountType × Nat) => !(covers a.1 m)) ++ (m, (placeBelow out m).1) :: a :: back
  | [] => (placeBelow out m).2.1 ++ (m, (placeBelow out m).1) :: (placeBelow out m).2.2

/-- `mountList.inTreeOrder` -/
def inTreeOrder (l : List MountType) : List MountType := (l.foldl insertTree []).map (·.1)

def overlayLowerdirs (m : Mounts) : List Bytes :=
  (m.list.filter (·.fstype == b!"overlay")).map (·.source)

end Lc.Mountinfo
