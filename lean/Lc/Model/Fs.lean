/-
  Environment model: a file-system tree as an association list from clean absolute
  paths to nodes (DESIGN.md §3.3).  No symlinked intermediate directories.
-/
import Lc.Base.Bytes
import Lc.Base.Path

namespace Lc.Fs
open Lc

inductive Node where
  | dir
  | file (content : Bytes)
  | symlink (target : Bytes)
  deriving Repr, DecidableEq, BEq

abbrev Tree := List (Bytes × Node)

def get (fs : Tree) (p : Bytes) : Option Node :=
  match fs.find? (·.1 == p) with
  | some e => some e.2
  | none => none

def set (fs : Tree) (p : Bytes) (n : Node) : Tree :=
  if fs.any (·.1 == p) then fs.map (fun e => if e.1 == p then (p, n) else e)
  else fs ++ [(p, n)]

def under (p q : Bytes) : Bool :=
  q == p || (if p == [47] then hasPrefix q [47] else hasPrefix q (p ++ [47]))

def removeAll (fs : Tree) (p : Bytes) : Tree := fs.filter (fun e => !under p e.1)

/-- lstat -/
def lexists (fs : Tree) (p : Bytes) : Bool := (get fs p).isSome

/-- stat: follow a symlink in the last component (fuel 8); relative targets resolve
    against the link's directory -/
def statAux : Nat → Tree → Bytes → Option Node
  | 0, _, _ => none
  | fuel + 1, fs, p =>
    match get fs p with
    | some (.symlink t) =>
      let q := if isAbs t then pathClean t else pathJoin [pathDir p, t]
      statAux fuel fs q
    | r => r

def stat (fs : Tree) (p : Bytes) : Option Node := statAux 8 fs p

def isDir (fs : Tree) (p : Bytes) : Bool := stat fs p == some .dir
def isFile (fs : Tree) (p : Bytes) : Bool :=
  match stat fs p with
  | some (.file _) => true
  | _ => false
def isSymlink (fs : Tree) (p : Bytes) : Bool :=
  match get fs p with
  | some (.symlink _) => true
  | _ => false

/-- proper ancestors of a clean absolute path, root first ("/a/b/c" ↦ ["/", "/a", "/a/b"]) -/
def ancestors (p : Bytes) : List Bytes :=
  let comps := (splitOn 47 p).filter (!·.isEmpty)
  let rec go (acc : Bytes) : List Bytes → List Bytes
    | [] => []
    | [_] => []
    | c :: rest => let a := acc ++ 47 :: c; a :: go a rest
  [47] :: go [] comps

/-- os.MkdirAll: creates missing ancestors and the directory; error if a non-directory
    is in the way -/
def mkdirAll (fs : Tree) (p : Bytes) : Except String Tree :=
  (ancestors p ++ [p]).foldlM (fun acc d =>
    match stat acc d with
    | none => if (get acc d).isSome then .error "ENOENT" else .ok (set acc d .dir)
    | some .dir => .ok acc
    | some _ => .error "ENOTDIR") fs

def parentIsDir (fs : Tree) (p : Bytes) : Bool := isDir fs (pathDir p)

def children (fs : Tree) (d : Bytes) : List Bytes :=
  (fs.filter (fun e => e.1 != d && under d e.1 && pathDir e.1 == d)).map (fun e => pathBase e.1)

/-- os.Rename of a directory tree (or file) -/
def rename (fs : Tree) (old new : Bytes) : Except String Tree :=
  match get fs old with
  | none => .error "ENOENT"
  | some n =>
    if !parentIsDir fs new then .error "ENOENT" else
    if under old new && old != new then .error "EINVAL" else
    let okTarget := match get fs new with
      | none => true
      | some .dir => false     -- Go's os.Rename refuses an existing directory (EEXIST) before calling rename(2)
      | some _ => n != .dir
    if !okTarget then .error "EEXIST" else
    let fs1 := if old == new then fs else removeAll fs new
    .ok (fs1.map fun e =>
      if e.1 == old then (new, e.2)
      else if under old e.1 then (new ++ e.1.drop old.length, e.2) else e)

/-- os.Symlink(target, linkname) -/
def symlink (fs : Tree) (target link : Bytes) : Except String Tree :=
  if lexists fs link then .error "EEXIST"
  else if !parentIsDir fs link then .error "ENOENT"
  else .ok (set fs link (.symlink target))

/-- open(O_CREATE|O_TRUNC) / WriteTextFile's open(O_CREATE) on a path -/
def openWrite (fs : Tree) (p : Bytes) (trunc : Bool) : Except String Tree :=
  match stat fs p with
  | some .dir => .error "EISDIR"
  | some (.file c) => .ok (if trunc then set fs p (.file []) else set fs p (.file c))
  | some (.symlink _) => .error "ELOOP"
  | none =>
    if (get fs p).isSome then .error "ENOENT"   -- dangling symlink: not modelled further
    else if !parentIsDir fs p then .error "ENOENT"
    else .ok (set fs p (.file []))

def appendFile (fs : Tree) (p : Bytes) (chunk : Bytes) : Tree :=
  match get fs p with
  | some (.file c) => set fs p (.file (c ++ chunk))
  | _ => fs

/-- WriteTextFile without O_TRUNC: overwrite the beginning of the file -/
def overwriteFile (fs : Tree) (p : Bytes) (data : Bytes) : Tree :=
  match get fs p with
  | some (.file c) => set fs p (.file (data ++ c.drop data.length))
  | _ => fs

def readFile (fs : Tree) (p : Bytes) : Option Bytes :=
  match stat fs p with
  | some (.file c) => some c
  | _ => none

end Lc.Fs
