/-
  C10, stagemaker half: the output of -generate / -list is a sequence of write(2) calls on
  the output file, pipe or compressor; the environment accepts at most `limit` bytes (disk
  full, file-size limit, closed pipe).  After fix 7eb4d32 every write's result is looked
  at: the first failure ends the run with an error.  `chunks` are the sizes of the writes.
-/
namespace Lc.OutFault

/-- writes in order; `none` = a write failed (the run reports failure), `some n` = all
    writes succeeded and n bytes are out -/
def emit (limit : Nat) : Nat → List Nat → Option Nat
  | written, [] => some written
  | written, c :: rest => if written + c ≤ limit then emit limit (written + c) rest else none

/-- the code before the fix: results of the writes are dropped -/
def emitUnchecked (limit : Nat) : Nat → List Nat → Option Nat
  | written, [] => some written
  | written, c :: rest => emitUnchecked limit (if written + c ≤ limit then written + c else written) rest

def total (chunks : List Nat) : Nat := chunks.foldl (· + ·) 0

end Lc.OutFault
