/-
  Model of the command-line handling of cmd/layercake/layercake.go and config/opts.go:
  Go's flag package parsing rules, the global switches that may appear anywhere, the
  per-command local switches and argument counts.
-/
import Lc.Base.Bytes

namespace Lc.Cli
open Lc

structure Switches where
  verbose : Bool := false
  pretend : Bool := false
  debug : Bool := false
  force : Bool := false
  files : Bool := false
  all : Bool := false
  configfile : Bytes := []
  help : Bool := false
  version : Bool := false
  deriving Repr, DecidableEq, BEq

inductive FlagKind where
  | bool | str
  deriving DecidableEq, BEq

/-- strconv.ParseBool -/
def parseBool (v : Bytes) : Option Bool :=
  if v == b!"1" || v == b!"t" || v == b!"T" || v == b!"TRUE" || v == b!"true" || v == b!"True" then some true
  else if v == b!"0" || v == b!"f" || v == b!"F" || v == b!"FALSE" || v == b!"false" || v == b!"False" then some false
  else none

def setBool (s : Switches) (name : Bytes) (b : Bool) : Switches :=
  if name == b!"v" then { s with verbose := b }
  else if name == b!"p" then { s with pretend := b }
  else if name == b!"debug" then { s with debug := b }
  else if name == b!"force" then { s with force := b }
  else if name == b!"files" then { s with files := b }
  else if name == b!"all" then { s with all := b }
  else if name == b!"help" || name == b!"h" then { s with help := b }
  else if name == b!"version" then { s with version := b }
  else s

def setStr (s : Switches) (name v : Bytes) : Switches :=
  if name == b!"configfile" then { s with configfile := v } else s

/-- FlagSet.Parse: consume flags from the front of `args`; `none` = parse error (usage, exit) -/
def parseFlags (known : List (Bytes × FlagKind)) : Nat → Switches → List Bytes → Option (Switches × List Bytes)
  | 0, s, args => some (s, args)
  | fuel + 1, s, args =>
    match args with
    | [] => some (s, [])
    | a :: rest =>
      if a.length < 2 || a.head? != some 45 then some (s, args) else
      let twoMinus := a[1]? == some 45
      if twoMinus && a.length == 2 then some (s, rest) else
      let name0 := a.drop (if twoMinus then 2 else 1)
      if name0.isEmpty || name0.head? == some 45 || name0.head? == some 61 then none else
      -- the '=' is searched from index 1 on
      let (name, value) := match indexByte 61 (name0.drop 1) with
        | some i => (name0.take (i + 1), some (name0.drop (i + 2)))
        | none => (name0, none)
      match known.find? (·.1 == name) with
      | none => none
      | some (_, .bool) =>
        (match value with
         | none => parseFlags known fuel (setBool s name true) rest
         | some v => match parseBool v with
           | some b => parseFlags known fuel (setBool s name b) rest
           | none => none)
      | some (_, .str) =>
        (match value with
         | some v => parseFlags known fuel (setStr s name v) rest
         | none => match rest with
           | v :: rest' => parseFlags known fuel (setStr s name v) rest'
           | [] => none)

def globalFlags : List (Bytes × FlagKind) :=
  [(b!"v", .bool), (b!"p", .bool), (b!"debug", .bool), (b!"force", .bool)]

/-- flags known to flag.CommandLine in main (config/basepath are consumed by the harness prefix) -/
def mainFlags : List (Bytes × FlagKind) :=
  [(b!"config", .str), (b!"basepath", .str), (b!"help", .bool), (b!"h", .bool), (b!"version", .bool)] ++ globalFlags

/-- CommandArgBuilder.ParseArgsSetFlags: the command word is dropped, every later
    non-flag word is a command argument, flags may stand between them -/
def parseArgsSetFlags (known : List (Bytes × FlagKind)) : Nat → Bool → Switches → List Bytes → List Bytes →
    Option (Switches × List Bytes)
  | 0, _, s, _, acc => some (s, acc)
  | fuel + 1, first, s, args, acc =>
    match args with
    | [] => some (s, acc)
    | a :: rest =>
      let acc' := if first then acc else acc ++ [a]
      match parseFlags known (rest.length + 1) s rest with
      | none => none
      | some (s', rest') => parseArgsSetFlags known fuel false s' rest' acc'

inductive Parsed where
  | exit (ok : Bool)                                   -- the process ends here (usage, help, fatal)
  | run (cmd : Bytes) (args : List Bytes) (s : Switches)
  deriving Repr, DecidableEq

def commandSpec (cmd : Bytes) : Option (List (Bytes × FlagKind) × Nat × Nat) :=
  if cmd == b!"init" then some ([], 0, 0)
  else if cmd == b!"status" then some ([], 0, 1)
  else if cmd == b!"list" then some ([], 0, 0)
  else if cmd == b!"add" then some ([(b!"configfile", .str)], 1, 2)
  else if cmd == b!"remove" then some ([(b!"files", .bool)], 1, 1)
  else if cmd == b!"rename" then some ([], 2, 2)
  else if cmd == b!"rebase" then some ([], 1, 2)
  else if cmd == b!"shell" then some ([], 1, 1)
  else if cmd == b!"mkdirs" then some ([], 1, 1)
  else if cmd == b!"mount" then some ([], 1, 1)
  else if cmd == b!"umount" || cmd == b!"unmount" then some ([(b!"all", .bool)], 0, 1)
  else if cmd == b!"chroot" then some ([], 1, 1)
  else if cmd == b!"shake" then some ([], 0, 0)
  else none

/-- main up to the call of the command function, for the argument vector after the
    program name -/
def parseMain (argv : List Bytes) : Parsed :=
  match parseFlags mainFlags (argv.length + 1) {} argv with
  | none => .exit false
  | some (s, args) =>
    if s.help then .exit true else
    if s.version then .exit true else
    let cmd := args.headD b!"status"
    match commandSpec cmd with
    | none => .exit false
    | some (locals, minN, maxN) =>
      match parseArgsSetFlags (globalFlags ++ locals) (args.length + 1) true s args [] with
      | none => .exit false
      | some (s', cargs) =>
        if cargs.length < minN || cargs.length > maxN then .exit false
        else .run cmd (cargs ++ List.replicate (maxN - cargs.length) []) s'

end Lc.Cli
