/-
  The NAME ARITHMETIC of wildcard add-files lines, WITH the tree root and the cuts:
  stage/addRemove.go (`globFiles`, `expandSubdirs`, `rootChopLength`, `removeFiles`,
  `addFromWildcard`) — as the code is after fix 35d092a (`rootChopLength` is 0 for "/").

  `Lc/Model/StageLine.lean` (`applyEntry`, `globTree`) holds stage-relative names and models
  no cut; here the tree holds HOST paths (clean, absolute, with a kind), the glob runs on
  `path.Join(rootDir, name)` (or on the `src=` pattern), every match `m` is a host path, and the
  member name is `m[choplen:]` (no `src=`) or `path.Join(prefix, m[choplen:])` (`src=`).

  The match itself is `StageLine.globMatch` on the whole path: a `*` never matches a slash and
  `parseSource` rejects an unescaped `*` before the last slash, so this is "the directory part
  literally (with `\*` read as `*`), the last element by pattern", which is what `filepath.Glob`
  does on the generator's subset.  The output is kept as a sorted set (the Go code feeds the
  matches into a map; `filepath.Glob` sorts each directory's matches, `expandSubdirs` walks
  depth-first).  The host tree is taken as a flat list: "everything below a real directory" is
  every host path with that directory as a proper ancestor (a well-formed tree has nothing
  below a symlink, so a symlink to a directory met on the way down contributes itself only, as
  `fs.IsDirNotSymlink` has it).  Core Lean only.
-/
import Lc.Model.StageLine
import Lc.Model.Fs

namespace Lc.StageGlob
open Lc Lc.StageLine

inductive Kind where
  | dir | file | symlink
  deriving DecidableEq, Repr

/-- a host tree: absolute host paths with what `lstat` says they are -/
structure HostTree where
  nodes : List (Bytes × Kind)
  deriving Repr

def HostTree.paths (t : HostTree) : List Bytes := t.nodes.map (·.1)

/-- `fs.IsDirNotSymlink` -/
def HostTree.isRealDir (t : HostTree) (p : Bytes) : Bool :=
  t.nodes.any fun n => n.1 == p && n.2 == Kind.dir

/-- `p` lies strictly below the directory `d` -/
def strictlyBelow (d p : Bytes) : Bool := p != d && Fs.under d p

/-- sorted set of byte strings -/
def toSet (l : List Bytes) : List Bytes := l.foldl (fun s m => insertSorted m s) []

/-- `(fl *FileList) rootChopLength` (after 35d092a) -/
def rootChopLength (rootDir : Bytes) : Nat :=
  if rootDir = [SLASH] then 0 else rootDir.length

/-- the same before 35d092a: `len(fl.rootDir)` -/
def rootChopLengthOld (rootDir : Bytes) : Nat := rootDir.length

/-- `filepath.Glob(pattern)` on the host tree -/
def globTop (t : HostTree) (pattern : Bytes) : List Bytes :=
  t.paths.filter (globMatch pattern)

/-- `expandSubdirs`: every match, and for a match that is a real directory everything below -/
def expandSubdirs (t : HostTree) (tops : List Bytes) : List Bytes :=
  tops.flatMap fun m => m :: (if t.isRealDir m then t.paths.filter (strictlyBelow m) else [])

/-- `globFiles(pattern, recursive)` as a sorted set of host paths -/
def globHost (t : HostTree) (pattern : Bytes) (recursive : Bool) : List Bytes :=
  toSet (if recursive then expandSubdirs t (globTop t pattern) else globTop t pattern)

/-- names a wildcard add line WITHOUT `src=` adds: `m[fl.rootChopLength():]` for every match
    of `path.Join(fl.rootDir, name)`; `recursive` is `entry.ltype == vdb.FileType_dir` -/
def wildcardNames (t : HostTree) (rootDir name : Bytes) (recursive : Bool) : List Bytes :=
  (globHost t (pathJoin [rootDir, name]) recursive).map fun m => m.drop (rootChopLength rootDir)

/-- the same with the cut as it was before 35d092a -/
def wildcardNamesOld (t : HostTree) (rootDir name : Bytes) (recursive : Bool) : List Bytes :=
  (globHost t (pathJoin [rootDir, name]) recursive).map fun m => m.drop (rootChopLengthOld rootDir)

/-- one name of a wildcard add line WITH `src=`: `path.Join(prefix, m[len(path.Dir(source)):])` -/
def srcName (pfx source m : Bytes) : Bytes := pathJoin [pfx, m.drop (pathDir source).length]

/-- a seeded variant: concatenation in place of `path.Join` -/
def srcNameConcat (pfx source m : Bytes) : Bytes := pfx ++ m.drop (pathDir source).length

/-- names a wildcard add line with `src=` adds (`source` is the resolved pattern, `pfx` the
    line's name) -/
def wildcardNamesSrc (t : HostTree) (pfx source : Bytes) (recursive : Bool) : List Bytes :=
  (globHost t source recursive).map (srcName pfx source)

def wildcardNamesSrcConcat (t : HostTree) (pfx source : Bytes) (recursive : Bool) : List Bytes :=
  (globHost t source recursive).map (srcNameConcat pfx source)

/-- names `removeFiles` deletes for a wildcard `omit` line:
    `globFiles(path.Join(treeroot, name), false)`, each cut by `fl.rootChopLength()` -/
def removeNames (t : HostTree) (rootDir name : Bytes) : List Bytes :=
  (globHost t (pathJoin [rootDir, name]) false).map fun m => m.drop (rootChopLength rootDir)

/-- the host tree of a stage-relative tree under a root: host path = `path.Join(root, name)` -/
def hostOf (rootDir : Bytes) (t : Tree) : HostTree :=
  ⟨t.files.map (fun n => (pathJoin [rootDir, n], Kind.file)) ++
   t.dirs.map (fun n => (pathJoin [rootDir, n], Kind.dir))⟩

end Lc.StageGlob
