/-
  C09 — remove without -files never destroys user data.

  Over the hand-written command model (Lc/Model/Layers.lean, `removeLayer`) and the
  file-system model (Lc/Model/Fs.lean):

  * `rename_preserves`, `rename_preserves_others`: what `os.Rename` of a tree does to the
    lookup function, for every tree and every pair of names (full generality, no bounds).
  * `remove_preserves_partial`: a layer whose probed state is not "not yet populated"
    (`S_complete`) is renamed: every entry at or below the layer directory is found with
    the same node at the same relative path below `<dir>~removed`.  Partial: restricted to
    `state ≠ S_complete`; the complementary region is where the property fails (below).
  * `removed_not_overwritten`: an existing `<dir>~removed` is never touched; the command
    fails.
  * `pristine_deleted`: in state `S_complete` the directory is deleted outright.
  * `remove_deletes_data_witness`: the negation of the property as stated, on a concrete
    world: a base layer holding `build/etc/data` but not all seven FHS directories is in
    state `S_complete`; `remove` (no `-files`) returns normally, the user file is gone and
    no `~removed` directory exists (finding remove-deletes-unpopulated-layer-with-data).

  The automatic export links (`autoExportPaths`) are removed before the directory is
  touched; whatever lies at or below those two paths is outside the statements (explicit
  hypothesis per path, no global layout assumption).
-/
import Lc.Lemmas.FsRename
import Lc.Lemmas.RemoveLayer

set_option mvcgen.warning false

namespace Lc.Props.C09
open Lc Lc.Layers Lc.Hoare Lc.FsRename Lc.RemoveLayer

/-! ### 1. `os.Rename` on the tree model -/

/-- **Rename moves the subtree, nodes unchanged.**  If `Fs.rename fs old new` succeeds,
    `old ≠ "/"`, and no entry of `fs` lies at/below both names, then for every relative
    remainder `rest` (empty, or starting with '/') the lookup of `new ++ rest` afterwards
    equals the lookup of `old ++ rest` before — in particular an entry `(old ++ rest, node)`
    is found as `(new ++ rest, node)`, and nothing else appears below `new`.  `Fs.get` is
    first-match; no uniqueness of keys is assumed. -/
theorem rename_preserves (fs fs' : Fs.Tree) (old new : Bytes)
    (h : Fs.rename fs old new = .ok fs') (hold : old ≠ [47])
    (hdisj : ∀ e ∈ fs, Fs.under new e.1 = true → Fs.under old e.1 = false)
    (rest : Bytes) (hr : rest = [] ∨ ∃ r, rest = 47 :: r) :
    Fs.get fs' (new ++ rest) = Fs.get fs (old ++ rest) :=
  rename_moves fs fs' old new h hold hdisj rest hr

/-- the same under the plainer hypothesis "nothing exists at or below `new`" -/
theorem rename_preserves_fresh (fs fs' : Fs.Tree) (old new : Bytes)
    (h : Fs.rename fs old new = .ok fs') (hold : old ≠ [47])
    (hfresh : ∀ e ∈ fs, Fs.under new e.1 = false)
    (rest : Bytes) (hr : rest = [] ∨ ∃ r, rest = 47 :: r) (node : Fs.Node)
    (hget : Fs.get fs (old ++ rest) = some node) : Fs.get fs' (new ++ rest) = some node := by
  rw [rename_preserves fs fs' old new h hold (fun e he hu => by rw [hfresh e he] at hu; cases hu)
    rest hr]
  exact hget

/-- **Rename touches nothing else**: a path neither at/below `old` nor at/below `new` has the
    same lookup before and after (no hypothesis on the tree at all). -/
theorem rename_preserves_others (fs fs' : Fs.Tree) (old new : Bytes)
    (h : Fs.rename fs old new = .ok fs') (hold : old ≠ [47]) (p : Bytes)
    (hpo : Fs.under old p = false) (hpn : Fs.under new p = false) : Fs.get fs' p = Fs.get fs p :=
  rename_keeps fs fs' old new h hold p hpo hpn

/-- a small tree: "/", "/a", "/a/f" (file), "/ab" (file: a sibling whose name extends "a") -/
def exTree : Fs.Tree :=
  [(b!"/", .dir), (b!"/a", .dir), (b!"/a/f", .file [1]), (b!"/ab", .file [2])]

/-- non-vacuity: the rename succeeds on `exTree`, the hypotheses hold, and the conclusions say
    something (file moved with content, sibling "/ab" untouched, old name gone) -/
example : ∃ fs', Fs.rename exTree b!"/a" b!"/b" = .ok fs' ∧
    (∀ e ∈ exTree, Fs.under b!"/b" e.1 = false) ∧
    Fs.get fs' b!"/b/f" = some (.file [1]) ∧ Fs.get fs' b!"/ab" = some (.file [2]) ∧
    Fs.get fs' b!"/a/f" = none :=
  ⟨_, rfl, by decide, by decide, by decide, by decide⟩

example : Fs.get exTree (b!"/a" ++ b!"/f") = some (.file [1]) ∧
    Fs.under b!"/a" b!"/ab" = false ∧ Fs.under b!"/b" b!"/ab" = false := by decide

/-! ### 2. the renaming branch of `remove` -/

/-- **remove (no -files) of a layer not in state "not yet populated" keeps every entry.**
    `removeLayer cfg d name false` started in ANY world `w0` (any tree, mount table, fault
    or crash setting) without the pretend switch, on a layer `l` with
    `l.state ≠ S_complete`: if it returns normally, every path `p` at or below the layer
    directory that is not at/below one of the two automatic export links has, below
    `<layerPath>~removed` at the same relative path, exactly the lookup it had before
    (same node: same kind, same content, same link target; absent stays absent).

    `_partial`: (1) `l.state ≠ S_complete` — for `S_complete` the statement is false, see
    `remove_deletes_data_witness`; (2) the per-path hypothesis `hexp` (true for every path
    of the layer directory whenever the export directory is not inside it); (3) the model
    has no symlinked intermediate directories and `rename(2)` is atomic in it. -/
theorem remove_preserves_partial (cfg : Config) (d d' : Defs) (name : Bytes) (l : Layer)
    (w0 w' : World) (hl : findLayer d name = some l) (hst : l.state ≠ S_complete)
    (hp : w0.pretend = false)
    (hrun : (removeLayer cfg d name false).run.run w0 = (.ok d', w'))
    (p : Bytes) (hu : Fs.under l.layerPath p = true)
    (hexp : ∀ m ∈ autoExportPaths cfg l, Fs.under m.1 p = false) :
    Fs.get w'.fs (l.layerPath ++ removedSuffix ++ p.drop l.layerPath.length) = Fs.get w0.fs p ∧
    Op.rename l.layerPath (l.layerPath ++ removedSuffix) ∈ w'.trace := by
  have h := extractPost _ _ _ _ (removeLayer_moved cfg d name l w0 hl hst hp) w0 (same_refl _ w0)
  rw [hrun] at h
  obtain ⟨hlp, hm, ht⟩ := h
  refine ⟨?_, ht⟩
  obtain ⟨rest, htl, hq⟩ := (under_iff l.layerPath p hlp).1 hu
  subst hq
  rw [List.drop_left, List.append_assoc]
  have := hm rest htl (by
    intro m hmem
    obtain ⟨m', hm', e⟩ := List.mem_map.1 hmem
    rw [← e]; exact hexp m' hm')
  rw [List.append_assoc] at this
  exact this

/-- the user-visible form: an entry with node `node` survives with the same node -/
theorem remove_preserves_entry_partial (cfg : Config) (d d' : Defs) (name : Bytes) (l : Layer)
    (w0 w' : World) (hl : findLayer d name = some l) (hst : l.state ≠ S_complete)
    (hp : w0.pretend = false)
    (hrun : (removeLayer cfg d name false).run.run w0 = (.ok d', w'))
    (p : Bytes) (node : Fs.Node) (hget : Fs.get w0.fs p = some node)
    (hu : Fs.under l.layerPath p = true)
    (hexp : ∀ m ∈ autoExportPaths cfg l, Fs.under m.1 p = false) :
    Fs.get w'.fs (l.layerPath ++ removedSuffix ++ p.drop l.layerPath.length) = some node := by
  rw [(remove_preserves_partial cfg d d' name l w0 w' hl hst hp hrun p hu hexp).1]
  exact hget

/-- **An existing `<dir>~removed` is never overwritten.**  If `<layerPath>~removed` exists
    (lstat) in the initial world and is not at/below an automatic export link, then
    `remove` (no -files) of a layer with `state ≠ S_complete` does not return normally —
    whatever the pretend, fault and crash switches — and every path that is not at/below one
    of the two automatic export links has the same lookup in the final world as in the
    initial one: in particular everything at/below the layer directory and at/below
    `<layerPath>~removed`. -/
theorem removed_not_overwritten (cfg : Config) (d : Defs) (name : Bytes) (l : Layer) (w0 : World)
    (hl : findLayer d name = some l) (hst : l.state ≠ S_complete)
    (hre : Fs.lexists w0.fs (l.layerPath ++ removedSuffix) = true)
    (hexp : ∀ m ∈ autoExportPaths cfg l, Fs.under m.1 (l.layerPath ++ removedSuffix) = false) :
    (∀ d', ((removeLayer cfg d name false).run.run w0).1 ≠ .ok d') ∧
    ∀ p, (∀ m ∈ autoExportPaths cfg l, Fs.under m.1 p = false) →
      Fs.get ((removeLayer cfg d name false).run.run w0).2.fs p = Fs.get w0.fs p := by
  have hexp' : ∀ m ∈ exPaths cfg l, Fs.under m (l.layerPath ++ removedSuffix) = false := by
    intro m hmem
    obtain ⟨m', hm', e⟩ := List.mem_map.1 hmem
    rw [← e]; exact hexp m' hm'
  have h := extractPost _ _ _ _ (removeLayer_blocked cfg d name l w0 hl hst hre hexp') w0
    (same_refl _ w0)
  generalize (removeLayer cfg d name false).run.run w0 = r at h ⊢
  obtain ⟨a, w'⟩ := r
  cases a with
  | ok d' => exact absurd h (by simp)
  | error e =>
    refine ⟨(by intro d' hh; cases hh), ?_⟩
    intro p hpp
    exact h.2 p (by
      intro m hmem
      obtain ⟨m', hm', e⟩ := List.mem_map.1 hmem
      rw [← e]; exact hpp m' hm')

/-! ### 4. the deleting branch -/

/-- **In state `S_complete` ("not yet populated") the layer directory is deleted outright**
    (also with `-files`): after a normal return of a non-pretending run nothing is left at
    or below the layer directory and the operation trace contains the `RemoveAll`.  No
    hypothesis about the contents of the directory: this is why the property fails for a
    layer in this state that does hold data. -/
theorem pristine_deleted (cfg : Config) (d d' : Defs) (name : Bytes) (files : Bool) (l : Layer)
    (w0 w' : World) (hl : findLayer d name = some l)
    (hst : files = true ∨ l.state = S_complete) (hp : w0.pretend = false)
    (hrun : (removeLayer cfg d name files).run.run w0 = (.ok d', w')) :
    (∀ p, Fs.under l.layerPath p = true → Fs.get w'.fs p = none) ∧
    Op.remove l.layerPath ∈ w'.trace := by
  have h := extractPost _ _ _ _ (removeLayer_deleted cfg d name files l w0 hl hst hp) w0
    (same_refl _ w0)
  rw [hrun] at h
  exact h

/-! ### 3. concrete worlds: non-vacuity, and the negation of the property as stated -/

def exCfg : Config :=
  { basepath := b!"/l", layerdirs := b!"/d", buildRoot := b!"build", binPkg := b!"packages",
    generated := b!"generated", workdir := b!"w", upperdir := b!"u", exportdirs := b!"/e",
    exportBinPkg := b!"p", exportGenerated := b!"g" }

/-- base layer "a" as probed: build directory present, the seven FHS directories not ⇒
    state "not yet populated" (`S_complete`) -/
def exLayer (st : Nat) : Layer := { name := b!"a", layerPath := b!"/d/a", state := st }

def exDefs (st : Nat) : Defs := { layers := [exLayer st], order := [b!"a"] }

def exData : Bytes := b!"/d/a/build/etc/data"

/-- the layer directory holds a user file `build/etc/data`; a stale export link exists -/
def exWorld : World :=
  { fs := [(b!"/", .dir), (b!"/d", .dir), (b!"/e", .dir), (b!"/e/p", .dir),
           (b!"/e/p/a", .symlink b!"/d/a/packages"),
           (b!"/d/a", .dir), (b!"/d/a/layerconfig", .file []), (b!"/d/a/build", .dir),
           (b!"/d/a/build/etc", .dir), (exData, .file [1, 2, 3])] }

/-- run `remove a` (no -files) on the example with probed state `st`; summarise the result:
    (returned normally, lookup of the user file, lookup of the moved user file,
     `~removed` exists) -/
def exRun (st : Nat) (w : World) : Bool × Option Fs.Node × Option Fs.Node × Bool :=
  let r := (removeLayer exCfg (exDefs st) b!"a" false).run.run w
  ((match r.1 with | .ok _ => true | .error _ => false),
   Fs.get r.2.fs exData, Fs.get r.2.fs b!"/d/a~removed/build/etc/data",
   Fs.lexists r.2.fs b!"/d/a~removed")

theorem exRun_complete : exRun S_complete exWorld = (true, none, none, false) := by decide

theorem exRun_incomplete :
    exRun S_incomplete exWorld = (true, none, some (.file [1, 2, 3]), true) := by decide

/-- from the summary back to the run: it returned normally in a world with the summarised
    lookups -/
theorem exRun_ok (st : Nat) (w : World) (a b : Option Fs.Node) (c : Bool)
    (h : exRun st w = (true, a, b, c)) :
    ∃ d' w', (removeLayer exCfg (exDefs st) b!"a" false).run.run w = (.ok d', w') ∧
      Fs.get w'.fs exData = a ∧ Fs.get w'.fs b!"/d/a~removed/build/etc/data" = b ∧
      Fs.lexists w'.fs b!"/d/a~removed" = c := by
  unfold exRun at h
  generalize (removeLayer exCfg (exDefs st) b!"a" false).run.run w = r at h ⊢
  obtain ⟨x, w'⟩ := r
  cases x with
  | error e => simp at h
  | ok d' =>
    simp only [Prod.mk.injEq, true_and] at h
    exact ⟨d', w', rfl, h.1, h.2.1, h.2.2⟩

/-- **The property as stated is violated** (finding
    remove-deletes-unpopulated-layer-with-data): there are a configuration, a forest with
    one base layer "a" in state `S_complete`, and a world whose layer directory holds the
    user file `/d/a/build/etc/data`, such that `remove a` without `-files` returns normally,
    the file is gone and no `~removed` directory exists. -/
theorem remove_deletes_data_witness :
    ∃ (cfg : Config) (d d' : Defs) (l : Layer) (w w' : World),
      findLayer d b!"a" = some l ∧ l.state = S_complete ∧ w.pretend = false ∧
      Fs.get w.fs exData = some (.file [1, 2, 3]) ∧ Fs.under l.layerPath exData = true ∧
      (removeLayer cfg d b!"a" false).run.run w = (.ok d', w') ∧
      Fs.get w'.fs exData = none ∧
      Fs.get w'.fs (l.layerPath ++ removedSuffix ++ exData.drop l.layerPath.length) = none ∧
      Fs.lexists w'.fs (l.layerPath ++ removedSuffix) = false := by
  obtain ⟨d', w', hr, h1, h2, h3⟩ := exRun_ok _ _ _ _ _ exRun_complete
  exact ⟨exCfg, exDefs S_complete, d', exLayer S_complete, exWorld, w', by decide, rfl, rfl,
    by decide, by decide, hr, h1, h2, h3⟩

/-! The same through the whole command pipeline of the model (`run` = `getLayers` (the
    probe) followed by the command), so that the state `S_complete` is not chosen by hand:
    with an empty mount table and no processes the model's probe classifies layer "a" of
    `exWorld` as "not yet populated" (the state under which `remove a` deletes the user file,
    `remove_deletes_data_witness`). -/

def exProbedState : Option Nat :=
  match ((getLayers exCfg []).run.run exWorld).1 with
  | .ok d => (findLayer d b!"a").map (·.state)
  | .error _ => none

set_option maxRecDepth 4000 in
theorem exWorld_probed_complete : exProbedState = some S_complete := by decide

/-- non-vacuity of `pristine_deleted`: its hypotheses hold on the witness world (the run
    does return normally), and its conclusion is about an existing file -/
example : ∃ d' w', (removeLayer exCfg (exDefs S_complete) b!"a" false).run.run exWorld = (.ok d', w')
    ∧ findLayer (exDefs S_complete) b!"a" = some (exLayer S_complete)
    ∧ (false = true ∨ (exLayer S_complete).state = S_complete) ∧ exWorld.pretend = false
    ∧ Fs.under (exLayer S_complete).layerPath exData = true
    ∧ Fs.get exWorld.fs exData = some (.file [1, 2, 3]) := by
  obtain ⟨d', w', hr, _⟩ := exRun_ok _ _ _ _ _ exRun_complete
  exact ⟨d', w', hr, by decide, Or.inr rfl, rfl, by decide, by decide⟩

/-- non-vacuity of `remove_preserves_partial`: same tree, probed state `S_incomplete`: the
    run returns normally, all hypotheses hold for the user file, and the file is indeed
    below `~removed` afterwards (and the stale export link did get removed first) -/
example : ∃ d' w', (removeLayer exCfg (exDefs S_incomplete) b!"a" false).run.run exWorld = (.ok d', w')
    ∧ findLayer (exDefs S_incomplete) b!"a" = some (exLayer S_incomplete)
    ∧ (exLayer S_incomplete).state ≠ S_complete ∧ exWorld.pretend = false
    ∧ Fs.under (exLayer S_incomplete).layerPath exData = true
    ∧ (∀ m ∈ autoExportPaths exCfg (exLayer S_incomplete), Fs.under m.1 exData = false)
    ∧ Fs.get w'.fs b!"/d/a~removed/build/etc/data" = some (.file [1, 2, 3]) := by
  obtain ⟨d', w', hr, _, h2, _⟩ := exRun_ok _ _ _ _ _ exRun_incomplete
  exact ⟨d', w', hr, by decide, by decide, rfl, by decide, by decide, h2⟩

/-- a world in which `/d/a~removed` (with an older user file) already exists -/
def exWorld2 : World :=
  { exWorld with fs := exWorld.fs ++ [(b!"/d/a~removed", .dir), (b!"/d/a~removed/old", .file [9])] }

/-- non-vacuity of `removed_not_overwritten`: hypotheses hold on `exWorld2`; the run fails
    and both user files are where they were -/
example : findLayer (exDefs S_incomplete) b!"a" = some (exLayer S_incomplete)
    ∧ (exLayer S_incomplete).state ≠ S_complete
    ∧ Fs.lexists exWorld2.fs ((exLayer S_incomplete).layerPath ++ removedSuffix) = true
    ∧ (∀ m ∈ autoExportPaths exCfg (exLayer S_incomplete),
        Fs.under m.1 ((exLayer S_incomplete).layerPath ++ removedSuffix) = false)
    ∧ exRun S_incomplete exWorld2 = (false, some (.file [1, 2, 3]), none, true) := by
  decide

end Lc.Props.C09
