/-
  C09 — remove without -files never destroys user data.

  Over the hand-written command model (Lc/Model/Layers.lean, `removeLayer`) and the
  file-system model (Lc/Model/Fs.lean), for the code after the repair "fix: remove without
  -files deletes a layer outright only if it holds nothing beyond its own files":

  * `rename_preserves`, `rename_preserves_others`: what `os.Rename` of a tree does to the
    lookup function, for every tree and every pair of names (full generality, no bounds).
  * `remove_keeps_user_data_partial`: `remove` without `-files` of a layer in ANY probed
    state, in any world: every entry at or below the layer directory is found with the same
    node at the same relative path below `<dir>~removed` — or the directory was deleted
    outright, and then the entry is a directory or one of the two files `add` itself creates
    (layerconfig, the base layer's root/.bashrc).  Partial only in the side condition on the
    two automatic export-link paths (see the theorem).
  * `remove_renames_unless_pristine_partial`: the renaming branch in detail.
  * `deleted_only_if_pristine`: an outright deletion happens only in the probed state
    "not yet populated" and only when the directory held nothing else.
  * `removed_never_overwritten`: whatever the probed state and however the command ends,
    nothing at or below an existing `<dir>~removed` changes; `removed_not_overwritten`:
    unless the layer is pristine the command fails and changes nothing.
  * `remove_files_deletes`: with `-files` the directory is deleted.
  * `fixed_witness`: the world on which the unrepaired code lost a user file (base layer
    lacking FHS directories, probed "not yet populated", holding `build/etc/data`) now keeps
    it below `~removed`.

  The automatic export links (`autoExportPaths`) are removed before the directory is
  touched; whatever lies at or below those two paths is outside the statements (explicit
  hypothesis per path, no global layout assumption).

  Section 6 removes that per-path hypothesis: `remove_keeps_user_data`,
  `remove_renames_unless_pristine`, `removed_never_overwritten_apart`,
  `removed_subtree_never_overwritten_apart`, `removed_not_overwritten_apart` take instead the decidable
  condition `ExportsApart cfg` on the configuration (Lemmas/ExportsApart: the export link
  directories are not the layer directory, not above it through a legal layer name, not inside
  it below a legal layer name) and `Placed cfg l` (the layer lies in `<layerdirs>/<legal
  name>`, which `readLayerFiles` establishes); the default configuration satisfies
  `ExportsApart` (`default_exportsApart`), and for each clause of `ExportsApart` an example
  shows the per-path condition failing when the clause does.
-/
import Lc.Lemmas.FsRename
import Lc.Lemmas.RemoveLayer
import Lc.Lemmas.ExportsApart

set_option mvcgen.warning false

namespace Lc.Props.C09
open Lc Lc.Layers Lc.Hoare Lc.FsRename Lc.RemoveLayer

/-! ### 1. `os.Rename` on the tree model -/

/-- **Rename moves the subtree, nodes unchanged.**  If `Fs.rename fs old new` succeeds,
    `old ≠ "/"`, and no entry of `fs` lies at/below both names, then for every relative
    remainder `rest` (empty, or starting with '/') the lookup of `new ++ rest` afterwards
    equals the lookup of `old ++ rest` before — in particular an entry `(old ++ rest, node)`
    is found as `(new ++ rest, node)`, and nothing else appears below `new`.  `Fs.get` is
    first-match; no uniqueness of keys is assumed. -/
theorem rename_preserves (fs fs' : Fs.Tree) (old new : Bytes)
    (h : Fs.rename fs old new = .ok fs') (hold : old ≠ [47])
    (hdisj : ∀ e ∈ fs, Fs.under new e.1 = true → Fs.under old e.1 = false)
    (rest : Bytes) (hr : rest = [] ∨ ∃ r, rest = 47 :: r) :
    Fs.get fs' (new ++ rest) = Fs.get fs (old ++ rest) :=
  rename_moves fs fs' old new h hold hdisj rest hr

/-- the same under the plainer hypothesis "nothing exists at or below `new`" -/
theorem rename_preserves_fresh (fs fs' : Fs.Tree) (old new : Bytes)
    (h : Fs.rename fs old new = .ok fs') (hold : old ≠ [47])
    (hfresh : ∀ e ∈ fs, Fs.under new e.1 = false)
    (rest : Bytes) (hr : rest = [] ∨ ∃ r, rest = 47 :: r) (node : Fs.Node)
    (hget : Fs.get fs (old ++ rest) = some node) : Fs.get fs' (new ++ rest) = some node := by
  rw [rename_preserves fs fs' old new h hold (fun e he hu => by rw [hfresh e he] at hu; cases hu)
    rest hr]
  exact hget

/-- **Rename touches nothing else**: a path neither at/below `old` nor at/below `new` has the
    same lookup before and after (no hypothesis on the tree at all). -/
theorem rename_preserves_others (fs fs' : Fs.Tree) (old new : Bytes)
    (h : Fs.rename fs old new = .ok fs') (hold : old ≠ [47]) (p : Bytes)
    (hpo : Fs.under old p = false) (hpn : Fs.under new p = false) : Fs.get fs' p = Fs.get fs p :=
  rename_keeps fs fs' old new h hold p hpo hpn

/-- a small tree: "/", "/a", "/a/f" (file), "/ab" (file: a sibling whose name extends "a") -/
def exTree : Fs.Tree :=
  [(b!"/", .dir), (b!"/a", .dir), (b!"/a/f", .file [1]), (b!"/ab", .file [2])]

/-- non-vacuity: the rename succeeds on `exTree`, the hypotheses hold, and the conclusions say
    something (file moved with content, sibling "/ab" untouched, old name gone) -/
example : ∃ fs', Fs.rename exTree b!"/a" b!"/b" = .ok fs' ∧
    (∀ e ∈ exTree, Fs.under b!"/b" e.1 = false) ∧
    Fs.get fs' b!"/b/f" = some (.file [1]) ∧ Fs.get fs' b!"/ab" = some (.file [2]) ∧
    Fs.get fs' b!"/a/f" = none :=
  ⟨_, rfl, by decide, by decide, by decide, by decide⟩

example : Fs.get exTree (b!"/a" ++ b!"/f") = some (.file [1]) ∧
    Fs.under b!"/a" b!"/ab" = false ∧ Fs.under b!"/b" b!"/ab" = false := by decide

/-! ### 2. `remove` without `-files` -/

/-- **remove (no -files) keeps every entry the user or a build placed in the layer
    directory — for every probed state.**
    `removeLayer cfg d name false` started in ANY world `w0` (any tree, mount table, fault
    or crash setting) without the pretend switch: if it returns normally, every path `p` at
    or below the layer directory that is not at/below one of the two automatic export links
    and that held `node` before
      * holds the same `node` (same kind, content, link target) at the same relative path
        below `<layerPath>~removed`, or
      * was deleted outright, and then the probed state was "not yet populated" and `node`
        is a directory or `p` is one of the layer's own files (`ownFiles`: layerconfig, the
        base layer's `root/.bashrc`).

    `_partial`: the per-path hypothesis `hexp` (true for every path of the layer directory
    whenever the export directory is not inside it; inside it, the automatic link itself is
    removed on purpose).  The model has no symlinked intermediate directories and
    `rename(2)` is atomic in it. -/
theorem remove_keeps_user_data_partial (cfg : Config) (d d' : Defs) (name : Bytes) (l : Layer)
    (w0 w' : World) (hl : findLayer d name = some l) (hp : w0.pretend = false)
    (hrun : (removeLayer cfg d name false).run.run w0 = (.ok d', w'))
    (p : Bytes) (node : Fs.Node) (hget : Fs.get w0.fs p = some node)
    (hu : Fs.under l.layerPath p = true)
    (hexp : ∀ m ∈ autoExportPaths cfg l, Fs.under m.1 p = false) :
    Fs.get w'.fs (l.layerPath ++ removedSuffix ++ p.drop l.layerPath.length) = some node ∨
    (l.state = S_complete ∧ (node = .dir ∨ p ∈ ownFiles cfg l) ∧ Op.remove l.layerPath ∈ w'.trace) := by
  have h := extractPost _ _ _ _ (removeLayer_outcome cfg d name l w0 hl hp) w0 (same_refl _ w0)
  rw [hrun] at h
  have hexp' : ∀ m ∈ exPaths cfg l, Fs.under m p = false := by
    intro m hmem
    obtain ⟨m', hm', e⟩ := List.mem_map.1 hmem
    rw [← e]; exact hexp m' hm'
  rcases h with ⟨hlp, hm, _⟩ | ⟨hdel, hst, hown⟩
  · left
    obtain ⟨rest, htl, hq⟩ := (under_iff l.layerPath p hlp).1 hu
    subst hq
    rw [List.drop_left, List.append_assoc]
    have := hm rest htl hexp'
    rw [List.append_assoc] at this
    exact this.trans hget
  · right
    exact ⟨hst, hown p node hexp' hu hget, hdel.2⟩

/-- **Unless the layer is pristine it is renamed**: if the probed state is not "not yet
    populated", or the layer directory holds anything beyond directories and its own files,
    a normal return means the whole tree was moved to `<layerPath>~removed` (lookup function
    of every relative path preserved, absent stays absent) by one `rename`.
    `_partial`: `hexp` as above. -/
theorem remove_renames_unless_pristine_partial (cfg : Config) (d d' : Defs) (name : Bytes)
    (l : Layer) (w0 w' : World) (hl : findLayer d name = some l)
    (hst : l.state = S_complete → ¬ OwnOnly cfg l w0) (hp : w0.pretend = false)
    (hrun : (removeLayer cfg d name false).run.run w0 = (.ok d', w'))
    (p : Bytes) (hu : Fs.under l.layerPath p = true)
    (hexp : ∀ m ∈ autoExportPaths cfg l, Fs.under m.1 p = false) :
    Fs.get w'.fs (l.layerPath ++ removedSuffix ++ p.drop l.layerPath.length) = Fs.get w0.fs p ∧
    Op.rename l.layerPath (l.layerPath ++ removedSuffix) ∈ w'.trace := by
  have h := extractPost _ _ _ _ (removeLayer_outcome cfg d name l w0 hl hp) w0 (same_refl _ w0)
  rw [hrun] at h
  rcases h with ⟨hlp, hm, ht⟩ | ⟨_, hs, hown⟩
  · refine ⟨?_, ht⟩
    obtain ⟨rest, htl, hq⟩ := (under_iff l.layerPath p hlp).1 hu
    subst hq
    rw [List.drop_left, List.append_assoc]
    have := hm rest htl (by
      intro m hmem
      obtain ⟨m', hm', e⟩ := List.mem_map.1 hmem
      rw [← e]; exact hexp m' hm')
    rw [List.append_assoc] at this
    exact this
  · exact absurd hown (hst hs)

/-- **An outright deletion happens only to a pristine layer**: if a non-pretending
    `remove` without `-files` returns normally and the layer directory is gone without a
    rename having been issued for it, then the probed state was "not yet populated" and
    every entry of the directory (outside the export-link paths) was a directory or one of
    the layer's own files. -/
theorem deleted_only_if_pristine (cfg : Config) (d d' : Defs) (name : Bytes) (l : Layer)
    (w0 w' : World) (hl : findLayer d name = some l) (hp : w0.pretend = false)
    (hrun : (removeLayer cfg d name false).run.run w0 = (.ok d', w'))
    (hnr : Op.rename l.layerPath (l.layerPath ++ removedSuffix) ∉ w'.trace) :
    l.state = S_complete ∧ OwnOnly cfg l w0 ∧
    (∀ p, Fs.under l.layerPath p = true → Fs.get w'.fs p = none) := by
  have h := extractPost _ _ _ _ (removeLayer_outcome cfg d name l w0 hl hp) w0 (same_refl _ w0)
  rw [hrun] at h
  rcases h with ⟨_, _, ht⟩ | ⟨hdel, hs, hown⟩
  · exact absurd ht hnr
  · exact ⟨hs, hown, hdel.1⟩

/-! ### 3. an existing `<dir>~removed` -/

/-- **An existing `<dir>~removed` is never overwritten** — for every probed state, every
    setting of the pretend, fault and crash switches, and every way the command ends: if
    `<layerPath>~removed` exists (lstat) in the initial world and is not at/below an
    automatic export link, then every path that is neither at/below the layer directory
    itself nor at/below an export link has the same lookup in the final world as in the
    initial one; in particular everything at/below `<layerPath>~removed`. -/
theorem removed_never_overwritten (cfg : Config) (d : Defs) (name : Bytes) (l : Layer) (w0 : World)
    (hl : findLayer d name = some l)
    (hre : Fs.lexists w0.fs (l.layerPath ++ removedSuffix) = true)
    (hexp : ∀ m ∈ autoExportPaths cfg l, Fs.under m.1 (l.layerPath ++ removedSuffix) = false)
    (p : Bytes) (hpl : Fs.under l.layerPath p = false)
    (hpe : ∀ m ∈ autoExportPaths cfg l, Fs.under m.1 p = false) :
    Fs.get ((removeLayer cfg d name false).run.run w0).2.fs p = Fs.get w0.fs p := by
  have hexp' : ∀ m ∈ exPaths cfg l, Fs.under m (l.layerPath ++ removedSuffix) = false := by
    intro m hmem
    obtain ⟨m', hm', e⟩ := List.mem_map.1 hmem
    rw [← e]; exact hexp m' hm'
  have h := extractPost _ _ _ _ (removeLayer_rm_kept cfg d name l w0 hl hre hexp') w0
    (same_refl _ w0)
  have hp' : ∀ m ∈ l.layerPath :: exPaths cfg l, Fs.under m p = false := by
    intro m hmem
    rcases List.mem_cons.1 hmem with e | hmem
    · rw [e]; exact hpl
    · obtain ⟨m', hm', e⟩ := List.mem_map.1 hmem
      rw [← e]; exact hpe m' hm'
  generalize (removeLayer cfg d name false).run.run w0 = r at h ⊢
  obtain ⟨a, w'⟩ := r
  cases a with
  | ok d' => exact h.2 p hp'
  | error e => exact h.2 p hp'

/-- the instance the property names: every path at or below an existing `<dir>~removed`
    keeps its lookup, whatever the probed state and however the command ends -/
theorem removed_subtree_never_overwritten (cfg : Config) (d : Defs) (name : Bytes) (l : Layer)
    (w0 : World) (hl : findLayer d name = some l) (hlp : l.layerPath ≠ [47])
    (hre : Fs.lexists w0.fs (l.layerPath ++ removedSuffix) = true)
    (hexp : ∀ m ∈ autoExportPaths cfg l, Fs.under m.1 (l.layerPath ++ removedSuffix) = false)
    (p : Bytes) (hpr : Fs.under (l.layerPath ++ removedSuffix) p = true)
    (hpe : ∀ m ∈ autoExportPaths cfg l, Fs.under m.1 p = false) :
    Fs.get ((removeLayer cfg d name false).run.run w0).2.fs p = Fs.get w0.fs p :=
  removed_never_overwritten cfg d name l w0 hl hre hexp p
    (under_sibling_disjoint l.layerPath b!"removed" p 126 (by decide) hlp hpr) hpe

/-- **Unless the layer is pristine, `remove` fails when `<dir>~removed` exists** and leaves
    every path that is not at/below an export link as it was (the layer directory
    included). -/
theorem removed_not_overwritten (cfg : Config) (d : Defs) (name : Bytes) (l : Layer) (w0 : World)
    (hl : findLayer d name = some l) (hst : l.state = S_complete → ¬ OwnOnly cfg l w0)
    (hre : Fs.lexists w0.fs (l.layerPath ++ removedSuffix) = true)
    (hexp : ∀ m ∈ autoExportPaths cfg l, Fs.under m.1 (l.layerPath ++ removedSuffix) = false) :
    (∀ d', ((removeLayer cfg d name false).run.run w0).1 ≠ .ok d') ∧
    ∀ p, (∀ m ∈ autoExportPaths cfg l, Fs.under m.1 p = false) →
      Fs.get ((removeLayer cfg d name false).run.run w0).2.fs p = Fs.get w0.fs p := by
  have hexp' : ∀ m ∈ exPaths cfg l, Fs.under m (l.layerPath ++ removedSuffix) = false := by
    intro m hmem
    obtain ⟨m', hm', e⟩ := List.mem_map.1 hmem
    rw [← e]; exact hexp m' hm'
  have h := extractPost _ _ _ _ (removeLayer_blocked cfg d name l w0 hl hst hre hexp') w0
    (same_refl _ w0)
  generalize (removeLayer cfg d name false).run.run w0 = r at h ⊢
  obtain ⟨a, w'⟩ := r
  cases a with
  | ok d' => exact absurd h (by simp)
  | error e =>
    refine ⟨(by intro d' hh; cases hh), ?_⟩
    intro p hpp
    exact h.2 p (by
      intro m hmem
      obtain ⟨m', hm', e⟩ := List.mem_map.1 hmem
      rw [← e]; exact hpp m' hm')

/-! ### 4. with `-files` -/

/-- with `-files` a non-pretending run that returns normally has deleted the directory -/
theorem remove_files_deletes (cfg : Config) (d d' : Defs) (name : Bytes) (l : Layer)
    (w0 w' : World) (hl : findLayer d name = some l) (hp : w0.pretend = false)
    (hrun : (removeLayer cfg d name true).run.run w0 = (.ok d', w')) :
    (∀ p, Fs.under l.layerPath p = true → Fs.get w'.fs p = none) ∧
    Op.remove l.layerPath ∈ w'.trace := by
  have h := extractPost _ _ _ _ (removeLayer_deleted cfg d name l w0 hl hp) w0 (same_refl _ w0)
  rw [hrun] at h
  exact h

/-! ### 5. concrete worlds: non-vacuity, and the witness of the repaired defect -/

def exCfg : Config :=
  { basepath := b!"/l", layerdirs := b!"/d", buildRoot := b!"build", binPkg := b!"packages",
    generated := b!"generated", workdir := b!"w", upperdir := b!"u", exportdirs := b!"/e",
    exportBinPkg := b!"p", exportGenerated := b!"g" }

/-- base layer "a" as probed: build directory present, the seven FHS directories not ⇒
    state "not yet populated" (`S_complete`) -/
def exLayer (st : Nat) : Layer := { name := b!"a", layerPath := b!"/d/a", state := st }

def exDefs (st : Nat) : Defs := { layers := [exLayer st], order := [b!"a"] }

def exData : Bytes := b!"/d/a/build/etc/data"

/-- the layer directory holds a user file `build/etc/data`; a stale export link exists -/
def exWorld : World :=
  { fs := [(b!"/", .dir), (b!"/d", .dir), (b!"/e", .dir), (b!"/e/p", .dir),
           (b!"/e/p/a", .symlink b!"/d/a/packages"),
           (b!"/d/a", .dir), (b!"/d/a/layerconfig", .file []), (b!"/d/a/build", .dir),
           (b!"/d/a/build/etc", .dir), (exData, .file [1, 2, 3])] }

/-- what `add a` leaves behind, plus an empty directory made later -/
def exPristine : World :=
  { fs := [(b!"/", .dir), (b!"/d", .dir), (b!"/e", .dir),
           (b!"/d/a", .dir), (b!"/d/a/layerconfig", .file [1]), (b!"/d/a/build", .dir),
           (b!"/d/a/build/root", .dir), (b!"/d/a/build/root/.bashrc", .file [2]),
           (b!"/d/a/packages", .dir)] }

/-- run `remove a` (no -files) on the example with probed state `st`; summarise the result:
    (returned normally, lookup of the user file, lookup of the moved user file,
     `~removed` exists) -/
def exRun (st : Nat) (w : World) : Bool × Option Fs.Node × Option Fs.Node × Bool :=
  let r := (removeLayer exCfg (exDefs st) b!"a" false).run.run w
  ((match r.1 with | .ok _ => true | .error _ => false),
   Fs.get r.2.fs exData, Fs.get r.2.fs b!"/d/a~removed/build/etc/data",
   Fs.lexists r.2.fs b!"/d/a~removed")

/-- the repaired defect: probed "not yet populated" but holding a user file ⇒ renamed -/
theorem exRun_complete : exRun S_complete exWorld = (true, none, some (.file [1, 2, 3]), true) := by
  decide

theorem exRun_incomplete :
    exRun S_incomplete exWorld = (true, none, some (.file [1, 2, 3]), true) := by decide

/-- a pristine layer in state "not yet populated" is deleted outright -/
theorem exRun_pristine : exRun S_complete exPristine = (true, none, none, false) := by decide

/-- from the summary back to the run: it returned normally in a world with the summarised
    lookups -/
theorem exRun_ok (st : Nat) (w : World) (a b : Option Fs.Node) (c : Bool)
    (h : exRun st w = (true, a, b, c)) :
    ∃ d' w', (removeLayer exCfg (exDefs st) b!"a" false).run.run w = (.ok d', w') ∧
      Fs.get w'.fs exData = a ∧ Fs.get w'.fs b!"/d/a~removed/build/etc/data" = b ∧
      Fs.lexists w'.fs b!"/d/a~removed" = c := by
  unfold exRun at h
  generalize (removeLayer exCfg (exDefs st) b!"a" false).run.run w = r at h ⊢
  obtain ⟨x, w'⟩ := r
  cases x with
  | error e => simp at h
  | ok d' =>
    simp only [Prod.mk.injEq, true_and] at h
    exact ⟨d', w', rfl, h.1, h.2.1, h.2.2⟩

/-- **The world on which the unrepaired code destroyed user data now keeps it**: one base
    layer "a" probed "not yet populated" (`S_complete`) whose directory holds the user file
    `/d/a/build/etc/data`; `remove a` without `-files` returns normally and the file is
    found with its content below `/d/a~removed`. -/
theorem fixed_witness :
    ∃ (d' : Defs) (w' : World),
      (removeLayer exCfg (exDefs S_complete) b!"a" false).run.run exWorld = (.ok d', w') ∧
      Fs.get exWorld.fs exData = some (.file [1, 2, 3]) ∧
      Fs.get w'.fs ((exLayer S_complete).layerPath ++ removedSuffix ++
        exData.drop (exLayer S_complete).layerPath.length) = some (.file [1, 2, 3]) := by
  obtain ⟨d', w', hr, _, h2, _⟩ := exRun_ok _ _ _ _ _ exRun_complete
  exact ⟨d', w', hr, by decide, h2⟩

/-! The same through the whole command pipeline of the model (`run` = `getLayers` (the
    probe) followed by the command), so that the state `S_complete` is not chosen by hand:
    with an empty mount table and no processes the model's probe classifies layer "a" of
    `exWorld` as "not yet populated". -/

def exProbedState : Option Nat :=
  match ((getLayers exCfg []).run.run exWorld).1 with
  | .ok d => (findLayer d b!"a").map (·.state)
  | .error _ => none

set_option maxRecDepth 4000 in
theorem exWorld_probed_complete : exProbedState = some S_complete := by decide

/-- non-vacuity of `remove_keeps_user_data_partial`, first alternative: hypotheses hold on
    the witness world for the user file (state "not yet populated"!), the run returns
    normally and the file is below `~removed` -/
example : ∃ d' w', (removeLayer exCfg (exDefs S_complete) b!"a" false).run.run exWorld = (.ok d', w')
    ∧ findLayer (exDefs S_complete) b!"a" = some (exLayer S_complete) ∧ exWorld.pretend = false
    ∧ Fs.under (exLayer S_complete).layerPath exData = true
    ∧ (∀ m ∈ autoExportPaths exCfg (exLayer S_complete), Fs.under m.1 exData = false)
    ∧ Fs.get exWorld.fs exData = some (.file [1, 2, 3])
    ∧ Fs.get w'.fs b!"/d/a~removed/build/etc/data" = some (.file [1, 2, 3]) := by
  obtain ⟨d', w', hr, _, h2, _⟩ := exRun_ok _ _ _ _ _ exRun_complete
  exact ⟨d', w', hr, by decide, rfl, by decide, by decide, by decide, h2⟩

/-- non-vacuity, second alternative (and of `deleted_only_if_pristine`): the pristine world
    is deleted outright; its entries are directories or own files -/
example : exRun S_complete exPristine = (true, none, none, false)
    ∧ onlyOwnFiles exCfg (exLayer S_complete) exPristine.fs = true
    ∧ b!"/d/a/build/root/.bashrc" ∈ ownFiles exCfg (exLayer S_complete) := by decide

/-- a world in which `/d/a~removed` (with an older user file) already exists -/
def exWorld2 : World :=
  { exWorld with fs := exWorld.fs ++ [(b!"/d/a~removed", .dir), (b!"/d/a~removed/old", .file [9])] }

/-- non-vacuity of `removed_not_overwritten` / `removed_never_overwritten`: hypotheses hold
    on `exWorld2`; the run fails and both user files are where they were -/
example : findLayer (exDefs S_incomplete) b!"a" = some (exLayer S_incomplete)
    ∧ Fs.lexists exWorld2.fs ((exLayer S_incomplete).layerPath ++ removedSuffix) = true
    ∧ (∀ m ∈ autoExportPaths exCfg (exLayer S_incomplete),
        Fs.under m.1 ((exLayer S_incomplete).layerPath ++ removedSuffix) = false)
    ∧ Fs.under (exLayer S_incomplete).layerPath b!"/d/a~removed/old" = false
    ∧ exRun S_incomplete exWorld2 = (false, some (.file [1, 2, 3]), none, true)
    ∧ exRun S_complete exWorld2 = (false, some (.file [1, 2, 3]), none, true) := by
  decide

/-! ### 6. the export-link side condition, from the configuration -/

open Lc.LayerPaths Lc.ExportsApart

/-- **remove (no -files) keeps every entry of the layer directory** — `remove_keeps_user_data_partial`
    without the per-path side condition.  Hypotheses beyond the run itself: `ExportsApart cfg`
    (decidable, about exportdirs / exportBinPkg / exportGenerated / layerdirs only) and
    `Placed cfg l` (what `readLayerFiles` gives every layer).  Every path `p` at or below the
    layer directory that held `node` holds the same `node` at the same relative path below
    `<layerPath>~removed`, or the directory was deleted outright and then the probed state was
    "not yet populated" and `node` is a directory or one of the layer's own files. -/
theorem remove_keeps_user_data (cfg : Config) (d d' : Defs) (name : Bytes) (l : Layer)
    (w0 w' : World) (hl : findLayer d name = some l) (hp : w0.pretend = false)
    (hrun : (removeLayer cfg d name false).run.run w0 = (.ok d', w'))
    (hA : ExportsApart cfg) (hpl : Placed cfg l)
    (p : Bytes) (node : Fs.Node) (hget : Fs.get w0.fs p = some node)
    (hu : Fs.under l.layerPath p = true) :
    Fs.get w'.fs (l.layerPath ++ removedSuffix ++ p.drop l.layerPath.length) = some node ∨
    (l.state = S_complete ∧ (node = .dir ∨ p ∈ ownFiles cfg l) ∧ Op.remove l.layerPath ∈ w'.trace) :=
  remove_keeps_user_data_partial cfg d d' name l w0 w' hl hp hrun p node hget hu
    (exportsApart_hexp cfg hA l hpl p (inLayerDirs_of_under cfg l hpl p hu))

/-- **Unless the layer is pristine it is renamed** — without the per-path side condition -/
theorem remove_renames_unless_pristine (cfg : Config) (d d' : Defs) (name : Bytes)
    (l : Layer) (w0 w' : World) (hl : findLayer d name = some l)
    (hst : l.state = S_complete → ¬ OwnOnly cfg l w0) (hp : w0.pretend = false)
    (hrun : (removeLayer cfg d name false).run.run w0 = (.ok d', w'))
    (hA : ExportsApart cfg) (hpl : Placed cfg l)
    (p : Bytes) (hu : Fs.under l.layerPath p = true) :
    Fs.get w'.fs (l.layerPath ++ removedSuffix ++ p.drop l.layerPath.length) = Fs.get w0.fs p ∧
    Op.rename l.layerPath (l.layerPath ++ removedSuffix) ∈ w'.trace :=
  remove_renames_unless_pristine_partial cfg d d' name l w0 w' hl hst hp hrun p hu
    (exportsApart_hexp cfg hA l hpl p (inLayerDirs_of_under cfg l hpl p hu))

/-- **An existing `<dir>~removed` is never overwritten** — without `hexp` / `hpe`: every path
    in the layer directories (at or below some `<layerdirs>/<legal name>` or its `~removed`)
    that is not at/below the layer directory itself keeps its lookup, for every probed state,
    every pretend / fault / crash setting and every exit. -/
theorem removed_never_overwritten_apart (cfg : Config) (d : Defs) (name : Bytes) (l : Layer) (w0 : World)
    (hl : findLayer d name = some l)
    (hre : Fs.lexists w0.fs (l.layerPath ++ removedSuffix) = true)
    (hA : ExportsApart cfg) (hpl : Placed cfg l)
    (p : Bytes) (hpo : Fs.under l.layerPath p = false) (hin : InLayerDirs cfg p) :
    Fs.get ((removeLayer cfg d name false).run.run w0).2.fs p = Fs.get w0.fs p :=
  removed_never_overwritten cfg d name l w0 hl hre
    (exportsApart_hexp cfg hA l hpl _ (inLayerDirs_of_removed cfg l hpl _ (under_self _))) p hpo
    (exportsApart_hexp cfg hA l hpl p hin)

/-- the instance the property names: every path at or below an existing `<dir>~removed` -/
theorem removed_subtree_never_overwritten_apart (cfg : Config) (d : Defs) (name : Bytes) (l : Layer)
    (w0 : World) (hl : findLayer d name = some l)
    (hre : Fs.lexists w0.fs (l.layerPath ++ removedSuffix) = true)
    (hA : ExportsApart cfg) (hpl : Placed cfg l)
    (p : Bytes) (hpr : Fs.under (l.layerPath ++ removedSuffix) p = true) :
    Fs.get ((removeLayer cfg d name false).run.run w0).2.fs p = Fs.get w0.fs p :=
  removed_subtree_never_overwritten cfg d name l w0 hl (placed_ne_root cfg l hpl) hre
    (exportsApart_hexp cfg hA l hpl _ (inLayerDirs_of_removed cfg l hpl _ (under_self _))) p hpr
    (exportsApart_hexp cfg hA l hpl p (inLayerDirs_of_removed cfg l hpl p hpr))

/-- **Unless the layer is pristine, `remove` fails when `<dir>~removed` exists** and leaves
    every path in the layer directories as it was — without `hexp` -/
theorem removed_not_overwritten_apart (cfg : Config) (d : Defs) (name : Bytes) (l : Layer) (w0 : World)
    (hl : findLayer d name = some l) (hst : l.state = S_complete → ¬ OwnOnly cfg l w0)
    (hre : Fs.lexists w0.fs (l.layerPath ++ removedSuffix) = true)
    (hA : ExportsApart cfg) (hpl : Placed cfg l) :
    (∀ d', ((removeLayer cfg d name false).run.run w0).1 ≠ .ok d') ∧
    ∀ p, InLayerDirs cfg p →
      Fs.get ((removeLayer cfg d name false).run.run w0).2.fs p = Fs.get w0.fs p := by
  have h := removed_not_overwritten cfg d name l w0 hl hst hre
    (exportsApart_hexp cfg hA l hpl _ (inLayerDirs_of_removed cfg l hpl _ (under_self _)))
  exact ⟨h.1, fun p hin => h.2 p (exportsApart_hexp cfg hA l hpl p hin)⟩

/-- the default configuration (defaults/defaults.go; `defaultCfg` of the scenario harness with
    its base directory) -/
def defaultCfg : Config :=
  { basepath := b!"/var/lib/layercake", layerdirs := b!"/var/lib/layercake/layers", buildRoot := b!"build",
    binPkg := b!"packages", generated := b!"generated", workdir := b!"overlayfs/workdir",
    upperdir := b!"overlayfs/upperdir", exportdirs := b!"/var/lib/layercake/export",
    exportBinPkg := b!"packages", exportGenerated := b!"generated" }

/-- the default configuration satisfies `ExportsApart` -/
theorem default_exportsApart : ExportsApart defaultCfg := by decide

/-- non-vacuity of the section: the example configuration satisfies `ExportsApart`, the example
    layer is `Placed`, the remaining hypotheses are those of the `_partial` examples above -/
example : ExportsApart exCfg ∧ (∀ st, Placed exCfg (exLayer st)) ∧
    Fs.under (exLayer S_complete).layerPath exData = true ∧
    Fs.under ((exLayer S_incomplete).layerPath ++ removedSuffix) b!"/d/a~removed/old" = true ∧
    InLayerDirs exCfg b!"/d/a~removed/old" := by
  refine ⟨by decide, fun st => ⟨rfl, (by decide : b!"a" ≠ []), (by decide : isLegalLayerName b!"a" = true)⟩,
    by decide, by decide, ?_⟩
  exact ⟨b!"a", by decide, by decide, Or.inr (by decide)⟩

/-! `ExportsApart` is not padding: for each of its three clauses a configuration violating it
    for which the per-path side condition of the `_partial` theorems is FALSE for a path of the
    layer directory (so those theorems say nothing there, and on a real system the removal of
    the "link" would take user data with it). -/

def cfgWith (ld ed bp : Bytes) : Config :=
  { exCfg with layerdirs := ld, exportdirs := ed, exportBinPkg := bp }

/-- clause 1 (link directory = layer directory; here exportdirs = layerdirs and an empty
    exportBinPkg, equally `exportBinPkg = ".."` one level down): the packages link of layer "a"
    IS its directory -/
example : ¬ ExportsApart (cfgWith b!"/d" b!"/d" []) ∧ ¬ ExportsApart (cfgWith b!"/d" b!"/d/x" b!"..") ∧
    Placed (cfgWith b!"/d" b!"/d" []) (exLayer S_complete) ∧
    ¬ (∀ m ∈ autoExportPaths (cfgWith b!"/d" b!"/d" []) (exLayer S_complete), Fs.under m.1 exData = false) ∧
    ¬ (∀ m ∈ autoExportPaths (cfgWith b!"/d" b!"/d/x" b!"..") (exLayer S_complete), Fs.under m.1 exData = false) := by
  refine ⟨by decide +kernel, by decide +kernel, ⟨rfl, by decide, by decide⟩, by decide, by decide⟩

/-- clause 2 (link directory above the layer directory through a legal name; here
    exportdirs = "/", layerdirs = "/d"): the packages link of a layer named "d" is `/d`, an
    ancestor of every layer -/
example : ¬ ExportsApart (cfgWith b!"/d" b!"/" []) ∧
    Placed (cfgWith b!"/d" b!"/" []) { name := b!"d", layerPath := b!"/d/d" } ∧
    ¬ (∀ m ∈ autoExportPaths (cfgWith b!"/d" b!"/" []) { name := b!"d", layerPath := b!"/d/d" },
        Fs.under m.1 b!"/d/d/build/etc/data" = false) := by
  refine ⟨by decide +kernel, ⟨rfl, by decide, by decide⟩, by decide⟩

/-- clause 3 (link directory inside a layer; here exportdirs = "/d/a/build/x"): the link of
    layer "a" lies in its own build tree, paths below it are at/below the link -/
example : ¬ ExportsApart (cfgWith b!"/d" b!"/d/a/build/x" b!"p") ∧
    Fs.under (exLayer S_complete).layerPath b!"/d/a/build/x/p/a/f" = true ∧
    ¬ (∀ m ∈ autoExportPaths (cfgWith b!"/d" b!"/d/a/build/x" b!"p") (exLayer S_complete),
        Fs.under m.1 b!"/d/a/build/x/p/a/f" = false) := by
  refine ⟨by decide +kernel, by decide, by decide⟩

/-- … while a link directory inside `<layerdirs>` below a name no layer can have is fine -/
example : ExportsApart (cfgWith b!"/d" b!"/d/.exports" b!"p") := by decide +kernel

end Lc.Props.C09
