/-
  C06 — the stage tarball contains exactly the right paths, in an extractable order.

  Theorems over the model of the member-set pipeline (Lc/Model/StageList.lean).  What is
  proved here, for all maps / step lists / byte strings:
    * the pipeline keeps member names pairwise different and never stores a hard link or an
      inode identity on a non-regular entry (`pipeline_invariant`),
    * `Finalize` yields a strictly byte-sorted list with the same names (`sorted_strict`,
      `members_unique`, `finalize_same_names`),
    * a strictly sorted list puts every path before all paths it is a proper prefix of
      (`Lc.prefix_lt`, `Lc.parent_before_child` in Lc/Lemmas/Prefix.lean), hence every member
      is preceded by all its parent directories once the set is parent-closed
      (`parents_precede_partial`, `root_precedes`),
    * `AddMissingStageDirs` makes the set parent-closed (`addMissing_parent_closed_partial`;
      hypothesis: on the names present `path.Dir` agrees with cutting at the last slash, i.e.
      names are clean), with `dir.length + 1` loop iterations sufficing (`addChain_fuel`),
    * the `fixHardlinks` scan turns an entry into a hard link only to an earlier regular-file
      entry of the same inode (`hardlink_earlier_same_inode`),
    * omit lines (plain and wildcard) and `ExcludeFiles` remove exactly the named members
      (`omit_removes`, `omit_wildcard_removes`, `exclude_removes`),
    * archive member names are `.` + name, in list order (`members_dot_relative`).
  Not proved here (differential only): that the harness's expansion of list lines and globs
  into steps is what the Go code does, and the set-level membership specification
  (`Spec.Stage.expectedNames`), which the driver evaluates on the real archive.
-/
import Lc.Lemmas.StageClosure
import Lc.Spec.Stage

namespace Lc.Props.C06
open Lc Lc.Stage

/-- the names of `fl.Files` after `Finalize` -/
def fileNames (m : EMap) : List Bytes := EMap.names (finalize m)

/-- Every map the pipeline can produce has pairwise different names, holds no hard-link
    entry, and only regular-file entries carry an inode identity. -/
theorem pipeline_invariant (env : Env) (steps : List Step) (s : St)
    (h : runSteps env {} steps = .ok s) : MapOK s.map :=
  runSteps_ok steps h MapOK.nil

theorem finalize_same_names (m : EMap) (n : Bytes) : n ∈ fileNames m ↔ n ∈ m.names := by
  unfold fileNames finalize
  rw [names_fixHardlinks, names_sortByName_mem]

/-- `Finalize` sorts strictly by byte order. -/
theorem sorted_strict (m : EMap) (hm : MapOK m) : StrictSorted (fileNames m) := by
  unfold fileNames finalize
  rw [names_fixHardlinks]
  exact sortByName_sorted m hm.1

/-- No member name occurs twice. -/
theorem members_unique (m : EMap) (hm : MapOK m) : (fileNames m).Nodup :=
  (sorted_strict m hm).nodup

/-- The same two facts for the result of a whole pipeline run. -/
theorem stageFileList_sorted_unique (env : Env) (steps : List Step) (files : List Entry)
    (h : stageFileList env steps = .ok files) :
    StrictSorted (EMap.names files) ∧ (EMap.names files).Nodup := by
  obtain ⟨s, hs, hf⟩ := except_map_ok h
  have hm := pipeline_invariant env steps s hs
  rw [← hf]
  exact ⟨sorted_strict s.map hm, members_unique s.map hm⟩

/-- **Parents precede.**  In the final list every member is preceded by each of its ancestor
    directories, provided the member set is parent-closed.  (`Anc d n`: `d` is obtained from
    `n` by cutting at a last slash one or more times; the root `/` is `root_precedes`.)
    Partial: parent-closedness is a hypothesis here; `addMissing_parent_closed_partial`
    establishes it right after `AddMissingStageDirs`, and omit lines can destroy it again
    (omitting a directory that still has members). -/
theorem parents_precede_partial (m : EMap) (hm : MapOK m)
    (hclosed : ∀ n ∈ m.names, ∀ p, parentOf n = some p → p ∈ m.names) :
    ∀ n ∈ fileNames m, ∀ d, Anc d n → Before (fileNames m) d n := by
  intro n hn d hd
  have hall : ∀ {x d : Bytes}, Anc d x → x ∈ m.names → d ∈ m.names := by
    intro x d h
    induction h with
    | step hp => intro hx; exact hclosed _ hx _ hp
    | trans hp _ ih => intro hx; exact ih (hclosed _ hx _ hp)
  have hdm : d ∈ fileNames m := (finalize_same_names m d).mpr (hall hd ((finalize_same_names m n).mp hn))
  obtain ⟨s, hs, hnd⟩ := hd.prefix
  rw [hnd] at hn ⊢
  exact parent_before_child (sorted_strict m hm) hdm hn hs

/-- The root directory member, when present, precedes every other absolute member. -/
theorem root_precedes (m : EMap) (hm : MapOK m) (hroot : [SLASH] ∈ m.names)
    (r : Bytes) (hn : SLASH :: r ∈ fileNames m) (hr : r ≠ []) :
    Before (fileNames m) [SLASH] (SLASH :: r) :=
  parent_before_child (d := [SLASH]) (s := r) (sorted_strict m hm)
    ((finalize_same_names m _).mpr hroot) hn hr

/-- **`AddMissingStageDirs` closes the set under parent directories.**  Partial: needs that
    for the names already present `path.Dir(name)` is the name cut at its last slash (true for
    clean absolute names with at least two elements). -/
theorem addMissing_parent_closed_partial (env : Env) (m m' : EMap)
    (h : addMissingStageDirs env m = .ok m')
    (hclean : ∀ e ∈ m, ∀ p, parentOf e.name = some p → pathDir e.name = p) :
    (∀ n, n ∈ m.names → n ∈ m'.names) ∧
    (∀ n ∈ m'.names, ∀ p, parentOf n = some p → p ∈ m'.names) := by
  unfold addMissingStageDirs at h
  simp only at h
  obtain ⟨b1, b2, b3⟩ := addChains_spec _ h
  refine ⟨b1, ?_⟩
  intro n hn p hp
  rcases b3 n hn with hm | ⟨d, hd, hnd | hnd⟩
  · -- an original member: its path.Dir is one of the stage directories
    obtain ⟨e, he, hen⟩ := List.mem_map.mp hm
    have hdir : pathDir e.name = p := hclean e he p (by rw [hen]; exact hp)
    have hpne : p ≠ [] := (parentOf_split hp).choose_spec.2.2
    have : p ∈ (m.map fun e => pathDir e.name).filter (fun d => !d.isEmpty) := by
      apply List.mem_filter.mpr
      refine ⟨List.mem_map.mpr ⟨e, he, hdir⟩, ?_⟩
      cases p with
      | nil => exact absurd rfl hpne
      | cons _ _ => rfl
    exact (b2 p this).1
  · rw [hnd] at hp
    exact (b2 d hd).2 p (Anc.step hp)
  · exact (b2 d hd).2 p (hnd.snoc hp)

/-- The root member: it is added as soon as some member lies directly below `/`. -/
theorem addMissing_root (env : Env) (m m' : EMap) (h : addMissingStageDirs env m = .ok m')
    (e : Entry) (he : e ∈ m) (hd : pathDir e.name = [SLASH]) : [SLASH] ∈ m'.names := by
  unfold addMissingStageDirs at h
  simp only at h
  obtain ⟨_, b2, _⟩ := addChains_spec _ h
  refine (b2 [SLASH] ?_).1
  apply List.mem_filter.mpr
  exact ⟨List.mem_map.mpr ⟨e, he, hd⟩, rfl⟩

/-- Fuel: the loop of `AddMissingStageDirs` needs at most `dir.length + 1` iterations — any two
    amounts of fuel above `dir.length` give the same result. -/
theorem addChain_fuel (env : Env) : ∀ (f1 f2 : Nat) (m : EMap) (dir : Bytes),
    dir.length < f1 → dir.length < f2 → addChain env f1 m dir = addChain env f2 m dir := by
  intro f1
  induction f1 with
  | zero => intro f2 m dir h1; omega
  | succ f1 ih =>
    intro f2 m dir h1 h2
    cases f2 with
    | zero => omega
    | succ f2 =>
      simp only [addChain]
      split
      · rfl
      · split
        · rfl
        · rename_i pos hls
          split
          · rfl
          · rename_i hpos
            have hpar : parentOf dir = some (dir.take pos) := by simp [parentOf, hls, hpos]
            have := parentOf_length hpar
            exact ih f2 _ _ (by omega) (by omega)

/-- **Hard links.**  In the final list every entry that `fixHardlinks` turned into a hard link
    names, as its target, an entry that stands earlier in the list, has the same inode
    identity, and is a regular-file entry. -/
theorem hardlink_earlier_same_inode (m : EMap) (hm : MapOK m) : LinksOK [] (finalize m) := by
  unfold finalize
  apply fixHardlinks_links
  · intro e he
    exact hm.2 e ((mem_sortByName m e).mp he)
  · intro id nm h; cases h

/-- the same, spelled out for an arbitrary position of the list -/
theorem hardlink_earlier_same_inode_at (m : EMap) (hm : MapOK m) (pre post : List Entry) (x : Entry)
    (hsplit : finalize m = pre ++ x :: post) (hx : x.ltype = ltHardlink) :
    ∃ y ∈ pre, y.name = x.target ∧ y.devino = x.devino ∧ y.ltype = ltFile := by
  have key : ∀ (pre earlier : List Entry), LinksOK earlier (pre ++ x :: post) →
      ∃ y ∈ earlier ++ pre, y.name = x.target ∧ y.devino = x.devino ∧ y.ltype = ltFile := by
    intro pre
    induction pre with
    | nil =>
      intro earlier h
      obtain ⟨y, hy, h1⟩ := h.1 hx
      exact ⟨y, by simpa using hy, h1⟩
    | cons p ps ih =>
      intro earlier h
      obtain ⟨y, hy, h1⟩ := ih (earlier ++ [p]) h.2
      exact ⟨y, by simpa using hy, h1⟩
  have := hardlink_earlier_same_inode m hm
  rw [hsplit] at this
  simpa using key pre [] this

/-- **omit** (no wildcard): the named member is gone, every other member stays. -/
theorem omit_removes (m m' : EMap) (n : Bytes) (h : removeFile m n = .ok m') :
    n ∉ fileNames m' ∧ ∀ x, x ≠ n → (x ∈ fileNames m' ↔ x ∈ fileNames m) := by
  unfold removeFile at h
  split at h
  · cases h
    refine ⟨fun hn => names_erase m n ((finalize_same_names _ _).mp hn), ?_⟩
    intro x hx
    rw [finalize_same_names, finalize_same_names, mem_names_erase]
    exact ⟨fun h => h.1, fun h => ⟨h, hx⟩⟩
  · cases h

/-- **omit with a wildcard**: every matched name is gone, unmatched members stay. -/
theorem omit_wildcard_removes (matched : List Bytes) : ∀ (m : EMap),
    (∀ n ∈ matched, n ∉ fileNames (removeGlob m matched)) ∧
    (∀ x, x ∉ matched → (x ∈ fileNames (removeGlob m matched) ↔ x ∈ fileNames m)) := by
  have key : ∀ (matched : List Bytes) (m : EMap) (x : Bytes),
      x ∈ (removeGlob m matched).names ↔ x ∈ m.names ∧ x ∉ matched := by
    intro matched
    induction matched with
    | nil => intro m x; simp [removeGlob]
    | cons n ns ih =>
      intro m x
      unfold removeGlob at ih ⊢
      simp only [List.foldl_cons]
      rw [ih]
      split
      · rw [mem_names_erase]
        simp only [List.mem_cons, not_or]
        constructor
        · rintro ⟨⟨a, b⟩, c⟩; exact ⟨a, b, c⟩
        · rintro ⟨a, b, c⟩; exact ⟨⟨a, b⟩, c⟩
      · rename_i hh
        have hnm : n ∉ m.names := fun hm' => hh ((has_iff _ _).mpr hm')
        simp only [List.mem_cons, not_or]
        constructor
        · rintro ⟨a, c⟩; exact ⟨a, fun e => hnm (e ▸ a), c⟩
        · rintro ⟨a, _, c⟩; exact ⟨a, c⟩
  intro m
  constructor
  · intro n hn h
    exact ((key matched m n).mp ((finalize_same_names _ _).mp h)).2 hn
  · intro x hx
    rw [finalize_same_names, finalize_same_names, key]
    exact ⟨fun h => h.1, fun h => ⟨h, hx⟩⟩

/-- **ExcludeFiles ∘ UnstagedFileMap**: a name recorded for installed packages that was not
    staged when the exclusion map was taken is not a member afterwards, whatever was added in
    between; a name that was staged at that time is never excluded. -/
theorem exclude_removes (m0 m : EMap) (installed : List Bytes) (n : Bytes) :
    (n ∈ installed → n ∉ m0.names → n ∉ (excludeFiles m (unstagedFileMap m0 installed)).names) ∧
    (n ∈ m0.names → (n ∈ (excludeFiles m (unstagedFileMap m0 installed)).names ↔ n ∈ m.names)) := by
  have hU : ∀ x, x ∈ unstagedFileMap m0 installed ↔ x ∈ installed ∧ x ∉ m0.names := by
    intro x
    unfold unstagedFileMap
    rw [List.mem_filter]
    constructor
    · rintro ⟨a, b⟩
      exact ⟨a, (has_false_iff _ _).mp (by simpa using b)⟩
    · rintro ⟨a, b⟩
      exact ⟨a, by simp [(has_false_iff _ _).mpr b]⟩
  have hE : ∀ (U : List Bytes) (x : Bytes), x ∈ (excludeFiles m U).names ↔ x ∈ m.names ∧ x ∉ U := by
    intro U x
    show x ∈ List.map (·.name) (m.filter fun e => !U.contains e.name) ↔ x ∈ List.map (·.name) m ∧ x ∉ U
    simp only [List.mem_map, List.mem_filter]
    constructor
    · rintro ⟨e, ⟨he, hc⟩, rfl⟩
      refine ⟨⟨e, he, rfl⟩, fun hu => ?_⟩
      have : U.contains e.name = true := List.contains_iff_mem.mpr hu
      rw [this] at hc; cases hc
    · rintro ⟨⟨e, he, rfl⟩, hn⟩
      refine ⟨e, ⟨he, ?_⟩, rfl⟩
      cases hc : U.contains e.name with
      | false => rfl
      | true => exact absurd (List.contains_iff_mem.mp hc) hn
  have hmem : ∀ x, x ∈ (excludeFiles m (unstagedFileMap m0 installed)).names ↔
      x ∈ m.names ∧ ¬ (x ∈ installed ∧ x ∉ m0.names) := by
    intro x
    rw [hE, hU]
  constructor
  · intro hi hn0 h
    exact ((hmem n).mp h).2 ⟨hi, hn0⟩
  · intro h0
    rw [hmem]
    exact ⟨fun h => h.1, fun h => ⟨h, fun hh => hh.2 h0⟩⟩

/-- **Member names are `.` + name, in list order** (so absolute names come out under `./`). -/
theorem members_dot_relative : ∀ (files : List Entry) (hs : List Header),
    tarHeaders files = .ok hs → hs.map (·.name) = files.map (fun e => 46 :: e.name) := by
  have hname : ∀ (e : Entry) (h : Header), headerOf e = .ok h → h.name = 46 :: e.name := by
    intro e h hh
    unfold headerOf at hh
    simp only at hh
    split at hh
    · cases hh; rfl
    · split at hh
      · cases hh; rfl
      · split at hh
        · cases hh; rfl
        · split at hh
          · split at hh
            · cases hh
            · cases hh; rfl
          · split at hh
            · cases hh; rfl
            · cases hh; rfl
  intro files
  induction files with
  | nil => intro hs h; cases h; rfl
  | cons e es ih =>
    intro hs h
    simp only [tarHeaders] at h
    split at h
    · cases h
    · rename_i hd hh
      obtain ⟨tl, htl, hcons⟩ := except_map_ok h
      rw [← hcons, List.map_cons, List.map_cons, ih tl htl, hname e hd hh]

/-! ### non-vacuity: the hypotheses are met by concrete, non-trivial instances -/

def exA : Entry := { ltype := ltFile, name := b!"/usr/lib/a/x", devino := some (1, 7) }
def exB : Entry := { ltype := ltFile, name := b!"/usr/lib/a-b", devino := some (1, 7) }
def exC : Entry := { ltype := ltDir, name := b!"/usr/lib/a" }
def exD : Entry := { ltype := ltDir, name := b!"/usr/lib" }
def exE : Entry := { ltype := ltDir, name := b!"/usr" }
def exMap : EMap := [exA, exB, exC, exD, exE]

example : fileNames exMap = [b!"/usr", b!"/usr/lib", b!"/usr/lib/a", b!"/usr/lib/a-b", b!"/usr/lib/a/x"] := by
  decide
/-- the sibling `a-b` sorts between `a` and `a/x`, and becomes the regular member of the inode
    group; `a/x` is the hard link -/
example : (finalize exMap).map (fun e => (e.ltype, e.target)) =
    [(ltDir, []), (ltDir, []), (ltDir, []), (ltFile, []), (ltHardlink, b!"/usr/lib/a-b")] := by
  decide
example : parentOf b!"/usr/lib/a/x" = some b!"/usr/lib/a" := by decide
example : Anc b!"/usr" b!"/usr/lib/a/x" :=
  Anc.trans (p := b!"/usr/lib/a") (by decide) (Anc.trans (p := b!"/usr/lib") (by decide) (Anc.step (by decide)))
example : pathDir b!"/usr/lib/a/x" = b!"/usr/lib/a" := by decide
example : removeFile exMap b!"/usr/lib/a-b" = .ok [exA, exC, exD, exE] := by rfl

end Lc.Props.C06
