/-
  C06 — the stage tarball contains exactly the right paths, in an extractable order.

  Theorems over the model of the member-set pipeline (Lc/Model/StageList.lean).  What is
  proved here, for all maps / step lists / byte strings:
    * the pipeline keeps member names pairwise different and never stores a hard link or an
      inode identity on a non-regular entry (`pipeline_invariant`),
    * `Finalize` yields a strictly byte-sorted list with the same names (`sorted_strict`,
      `members_unique`, `finalize_same_names`),
    * a strictly sorted list puts every path before all paths it is a proper prefix of
      (`Lc.prefix_lt`, `Lc.parent_before_child` in Lc/Lemmas/Prefix.lean), hence every member
      is preceded by all its parent directories once the set is parent-closed
      (`parents_precede_partial`, `root_precedes`),
    * `AddMissingStageDirs` makes the set parent-closed (`addMissing_parent_closed_partial`;
      hypothesis: on the names present `path.Dir` agrees with cutting at the last slash, i.e.
      names are clean), with `dir.length + 1` loop iterations sufficing (`addChain_fuel`),
    * FULL, over the whole pipeline: member names that are clean absolute paths (`CleanAbs`:
      what `parseLine` yields since the fix "add-files names are cleaned",
      `Lc.Props.C17.parseLine_name_clean`) stay so through every step (`pipeline_names_clean`);
      on clean names `path.Dir` is the cut at the last slash (`pathDir_of_clean`), so
      `AddMissingStageDirs` closes the set under parents without further hypothesis and adds
      nothing but ancestors of members (`addMissing_parent_closed`,
      `addMissing_adds_only_ancestors`); since `getStageFileList` ends with
      `AddMissingStageDirs(); Finalize()`, in the list of every successful run every member is
      preceded by each of its ancestor directories (`parents_precede`), and so it is in the
      archive, under `./` (`archive_parents_precede`),
    * the `fixHardlinks` scan turns an entry into a hard link only to an earlier regular-file
      entry of the same inode (`hardlink_earlier_same_inode`),
    * omit lines (plain and wildcard) and `ExcludeFiles` remove exactly the named members
      (`omit_removes`, `omit_wildcard_removes`, `exclude_removes`),
    * archive member names are `.` + name, in list order (`members_dot_relative`).
  Not proved here (differential only): that the harness's expansion of list lines and globs
  into steps is what the Go code does, and the set-level membership specification
  (`Spec.Stage.expectedNames`), which the driver evaluates on the real archive.
-/
import Lc.Lemmas.StageClosure
import Lc.Lemmas.StageClosed
import Lc.Spec.Stage

namespace Lc.Props.C06
open Lc Lc.Stage
open Lc.TreeWF (CleanAbs)

/-- the names of `fl.Files` after `Finalize` -/
def fileNames (m : EMap) : List Bytes := EMap.names (finalize m)

/-- Every map the pipeline can produce has pairwise different names, holds no hard-link
    entry, and only regular-file entries carry an inode identity. -/
theorem pipeline_invariant (env : Env) (steps : List Step) (s : St)
    (h : runSteps env {} steps = .ok s) : MapOK s.map :=
  runSteps_ok steps h MapOK.nil

theorem finalize_same_names (m : EMap) (n : Bytes) : n ∈ fileNames m ↔ n ∈ m.names := by
  unfold fileNames finalize
  rw [names_fixHardlinks, names_sortByName_mem]

/-- `Finalize` sorts strictly by byte order. -/
theorem sorted_strict (m : EMap) (hm : MapOK m) : StrictSorted (fileNames m) := by
  unfold fileNames finalize
  rw [names_fixHardlinks]
  exact sortByName_sorted m hm.1

/-- No member name occurs twice. -/
theorem members_unique (m : EMap) (hm : MapOK m) : (fileNames m).Nodup :=
  (sorted_strict m hm).nodup

/-- The same two facts for the result of a whole pipeline run. -/
theorem stageFileList_sorted_unique (env : Env) (steps : List Step) (files : List Entry)
    (h : stageFileList env steps = .ok files) :
    StrictSorted (EMap.names files) ∧ (EMap.names files).Nodup := by
  obtain ⟨s, hs, hf⟩ := except_map_ok h
  have hm := pipeline_invariant env steps s hs
  rw [← hf]
  exact ⟨sorted_strict s.map hm, members_unique s.map hm⟩

/-- **Parents precede.**  In the final list every member is preceded by each of its ancestor
    directories, provided the member set is parent-closed.  (`Anc d n`: `d` is obtained from
    `n` by cutting at a last slash one or more times; the root `/` is `root_precedes`.)
    Partial: parent-closedness is a hypothesis here; `addMissing_parent_closed_partial`
    establishes it right after `AddMissingStageDirs`, and omit lines can destroy it again
    (omitting a directory that still has members). -/
theorem parents_precede_partial (m : EMap) (hm : MapOK m)
    (hclosed : ∀ n ∈ m.names, ∀ p, parentOf n = some p → p ∈ m.names) :
    ∀ n ∈ fileNames m, ∀ d, Anc d n → Before (fileNames m) d n := by
  intro n hn d hd
  have hall : ∀ {x d : Bytes}, Anc d x → x ∈ m.names → d ∈ m.names := by
    intro x d h
    induction h with
    | step hp => intro hx; exact hclosed _ hx _ hp
    | trans hp _ ih => intro hx; exact ih (hclosed _ hx _ hp)
  have hdm : d ∈ fileNames m := (finalize_same_names m d).mpr (hall hd ((finalize_same_names m n).mp hn))
  obtain ⟨s, hs, hnd⟩ := hd.prefix
  rw [hnd] at hn ⊢
  exact parent_before_child (sorted_strict m hm) hdm hn hs

/-- The root directory member, when present, precedes every other absolute member. -/
theorem root_precedes (m : EMap) (hm : MapOK m) (hroot : [SLASH] ∈ m.names)
    (r : Bytes) (hn : SLASH :: r ∈ fileNames m) (hr : r ≠ []) :
    Before (fileNames m) [SLASH] (SLASH :: r) :=
  parent_before_child (d := [SLASH]) (s := r) (sorted_strict m hm)
    ((finalize_same_names m _).mpr hroot) hn hr

/-- **`AddMissingStageDirs` closes the set under parent directories.**  Partial: needs that
    for the names already present `path.Dir(name)` is the name cut at its last slash (true for
    clean absolute names with at least two elements). -/
theorem addMissing_parent_closed_partial (env : Env) (m m' : EMap)
    (h : addMissingStageDirs env m = .ok m')
    (hclean : ∀ e ∈ m, ∀ p, parentOf e.name = some p → pathDir e.name = p) :
    (∀ n, n ∈ m.names → n ∈ m'.names) ∧
    (∀ n ∈ m'.names, ∀ p, parentOf n = some p → p ∈ m'.names) := by
  unfold addMissingStageDirs at h
  simp only at h
  obtain ⟨b1, b2, b3⟩ := addChains_spec _ h
  refine ⟨b1, ?_⟩
  intro n hn p hp
  rcases b3 n hn with hm | ⟨d, hd, hnd | hnd⟩
  · -- an original member: its path.Dir is one of the stage directories
    obtain ⟨e, he, hen⟩ := List.mem_map.mp hm
    have hdir : pathDir e.name = p := hclean e he p (by rw [hen]; exact hp)
    have hpne : p ≠ [] := (parentOf_split hp).choose_spec.2.2
    have : p ∈ (m.map fun e => pathDir e.name).filter (fun d => !d.isEmpty) := by
      apply List.mem_filter.mpr
      refine ⟨List.mem_map.mpr ⟨e, he, hdir⟩, ?_⟩
      cases p with
      | nil => exact absurd rfl hpne
      | cons _ _ => rfl
    exact (b2 p this).1
  · rw [hnd] at hp
    exact (b2 d hd).2 p (Anc.step hp)
  · exact (b2 d hd).2 p (hnd.snoc hp)

/-! ### the full statements: clean names through the whole pipeline -/

/-- **`path.Dir` on clean names.**  For a clean absolute member name (`CleanAbs n`:
    `path.Clean n = n`, leading slash) the loop step of `AddMissingStageDirs` — cut at the last
    slash — yields exactly `path.Dir n`, and that is a clean absolute name again.  This is the
    hypothesis `hclean` of `addMissing_parent_closed_partial`, now derived.  (For `n = "/"` and
    for names directly below the root there is no loop step: `parentOf n = none`.) -/
theorem pathDir_of_clean (n p : Bytes) (hn : CleanAbs n) (hp : parentOf n = some p) :
    pathDir n = p ∧ CleanAbs p :=
  Lc.Stage.pathDir_of_clean hn hp

/-- **Names stay clean.**  Every step keeps "all member names are clean absolute paths" as
    long as the names the step itself brings in are (`StepClean`: the entry name of an add, the
    new name of a cloned device node, the candidates of the symlink recovery; deletions,
    exclusion and `AddMissingStageDirs` need nothing) — hence every map a run can produce. -/
theorem pipeline_names_clean (env : Env) (steps : List Step) (s : St)
    (hsteps : ∀ x ∈ steps, StepClean x) (h : runSteps env {} steps = .ok s) : NamesClean s.map :=
  runSteps_clean steps h NamesClean.nil hsteps

/-- **`AddMissingStageDirs` closes the set under parent directories** (full): from a map whose
    names are clean absolute paths it yields a map that keeps every member, whose names are
    clean absolute paths again, and in which the parent of every member is a member. -/
theorem addMissing_parent_closed (env : Env) (m m' : EMap) (hc : NamesClean m)
    (h : addMissingStageDirs env m = .ok m') :
    NamesClean m' ∧ (∀ n, n ∈ m.names → n ∈ m'.names) ∧
    (∀ n ∈ m'.names, ∀ p, parentOf n = some p → p ∈ m'.names) := by
  have hp := addMissing_parent_closed_partial env m m' h (fun e he p hpar =>
    (Lc.Stage.pathDir_of_clean (hc e.name (List.mem_map.mpr ⟨e, he, rfl⟩)) hpar).1)
  exact ⟨addMissing_clean h hc, hp.1, hp.2⟩

/-- … and it adds nothing else: a member of the result was a member before, or is an ancestor
    directory of one, or is the root `/` (added when a member lies directly below it). -/
theorem addMissing_adds_only_ancestors (env : Env) (m m' : EMap) (hc : NamesClean m)
    (h : addMissingStageDirs env m = .ok m') :
    ∀ n ∈ m'.names, n ∈ m.names ∨ n = [SLASH] ∨ ∃ x ∈ m.names, Anc n x := by
  unfold addMissingStageDirs at h
  simp only at h
  obtain ⟨_, _, b3⟩ := addChains_spec _ h
  intro n hn
  rcases b3 n hn with h0 | ⟨d, hd, hnd⟩
  · exact Or.inl h0
  · obtain ⟨e, he, hed⟩ := List.mem_map.mp (List.mem_filter.mp hd).1
    have hem : e.name ∈ m.names := List.mem_map.mpr ⟨e, he, rfl⟩
    rcases pathDir_clean_cases (hc e.name hem) with hroot | hpar
    · -- `path.Dir` is the root: only the root itself is added
      rw [hed] at hroot
      rcases hnd with e1 | ha
      · exact Or.inr (Or.inl (by rw [e1, hroot]))
      · rw [hroot] at ha; exact absurd ha (not_anc_root n)
    · rw [hed] at hpar
      rcases hnd with e1 | ha
      · exact Or.inr (Or.inr ⟨e.name, hem, by rw [e1]; exact Anc.step hpar⟩)
      · exact Or.inr (Or.inr ⟨e.name, hem, Anc.trans hpar ha⟩)

/-- **Parents precede** (the sentence of the property, full).  `getStageFileList` ends with
    `AddMissingStageDirs(); Finalize()` (step lists end with `.closure`).  For every
    environment and every step list whose own names are clean absolute paths: if the run
    succeeds, then in `fl.Files` every member `n` is preceded by every ancestor directory `d`
    of `n` (`Anc d n`: cut `n` at a last slash one or more times, the root excluded — see
    `root_precedes`); in particular every ancestor IS a member.  No hypothesis on the map, on
    the deletions or on the file system. -/
theorem parents_precede (env : Env) (steps : List Step) (files : List Entry)
    (hsteps : ∀ x ∈ steps, StepClean x)
    (h : stageFileList env (steps ++ [.closure]) = .ok files) :
    ∀ n ∈ EMap.names files, ∀ d, Anc d n → Before (EMap.names files) d n := by
  obtain ⟨s, hs, hf⟩ := except_map_ok h
  have hok := pipeline_invariant env _ s hs
  obtain ⟨s1, h1, h2⟩ := runSteps_append steps [.closure] hs
  have hc1 : NamesClean s1.map := pipeline_names_clean env steps s1 hsteps h1
  -- the last step
  simp only [runSteps] at h2
  split at h2
  · cases h2
  · rename_i s2 h3
    cases h2
    obtain ⟨m', h4, h5⟩ := except_map_ok h3
    have hclosed := (addMissing_parent_closed env s1.map m' hc1 h4).2.2
    have hmap : s.map = m' := by rw [← h5]
    rw [← hf]
    rw [← hmap] at hclosed
    exact parents_precede_partial s.map hok hclosed

/-- the same for the member names of the run: all are clean absolute paths -/
theorem stageFileList_names_clean (env : Env) (steps : List Step) (files : List Entry)
    (hsteps : ∀ x ∈ steps, StepClean x)
    (h : stageFileList env (steps ++ [.closure]) = .ok files) :
    ∀ n ∈ EMap.names files, CleanAbs n := by
  obtain ⟨s, hs, hf⟩ := except_map_ok h
  have hall : ∀ x ∈ steps ++ [.closure], StepClean x := by
    intro x hx
    rcases List.mem_append.mp hx with hx | hx
    · exact hsteps x hx
    · simp at hx; rw [hx]; trivial
  have hc := pipeline_names_clean env _ s hall hs
  intro n hn
  rw [← hf] at hn
  exact hc n ((finalize_same_names s.map n).mp hn)

/-- The root member: it is added as soon as some member lies directly below `/`. -/
theorem addMissing_root (env : Env) (m m' : EMap) (h : addMissingStageDirs env m = .ok m')
    (e : Entry) (he : e ∈ m) (hd : pathDir e.name = [SLASH]) : [SLASH] ∈ m'.names := by
  unfold addMissingStageDirs at h
  simp only at h
  obtain ⟨_, b2, _⟩ := addChains_spec _ h
  refine (b2 [SLASH] ?_).1
  apply List.mem_filter.mpr
  exact ⟨List.mem_map.mpr ⟨e, he, hd⟩, rfl⟩

/-- Fuel: the loop of `AddMissingStageDirs` needs at most `dir.length + 1` iterations — any two
    amounts of fuel above `dir.length` give the same result. -/
theorem addChain_fuel (env : Env) : ∀ (f1 f2 : Nat) (m : EMap) (dir : Bytes),
    dir.length < f1 → dir.length < f2 → addChain env f1 m dir = addChain env f2 m dir := by
  intro f1
  induction f1 with
  | zero => intro f2 m dir h1; omega
  | succ f1 ih =>
    intro f2 m dir h1 h2
    cases f2 with
    | zero => omega
    | succ f2 =>
      simp only [addChain]
      split
      · rfl
      · split
        · rfl
        · rename_i pos hls
          split
          · rfl
          · rename_i hpos
            have hpar : parentOf dir = some (dir.take pos) := by simp [parentOf, hls, hpos]
            have := parentOf_length hpar
            exact ih f2 _ _ (by omega) (by omega)

/-- **Hard links.**  In the final list every entry that `fixHardlinks` turned into a hard link
    names, as its target, an entry that stands earlier in the list, has the same inode
    identity, and is a regular-file entry. -/
theorem hardlink_earlier_same_inode (m : EMap) (hm : MapOK m) : LinksOK [] (finalize m) := by
  unfold finalize
  apply fixHardlinks_links
  · intro e he
    exact hm.2 e ((mem_sortByName m e).mp he)
  · intro id nm h; cases h

/-- the same, spelled out for an arbitrary position of the list -/
theorem hardlink_earlier_same_inode_at (m : EMap) (hm : MapOK m) (pre post : List Entry) (x : Entry)
    (hsplit : finalize m = pre ++ x :: post) (hx : x.ltype = ltHardlink) :
    ∃ y ∈ pre, y.name = x.target ∧ y.devino = x.devino ∧ y.ltype = ltFile := by
  have key : ∀ (pre earlier : List Entry), LinksOK earlier (pre ++ x :: post) →
      ∃ y ∈ earlier ++ pre, y.name = x.target ∧ y.devino = x.devino ∧ y.ltype = ltFile := by
    intro pre
    induction pre with
    | nil =>
      intro earlier h
      obtain ⟨y, hy, h1⟩ := h.1 hx
      exact ⟨y, by simpa using hy, h1⟩
    | cons p ps ih =>
      intro earlier h
      obtain ⟨y, hy, h1⟩ := ih (earlier ++ [p]) h.2
      exact ⟨y, by simpa using hy, h1⟩
  have := hardlink_earlier_same_inode m hm
  rw [hsplit] at this
  simpa using key pre [] this

/-- **omit** (no wildcard): the named member is gone, every other member stays. -/
theorem omit_removes (m m' : EMap) (n : Bytes) (h : removeFile m n = .ok m') :
    n ∉ fileNames m' ∧ ∀ x, x ≠ n → (x ∈ fileNames m' ↔ x ∈ fileNames m) := by
  unfold removeFile at h
  split at h
  · cases h
    refine ⟨fun hn => names_erase m n ((finalize_same_names _ _).mp hn), ?_⟩
    intro x hx
    rw [finalize_same_names, finalize_same_names, mem_names_erase]
    exact ⟨fun h => h.1, fun h => ⟨h, hx⟩⟩
  · cases h

/-- **omit with a wildcard**: every matched name is gone, unmatched members stay. -/
theorem omit_wildcard_removes (matched : List Bytes) : ∀ (m : EMap),
    (∀ n ∈ matched, n ∉ fileNames (removeGlob m matched)) ∧
    (∀ x, x ∉ matched → (x ∈ fileNames (removeGlob m matched) ↔ x ∈ fileNames m)) := by
  have key : ∀ (matched : List Bytes) (m : EMap) (x : Bytes),
      x ∈ (removeGlob m matched).names ↔ x ∈ m.names ∧ x ∉ matched := by
    intro matched
    induction matched with
    | nil => intro m x; simp [removeGlob]
    | cons n ns ih =>
      intro m x
      unfold removeGlob at ih ⊢
      simp only [List.foldl_cons]
      rw [ih]
      split
      · rw [mem_names_erase]
        simp only [List.mem_cons, not_or]
        constructor
        · rintro ⟨⟨a, b⟩, c⟩; exact ⟨a, b, c⟩
        · rintro ⟨a, b, c⟩; exact ⟨⟨a, b⟩, c⟩
      · rename_i hh
        have hnm : n ∉ m.names := fun hm' => hh ((has_iff _ _).mpr hm')
        simp only [List.mem_cons, not_or]
        constructor
        · rintro ⟨a, c⟩; exact ⟨a, fun e => hnm (e ▸ a), c⟩
        · rintro ⟨a, _, c⟩; exact ⟨a, c⟩
  intro m
  constructor
  · intro n hn h
    exact ((key matched m n).mp ((finalize_same_names _ _).mp h)).2 hn
  · intro x hx
    rw [finalize_same_names, finalize_same_names, key]
    exact ⟨fun h => h.1, fun h => ⟨h, hx⟩⟩

/-- **ExcludeFiles ∘ UnstagedFileMap**: a name recorded for installed packages that was not
    staged when the exclusion map was taken is not a member afterwards, whatever was added in
    between; a name that was staged at that time is never excluded. -/
theorem exclude_removes (m0 m : EMap) (installed : List Bytes) (n : Bytes) :
    (n ∈ installed → n ∉ m0.names → n ∉ (excludeFiles m (unstagedFileMap m0 installed)).names) ∧
    (n ∈ m0.names → (n ∈ (excludeFiles m (unstagedFileMap m0 installed)).names ↔ n ∈ m.names)) := by
  have hU : ∀ x, x ∈ unstagedFileMap m0 installed ↔ x ∈ installed ∧ x ∉ m0.names := by
    intro x
    unfold unstagedFileMap
    rw [List.mem_filter]
    constructor
    · rintro ⟨a, b⟩
      exact ⟨a, (has_false_iff _ _).mp (by simpa using b)⟩
    · rintro ⟨a, b⟩
      exact ⟨a, by simp [(has_false_iff _ _).mpr b]⟩
  have hE : ∀ (U : List Bytes) (x : Bytes), x ∈ (excludeFiles m U).names ↔ x ∈ m.names ∧ x ∉ U := by
    intro U x
    show x ∈ List.map (·.name) (m.filter fun e => !U.contains e.name) ↔ x ∈ List.map (·.name) m ∧ x ∉ U
    simp only [List.mem_map, List.mem_filter]
    constructor
    · rintro ⟨e, ⟨he, hc⟩, rfl⟩
      refine ⟨⟨e, he, rfl⟩, fun hu => ?_⟩
      have : U.contains e.name = true := List.contains_iff_mem.mpr hu
      rw [this] at hc; cases hc
    · rintro ⟨⟨e, he, rfl⟩, hn⟩
      refine ⟨e, ⟨he, ?_⟩, rfl⟩
      cases hc : U.contains e.name with
      | false => rfl
      | true => exact absurd (List.contains_iff_mem.mp hc) hn
  have hmem : ∀ x, x ∈ (excludeFiles m (unstagedFileMap m0 installed)).names ↔
      x ∈ m.names ∧ ¬ (x ∈ installed ∧ x ∉ m0.names) := by
    intro x
    rw [hE, hU]
  constructor
  · intro hi hn0 h
    exact ((hmem n).mp h).2 ⟨hi, hn0⟩
  · intro h0
    rw [hmem]
    exact ⟨fun h => h.1, fun h => ⟨h, fun hh => hh.2 h0⟩⟩

/-- **Member names are `.` + name, in list order** (so absolute names come out under `./`). -/
theorem members_dot_relative : ∀ (files : List Entry) (hs : List Header),
    tarHeaders files = .ok hs → hs.map (·.name) = files.map (fun e => 46 :: e.name) := by
  have hname : ∀ (e : Entry) (h : Header), headerOf e = .ok h → h.name = 46 :: e.name := by
    intro e h hh
    unfold headerOf at hh
    simp only at hh
    split at hh
    · cases hh; rfl
    · split at hh
      · cases hh; rfl
      · split at hh
        · cases hh; rfl
        · split at hh
          · split at hh
            · cases hh
            · cases hh; rfl
          · split at hh
            · cases hh; rfl
            · cases hh; rfl
  intro files
  induction files with
  | nil => intro hs h; cases h; rfl
  | cons e es ih =>
    intro hs h
    simp only [tarHeaders] at h
    split at h
    · cases h
    · rename_i hd hh
      obtain ⟨tl, htl, hcons⟩ := except_map_ok h
      rw [← hcons, List.map_cons, List.map_cons, ih tl htl, hname e hd hh]

/-- **Parents precede, in the archive.**  The member sequence `MakeTar` writes for the list of
    a successful run: every member name is `./…` (relative under `./`), and the member of
    every ancestor directory of a member stands earlier in the archive. -/
theorem archive_parents_precede (env : Env) (steps : List Step) (files : List Entry)
    (hdrs : List Header) (hsteps : ∀ x ∈ steps, StepClean x)
    (h : stageFileList env (steps ++ [.closure]) = .ok files)
    (ht : tarHeaders files = .ok hdrs) :
    (∀ hd ∈ hdrs, ∃ r, hd.name = 46 :: SLASH :: r) ∧
    (∀ n ∈ EMap.names files, ∀ d, Anc d n →
      Before (hdrs.map (·.name)) (46 :: d) (46 :: n)) := by
  have hnames := members_dot_relative files hdrs ht
  constructor
  · intro hd hhd
    have : hd.name ∈ files.map (fun e => 46 :: e.name) := by
      rw [← hnames]; exact List.mem_map.mpr ⟨hd, hhd, rfl⟩
    obtain ⟨e, he, hen⟩ := List.mem_map.mp this
    obtain ⟨r, hr⟩ := cleanAbs_head
      (stageFileList_names_clean env steps files hsteps h e.name (List.mem_map.mpr ⟨e, he, rfl⟩))
    exact ⟨r, by rw [← hen, hr]⟩
  · intro n hn d hd
    have hb := Before.map (fun x => 46 :: x) (parents_precede env steps files hsteps h n hn d hd)
    have e : hdrs.map (·.name) = (EMap.names files).map (fun x => 46 :: x) := by
      rw [hnames]; unfold EMap.names; rw [List.map_map]; rfl
    rw [e]; exact hb

/-! ### non-vacuity: the hypotheses are met by concrete, non-trivial instances -/

def exA : Entry := { ltype := ltFile, name := b!"/usr/lib/a/x", devino := some (1, 7) }
def exB : Entry := { ltype := ltFile, name := b!"/usr/lib/a-b", devino := some (1, 7) }
def exC : Entry := { ltype := ltDir, name := b!"/usr/lib/a" }
def exD : Entry := { ltype := ltDir, name := b!"/usr/lib" }
def exE : Entry := { ltype := ltDir, name := b!"/usr" }
def exMap : EMap := [exA, exB, exC, exD, exE]

example : fileNames exMap = [b!"/usr", b!"/usr/lib", b!"/usr/lib/a", b!"/usr/lib/a-b", b!"/usr/lib/a/x"] := by
  decide
/-- the sibling `a-b` sorts between `a` and `a/x`, and becomes the regular member of the inode
    group; `a/x` is the hard link -/
example : (finalize exMap).map (fun e => (e.ltype, e.target)) =
    [(ltDir, []), (ltDir, []), (ltDir, []), (ltFile, []), (ltHardlink, b!"/usr/lib/a-b")] := by
  decide
example : parentOf b!"/usr/lib/a/x" = some b!"/usr/lib/a" := by decide
example : Anc b!"/usr" b!"/usr/lib/a/x" :=
  Anc.trans (p := b!"/usr/lib/a") (by decide) (Anc.trans (p := b!"/usr/lib") (by decide) (Anc.step (by decide)))
example : pathDir b!"/usr/lib/a/x" = b!"/usr/lib/a" := by decide
example : removeFile exMap b!"/usr/lib/a-b" = .ok [exA, exC, exD, exE] := by rfl

/-! #### the full theorems on a concrete run: a file below three absent directories, a
    directory that is deleted again while it still has a member, a symlink in another tree -/

def exStat : Lstat :=
  { mode := 0o100644, uid := 0, gid := 0, mtime := 5, size := 3, nlink := 1, dev := 1, ino := 9,
    rdev := 0, link := [], xattrs := [], sha := "" }
/-- build root `/r` in which only `/r/usr/lib/a/x` exists (a regular file) -/
def exEnv : Env :=
  { fs := fun p => if p = b!"/r/usr/lib/a/x" then some exStat else none, rootDir := b!"/r" }
def exSteps : List Step :=
  [ .add { ltype := ltFile, name := b!"/usr/lib/a/x" },
    .add { ltype := ltDir, name := b!"/usr/lib/a" },
    .add { ltype := ltSymlink, name := b!"/etc/rc", target := b!"init.d/rc" },
    .add { ltype := ltDir, name := b!"/top" },
    .del b!"/usr/lib/a" ]

example : ∀ x ∈ exSteps, StepClean x := by decide
/-- before the closing step the set is NOT parent-closed (`/usr/lib/a` was deleted, `/etc`,
    `/usr`, `/usr/lib` were never there) -/
example : (runSteps exEnv {} exSteps).map (fun s => s.map.names) =
    .ok [b!"/usr/lib/a/x", b!"/etc/rc", b!"/top"] := by decide
/-- the run succeeds; the closing step brings back `/usr/lib/a` and adds the other parents,
    and the root (because `/top` lies directly below it) -/
example : (stageFileList exEnv (exSteps ++ [.closure])).map EMap.names =
    .ok [b!"/", b!"/etc", b!"/etc/rc", b!"/top", b!"/usr", b!"/usr/lib", b!"/usr/lib/a",
         b!"/usr/lib/a/x"] := by decide
example : ∃ files, stageFileList exEnv (exSteps ++ [.closure]) = .ok files ∧
    Before (EMap.names files) b!"/usr" b!"/usr/lib/a/x" := by
  have hr : (stageFileList exEnv (exSteps ++ [.closure])).map EMap.names =
      .ok [b!"/", b!"/etc", b!"/etc/rc", b!"/top", b!"/usr", b!"/usr/lib", b!"/usr/lib/a",
           b!"/usr/lib/a/x"] := by decide
  cases h : stageFileList exEnv (exSteps ++ [.closure]) with
  | error e => rw [h] at hr; cases hr
  | ok files =>
    rw [h] at hr
    have hr' : (Except.ok (EMap.names files) : Res (List Bytes)) = _ := hr
    injection hr' with hn
    refine ⟨files, rfl, parents_precede exEnv exSteps files (by decide) h _ ?_ _ ?_⟩
    · rw [hn]; decide
    · exact Anc.trans (p := b!"/usr/lib/a") (by decide)
        (Anc.trans (p := b!"/usr/lib") (by decide) (Anc.step (by decide)))
example : CleanAbs b!"/usr/lib/a/x" ∧ ¬ CleanAbs b!"/usr/lib/a/" ∧ ¬ CleanAbs b!"/usr//lib" ∧
    ¬ CleanAbs b!"/usr/./lib" ∧ ¬ CleanAbs b!"/usr/a/../lib" ∧ ¬ CleanAbs b!"usr/lib" ∧
    CleanAbs b!"/" := by decide
/-- on a name that is not clean the two notions of parent differ (why `CleanAbs` is needed) -/
example : parentOf b!"/opt/a/../x" = some b!"/opt/a/.." ∧ pathDir b!"/opt/a/../x" = b!"/opt" := by
  decide

end Lc.Props.C06
