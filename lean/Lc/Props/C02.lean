/-
  C02 — the layer hierarchy stays a well-formed forest and every command terminates
  (the parts carried by the command model's guards, the cycle check and normalizeOrder).

  1. `*_rejects_*` (rejected_unchanged): each rejection reason named by the property makes
     the command return an `error` (never a panic) with the world exactly as it was —
     for EVERY configuration, layer table, argument and world.
  2. `normalize_fuel`: a table accepted by checkInheritance never exhausts the key builder
     of normalizeOrder and never dereferences a missing base.
  3. `ancestor_precedes`: in the normalized order every ancestor stands before its
     descendants.
  4. `list_total`: FindLayers never panics.
  5. the invariant `WF` (Lemmas/ForestInv.lean): unique legal names, every parent exists,
     no layer its own ancestor, `order` = the normalized order.  `add_preserves_WF`,
     `remove_preserves_WF`, `rename_preserves_WF`, `rebase_preserves_WF`: a command that
     returns normally — from ANY world, whatever faults, crash points or pretend switch
     are set — returns a well-formed table, and the table differs from the old one exactly
     as the command says.  `reachable_WF`: after any sequence of commands.
  6. `findLayers_WF_partial`, `getLayers_WF_partial`, `run_WF_partial`: the table an
     invocation reads from the disk is well-formed (hypothesis: the listing of the layers
     directory has no name twice), and so is what the invocation returns.
  7. the tree invariant `TreeWF` (Lemmas/TreeWF.lean, TreeKeeps.lean): `children_nodup`
     discharges that hypothesis (`findLayers_WF`, `getLayers_WF`, `run_WF`); `run_keeps_treeWF`:
     every command except mount / chroot keeps it, any world, any exit.
  8. the forest ON DISK (Lemmas/DiskView.lean, DiskForest.lean, DiskCmd.lean):
     `disk_forest_after_run`, `disk_inv_after_run`, `disk_forest_after_rename`,
     `disk_forest_reachable`, `disk_reach_inv` — after any sequence of init / add / remove /
     rebase / mkdirs / list invocations (any exit, any fault / crash / pretend setting) and of
     renames that return normally, the installation can be listed and the table read is `WF`.
-/
import Lc.Lemmas.RunM
import Lc.Lemmas.Forest
import Lc.Lemmas.ForestInv
import Lc.Lemmas.ForestCmd
import Lc.Lemmas.TreeWF
import Lc.Lemmas.TreeKeeps
import Lc.Lemmas.DiskCmd

namespace Lc.Props.C02
open Lc Lc.Layers Lc.RunM Lc.Forest

/-- the command was refused with error class `c` and nothing happened -/
def RefusedWith {α} (r : Except Fault α × World) (w : World) (c : String) : Prop :=
  r = (.error (.err c), w)

/-- refused with one of the listed classes, nothing happened -/
def Refused {α} (r : Except Fault α × World) (w : World) (classes : List String) : Prop :=
  ∃ c, c ∈ classes ∧ r = (.error (.err c), w)

/-! ### the name tests, as the property words them -/

theorem need_iff (d : Defs) (n : Bytes) :
    testName1 d n NAME_NEED = true ↔ n ≠ [] ∧ isLegalLayerName n = true ∧ (findLayer d n).isSome = true := by
  unfold testName1 NAME_NEED
  cases n with
  | nil => simp
  | cons x xs =>
    by_cases hl : isLegalLayerName (x :: xs) = true <;> simp [hl]

theorem free_iff (d : Defs) (n : Bytes) :
    testName1 d n NAME_FREE = true ↔ n ≠ [] ∧ isLegalLayerName n = true ∧ findLayer d n = none := by
  unfold testName1 NAME_FREE
  cases n with
  | nil => simp
  | cons x xs =>
    by_cases hl : isLegalLayerName (x :: xs) = true <;> simp [hl]

theorem optneed_iff (d : Defs) (n : Bytes) :
    testName1 d n (NAME_OPTIONAL + NAME_NEED) = true ↔
      n = [] ∨ (isLegalLayerName n = true ∧ (findLayer d n).isSome = true) := by
  unfold testName1 NAME_NEED NAME_OPTIONAL
  cases n with
  | nil => simp
  | cons x xs =>
    by_cases hl : isLegalLayerName (x :: xs) = true <;> simp [hl]

/-! ### 1. rejected commands change nothing -/

/-- **add**: empty, illegal or already used name -/
theorem add_rejects_name (cfg : Config) (d : Defs) (name base cf : Bytes) (w : World)
    (h : name = [] ∨ isLegalLayerName name = false ∨ (findLayer d name).isSome = true) :
    RefusedWith ((addLayer cfg d name base cf).run.run w) w "name" := by
  have h1 : testName1 d name NAME_FREE = false := by
    cases ht : testName1 d name NAME_FREE with
    | false => rfl
    | true =>
      obtain ⟨a, b, c⟩ := (free_iff d name).mp ht
      rcases h with h | h | h
      · exact absurd h a
      · rw [b] at h; cases h
      · rw [c] at h; cases h
  unfold RefusedWith addLayer testName fail
  simp only [List.all_cons, h1, Bool.false_and, run_bind, run_throw, Bool.false_eq_true, if_false]

/-- **add**: a parent is named but is illegal or does not exist -/
theorem add_rejects_parent (cfg : Config) (d : Defs) (name base cf : Bytes) (w : World)
    (hb : base ≠ []) (h : isLegalLayerName base = false ∨ findLayer d base = none) :
    RefusedWith ((addLayer cfg d name base cf).run.run w) w "name" := by
  have h1 : testName1 d base (NAME_OPTIONAL + NAME_NEED) = false := by
    cases ht : testName1 d base (NAME_OPTIONAL + NAME_NEED) with
    | false => rfl
    | true =>
      rcases (optneed_iff d base).mp ht with e | ⟨a, b⟩
      · exact absurd e hb
      · rcases h with h | h
        · rw [a] at h; cases h
        · rw [h] at b; cases b
  unfold RefusedWith addLayer testName fail
  simp only [List.all_cons, h1, Bool.false_and, Bool.and_false, run_bind, run_throw, Bool.false_eq_true, if_false]

/-- **rename**: the source is missing (or its name empty / illegal) -/
theorem rename_rejects_source (cfg : Config) (d : Defs) (old new : Bytes) (co : List Bytes) (w : World)
    (h : old = [] ∨ isLegalLayerName old = false ∨ findLayer d old = none) :
    RefusedWith ((renameLayer cfg d old new co).run.run w) w "name" := by
  have h1 : testName1 d old NAME_NEED = false := by
    cases ht : testName1 d old NAME_NEED with
    | false => rfl
    | true =>
      obtain ⟨a, b, c⟩ := (need_iff d old).mp ht
      rcases h with h | h | h
      · exact absurd h a
      · rw [b] at h; cases h
      · rw [h] at c; cases c
  unfold RefusedWith renameLayer testName fail
  simp only [List.all_cons, h1, Bool.false_and, run_bind, run_throw, Bool.false_eq_true, if_false]

/-- **rename**: the new name is empty, illegal or already used -/
theorem rename_rejects_newname (cfg : Config) (d : Defs) (old new : Bytes) (co : List Bytes) (w : World)
    (h : new = [] ∨ isLegalLayerName new = false ∨ (findLayer d new).isSome = true) :
    RefusedWith ((renameLayer cfg d old new co).run.run w) w "name" := by
  have h1 : testName1 d new NAME_FREE = false := by
    cases ht : testName1 d new NAME_FREE with
    | false => rfl
    | true =>
      obtain ⟨a, b, c⟩ := (free_iff d new).mp ht
      rcases h with h | h | h
      · exact absurd h a
      · rw [b] at h; cases h
      · rw [c] at h; cases h
  unfold RefusedWith renameLayer testName fail
  simp only [List.all_cons, h1, Bool.false_and, Bool.and_false, run_bind, run_throw, Bool.false_eq_true, if_false]

/-- **rebase**: the layer is missing -/
theorem rebase_rejects_missing (cfg : Config) (d : Defs) (name nb : Bytes) (w : World)
    (h : name = [] ∨ isLegalLayerName name = false ∨ findLayer d name = none) :
    RefusedWith ((rebaseLayer cfg d name nb).run.run w) w "name" := by
  have h1 : testName1 d name NAME_NEED = false := by
    cases ht : testName1 d name NAME_NEED with
    | false => rfl
    | true =>
      obtain ⟨a, b, c⟩ := (need_iff d name).mp ht
      rcases h with h | h | h
      · exact absurd h a
      · rw [b] at h; cases h
      · rw [h] at c; cases c
  unfold RefusedWith rebaseLayer testName fail
  simp only [List.all_cons, h1, Bool.false_and, run_bind, run_throw, Bool.false_eq_true, if_false]

/-- **rebase**: the new parent is named but illegal or missing -/
theorem rebase_rejects_parent (cfg : Config) (d : Defs) (name nb : Bytes) (w : World)
    (hb : nb ≠ []) (h : isLegalLayerName nb = false ∨ findLayer d nb = none) :
    RefusedWith ((rebaseLayer cfg d name nb).run.run w) w "name" := by
  have h1 : testName1 d nb (NAME_NEED + NAME_OPTIONAL) = false := by
    cases ht : testName1 d nb (NAME_NEED + NAME_OPTIONAL) with
    | false => rfl
    | true =>
      rw [Nat.add_comm] at ht
      rcases (optneed_iff d nb).mp ht with e | ⟨a, b⟩
      · exact absurd e hb
      · rcases h with h | h
        · rw [a] at h; cases h
        · rw [h] at b; cases b
  unfold RefusedWith rebaseLayer testName fail
  simp only [List.all_cons, h1, Bool.false_and, Bool.and_false, run_bind, run_throw, Bool.false_eq_true, if_false]

/-- rebasing a layer onto itself closes a cycle: the check on the modified table fails -/
theorem self_base_is_cycle (d : Defs) (l : Layer) (n : Bytes) (hn : n ≠ [])
    (hl : findLayer d n = some l) :
    checkInheritance (setLayer d { l with base := n }).layers = false := by
  have hname : l.name = n := by
    have := List.find?_some hl; simpa using this
  let l' : Layer := { l with base := n }
  have hmem : l' ∈ (setLayer d l').layers := mem_setLayer d l l' n hl hname
  have hself := find?_setLayer_self d l l' n hl hname
  have hnlen : ¬ (n.length == 0) = true := by
    cases n with
    | nil => exact absurd rfl hn
    | cons x xs => simp
  cases hc : checkInheritance (setLayer d l').layers with
  | false => rfl
  | true =>
    exfalso
    unfold checkInheritance at hc
    have := List.all_eq_true.mp hc l' hmem
    unfold chainOk at this
    have hb : l'.base = n := rfl
    rw [hb] at this
    simp only [hnlen, if_false, hself, Bool.false_eq_true] at this
    have hv : [l'.name].contains l'.name = true := by simp
    rw [if_pos hv] at this
    cases this

/-- rebasing a layer onto one of its descendants closes a cycle -/
theorem descendant_base_is_cycle (d : Defs) (l : Layer) (n k : Bytes) (hn : n ≠ [])
    (hl : findLayer d n = some l) (hd : Desc d.layers n k) :
    checkInheritance (setLayer d { l with base := k }).layers = false := by
  have hname : l.name = n := by
    have := List.find?_some hl; simpa using this
  let l' : Layer := { l with base := k }
  have hmem : l' ∈ (setLayer d l').layers := mem_setLayer d l l' n hl hname
  cases hc : checkInheritance (setLayer d l').layers with
  | false => rfl
  | true =>
    exfalso
    unfold checkInheritance at hc
    have h1 := List.all_eq_true.mp hc l' hmem
    have h2 := chainOk_cycle d l l' n hn hl hname k hd ((setLayer d l').layers.length + 1) [l'.name]
      (by simp [l', hname])
    have : l'.base = k := rfl
    rw [this, h2] at h1
    cases h1

/-- outcome of rebase once the modified table fails the cycle check -/
theorem rebase_rejects_of_cycle (cfg : Config) (d : Defs) (name nb : Bytes) (w : World) (l : Layer)
    (hl : findLayer d name = some l)
    (hc : checkInheritance (setLayer d { l with base := nb }).layers = false) :
    Refused ((rebaseLayer cfg d name nb).run.run w) w ["name", "errorstate", "busy", "orphan"] := by
  unfold Refused rebaseLayer testName getL errorIfError errorIfBusy fail
  simp only [hl, hc, run_bind, run_ite, run_pure, run_throw]
  by_cases h1 : (List.all [(name, NAME_NEED), (nb, NAME_NEED + NAME_OPTIONAL)] fun t => testName1 d t.fst t.snd) = true <;>
    by_cases h2 : l.state = S_error <;> by_cases h3 : isBusy l true = true <;> simp [h1, h2, h3]

/-- **rebase onto itself** is rejected, nothing changes (and, the layer being idle and
    sound, the class is "orphan") -/
theorem rebase_rejects_self (cfg : Config) (d : Defs) (name : Bytes) (w : World) (l : Layer)
    (hn : name ≠ []) (hl : findLayer d name = some l) :
    Refused ((rebaseLayer cfg d name name).run.run w) w ["name", "errorstate", "busy", "orphan"] :=
  rebase_rejects_of_cycle cfg d name name w l hl (self_base_is_cycle d l name hn hl)

/-- **rebase onto a descendant** (any depth) is rejected, nothing changes -/
theorem rebase_rejects_descendant (cfg : Config) (d : Defs) (name nb : Bytes) (w : World) (l : Layer)
    (hn : name ≠ []) (hl : findLayer d name = some l) (hd : Desc d.layers name nb) :
    Refused ((rebaseLayer cfg d name nb).run.run w) w ["name", "errorstate", "busy", "orphan"] :=
  rebase_rejects_of_cycle cfg d name nb w l hl (descendant_base_is_cycle d l name nb hn hl hd)

/-- **remove**: the layer is missing -/
theorem remove_rejects_missing (cfg : Config) (d : Defs) (name : Bytes) (files : Bool) (w : World)
    (h : name = [] ∨ isLegalLayerName name = false ∨ findLayer d name = none) :
    RefusedWith ((removeLayer cfg d name files).run.run w) w "name" := by
  have h1 : testName1 d name NAME_NEED = false := by
    cases ht : testName1 d name NAME_NEED with
    | false => rfl
    | true =>
      obtain ⟨a, b, c⟩ := (need_iff d name).mp ht
      rcases h with h | h | h
      · exact absurd h a
      · rw [b] at h; cases h
      · rw [h] at c; cases c
  unfold RefusedWith removeLayer testName fail
  simp only [List.all_cons, h1, Bool.false_and, run_bind, run_throw, Bool.false_eq_true, if_false]

/-- **remove**: the layer has children -/
theorem remove_rejects_parent (cfg : Config) (d : Defs) (name : Bytes) (files : Bool) (w : World)
    (l k : Layer) (hl : findLayer d name = some l) (hk : k ∈ d.layers) (hkb : k.base = name) :
    Refused ((removeLayer cfg d name files).run.run w) w ["name", "errorstate", "haschild"] := by
  have hc : hasChild d name = true := by
    unfold hasChild; rw [List.any_eq_true]; exact ⟨k, hk, by simp [hkb]⟩
  unfold Refused removeLayer testName getL errorIfError fail
  simp only [hl, hc, run_bind, run_ite, run_pure, run_throw]
  by_cases h1 : testName1 d name NAME_NEED = true <;> by_cases h2 : l.state = S_error <;> simp [h1, h2]

/-! ### 2. normalizeOrder never runs out of fuel -/

/-- every key of an accepted table is defined -/
theorem keys_defined (layers : List Layer) (h : checkInheritance layers = true) (l : Layer)
    (hl : l ∈ layers) : (sortKey layers (layers.length + 1) l.base l.name).isSome = true := by
  unfold checkInheritance at h
  exact chainOk_sortKey layers _ _ _ _ (List.all_eq_true.mp h l hl)

/-- **normalize_fuel**: on a table that passes checkInheritance, normalizeOrder returns an
    order (the sort-key walk neither exhausts its fuel `#layers + 1` — in Go: it terminates —
    nor dereferences a missing base — in Go: no nil-pointer panic). -/
theorem normalize_fuel (layers : List Layer) (h : checkInheritance layers = true) :
    ∃ order, normalizeOrder layers = .ok order := by
  unfold normalizeOrder
  have hany : (layers.map fun l => (l.name, sortKey layers (layers.length + 1) l.base l.name)).any
      (·.2.isNone) = false := by
    rw [List.any_eq_false]
    intro x hx
    obtain ⟨l, hl, rfl⟩ := List.mem_map.mp hx
    have := keys_defined layers h l hl
    cases hk : sortKey layers (layers.length + 1) l.base l.name with
    | none => rw [hk] at this; cases this
    | some k => simp
  simp only [hany]
  exact ⟨_, rfl⟩

/-! ### 3. parents first -/

/-- the order is a permutation of the layer names: nothing lost, nothing invented -/
theorem order_perm (layers : List Layer) (order : List Bytes)
    (h : normalizeOrder layers = .ok order) : order.Perm (layers.map (·.name)) :=
  Forest.order_perm layers order h

/-- … so with unique layer names every name occurs exactly once -/
theorem order_nodup (layers : List Layer) (order : List Bytes)
    (h : normalizeOrder layers = .ok order) (hu : (layers.map (·.name)).Nodup) : order.Nodup :=
  (order_perm layers order h).nodup_iff.mpr hu

/-- `a` is a proper ancestor of `c`: reachable from `c` by following base links through
    the table (each link resolved by name lookup, as the Go code does) -/
inductive Ancestor (layers : List Layer) : Layer → Layer → Prop where
  | parent (c p : Layer) : c ∈ layers → c.base ≠ [] →
      layers.find? (·.name == c.base) = some p → Ancestor layers p c
  | trans (a p c : Layer) : Ancestor layers a p → c ∈ layers → c.base ≠ [] →
      layers.find? (·.name == c.base) = some p → Ancestor layers a c

/-- the key of an ancestor is a proper prefix of the key of the descendant -/
theorem ancestor_key_prefix (layers : List Layer)
    (hk : ∀ l ∈ layers, (sortKey layers (layers.length + 1) l.base l.name).isSome = true)
    (a c : Layer) (h : Ancestor layers a c) :
    a ∈ layers ∧ c ∈ layers ∧ ∃ ka s, s ≠ [] ∧
      sortKey layers (layers.length + 1) a.base a.name = some ka ∧
      sortKey layers (layers.length + 1) c.base c.name = some (ka ++ s) := by
  induction h with
  | parent c p hc hb hp =>
    have hpm : p ∈ layers := List.mem_of_find?_eq_some hp
    obtain ⟨kc, hkc⟩ := Option.isSome_iff_exists.mp (hk c hc)
    obtain ⟨kp, hkp, e⟩ := key_child layers layers.length c p kc hb hp hkc
    exact ⟨hpm, hc, kp, 47 :: c.name, by simp, hkp, by rw [hkc, e]⟩
  | trans a p c _ hc hb hp ih =>
    obtain ⟨ham, _, ka, s, hs, hka, hkp'⟩ := ih
    obtain ⟨kc, hkc⟩ := Option.isSome_iff_exists.mp (hk c hc)
    obtain ⟨kp, hkp, e⟩ := key_child layers layers.length c p kc hb hp hkc
    rw [hkp'] at hkp
    injection hkp with hkp
    refine ⟨ham, hc, ka, s ++ 47 :: c.name, by simp, hka, ?_⟩
    rw [hkc, e, ← hkp, List.append_assoc]

/-- **ancestor_precedes**: in the order computed by normalizeOrder every proper ancestor of
    a layer stands before it (so parents are probed, mounted, listed before children).
    No hypothesis on the names is needed: the parent's key is a proper prefix of the
    child's (`prefix_lt`), whatever bytes the names contain; with unique names
    (`order_nodup`) "before" is unambiguous. -/
theorem ancestor_precedes (layers : List Layer) (order : List Bytes)
    (h : normalizeOrder layers = .ok order) (a c : Layer) (hac : Ancestor layers a c) :
    Before order a.name c.name := by
  obtain ⟨hk, ho⟩ := normalizeOrder_ok layers order h
  obtain ⟨ham, hcm, ka, s, hs, hka, hkc⟩ := ancestor_key_prefix layers hk a c hac
  have hsorted := sortBy_sorted keyLt
    (fun x y hxy => bytesLt_asymm hxy) (fun x y z h1 h2 => bytesLt_trans h1 h2) (keyed layers)
  have hma : (a.name, some ka) ∈ sortBy keyLt (keyed layers) := by
    rw [mem_sortBy]; unfold keyed
    exact List.mem_map.mpr ⟨a, ham, by rw [hka]⟩
  have hmc : (c.name, some (ka ++ s)) ∈ sortBy keyLt (keyed layers) := by
    rw [mem_sortBy]; unfold keyed
    exact List.mem_map.mpr ⟨c, hcm, by rw [hkc]⟩
  have hlt : keyLt (a.name, some ka) (c.name, some (ka ++ s)) = true := prefix_lt ka s hs
  obtain ⟨l1, l2, e, hb⟩ := sorted_lt_before keyLt (fun x => bytesLt_irrefl _) hsorted hma hmc hlt
  refine ⟨l1.map (·.1), l2.map (·.1), ?_, ?_⟩
  · rw [ho, e]; simp
  · exact List.mem_map.mpr ⟨_, hb, rfl⟩

/-- the direct-parent case in the words of the property -/
theorem parent_precedes (layers : List Layer) (order : List Bytes)
    (h : normalizeOrder layers = .ok order) (c p : Layer) (hc : c ∈ layers) (hb : c.base ≠ [])
    (hp : layers.find? (·.name == c.base) = some p) : Before order c.base c.name := by
  have := ancestor_precedes layers order h p c (Ancestor.parent c p hc hb hp)
  have hpn : p.name = c.base := by
    have := List.find?_some hp; simpa using this
  rwa [hpn] at this

/-! ### 4. listing is total -/

/-- **list_total**: FindLayers on ANY world returns the layer table or an error, never a
    panic; and it only reads. -/
theorem list_total (cfg : Config) (w : World) :
    ((findLayers cfg).run.run w).1 ≠ .error Fault.panic ∧ ((findLayers cfg).run.run w).2 = w := by
  unfold findLayers fail reorder
  simp only [run_bind, run_getW, run_ite, run_throw]
  by_cases h1 : Fs.isDir w.fs cfg.layerdirs = true
  · by_cases h2 : checkInheritance (readLayerFiles cfg w.fs (Fs.children w.fs cfg.layerdirs)) = true
    · obtain ⟨o, ho⟩ := normalize_fuel _ h2
      simp [h1, h2, ho]
      rfl
    · simp [h1, h2]
  · simp [h1]

/-! ### non-vacuity: a three-level forest  a ← b ← c,  plus a root whose name sorts first -/

def exCfg : Config :=
  { basepath := b!"/lc", layerdirs := b!"/lc/layers", buildRoot := b!"build", binPkg := b!"packages",
    generated := b!"generated", workdir := b!"overlayfs/workdir", upperdir := b!"overlayfs/upperdir",
    exportdirs := b!"/lc/exports", exportBinPkg := b!"packages", exportGenerated := b!"generated" }

def exA : Layer := { name := b!"m", layerPath := b!"/lc/layers/m" }
def exB : Layer := { name := b!"b", base := b!"m", layerPath := b!"/lc/layers/b" }
def exC : Layer := { name := b!"a", base := b!"b", layerPath := b!"/lc/layers/a" }
def exR : Layer := { name := b!"0", layerPath := b!"/lc/layers/0" }
/-- deliberately stored children-first -/
def exLayers : List Layer := [exC, exB, exR, exA]
def exD : Defs := { layers := exLayers }

example : checkInheritance exLayers = true := by decide
example : normalizeOrder exLayers = .ok [b!"0", b!"m", b!"b", b!"a"] := rfl
example : Ancestor exLayers exA exC :=
  Ancestor.trans exA exB exC (Ancestor.parent exB exA (by simp [exLayers]) (by decide) (by decide))
    (by simp [exLayers]) (by decide) (by decide)
example : Before [b!"0", b!"m", b!"b", b!"a"] b!"m" b!"a" :=
  ancestor_precedes exLayers _ rfl exA exC
    (Ancestor.trans exA exB exC (Ancestor.parent exB exA (by simp [exLayers]) (by decide) (by decide))
      (by simp [exLayers]) (by decide) (by decide))
/-- `a` is a descendant (depth 2) of `m`; rebasing `m` onto it, or onto itself, is refused -/
example : Desc exLayers b!"m" b!"a" :=
  Desc.step b!"a" exC (by decide) (by decide) (Desc.child b!"b" exB (by decide) (by decide) (by decide))
example (w : World) := rebase_rejects_descendant exCfg exD b!"m" b!"a" w exA (by decide) (by decide)
  (Desc.step b!"a" exC (by decide) (by decide) (Desc.child b!"b" exB (by decide) (by decide) (by decide)))
example (w : World) := rebase_rejects_self exCfg exD b!"m" w exA (by decide) (by decide)
example : checkInheritance (setLayer exD { exA with base := b!"a" }).layers = false := by decide
example : (rebaseLayer exCfg exD b!"m" b!"a").run.run {} = (.error (.err "orphan"), {}) := rfl
example (w : World) := add_rejects_name exCfg exD b!"b" [] [] w (Or.inr (Or.inr (by decide)))
set_option maxRecDepth 100000 in
example (w : World) := add_rejects_name exCfg exD b!"x/y" [] [] w (Or.inr (Or.inl (by decide)))
example (w : World) := add_rejects_parent exCfg exD b!"new" b!"nope" [] w (by decide) (Or.inr (by decide))
example (w : World) := remove_rejects_parent exCfg exD b!"m" false w exA exB (by decide) (by simp [exD, exLayers]) (by decide)
/-- a table that fails the check: `normalize_fuel`'s hypothesis is not vacuous the other way -/
example : checkInheritance [{ exA with base := b!"m" }] = false := by decide
example : normalizeOrder [{ exA with base := b!"m" }] = Res.panic := rfl

/-! ### 5. the forest invariant -/

open Lc.ForestInv Lc.ForestCmd

/-! what `WF` says, in the words of the property -/

/-- names are unique -/
theorem wf_names_unique (d : Defs) (h : WF d) (x y : Layer) (hx : x ∈ d.layers) (hy : y ∈ d.layers)
    (e : x.name = y.name) : x = y := nodup_name_inj h.nodup hx hy e

/-- every layer's parent exists (and is what the code's lookup finds) -/
theorem wf_parent_exists (d : Defs) (h : WF d) (l : Layer) (hl : l ∈ d.layers) (hb : l.base ≠ []) :
    ∃ p, findLayer d l.base = some p ∧ p ∈ d.layers ∧ p.name = l.base := by
  obtain ⟨p, hp, hn⟩ := h.parent l hl hb
  cases hf : findLayer d l.base with
  | none =>
    exact absurd (List.mem_map.mpr ⟨p, hp, hn⟩) ((findLayer_none_iff d l.base).mp hf)
  | some q => exact ⟨q, rfl, (findLayer_mem hf).1, (findLayer_mem hf).2⟩

/-- no layer is its own ancestor -/
theorem wf_no_self_ancestor (d : Defs) (h : WF d) (l : Layer) : ¬ Ancestor d.layers l l := by
  intro ha
  obtain ⟨hk, _⟩ := normalizeOrder_ok _ _ h.order
  obtain ⟨_, _, ka, s, hs, h1, h2⟩ := ancestor_key_prefix d.layers hk l l ha
  rw [h1] at h2
  injection h2 with h2
  exact hs (by simpa using h2)

/-- list/status can order the layers: `order` holds every name exactly once, ancestors first -/
theorem wf_order (d : Defs) (h : WF d) :
    d.order.Perm (d.layers.map (·.name)) ∧ d.order.Nodup ∧
      ∀ a c, Ancestor d.layers a c → Before d.order a.name c.name :=
  ⟨order_perm _ _ h.order, order_nodup _ _ h.order h.nodup,
    fun a c hac => ancestor_precedes _ _ h.order a c hac⟩

/-- **add_preserves_WF**: a successful `add` returns a well-formed table: the old records
    followed by one new record with the given name and base; the name was free. -/
theorem add_preserves_WF (cfg : Config) (d d' : Defs) (n b f : Bytes) (w w' : World) (h : WF d)
    (hr : (addLayer cfg d n b f).run.run w = (.ok d', w')) :
    WF d' ∧ findLayer d n = none ∧
      ∃ x : Layer, x.name = n ∧ x.base = b ∧ x.layerPath = layerPath cfg n ∧
        d'.layers = d.layers ++ [x] := by
  obtain ⟨h1, h2, cm, ce, o, ho, rfl⟩ := ret_elim _ _ (addLayer_ret cfg d n b f) w d' w' hr
  obtain ⟨a1, a2, a3⟩ := (free_iff d n).mp h1
  have hb := (optneed_iff d b).mp h2
  refine ⟨wf_add d _ o h a1 a2 a3 ?_ ho, a3, _, rfl, rfl, rfl, rfl⟩
  intro hbne
  rcases hb with e | ⟨_, hs⟩
  · exact absurd e hbne
  · exact hs

/-- **remove_preserves_WF**: a successful `remove` returns a well-formed table: the old
    records without the one named `n`; no remaining record has base `n`. -/
theorem remove_preserves_WF (cfg : Config) (d d' : Defs) (n : Bytes) (files : Bool) (w w' : World)
    (h : WF d) (hr : (removeLayer cfg d n files).run.run w = (.ok d', w')) :
    WF d' ∧ (findLayer d n).isSome = true ∧ d'.layers = d.layers.filter (·.name != n) ∧
      findLayer d' n = none ∧ ∀ l ∈ d'.layers, l.base ≠ n := by
  obtain ⟨h1, h2, o, ho, rfl⟩ := ret_elim _ _ (removeLayer_ret cfg d n files) w d' w' hr
  obtain ⟨_, _, a3⟩ := (need_iff d n).mp h1
  refine ⟨wf_remove d n o h h2 ho, a3, rfl, ?_, ?_⟩
  · rw [findLayer_none_iff]
    intro hm
    obtain ⟨x, hx, e⟩ := List.mem_map.mp hm
    have := (List.mem_filter.mp hx).2
    simp [e] at this
  · intro l hl e
    unfold hasChild at h2
    rw [List.any_eq_false] at h2
    exact h2 l (List.mem_filter.mp hl).1 (by simp [e])

/-- **rename_preserves_WF**: a successful `rename old new` — whatever order the children
    were visited in — returns a well-formed table: the record of `old` is replaced by one
    named `new` (same base, moved to the end), every record with base `old` has base `new`,
    nothing else changed.  In the (name, base) view: the new table is the old one under
    the renaming `old ↦ new` of names and bases. -/
theorem rename_preserves_WF (cfg : Config) (d d' : Defs) (old new : Bytes) (co : List Bytes)
    (w w' : World) (h : WF d) (hr : (renameLayer cfg d old new co).run.run w = (.ok d', w')) :
    WF d' ∧ ∃ l, findLayer d old = some l ∧ findLayer d new = none ∧
      d'.layers = renamed d.layers old new { l with name := new, layerPath := layerPath cfg new } ∧
      d'.layers.length = d.layers.length ∧
      ∀ a b, (a, b) ∈ d'.layers.map nb ↔
        ∃ x ∈ d.layers, a = rn old new x.name ∧ b = rn old new x.base := by
  obtain ⟨h1, h2, l, o, d1, hl, hd1, ho, rfl⟩ :=
    ret_elim _ _ (renameLayer_ret cfg d old new co) w d' w' hr
  obtain ⟨a1, a2, a3⟩ := (free_iff d new).mp h2
  have hk : d1.layers = d.layers.map (rebaseKid old new) := by
    rw [hd1]; exact kids_foldl_layers d h.nodup old new co
  have hren : d1.layers.filter (·.name != old) ++ [{ l with name := new, layerPath := layerPath cfg new }]
      = renamed d.layers old new { l with name := new, layerPath := layerPath cfg new } := by
    rw [hk]; rfl
  rw [hren] at ho
  have hlm := findLayer_mem hl
  have hoe : old ≠ [] := by have := (h.legal l hlm.1).1; rwa [hlm.2] at this
  have hlb : l.base ≠ old := by
    have := self_base_ne d.layers h.acyclic l hlm.1 (h.legal l hlm.1).1
    rwa [hlm.2] at this
  have hwf := wf_rename d old new l { l with name := new, layerPath := layerPath cfg new } o h hl a1 a2 a3 rfl rfl ho
  refine ⟨?_, l, hl, a3, hren, ?_, ?_⟩
  · exact wf_of_view hwf (by show List.map nb (_ ++ _) = _; rw [hren]) rfl
  · show List.length (_ ++ _) = _
    rw [hren]; exact length_renamed d.layers old new l _ h.nodup hl
  · intro a b
    show (a, b) ∈ List.map nb (_ ++ _) ↔ _
    rw [hren]
    exact mem_view_renamed d.layers old new l { l with name := new, layerPath := layerPath cfg new }
      h.nodup hl hlb rfl rfl a b

/-- **rebase_preserves_WF**: a successful `rebase n nb` returns a well-formed table in which
    only the base of `n` changed, to `nb`. -/
theorem rebase_preserves_WF (cfg : Config) (d d' : Defs) (n nb : Bytes) (w w' : World) (h : WF d)
    (hr : (rebaseLayer cfg d n nb).run.run w = (.ok d', w')) :
    WF d' ∧ (findLayer d n).isSome = true ∧
      d'.layers = d.layers.map (fun x => if x.name = n then { x with base := nb } else x) := by
  obtain ⟨_, _, l, o, hl, hc, ho, rfl⟩ := ret_elim _ _ (rebaseLayer_ret cfg d n nb) w d' w' hr
  refine ⟨wf_setLayer d _ o h hc ho, by rw [hl]; rfl, ?_⟩
  show (setLayer d { l with base := nb }).layers = _
  unfold setLayer
  apply List.map_congr_left
  intro x hx
  have hlm := findLayer_mem hl
  by_cases e : x.name = n
  · have : x = l := nodup_name_inj h.nodup hx hlm.1 (e.trans hlm.2.symm)
    subst this
    simp [e]
  · have e' : ¬ (x.name == l.name) = true := by rw [hlm.2]; simpa using e
    simp only [e', e, if_false, Bool.false_eq_true]

/-! after any sequence of commands -/

/-- the four structural commands -/
inductive SCmd where
  | add (name base configFile : Bytes)
  | remove (name : Bytes) (files : Bool)
  | rename (old new : Bytes) (childOrder : List Bytes)
  | rebase (name newbase : Bytes)
  deriving Repr

def SCmd.apply (cfg : Config) (d : Defs) : SCmd → M Defs
  | .add n b f => addLayer cfg d n b f
  | .remove n f => removeLayer cfg d n f
  | .rename o n co => renameLayer cfg d o n co
  | .rebase n b => rebaseLayer cfg d n b

/-- one command on (table, world): a command that fails leaves the table as it was (what it
    did to the world before failing stays) -/
def stepS (cfg : Config) (s : Defs × World) (c : SCmd) : Defs × World :=
  match (c.apply cfg s.1).run.run s.2 with
  | (.ok d', w') => (d', w')
  | (.error _, w') => (s.1, w')

/-- **step_preserves_WF**: one command, successful or not, in any world -/
theorem step_preserves_WF (cfg : Config) (s : Defs × World) (c : SCmd) (h : WF s.1) :
    WF (stepS cfg s c).1 := by
  unfold stepS
  split
  · rename_i d' w' hr
    cases c with
    | add n b f => exact (add_preserves_WF cfg s.1 d' n b f s.2 w' h hr).1
    | remove n f => exact (remove_preserves_WF cfg s.1 d' n f s.2 w' h hr).1
    | rename o n co => exact (rename_preserves_WF cfg s.1 d' o n co s.2 w' h hr).1
    | rebase n b => exact (rebase_preserves_WF cfg s.1 d' n b s.2 w' h hr).1
  · exact h

/-- every state passed while running the commands `cs` one after the other -/
def statesS (cfg : Config) : Defs × World → List SCmd → List (Defs × World)
  | s, [] => [s]
  | s, c :: cs => s :: statesS cfg (stepS cfg s c) cs

/-- **reachable_WF**: start from a well-formed table in any world (any file system, any
    fault / crash / pretend setting); run any list of add / remove / rename / rebase
    commands, each successful or not: every intermediate and the final table is a
    well-formed forest.  No bound on the length. -/
theorem reachable_WF (cfg : Config) (cs : List SCmd) (d0 : Defs) (w0 : World) (h : WF d0) :
    (∀ s ∈ statesS cfg (d0, w0) cs, WF s.1) ∧ WF (cs.foldl (stepS cfg) (d0, w0)).1 := by
  induction cs generalizing d0 w0 with
  | nil => exact ⟨by intro s hs; simp [statesS] at hs; subst hs; exact h, h⟩
  | cons c cs ih =>
    have hstep := step_preserves_WF cfg (d0, w0) c h
    obtain ⟨i1, i2⟩ := ih (stepS cfg (d0, w0) c).1 (stepS cfg (d0, w0) c).2 hstep
    refine ⟨?_, i2⟩
    intro s hs
    simp only [statesS, List.mem_cons] at hs
    rcases hs with rfl | hs
    · exact h
    · exact i1 s hs

/-- tables reachable when the environment may do anything between the commands: each
    command runs in an arbitrary world -/
inductive Reach (cfg : Config) (d0 : Defs) : Defs → Prop where
  | start : Reach cfg d0 d0
  | step (d : Defs) (c : SCmd) (w : World) : Reach cfg d0 d → Reach cfg d0 (stepS cfg (d, w) c).1

/-- **reach_WF**: … and even then -/
theorem reach_WF (cfg : Config) (d0 d : Defs) (h : WF d0) (hr : Reach cfg d0 d) : WF d := by
  induction hr with
  | start => exact h
  | step d c w _ ih => exact step_preserves_WF cfg (d, w) c ih

/-! ### 6. what an invocation reads from the disk -/

/-- **findLayers_WF_partial**: whatever is on the disk, the table a successful FindLayers
    returns is well-formed.  Names are legal because `readLayerFiles` skips every directory
    entry whose name is not; non-empty because `path.Base` never returns ""; parents exist
    and there is no cycle because `checkInheritance` is tested; the order is computed.
    PARTIAL in one point: uniqueness of names is inherited from the directory listing, so it
    is a hypothesis that `Fs.children` (os.ReadDir) lists no name twice.  (The model's tree is
    an association list without a built-in uniqueness invariant; for the real ReadDir this
    is a fact about the kernel.) -/
theorem findLayers_WF_partial (cfg : Config) (w w' : World) (d : Defs)
    (hls : (Fs.children w.fs cfg.layerdirs).Nodup)
    (hr : (findLayers cfg).run.run w = (.ok d, w')) : WF d := by
  obtain ⟨_, hL, hc, ho⟩ := findLayers_ok cfg w w' d hr
  refine ⟨?_, ?_, parent_of_check _ hc, hc, ho⟩
  · rw [hL]; exact List.Nodup.sublist (readLayerFiles_names cfg w.fs _) hls
  · intro l hl
    rw [hL] at hl
    obtain ⟨hm, hleg⟩ := readLayerFiles_legal cfg w.fs _ l hl
    exact ⟨children_ne_nil _ _ _ hm, hleg⟩

/-- … and stays so through the probe: what `getLayers` hands to every command -/
theorem getLayers_WF_partial (cfg : Config) (inuse : List (Bytes × List User)) (w w' : World) (d : Defs)
    (hls : (Fs.children w.fs cfg.layerdirs).Nodup)
    (hr : (getLayers cfg inuse).run.run w = (.ok d, w')) : WF d := by
  unfold getLayers at hr
  obtain ⟨d1, w1, h1, h2⟩ := bind_ok_inv _ _ _ _ _ hr
  have hd1 := findLayers_WF_partial cfg w w1 d1 hls h1
  exact ret_elim _ _ (probeAll_ret cfg inuse d1 hd1) w1 d w' h2

/-- the commands covered by `run_WF_partial` -/
def structural : Cmd → Bool
  | .init | .add .. | .remove .. | .rename .. | .rebase .. | .probe => true
  | _ => false

/-- **run_WF_partial**: one whole invocation (read the disk, probe, run the command) of
    init / add / remove / rename / rebase / list that ends normally returns a well-formed
    table — in any world.  Same hypothesis as `findLayers_WF_partial`. -/
theorem run_WF_partial (cfg : Config) (inuse : List (Bytes × List User)) (c : Cmd) (w : World)
    (d : Defs) (hc : structural c = true) (hls : (Fs.children w.fs cfg.layerdirs).Nodup)
    (hr1 : (run cfg inuse c w).1 = .ok d) : WF d := by
  generalize hw' : (run cfg inuse c w).2 = w'
  have hr : run cfg inuse c w = (.ok d, w') := by rw [← hr1, ← hw']
  clear hr1 hw'
  unfold run at hr
  cases c with
  | init =>
    have hr' : (initBase cfg >>= fun _ => (pure {} : M Defs)).run.run w = (.ok d, w') := hr
    obtain ⟨_, w1, _, h2⟩ := bind_ok_inv _ _ _ _ _ hr'
    rw [run_pure] at h2
    injection h2 with h2 _; injection h2 with h2; subst h2
    exact wf_empty
  | add n b f =>
    have hr' : (getLayers cfg inuse >>= fun d => addLayer cfg d n b f).run.run w = (.ok d, w') := hr
    obtain ⟨d1, w1, h1, h2⟩ := bind_ok_inv _ _ _ _ _ hr'
    exact (add_preserves_WF cfg d1 d n b f w1 w' (getLayers_WF_partial cfg inuse w w1 d1 hls h1) h2).1
  | remove n f =>
    have hr' : (getLayers cfg inuse >>= fun d => removeLayer cfg d n f).run.run w = (.ok d, w') := hr
    obtain ⟨d1, w1, h1, h2⟩ := bind_ok_inv _ _ _ _ _ hr'
    exact (remove_preserves_WF cfg d1 d n f w1 w' (getLayers_WF_partial cfg inuse w w1 d1 hls h1) h2).1
  | rename o n co =>
    have hr' : (getLayers cfg inuse >>= fun d => renameLayer cfg d o n co).run.run w = (.ok d, w') := hr
    obtain ⟨d1, w1, h1, h2⟩ := bind_ok_inv _ _ _ _ _ hr'
    exact (rename_preserves_WF cfg d1 d o n co w1 w' (getLayers_WF_partial cfg inuse w w1 d1 hls h1) h2).1
  | rebase n b =>
    have hr' : (getLayers cfg inuse >>= fun d => rebaseLayer cfg d n b).run.run w = (.ok d, w') := hr
    obtain ⟨d1, w1, h1, h2⟩ := bind_ok_inv _ _ _ _ _ hr'
    exact (rebase_preserves_WF cfg d1 d n b w1 w' (getLayers_WF_partial cfg inuse w w1 d1 hls h1) h2).1
  | probe =>
    have hr' : (getLayers cfg inuse >>= fun d => (pure d : M Defs)).run.run w = (.ok d, w') := hr
    obtain ⟨d1, w1, h1, h2⟩ := bind_ok_inv _ _ _ _ _ hr'
    rw [run_pure] at h2
    injection h2 with h2 _; injection h2 with h2; subst h2
    exact getLayers_WF_partial cfg inuse w w1 d1 hls h1
  | mkdirs _ => cases hc
  | mount _ => cases hc
  | umount _ _ => cases hc
  | shake => cases hc
  | chroot _ => cases hc

/-! ### non-vacuity of 5 and 6: the forest  0,  m ← b ← a  of the examples above -/

/-- the example table with its order -/
def exW : Defs := { layers := exLayers, order := [b!"0", b!"m", b!"b", b!"a"] }

/-- pretend mode: every command runs through without a file-system precondition -/
def exPretend : World := { pretend := true }

set_option maxRecDepth 100000 in
theorem exW_wf : WF exW := by
  refine ⟨by decide, ?_, parent_of_check _ (by decide), by decide, rfl⟩
  intro l hl
  simp only [exW, exLayers, List.mem_cons, List.not_mem_nil, or_false] at hl
  rcases hl with rfl | rfl | rfl | rfl <;> exact ⟨by decide, by decide⟩

/-- the hypotheses of the `*_preserves_WF` theorems are satisfiable, the conclusions say
    something: concrete successful runs and the tables they return -/
example : ∃ d' w', (addLayer exCfg exW b!"n" b!"b" []).run.run exPretend = (.ok d', w') ∧
    WF d' ∧ d'.order = [b!"0", b!"m", b!"b", b!"a", b!"n"] :=
  by
  refine ⟨_, _, rfl, ?_, rfl⟩
  exact (add_preserves_WF exCfg exW _ b!"n" b!"b" [] exPretend _ exW_wf rfl).1
example : ∃ d' w', (removeLayer exCfg exW b!"a" false).run.run exPretend = (.ok d', w') ∧
    WF d' ∧ d'.order = [b!"0", b!"m", b!"b"] :=
  by
  refine ⟨_, _, rfl, ?_, rfl⟩
  exact (remove_preserves_WF exCfg exW _ b!"a" false exPretend _ exW_wf rfl).1
example : ∃ d' w', (renameLayer exCfg exW b!"b" b!"x" []).run.run exPretend = (.ok d', w') ∧
    WF d' ∧ d'.order = [b!"0", b!"m", b!"x", b!"a"] ∧
    d'.layers.map nb = [(b!"a", b!"x"), (b!"0", []), (b!"m", []), (b!"x", b!"m")] :=
  by
  refine ⟨_, _, rfl, ?_, rfl, rfl⟩
  exact (rename_preserves_WF exCfg exW _ b!"b" b!"x" [] exPretend _ exW_wf rfl).1
example : ∃ d' w', (rebaseLayer exCfg exW b!"a" b!"0").run.run exPretend = (.ok d', w') ∧
    WF d' ∧ d'.order = [b!"0", b!"a", b!"m", b!"b"] :=
  by
  refine ⟨_, _, rfl, ?_, rfl⟩
  exact (rebase_preserves_WF exCfg exW _ b!"a" b!"0" exPretend _ exW_wf rfl).1

/-- a table that is not well-formed (a dangling base): `WF` is not trivially true -/
example : ¬ WF { layers := [exB], order := [b!"b"] } := by
  intro h
  have := h.acyclic
  revert this
  decide

/-- a sequence with successes and refusals (remove of a parent, rebase onto a descendant):
    every table on the way is well-formed, and the final order is the expected one -/
def exSeq : List SCmd :=
  [.add b!"n" b!"b" [], .remove b!"b" false, .rebase b!"m" b!"a", .rename b!"b" b!"x" [b!"n", b!"a"],
   .rebase b!"n" b!"0", .remove b!"a" false]
example : ((exSeq.foldl (stepS exCfg) (exW, exPretend)).1).order = [b!"0", b!"n", b!"m", b!"x"] := rfl
example := (reachable_WF exCfg exSeq exW exPretend exW_wf).2
/-- the same with a fault injected at the first mutation (not pretending, empty disk): the
    add fails, the table stays -/
example : (stepS exCfg (exW, { faultAt := some 1 }) (.add b!"n" b!"b" [])).1.order = exW.order := rfl

/-- a disk: layers `m`, `b` (base m), a directory with an illegal name and one without a
    layerconfig; FindLayers returns the two layers, parents first -/
def exDisk : World :=
  { fs := [(b!"/", .dir), (b!"/lc", .dir), (b!"/lc/layers", .dir),
           (b!"/lc/layers/b", .dir), (b!"/lc/layers/b/layerconfig", .file b!"base m\n"),
           (b!"/lc/layers/m", .dir), (b!"/lc/layers/m/layerconfig", .file []),
           (b!"/lc/layers/x.y", .dir), (b!"/lc/layers/x.y/layerconfig", .file []),
           (b!"/lc/layers/empty", .dir)] }
example : (Fs.children exDisk.fs exCfg.layerdirs).Nodup := by decide
set_option maxRecDepth 100000 in
example : ∃ d, (findLayers exCfg).run.run exDisk = (.ok d, exDisk) ∧ WF d ∧ d.order = [b!"m", b!"b"] := by
  refine ⟨_, rfl, ?_, rfl⟩
  exact findLayers_WF_partial exCfg exDisk exDisk _ (by decide) rfl

/-- one whole invocation on that disk, not pretending: `rebase b ""` ends normally, returns a
    well-formed table of two roots and has rewritten b's layerconfig -/
example : ∀ d, (run exCfg [] (.rebase b!"b" []) exDisk).1 = .ok d → WF d :=
  fun d h => run_WF_partial exCfg [] (.rebase b!"b" []) exDisk d rfl (by decide) h
example : (run exCfg [] (.rebase b!"b" []) exDisk).1.toOption.map (·.order) = some [b!"b", b!"m"] := by
  decide +kernel
example : Fs.readFile (run exCfg [] (.rebase b!"b" []) exDisk).2.fs b!"/lc/layers/b/layerconfig" = some [] := by
  decide +kernel
set_option maxRecDepth 100000 in
example : ∃ d w', (getLayers exCfg []).run.run { exDisk with pretend := true } = (.ok d, w') ∧ WF d
    ∧ d.order = [b!"m", b!"b"] := by
  refine ⟨_, _, rfl, ?_, rfl⟩
  exact getLayers_WF_partial exCfg [] { exDisk with pretend := true } _ _ (by decide) rfl
/-- `reach_WF` with a different world at every step -/
example : WF (stepS exCfg ((stepS exCfg (exW, exPretend) (.add b!"n" b!"b" [])).1, { crashAt := some 2 })
    (.remove b!"a" true)).1 :=
  reach_WF exCfg exW _ exW_wf (Reach.step _ _ _ (Reach.step _ _ _ Reach.start))
/-- `wf_no_self_ancestor` / `wf_order` are about a table with real ancestors -/
example : ¬ Ancestor exW.layers exA exA := wf_no_self_ancestor exW exW_wf exA
example : Before exW.order b!"m" b!"a" :=
  (wf_order exW exW_wf).2.2 exA exC
    (Ancestor.trans exA exB exC (Ancestor.parent exB exA (by simp [exW, exLayers]) (by decide) (by decide))
      (by simp [exW, exLayers]) (by decide) (by decide))

/-! ### 7. the disk: a well-formed tree stays well-formed, and lists without a name twice -/

open Lc.TreeWF Lc.TreeKeeps

/-- **children_nodup**: in a well-formed tree (`TreeWF`: no path twice, every path clean and
    absolute, parents present) a directory listing has no name twice -/
theorem children_nodup (fs : Fs.Tree) (h : TreeWF fs) (dir : Bytes) : (Fs.children fs dir).Nodup :=
  Lc.TreeWF.children_nodup h dir

/-- **findLayers_WF**: `findLayers_WF_partial` with the tree invariant instead of the
    hypothesis on the listing -/
theorem findLayers_WF (cfg : Config) (w w' : World) (d : Defs) (hT : TreeWF w.fs)
    (hr : (findLayers cfg).run.run w = (.ok d, w')) : WF d :=
  findLayers_WF_partial cfg w w' d (Lc.TreeWF.children_nodup hT _) hr

theorem getLayers_WF (cfg : Config) (inuse : List (Bytes × List User)) (w w' : World) (d : Defs)
    (hT : TreeWF w.fs) (hr : (getLayers cfg inuse).run.run w = (.ok d, w')) : WF d :=
  getLayers_WF_partial cfg inuse w w' d (Lc.TreeWF.children_nodup hT _) hr

theorem run_WF (cfg : Config) (inuse : List (Bytes × List User)) (c : Cmd) (w : World)
    (d : Defs) (hc : structural c = true) (hT : TreeWF w.fs)
    (hr : (run cfg inuse c w).1 = .ok d) : WF d :=
  run_WF_partial cfg inuse c w d hc (Lc.TreeWF.children_nodup hT _) hr

/-- **run_keeps_treeWF**: a whole invocation of any command except `mount` / `chroot`, from
    ANY world (any pretend / force / fault / crash setting), on ANY exit, leaves a well-formed
    tree well-formed — provided the three configured directories are clean absolute paths
    (`CfgClean`).  `mount` and `chroot` are excluded because they create directories and
    symbolic links at paths copied verbatim from a layerconfig, which need not be clean; the
    model's tree does not normalise them as a real kernel would. -/
theorem run_keeps_treeWF (cfg : Config) (inuse : List (Bytes × List User)) (c : Cmd) (w : World)
    (hc : CfgClean cfg) (hs : fsSafe c = true) (hT : TreeWF w.fs) :
    TreeWF (run cfg inuse c w).2.fs := run_tw cfg inuse c w hc hs hT

/-- the example disk is well-formed, the example configuration clean; after a real
    (non-pretending) `rebase` and after an `add` interrupted by a crash it still is -/
example : TreeWF exDisk.fs ∧ CfgClean exCfg := by decide
example : TreeWF (run exCfg [] (.rebase b!"b" []) exDisk).2.fs :=
  run_keeps_treeWF exCfg [] _ exDisk (by decide) rfl (by decide)
example : TreeWF (run exCfg [] (.add b!"n" b!"b" []) { exDisk with crashAt := some 3 }).2.fs :=
  run_keeps_treeWF exCfg [] _ _ (by decide) rfl (by decide)
/-- a tree with a path twice, a tree with an unclean path, a tree with an orphan: not well-formed -/
example : ¬ TreeWF [(b!"/a", .dir), (b!"/a", .dir)] := by decide
example : ¬ TreeWF [(b!"/", .dir), (b!"/a", .dir), (b!"/a/../a", .dir)] := by decide
example : ¬ TreeWF [(b!"/", .dir), (b!"/a/b", .dir)] := by decide
/-- without the invariant a listing can have a name twice -/
example : ¬ (Fs.children [(b!"/", .dir), (b!"/a", .dir), (b!"/a", .file [])] b!"/").Nodup := by decide

/-! ### 8. the forest ON DISK: what the next invocation reads -/

open Lc.DiskView Lc.DiskForest Lc.DiskCmd

/-- side conditions on the configuration (all decidable): the three configured directories
    are clean absolute paths; no automatic export link lies at, above or below a layer
    directory (`ExportsApart`, Lemmas/ExportsApart.lean); the layers directory is not itself
    called `.bashrc` and is neither of the two files `init` writes -/
def CfgOK (cfg : Config) : Prop :=
  CfgClean cfg ∧ ExportsApart.ExportsApart cfg ∧ pathBase cfg.layerdirs ≠ b!".bashrc" ∧
    cfg.layerdirs ∉ initFiles cfg

instance (cfg : Config) : Decidable (CfgOK cfg) := inferInstanceAs (Decidable (_ ∧ _ ∧ _ ∧ _))

/-- **a forest on disk can be listed**: `findLayers` succeeds, only reads, and returns a
    well-formed table — the one described by `diskLayers` -/
theorem forest_lists (cfg : Config) (w : World) (hf : DiskForest cfg w.fs) :
    ∃ d, (findLayers cfg).run.run w = (.ok d, w) ∧ WF d ∧ d.layers = diskLayers cfg w.fs := by
  have hdir := isDir_of_get_dir w.fs _ hf.ok.dir
  obtain ⟨o, ho⟩ := normalize_fuel _ hf.check
  have hrun : (findLayers cfg).run.run w = (.ok { layers := diskLayers cfg w.fs, order := o }, w) := by
    unfold findLayers fail reorder
    simp only [run_bind, run_getW, run_ite, run_throw]
    have hc : checkInheritance (readLayerFiles cfg w.fs (Fs.children w.fs cfg.layerdirs)) = true := hf.check
    have ho' : normalizeOrder (readLayerFiles cfg w.fs (Fs.children w.fs cfg.layerdirs)) = .ok o := ho
    simp [hdir, hc, ho']
    rfl
  exact ⟨_, hrun, findLayers_WF cfg w w _ hf.ok.tree hrun, rfl⟩

/-- … and conversely: a well-formed tree whose layers directory is a real directory, without
    symbolic links at layerconfig paths, on which `findLayers` succeeds, is a forest on disk -/
theorem lists_forest (cfg : Config) (w w' : World) (d : Defs) (hT : TreeWF w.fs)
    (hdir : Fs.get w.fs cfg.layerdirs = some .dir)
    (hnl : ∀ a, LegalNE a → ∀ t, Fs.get w.fs (cfgOf cfg a) ≠ some (.symlink t))
    (hr : (findLayers cfg).run.run w = (.ok d, w')) : DiskForest cfg w.fs := by
  obtain ⟨_, hL, hc, _⟩ := findLayers_ok cfg w w' d hr
  exact ⟨⟨hT, hdir, hnl⟩, by unfold diskLayers; rw [← hL]; exact hc⟩

/-- the commands of the property's sentence: init, add, remove, rebase, mkdirs, list.
    (`rename` is treated separately: interrupted between the directory move and the rewriting
    of the children it leaves dangling bases — `C11.rename_interrupted_dangling_base_witness`.) -/
def forestCmd : Cmd → Bool
  | .init | .add .. | .remove .. | .rebase .. | .mkdirs .. | .probe => true
  | _ => false

theorem forestCmd_fsSafe (c : Cmd) (h : forestCmd c = true) : fsSafe c = true := by
  cases c <;> first | rfl | cases h

/-- the two cases of the invariant, one invocation -/
theorem run_disk (cfg : Config) (inuse : List (Bytes × List User)) (c : Cmd) (w : World)
    (hc : CfgOK cfg) (hs : forestCmd c = true) (hT : TreeWF w.fs) :
    TreeWF (run cfg inuse c w).2.fs ∧
    (DiskForest cfg w.fs → DiskForest cfg (run cfg inuse c w).2.fs) ∧
    (Fs.get w.fs cfg.layerdirs = none →
      Fs.get (run cfg inuse c w).2.fs cfg.layerdirs = none ∨ DiskForest cfg (run cfg inuse c w).2.fs) := by
  obtain ⟨hcl, hA, hnb, hni⟩ := hc
  obtain ⟨ds, hld⟩ := ld_of_clean cfg hcl.2.1
  have hex : isAbs cfg.exportdirs = true := hcl.2.2.2
  have hT' := run_keeps_treeWF cfg inuse c w hcl (forestCmd_fsSafe c hs) hT
  refine ⟨hT', ?_⟩
  -- everything but init: read the layers, then the command on what was read
  have key : ∀ (cmd : Defs → M Defs),
      (∀ d w1, Start cfg w1.fs d → DiskForest cfg w1.fs → TreeWF ((cmd d).run.run w1).2.fs →
        DiskForest cfg ((cmd d).run.run w1).2.fs) →
      TreeWF ((getLayers cfg inuse >>= cmd).run.run w).2.fs →
      (DiskForest cfg w.fs → DiskForest cfg ((getLayers cfg inuse >>= cmd).run.run w).2.fs) ∧
      (Fs.get w.fs cfg.layerdirs = none →
        Fs.get ((getLayers cfg inuse >>= cmd).run.run w).2.fs cfg.layerdirs = none ∨
          DiskForest cfg ((getLayers cfg inuse >>= cmd).run.run w).2.fs) := by
    intro cmd hcmd hTT
    rw [run_bind] at hTT ⊢
    have hfs := getLayers_fs_eq cfg inuse w
    generalize hgr : (getLayers cfg inuse).run.run w = r at hfs hTT ⊢
    obtain ⟨x, w1⟩ := r
    have hfs' : w1.fs = w.fs := hfs
    cases x with
    | error e =>
      refine ⟨fun hf => ?_, fun hab => Or.inl ?_⟩
      · show DiskForest cfg w1.fs
        rw [hfs']; exact hf
      · show Fs.get w1.fs _ = none
        rw [hfs']; exact hab
    | ok d =>
      refine ⟨fun hf => ?_, fun hab => ?_⟩
      · have hst := start_of_getLayers hld inuse w w1 d hf.ok hgr
        exact hcmd d w1 (hfs' ▸ hst) (hfs' ▸ hf) hTT
      · exfalso
        obtain ⟨_, hdir, _⟩ := getLayers_ok cfg inuse w w1 d hT hgr
        have := (present_iff _ _).mpr (isDir_key _ _ hdir)
        rw [hab] at this; cases this
  unfold run at hT' ⊢
  cases c with
  | init =>
    have e : (runCmd cfg inuse .init).run.run w = ((initBase cfg >>= fun _ => (pure {} : M Defs)).run.run w) := rfl
    rw [e, run_bind] at hT' ⊢
    have hinv : ∀ hi : DiskInv cfg w.fs, ∀ hTi, DiskInv cfg ((initBase cfg).run.run w).2.fs :=
      fun hi hTi => init_inv hld hni w hi hTi
    have hfor : ∀ hf : DiskForest cfg w.fs, ∀ hTi, DiskForest cfg ((initBase cfg).run.run w).2.fs :=
      fun hf hTi => init_forest hld hni w hf hTi
    generalize hgr : (initBase cfg).run.run w = r at hT' hinv hfor ⊢
    obtain ⟨x, w1⟩ := r
    cases x with
    | error e => exact ⟨fun hf => hfor hf hT', fun hab => (hinv ⟨hT, Or.inl hab⟩ hT').2⟩
    | ok u => exact ⟨fun hf => hfor hf hT', fun hab => (hinv ⟨hT, Or.inl hab⟩ hT').2⟩
  | add n b f =>
    exact key (fun d => addLayer cfg d n b f) (fun d w1 hst hf hTT => add_forest hld hnb d n b f w1 hst hf hTT) hT'
  | remove n f =>
    exact key (fun d => removeLayer cfg d n f)
      (fun d w1 hst hf hTT => remove_forest hld hA hex d n f w1 hst hf hTT) hT'
  | rebase n b =>
    exact key (fun d => rebaseLayer cfg d n b) (fun d w1 hst hf hTT => rebase_forest hld d n b w1 hst hf hTT) hT'
  | mkdirs n =>
    exact key (fun d => makedirs cfg d n) (fun d w1 _ hf hTT => makedirs_forest hld d n w1 hf hTT) hT'
  | probe =>
    exact key (fun d => pure d) (fun d w1 _ hf _ => hf) hT'
  | rename _ _ _ => cases hs
  | mount _ => cases hs
  | umount _ _ => cases hs
  | shake => cases hs
  | chroot _ => cases hs

/-- **disk_inv_after_run**: the installation invariant `DiskInv` (tree well-formed; no layers
    directory yet, or a forest on disk) is kept by a whole invocation of init / add / remove /
    rebase / mkdirs / list — from ANY world: pretending or not, with or without an injected
    fault or crash, whether the command returns normally, is rejected or fails half-way. -/
theorem disk_inv_after_run (cfg : Config) (inuse : List (Bytes × List User)) (c : Cmd) (w : World)
    (hc : CfgOK cfg) (hs : forestCmd c = true) (hi : DiskInv cfg w.fs) :
    DiskInv cfg (run cfg inuse c w).2.fs := by
  obtain ⟨hT', h1, h2⟩ := run_disk cfg inuse c w hc hs hi.1
  rcases hi.2 with hab | hf
  · exact ⟨hT', h2 hab⟩
  · exact ⟨hT', Or.inr (h1 hf)⟩

/-- **disk_forest_after_run** (the property's sentence): from a world whose installation is a
    forest on disk (it can be listed), after a whole invocation of init / add / remove /
    rebase / mkdirs / list — any exit, any pretend / fault / crash setting — the installation
    can again be listed: `findLayers` on the world left behind succeeds and returns a
    well-formed table (`WF`: unique legal names, every parent present, no cycle, ordered). -/
theorem disk_forest_after_run (cfg : Config) (inuse : List (Bytes × List User)) (c : Cmd) (w : World)
    (hc : CfgOK cfg) (hs : forestCmd c = true) (hf : DiskForest cfg w.fs) :
    DiskForest cfg (run cfg inuse c w).2.fs ∧
    ∃ d, (findLayers cfg).run.run (run cfg inuse c w).2 = (.ok d, (run cfg inuse c w).2) ∧ WF d := by
  have hf' := (run_disk cfg inuse c w hc hs hf.ok.tree).2.1 hf
  obtain ⟨d, hr, hwf, _⟩ := forest_lists cfg _ hf'
  exact ⟨hf', d, hr, hwf⟩

/-- one invocation: its in-use map and its command -/
abbrev Invocation := List (Bytes × List User) × Cmd

/-- the worlds passed while running the invocations one after the other; between two
    invocations the switches (pretend, force, fault and crash positions) may be set anew by
    `sw`, the tree and the mount table are handed on -/
def worldsAfter (cfg : Config) (sw : Nat → World → World) : Nat → World → List Invocation → List World
  | _, w, [] => [w]
  | k, w, (iu, c) :: rest => w :: worldsAfter cfg sw (k + 1) (sw k (run cfg iu c w).2) rest

/-- **disk_forest_reachable**: start from any world whose tree is well-formed and which has no
    layers directory yet or is a forest on disk; run any list of invocations of init / add /
    remove / rebase / mkdirs / list, each with its own in-use map and its own pretend / fault /
    crash setting (`sw` may change the switches between invocations as long as it keeps the
    tree).  Every world on the way satisfies the invariant; in particular whenever the layers
    directory exists the installation can be listed and the table read is a well-formed forest
    (`wf_order` then gives the listing order). -/
theorem disk_forest_reachable (cfg : Config) (hc : CfgOK cfg) (sw : Nat → World → World)
    (hsw : ∀ k w, (sw k w).fs = w.fs) (invs : List Invocation) (hcs : ∀ i ∈ invs, forestCmd i.2 = true) :
    ∀ (k : Nat) (w0 : World), DiskInv cfg w0.fs →
      ∀ w ∈ worldsAfter cfg sw k w0 invs, DiskInv cfg w.fs ∧
        (Fs.get w.fs cfg.layerdirs ≠ none →
          ∃ d, (findLayers cfg).run.run w = (.ok d, w) ∧ WF d ∧ d.layers = diskLayers cfg w.fs) := by
  induction invs with
  | nil =>
    intro k w0 hi w hw
    simp only [worldsAfter, List.mem_singleton] at hw
    subst hw
    refine ⟨hi, fun hne => ?_⟩
    rcases hi.2 with hab | hf
    · exact absurd hab hne
    · exact forest_lists cfg w hf
  | cons i rest ih =>
    intro k w0 hi w hw
    obtain ⟨iu, c⟩ := i
    simp only [worldsAfter, List.mem_cons] at hw
    rcases hw with rfl | hw
    · refine ⟨hi, fun hne => ?_⟩
      rcases hi.2 with hab | hf
      · exact absurd hab hne
      · exact forest_lists cfg w hf
    · have hstep := disk_inv_after_run cfg iu c w0 hc (hcs (iu, c) (by simp)) hi
      exact ih (fun j hj => hcs j (List.mem_cons_of_mem _ hj)) (k + 1) _
        (by rw [hsw]; exact hstep) w hw

/-- **disk_forest_after_rename**: a whole `rename` invocation that returns normally
    (pretending or not, whatever order the children are visited in) leaves a forest on disk:
    the installation can be listed again and the table read is well-formed.  A `rename` that is
    REJECTED changes nothing (`rename_rejects_source`, `rename_rejects_newname`, C04); a rename
    that fails between the directory move and the last rewrite (injected fault, crash, or an
    operating-system error) can leave children with a dangling base —
    `C11.rename_interrupted_dangling_base_witness` — so no statement is made for those exits. -/
theorem disk_forest_after_rename (cfg : Config) (inuse : List (Bytes × List User)) (old new : Bytes)
    (co : List Bytes) (w : World) (d' : Defs) (hc : CfgOK cfg) (hf : DiskForest cfg w.fs)
    (hok : (run cfg inuse (.rename old new co) w).1 = .ok d') :
    DiskForest cfg (run cfg inuse (.rename old new co) w).2.fs ∧
    ∃ d, (findLayers cfg).run.run (run cfg inuse (.rename old new co) w).2
        = (.ok d, (run cfg inuse (.rename old new co) w).2) ∧ WF d := by
  obtain ⟨hcl, hA, _, _⟩ := hc
  obtain ⟨ds, hld⟩ := ld_of_clean cfg hcl.2.1
  have hT' := run_keeps_treeWF cfg inuse (.rename old new co) w hcl rfl hf.ok.tree
  have hf' : DiskForest cfg (run cfg inuse (.rename old new co) w).2.fs := by
    generalize hw' : (run cfg inuse (.rename old new co) w).2 = w' at hT' ⊢
    have hrun : (getLayers cfg inuse >>= fun d => renameLayer cfg d old new co).run.run w = (.ok d', w') := by
      have e : run cfg inuse (.rename old new co) w
          = (getLayers cfg inuse >>= fun d => renameLayer cfg d old new co).run.run w := rfl
      rw [← e, ← hok, ← hw']
    obtain ⟨d, w1, h1, h2⟩ := bind_ok_inv _ _ _ _ _ hrun
    have hfs : w1.fs = w.fs := by
      have := getLayers_fs_eq cfg inuse w
      rw [h1] at this; exact this
    have hst := start_of_getLayers hld inuse w w1 d hf.ok h1
    exact rename_forest hld hA hcl.2.2.2 d old new co w1 (hfs ▸ hst) (hfs ▸ hf) d' w' h2 hT'
  obtain ⟨d, hr, hwf, _⟩ := forest_lists cfg _ hf'
  exact ⟨hf', d, hr, hwf⟩

/-- an invocation the sequence theorem accepts in the world `w`: one of init / add / remove /
    rebase / mkdirs / list (any exit), or a `rename` that returns normally or leaves the tree
    as it was (a rejected rename, a rename of a missing layer, …) -/
def Admissible (cfg : Config) (iu : List (Bytes × List User)) (c : Cmd) (w : World) : Prop :=
  forestCmd c = true ∨
    ∃ o n co, c = .rename o n co ∧ ((∃ d', (run cfg iu c w).1 = .ok d') ∨ (run cfg iu c w).2.fs = w.fs)

/-- the worlds reachable from `w0`: after an admissible invocation any world with the tree it
    left behind (the switches, the mount table, the trace may be anything) -/
inductive DiskReach (cfg : Config) (w0 : World) : World → Prop where
  | start : DiskReach cfg w0 w0
  | step (w w1 : World) (iu : List (Bytes × List User)) (c : Cmd) : DiskReach cfg w0 w →
      Admissible cfg iu c w → w1.fs = (run cfg iu c w).2.fs → DiskReach cfg w0 w1

/-- **disk_reach_inv**: `disk_forest_reachable` with `rename` among the commands -/
theorem disk_reach_inv (cfg : Config) (hc : CfgOK cfg) (w0 w : World) (hi : DiskInv cfg w0.fs)
    (hr : DiskReach cfg w0 w) :
    DiskInv cfg w.fs ∧ (Fs.get w.fs cfg.layerdirs ≠ none →
      ∃ d, (findLayers cfg).run.run w = (.ok d, w) ∧ WF d ∧ d.layers = diskLayers cfg w.fs) := by
  have key : DiskInv cfg w.fs := by
    induction hr with
    | start => exact hi
    | step w w1 iu c _ ha hfs ih =>
      rw [hfs]
      rcases ha with hfc | ⟨o, n, co, rfl, hok | hsame⟩
      · exact disk_inv_after_run cfg iu c w hc hfc ih
      · obtain ⟨d', hok⟩ := hok
        have hT' := run_keeps_treeWF cfg iu (.rename o n co) w hc.1 rfl ih.1
        refine ⟨hT', ?_⟩
        rcases ih.2 with hab | hf
        · -- without a layers directory `rename` cannot return normally
          exfalso
          have hrun : (getLayers cfg iu >>= fun d => renameLayer cfg d o n co).run.run w
              = (.ok d', (run cfg iu (.rename o n co) w).2) := by
            have e : run cfg iu (.rename o n co) w
                = (getLayers cfg iu >>= fun d => renameLayer cfg d o n co).run.run w := rfl
            rw [← e, ← hok]
          obtain ⟨d, w2, h1, _⟩ := bind_ok_inv _ _ _ _ _ hrun
          obtain ⟨_, hdir, _⟩ := getLayers_ok cfg iu w w2 d ih.1 h1
          have := (present_iff _ _).mpr (isDir_key _ _ hdir)
          rw [hab] at this; cases this
        · exact Or.inr (disk_forest_after_rename cfg iu o n co w d' hc hf hok).1
      · rw [hsame]; exact ih
  refine ⟨key, fun hne => ?_⟩
  rcases key.2 with hab | hf
  · exact absurd hab hne
  · exact forest_lists cfg w hf

/-! non-vacuity of 8: the example disk and configuration; real (non-pretending) runs -/

example : CfgOK exCfg := by decide

/-- a tree without symbolic links on which the layers directory is a directory and
    `findLayers` succeeds is a forest on disk -/
theorem forest_of_plain (cfg : Config) (w w' : World) (d : Defs) (hT : TreeWF w.fs)
    (hdir : Fs.get w.fs cfg.layerdirs = some .dir)
    (hpl : w.fs.all (fun e => match e.2 with | .symlink _ => false | _ => true) = true)
    (hr : (findLayers cfg).run.run w = (.ok d, w')) : DiskForest cfg w.fs := by
  refine lists_forest cfg w w' d hT hdir ?_ hr
  intro a _ t hg
  have := List.all_eq_true.mp hpl _ (get_some_key _ _ _ hg)
  simp at this

set_option maxRecDepth 100000 in
/-- the example disk (layers `m`, `b` ← m, an illegal name, a directory without layerconfig) -/
theorem exDisk_forest : DiskForest exCfg exDisk.fs :=
  forest_of_plain exCfg exDisk exDisk _ (by decide) (by decide) (by decide) rfl

/-- `disk_forest_after_run` on it: a real `add`, and the same `add` with a crash injected at
    its 4th (the layerconfig rename) and 5th mutation — listable each time; the listings -/
example := disk_forest_after_run exCfg [] (.add b!"n" b!"b" []) exDisk (by decide) rfl exDisk_forest
example := disk_forest_after_run exCfg [] (.add b!"n" b!"b" []) { exDisk with crashAt := some 4 }
  (by decide) rfl exDisk_forest
example : ((findLayers exCfg).run.run (run exCfg [] (.add b!"n" b!"b" []) exDisk).2).1.toOption.map (·.order)
    = some [b!"m", b!"b", b!"n"] := by decide +kernel
example : ((findLayers exCfg).run.run
      (run exCfg [] (.add b!"n" b!"b" []) { exDisk with crashAt := some 4 }).2).1.toOption.map (·.order)
    = some [b!"m", b!"b"] := by decide +kernel
example : ((findLayers exCfg).run.run
      (run exCfg [] (.add b!"n" b!"b" []) { exDisk with crashAt := some 5 }).2).1.toOption.map (·.order)
    = some [b!"m", b!"b", b!"n"] := by decide +kernel

/-- `disk_forest_reachable` from a disk that holds nothing but "/": list (fails), init, add a
    root, add a child, the same again (refused), rebase the root onto its child (refused),
    remove the root (refused), add a grandchild, rebase it onto the root, mkdirs, remove the
    middle layer with its files — the invariant all the way, and the final listing -/
def exEmpty : World := { fs := [(b!"/", .dir)] }
def exInvs : List Invocation :=
  [([], .probe), ([], .init), ([], .add b!"r" [] []), ([], .add b!"c" b!"r" []), ([], .add b!"c" b!"r" []),
   ([], .rebase b!"r" b!"c"), ([], .remove b!"r" false), ([], .add b!"g" b!"c" []), ([], .rebase b!"g" b!"r"),
   ([], .mkdirs b!"g"), ([], .remove b!"c" true)]
example : DiskInv exCfg exEmpty.fs := ⟨by decide, Or.inl (by decide)⟩
example := disk_forest_reachable exCfg (by decide) (fun _ w => w) (fun _ _ => rfl) exInvs (by decide) 0 exEmpty
  ⟨by decide, Or.inl (by decide)⟩
example : ((findLayers exCfg).run.run
      ((worldsAfter exCfg (fun _ w => w) 0 exEmpty exInvs).getLastD exEmpty)).1.toOption.map (·.order)
    = some [b!"r", b!"g"] := by decide +kernel
/-- `disk_forest_after_rename` on the example disk: a real rename of `m` (its child `b` is
    rewritten), and the listing afterwards -/
example : (run exCfg [] (.rename b!"m" b!"x" []) exDisk).1.toOption.map (·.order) = some [b!"x", b!"b"] := by
  decide +kernel
example : ((findLayers exCfg).run.run (run exCfg [] (.rename b!"m" b!"x" []) exDisk).2).1.toOption.map
    (fun d => d.layers.map nb) = some [(b!"b", b!"x"), (b!"x", [])] := by decide +kernel
/-- a disk that is not a forest (b's parent is missing): the hypothesis is not vacuous -/
example : ¬ DiskForest exCfg [(b!"/", .dir), (b!"/lc", .dir), (b!"/lc/layers", .dir),
    (b!"/lc/layers/b", .dir), (b!"/lc/layers/b/layerconfig", .file b!"base m\n")] := by
  intro h
  have := h.check
  revert this
  decide +kernel

end Lc.Props.C02
