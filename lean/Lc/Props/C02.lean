/-
  C02 — the layer hierarchy stays a well-formed forest and every command terminates
  (the parts carried by the command model's guards, the cycle check and normalizeOrder).

  1. `*_rejects_*` (rejected_unchanged): each rejection reason named by the property makes
     the command return an `error` (never a panic) with the world exactly as it was —
     for EVERY configuration, layer table, argument and world.
  2. `normalize_fuel`: a table accepted by checkInheritance never exhausts the key builder
     of normalizeOrder and never dereferences a missing base.
  3. `ancestor_precedes`: in the normalized order every ancestor stands before its
     descendants.
  4. `list_total`: FindLayers never panics.
-/
import Lc.Lemmas.RunM
import Lc.Lemmas.Forest

namespace Lc.Props.C02
open Lc Lc.Layers Lc.RunM Lc.Forest

/-- the command was refused with error class `c` and nothing happened -/
def RefusedWith {α} (r : Except Fault α × World) (w : World) (c : String) : Prop :=
  r = (.error (.err c), w)

/-- refused with one of the listed classes, nothing happened -/
def Refused {α} (r : Except Fault α × World) (w : World) (classes : List String) : Prop :=
  ∃ c, c ∈ classes ∧ r = (.error (.err c), w)

/-! ### the name tests, as the property words them -/

theorem need_iff (d : Defs) (n : Bytes) :
    testName1 d n NAME_NEED = true ↔ n ≠ [] ∧ isLegalLayerName n = true ∧ (findLayer d n).isSome = true := by
  unfold testName1 NAME_NEED
  cases n with
  | nil => simp
  | cons x xs =>
    by_cases hl : isLegalLayerName (x :: xs) = true <;> simp [hl]

theorem free_iff (d : Defs) (n : Bytes) :
    testName1 d n NAME_FREE = true ↔ n ≠ [] ∧ isLegalLayerName n = true ∧ findLayer d n = none := by
  unfold testName1 NAME_FREE
  cases n with
  | nil => simp
  | cons x xs =>
    by_cases hl : isLegalLayerName (x :: xs) = true <;> simp [hl]

theorem optneed_iff (d : Defs) (n : Bytes) :
    testName1 d n (NAME_OPTIONAL + NAME_NEED) = true ↔
      n = [] ∨ (isLegalLayerName n = true ∧ (findLayer d n).isSome = true) := by
  unfold testName1 NAME_NEED NAME_OPTIONAL
  cases n with
  | nil => simp
  | cons x xs =>
    by_cases hl : isLegalLayerName (x :: xs) = true <;> simp [hl]

/-! ### 1. rejected commands change nothing -/

/-- **add**: empty, illegal or already used name -/
theorem add_rejects_name (cfg : Config) (d : Defs) (name base cf : Bytes) (w : World)
    (h : name = [] ∨ isLegalLayerName name = false ∨ (findLayer d name).isSome = true) :
    RefusedWith ((addLayer cfg d name base cf).run.run w) w "name" := by
  have h1 : testName1 d name NAME_FREE = false := by
    cases ht : testName1 d name NAME_FREE with
    | false => rfl
    | true =>
      obtain ⟨a, b, c⟩ := (free_iff d name).mp ht
      rcases h with h | h | h
      · exact absurd h a
      · rw [b] at h; cases h
      · rw [c] at h; cases h
  unfold RefusedWith addLayer testName fail
  simp only [List.all_cons, h1, Bool.false_and, run_bind, run_throw, Bool.false_eq_true, if_false]

/-- **add**: a parent is named but is illegal or does not exist -/
theorem add_rejects_parent (cfg : Config) (d : Defs) (name base cf : Bytes) (w : World)
    (hb : base ≠ []) (h : isLegalLayerName base = false ∨ findLayer d base = none) :
    RefusedWith ((addLayer cfg d name base cf).run.run w) w "name" := by
  have h1 : testName1 d base (NAME_OPTIONAL + NAME_NEED) = false := by
    cases ht : testName1 d base (NAME_OPTIONAL + NAME_NEED) with
    | false => rfl
    | true =>
      rcases (optneed_iff d base).mp ht with e | ⟨a, b⟩
      · exact absurd e hb
      · rcases h with h | h
        · rw [a] at h; cases h
        · rw [h] at b; cases b
  unfold RefusedWith addLayer testName fail
  simp only [List.all_cons, h1, Bool.false_and, Bool.and_false, run_bind, run_throw, Bool.false_eq_true, if_false]

/-- **rename**: the source is missing (or its name empty / illegal) -/
theorem rename_rejects_source (cfg : Config) (d : Defs) (old new : Bytes) (co : List Bytes) (w : World)
    (h : old = [] ∨ isLegalLayerName old = false ∨ findLayer d old = none) :
    RefusedWith ((renameLayer cfg d old new co).run.run w) w "name" := by
  have h1 : testName1 d old NAME_NEED = false := by
    cases ht : testName1 d old NAME_NEED with
    | false => rfl
    | true =>
      obtain ⟨a, b, c⟩ := (need_iff d old).mp ht
      rcases h with h | h | h
      · exact absurd h a
      · rw [b] at h; cases h
      · rw [h] at c; cases c
  unfold RefusedWith renameLayer testName fail
  simp only [List.all_cons, h1, Bool.false_and, run_bind, run_throw, Bool.false_eq_true, if_false]

/-- **rename**: the new name is empty, illegal or already used -/
theorem rename_rejects_newname (cfg : Config) (d : Defs) (old new : Bytes) (co : List Bytes) (w : World)
    (h : new = [] ∨ isLegalLayerName new = false ∨ (findLayer d new).isSome = true) :
    RefusedWith ((renameLayer cfg d old new co).run.run w) w "name" := by
  have h1 : testName1 d new NAME_FREE = false := by
    cases ht : testName1 d new NAME_FREE with
    | false => rfl
    | true =>
      obtain ⟨a, b, c⟩ := (free_iff d new).mp ht
      rcases h with h | h | h
      · exact absurd h a
      · rw [b] at h; cases h
      · rw [c] at h; cases h
  unfold RefusedWith renameLayer testName fail
  simp only [List.all_cons, h1, Bool.false_and, Bool.and_false, run_bind, run_throw, Bool.false_eq_true, if_false]

/-- **rebase**: the layer is missing -/
theorem rebase_rejects_missing (cfg : Config) (d : Defs) (name nb : Bytes) (w : World)
    (h : name = [] ∨ isLegalLayerName name = false ∨ findLayer d name = none) :
    RefusedWith ((rebaseLayer cfg d name nb).run.run w) w "name" := by
  have h1 : testName1 d name NAME_NEED = false := by
    cases ht : testName1 d name NAME_NEED with
    | false => rfl
    | true =>
      obtain ⟨a, b, c⟩ := (need_iff d name).mp ht
      rcases h with h | h | h
      · exact absurd h a
      · rw [b] at h; cases h
      · rw [h] at c; cases c
  unfold RefusedWith rebaseLayer testName fail
  simp only [List.all_cons, h1, Bool.false_and, run_bind, run_throw, Bool.false_eq_true, if_false]

/-- **rebase**: the new parent is named but illegal or missing -/
theorem rebase_rejects_parent (cfg : Config) (d : Defs) (name nb : Bytes) (w : World)
    (hb : nb ≠ []) (h : isLegalLayerName nb = false ∨ findLayer d nb = none) :
    RefusedWith ((rebaseLayer cfg d name nb).run.run w) w "name" := by
  have h1 : testName1 d nb (NAME_NEED + NAME_OPTIONAL) = false := by
    cases ht : testName1 d nb (NAME_NEED + NAME_OPTIONAL) with
    | false => rfl
    | true =>
      rw [Nat.add_comm] at ht
      rcases (optneed_iff d nb).mp ht with e | ⟨a, b⟩
      · exact absurd e hb
      · rcases h with h | h
        · rw [a] at h; cases h
        · rw [h] at b; cases b
  unfold RefusedWith rebaseLayer testName fail
  simp only [List.all_cons, h1, Bool.false_and, Bool.and_false, run_bind, run_throw, Bool.false_eq_true, if_false]

/-- rebasing a layer onto itself closes a cycle: the check on the modified table fails -/
theorem self_base_is_cycle (d : Defs) (l : Layer) (n : Bytes) (hn : n ≠ [])
    (hl : findLayer d n = some l) :
    checkInheritance (setLayer d { l with base := n }).layers = false := by
  have hname : l.name = n := by
    have := List.find?_some hl; simpa using this
  let l' : Layer := { l with base := n }
  have hmem : l' ∈ (setLayer d l').layers := mem_setLayer d l l' n hl hname
  have hself := find?_setLayer_self d l l' n hl hname
  have hnlen : ¬ (n.length == 0) = true := by
    cases n with
    | nil => exact absurd rfl hn
    | cons x xs => simp
  cases hc : checkInheritance (setLayer d l').layers with
  | false => rfl
  | true =>
    exfalso
    unfold checkInheritance at hc
    have := List.all_eq_true.mp hc l' hmem
    unfold chainOk at this
    have hb : l'.base = n := rfl
    rw [hb] at this
    simp only [hnlen, if_false, hself, Bool.false_eq_true] at this
    have hv : [l'.name].contains l'.name = true := by simp
    rw [if_pos hv] at this
    cases this

/-- rebasing a layer onto one of its descendants closes a cycle -/
theorem descendant_base_is_cycle (d : Defs) (l : Layer) (n k : Bytes) (hn : n ≠ [])
    (hl : findLayer d n = some l) (hd : Desc d.layers n k) :
    checkInheritance (setLayer d { l with base := k }).layers = false := by
  have hname : l.name = n := by
    have := List.find?_some hl; simpa using this
  let l' : Layer := { l with base := k }
  have hmem : l' ∈ (setLayer d l').layers := mem_setLayer d l l' n hl hname
  cases hc : checkInheritance (setLayer d l').layers with
  | false => rfl
  | true =>
    exfalso
    unfold checkInheritance at hc
    have h1 := List.all_eq_true.mp hc l' hmem
    have h2 := chainOk_cycle d l l' n hn hl hname k hd ((setLayer d l').layers.length + 1) [l'.name]
      (by simp [l', hname])
    have : l'.base = k := rfl
    rw [this, h2] at h1
    cases h1

/-- outcome of rebase once the modified table fails the cycle check -/
theorem rebase_rejects_of_cycle (cfg : Config) (d : Defs) (name nb : Bytes) (w : World) (l : Layer)
    (hl : findLayer d name = some l)
    (hc : checkInheritance (setLayer d { l with base := nb }).layers = false) :
    Refused ((rebaseLayer cfg d name nb).run.run w) w ["name", "errorstate", "busy", "orphan"] := by
  unfold Refused rebaseLayer testName getL errorIfError errorIfBusy fail
  simp only [hl, hc, run_bind, run_ite, run_pure, run_throw]
  by_cases h1 : (List.all [(name, NAME_NEED), (nb, NAME_NEED + NAME_OPTIONAL)] fun t => testName1 d t.fst t.snd) = true <;>
    by_cases h2 : l.state = S_error <;> by_cases h3 : isBusy l true = true <;> simp [h1, h2, h3]

/-- **rebase onto itself** is rejected, nothing changes (and, the layer being idle and
    sound, the class is "orphan") -/
theorem rebase_rejects_self (cfg : Config) (d : Defs) (name : Bytes) (w : World) (l : Layer)
    (hn : name ≠ []) (hl : findLayer d name = some l) :
    Refused ((rebaseLayer cfg d name name).run.run w) w ["name", "errorstate", "busy", "orphan"] :=
  rebase_rejects_of_cycle cfg d name name w l hl (self_base_is_cycle d l name hn hl)

/-- **rebase onto a descendant** (any depth) is rejected, nothing changes -/
theorem rebase_rejects_descendant (cfg : Config) (d : Defs) (name nb : Bytes) (w : World) (l : Layer)
    (hn : name ≠ []) (hl : findLayer d name = some l) (hd : Desc d.layers name nb) :
    Refused ((rebaseLayer cfg d name nb).run.run w) w ["name", "errorstate", "busy", "orphan"] :=
  rebase_rejects_of_cycle cfg d name nb w l hl (descendant_base_is_cycle d l name nb hn hl hd)

/-- **remove**: the layer is missing -/
theorem remove_rejects_missing (cfg : Config) (d : Defs) (name : Bytes) (files : Bool) (w : World)
    (h : name = [] ∨ isLegalLayerName name = false ∨ findLayer d name = none) :
    RefusedWith ((removeLayer cfg d name files).run.run w) w "name" := by
  have h1 : testName1 d name NAME_NEED = false := by
    cases ht : testName1 d name NAME_NEED with
    | false => rfl
    | true =>
      obtain ⟨a, b, c⟩ := (need_iff d name).mp ht
      rcases h with h | h | h
      · exact absurd h a
      · rw [b] at h; cases h
      · rw [h] at c; cases c
  unfold RefusedWith removeLayer testName fail
  simp only [List.all_cons, h1, Bool.false_and, run_bind, run_throw, Bool.false_eq_true, if_false]

/-- **remove**: the layer has children -/
theorem remove_rejects_parent (cfg : Config) (d : Defs) (name : Bytes) (files : Bool) (w : World)
    (l k : Layer) (hl : findLayer d name = some l) (hk : k ∈ d.layers) (hkb : k.base = name) :
    Refused ((removeLayer cfg d name files).run.run w) w ["name", "errorstate", "haschild"] := by
  have hc : hasChild d name = true := by
    unfold hasChild; rw [List.any_eq_true]; exact ⟨k, hk, by simp [hkb]⟩
  unfold Refused removeLayer testName getL errorIfError fail
  simp only [hl, hc, run_bind, run_ite, run_pure, run_throw]
  by_cases h1 : testName1 d name NAME_NEED = true <;> by_cases h2 : l.state = S_error <;> simp [h1, h2]

/-! ### 2. normalizeOrder never runs out of fuel -/

/-- every key of an accepted table is defined -/
theorem keys_defined (layers : List Layer) (h : checkInheritance layers = true) (l : Layer)
    (hl : l ∈ layers) : (sortKey layers (layers.length + 1) l.base l.name).isSome = true := by
  unfold checkInheritance at h
  exact chainOk_sortKey layers _ _ _ _ (List.all_eq_true.mp h l hl)

/-- **normalize_fuel**: on a table that passes checkInheritance, normalizeOrder returns an
    order (the sort-key walk neither exhausts its fuel `#layers + 1` — in Go: it terminates —
    nor dereferences a missing base — in Go: no nil-pointer panic). -/
theorem normalize_fuel (layers : List Layer) (h : checkInheritance layers = true) :
    ∃ order, normalizeOrder layers = .ok order := by
  unfold normalizeOrder
  have hany : (layers.map fun l => (l.name, sortKey layers (layers.length + 1) l.base l.name)).any
      (·.2.isNone) = false := by
    rw [List.any_eq_false]
    intro x hx
    obtain ⟨l, hl, rfl⟩ := List.mem_map.mp hx
    have := keys_defined layers h l hl
    cases hk : sortKey layers (layers.length + 1) l.base l.name with
    | none => rw [hk] at this; cases this
    | some k => simp
  simp only [hany]
  exact ⟨_, rfl⟩

/-! ### 3. parents first -/

/-- the order is a permutation of the layer names: nothing lost, nothing invented -/
theorem order_perm (layers : List Layer) (order : List Bytes)
    (h : normalizeOrder layers = .ok order) : order.Perm (layers.map (·.name)) :=
  Forest.order_perm layers order h

/-- … so with unique layer names every name occurs exactly once -/
theorem order_nodup (layers : List Layer) (order : List Bytes)
    (h : normalizeOrder layers = .ok order) (hu : (layers.map (·.name)).Nodup) : order.Nodup :=
  (order_perm layers order h).nodup_iff.mpr hu

/-- `a` is a proper ancestor of `c`: reachable from `c` by following base links through
    the table (each link resolved by name lookup, as the Go code does) -/
inductive Ancestor (layers : List Layer) : Layer → Layer → Prop where
  | parent (c p : Layer) : c ∈ layers → c.base ≠ [] →
      layers.find? (·.name == c.base) = some p → Ancestor layers p c
  | trans (a p c : Layer) : Ancestor layers a p → c ∈ layers → c.base ≠ [] →
      layers.find? (·.name == c.base) = some p → Ancestor layers a c

/-- the key of an ancestor is a proper prefix of the key of the descendant -/
theorem ancestor_key_prefix (layers : List Layer)
    (hk : ∀ l ∈ layers, (sortKey layers (layers.length + 1) l.base l.name).isSome = true)
    (a c : Layer) (h : Ancestor layers a c) :
    a ∈ layers ∧ c ∈ layers ∧ ∃ ka s, s ≠ [] ∧
      sortKey layers (layers.length + 1) a.base a.name = some ka ∧
      sortKey layers (layers.length + 1) c.base c.name = some (ka ++ s) := by
  induction h with
  | parent c p hc hb hp =>
    have hpm : p ∈ layers := List.mem_of_find?_eq_some hp
    obtain ⟨kc, hkc⟩ := Option.isSome_iff_exists.mp (hk c hc)
    obtain ⟨kp, hkp, e⟩ := key_child layers layers.length c p kc hb hp hkc
    exact ⟨hpm, hc, kp, 47 :: c.name, by simp, hkp, by rw [hkc, e]⟩
  | trans a p c _ hc hb hp ih =>
    obtain ⟨ham, _, ka, s, hs, hka, hkp'⟩ := ih
    obtain ⟨kc, hkc⟩ := Option.isSome_iff_exists.mp (hk c hc)
    obtain ⟨kp, hkp, e⟩ := key_child layers layers.length c p kc hb hp hkc
    rw [hkp'] at hkp
    injection hkp with hkp
    refine ⟨ham, hc, ka, s ++ 47 :: c.name, by simp, hka, ?_⟩
    rw [hkc, e, ← hkp, List.append_assoc]

/-- **ancestor_precedes**: in the order computed by normalizeOrder every proper ancestor of
    a layer stands before it (so parents are probed, mounted, listed before children).
    No hypothesis on the names is needed: the parent's key is a proper prefix of the
    child's (`prefix_lt`), whatever bytes the names contain; with unique names
    (`order_nodup`) "before" is unambiguous. -/
theorem ancestor_precedes (layers : List Layer) (order : List Bytes)
    (h : normalizeOrder layers = .ok order) (a c : Layer) (hac : Ancestor layers a c) :
    Before order a.name c.name := by
  obtain ⟨hk, ho⟩ := normalizeOrder_ok layers order h
  obtain ⟨ham, hcm, ka, s, hs, hka, hkc⟩ := ancestor_key_prefix layers hk a c hac
  have hsorted := sortBy_sorted keyLt
    (fun x y hxy => bytesLt_asymm hxy) (fun x y z h1 h2 => bytesLt_trans h1 h2) (keyed layers)
  have hma : (a.name, some ka) ∈ sortBy keyLt (keyed layers) := by
    rw [mem_sortBy]; unfold keyed
    exact List.mem_map.mpr ⟨a, ham, by rw [hka]⟩
  have hmc : (c.name, some (ka ++ s)) ∈ sortBy keyLt (keyed layers) := by
    rw [mem_sortBy]; unfold keyed
    exact List.mem_map.mpr ⟨c, hcm, by rw [hkc]⟩
  have hlt : keyLt (a.name, some ka) (c.name, some (ka ++ s)) = true := prefix_lt ka s hs
  obtain ⟨l1, l2, e, hb⟩ := sorted_lt_before keyLt (fun x => bytesLt_irrefl _) hsorted hma hmc hlt
  refine ⟨l1.map (·.1), l2.map (·.1), ?_, ?_⟩
  · rw [ho, e]; simp
  · exact List.mem_map.mpr ⟨_, hb, rfl⟩

/-- the direct-parent case in the words of the property -/
theorem parent_precedes (layers : List Layer) (order : List Bytes)
    (h : normalizeOrder layers = .ok order) (c p : Layer) (hc : c ∈ layers) (hb : c.base ≠ [])
    (hp : layers.find? (·.name == c.base) = some p) : Before order c.base c.name := by
  have := ancestor_precedes layers order h p c (Ancestor.parent c p hc hb hp)
  have hpn : p.name = c.base := by
    have := List.find?_some hp; simpa using this
  rwa [hpn] at this

/-! ### 4. listing is total -/

/-- **list_total**: FindLayers on ANY world returns the layer table or an error, never a
    panic; and it only reads. -/
theorem list_total (cfg : Config) (w : World) :
    ((findLayers cfg).run.run w).1 ≠ .error Fault.panic ∧ ((findLayers cfg).run.run w).2 = w := by
  unfold findLayers fail reorder
  simp only [run_bind, run_getW, run_ite, run_throw]
  by_cases h1 : Fs.isDir w.fs cfg.layerdirs = true
  · by_cases h2 : checkInheritance (readLayerFiles cfg w.fs (Fs.children w.fs cfg.layerdirs)) = true
    · obtain ⟨o, ho⟩ := normalize_fuel _ h2
      simp [h1, h2, ho]
      rfl
    · simp [h1, h2]
  · simp [h1]

/-! ### non-vacuity: a three-level forest  a ← b ← c,  plus a root whose name sorts first -/

def exCfg : Config :=
  { basepath := b!"/lc", layerdirs := b!"/lc/layers", buildRoot := b!"build", binPkg := b!"packages",
    generated := b!"generated", workdir := b!"overlayfs/workdir", upperdir := b!"overlayfs/upperdir",
    exportdirs := b!"/lc/exports", exportBinPkg := b!"packages", exportGenerated := b!"generated" }

def exA : Layer := { name := b!"m", layerPath := b!"/lc/layers/m" }
def exB : Layer := { name := b!"b", base := b!"m", layerPath := b!"/lc/layers/b" }
def exC : Layer := { name := b!"a", base := b!"b", layerPath := b!"/lc/layers/a" }
def exR : Layer := { name := b!"0", layerPath := b!"/lc/layers/0" }
/-- deliberately stored children-first -/
def exLayers : List Layer := [exC, exB, exR, exA]
def exD : Defs := { layers := exLayers }

example : checkInheritance exLayers = true := by decide
example : normalizeOrder exLayers = .ok [b!"0", b!"m", b!"b", b!"a"] := rfl
example : Ancestor exLayers exA exC :=
  Ancestor.trans exA exB exC (Ancestor.parent exB exA (by simp [exLayers]) (by decide) (by decide))
    (by simp [exLayers]) (by decide) (by decide)
example : Before [b!"0", b!"m", b!"b", b!"a"] b!"m" b!"a" :=
  ancestor_precedes exLayers _ rfl exA exC
    (Ancestor.trans exA exB exC (Ancestor.parent exB exA (by simp [exLayers]) (by decide) (by decide))
      (by simp [exLayers]) (by decide) (by decide))
/-- `a` is a descendant (depth 2) of `m`; rebasing `m` onto it, or onto itself, is refused -/
example : Desc exLayers b!"m" b!"a" :=
  Desc.step b!"a" exC (by decide) (by decide) (Desc.child b!"b" exB (by decide) (by decide) (by decide))
example (w : World) := rebase_rejects_descendant exCfg exD b!"m" b!"a" w exA (by decide) (by decide)
  (Desc.step b!"a" exC (by decide) (by decide) (Desc.child b!"b" exB (by decide) (by decide) (by decide)))
example (w : World) := rebase_rejects_self exCfg exD b!"m" w exA (by decide) (by decide)
example : checkInheritance (setLayer exD { exA with base := b!"a" }).layers = false := by decide
example : (rebaseLayer exCfg exD b!"m" b!"a").run.run {} = (.error (.err "orphan"), {}) := rfl
example (w : World) := add_rejects_name exCfg exD b!"b" [] [] w (Or.inr (Or.inr (by decide)))
set_option maxRecDepth 100000 in
example (w : World) := add_rejects_name exCfg exD b!"x/y" [] [] w (Or.inr (Or.inl (by decide)))
example (w : World) := add_rejects_parent exCfg exD b!"new" b!"nope" [] w (by decide) (Or.inr (by decide))
example (w : World) := remove_rejects_parent exCfg exD b!"m" false w exA exB (by decide) (by simp [exD, exLayers]) (by decide)
/-- a table that fails the check: `normalize_fuel`'s hypothesis is not vacuous the other way -/
example : checkInheritance [{ exA with base := b!"m" }] = false := by decide
example : normalizeOrder [{ exA with base := b!"m" }] = Res.panic := rfl

end Lc.Props.C02
