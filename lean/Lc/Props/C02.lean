/-
  C02 — the layer hierarchy stays a well-formed forest and every command terminates
  (the parts carried by the command model's guards, the cycle check and normalizeOrder).

  1. `*_rejects_*` (rejected_unchanged): each rejection reason named by the property makes
     the command return an `error` (never a panic) with the world exactly as it was —
     for EVERY configuration, layer table, argument and world.
  2. `normalize_fuel`: a table accepted by checkInheritance never exhausts the key builder
     of normalizeOrder and never dereferences a missing base.
  3. `ancestor_precedes`: in the normalized order every ancestor stands before its
     descendants.
  4. `list_total`: FindLayers never panics.
  5. the invariant `WF` (Lemmas/ForestInv.lean): unique legal names, every parent exists,
     no layer its own ancestor, `order` = the normalized order.  `add_preserves_WF`,
     `remove_preserves_WF`, `rename_preserves_WF`, `rebase_preserves_WF`: a command that
     returns normally — from ANY world, whatever faults, crash points or pretend switch
     are set — returns a well-formed table, and the table differs from the old one exactly
     as the command says.  `reachable_WF`: after any sequence of commands.
  6. `findLayers_WF_partial`, `getLayers_WF_partial`, `run_WF_partial`: the table an
     invocation reads from the disk is well-formed (hypothesis: the listing of the layers
     directory has no name twice), and so is what the invocation returns.
-/
import Lc.Lemmas.RunM
import Lc.Lemmas.Forest
import Lc.Lemmas.ForestInv
import Lc.Lemmas.ForestCmd

namespace Lc.Props.C02
open Lc Lc.Layers Lc.RunM Lc.Forest

/-- the command was refused with error class `c` and nothing happened -/
def RefusedWith {α} (r : Except Fault α × World) (w : World) (c : String) : Prop :=
  r = (.error (.err c), w)

/-- refused with one of the listed classes, nothing happened -/
def Refused {α} (r : Except Fault α × World) (w : World) (classes : List String) : Prop :=
  ∃ c, c ∈ classes ∧ r = (.error (.err c), w)

/-! ### the name tests, as the property words them -/

theorem need_iff (d : Defs) (n : Bytes) :
    testName1 d n NAME_NEED = true ↔ n ≠ [] ∧ isLegalLayerName n = true ∧ (findLayer d n).isSome = true := by
  unfold testName1 NAME_NEED
  cases n with
  | nil => simp
  | cons x xs =>
    by_cases hl : isLegalLayerName (x :: xs) = true <;> simp [hl]

theorem free_iff (d : Defs) (n : Bytes) :
    testName1 d n NAME_FREE = true ↔ n ≠ [] ∧ isLegalLayerName n = true ∧ findLayer d n = none := by
  unfold testName1 NAME_FREE
  cases n with
  | nil => simp
  | cons x xs =>
    by_cases hl : isLegalLayerName (x :: xs) = true <;> simp [hl]

theorem optneed_iff (d : Defs) (n : Bytes) :
    testName1 d n (NAME_OPTIONAL + NAME_NEED) = true ↔
      n = [] ∨ (isLegalLayerName n = true ∧ (findLayer d n).isSome = true) := by
  unfold testName1 NAME_NEED NAME_OPTIONAL
  cases n with
  | nil => simp
  | cons x xs =>
    by_cases hl : isLegalLayerName (x :: xs) = true <;> simp [hl]

/-! ### 1. rejected commands change nothing -/

/-- **add**: empty, illegal or already used name -/
theorem add_rejects_name (cfg : Config) (d : Defs) (name base cf : Bytes) (w : World)
    (h : name = [] ∨ isLegalLayerName name = false ∨ (findLayer d name).isSome = true) :
    RefusedWith ((addLayer cfg d name base cf).run.run w) w "name" := by
  have h1 : testName1 d name NAME_FREE = false := by
    cases ht : testName1 d name NAME_FREE with
    | false => rfl
    | true =>
      obtain ⟨a, b, c⟩ := (free_iff d name).mp ht
      rcases h with h | h | h
      · exact absurd h a
      · rw [b] at h; cases h
      · rw [c] at h; cases h
  unfold RefusedWith addLayer testName fail
  simp only [List.all_cons, h1, Bool.false_and, run_bind, run_throw, Bool.false_eq_true, if_false]

/-- **add**: a parent is named but is illegal or does not exist -/
theorem add_rejects_parent (cfg : Config) (d : Defs) (name base cf : Bytes) (w : World)
    (hb : base ≠ []) (h : isLegalLayerName base = false ∨ findLayer d base = none) :
    RefusedWith ((addLayer cfg d name base cf).run.run w) w "name" := by
  have h1 : testName1 d base (NAME_OPTIONAL + NAME_NEED) = false := by
    cases ht : testName1 d base (NAME_OPTIONAL + NAME_NEED) with
    | false => rfl
    | true =>
      rcases (optneed_iff d base).mp ht with e | ⟨a, b⟩
      · exact absurd e hb
      · rcases h with h | h
        · rw [a] at h; cases h
        · rw [h] at b; cases b
  unfold RefusedWith addLayer testName fail
  simp only [List.all_cons, h1, Bool.false_and, Bool.and_false, run_bind, run_throw, Bool.false_eq_true, if_false]

/-- **rename**: the source is missing (or its name empty / illegal) -/
theorem rename_rejects_source (cfg : Config) (d : Defs) (old new : Bytes) (co : List Bytes) (w : World)
    (h : old = [] ∨ isLegalLayerName old = false ∨ findLayer d old = none) :
    RefusedWith ((renameLayer cfg d old new co).run.run w) w "name" := by
  have h1 : testName1 d old NAME_NEED = false := by
    cases ht : testName1 d old NAME_NEED with
    | false => rfl
    | true =>
      obtain ⟨a, b, c⟩ := (need_iff d old).mp ht
      rcases h with h | h | h
      · exact absurd h a
      · rw [b] at h; cases h
      · rw [h] at c; cases c
  unfold RefusedWith renameLayer testName fail
  simp only [List.all_cons, h1, Bool.false_and, run_bind, run_throw, Bool.false_eq_true, if_false]

/-- **rename**: the new name is empty, illegal or already used -/
theorem rename_rejects_newname (cfg : Config) (d : Defs) (old new : Bytes) (co : List Bytes) (w : World)
    (h : new = [] ∨ isLegalLayerName new = false ∨ (findLayer d new).isSome = true) :
    RefusedWith ((renameLayer cfg d old new co).run.run w) w "name" := by
  have h1 : testName1 d new NAME_FREE = false := by
    cases ht : testName1 d new NAME_FREE with
    | false => rfl
    | true =>
      obtain ⟨a, b, c⟩ := (free_iff d new).mp ht
      rcases h with h | h | h
      · exact absurd h a
      · rw [b] at h; cases h
      · rw [c] at h; cases h
  unfold RefusedWith renameLayer testName fail
  simp only [List.all_cons, h1, Bool.false_and, Bool.and_false, run_bind, run_throw, Bool.false_eq_true, if_false]

/-- **rebase**: the layer is missing -/
theorem rebase_rejects_missing (cfg : Config) (d : Defs) (name nb : Bytes) (w : World)
    (h : name = [] ∨ isLegalLayerName name = false ∨ findLayer d name = none) :
    RefusedWith ((rebaseLayer cfg d name nb).run.run w) w "name" := by
  have h1 : testName1 d name NAME_NEED = false := by
    cases ht : testName1 d name NAME_NEED with
    | false => rfl
    | true =>
      obtain ⟨a, b, c⟩ := (need_iff d name).mp ht
      rcases h with h | h | h
      · exact absurd h a
      · rw [b] at h; cases h
      · rw [h] at c; cases c
  unfold RefusedWith rebaseLayer testName fail
  simp only [List.all_cons, h1, Bool.false_and, run_bind, run_throw, Bool.false_eq_true, if_false]

/-- **rebase**: the new parent is named but illegal or missing -/
theorem rebase_rejects_parent (cfg : Config) (d : Defs) (name nb : Bytes) (w : World)
    (hb : nb ≠ []) (h : isLegalLayerName nb = false ∨ findLayer d nb = none) :
    RefusedWith ((rebaseLayer cfg d name nb).run.run w) w "name" := by
  have h1 : testName1 d nb (NAME_NEED + NAME_OPTIONAL) = false := by
    cases ht : testName1 d nb (NAME_NEED + NAME_OPTIONAL) with
    | false => rfl
    | true =>
      rw [Nat.add_comm] at ht
      rcases (optneed_iff d nb).mp ht with e | ⟨a, b⟩
      · exact absurd e hb
      · rcases h with h | h
        · rw [a] at h; cases h
        · rw [h] at b; cases b
  unfold RefusedWith rebaseLayer testName fail
  simp only [List.all_cons, h1, Bool.false_and, Bool.and_false, run_bind, run_throw, Bool.false_eq_true, if_false]

/-- rebasing a layer onto itself closes a cycle: the check on the modified table fails -/
theorem self_base_is_cycle (d : Defs) (l : Layer) (n : Bytes) (hn : n ≠ [])
    (hl : findLayer d n = some l) :
    checkInheritance (setLayer d { l with base := n }).layers = false := by
  have hname : l.name = n := by
    have := List.find?_some hl; simpa using this
  let l' : Layer := { l with base := n }
  have hmem : l' ∈ (setLayer d l').layers := mem_setLayer d l l' n hl hname
  have hself := find?_setLayer_self d l l' n hl hname
  have hnlen : ¬ (n.length == 0) = true := by
    cases n with
    | nil => exact absurd rfl hn
    | cons x xs => simp
  cases hc : checkInheritance (setLayer d l').layers with
  | false => rfl
  | true =>
    exfalso
    unfold checkInheritance at hc
    have := List.all_eq_true.mp hc l' hmem
    unfold chainOk at this
    have hb : l'.base = n := rfl
    rw [hb] at this
    simp only [hnlen, if_false, hself, Bool.false_eq_true] at this
    have hv : [l'.name].contains l'.name = true := by simp
    rw [if_pos hv] at this
    cases this

/-- rebasing a layer onto one of its descendants closes a cycle -/
theorem descendant_base_is_cycle (d : Defs) (l : Layer) (n k : Bytes) (hn : n ≠ [])
    (hl : findLayer d n = some l) (hd : Desc d.layers n k) :
    checkInheritance (setLayer d { l with base := k }).layers = false := by
  have hname : l.name = n := by
    have := List.find?_some hl; simpa using this
  let l' : Layer := { l with base := k }
  have hmem : l' ∈ (setLayer d l').layers := mem_setLayer d l l' n hl hname
  cases hc : checkInheritance (setLayer d l').layers with
  | false => rfl
  | true =>
    exfalso
    unfold checkInheritance at hc
    have h1 := List.all_eq_true.mp hc l' hmem
    have h2 := chainOk_cycle d l l' n hn hl hname k hd ((setLayer d l').layers.length + 1) [l'.name]
      (by simp [l', hname])
    have : l'.base = k := rfl
    rw [this, h2] at h1
    cases h1

/-- outcome of rebase once the modified table fails the cycle check -/
theorem rebase_rejects_of_cycle (cfg : Config) (d : Defs) (name nb : Bytes) (w : World) (l : Layer)
    (hl : findLayer d name = some l)
    (hc : checkInheritance (setLayer d { l with base := nb }).layers = false) :
    Refused ((rebaseLayer cfg d name nb).run.run w) w ["name", "errorstate", "busy", "orphan"] := by
  unfold Refused rebaseLayer testName getL errorIfError errorIfBusy fail
  simp only [hl, hc, run_bind, run_ite, run_pure, run_throw]
  by_cases h1 : (List.all [(name, NAME_NEED), (nb, NAME_NEED + NAME_OPTIONAL)] fun t => testName1 d t.fst t.snd) = true <;>
    by_cases h2 : l.state = S_error <;> by_cases h3 : isBusy l true = true <;> simp [h1, h2, h3]

/-- **rebase onto itself** is rejected, nothing changes (and, the layer being idle and
    sound, the class is "orphan") -/
theorem rebase_rejects_self (cfg : Config) (d : Defs) (name : Bytes) (w : World) (l : Layer)
    (hn : name ≠ []) (hl : findLayer d name = some l) :
    Refused ((rebaseLayer cfg d name name).run.run w) w ["name", "errorstate", "busy", "orphan"] :=
  rebase_rejects_of_cycle cfg d name name w l hl (self_base_is_cycle d l name hn hl)

/-- **rebase onto a descendant** (any depth) is rejected, nothing changes -/
theorem rebase_rejects_descendant (cfg : Config) (d : Defs) (name nb : Bytes) (w : World) (l : Layer)
    (hn : name ≠ []) (hl : findLayer d name = some l) (hd : Desc d.layers name nb) :
    Refused ((rebaseLayer cfg d name nb).run.run w) w ["name", "errorstate", "busy", "orphan"] :=
  rebase_rejects_of_cycle cfg d name nb w l hl (descendant_base_is_cycle d l name nb hn hl hd)

/-- **remove**: the layer is missing -/
theorem remove_rejects_missing (cfg : Config) (d : Defs) (name : Bytes) (files : Bool) (w : World)
    (h : name = [] ∨ isLegalLayerName name = false ∨ findLayer d name = none) :
    RefusedWith ((removeLayer cfg d name files).run.run w) w "name" := by
  have h1 : testName1 d name NAME_NEED = false := by
    cases ht : testName1 d name NAME_NEED with
    | false => rfl
    | true =>
      obtain ⟨a, b, c⟩ := (need_iff d name).mp ht
      rcases h with h | h | h
      · exact absurd h a
      · rw [b] at h; cases h
      · rw [h] at c; cases c
  unfold RefusedWith removeLayer testName fail
  simp only [List.all_cons, h1, Bool.false_and, run_bind, run_throw, Bool.false_eq_true, if_false]

/-- **remove**: the layer has children -/
theorem remove_rejects_parent (cfg : Config) (d : Defs) (name : Bytes) (files : Bool) (w : World)
    (l k : Layer) (hl : findLayer d name = some l) (hk : k ∈ d.layers) (hkb : k.base = name) :
    Refused ((removeLayer cfg d name files).run.run w) w ["name", "errorstate", "haschild"] := by
  have hc : hasChild d name = true := by
    unfold hasChild; rw [List.any_eq_true]; exact ⟨k, hk, by simp [hkb]⟩
  unfold Refused removeLayer testName getL errorIfError fail
  simp only [hl, hc, run_bind, run_ite, run_pure, run_throw]
  by_cases h1 : testName1 d name NAME_NEED = true <;> by_cases h2 : l.state = S_error <;> simp [h1, h2]

/-! ### 2. normalizeOrder never runs out of fuel -/

/-- every key of an accepted table is defined -/
theorem keys_defined (layers : List Layer) (h : checkInheritance layers = true) (l : Layer)
    (hl : l ∈ layers) : (sortKey layers (layers.length + 1) l.base l.name).isSome = true := by
  unfold checkInheritance at h
  exact chainOk_sortKey layers _ _ _ _ (List.all_eq_true.mp h l hl)

/-- **normalize_fuel**: on a table that passes checkInheritance, normalizeOrder returns an
    order (the sort-key walk neither exhausts its fuel `#layers + 1` — in Go: it terminates —
    nor dereferences a missing base — in Go: no nil-pointer panic). -/
theorem normalize_fuel (layers : List Layer) (h : checkInheritance layers = true) :
    ∃ order, normalizeOrder layers = .ok order := by
  unfold normalizeOrder
  have hany : (layers.map fun l => (l.name, sortKey layers (layers.length + 1) l.base l.name)).any
      (·.2.isNone) = false := by
    rw [List.any_eq_false]
    intro x hx
    obtain ⟨l, hl, rfl⟩ := List.mem_map.mp hx
    have := keys_defined layers h l hl
    cases hk : sortKey layers (layers.length + 1) l.base l.name with
    | none => rw [hk] at this; cases this
    | some k => simp
  simp only [hany]
  exact ⟨_, rfl⟩

/-! ### 3. parents first -/

/-- the order is a permutation of the layer names: nothing lost, nothing invented -/
theorem order_perm (layers : List Layer) (order : List Bytes)
    (h : normalizeOrder layers = .ok order) : order.Perm (layers.map (·.name)) :=
  Forest.order_perm layers order h

/-- … so with unique layer names every name occurs exactly once -/
theorem order_nodup (layers : List Layer) (order : List Bytes)
    (h : normalizeOrder layers = .ok order) (hu : (layers.map (·.name)).Nodup) : order.Nodup :=
  (order_perm layers order h).nodup_iff.mpr hu

/-- `a` is a proper ancestor of `c`: reachable from `c` by following base links through
    the table (each link resolved by name lookup, as the Go code does) -/
inductive Ancestor (layers : List Layer) : Layer → Layer → Prop where
  | parent (c p : Layer) : c ∈ layers → c.base ≠ [] →
      layers.find? (·.name == c.base) = some p → Ancestor layers p c
  | trans (a p c : Layer) : Ancestor layers a p → c ∈ layers → c.base ≠ [] →
      layers.find? (·.name == c.base) = some p → Ancestor layers a c

/-- the key of an ancestor is a proper prefix of the key of the descendant -/
theorem ancestor_key_prefix (layers : List Layer)
    (hk : ∀ l ∈ layers, (sortKey layers (layers.length + 1) l.base l.name).isSome = true)
    (a c : Layer) (h : Ancestor layers a c) :
    a ∈ layers ∧ c ∈ layers ∧ ∃ ka s, s ≠ [] ∧
      sortKey layers (layers.length + 1) a.base a.name = some ka ∧
      sortKey layers (layers.length + 1) c.base c.name = some (ka ++ s) := by
  induction h with
  | parent c p hc hb hp =>
    have hpm : p ∈ layers := List.mem_of_find?_eq_some hp
    obtain ⟨kc, hkc⟩ := Option.isSome_iff_exists.mp (hk c hc)
    obtain ⟨kp, hkp, e⟩ := key_child layers layers.length c p kc hb hp hkc
    exact ⟨hpm, hc, kp, 47 :: c.name, by simp, hkp, by rw [hkc, e]⟩
  | trans a p c _ hc hb hp ih =>
    obtain ⟨ham, _, ka, s, hs, hka, hkp'⟩ := ih
    obtain ⟨kc, hkc⟩ := Option.isSome_iff_exists.mp (hk c hc)
    obtain ⟨kp, hkp, e⟩ := key_child layers layers.length c p kc hb hp hkc
    rw [hkp'] at hkp
    injection hkp with hkp
    refine ⟨ham, hc, ka, s ++ 47 :: c.name, by simp, hka, ?_⟩
    rw [hkc, e, ← hkp, List.append_assoc]

/-- **ancestor_precedes**: in the order computed by normalizeOrder every proper ancestor of
    a layer stands before it (so parents are probed, mounted, listed before children).
    No hypothesis on the names is needed: the parent's key is a proper prefix of the
    child's (`prefix_lt`), whatever bytes the names contain; with unique names
    (`order_nodup`) "before" is unambiguous. -/
theorem ancestor_precedes (layers : List Layer) (order : List Bytes)
    (h : normalizeOrder layers = .ok order) (a c : Layer) (hac : Ancestor layers a c) :
    Before order a.name c.name := by
  obtain ⟨hk, ho⟩ := normalizeOrder_ok layers order h
  obtain ⟨ham, hcm, ka, s, hs, hka, hkc⟩ := ancestor_key_prefix layers hk a c hac
  have hsorted := sortBy_sorted keyLt
    (fun x y hxy => bytesLt_asymm hxy) (fun x y z h1 h2 => bytesLt_trans h1 h2) (keyed layers)
  have hma : (a.name, some ka) ∈ sortBy keyLt (keyed layers) := by
    rw [mem_sortBy]; unfold keyed
    exact List.mem_map.mpr ⟨a, ham, by rw [hka]⟩
  have hmc : (c.name, some (ka ++ s)) ∈ sortBy keyLt (keyed layers) := by
    rw [mem_sortBy]; unfold keyed
    exact List.mem_map.mpr ⟨c, hcm, by rw [hkc]⟩
  have hlt : keyLt (a.name, some ka) (c.name, some (ka ++ s)) = true := prefix_lt ka s hs
  obtain ⟨l1, l2, e, hb⟩ := sorted_lt_before keyLt (fun x => bytesLt_irrefl _) hsorted hma hmc hlt
  refine ⟨l1.map (·.1), l2.map (·.1), ?_, ?_⟩
  · rw [ho, e]; simp
  · exact List.mem_map.mpr ⟨_, hb, rfl⟩

/-- the direct-parent case in the words of the property -/
theorem parent_precedes (layers : List Layer) (order : List Bytes)
    (h : normalizeOrder layers = .ok order) (c p : Layer) (hc : c ∈ layers) (hb : c.base ≠ [])
    (hp : layers.find? (·.name == c.base) = some p) : Before order c.base c.name := by
  have := ancestor_precedes layers order h p c (Ancestor.parent c p hc hb hp)
  have hpn : p.name = c.base := by
    have := List.find?_some hp; simpa using this
  rwa [hpn] at this

/-! ### 4. listing is total -/

/-- **list_total**: FindLayers on ANY world returns the layer table or an error, never a
    panic; and it only reads. -/
theorem list_total (cfg : Config) (w : World) :
    ((findLayers cfg).run.run w).1 ≠ .error Fault.panic ∧ ((findLayers cfg).run.run w).2 = w := by
  unfold findLayers fail reorder
  simp only [run_bind, run_getW, run_ite, run_throw]
  by_cases h1 : Fs.isDir w.fs cfg.layerdirs = true
  · by_cases h2 : checkInheritance (readLayerFiles cfg w.fs (Fs.children w.fs cfg.layerdirs)) = true
    · obtain ⟨o, ho⟩ := normalize_fuel _ h2
      simp [h1, h2, ho]
      rfl
    · simp [h1, h2]
  · simp [h1]

/-! ### non-vacuity: a three-level forest  a ← b ← c,  plus a root whose name sorts first -/

def exCfg : Config :=
  { basepath := b!"/lc", layerdirs := b!"/lc/layers", buildRoot := b!"build", binPkg := b!"packages",
    generated := b!"generated", workdir := b!"overlayfs/workdir", upperdir := b!"overlayfs/upperdir",
    exportdirs := b!"/lc/exports", exportBinPkg := b!"packages", exportGenerated := b!"generated" }

def exA : Layer := { name := b!"m", layerPath := b!"/lc/layers/m" }
def exB : Layer := { name := b!"b", base := b!"m", layerPath := b!"/lc/layers/b" }
def exC : Layer := { name := b!"a", base := b!"b", layerPath := b!"/lc/layers/a" }
def exR : Layer := { name := b!"0", layerPath := b!"/lc/layers/0" }
/-- deliberately stored children-first -/
def exLayers : List Layer := [exC, exB, exR, exA]
def exD : Defs := { layers := exLayers }

example : checkInheritance exLayers = true := by decide
example : normalizeOrder exLayers = .ok [b!"0", b!"m", b!"b", b!"a"] := rfl
example : Ancestor exLayers exA exC :=
  Ancestor.trans exA exB exC (Ancestor.parent exB exA (by simp [exLayers]) (by decide) (by decide))
    (by simp [exLayers]) (by decide) (by decide)
example : Before [b!"0", b!"m", b!"b", b!"a"] b!"m" b!"a" :=
  ancestor_precedes exLayers _ rfl exA exC
    (Ancestor.trans exA exB exC (Ancestor.parent exB exA (by simp [exLayers]) (by decide) (by decide))
      (by simp [exLayers]) (by decide) (by decide))
/-- `a` is a descendant (depth 2) of `m`; rebasing `m` onto it, or onto itself, is refused -/
example : Desc exLayers b!"m" b!"a" :=
  Desc.step b!"a" exC (by decide) (by decide) (Desc.child b!"b" exB (by decide) (by decide) (by decide))
example (w : World) := rebase_rejects_descendant exCfg exD b!"m" b!"a" w exA (by decide) (by decide)
  (Desc.step b!"a" exC (by decide) (by decide) (Desc.child b!"b" exB (by decide) (by decide) (by decide)))
example (w : World) := rebase_rejects_self exCfg exD b!"m" w exA (by decide) (by decide)
example : checkInheritance (setLayer exD { exA with base := b!"a" }).layers = false := by decide
example : (rebaseLayer exCfg exD b!"m" b!"a").run.run {} = (.error (.err "orphan"), {}) := rfl
example (w : World) := add_rejects_name exCfg exD b!"b" [] [] w (Or.inr (Or.inr (by decide)))
set_option maxRecDepth 100000 in
example (w : World) := add_rejects_name exCfg exD b!"x/y" [] [] w (Or.inr (Or.inl (by decide)))
example (w : World) := add_rejects_parent exCfg exD b!"new" b!"nope" [] w (by decide) (Or.inr (by decide))
example (w : World) := remove_rejects_parent exCfg exD b!"m" false w exA exB (by decide) (by simp [exD, exLayers]) (by decide)
/-- a table that fails the check: `normalize_fuel`'s hypothesis is not vacuous the other way -/
example : checkInheritance [{ exA with base := b!"m" }] = false := by decide
example : normalizeOrder [{ exA with base := b!"m" }] = Res.panic := rfl

/-! ### 5. the forest invariant -/

open Lc.ForestInv Lc.ForestCmd

/-! what `WF` says, in the words of the property -/

/-- names are unique -/
theorem wf_names_unique (d : Defs) (h : WF d) (x y : Layer) (hx : x ∈ d.layers) (hy : y ∈ d.layers)
    (e : x.name = y.name) : x = y := nodup_name_inj h.nodup hx hy e

/-- every layer's parent exists (and is what the code's lookup finds) -/
theorem wf_parent_exists (d : Defs) (h : WF d) (l : Layer) (hl : l ∈ d.layers) (hb : l.base ≠ []) :
    ∃ p, findLayer d l.base = some p ∧ p ∈ d.layers ∧ p.name = l.base := by
  obtain ⟨p, hp, hn⟩ := h.parent l hl hb
  cases hf : findLayer d l.base with
  | none =>
    exact absurd (List.mem_map.mpr ⟨p, hp, hn⟩) ((findLayer_none_iff d l.base).mp hf)
  | some q => exact ⟨q, rfl, (findLayer_mem hf).1, (findLayer_mem hf).2⟩

/-- no layer is its own ancestor -/
theorem wf_no_self_ancestor (d : Defs) (h : WF d) (l : Layer) : ¬ Ancestor d.layers l l := by
  intro ha
  obtain ⟨hk, _⟩ := normalizeOrder_ok _ _ h.order
  obtain ⟨_, _, ka, s, hs, h1, h2⟩ := ancestor_key_prefix d.layers hk l l ha
  rw [h1] at h2
  injection h2 with h2
  exact hs (by simpa using h2)

/-- list/status can order the layers: `order` holds every name exactly once, ancestors first -/
theorem wf_order (d : Defs) (h : WF d) :
    d.order.Perm (d.layers.map (·.name)) ∧ d.order.Nodup ∧
      ∀ a c, Ancestor d.layers a c → Before d.order a.name c.name :=
  ⟨order_perm _ _ h.order, order_nodup _ _ h.order h.nodup,
    fun a c hac => ancestor_precedes _ _ h.order a c hac⟩

/-- **add_preserves_WF**: a successful `add` returns a well-formed table: the old records
    followed by one new record with the given name and base; the name was free. -/
theorem add_preserves_WF (cfg : Config) (d d' : Defs) (n b f : Bytes) (w w' : World) (h : WF d)
    (hr : (addLayer cfg d n b f).run.run w = (.ok d', w')) :
    WF d' ∧ findLayer d n = none ∧
      ∃ x : Layer, x.name = n ∧ x.base = b ∧ x.layerPath = layerPath cfg n ∧
        d'.layers = d.layers ++ [x] := by
  obtain ⟨h1, h2, cm, ce, o, ho, rfl⟩ := ret_elim _ _ (addLayer_ret cfg d n b f) w d' w' hr
  obtain ⟨a1, a2, a3⟩ := (free_iff d n).mp h1
  have hb := (optneed_iff d b).mp h2
  refine ⟨wf_add d _ o h a1 a2 a3 ?_ ho, a3, _, rfl, rfl, rfl, rfl⟩
  intro hbne
  rcases hb with e | ⟨_, hs⟩
  · exact absurd e hbne
  · exact hs

/-- **remove_preserves_WF**: a successful `remove` returns a well-formed table: the old
    records without the one named `n`; no remaining record has base `n`. -/
theorem remove_preserves_WF (cfg : Config) (d d' : Defs) (n : Bytes) (files : Bool) (w w' : World)
    (h : WF d) (hr : (removeLayer cfg d n files).run.run w = (.ok d', w')) :
    WF d' ∧ (findLayer d n).isSome = true ∧ d'.layers = d.layers.filter (·.name != n) ∧
      findLayer d' n = none ∧ ∀ l ∈ d'.layers, l.base ≠ n := by
  obtain ⟨h1, h2, o, ho, rfl⟩ := ret_elim _ _ (removeLayer_ret cfg d n files) w d' w' hr
  obtain ⟨_, _, a3⟩ := (need_iff d n).mp h1
  refine ⟨wf_remove d n o h h2 ho, a3, rfl, ?_, ?_⟩
  · rw [findLayer_none_iff]
    intro hm
    obtain ⟨x, hx, e⟩ := List.mem_map.mp hm
    have := (List.mem_filter.mp hx).2
    simp [e] at this
  · intro l hl e
    unfold hasChild at h2
    rw [List.any_eq_false] at h2
    exact h2 l (List.mem_filter.mp hl).1 (by simp [e])

/-- **rename_preserves_WF**: a successful `rename old new` — whatever order the children
    were visited in — returns a well-formed table: the record of `old` is replaced by one
    named `new` (same base, moved to the end), every record with base `old` has base `new`,
    nothing else changed.  In the (name, base) view: the new table is the old one under
    the renaming `old ↦ new` of names and bases. -/
theorem rename_preserves_WF (cfg : Config) (d d' : Defs) (old new : Bytes) (co : List Bytes)
    (w w' : World) (h : WF d) (hr : (renameLayer cfg d old new co).run.run w = (.ok d', w')) :
    WF d' ∧ ∃ l, findLayer d old = some l ∧ findLayer d new = none ∧
      d'.layers = renamed d.layers old new { l with name := new, layerPath := layerPath cfg new } ∧
      d'.layers.length = d.layers.length ∧
      ∀ a b, (a, b) ∈ d'.layers.map nb ↔
        ∃ x ∈ d.layers, a = rn old new x.name ∧ b = rn old new x.base := by
  obtain ⟨h1, h2, l, o, d1, hl, hd1, ho, rfl⟩ :=
    ret_elim _ _ (renameLayer_ret cfg d old new co) w d' w' hr
  obtain ⟨a1, a2, a3⟩ := (free_iff d new).mp h2
  have hk : d1.layers = d.layers.map (rebaseKid old new) := by
    rw [hd1]; exact kids_foldl_layers d h.nodup old new co
  have hren : d1.layers.filter (·.name != old) ++ [{ l with name := new, layerPath := layerPath cfg new }]
      = renamed d.layers old new { l with name := new, layerPath := layerPath cfg new } := by
    rw [hk]; rfl
  rw [hren] at ho
  have hlm := findLayer_mem hl
  have hoe : old ≠ [] := by have := (h.legal l hlm.1).1; rwa [hlm.2] at this
  have hlb : l.base ≠ old := by
    have := self_base_ne d.layers h.acyclic l hlm.1 (h.legal l hlm.1).1
    rwa [hlm.2] at this
  have hwf := wf_rename d old new l { l with name := new, layerPath := layerPath cfg new } o h hl a1 a2 a3 rfl rfl ho
  refine ⟨?_, l, hl, a3, hren, ?_, ?_⟩
  · exact wf_of_view hwf (by show List.map nb (_ ++ _) = _; rw [hren]) rfl
  · show List.length (_ ++ _) = _
    rw [hren]; exact length_renamed d.layers old new l _ h.nodup hl
  · intro a b
    show (a, b) ∈ List.map nb (_ ++ _) ↔ _
    rw [hren]
    exact mem_view_renamed d.layers old new l { l with name := new, layerPath := layerPath cfg new }
      h.nodup hl hlb rfl rfl a b

/-- **rebase_preserves_WF**: a successful `rebase n nb` returns a well-formed table in which
    only the base of `n` changed, to `nb`. -/
theorem rebase_preserves_WF (cfg : Config) (d d' : Defs) (n nb : Bytes) (w w' : World) (h : WF d)
    (hr : (rebaseLayer cfg d n nb).run.run w = (.ok d', w')) :
    WF d' ∧ (findLayer d n).isSome = true ∧
      d'.layers = d.layers.map (fun x => if x.name = n then { x with base := nb } else x) := by
  obtain ⟨_, _, l, o, hl, hc, ho, rfl⟩ := ret_elim _ _ (rebaseLayer_ret cfg d n nb) w d' w' hr
  refine ⟨wf_setLayer d _ o h hc ho, by rw [hl]; rfl, ?_⟩
  show (setLayer d { l with base := nb }).layers = _
  unfold setLayer
  apply List.map_congr_left
  intro x hx
  have hlm := findLayer_mem hl
  by_cases e : x.name = n
  · have : x = l := nodup_name_inj h.nodup hx hlm.1 (e.trans hlm.2.symm)
    subst this
    simp [e]
  · have e' : ¬ (x.name == l.name) = true := by rw [hlm.2]; simpa using e
    simp only [e', e, if_false, Bool.false_eq_true]

/-! after any sequence of commands -/

/-- the four structural commands -/
inductive SCmd where
  | add (name base configFile : Bytes)
  | remove (name : Bytes) (files : Bool)
  | rename (old new : Bytes) (childOrder : List Bytes)
  | rebase (name newbase : Bytes)
  deriving Repr

def SCmd.apply (cfg : Config) (d : Defs) : SCmd → M Defs
  | .add n b f => addLayer cfg d n b f
  | .remove n f => removeLayer cfg d n f
  | .rename o n co => renameLayer cfg d o n co
  | .rebase n b => rebaseLayer cfg d n b

/-- one command on (table, world): a command that fails leaves the table as it was (what it
    did to the world before failing stays) -/
def stepS (cfg : Config) (s : Defs × World) (c : SCmd) : Defs × World :=
  match (c.apply cfg s.1).run.run s.2 with
  | (.ok d', w') => (d', w')
  | (.error _, w') => (s.1, w')

/-- **step_preserves_WF**: one command, successful or not, in any world -/
theorem step_preserves_WF (cfg : Config) (s : Defs × World) (c : SCmd) (h : WF s.1) :
    WF (stepS cfg s c).1 := by
  unfold stepS
  split
  · rename_i d' w' hr
    cases c with
    | add n b f => exact (add_preserves_WF cfg s.1 d' n b f s.2 w' h hr).1
    | remove n f => exact (remove_preserves_WF cfg s.1 d' n f s.2 w' h hr).1
    | rename o n co => exact (rename_preserves_WF cfg s.1 d' o n co s.2 w' h hr).1
    | rebase n b => exact (rebase_preserves_WF cfg s.1 d' n b s.2 w' h hr).1
  · exact h

/-- every state passed while running the commands `cs` one after the other -/
def statesS (cfg : Config) : Defs × World → List SCmd → List (Defs × World)
  | s, [] => [s]
  | s, c :: cs => s :: statesS cfg (stepS cfg s c) cs

/-- **reachable_WF**: start from a well-formed table in any world (any file system, any
    fault / crash / pretend setting); run any list of add / remove / rename / rebase
    commands, each successful or not: every intermediate and the final table is a
    well-formed forest.  No bound on the length. -/
theorem reachable_WF (cfg : Config) (cs : List SCmd) (d0 : Defs) (w0 : World) (h : WF d0) :
    (∀ s ∈ statesS cfg (d0, w0) cs, WF s.1) ∧ WF (cs.foldl (stepS cfg) (d0, w0)).1 := by
  induction cs generalizing d0 w0 with
  | nil => exact ⟨by intro s hs; simp [statesS] at hs; subst hs; exact h, h⟩
  | cons c cs ih =>
    have hstep := step_preserves_WF cfg (d0, w0) c h
    obtain ⟨i1, i2⟩ := ih (stepS cfg (d0, w0) c).1 (stepS cfg (d0, w0) c).2 hstep
    refine ⟨?_, i2⟩
    intro s hs
    simp only [statesS, List.mem_cons] at hs
    rcases hs with rfl | hs
    · exact h
    · exact i1 s hs

/-- tables reachable when the environment may do anything between the commands: each
    command runs in an arbitrary world -/
inductive Reach (cfg : Config) (d0 : Defs) : Defs → Prop where
  | start : Reach cfg d0 d0
  | step (d : Defs) (c : SCmd) (w : World) : Reach cfg d0 d → Reach cfg d0 (stepS cfg (d, w) c).1

/-- **reach_WF**: … and even then -/
theorem reach_WF (cfg : Config) (d0 d : Defs) (h : WF d0) (hr : Reach cfg d0 d) : WF d := by
  induction hr with
  | start => exact h
  | step d c w _ ih => exact step_preserves_WF cfg (d, w) c ih

/-! ### 6. what an invocation reads from the disk -/

/-- **findLayers_WF_partial**: whatever is on the disk, the table a successful FindLayers
    returns is well-formed.  Names are legal because `readLayerFiles` skips every directory
    entry whose name is not; non-empty because `path.Base` never returns ""; parents exist
    and there is no cycle because `checkInheritance` is tested; the order is computed.
    PARTIAL in one point: uniqueness of names is inherited from the directory listing, so it
    is a hypothesis that `Fs.children` (os.ReadDir) lists no name twice.  (The model's tree is
    an association list without a built-in uniqueness invariant; for the real ReadDir this
    is a fact about the kernel.) -/
theorem findLayers_WF_partial (cfg : Config) (w w' : World) (d : Defs)
    (hls : (Fs.children w.fs cfg.layerdirs).Nodup)
    (hr : (findLayers cfg).run.run w = (.ok d, w')) : WF d := by
  obtain ⟨_, hL, hc, ho⟩ := findLayers_ok cfg w w' d hr
  refine ⟨?_, ?_, parent_of_check _ hc, hc, ho⟩
  · rw [hL]; exact List.Nodup.sublist (readLayerFiles_names cfg w.fs _) hls
  · intro l hl
    rw [hL] at hl
    obtain ⟨hm, hleg⟩ := readLayerFiles_legal cfg w.fs _ l hl
    exact ⟨children_ne_nil _ _ _ hm, hleg⟩

/-- … and stays so through the probe: what `getLayers` hands to every command -/
theorem getLayers_WF_partial (cfg : Config) (inuse : List (Bytes × List User)) (w w' : World) (d : Defs)
    (hls : (Fs.children w.fs cfg.layerdirs).Nodup)
    (hr : (getLayers cfg inuse).run.run w = (.ok d, w')) : WF d := by
  unfold getLayers at hr
  obtain ⟨d1, w1, h1, h2⟩ := bind_ok_inv _ _ _ _ _ hr
  have hd1 := findLayers_WF_partial cfg w w1 d1 hls h1
  exact ret_elim _ _ (probeAll_ret cfg inuse d1 hd1) w1 d w' h2

/-- the commands covered by `run_WF_partial` -/
def structural : Cmd → Bool
  | .init | .add .. | .remove .. | .rename .. | .rebase .. | .probe => true
  | _ => false

/-- **run_WF_partial**: one whole invocation (read the disk, probe, run the command) of
    init / add / remove / rename / rebase / list that ends normally returns a well-formed
    table — in any world.  Same hypothesis as `findLayers_WF_partial`. -/
theorem run_WF_partial (cfg : Config) (inuse : List (Bytes × List User)) (c : Cmd) (w : World)
    (d : Defs) (hc : structural c = true) (hls : (Fs.children w.fs cfg.layerdirs).Nodup)
    (hr1 : (run cfg inuse c w).1 = .ok d) : WF d := by
  generalize hw' : (run cfg inuse c w).2 = w'
  have hr : run cfg inuse c w = (.ok d, w') := by rw [← hr1, ← hw']
  clear hr1 hw'
  unfold run at hr
  cases c with
  | init =>
    have hr' : (initBase cfg >>= fun _ => (pure {} : M Defs)).run.run w = (.ok d, w') := hr
    obtain ⟨_, w1, _, h2⟩ := bind_ok_inv _ _ _ _ _ hr'
    rw [run_pure] at h2
    injection h2 with h2 _; injection h2 with h2; subst h2
    exact wf_empty
  | add n b f =>
    have hr' : (getLayers cfg inuse >>= fun d => addLayer cfg d n b f).run.run w = (.ok d, w') := hr
    obtain ⟨d1, w1, h1, h2⟩ := bind_ok_inv _ _ _ _ _ hr'
    exact (add_preserves_WF cfg d1 d n b f w1 w' (getLayers_WF_partial cfg inuse w w1 d1 hls h1) h2).1
  | remove n f =>
    have hr' : (getLayers cfg inuse >>= fun d => removeLayer cfg d n f).run.run w = (.ok d, w') := hr
    obtain ⟨d1, w1, h1, h2⟩ := bind_ok_inv _ _ _ _ _ hr'
    exact (remove_preserves_WF cfg d1 d n f w1 w' (getLayers_WF_partial cfg inuse w w1 d1 hls h1) h2).1
  | rename o n co =>
    have hr' : (getLayers cfg inuse >>= fun d => renameLayer cfg d o n co).run.run w = (.ok d, w') := hr
    obtain ⟨d1, w1, h1, h2⟩ := bind_ok_inv _ _ _ _ _ hr'
    exact (rename_preserves_WF cfg d1 d o n co w1 w' (getLayers_WF_partial cfg inuse w w1 d1 hls h1) h2).1
  | rebase n b =>
    have hr' : (getLayers cfg inuse >>= fun d => rebaseLayer cfg d n b).run.run w = (.ok d, w') := hr
    obtain ⟨d1, w1, h1, h2⟩ := bind_ok_inv _ _ _ _ _ hr'
    exact (rebase_preserves_WF cfg d1 d n b w1 w' (getLayers_WF_partial cfg inuse w w1 d1 hls h1) h2).1
  | probe =>
    have hr' : (getLayers cfg inuse >>= fun d => (pure d : M Defs)).run.run w = (.ok d, w') := hr
    obtain ⟨d1, w1, h1, h2⟩ := bind_ok_inv _ _ _ _ _ hr'
    rw [run_pure] at h2
    injection h2 with h2 _; injection h2 with h2; subst h2
    exact getLayers_WF_partial cfg inuse w w1 d1 hls h1
  | mkdirs _ => cases hc
  | mount _ => cases hc
  | umount _ _ => cases hc
  | shake => cases hc
  | chroot _ => cases hc

/-! ### non-vacuity of 5 and 6: the forest  0,  m ← b ← a  of the examples above -/

/-- the example table with its order -/
def exW : Defs := { layers := exLayers, order := [b!"0", b!"m", b!"b", b!"a"] }

/-- pretend mode: every command runs through without a file-system precondition -/
def exPretend : World := { pretend := true }

set_option maxRecDepth 100000 in
theorem exW_wf : WF exW := by
  refine ⟨by decide, ?_, parent_of_check _ (by decide), by decide, rfl⟩
  intro l hl
  simp only [exW, exLayers, List.mem_cons, List.not_mem_nil, or_false] at hl
  rcases hl with rfl | rfl | rfl | rfl <;> exact ⟨by decide, by decide⟩

/-- the hypotheses of the `*_preserves_WF` theorems are satisfiable, the conclusions say
    something: concrete successful runs and the tables they return -/
example : ∃ d' w', (addLayer exCfg exW b!"n" b!"b" []).run.run exPretend = (.ok d', w') ∧
    WF d' ∧ d'.order = [b!"0", b!"m", b!"b", b!"a", b!"n"] :=
  by
  refine ⟨_, _, rfl, ?_, rfl⟩
  exact (add_preserves_WF exCfg exW _ b!"n" b!"b" [] exPretend _ exW_wf rfl).1
example : ∃ d' w', (removeLayer exCfg exW b!"a" false).run.run exPretend = (.ok d', w') ∧
    WF d' ∧ d'.order = [b!"0", b!"m", b!"b"] :=
  by
  refine ⟨_, _, rfl, ?_, rfl⟩
  exact (remove_preserves_WF exCfg exW _ b!"a" false exPretend _ exW_wf rfl).1
example : ∃ d' w', (renameLayer exCfg exW b!"b" b!"x" []).run.run exPretend = (.ok d', w') ∧
    WF d' ∧ d'.order = [b!"0", b!"m", b!"x", b!"a"] ∧
    d'.layers.map nb = [(b!"a", b!"x"), (b!"0", []), (b!"m", []), (b!"x", b!"m")] :=
  by
  refine ⟨_, _, rfl, ?_, rfl, rfl⟩
  exact (rename_preserves_WF exCfg exW _ b!"b" b!"x" [] exPretend _ exW_wf rfl).1
example : ∃ d' w', (rebaseLayer exCfg exW b!"a" b!"0").run.run exPretend = (.ok d', w') ∧
    WF d' ∧ d'.order = [b!"0", b!"a", b!"m", b!"b"] :=
  by
  refine ⟨_, _, rfl, ?_, rfl⟩
  exact (rebase_preserves_WF exCfg exW _ b!"a" b!"0" exPretend _ exW_wf rfl).1

/-- a table that is not well-formed (a dangling base): `WF` is not trivially true -/
example : ¬ WF { layers := [exB], order := [b!"b"] } := by
  intro h
  have := h.acyclic
  revert this
  decide

/-- a sequence with successes and refusals (remove of a parent, rebase onto a descendant):
    every table on the way is well-formed, and the final order is the expected one -/
def exSeq : List SCmd :=
  [.add b!"n" b!"b" [], .remove b!"b" false, .rebase b!"m" b!"a", .rename b!"b" b!"x" [b!"n", b!"a"],
   .rebase b!"n" b!"0", .remove b!"a" false]
example : ((exSeq.foldl (stepS exCfg) (exW, exPretend)).1).order = [b!"0", b!"n", b!"m", b!"x"] := rfl
example := (reachable_WF exCfg exSeq exW exPretend exW_wf).2
/-- the same with a fault injected at the first mutation (not pretending, empty disk): the
    add fails, the table stays -/
example : (stepS exCfg (exW, { faultAt := some 1 }) (.add b!"n" b!"b" [])).1.order = exW.order := rfl

/-- a disk: layers `m`, `b` (base m), a directory with an illegal name and one without a
    layerconfig; FindLayers returns the two layers, parents first -/
def exDisk : World :=
  { fs := [(b!"/lc", .dir), (b!"/lc/layers", .dir),
           (b!"/lc/layers/b", .dir), (b!"/lc/layers/b/layerconfig", .file b!"base m\n"),
           (b!"/lc/layers/m", .dir), (b!"/lc/layers/m/layerconfig", .file []),
           (b!"/lc/layers/x.y", .dir), (b!"/lc/layers/x.y/layerconfig", .file []),
           (b!"/lc/layers/empty", .dir)] }
example : (Fs.children exDisk.fs exCfg.layerdirs).Nodup := by decide
set_option maxRecDepth 100000 in
example : ∃ d, (findLayers exCfg).run.run exDisk = (.ok d, exDisk) ∧ WF d ∧ d.order = [b!"m", b!"b"] := by
  refine ⟨_, rfl, ?_, rfl⟩
  exact findLayers_WF_partial exCfg exDisk exDisk _ (by decide) rfl

/-- one whole invocation on that disk, not pretending: `rebase b ""` ends normally, returns a
    well-formed table of two roots and has rewritten b's layerconfig -/
example : ∀ d, (run exCfg [] (.rebase b!"b" []) exDisk).1 = .ok d → WF d :=
  fun d h => run_WF_partial exCfg [] (.rebase b!"b" []) exDisk d rfl (by decide) h
example : (run exCfg [] (.rebase b!"b" []) exDisk).1.toOption.map (·.order) = some [b!"b", b!"m"] := by
  decide +kernel
example : Fs.readFile (run exCfg [] (.rebase b!"b" []) exDisk).2.fs b!"/lc/layers/b/layerconfig" = some [] := by
  decide +kernel
set_option maxRecDepth 100000 in
example : ∃ d w', (getLayers exCfg []).run.run { exDisk with pretend := true } = (.ok d, w') ∧ WF d
    ∧ d.order = [b!"m", b!"b"] := by
  refine ⟨_, _, rfl, ?_, rfl⟩
  exact getLayers_WF_partial exCfg [] { exDisk with pretend := true } _ _ (by decide) rfl
/-- `reach_WF` with a different world at every step -/
example : WF (stepS exCfg ((stepS exCfg (exW, exPretend) (.add b!"n" b!"b" [])).1, { crashAt := some 2 })
    (.remove b!"a" true)).1 :=
  reach_WF exCfg exW _ exW_wf (Reach.step _ _ _ (Reach.step _ _ _ Reach.start))
/-- `wf_no_self_ancestor` / `wf_order` are about a table with real ancestors -/
example : ¬ Ancestor exW.layers exA exA := wf_no_self_ancestor exW exW_wf exA
example : Before exW.order b!"m" b!"a" :=
  (wf_order exW exW_wf).2.2 exA exC
    (Ancestor.trans exA exB exC (Ancestor.parent exB exA (by simp [exW, exLayers]) (by decide) (by decide))
      (by simp [exW, exLayers]) (by decide) (by decide))

end Lc.Props.C02
