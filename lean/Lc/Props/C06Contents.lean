/-
  C06, the part before the pipeline: what is "recorded for a selected package" is what
  `vdb.GetAtomFileInfo` reads out of the package's CONTENTS file.  These theorems say that
  the reader (Model/Contents: GetAtomFileInfo, parseOffTimestamp, parseOffMd5,
  parseOffNonBlankField, readFileLines -- the code as it is) returns exactly the recorded
  names, kinds and times for every file Portage can have written (Spec/ContentsRender:
  `render`, `WFEntry`), and where the format itself cannot carry a name.
  Helper lemmas: Lc/Lemmas/Contents.lean.
-/
import Lc.Model.Contents
import Lc.Spec.ContentsRender
import Lc.Lemmas.Contents

namespace Lc.Props.C06Contents
open Lc Lc.Contents Lc.Spec.ContentsRender Lc.Lemmas.Contents

/-! ## 1. cutting fields from the right -/

/-- The core of the format: cutting the last blank-free field off the right end undoes
    appending ` <field>`, whatever the (non-empty) text to the left of it is -- blanks,
    blanks at its end, text that itself looks like ` <field>`. -/
theorem field_cut_from_right (head field : Bytes) (hh : head ≠ []) (hne : field ≠ [])
    (hf : 32 ∉ field) : parseOffNonBlankField (head ++ 32 :: field) = .ok (head, field) :=
  parseOff_append head field hh hne hf

example : parseOffNonBlankField (b!"/a b  " ++ 32 :: b!"17") = .ok (b!"/a b  ", b!"17") :=
  field_cut_from_right _ _ (by decide) (by decide) (by decide)

/-- ... and the left part must not be empty: the loop stops before position 0. -/
theorem field_cut_needs_left_part (field : Bytes) (hf : 32 ∉ field) :
    parseOffNonBlankField (32 :: field) = Res.err "parse" :=
  parseOff_empty_head field hf

example : parseOffNonBlankField b!" 17" = Res.err "parse" := field_cut_needs_left_part b!"17" (by decide)

/-- every 64-bit time comes back from its decimal rendering -/
theorem time_any_int64 (t : Int) (ht : TimeOK t) : parseInt64 (intDec t) = some t :=
  parseInt64_intDec t ht

example : parseInt64 (intDec (-9223372036854775808)) = some (-9223372036854775808) :=
  time_any_int64 _ (by decide)
example : parseInt64 b!"1500000000" = some 1500000000 := by rfl
-- accepted by strconv.ParseInt: a sign, `-0`; refused: an underscore, 2^63, a sign alone, CR
example : parseInt64 b!"+5" = some 5 ∧ parseInt64 b!"-0" = some 0 ∧ parseInt64 b!"1_0" = none ∧
    parseInt64 b!"9223372036854775808" = none ∧ parseInt64 b!"-" = none ∧ parseInt64 b!"17\r" = none := by
  refine ⟨?_, ?_, ?_, ?_, ?_, ?_⟩ <;> rfl

/-! ## 2. the whole file -/

/-- For every list of well-formed entries, reading the file Portage writes for it gives
    back exactly the entries' names, kinds, times (and checksums), in order. -/
theorem parse_render (es : List Entry) (h : ∀ e ∈ es, WFEntry e) :
    getAtomFileInfo (render es) = .ok (es.map expected) := by
  cases hes : es with
  | nil => rfl
  | cons e es' =>
    have hne : es ≠ [] := by rw [hes]; simp
    rw [← hes]
    have hlines : ∀ l ∈ es.map renderLine, 10 ∉ l := by
      intro l hl
      rw [List.mem_map] at hl
      obtain ⟨a, ha, rfl⟩ := hl
      exact renderLine_no_nl a (h a ha)
    have hjne : joinWith 10 (es.map renderLine) ≠ [] := by
      obtain ⟨t, x, ht, _⟩ := joinWith_last (es.map renderLine) (by simpa using hne) (by
        intro l hl
        rw [List.mem_map] at hl
        obtain ⟨a, ha, rfl⟩ := hl
        obtain ⟨c, rest, hc, _⟩ := renderLine_shape a
        exact ⟨by rw [hc]; simp, renderLine_no_nl a (h a ha)⟩)
      rw [ht]; simp
    unfold getAtomFileInfo
    simp only [readFileLines_render es hne h]
    have hlen : ¬ (joinWith 10 (es.map renderLine)).length = 0 := by
      intro e; exact hjne (List.eq_nil_of_length_eq_zero e)
    rw [if_neg hlen, splitOn_joinWith 10 _ (by simpa using hne) hlines]
    exact parseLines_render es h

/-- the sentence as stated in the task: names, kinds and times, in order -/
theorem parse_render_names_types_times (es : List Entry) (h : ∀ e ∈ es, WFEntry e) :
    ∃ out, getAtomFileInfo (render es) = .ok out ∧
      out.map (fun fi => (fi.name, fi.type, fi.unixTime)) = es.map (fun e => (e.name, e.typeCode, e.time)) := by
  refine ⟨es.map expected, parse_render es h, ?_⟩
  simp [List.map_map, expected, Function.comp_def]

def md5A : Bytes := [0xd4, 0x1d, 0x8c, 0xd9, 0x8f, 0x00, 0xb2, 0x04, 0xe9, 0x80, 0x09, 0x98, 0xec, 0xf8, 0x42, 0x7e]

/-- a file with the awkward cases side by side: a name with blanks and one at the end, a
    name that looks like the tail of an `obj` line, a target containing ` -> ` and ending in a
    blank, an empty target, a `dir` name ending in a blank as the LAST line (kept by
    readFileLines), non-ASCII bytes -/
def sampleEntries : List Entry :=
  [.dir b!"/usr", .obj b!"/usr/my file " md5A 1500000000,
   .obj b!"/a d41d8cd98f00b204e9800998ecf8427e 17" md5A 0,
   .sym b!"/usr/lib/x" b!"a -> b " 1700000000, .sym b!"/e" b!"" (-1),
   .obj b!"/opt/é" md5A 9223372036854775807, .dir b!"/opt/end "]

example : ∀ e ∈ sampleEntries, WFEntry e := by decide

example : render [.obj b!"/usr/my file " md5A 1500000000, .sym b!"/e" b!"a -> b " (-1)] =
    b!"obj /usr/my file  d41d8cd98f00b204e9800998ecf8427e 1500000000\nsym /e -> a -> b  -1\n" := by
  rfl

example : getAtomFileInfo (render sampleEntries) = .ok (sampleEntries.map expected) :=
  parse_render _ (by decide)

/-- The point of cutting from the right: the name of an `obj` entry comes back unchanged
    for ANY non-empty name without newline -- blanks, a blank at the end, a name ending in
    ` -> x`, a name that is itself `a 0123abcd 17`.  No other condition on the name. -/
theorem obj_name_any_bytes (name md5 : Bytes) (t : Int) (hne : name ≠ []) (hnl : 10 ∉ name)
    (hl : md5.length = 16) (hb : ∀ b ∈ md5, b < 256) (ht : TimeOK t) :
    getAtomFileInfo (render [.obj name md5 t]) =
      .ok [{ name := name, unixTime := t, md5 := md5, type := FileType_file }] :=
  parse_render [.obj name md5 t] (by
    intro e he
    simp at he
    subst he
    exact ⟨hne, hnl, hl, hb, ht⟩)

example : getAtomFileInfo (render [.obj b!"a 0123abcd 17" md5A 5]) =
    .ok [{ name := b!"a 0123abcd 17", unixTime := 5, md5 := md5A, type := 2 }] :=
  obj_name_any_bytes _ _ _ (by decide) (by decide) (by decide) (by decide) (by decide)
example : getAtomFileInfo (render [.obj b!"/x -> y " md5A 5]) =
    .ok [{ name := b!"/x -> y ", unixTime := 5, md5 := md5A, type := 2 }] :=
  obj_name_any_bytes _ _ _ (by decide) (by decide) (by decide) (by decide) (by decide)

/-- the same among other entries: in a file of well-formed entries the `obj` entry at
    position `i` is returned at position `i` with its name -/
theorem obj_name_any_bytes_in_file (before after : List Entry) (name md5 : Bytes) (t : Int)
    (hb : ∀ e ∈ before, WFEntry e) (ha : ∀ e ∈ after, WFEntry e) (hw : WFEntry (.obj name md5 t)) :
    ∃ out, getAtomFileInfo (render (before ++ .obj name md5 t :: after)) = .ok out ∧
      (out[before.length]?).map (·.name) = some name := by
  refine ⟨(before ++ .obj name md5 t :: after).map expected, parse_render _ ?_, ?_⟩
  · intro e he
    simp only [List.mem_append, List.mem_cons] at he
    rcases he with he | rfl | he
    · exact hb e he
    · exact hw
    · exact ha e he
  · simp [expected, Entry.name]

example : ∃ out, getAtomFileInfo (render ([.dir b!"/usr"] ++ .obj b!"/usr/my file " md5A 7 :: [.dir b!"/z"])) = .ok out ∧
    (out[1]?).map (·.name) = some b!"/usr/my file " :=
  obj_name_any_bytes_in_file _ _ _ _ _ (by decide) (by decide) (by decide)

/-! ## 3. symlinks: exactly which names the format carries -/

/-- The name of a `sym` entry comes back exactly when ` -> ` does not occur in `<name> ->`
    (`ArrowFree`); otherwise it comes back cut at an earlier position.  The target plays no
    part.  So `ArrowFree` is the weakest condition; that names containing ` -> ` cannot be
    recorded is a limitation of the CONTENTS format (`sym /a -> b -> c 5` can be read as
    `/a` pointing to `b -> c` or as `/a -> b` pointing to `c`: nothing is escaped, a reader has to
    choose, and this one takes the first ` -> `), not a defect of this reader. -/
theorem sym_name_back_iff (name targ : Bytes) (t : Int) (ht : TimeOK t) (hn : 10 ∉ name)
    (htg : 10 ∉ targ) :
    getAtomFileInfo (render [.sym name targ t]) = .ok [expected (.sym name targ t)] ↔ ArrowFree name := by
  constructor
  · intro h
    apply Classical.byContradiction
    intro hna
    obtain ⟨p, hp, hidx⟩ := indexOf_not_arrowFree name targ hna
    have hline := parseLine_sym_general name targ t ht
    rw [arrow_eq, hidx] at hline
    -- the file has one line
    have hnl : 10 ∉ renderLine (.sym name targ t) := by
      simp [renderLine, hn, htg, intDec_no_nl t, sepArrow]
    have hfile : getAtomFileInfo (render [.sym name targ t]) = parseLines [renderLine (.sym name targ t)] := by
      obtain ⟨c, rest, hc, hc10⟩ := renderLine_shape (.sym name targ t)
      obtain ⟨u, x, hu, hx⟩ := joinWith_last [renderLine (.sym name targ t)] (by simp) (by
        intro l hl; simp at hl; subst hl; exact ⟨by rw [hc]; simp, hnl⟩)
      simp only [joinWith] at hu
      have hrd : readFileLines (render [.sym name targ t]) = renderLine (.sym name targ t) := by
        unfold readFileLines
        simp only [render]
        have : trimLeft 10 (renderLine (.sym name targ t) ++ [10]) = renderLine (.sym name targ t) ++ [10] := by
          rw [hc]; exact trimLeft_head_ne 10 c _ hc10
        rw [this, trimRight_snoc_same, hu, trimRight_snoc_ne 10 x u hx]
      unfold getAtomFileInfo
      simp only [hrd]
      have : ¬ (renderLine (.sym name targ t)).length = 0 := by rw [hc]; simp
      rw [if_neg this, splitOn_noSep 10 _ hnl]
    rw [hfile] at h
    simp only [parseLines, hline] at h
    have hname : (name ++ (sepArrow ++ targ)).take p = name := by
      have := congrArg (fun r => match r with | Except.ok [fi] => fi.name | _ => []) h
      simpa [expected, Entry.name] using this
    have hlen := congrArg List.length hname
    simp at hlen
    omega
  · intro ha
    exact parse_render [.sym name targ t] (by
      intro e he; simp at he; subst he; exact ⟨hn, htg, ha, ht⟩)

example : ArrowFree b!"/usr/lib/a - > b" ∧ ¬ ArrowFree b!"/a -> b" ∧ ¬ ArrowFree b!"/a ->" := by decide

/-- targets are free: ` -> ` inside, blanks at the end, empty -/
theorem sym_target_any_bytes (name targ : Bytes) (t : Int) (ht : TimeOK t) (hn : 10 ∉ name)
    (htg : 10 ∉ targ) (ha : ArrowFree name) :
    getAtomFileInfo (render [.sym name targ t]) =
      .ok [{ name := name, unixTime := t, type := FileType_symlink }] :=
  (sym_name_back_iff name targ t ht hn htg).mpr ha

example : getAtomFileInfo (render [.sym b!"/l" b!"x -> y -> z " 3]) =
    .ok [{ name := b!"/l", unixTime := 3, type := 3 }] :=
  sym_target_any_bytes _ _ _ (by decide) (by decide) (by decide) (by decide)

/-- Witness (documented limitation of the format, not a defect): a symlink whose NAME
    contains ` -> ` comes back with a shorter name. -/
theorem sym_name_with_arrow_is_cut :
    getAtomFileInfo (render [.sym b!"/a -> b" b!"t" 5]) = .ok [{ name := b!"/a", unixTime := 5, type := 3 }] := by
  rfl

/-- ... and so does a name that merely ENDS in ` ->`: together with the separator it reads
    ` -> -> `, and the reader stops at the first one.  This is why `ArrowFree` looks at
    `<name> ->` and not at the name alone. -/
theorem sym_name_ending_in_arrow_is_cut :
    getAtomFileInfo (render [.sym b!"/a ->" b!"t" 5]) = .ok [{ name := b!"/a", unixTime := 5, type := 3 }] := by
  rfl

/-! ## 4. what else the conditions of `WFEntry` are needed for -/

/-- an `obj` entry with the empty name is refused (for every checksum and time): the reader
    does not look for a blank at position 0 -/
theorem obj_empty_name_refused (md5 : Bytes) (t : Int) (ht : TimeOK t) :
    parseLine (renderLine (.obj [] md5 t)) = Res.err "parse" := by
  have htail : (renderLine (.obj [] md5 t)).drop 4 = (32 :: hexEncode md5) ++ 32 :: intDec t := by
    simp [renderLine]
  have htake : (renderLine (.obj [] md5 t)).take 4 = b!"obj " := by simp [renderLine]
  have hlen : ¬ (renderLine (.obj [] md5 t)).length < 4 := by simp [renderLine]
  unfold parseLine
  rw [if_neg hlen]
  simp only [htake, htail]
  rw [parseOffTimestamp_append _ t (by simp) ht]
  simp only [show (b!"obj " = b!"dir ") = False from by simp, if_false, if_true]
  unfold parseOffMd5
  rw [parseOff_empty_head _ (hexEncode_no_blank md5)]
  rfl

example : getAtomFileInfo (render [.obj [] md5A 5]) = Res.err "parse" := by rfl

/-- a time outside 64 bits is refused -/
theorem time_out_of_range_refused :
    getAtomFileInfo (render [.obj b!"/a" md5A 9223372036854775808]) = Res.err "timestamp" := by rfl

/-- a name with a newline is two lines to the reader; here the second one is too short -/
theorem newline_in_name_breaks_line :
    getAtomFileInfo (render [.dir b!"/a\nb"]) = Res.panic := by rfl

/-- Portage records FIFOs and device nodes as `fif <name>` / `dev <name>`; this reader knows
    `dir`, `obj`, `sym` only and refuses the whole file (it does not skip the line and does
    not lose a name silently). -/
theorem fif_line_is_refused :
    getAtomFileInfo b!"dir /run\nfif /run/initctl\n" = Res.err "type" ∧
    getAtomFileInfo b!"dev /dev/console\n" = Res.err "type" := by
  constructor <;> rfl

/-! ## 5. malformed text -/

/-- a line shorter than four bytes: `line[:4]` is a Go panic (slice bounds out of range) -/
theorem short_line_panics : getAtomFileInfo b!"ab" = Res.panic := by rfl

/-- an empty line in the middle of the file is such a line -/
theorem blank_line_in_the_middle : getAtomFileInfo b!"dir /a\n\ndir /b\n" = Res.panic := by rfl

-- empty lines at either end are dropped by readFileLines; a file of newlines only is empty
example : getAtomFileInfo b!"\n\ndir /a \n\n\n" = .ok [{ name := b!"/a ", type := 1 }] := by rfl
example : getAtomFileInfo b!"\n\n\n" = .ok [] := by rfl
-- other malformed lines are error returns
example : getAtomFileInfo b!"obj /a d41d8cd98f00b204e9800998ecf8427 5\n" = Res.err "md5" := by rfl
example : getAtomFileInfo b!"obj /a D41D8CD98F00B204E9800998ECF8427E 5\n" =
    .ok [{ name := b!"/a", unixTime := 5, md5 := md5A, type := 2 }] := by rfl
example : getAtomFileInfo b!"obj /a d41d 1_0\n" = Res.err "timestamp" := by rfl
example : getAtomFileInfo b!"sym /a b 5\n" = Res.err "arrow" := by rfl
example : getAtomFileInfo b!"obj \n" = Res.err "empty" := by rfl
example : getAtomFileInfo b!"obj x\n" = Res.err "parse" := by rfl
example : getAtomFileInfo b!"dir /a\r\ndir /b\r\n" = .ok [{ name := b!"/a\r", type := 1 }, { name := b!"/b\r", type := 1 }] := by rfl

/-- The only panic is the short line: if the reader panics, some line of the trimmed text
    has fewer than four bytes.  (So on every text whose lines all have four bytes or more the
    outcome is a list or an error return.) -/
theorem panic_only_on_short_line (content : Bytes) (h : getAtomFileInfo content = Res.panic) :
    ∃ l ∈ splitOn 10 (readFileLines content), l.length < 4 := by
  have hlines : ∀ ls, parseLines ls = Res.panic → ∃ l ∈ ls, l.length < 4 := by
    intro ls
    induction ls with
    | nil => intro hp; simp [parseLines, Res.panic] at hp
    | cons l ls ih =>
      intro hp
      simp only [parseLines] at hp
      cases hl : parseLine l with
      | error e =>
        rw [hl] at hp; dsimp only at hp
        have he : e = Fault.panic := by simpa [Res.panic] using hp
        exact ⟨l, by simp, parseLine_panic_short l (by rw [hl, he]; rfl)⟩
      | ok fi =>
        rw [hl] at hp; dsimp only at hp
        cases hls : parseLines ls with
        | error e =>
          rw [hls] at hp; dsimp only at hp
          have he : e = Fault.panic := by simpa [Res.panic] using hp
          obtain ⟨l', hl', hlt⟩ := ih (by rw [hls, he]; rfl)
          exact ⟨l', by simp [hl'], hlt⟩
        | ok fis => rw [hls] at hp; simp [Res.panic] at hp
  unfold getAtomFileInfo at h
  dsimp only at h
  split at h
  · simp [Res.panic] at h
  · exact hlines _ h

example : ∃ l ∈ splitOn 10 (readFileLines b!"dir /a\n\ndir /b\n"), l.length < 4 :=
  panic_only_on_short_line _ blank_line_in_the_middle

/-- If reading succeeds, there is one entry per line of the trimmed text (no line is skipped,
    none yields two entries); an empty text has none. -/
theorem parse_error_or_all_lines (content : Bytes) (out : List FileInfo)
    (h : getAtomFileInfo content = .ok out) :
    out.length = if (readFileLines content).length = 0 then 0
                 else (splitOn 10 (readFileLines content)).length := by
  unfold getAtomFileInfo at h
  simp only at h
  split at h
  · rename_i h0
    simp at h
    subst h
    simp [h0]
  · rename_i h0
    rw [if_neg h0]
    exact parseLines_length _ _ h

example : ∃ out, getAtomFileInfo b!"dir /a\ndir /b c \nsym /l -> /a 5\n" = .ok out ∧ out.length = 3 :=
  ⟨_, rfl, rfl⟩

end Lc.Props.C06Contents
