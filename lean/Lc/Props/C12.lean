/-
  C12 — the kernel mount table is read back exactly.
  Property theorems only; helper lemmas live in Lc/Lemmas.
-/
import Lc.Model.Mountinfo
import Lc.Spec.KernelEscape

namespace Lc.Props.C12
open Lc Lc.Mountinfo Lc.Spec

theorem unescape_cons_ne (x : Nat) (rest : Bytes) (h : x ≠ 92) :
    unescape (x :: rest) = x :: unescape rest := by
  match rest with
  | [] => simp [unescape]
  | [a] => simp [unescape]
  | [a, b] => simp [unescape]
  | a :: b :: c :: r => simp [unescape, h]

theorem unescape_esc3 (b : Nat) (rest : Bytes) (hb : b < 256) :
    unescape (esc3 b ++ rest) = b :: unescape rest := by
  have h1 : 48 ≤ 48 + b / 64 := by omega
  have h2 : 48 + b / 64 < 52 := by omega
  simp [esc3, unescape, isOct]
  rw [if_pos (by omega)]
  congr 1
  omega

/-- The decoder inverts the kernel's escaping for every escape set that contains the
    backslash, on every byte string. -/
theorem unescape_mangle (E : Nat → Bool) (hE : E 92 = true) (s : Bytes)
    (hs : ∀ b ∈ s, b < 256) : unescape (mangleWith E s) = s := by
  induction s with
  | nil => simp [mangleWith, unescape]
  | cons b s ih =>
    have hb : b < 256 := hs b (by simp)
    have ih' := ih (fun x hx => hs x (by simp [hx]))
    unfold mangleWith at ih' ⊢
    simp only [List.flatMap_cons]
    by_cases hEb : E b = true
    · simp only [hEb, if_true]
      rw [unescape_esc3 b _ hb, ih']
    · have hne : b ≠ 92 := by intro e; rw [e] at hEb; exact hEb hE
      simp only [hEb]
      simp only [Bool.false_eq_true, if_false, List.singleton_append]
      rw [unescape_cons_ne b _ hne, ih']

example : unescape (mangleWith pathEsc b!"/mnt/my base\\x\t") = b!"/mnt/my base\\x\t" := by
  decide

end Lc.Props.C12
