/-
  C12 — the kernel mount table is read back exactly.
  Property theorems only; helper lemmas live in Lc/Lemmas.
-/
import Lc.Model.Mountinfo
import Lc.Spec.KernelEscape
import Lc.Spec.KernelRender
import Lc.Lemmas.Mountinfo

namespace Lc.Props.C12
open Lc Lc.Mountinfo Lc.Spec Lc.Lemmas.Mountinfo

theorem unescape_cons_ne (x : Nat) (rest : Bytes) (h : x ≠ 92) :
    unescape (x :: rest) = x :: unescape rest := by
  match rest with
  | [] => simp [unescape]
  | [a] => simp [unescape]
  | [a, b] => simp [unescape]
  | a :: b :: c :: r => simp [unescape, h]

theorem unescape_esc3 (b : Nat) (rest : Bytes) (hb : b < 256) :
    unescape (esc3 b ++ rest) = b :: unescape rest := by
  have h1 : 48 ≤ 48 + b / 64 := by omega
  have h2 : 48 + b / 64 < 52 := by omega
  simp [esc3, unescape, isOct]
  rw [if_pos (by omega)]
  congr 1
  omega

/-- The decoder inverts the kernel's escaping for every escape set that contains the
    backslash, on every byte string. -/
theorem unescape_mangle (E : Nat → Bool) (hE : E 92 = true) (s : Bytes)
    (hs : ∀ b ∈ s, b < 256) : unescape (mangleWith E s) = s := by
  induction s with
  | nil => simp [mangleWith, unescape]
  | cons b s ih =>
    have hb : b < 256 := hs b (by simp)
    have ih' := ih (fun x hx => hs x (by simp [hx]))
    unfold mangleWith at ih' ⊢
    simp only [List.flatMap_cons]
    by_cases hEb : E b = true
    · simp only [hEb, if_true]
      rw [unescape_esc3 b _ hb, ih']
    · have hne : b ≠ 92 := by intro e; rw [e] at hEb; exact hEb hE
      simp only [hEb]
      simp only [Bool.false_eq_true, if_false, List.singleton_append]
      rw [unescape_cons_ne b _ hne, ih']

example : unescape (mangleWith pathEsc b!"/mnt/my base\\x\t") = b!"/mnt/my base\\x\t" := by
  decide

/-! ## 1. escaped text contains no separator -/

/-- A byte of the escape set (other than the backslash and the octal digits, which the
    escape sequences themselves consist of) does not occur in escaped text. -/
theorem mangle_no_sep (E : Nat → Bool) (c : Nat) (hE : E c = true) (h92 : c ≠ 92)
    (hd : ¬(48 ≤ c ∧ c ≤ 55)) (s : Bytes) (hs : ∀ b ∈ s, b < 256) : c ∉ mangleWith E s :=
  not_mem_mangleWith_of_esc hs hE h92 hd

/-- escaped paths contain no blank, tab or newline; escaped option values additionally no
    comma; escaped option NAMES additionally no '='.  (An '=' in an option VALUE is not
    escaped: `mangle_optEsc_keeps_equals`.) -/
theorem mangle_no_sep_fields (s : Bytes) (hs : ∀ b ∈ s, b < 256) :
    32 ∉ mangleWith pathEsc s ∧ 9 ∉ mangleWith pathEsc s ∧ 10 ∉ mangleWith pathEsc s ∧
    32 ∉ mangleWith srcEsc s ∧ 10 ∉ mangleWith srcEsc s ∧
    32 ∉ mangleWith optEsc s ∧ 10 ∉ mangleWith optEsc s ∧ 44 ∉ mangleWith optEsc s ∧
    32 ∉ mangleWith optNameEsc s ∧ 10 ∉ mangleWith optNameEsc s ∧
    44 ∉ mangleWith optNameEsc s ∧ 61 ∉ mangleWith optNameEsc s := by
  refine ⟨?_, ?_, ?_, ?_, ?_, ?_, ?_, ?_, ?_, ?_, ?_, ?_⟩ <;>
    exact mangle_no_sep _ _ (by decide) (by decide) (by decide) s hs

/-- `seq_show_option` does not escape '=' in a VALUE: the escaped value carries exactly the
    '=' bytes of the raw value (every one of them, and no other -- the escape sequences of
    the bytes that are escaped consist of a backslash and octal digits).  For every byte
    string. -/
theorem mangle_optEsc_keeps_equals (s : Bytes) :
    (mangleWith optEsc s).count 61 = s.count 61 := by
  induction s with
  | nil => rfl
  | cons b s ih =>
    unfold mangleWith at ih ⊢
    rw [List.flatMap_cons, List.count_append, ih, List.count_cons]
    by_cases hE : optEsc b = true
    · have hb : b = 32 ∨ b = 9 ∨ b = 10 ∨ b = 92 ∨ b = 44 := by
        simpa [optEsc, pathEsc, or_assoc] using hE
      rcases hb with rfl | rfl | rfl | rfl | rfl <;> simp [optEsc, pathEsc, esc3] <;> omega
    · simp only [hE, Bool.false_eq_true, if_false]
      by_cases h61 : b = 61
      · subst h61; simp; omega
      · simp [h61]

example : mangleWith optEsc b!"/a=b/c d,e" = b!"/a=b/c\\040d\\054e" := by decide

/-- option names as the kernel escapes them (`optNameEsc`): a name without blank, tab,
    newline, backslash, ',' and '=' -- every name a file system prints -- is written as it
    is, which is what `renderSOpt` does -/
theorem mangle_optNameEsc_id (k : Bytes) (h : ∀ b ∈ k, optNameEsc b = false) :
    mangleWith optNameEsc k = k := by
  induction k with
  | nil => rfl
  | cons b k ih =>
    have hb := h b (by simp)
    have := ih (fun x hx => h x (by simp [hx]))
    unfold mangleWith at this ⊢
    simp [hb, this]

example : mangleWith optNameEsc b!"lowerdir" = b!"lowerdir" := by decide

example : 32 ∉ mangleWith pathEsc b!"/mnt/my base\n\t x" :=
  mangle_no_sep _ _ (by decide) (by decide) (by decide) _ (by decide)

/-! ## 2. overlay options -/

/-- `lastVal` is a left fold of this step -/
def lastValStep (k : Bytes) (acc : Bytes) (o : SOpt) : Bytes :=
  if o.key = k then (match o.val with | some v => v | none => acc) else acc

theorem lastVal_eq_foldl (k : Bytes) (l : List SOpt) : lastVal k l = l.foldl (lastValStep k) [] :=
  rfl

theorem ovlStep_render (acc : OvlOpts) (o : SOpt) (hk : 61 ∉ o.key)
    (hv : ∀ v, o.val = some v → IsB v) :
    ovlStep acc (renderSOpt o) =
      { lower := lastValStep b!"lowerdir" acc.lower o,
        upper := lastValStep b!"upperdir" acc.upper o,
        work := lastValStep b!"workdir" acc.work o } := by
  cases acc with
  | mk lo up wk =>
  unfold ovlStep renderSOpt lastValStep
  cases hval : o.val with
  | none =>
    simp only [splitN2_noSep 61 _ hk]
    simp
  | some v =>
    simp only [splitN2_append_sep 61 _ _ hk]
    have hu : unescape (mangleWith optEsc v) = v :=
      unescape_mangle optEsc (by decide) v (hv v hval)
    by_cases h1 : o.key = b!"lowerdir"
    · simp [h1, hu]
    · by_cases h2 : o.key = b!"upperdir"
      · simp [h2, hu]
      · by_cases h3 : o.key = b!"workdir"
        · simp [h3, hu]
        · simp [h1, h2, h3]

theorem foldl_ovlStep_render (l : List SOpt) (acc : OvlOpts)
    (h : ∀ o ∈ l, 61 ∉ o.key ∧ ∀ v, o.val = some v → IsB v) :
    (l.map renderSOpt).foldl ovlStep acc =
      { lower := l.foldl (lastValStep b!"lowerdir") acc.lower,
        upper := l.foldl (lastValStep b!"upperdir") acc.upper,
        work := l.foldl (lastValStep b!"workdir") acc.work } := by
  induction l generalizing acc with
  | nil => cases acc; rfl
  | cons o l ih =>
    simp only [List.map_cons, List.foldl_cons]
    rw [ovlStep_render acc o (h o (by simp)).1 (h o (by simp)).2,
      ih _ (fun x hx => h x (by simp [hx]))]

/-- The overlay directories are recovered from the super-option text for every option
    list: the three keys in any order, any number of foreign options with or without
    value, repeated keys (the last one counts), any bytes in the values.  Hypotheses: keys
    contain no ',' and no '='; values are byte strings. -/
theorem overlay_opts_recovered (l : List SOpt)
    (h : ∀ o ∈ l, 44 ∉ o.key ∧ 61 ∉ o.key ∧ ∀ v, o.val = some v → IsB v) :
    parseOverlayOpts (renderSuper l) =
      { lower := lastVal b!"lowerdir" l, upper := lastVal b!"upperdir" l,
        work := lastVal b!"workdir" l } := by
  by_cases hl : l = []
  · subst hl
    simp [parseOverlayOpts, renderSuper, joinWith, splitOn, ovlStep, splitN2, lastVal]
  · unfold parseOverlayOpts renderSuper
    rw [splitOn_joinWith 44 _ (by simpa using hl)]
    · rw [foldl_ovlStep_render l {} (fun o ho => ⟨(h o ho).2.1, (h o ho).2.2⟩)]
      rfl
    · intro p hp
      rw [List.mem_map] at hp
      obtain ⟨o, ho, rfl⟩ := hp
      exact not_mem_renderSOpt (h o ho).1 (by decide) (h o ho).2.2 (by decide) (by decide)
        (by decide)

/-- in the shape of `KMount.WF.super` -/
theorem overlay_opts_recovered_wf (l : List SOpt)
    (h : ∀ o ∈ l, KeyOK o.key ∧ (∀ v, o.val = some v → IsB v)) :
    parseOverlayOpts (renderSuper l) =
      { lower := lastVal b!"lowerdir" l, upper := lastVal b!"upperdir" l,
        work := lastVal b!"workdir" l } :=
  overlay_opts_recovered l (fun o ho => ⟨(h o ho).1.2.1, (h o ho).1.2.2, (h o ho).2⟩)

/-- options in a non-canonical order, foreign options, a repeated key, a comma and a
    blank inside a value -/
example : (parseOverlayOpts (renderSuper
      [⟨b!"rw", none⟩, ⟨b!"workdir", some b!"/b c/w"⟩, ⟨b!"lowerdir", some b!"/old"⟩,
       ⟨b!"index", some b!"off"⟩, ⟨b!"lowerdir", some b!"/b c/x,y:/l2"⟩,
       ⟨b!"upperdir", some b!"/b c/u=1"⟩])).lower = b!"/b c/x,y:/l2" := by
  rw [overlay_opts_recovered _ (by simp [IsB])]
  decide

/-! ## 3. one line -/

/-- the entry a reader must produce for mount `m`, given its shadow flag -/
def entryWith (sh : Bool) (m : KMount) : MountType :=
  let e := expectedOf m
  ⟨e.lower, e.mountpoint, e.upper, e.work, e.fstype, e.options, sh, m.dev, m.root, m.id, m.parent⟩

theorem shadowing_contains (f : Bytes) : shadowingFsTypes.contains f = isShadowingType f := by
  simp only [shadowingFsTypes, isShadowingType, List.contains, List.elem]
  generalize (f == b!"devtmpfs") = x
  generalize (f == b!"sysfs") = y
  cases x <;> cases y <;> rfl

/-- Reading one kernel-rendered line in any parser state appends exactly the expected
    entry (mountpoint, fstype, options, overlay lower/upper/work -- empty unless the type
    is overlay --, device number and root, all unescaped), registers the device and its
    root mountpoint, and updates the shadow set: for any number of optional fields and
    any bytes in root, mountpoint, source and overlay directories. -/
theorem probeLine_render (m : KMount) (wf : m.WF) (st : PState) :
    probeLine st (renderLine m) = .ok
      { m := { list := st.m.list ++
                 [entryWith (!isShadowingType m.fstype && st.shadow.contains m.parent) m],
               devices := addDevice st.m.devices m.dev m.source m.root m.mp },
        shadow := if isShadowingType m.fstype || st.shadow.contains m.parent
                  then m.id :: st.shadow else st.shadow } := by
  have hsegs : splitOn 32 (renderLine m) =
      [m.id, m.parent, m.dev, mangleWith pathEsc m.root, mangleWith pathEsc m.mp, m.opts]
        ++ m.optional ++ [[45], m.fstype, mangleWith srcEsc m.source, renderSuper m.super] :=
    splitOn_renderLine wf
  rw [probeLine_of_segs st _ _ _ _ _ _ _ _ _ _ _ hsegs (fun o ho => (wf.optional o ho).2)]
  unfold lineResult
  rw [unescape_mangle pathEsc (by decide) _ wf.root, unescape_mangle pathEsc (by decide) _ wf.mp,
    unescape_mangle srcEsc (by decide) _ wf.source, shadowing_contains]
  by_cases hov : m.fstype = b!"overlay"
  · rw [if_pos hov, overlay_opts_recovered_wf _ wf.super]
    simp [entryWith, expectedOf, hov]
  · rw [if_neg hov]
    simp [entryWith, expectedOf, hov]

/-- a bind-mounted overlay below a base path with a blank, two optional fields, overlay
    options in non-canonical order with a foreign option in between -/
def exMount : KMount :=
  { id := b!"52", parent := b!"31", dev := b!"0:47", root := b!"/", mp := b!"/my base/layers/x/build",
    opts := b!"rw,relatime", optional := [b!"shared:12", b!"master:3"], fstype := b!"overlay",
    source := b!"overlay",
    super := [⟨b!"rw", none⟩, ⟨b!"upperdir", some b!"/my base/layers/x/overlayfs/upperdir"⟩,
              ⟨b!"index", some b!"off"⟩, ⟨b!"lowerdir", some b!"/my base/layers/b/build"⟩,
              ⟨b!"workdir", some b!"/my base/layers/x/overlayfs/workdir"⟩] }

/-- a devtmpfs mount and a child of it: the child is a shadowed submount -/
def exDev : KMount :=
  { id := b!"24", parent := b!"1", dev := b!"0:6", root := b!"/", mp := b!"/dev", opts := b!"rw,nosuid",
    optional := [], fstype := b!"devtmpfs", source := b!"devtmpfs", super := [⟨b!"rw", none⟩] }
def exPts : KMount :=
  { id := b!"25", parent := b!"24", dev := b!"0:22", root := b!"/", mp := b!"/dev/pts", opts := b!"rw",
    optional := [b!"shared:3"], fstype := b!"devpts", source := b!"devpts",
    super := [⟨b!"rw", none⟩, ⟨b!"gid", some b!"5"⟩] }

macro "wf_concrete" : tactic =>
  `(tactic| (constructor <;> simp [TokenOK, KeyOK, IsB, exMount, exDev, exPts]))

theorem exMount_wf : exMount.WF := by wf_concrete
theorem exDev_wf : exDev.WF := by wf_concrete
theorem exPts_wf : exPts.WF := by wf_concrete

set_option maxRecDepth 8192 in
example : renderLine exMount =
    b!"52 31 0:47 / /my\\040base/layers/x/build rw,relatime shared:12 master:3 - overlay overlay rw,upperdir=/my\\040base/layers/x/overlayfs/upperdir,index=off,lowerdir=/my\\040base/layers/b/build,workdir=/my\\040base/layers/x/overlayfs/workdir" := by
  rfl

example : ∃ st', probeLine {} (renderLine exMount) = .ok st' ∧
    st'.m.list = [⟨b!"/my base/layers/b/build", b!"/my base/layers/x/build",
      b!"/my base/layers/x/overlayfs/upperdir", b!"/my base/layers/x/overlayfs/workdir",
      b!"overlay", b!"rw,relatime", false, b!"0:47", b!"/", b!"52", b!"31"⟩] :=
  ⟨_, probeLine_render exMount exMount_wf {}, by decide⟩

/-! ## 4. the whole table -/

/-- the entry expected for a mount that is listed after the mounts `pre` -/
def entryOf (pre : List KMount) (m : KMount) : MountType := entryWith (inShadowAt pre m) m

/-- the entries expected for a table: one per mount in table order; the shadow flag of
    each is computed from the part of the table before it -/
def entries (t : List KMount) : List MountType := t.mapIdx fun i m => entryOf (t.take i) m

/-- the device table expected for a table (first mount source per `major:minor`, the
    mountpoints of the mounts of its root directory) -/
def devicesOf (t : List KMount) : List Device :=
  t.foldl (fun d m => addDevice d m.dev m.source m.root m.mp) []

/-- the shadow flags of the expected entries are the specification's `shadowFlags` (which
    the driver's oracle compares the implementation's observation with) -/
theorem entries_inShadow (t : List KMount) : (entries t).map (·.inShadow) = shadowFlags t := by
  apply List.ext_getElem?
  intro i
  simp [entries, shadowFlags, entryOf, entryWith]
  rfl

theorem probeLines_render (rest pre : List KMount) (wf : ∀ m ∈ rest, m.WF) (st : PState)
    (hsh : st.shadow = shadowIds pre) :
    probeLines st (rest.map renderLine) = .ok
      { m := { list := st.m.list ++ rest.mapIdx (fun i m => entryOf (pre ++ rest.take i) m),
               devices := rest.foldl (fun d m => addDevice d m.dev m.source m.root m.mp)
                 st.m.devices },
        shadow := shadowIds (pre ++ rest) } := by
  induction rest generalizing pre st with
  | nil =>
    subst_vars
    cases st with
    | mk m sh =>
      cases m
      simp_all [probeLines]
  | cons m rest ih =>
    simp only [List.map_cons, probeLines]
    rw [probeLine_render m (wf m (by simp)) st]
    simp only
    rw [ih (pre ++ [m]) (fun x hx => wf x (by simp [hx])) _
      (by simp only [shadowIds_append_one, shadowStep, hsh])]
    simp only [List.mapIdx_cons, List.take_zero, List.take_succ_cons, List.append_nil,
      List.append_assoc, List.cons_append, List.nil_append, List.foldl_cons, entryOf,
      inShadowAt, hsh]

/-- **The mount table is read back exactly.**  For every table of well-formed mounts (any
    number of mounts, any parent structure, 0..n optional fields per line, any bytes in
    paths, any file-system types, overlay options in any order) the parser returns, in
    table order, exactly the expected entry of every mount and the expected device
    table. -/
theorem probe_render (t : List KMount) (wf : ∀ m ∈ t, m.WF) :
    probeMounts (render t) = .ok { list := entries t, devices := devicesOf t } := by
  unfold probeMounts
  rw [scanLines_render wf, probeLines_render t [] wf {} rfl]
  simp [entries, devicesOf, Except.map]

example : probeMounts (render [exDev, exPts, exMount]) = .ok
    { list := [entryWith false exDev, entryWith true exPts, entryWith false exMount],
      devices := devicesOf [exDev, exPts, exMount] } := by
  rw [probe_render _ (by
    intro m hm
    simp only [List.mem_cons, List.not_mem_nil, or_false] at hm
    rcases hm with rfl | rfl | rfl
    · exact exDev_wf
    · exact exPts_wf
    · exact exMount_wf)]
  congr 1

set_option maxRecDepth 8192 in
/-- `WF.superLast` is needed, and is the only restriction on path bytes: the kernel does
    not escape a carriage return, so an overlay whose *last* super option value ends in
    CR is printed as a line ending in "\r\n", and `bufio.ScanLines` drops the "\r" (the
    reader reports workdir "/w" for the mount whose workdir is "/w\r").  A CR anywhere
    else in a path is read back exactly (`probe_render`). -/
theorem cr_at_line_end_lost :
    let m : KMount := { exMount with super := [⟨b!"rw", none⟩, ⟨b!"lowerdir", some b!"/l"⟩,
      ⟨b!"upperdir", some b!"/u\r"⟩, ⟨b!"workdir", some b!"/w\r"⟩] }
    (expectedOf m).work = b!"/w\r" ∧ (expectedOf m).upper = b!"/u\r" ∧
    (probeMounts (render [m])).toOption.map (·.list.map fun e => (e.source2, e.workdir)) =
      some [(b!"/u\r", b!"/w")] := by
  decide

/-! ## 4b. an '=' inside an option value

  `seq_show_option` escapes ',' (and blank, tab, newline, backslash) in a value but not '=':
  an overlay over a directory called `cake=17.1` is listed as `lowerdir=/…/cake=17.1/…`.  The
  reader therefore has to cut `name=value` at the FIRST '=' only (`strings.SplitN(part, "=", 2)`);
  the name of a well-formed option contains no '=' (`KeyOK`), the value may contain any. -/

/-- an overlay mount at `mp` over three arbitrary directories, as the kernel lists it -/
def ovlMount (mp lo up wk : Bytes) : KMount :=
  { id := b!"61", parent := b!"30", dev := b!"0:52", root := b!"/", mp := mp,
    opts := b!"rw,relatime", optional := [b!"shared:7"], fstype := b!"overlay",
    source := b!"overlay",
    super := [⟨b!"rw", none⟩, ⟨b!"lowerdir", some lo⟩, ⟨b!"upperdir", some up⟩,
              ⟨b!"workdir", some wk⟩] }

/-- well-formed for all byte strings; the one condition is `WF.superLast` (the last byte of
    the line is not a carriage return, see `cr_at_line_end_lost`) -/
theorem ovlMount_wf (mp lo up wk : Bytes) (hmp : IsB mp) (hlo : IsB lo) (hup : IsB up)
    (hwk : IsB wk) (hcr : wk.getLast? ≠ some 13) : (ovlMount mp lo up wk).WF := by
  constructor
  case mp => exact hmp
  case super =>
    intro o ho
    simp only [ovlMount, List.mem_cons, List.not_mem_nil, or_false] at ho
    rcases ho with rfl | rfl | rfl | rfl
    · simp [KeyOK, TokenOK]
    · exact ⟨by simp [KeyOK, TokenOK], fun v hv => by cases hv; exact hlo⟩
    · exact ⟨by simp [KeyOK, TokenOK], fun v hv => by cases hv; exact hup⟩
    · exact ⟨by simp [KeyOK, TokenOK], fun v hv => by cases hv; exact hwk⟩
  case superLast =>
    intro o ho v hv
    simp only [ovlMount, List.getLast?_cons_cons, List.getLast?_singleton,
      Option.some.injEq] at ho
    subst ho
    cases hv
    exact hcr
  all_goals simp [ovlMount, TokenOK, IsB]

/-- the text of an option with a value carries every '=' of the value as it is: one '='
    more than name and value together, for every name and every byte string as value -/
theorem value_equals_in_text (k v : Bytes) :
    (renderSOpt ⟨k, some v⟩).count 61 = k.count 61 + 1 + v.count 61 := by
  simp only [renderSOpt, List.count_append, List.count_cons, mangle_optEsc_keeps_equals]
  simp; omega

/-- **An '=' inside an option value is read back.**  For every overlay mount whose
    mountpoint and lower/upper/work directories are arbitrary byte strings -- any number of
    '=' bytes (which the kernel writes unescaped), blanks, commas, backslashes (which it
    escapes), escape look-alikes -- parsing the kernel's text gives back exactly those three
    directories.  No condition on '='; the only hypothesis besides "bytes" is the one
    `cr_at_line_end_lost` shows to be necessary (last byte of the line not CR). -/
theorem option_value_with_equals_roundtrip (mp lo up wk : Bytes) (hmp : IsB mp) (hlo : IsB lo)
    (hup : IsB up) (hwk : IsB wk) (hcr : wk.getLast? ≠ some 13) :
    ∃ M e, probeMounts (render [ovlMount mp lo up wk]) = .ok M ∧ M.list = [e] ∧
      getMount M mp = some e ∧ e.fstype = b!"overlay" ∧
      e.mountpoint = mp ∧ e.source = lo ∧ e.source2 = up ∧ e.workdir = wk := by
  have wf : ∀ m ∈ [ovlMount mp lo up wk], m.WF := by
    intro m hm
    simp only [List.mem_cons, List.not_mem_nil, or_false] at hm
    subst hm
    exact ovlMount_wf mp lo up wk hmp hlo hup hwk hcr
  refine ⟨_, entryOf [] (ovlMount mp lo up wk), probe_render _ wf, ?_, ?_, ?_⟩
  · simp [entries]
  · simp [getMount, entries, entryOf, entryWith, expectedOf, ovlMount]
  · simp [entryOf, entryWith, expectedOf, ovlMount, lastVal]

/-- directories with one and with several '=' next to bytes the kernel does escape (blank,
    comma, backslash): the line as the kernel writes it ... -/
def exEq : KMount :=
  ovlMount b!"/my base/layers/x=1/build" b!"/a=b/c d" b!"/k=v=w,x\\y" b!"/cake=17.1/w="

set_option maxRecDepth 8192 in
example : renderLine exEq =
    b!"61 30 0:52 / /my\\040base/layers/x=1/build rw,relatime shared:7 - overlay overlay rw,lowerdir=/a=b/c\\040d,upperdir=/k=v=w\\054x\\134y,workdir=/cake=17.1/w=" := by
  rfl

/-- ... and what is read back from it -/
example : ∃ M e, probeMounts (render [exEq]) = .ok M ∧ M.list = [e] ∧
    getMount M b!"/my base/layers/x=1/build" = some e ∧ e.fstype = b!"overlay" ∧
    e.mountpoint = b!"/my base/layers/x=1/build" ∧ e.source = b!"/a=b/c d" ∧
    e.source2 = b!"/k=v=w,x\\y" ∧ e.workdir = b!"/cake=17.1/w=" :=
  option_value_with_equals_roundtrip _ _ _ _ (by simp [IsB]) (by simp [IsB]) (by simp [IsB])
    (by simp [IsB]) (by decide)

/-- the overlay-option step of a reader that cuts `name=value` at EVERY '='
    (`strings.Split(part, "=")` where fs/mounts.go has `strings.SplitN(part, "=", 2)`) and,
    like the Go code, takes pieces 0 and 1 when there are at least two -/
def ovlStepEvery (o : OvlOpts) (part : Bytes) : OvlOpts :=
  match splitOn 61 part with
  | k :: v :: _ =>
    if k = b!"lowerdir" then { o with lower := unescape v }
    else if k = b!"upperdir" then { o with upper := unescape v }
    else if k = b!"workdir" then { o with work := unescape v }
    else o
  | _ => o

def parseOverlayOptsEvery (superOpts : Bytes) : OvlOpts :=
  (splitOn 44 superOpts).foldl ovlStepEvery {}

/-- **Cutting at every '=' loses the value.**  On the kernel's text for an overlay over
    `/a=b/c` (upper `/k=v=w`, work `/cake=17.1/w`) the reader that splits at the first '='
    returns the directories, the one that splits at every '=' returns `/a`, `/k` and `/cake`:
    not what is mounted. -/
theorem split_at_every_equals_loses_value :
    let m := ovlMount b!"/mnt/x" b!"/a=b/c" b!"/k=v=w" b!"/cake=17.1/w"
    renderSuper m.super = b!"rw,lowerdir=/a=b/c,upperdir=/k=v=w,workdir=/cake=17.1/w" ∧
    (parseOverlayOpts (renderSuper m.super)).lower = (expectedOf m).lower ∧
    (expectedOf m).lower = b!"/a=b/c" ∧
    (parseOverlayOptsEvery (renderSuper m.super)).lower = b!"/a" ∧
    (parseOverlayOptsEvery (renderSuper m.super)).upper = b!"/k" ∧
    (parseOverlayOptsEvery (renderSuper m.super)).work = b!"/cake" ∧
    (parseOverlayOptsEvery (renderSuper m.super)).lower ≠ (expectedOf m).lower := by
  decide

/-- on values without '=' the two readers agree (the difference is exactly the '=' in a value) -/
example : (parseOverlayOptsEvery (renderSuper exMount.super)).lower =
    (parseOverlayOpts (renderSuper exMount.super)).lower := by decide

/-! ## 5. lookup by mountpoint -/

theorem entryOf_fields (pre : List KMount) (m : KMount) :
    (entryOf pre m).mountpoint = m.mp ∧ (entryOf pre m).fstype = m.fstype ∧
    (entryOf pre m).options = m.opts ∧ (entryOf pre m).stDev = m.dev ∧
    (entryOf pre m).root = m.root ∧ (entryOf pre m).inShadow = inShadowAt pre m ∧
    (m.fstype = b!"overlay" →
      (entryOf pre m).source = lastVal b!"lowerdir" m.super ∧
      (entryOf pre m).source2 = lastVal b!"upperdir" m.super ∧
      (entryOf pre m).workdir = lastVal b!"workdir" m.super) ∧
    (m.fstype ≠ b!"overlay" →
      (entryOf pre m).source = [] ∧ (entryOf pre m).source2 = [] ∧
      (entryOf pre m).workdir = []) := by
  by_cases h : m.fstype = b!"overlay" <;> simp [entryOf, entryWith, expectedOf, h]

theorem entries_split (pre post : List KMount) (km : KMount) :
    ∃ A B, entries (pre ++ km :: post) = A ++ entryOf pre km :: B ∧
      ∀ b ∈ B, ∃ x ∈ post, b.mountpoint = x.mp := by
  unfold entries
  rw [List.mapIdx_append, List.mapIdx_cons]
  simp only [Nat.zero_add, List.take_left']
  refine ⟨_, _, rfl, ?_⟩
  · intro b hb
    rw [List.mem_mapIdx] at hb
    obtain ⟨i, hi, rfl⟩ := hb
    exact ⟨post[i], List.getElem_mem hi, (entryOf_fields _ _).1⟩

/-- `GetMount(path)` on a parsed table returns the entry of the *last* mount with that
    mountpoint (the one visible at that path), whatever bytes the path contains. -/
theorem getMount_last (pre post : List KMount) (km : KMount)
    (wf : ∀ m ∈ pre ++ km :: post, m.WF) (hlast : ∀ x ∈ post, x.mp ≠ km.mp) :
    ∃ M, probeMounts (render (pre ++ km :: post)) = .ok M ∧
      getMount M km.mp = some (entryOf pre km) := by
  refine ⟨_, probe_render _ wf, ?_⟩
  obtain ⟨A, B, hAB, hB⟩ := entries_split pre post km
  unfold getMount
  simp only [hAB]
  apply find?_reverse_last
  · simp [(entryOf_fields pre km).1]
  · intro b hb
    obtain ⟨x, hx, hbx⟩ := hB b hb
    simp [hbx, hlast x hx]

/-- In a table with pairwise distinct mountpoints every mount is found at its mountpoint
    with exactly its expected entry. -/
theorem getMount_recovers (t : List KMount) (wf : ∀ m ∈ t, m.WF)
    (hd : t.Pairwise (fun a b => a.mp ≠ b.mp)) :
    ∃ M, probeMounts (render t) = .ok M ∧
      ∀ pre km post, t = pre ++ km :: post → getMount M km.mp = some (entryOf pre km) := by
  refine ⟨_, probe_render t wf, ?_⟩
  intro pre km post ht
  subst ht
  have hlast : ∀ x ∈ post, x.mp ≠ km.mp := by
    rw [List.pairwise_append] at hd
    have := (List.pairwise_cons.mp hd.2.1).1
    intro x hx e
    exact this x hx e.symm
  obtain ⟨M, hM, hg⟩ := getMount_last pre post km wf hlast
  rw [probe_render _ wf] at hM
  cases hM
  exact hg

example : ∃ M, probeMounts (render [exDev, exPts, exMount]) = .ok M ∧
    getMount M b!"/my base/layers/x/build" = some (entryWith false exMount) ∧
    getMount M b!"/dev/pts" = some (entryWith true exPts) := by
  have wf : ∀ m ∈ [exDev, exPts, exMount], m.WF := by
    intro m hm
    simp only [List.mem_cons, List.not_mem_nil, or_false] at hm
    rcases hm with rfl | rfl | rfl
    · exact exDev_wf
    · exact exPts_wf
    · exact exMount_wf
  obtain ⟨M, hM, hg⟩ := getMount_recovers _ wf (by decide)
  exact ⟨M, hM, hg [exDev, exPts] exMount [] rfl, hg [exDev] exPts [exMount] rfl⟩

/-- **A layer is recognised as mounted whatever bytes its base path contains.**  If the
    table lists a mount at `base/layers/name/build` (and no later mount covers that very
    path) then looking that path up in the parsed table finds it, with its type and
    overlay directories: for every byte string `base` (blanks, tabs, newlines,
    backslashes, escape look-alikes, ...). -/
theorem layer_recognised (base name : Bytes) (pre post : List KMount) (km : KMount)
    (hmp : km.mp = base ++ b!"/layers/" ++ name ++ b!"/build")
    (wf : ∀ m ∈ pre ++ km :: post, m.WF) (hlast : ∀ x ∈ post, x.mp ≠ km.mp) :
    ∃ M e, probeMounts (render (pre ++ km :: post)) = .ok M ∧
      getMount M (base ++ b!"/layers/" ++ name ++ b!"/build") = some e ∧
      e.mountpoint = base ++ b!"/layers/" ++ name ++ b!"/build" ∧ e.fstype = km.fstype ∧
      (km.fstype = b!"overlay" → e.source = lastVal b!"lowerdir" km.super ∧
        e.source2 = lastVal b!"upperdir" km.super ∧ e.workdir = lastVal b!"workdir" km.super) := by
  obtain ⟨M, hM, hg⟩ := getMount_last pre post km wf hlast
  have hf := entryOf_fields pre km
  exact ⟨M, entryOf pre km, hM, hmp ▸ hg, hmp ▸ hf.1, hf.2.1, hf.2.2.2.2.2.2.1⟩

/-- the overlay mount layercake makes for layer `name` over layer "b" below `base` -/
def layerMount (base name : Bytes) : KMount :=
  { id := b!"77", parent := b!"30", dev := b!"0:50", root := b!"/",
    mp := base ++ b!"/layers/" ++ name ++ b!"/build", opts := b!"rw,relatime",
    optional := [b!"shared:1"], fstype := b!"overlay", source := b!"overlay",
    super := [⟨b!"rw", none⟩, ⟨b!"lowerdir", some (base ++ b!"/layers/b/build")⟩,
              ⟨b!"upperdir", some (base ++ b!"/layers/" ++ name ++ b!"/overlayfs/upperdir")⟩,
              ⟨b!"workdir", some (base ++ b!"/layers/" ++ name ++ b!"/overlayfs/workdir")⟩] }

theorem getLast?_append_ne13 (a b : Bytes) (hne : b ≠ []) (hb : b.getLast? ≠ some 13) :
    (a ++ b).getLast? ≠ some 13 := by
  rw [List.getLast?_append]
  cases h : b.getLast? with
  | none => exact absurd (List.getLast?_eq_none_iff.mp h) hne
  | some x => rw [h] at hb; simpa using hb

theorem isB_append {a b : Bytes} (ha : IsB a) (hb : IsB b) : IsB (a ++ b) := by
  intro x hx
  rcases List.mem_append.mp hx with h | h
  · exact ha x h
  · exact hb x h

/-- the hypotheses of `layer_recognised` are satisfiable for *every* base path and layer
    name made of bytes -/
theorem layerMount_wf (base name : Bytes) (hb : IsB base) (hn : IsB name) :
    (layerMount base name).WF := by
  have lit : ∀ {s : Bytes}, (∀ x ∈ s, x < 256) → IsB s := fun h => h
  constructor
  case mp => exact isB_append (isB_append (isB_append hb (by simp [IsB])) hn) (by simp [IsB])
  case super =>
    intro o ho
    simp only [layerMount, List.mem_cons, List.not_mem_nil, or_false] at ho
    rcases ho with rfl | rfl | rfl | rfl
    · simp [KeyOK, TokenOK]
    · refine ⟨by simp [KeyOK, TokenOK], ?_⟩
      intro v hv; cases hv
      exact isB_append hb (by simp [IsB])
    · refine ⟨by simp [KeyOK, TokenOK], ?_⟩
      intro v hv; cases hv
      exact isB_append (isB_append (isB_append hb (by simp [IsB])) hn) (by simp [IsB])
    · refine ⟨by simp [KeyOK, TokenOK], ?_⟩
      intro v hv; cases hv
      exact isB_append (isB_append (isB_append hb (by simp [IsB])) hn) (by simp [IsB])
  case superLast =>
    intro o ho v hv
    simp only [layerMount, List.getLast?_cons_cons, List.getLast?_singleton,
      Option.some.injEq] at ho
    subst ho
    cases hv
    exact getLast?_append_ne13 _ _ (by simp) (by decide)
  all_goals simp [layerMount, TokenOK, IsB]

/-- for every base path: after the mount the layer is found, as an overlay over the
    right directories -/
theorem layer_recognised_any_base (base name : Bytes) (hb : IsB base) (hn : IsB name) :
    ∃ M e, probeMounts (render [exDev, exPts, layerMount base name]) = .ok M ∧
      getMount M (base ++ b!"/layers/" ++ name ++ b!"/build") = some e ∧
      e.fstype = b!"overlay" ∧ e.source = base ++ b!"/layers/b/build" ∧
      e.workdir = base ++ b!"/layers/" ++ name ++ b!"/overlayfs/workdir" := by
  have wf : ∀ m ∈ [exDev, exPts] ++ layerMount base name :: [], m.WF := by
    intro m hm
    simp only [List.cons_append, List.nil_append, List.mem_cons, List.not_mem_nil, or_false] at hm
    rcases hm with rfl | rfl | rfl
    · exact exDev_wf
    · exact exPts_wf
    · exact layerMount_wf base name hb hn
  obtain ⟨M, e, hM, hg, _, hf, hov⟩ :=
    layer_recognised base name [exDev, exPts] [] (layerMount base name) rfl wf (by simp)
  have := hov rfl
  refine ⟨M, e, hM, hg, hf, ?_, ?_⟩
  · rw [this.1]; simp [layerMount, lastVal]
  · rw [this.2.2]; simp [layerMount, lastVal]

/-! ## 6. shadowed submounts, bind-source candidates -/

/-- **InShadow ⇔ a proper ancestor is devtmpfs/sysfs.**  In a table with pairwise
    distinct mount ids that lists parents before children (a parent id may also refer to
    no listed mount, or to the mount itself as the kernel prints for the top of the tree),
    the shadow flag expected -- and by `probe_render` reported -- for a mount is set
    exactly when the mount is not itself of a shadowing type and some proper ancestor,
    following parent ids, is. -/
theorem shadow_iff_ancestor (t pre post : List KMount) (km : KMount)
    (ht : t = pre ++ km :: post) (hid : DistinctIds t) (hpf : ParentsFirst t) :
    (entryOf pre km).inShadow = true ↔
      (isShadowingType km.fstype = false ∧
        ∃ a, Ancestor t a km ∧ isShadowingType a.fstype = true) := by
  have hmem := mem_shadowIds t hid hpf pre (km :: post) ht
  have hidp : ∀ x ∈ pre, x.id ≠ km.id := by
    intro x hx
    have := hid
    unfold DistinctIds at this
    rw [ht, List.pairwise_append] at this
    exact this.2.2 x hx km (by simp)
  rw [(entryOf_fields pre km).2.2.2.2.2.1]
  unfold inShadowAt
  rw [Bool.and_eq_true, Bool.not_eq_true', List.contains_iff_mem, hmem]
  constructor
  · rintro ⟨h1, x, hx, hxid, hsx⟩
    exact ⟨h1, hsx.child ⟨by rw [ht]; simp [hx], hxid, hidp x hx⟩⟩
  · rintro ⟨h1, a, ha, hs⟩
    obtain ⟨b, hb, hsb⟩ := parent_of_ancestor ha hs
    refine ⟨h1, b, ?_, hb.2.1, hsb⟩
    have hbt := hb.1
    rw [ht] at hbt
    rcases List.mem_append.mp hbt with h | h
    · exact h
    · rcases List.mem_cons.mp h with h | h
      · subst h; exact absurd rfl hb.2.2
      · exact absurd hb.2.1 (hpf pre km post ht b h)

/-- /dev (devtmpfs) -> /dev/pts -> a bind mount below it: child and grandchild are
    shadowed, /dev itself and an unrelated mount are not -/
example :
    let sub : KMount := { exPts with id := b!"26", parent := b!"25", mp := b!"/dev/pts/x" }
    let t := [exDev, exPts, sub, exMount]
    DistinctIds t ∧ ParentsFirst t ∧
    (entries t).map (·.inShadow) = [false, true, true, false] := by
  refine ⟨by unfold DistinctIds; decide, ?_, by decide⟩
  intro pre m post ht x hx
  have hlen := congrArg List.length ht
  simp only [List.length_cons, List.length_nil, List.length_append] at hlen
  match pre, ht with
  | [], ht => simp at ht; obtain ⟨rfl, rfl⟩ := ht; revert x; decide
  | [_], ht => simp at ht; obtain ⟨_, rfl, rfl⟩ := ht; revert x; decide
  | [_, _], ht => simp at ht; obtain ⟨_, _, rfl, rfl⟩ := ht; revert x; decide
  | [_, _, _], ht => simp at ht; obtain ⟨_, _, _, rfl, rfl⟩ := ht; revert x; decide
  | _ :: _ :: _ :: _ :: _ :: _, ht => simp at hlen; omega

/-- **Bind-source candidates.**  For every mount of every table, `GetMountSources` on
    the parsed table returns exactly the candidates the specification lists: the overlay
    lowerdir if there is one; otherwise the device's mount source (for a mount of the
    device's root directory) followed by `mountpoint-of-a-root-mount/root` for every
    mount of the same device's root directory, except the mount's own mountpoint. -/
theorem sources_recovered (t : List KMount) (wf : ∀ m ∈ t, m.WF) :
    ∃ M, probeMounts (render t) = .ok M ∧
      ∀ pre km post, t = pre ++ km :: post →
        getMountSources M (entryOf pre km) = .ok (expectedSources t km) := by
  refine ⟨_, probe_render t wf, ?_⟩
  intro pre km post ht
  have hf := entryOf_fields pre km
  unfold getMountSources getDevice
  simp only [devicesOf, hf.2.2.2.1, find?_devices, devLookup]
  have hkm : km ∈ t := by rw [ht]; simp
  cases hfind : t.find? (·.dev == km.dev) with
  | none =>
    have := List.find?_eq_none.mp hfind km hkm
    simp at this
  | some f =>
    simp only [Option.map_some]
    unfold expectedSources
    by_cases hov : km.fstype = b!"overlay"
    · have ho := hf.2.2.2.2.2.2.1 hov
      by_cases hl : (lastVal b!"lowerdir" km.super).length > 0
      · simp [ho.1, hl, hov, hf.2.2.2.2.1, hf.1, hfind]
      · simp [ho.1, hl, hf.2.2.2.2.1, hf.1, hfind]
    · have ho := hf.2.2.2.2.2.2.2 hov
      simp [ho.1, hov, hf.2.2.2.2.1, hf.1, hfind]

/-- a bind mount of a subdirectory of the device that is mounted at "/my base": its
    source candidate is the path below that mountpoint -/
def exDisk : KMount :=
  { id := b!"30", parent := b!"1", dev := b!"8:1", root := b!"/", mp := b!"/my base", opts := b!"rw",
    optional := [b!"shared:1"], fstype := b!"ext4", source := b!"/dev/sda1", super := [⟨b!"rw", none⟩] }
def exBind : KMount :=
  { exDisk with id := b!"31", parent := b!"30", root := b!"/pkg dir", mp := b!"/my base/layers/x/build/var/db" }

example : expectedSources [exDisk, exBind] exBind = [b!"/my base/pkg dir"] ∧
    expectedSources [exDisk, exBind] exDisk = [b!"/dev/sda1"] := by
  decide

/-- (fix 23c682d) the same behind a subvolume: the device is mounted with root `/sub` on
    "/my base" and never with root `/`; the bind mount of `/sub/pkg dir` is found through it -/
def exSubvol : KMount := { exDisk with root := b!"/sub" }
def exBindSub : KMount := { exBind with root := b!"/sub/pkg dir" }
example : expectedSources [exSubvol, exBindSub] exBindSub = [b!"/my base/pkg dir"] ∧
    expectedSources [exSubvol, exBindSub] exSubvol = [] := by
  decide

/-- the root file system itself on a subvolume (`/@` mounted on `/`) and a bind of a directory
    below it: the candidate is the clean path `/var/db/repos`, not `//var/db/repos` (seeded
    change C12-agent5-3 joined the two by plain concatenation) -/
def exRootSub : KMount := { exDisk with root := b!"/@", mp := b!"/" }
def exBindRootSub : KMount := { exBind with root := b!"/@/var/db/repos" }
example : expectedSources [exRootSub, exBindRootSub] exBindRootSub = [b!"/var/db/repos"] := by
  decide

example : exDisk.WF ∧ exBind.WF := by
  constructor <;> constructor <;> simp [TokenOK, KeyOK, IsB, exDisk, exBind]

end Lc.Props.C12
